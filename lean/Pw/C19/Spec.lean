import Pw.C19.Model
open Closure MG

/-! # C19 specification

"acyclification(G) has G's nodes, an acyclic directed layer, and exactly these edges:
 i->j iff i is outside j's strongly connected component and has a directed edge into some member of
 it, and i<->j iff i and j lie in one component or some members of their components are joined by a
 bidirected edge.  Hence sigma_separated(G, X, Y, Z) is True iff every path between X and Y is
 sigma-blocked by Z (a collider outside the ancestors of Z, or a non-collider in Z with an outgoing
 path edge leaving its strongly connected component)."

Readings fixed here: a bidirected edge joins two *different* nodes (`i ≠ j`); "ancestors of Z"
contains Z (as in C01); a path is a simple path that picks one edge per hop. -/
namespace C19

/-- `a` and `b` lie in one strongly connected component: mutually reachable by directed paths -/
def SC (G : MG) (a b : Nat) : Prop := Anc G a b ∧ Anc G b a

/-- `i -> j` in the acyclification -/
def DirSpec (G : MG) (i j : Nat) : Prop := ¬ SC G i j ∧ ∃ k, SC G j k ∧ (i, k) ∈ G.dir

/-- `i <-> j` in the acyclification -/
def BiSpec (G : MG) (i j : Nat) : Prop :=
  i ≠ j ∧ (SC G i j ∨ ∃ a b, SC G i a ∧ SC G j b ∧ ((a, b) ∈ G.bi ∨ (b, a) ∈ G.bi))

/-- `A` is the acyclification of `G` -/
structure IsAcyclification (G A : MG) : Prop where
  nodes : A.nodes = G.nodes
  dir : ∀ i j, (i, j) ∈ A.dir ↔ DirSpec G i j
  bi : ∀ i j, ((i, j) ∈ A.bi ∨ (j, i) ∈ A.bi) ↔ BiSpec G i j
  un : A.un = G.un
  acyclic : Acyclic A

/-! ## sigma-blocking of a path -/

/-- condition at an inner node `v` of a path, entered from `u` through an edge with mark `min` at
    `v` and left towards `w` through an edge with mark `mout` at `v`:
    a collider must be an ancestor of Z; a non-collider must not be in Z unless every outgoing
    path edge at `v` stays inside the strongly connected component of `v`. -/
def sigmaCond (G : MG) (Z : List Nat) (u : Nat) (min : Mark) (v : Nat) (mout : Mark) (w : Nat) : Prop :=
  if min = .head ∧ mout = .head then ColliderOpen G Z v
  else v ∉ Z ∨ ((mout = .tail → SC G v w) ∧ (min = .tail → SC G v u))

/-- every inner node of the path `a, hs` is sigma-open; the first argument is (previous node, mark
    at `a` of the entering edge), `none` if `a` is the first node of the path -/
def OpenSig (G : MG) (Z : List Nat) : Option (Nat × Mark) → Nat → List Hop → Prop
  | _, _, [] => True
  | none, a, h :: t => OpenSig G Z (some (a, h.mn)) h.nx t
  | some (u, m), a, h :: t => sigmaCond G Z u m a h.mp h.nx ∧ OpenSig G Z (some (a, h.mn)) h.nx t

/-- a path from x to y that is not sigma-blocked by Z -/
def SigmaConnPath (G : MG) (Z : List Nat) (x y : Nat) : Prop :=
  ∃ hs, ValidW G x hs ∧ endNode x hs = y ∧ (nodesOf x hs).Nodup ∧ OpenSig G Z none x hs

/-- every path between X and Y is sigma-blocked by Z -/
def SigmaSep (G : MG) (X Y Z : List Nat) : Prop :=
  ∀ x ∈ X, ∀ y ∈ Y, ¬ SigmaConnPath G Z x y

/-- the full statement of C19 about `sigma_separated` for a function `f` -/
def SigmaSpec (f : MG → List Nat → List Nat → List Nat → Bool) (G : MG) (X Y Z : List Nat) : Prop :=
  f G X Y Z = true ↔ SigmaSep G X Y Z

/-! ## executable deciders (oracles of the harness) -/

def scB (G : MG) (a b : Nat) : Bool := reach G a b && reach G b a

def dirSpecB (G : MG) (i j : Nat) : Bool :=
  !scB G i j && G.nodes.any fun k => scB G j k && decide ((i, k) ∈ G.dir)

def biSpecB (G : MG) (i j : Nat) : Bool :=
  i != j && (scB G i j || G.nodes.any fun a => G.nodes.any fun b =>
    scB G i a && scB G j b && (decide ((a, b) ∈ G.bi) || decide ((b, a) ∈ G.bi)))

def allPairs (G : MG) : List (Nat × Nat) := G.nodes.flatMap fun i => G.nodes.map (i, ·)

/-- the acyclification computed from the edge characterisation alone -/
def acySpecG (G : MG) : MG :=
  { nodes := G.nodes,
    dir := (allPairs G).filter fun e => dirSpecB G e.1 e.2,
    bi := (allPairs G).filter fun e => biSpecB G e.1 e.2,
    un := G.un, circ := G.circ }

/-- all hops available at `a` -/
def hopsFrom (G : MG) (a : Nat) : List Hop :=
  (G.children a).map (⟨.tail, .head, ·⟩) ++ (G.parents a).map (⟨.head, .tail, ·⟩) ++
  (G.spouses a).map (⟨.head, .head, ·⟩) ++ (G.unbrs a).map (⟨.tail, .tail, ·⟩)

/-- all simple paths (as hop lists) of at most `fuel` hops from `a` that avoid `vis` -/
def pathsFrom (G : MG) : Nat → List Nat → Nat → List (List Hop)
  | 0, _, _ => [[]]
  | f + 1, vis, a =>
    [] :: ((hopsFrom G a).filter (·.nx ∉ vis)).flatMap fun h =>
      (pathsFrom G f (h.nx :: vis) h.nx).map (h :: ·)

def sigmaCondB (G : MG) (Z anZ : List Nat) (u : Nat) (min : Mark) (v : Nat) (mout : Mark) (w : Nat) : Bool :=
  if min = .head ∧ mout = .head then decide (v ∈ anZ)
  else decide (v ∉ Z) || ((mout != .tail || scB G v w) && (min != .tail || scB G v u))

def openSigB (G : MG) (Z anZ : List Nat) : Option (Nat × Mark) → Nat → List Hop → Bool
  | _, _, [] => true
  | none, a, h :: t => openSigB G Z anZ (some (a, h.mn)) h.nx t
  | some (u, m), a, h :: t =>
    sigmaCondB G Z anZ u m a h.mp h.nx && openSigB G Z anZ (some (a, h.mn)) h.nx t

/-- brute-force decider of sigma-separation: enumerate the simple paths of G -/
def sigmaSepDec (G : MG) (X Y Z : List Nat) : Bool :=
  let anZ := G.anc Z
  X.all fun x => Y.all fun y =>
    !((pathsFrom G G.nodes.length [x] x).any fun hs =>
        endNode x hs == y && openSigB G Z anZ none x hs)

end C19
