/-! # C02 model: `MixedEdgeGraph` (pywhy_graphs/networkx/classes/mixededge.py) and `ADMG`
(pywhy_graphs/classes/admg.py) as a store of objects addressed by handle.

networkx `Graph` / `DiGraph` are modelled as `Layer`: an insertion-ordered node list plus a list of
stored edges `((u,v), attrs)`; lookup is symmetric for `Kind.und` (nx.Graph) and ordered for
`Kind.dir` (nx.DiGraph).  Attribute dicts are association lists (`dict.update` = prepend).

Every `MEG.*` function mirrors the Python method of the same name branch by branch (model of the
tree *after* the `fix:` commits: the `adj` cache is reset whenever an edge type is added or removed, so
`adj` always shows the current layers; `size` accumulates; copy/subgraph drop pre-created edge types the
original does not have).  Results are `(new state, ok?)` because a
rejected call (an exception escapes) may already have mutated the object, e.g. `add_edge` adds the
endpoints before it looks up the edge type. -/
namespace C02

inductive Kind | und | dir
deriving DecidableEq, Repr

/-- attribute dict: association list, first match wins -/
abbrev Attr := List (Nat × Nat)
/-- `a.update(b)` -/
def Attr.upd (a b : Attr) : Attr := b ++ a
/-- `a.get(k)` -/
def Attr.get (a : Attr) (k : Nat) : Option Nat := List.lookup k a

/-- do the stored key `e` and the queried pair `f` denote the same edge of a layer of kind `k` -/
def same (k : Kind) (e f : Nat × Nat) : Bool :=
  (e.1 == f.1 && e.2 == f.2) || (k == .und && e.1 == f.2 && e.2 == f.1)

/-- a networkx Graph (`und`) or DiGraph (`dir`) -/
structure Layer where
  kind : Kind
  nodes : List Nat := []
  edges : List ((Nat × Nat) × Attr) := []
deriving Repr

namespace Layer
/-- `G.has_edge(u, v)` -/
def has (L : Layer) (u v : Nat) : Bool := L.edges.any fun e => same L.kind e.1 (u, v)
/-- `G.add_node(v)` -/
def addNode (L : Layer) (v : Nat) : Layer := if v ∈ L.nodes then L else { L with nodes := L.nodes ++ [v] }
def addNodes (L : Layer) (vs : List Nat) : Layer := vs.foldl addNode L
/-- `G.add_edge(u, v, **a)`: endpoints are added, an existing edge gets its dict updated -/
def addEdge (L : Layer) (u v : Nat) (a : Attr) : Layer :=
  let L := (L.addNode u).addNode v
  if L.has u v then
    { L with edges := L.edges.map fun e => if same L.kind e.1 (u, v) then (e.1, e.2.upd a) else e }
  else { L with edges := L.edges ++ [((u, v), a)] }
/-- `G.add_edges_from(es, **a)` -/
def addEdges (L : Layer) (es : List (Nat × Nat)) (a : Attr) : Layer :=
  es.foldl (fun L e => L.addEdge e.1 e.2 a) L
/-- silent removal (`remove_edges_from` of one edge) -/
def dropEdge (L : Layer) (u v : Nat) : Layer :=
  { L with edges := L.edges.filter fun e => !same L.kind e.1 (u, v) }
/-- `G.remove_edge(u, v)`; `none` = NetworkXError -/
def removeEdge (L : Layer) (u v : Nat) : Option Layer := if L.has u v then some (L.dropEdge u v) else none
def removeEdges (L : Layer) (es : List (Nat × Nat)) : Layer := es.foldl (fun L e => L.dropEdge e.1 e.2) L
/-- silent node removal (`remove_nodes_from` of one node) -/
def dropNode (L : Layer) (v : Nat) : Layer :=
  { L with nodes := L.nodes.filter (· != v), edges := L.edges.filter fun e => e.1.1 != v && e.1.2 != v }
/-- `G.remove_node(v)`; `none` = NetworkXError -/
def removeNode (L : Layer) (v : Nat) : Option Layer := if v ∈ L.nodes then some (L.dropNode v) else none
def removeNodes (L : Layer) (vs : List Nat) : Layer := vs.foldl dropNode L
def clearEdges (L : Layer) : Layer := { L with edges := [] }
/-- `G.degree(v)` (Graph: neighbours, self loop twice; DiGraph: in + out) -/
def degree (L : Layer) (v : Nat) : Nat :=
  L.edges.countP (fun e => e.1.1 == v) + L.edges.countP (fun e => e.1.2 == v)
/-- `G.number_of_edges()` -/
def numEdges (L : Layer) : Nat := L.edges.length
/-- `nx.all_neighbors(G, v)` (Graph: neighbours; DiGraph: predecessors and successors) -/
def allNeighbors (L : Layer) (v : Nat) : List Nat :=
  L.edges.filterMap fun e => if e.1.1 == v then some e.1.2 else if e.1.2 == v then some e.1.1 else none
/-- `G.adj[v]` with data (Graph: neighbours; DiGraph: successors) -/
def adj (L : Layer) (v : Nat) : List (Nat × Attr) :=
  L.edges.filterMap fun e =>
    if e.1.1 == v then some (e.1.2, e.2)
    else if L.kind == .und && e.1.2 == v then some (e.1.1, e.2) else none
/-- a fresh networkx graph of kind `k` built from nodes and edges (argument of `add_edge_type`) -/
def build (k : Kind) (ns : List Nat) (es : List (Nat × Nat)) : Layer :=
  (({ kind := k } : Layer).addNodes ns).addEdges es []
end Layer

/-- edge-type argument: `'all'` or one name -/
inductive EType | all | one (t : Nat)
deriving DecidableEq, Repr

/-- a MixedEdgeGraph / ADMG object -/
structure MEG where
  admg : Bool := false
  nodes : List (Nat × Attr) := []
  layers : List (Nat × Layer) := []
  gattr : Attr := []
deriving Repr

namespace MEG
def nodeIds (g : MEG) : List Nat := g.nodes.map (·.1)
def hasNode (g : MEG) (v : Nat) : Bool := g.nodeIds.contains v
def layer? (g : MEG) (t : Nat) : Option Layer := List.lookup t g.layers
def names (g : MEG) : List Nat := g.layers.map (·.1)
/-- `_apply_to_all_graphs` -/
def applyAll (g : MEG) (f : Layer → Layer) : MEG := { g with layers := g.layers.map fun p => (p.1, f p.2) }
/-- replace the layer stored under `t` -/
def setLayer (g : MEG) (t : Nat) (L : Layer) : MEG :=
  { g with layers := g.layers.map fun p => if p.1 == t then (p.1, L) else p }

/-- `add_node(v, **a)` -/
def addNode (g : MEG) (v : Nat) (a : Attr) : MEG :=
  let g := if g.hasNode v then
      { g with nodes := g.nodes.map fun p => if p.1 == v then (p.1, p.2.upd a) else p }
    else { g with nodes := g.nodes ++ [(v, a)] }
  g.applyAll (·.addNode v)
/-- `add_nodes_from(vs, **a)` -/
def addNodes (g : MEG) (vs : List Nat) (a : Attr) : MEG := vs.foldl (fun g v => g.addNode v a) g
/-- `remove_node(v)` -/
def removeNode (g : MEG) (v : Nat) : MEG × Bool :=
  if g.hasNode v then
    (({ g with nodes := g.nodes.filter (·.1 != v) } : MEG).applyAll fun L => (L.removeNode v).getD L, true)
  else (g, false)
/-- `remove_nodes_from(vs)` -/
def removeNodes (g : MEG) (vs : List Nat) : MEG :=
  ({ g with nodes := g.nodes.filter fun p => !vs.contains p.1 } : MEG).applyAll (·.removeNodes vs)
/-- the endpoints are added first (`if u not in self._node: self.add_node(u)`) -/
def ensureNode (g : MEG) (v : Nat) (a : Attr) : MEG := if g.hasNode v then g else g.addNode v a
/-- `add_edge(u, v, edge_type, **a)` -/
def addEdge (g : MEG) (u v : Nat) (t : EType) (a : Attr) : MEG × Bool :=
  let g := (g.ensureNode u []).ensureNode v []
  match t with
  | .all => (g.applyAll (·.addEdge u v a), true)
  | .one t => match g.layer? t with
    | none => (g, false)
    | some L => (g.setLayer t (L.addEdge u v a), true)
/-- `add_edges_from(es, edge_type, **a)`: new endpoints get `**a` as node attributes -/
def addEdges (g : MEG) (es : List (Nat × Nat)) (t : EType) (a : Attr) : MEG × Bool :=
  let g := es.foldl (fun g e => (g.ensureNode e.1 a).ensureNode e.2 a) g
  match t with
  | .all => (g.applyAll (·.addEdges es a), true)
  | .one t => match g.layer? t with
    | none => (g, false)
    | some L => (g.setLayer t (L.addEdges es a), true)
/-- `remove_edge(u, v, edge_type)`; under `'all'` the per-layer NetworkXError is swallowed -/
def removeEdge (g : MEG) (u v : Nat) (t : EType) : MEG × Bool :=
  match t with
  | .all => (g.applyAll fun L => (L.removeEdge u v).getD L, true)
  | .one t => match g.layer? t with
    | none => (g, false)
    | some L => match L.removeEdge u v with
      | none => (g, false)
      | some L' => (g.setLayer t L', true)
/-- `remove_edges_from(es, edge_type)` -/
def removeEdges (g : MEG) (es : List (Nat × Nat)) (t : EType) : MEG × Bool :=
  match t with
  | .all => (g.applyAll (·.removeEdges es), true)
  | .one t => match g.layer? t with
    | none => (g, false)
    | some L => (g.setLayer t (L.removeEdges es), true)
/-- `clear_edges(edge_type)` -/
def clearEdges (g : MEG) (t : EType) : MEG × Bool :=
  match t with
  | .all => (g.applyAll (·.clearEdges), true)
  | .one t => match g.layer? t with
    | none => (g, false)
    | some L => (g.setLayer t L.clearEdges, true)
/-- `add_edge_type(graph, t)`: store, `graph.add_nodes_from(self._node)`, `self.add_nodes_from(graph.nodes)` -/
def addEdgeType (g : MEG) (t : Nat) (L : Layer) : MEG × Bool :=
  if g.names.contains t then (g, false) else
    let L1 := L.addNodes g.nodeIds
    let g1 : MEG := { g with layers := g.layers ++ [(t, L1)] }
    (g1.addNodes L1.nodes [], true)
/-- `remove_edge_type(t)` (`dict.pop`, KeyError if absent) -/
def removeEdgeType (g : MEG) (t : Nat) : MEG × Bool :=
  if g.names.contains t then ({ g with layers := g.layers.filter (·.1 != t) }, true) else (g, false)
/-- `G.graph.update(a)` -/
def setGAttr (g : MEG) (a : Attr) : MEG := { g with gattr := g.gattr.upd a }

/-- `cls()`: ADMG pre-creates directed(0, DiGraph), bidirected(1, Graph), undirected(2, Graph) -/
def fresh (admg : Bool) : MEG :=
  if admg then
    { admg := true, layers := [(0, { kind := .dir }), (1, { kind := .und }), (2, { kind := .und })] }
  else {}

/-- shared head of `copy` / `subgraph`: a fresh object of the class whose edge types are made to
    agree with `g` (pre-created ones that `g` lacks are dropped, missing ones are added empty) -/
def skeleton (g : MEG) : MEG :=
  let G := fresh g.admg
  let G : MEG := { G with layers := G.layers.filter fun p => g.names.contains p.1 }
  g.layers.foldl (fun G p => if G.names.contains p.1 then G else (G.addEdgeType p.1 { kind := p.2.kind }).1) G

/-- `copy()`: graph attrs, layers, nodes with attrs, then every `adj` entry through `add_edge` -/
def copy (g : MEG) : MEG :=
  let G := { g.skeleton with gattr := Attr.upd [] g.gattr }
  let G := g.nodes.foldl (fun G p => G.addNode p.1 p.2) G
  g.layers.foldl (fun G p =>
    p.2.nodes.foldl (fun G u =>
      (p.2.adj u).foldl (fun G va => (G.addEdge u va.1 (.one p.1) va.2).1) G) G) G

/-- `subgraph(ns)`: fresh object with the graph attrs, the given nodes, and for every layer the
    stored edges seen from each given node whose endpoints are both given (no attributes) -/
def subgraph (g : MEG) (ns : List Nat) : MEG :=
  let G := { g.skeleton with gattr := Attr.upd [] g.gattr }
  let G := G.addNodes ns []
  G.layers.foldl (fun (G : MEG) (p : Nat × Layer) =>
    match g.layer? p.1 with
    | none => G
    | some L =>
      ns.foldl (fun G u =>
        (L.adj u).foldl (fun G va =>
          if ns.contains u && ns.contains va.1 then
            match G.layer? p.1 with
            | some LG => G.setLayer p.1 (LG.addEdge u va.1 [])
            | none => G
          else G) G) G) G

/-! ### read queries -/
/-- `has_edge(u, v)` (any) -/
def hasEdgeAny (g : MEG) (u v : Nat) : Bool := g.layers.any fun p => p.2.has u v
/-- `has_edge(u, v, t)`; `none` = ValueError -/
def hasEdgeT (g : MEG) (u v t : Nat) : Option Bool := (g.layer? t).map (·.has u v)
/-- `number_of_edges()` -/
def numEdgesAll (g : MEG) : Nat := (g.layers.map (·.2.numEdges)).sum
/-- `number_of_edges(u, v)` for `u` a node of the graph -/
def numEdgesUV (g : MEG) (u v : Nat) : Nat := (g.layers.map fun p => if p.2.has u v then 1 else 0).sum
/-- `size()`: sum over the layers of the degree sums, halved -/
def sizeAll (g : MEG) : Nat := (g.layers.map fun p => (p.2.nodes.map p.2.degree).sum).sum / 2
/-- `size(edge_type=t)` -/
def sizeT (g : MEG) (t : Nat) : Option Nat := (g.layer? t).map fun L => (L.nodes.map L.degree).sum / 2
/-- `neighbors(v)` (union over the layers of `all_neighbors`) -/
def neighbors (g : MEG) (v : Nat) : List Nat := g.layers.flatMap fun p => p.2.allNeighbors v
/-- edges of `to_undirected()` / `to_directed()`: every `adj` entry of every layer -/
def adjPairs (g : MEG) : List (Nat × Nat) :=
  g.layers.flatMap fun p => p.2.nodes.flatMap fun u => (p.2.adj u).map fun va => (u, va.1)
end MEG

/-! ### the store -/
inductive GOp
  | addNode (v : Nat) (a : Attr)
  | addNodes (vs : List Nat) (a : Attr)
  | removeNode (v : Nat)
  | removeNodes (vs : List Nat)
  | addEdge (u v : Nat) (t : EType) (a : Attr)
  | addEdges (es : List (Nat × Nat)) (t : EType) (a : Attr)
  | removeEdge (u v : Nat) (t : EType)
  | removeEdges (es : List (Nat × Nat)) (t : EType)
  | clearEdges (t : EType)
  | addEdgeType (t : Nat) (k : Kind) (ns : List Nat) (es : List (Nat × Nat))
  | removeEdgeType (t : Nat)
  | setGAttr (a : Attr)
deriving Repr

/-- one mutation of one object -/
def MEG.step (g : MEG) : GOp → MEG × Bool
  | .addNode v a => (g.addNode v a, true)
  | .addNodes vs a => (g.addNodes vs a, true)
  | .removeNode v => g.removeNode v
  | .removeNodes vs => (g.removeNodes vs, true)
  | .addEdge u v t a => g.addEdge u v t a
  | .addEdges es t a => g.addEdges es t a
  | .removeEdge u v t => g.removeEdge u v t
  | .removeEdges es t => g.removeEdges es t
  | .clearEdges t => g.clearEdges t
  | .addEdgeType t k ns es => g.addEdgeType t (Layer.build k ns es)
  | .removeEdgeType t => g.removeEdgeType t
  | .setGAttr a => (g.setGAttr a, true)

inductive Op
  | new (admg : Bool)
  | on (h : Nat) (op : GOp)
  | copy (h : Nat)
  | subgraph (h : Nat) (ns : List Nat)
deriving Repr

/-- live objects; a handle is an index -/
abbrev Store := List MEG

def Store.set' (s : Store) (h : Nat) (g : MEG) : Store := s.set h g

/-- one step of a history; an unknown handle is a no-op reported as not-ok -/
def Store.step (s : Store) : Op → Store × Bool
  | .new a => (s ++ [MEG.fresh a], true)
  | .on h op => match s[h]? with
    | none => (s, false)
    | some g => let r := g.step op; (s.set h r.1, r.2)
  | .copy h => match s[h]? with
    | none => (s, false)
    | some g => (s ++ [g.copy], true)
  | .subgraph h ns => match s[h]? with
    | none => (s, false)
    | some g => (s ++ [g.subgraph ns], true)

/-- run a history, collecting the store after every step together with the ok flag -/
def Store.run (s : Store) : List Op → List (Store × Bool)
  | [] => []
  | op :: ops => let r := s.step op; r :: Store.run r.1 ops

def Store.exec (s : Store) (ops : List Op) : Store := ops.foldl (fun s op => (s.step op).1) s

end C02
