import Pw.C08.Model
open Closure

/-! # C09 model: `pag_to_mag` (pywhy_graphs/algorithms/pag.py), as on the tree after the `fix:` commit
(the result keeps every node, the bidirected and the undirected edges of the PAG).

A PAG is an `MG`: `circ` holds `(u, v)` for a circle mark at `v` (`u *-o v`).  `x o-> y` is
`(x,y) ∈ dir` together with `(y,x) ∈ circ`; `x o-o y` is both circle edges; `x -o y` is `(x,y) ∈ circ`
alone.  Iteration orders are inputs: the list order of `P.circ` is the iteration order of the Python
set `cedges`; `inner` is the iteration order of node sets inside the Meek closure. -/
namespace C09

/-- the three lists built by the classification loop -/
structure Cls where
  toRemove : List (Nat × Nat) := []
  toReorient : List (Nat × Nat) := []
  toAdd : List (Nat × Nat) := []

/-- one iteration of `for u, v in cedges` -/
def classifyStep (P : MG) (c : Cls) (e : Nat × Nat) : Cls :=
  let u := e.1
  let v := e.2
  if (v, u) ∈ P.dir then { c with toRemove := c.toRemove ++ [(u, v)] }        -- `v o-> u`: drop the circle
  else if (v, u) ∉ P.circ then { c with toReorient := c.toReorient ++ [(u, v)] }  -- `u -o v`: orient `u -> v`
  else if (v, u) ∉ c.toAdd then { c with toAdd := c.toAdd ++ [(u, v)] }           -- `u o-o v`: collect once
  else c

def classify (P : MG) : Cls := P.circ.foldl (classifyStep P) {}

/-- nodes of the temporary CPDAG in insertion order (`add_edge(v, u)` adds `v` then `u`) -/
def tempNodes (toAdd : List (Nat × Nat)) : List Nat :=
  (toAdd.flatMap fun e => [e.2, e.1]).eraseDups

/-- the temporary CPDAG holding the `o-o` component as undirected edges -/
def tempCpdag (c : Cls) : MG :=
  { nodes := tempNodes c.toAdd, un := c.toAdd.map fun e => (e.2, e.1) }

/-- first element of `temp_cpdag.undirected_edges` (a `networkx.Graph` edge view: first node, in node
    order, that has an undirected neighbour, paired with its first neighbour in insertion order) -/
def firstUn (T : MG) : Option (Nat × Nat) :=
  T.nodes.findSome? fun n =>
    (T.un.find? fun e => e.1 == n || e.2 == n).map fun e => (n, if e.1 == n then e.2 else e.1)

/-- `while flag`: orient the first undirected edge, close under the Meek rules, repeat -/
def orientLoop (inner : List Nat) : Nat → MG → MG
  | 0, T => T
  | f + 1, T =>
    match firstUn T with
    | none => T
    | some (u, v) => orientLoop inner f (C08.meek (C08.orient T u v) inner)

/-- the working copy after the three mutation loops -/
def copyGraph (P : MG) (c : Cls) : MG :=
  { P with circ := P.circ.filter (fun e => e ∉ c.toRemove ∧ e ∉ c.toReorient),
           dir := P.dir ++ c.toReorient }

/-- `pag_to_mag(P)` -/
def pagToMag (P : MG) (inner : List Nat) : MG :=
  let c := classify P
  let cg := copyGraph P c
  let T0 := tempCpdag c
  let T := orientLoop inner T0.un.length T0
  { nodes := P.nodes, dir := cg.dir ++ T.dir, bi := P.bi, un := P.un, circ := [] }

end C09
