"""C10: bidirected_to_unobserved_confounder (networkx/algorithms/causal/convert.py).

Deciding comparisons (all Lean-side):
  * structure sentence: the implementation's returned DiGraph is sent to the driver, which decides
    the specification `C10.Struct` (and `C10.Exact`) on it (`c10valid`); new-node *names* are a
    witness and are never compared with the model's names;
  * separation sentence: `MG.mSeparated` (proved = path-level m-/d-separation, C01) is evaluated by
    the driver on the implementation's result and on the input, for all disjoint (X,Y,Z) of original
    nodes (`c10sepall`, n<=4) or for sampled queries (`msep` / `c10sep`).
Cross-checks (not deciding): networkx.is_d_separator on the result, pywhy m_separated on the input,
the Lean model `convS` (structure modulo new-node names) and `convMG` (separation).  On random cases
the two Python cross-checks run on the first 3 of the 8 queries (they dominate the run time)."""
import copy
import itertools
import re

from . import common as C
from .shrink import _graph_variants

PID = "C10"
UC = {"label": "Unobserved Confounders", "observed": "no"}
# attribute pool; the index is the attribute token of the Lean model (0 = ucAttr, 1 = emptyAttr)
ATTRS = [UC, {}, {"w": 1.5}, {"tags": [1, 2]}, {"label": "x"}, {"observed": "yes", "k": {"a": [0]}}]
SAFE = re.compile(r"^[A-Za-z0-9_.+]+$")


# ----------------------------------------------------------------------------- labels
def mk_label(spec):
    k, v = spec
    if k == "s":
        return "".join(list(v))          # built at run time
    if k == "i":
        return int(str(v))
    if k == "t":
        return tuple(mk_label(x) if isinstance(x, list) else x for x in v)
    if k == "f":
        return frozenset(v)
    raise ValueError(spec)


def lean_name(spec, i):
    if spec[0] == "s" and SAFE.match(spec[1]):
        return spec[1]
    return "~%d" % i


def label_family(rng, fam, n, nb):
    """label specs for n nodes; nb = number of bidirected edges (how many names get generated)"""
    if fam == "plain":
        return [["s", "X%d" % (i + 1)] if i % 2 == 0 else ["s", "Yv%d" % i] for i in range(n)]
    if fam == "int":
        return [["i", i] for i in range(n)]
    if fam == "bigint":
        return [["i", 1000 + 31 * i] for i in range(n)]
    if fam == "tuple":
        return [["t", ["U%d" % i]] if i % 2 == 0 else ["t", ["n", i]] for i in range(n)]
    if fam == "frozenset":
        return [["f", [i, -1 - i]] for i in range(n)]
    if fam == "nested":          # labels that contain other labels of the same graph
        base = [["s", "p0"], ["s", "q1"], ["t", ["p0", "q1"]], ["f", ["p0", "q1"]], ["t", ["q1", "p0"]], ["f", ["p0"]],
                ["t", ["p0"]], ["t", ["q1"]], ["f", ["q1"]]]
        return [base[i] if i < len(base) else ["t", ["p0", "q1", i]] for i in range(n)]
    if fam == "udense":          # exactly U0..U{n-1}
        ks = list(range(n))
        rng.shuffle(ks)
        return [["s", "U%d" % k] for k in ks]
    if fam == "ucoll":           # a random subset of the names the code may generate, rest plain
        pool = list(range(n + nb + 1))
        rng.shuffle(pool)
        out = []
        for i in range(n):
            out.append(["s", "U%d" % pool[i]] if rng.random() < 0.7 else ["s", "v%d" % i])
        return out
    if fam == "ugap":            # U1, U3, U5 …: generated names interleave with user names
        return [["s", "U%d" % (2 * i + 1)] for i in range(n)]
    if fam == "unear":           # look like generated names but are not
        pool = ["U00", "U01", "u0", "U_0", "U", "U1x", "0", "U+1", "U0.0", "UU0", "U10", "U007"]
        rng.shuffle(pool)
        return [["s", pool[i % len(pool)] + ("" if i < len(pool) else str(i))] for i in range(n)]
    if fam == "mixed":           # str 'U<k>' next to int k and tuple ('U<k>',)
        out = []
        for i in range(n):
            r = i % 3
            out.append(["s", "U%d" % (i // 3)] if r == 0 else (["i", i // 3] if r == 1 else ["t", ["U%d" % (i // 3)]]))
        rng.shuffle(out)
        return out
    raise ValueError(fam)


FAMILIES = ("plain", "int", "bigint", "tuple", "frozenset", "udense", "ucoll", "ugap", "unear", "mixed", "nested")
COLLIDING = ("udense", "ucoll", "ugap", "mixed")


# ----------------------------------------------------------------------------- implementation side
def attr_id(d):
    for i, a in enumerate(ATTRS):
        if a == d:
            return i
    return 99


def build(case, labs):
    import networkx as nx
    import pywhy_graphs.networkx as pywhy_nx
    g = case["g"]
    order = C.g_nodes(g)
    names = case.get("names") or ["directed", "bidirected"]
    cls = case.get("cls", "mixed")
    if cls == "ADMG":
        from pywhy_graphs import ADMG
        G = ADMG()
        dn, bn = "directed", "bidirected"
    else:
        dn, bn = names
        layers = [(dn, nx.DiGraph()), (bn, nx.Graph())]
        if cls == "mixed-bd":       # bidirected layer first
            layers.reverse()
        if cls == "mixed-u":        # an (empty) undirected layer is present
            layers.append(("undirected", nx.Graph()))
        G = pywhy_nx.MixedEdgeGraph(graphs=[x[1] for x in layers], edge_types=[x[0] for x in layers])
    late = case.get("late", 0)
    for v in order:
        if late == 3:
            # created WITH attributes, which are then replaced / deleted through the node view: what
            # G.nodes[n] says now are the node's attributes (the layers still remember the old ones)
            G.add_node(labs[v], label="stale", observed="stale", w=-1, tags="stale", k="stale", stale=True)
            G.nodes[labs[v]].clear()
            G.nodes[labs[v]].update(copy.deepcopy(ATTRS[case["attrs"][v]]))
        elif late and (v % 2 == 0 or late == 2):
            # attributes written after the node was created (G.nodes[n][k] = v / set_node_attributes):
            # they are G's node attributes just as much as those passed to add_node
            G.add_node(labs[v])
            if late == 2:
                nx.set_node_attributes(G, {labs[v]: copy.deepcopy(ATTRS[case["attrs"][v]])})
            else:
                for k_, v_ in copy.deepcopy(ATTRS[case["attrs"][v]]).items():
                    G.nodes[labs[v]][k_] = v_
        else:
            G.add_node(labs[v], **copy.deepcopy(ATTRS[case["attrs"][v]]))
    for a, b in g["D"]:
        G.add_edge(labs[a], labs[b], edge_type=dn)
    for a, b in g["B"]:
        G.add_edge(labs[a], labs[b], edge_type=bn)
    if case.get("gattr"):
        G.graph["meta"] = [1, {"x": 2}]
    return G, dn, bn


def impl(case):
    """run the real code; returns a JSON-able description of the returned graph on indices
    (original node i -> i, other nodes -> n, n+1, … in the result's node order)"""
    import networkx as nx
    import pywhy_graphs.networkx as pywhy_nx
    g = case["g"]
    n = g["n"]
    labs = [mk_label(s) for s in case["labs"]]
    if len(set(labs)) != n:
        return {"err": "harness:labels-not-distinct"}
    G, dn, bn = build(case, labs)
    kw = {}
    if case.get("names"):
        kw = {"directed_edge_name": dn, "bidirected_edge_name": bn}
    if C.warm_decide({k_: case[k_] for k_ in ("g", "labs")}, 4):
        # query, edit the same object in place, query again (see common.warmup)
        C.warmup(G, lambda: pywhy_nx.bidirected_to_unobserved_confounder(G, **kw), layers=(bn, dn))
    before = C.snapshot(G)
    try:
        R = pywhy_nx.bidirected_to_unobserved_confounder(G, **kw)
    except Exception as e:
        return {"err": "%s: %s" % (type(e).__name__, str(e)[:120])}
    after = C.snapshot(G)
    out = {"mutated": before != after, "type": type(R).__name__,
           "isdigraph": isinstance(R, nx.DiGraph) and not R.is_multigraph()}
    if not out["isdigraph"]:
        return out
    idx = {lab: i for i, lab in enumerate(labs)}
    RL = [lean_name(case["labs"][i], i) for i in range(n)]
    RA = [99] * n          # 99: original node missing from the result / unknown attributes
    present = [False] * n
    new = []
    for v, d in R.nodes(data=True):
        if v in idx:
            RA[idx[v]] = attr_id(d)
            present[idx[v]] = True
        else:
            idx[v] = n + len(new)
            new.append(v)
            RL.append(v if isinstance(v, str) and SAFE.match(v) else "~r%d" % len(new))
            RA.append(attr_id(d))
    out["missing"] = [i for i in range(n) if not present[i]]
    out["RL"], out["RA"] = RL, RA
    out["RE"] = sorted([idx[a], idx[b]] for a, b in R.edges)
    out["new_names"] = [repr(v) for v in new]
    # cross-checks in Python (networkx d-separation on the result, pywhy m-separation on the input)
    py = []
    for qi, (X, Y, Z) in enumerate(case.get("queries", [])):
        if qi >= case.get("pyq", 1 << 30):      # Python cross-check only on the first `pyq` queries
            py.append(["-", "-"])
            continue
        Xl, Yl, Zl = ({labs[v] for v in s} for s in (X, Y, Z))
        try:
            r = "T" if nx.is_d_separator(R, Xl, Yl, Zl) else "F"
        except Exception as e:
            r = "err:" + type(e).__name__
        try:
            m = "T" if pywhy_nx.m_separated(G, Xl, Yl, Zl, directed_edge_name=dn,
                                            bidirected_edge_name=bn) else "F"
        except Exception as e:
            m = "err:" + type(e).__name__
        py.append([r, m])
    out["py"] = py
    return out


# ----------------------------------------------------------------------------- Lean side
def g_args(case):
    g = case["g"]
    return "L=%s A=%s D=%s B=%s" % (",".join(lean_name(s, i) for i, s in enumerate(case["labs"])),
                                    ",".join(str(a) for a in case["attrs"]),
                                    C.fmt_pairs(g["D"]), C.fmt_pairs(g["B"]))


def lines_for(case, got):
    """requests for one case: [model, valid, sepall?, (c10sep, msep-on-result) per query]"""
    g = case["g"]
    ls = ["c10conv " + g_args(case)]
    if "RL" not in got:
        return ls
    ls.append("c10valid %s RL=%s RA=%s RE=%s" % (g_args(case), ",".join(got["RL"]),
                                                ",".join(map(str, got["RA"])), C.fmt_pairs(got["RE"])))
    gl = "n=%d D=%s B=%s" % (g["n"], C.fmt_pairs(g["D"]), C.fmt_pairs(g["B"]))
    if case.get("all"):
        ls.append("c10sepall %s RN=%d RE=%s" % (gl, len(got["RL"]), C.fmt_pairs(got["RE"])))
    for X, Y, Z in case.get("queries", []):
        q = "X=%s Y=%s Z=%s" % (C.fmt_set(X), C.fmt_set(Y), C.fmt_set(Z))
        ls.append("c10sep %s %s" % (gl, q))
        ls.append("msep n=%d D=%s B= U= %s" % (len(got["RL"]), C.fmt_pairs(got["RE"]), q))
    return ls


def parse_model(ans):
    m = re.match(r"^N=(\S*) E=(\S*) chk=([TF])$", ans)
    if not m:
        return None
    nodes = [tuple(x.rsplit(":", 1)) for x in m.group(1).split(";") if x]
    edges = [tuple(x.split(">")) for x in m.group(2).split(";") if x]
    return {"nodes": nodes, "edges": edges, "chk": m.group(3)}


def canon_struct(n_names, nodes, edges):
    """structure modulo the names of new nodes: original nodes with attrs, edges among originals,
    multiset of (attr, sorted children, has parents) of the new nodes"""
    orig = set(n_names)
    on = sorted((v, str(a)) for v, a in nodes if v in orig)
    oe = sorted((a, b) for a, b in edges if a in orig)
    new = sorted((str(a), tuple(sorted(b for x, b in edges if x == v)), any(b == v for _, b in edges))
                 for v, a in nodes if v not in orig)
    return on, oe, new


def judge(case, got, ans):
    """returns (problems, info): problems = list of (severity, kind, detail);
    severity 'violation' (implementation contradicts the specification on this input) or 'corr'"""
    probs, info = [], {"nontrivial": False, "skipped": False, "names_equal": None}
    model = parse_model(ans[0])
    if model is None or model["chk"] != "T":
        probs.append(("corr", "model", "the Lean model's own output fails its specification: " + ans[0]))
    if "err" in got:
        if got["err"].startswith("harness:"):
            probs.append(("corr", "harness", got["err"]))
        else:
            probs.append(("violation", "raises", "the call raised " + got["err"]))
        return probs, info
    if not got["isdigraph"]:
        probs.append(("violation", "type", "returned %s, not a networkx DiGraph" % got["type"]))
        return probs, info
    # a change of the argument G is not part of C10's statement: recorded in the evidence, never alarmed on
    if got["mutated"] and isinstance(info, dict):
        info["mutated_argument"] = True
    valid = ans[1]
    if valid.startswith("F:"):
        probs.append(("violation", "structure", "specification clauses failing on the returned graph: " + valid[2:]))
    elif valid.startswith("X:"):
        probs.append(("corr", "exact", "returned graph has nodes/edges beyond what the sentence lists (C10.Exact fails)"))
    elif valid != "T":
        probs.append(("corr", "driver", "unexpected answer " + valid))
    k = 2
    if case.get("all"):
        a = ans[k]
        k += 1
        if a.startswith("bad:"):
            probs.append(("violation", "separation", "d-separation in the result differs from m-separation in G "
                          "(X|Y|Z:G:result) " + a[4:]))
        elif a.startswith("ok:"):
            info["nontrivial"] = int(a.split(":")[2]) > 0
            n = case["g"]["n"]
            if int(a.split(":")[1]) != 4 ** n - 2 * 3 ** n + 2 ** n:   # all (X,Y,Z), X,Y non-empty
                probs.append(("corr", "driver", "c10sepall evaluated %s queries, expected %d" % (a.split(":")[1], 4 ** n - 2 * 3 ** n + 2 ** n)))
        else:
            probs.append(("corr", "driver", "unexpected answer " + a))
    for (X, Y, Z), (pr, pm) in zip(case.get("queries", []), got.get("py", [])):
        sep, onres = ans[k], ans[k + 1]
        k += 2
        parts = sep.split("/")
        if len(parts) != 3:
            probs.append(("corr", "driver", "c10sep answered " + sep))
            continue
        gG, gM, g0 = parts
        q = "X=%s Y=%s Z=%s" % (X, Y, Z)
        if gG != g0:
            info["nontrivial"] = True
        if onres != gG:
            probs.append(("violation", "separation", "%s: result d-separated=%s, G m-separated=%s" % (q, onres, gG)))
        if gM != gG:
            probs.append(("corr", "model-sep", "%s: mSeparated (convMG G)=%s but mSeparated G=%s (theorem C10.mSeparated_convMG)" % (q, gM, gG)))
        if pr != "-" and pr != onres:
            probs.append(("corr", "xcheck-nx", "%s: networkx.is_d_separator(result)=%s, Lean mSeparated(result)=%s" % (q, pr, onres)))
        if pm != "-" and pm != gG:
            probs.append(("corr", "xcheck-msep", "%s: pywhy m_separated(G)=%s, Lean mSeparated(G)=%s" % (q, pm, gG)))
    # model vs implementation, structure modulo new-node names
    if model is not None and "RL" in got:
        n = case["g"]["n"]
        onames = got["RL"][:n]
        mi = canon_struct(onames, [(got["RL"][i], got["RA"][i]) for i in range(len(got["RL"])) if i >= n or i not in got["missing"]],
                          [(got["RL"][a], got["RL"][b]) for a, b in got["RE"]])
        mm = canon_struct(onames, model["nodes"], model["edges"])
        if mi != mm and not any(p[0] == "violation" for p in probs):
            probs.append(("corr", "model-struct", "implementation and Lean model differ modulo new-node names: %s vs %s" % (mi, mm)))
        mnew = [v for v, _ in model["nodes"] if v not in set(onames)]
        info["skipped"] = mnew != ["U%d" % i for i in range(len(mnew))]
        info["names_equal"] = mnew == got["RL"][n:]
    return probs, info


def evaluate_batch(cases):
    gots = C.pmap(impl, cases, chunksize=64)
    lines, spans = [], []
    for c, g in zip(cases, gots):
        ls = lines_for(c, g)
        spans.append((len(lines), len(ls)))
        lines += ls
    ans = C.lean_batch(lines)
    res = []
    for c, g, (s, k) in zip(cases, gots, spans):
        res.append((g,) + judge(c, g, ans[s:s + k]))
    return res


def evaluate_one(case, drv):
    got = impl(case)
    ans = [drv.ask(line) for line in lines_for(case, got)]
    return (got,) + judge(case, got, ans)


# ----------------------------------------------------------------------------- generators
def all_queries(n):
    out = []
    for assign in itertools.product((0, 1, 2, 3), repeat=n):
        X = [v for v in range(n) if assign[v] == 1]
        Y = [v for v in range(n) if assign[v] == 2]
        Z = [v for v in range(n) if assign[v] == 3]
        if X and Y:
            out.append([X, Y, Z])
    return out


def rand_query(rng, n):
    nodes = list(range(n))
    rng.shuffle(nodes)
    kx, ky = rng.choice((1, 1, 1, 2)), rng.choice((1, 1, 2))
    if kx + ky > n:
        kx, ky = 1, 1
    X, Y = nodes[:kx], nodes[kx:kx + ky]
    p = rng.choice((0.0, 0.2, 0.5))
    Z = [v for v in nodes[kx + ky:] if rng.random() < p]
    return [sorted(X), sorted(Y), sorted(Z)]


def mk_case(rng, g, fam, src, allq, queries, cls="mixed", names=None, attrs=None):
    n = g["n"]
    case = {"g": g, "labs": label_family(rng, fam, n, len(g["B"])), "fam": fam, "src": src,
            "attrs": attrs if attrs is not None else [rng.choice((1, 1, 2, 3, 0, 4, 5)) for _ in range(n)],
            "all": allq, "queries": queries, "cls": cls}
    if names:
        case["names"] = names
    r = rng.random()
    if r < 0.45:
        case["late"] = 1 if r < 0.15 else 2 if r < 0.3 else 3
    return case


def gen_cases(ctx):
    tier, rng = ctx["tier"], ctx["rng"]
    CLS = ("mixed", "mixed", "ADMG", "mixed-bd", "mixed-u")
    # (i) exhaustive small ADMGs x all queries
    top = 3 if tier == "quick" else 4
    for n in range(1, top + 1):
        aq = all_queries(n)
        for gi, g in enumerate(C.enum_graphs(n, C.ADMG_STATES)):
            if not C.is_acyclic(n, g["D"]):
                continue
            if n <= 3:
                fams = ("plain", "udense", "ucoll", "mixed", "ugap") if g["B"] else ("plain", "udense")
                for fam in fams:
                    yield mk_case(rng, g, fam, "exh%d" % n, True, aq, cls=CLS[gi % len(CLS)])
            else:
                fam = rng.choice(COLLIDING) if g["B"] and rng.random() < 0.8 else rng.choice(FAMILIES)
                yield mk_case(rng, g, fam, "exh4", True, rng.sample(aq, 3), cls=CLS[gi % len(CLS)])
    # (ii) structured random, n <= 7
    N = 3000 if tier == "quick" else 40000
    for i in range(N):
        n = rng.choice((2, 3, 4, 5, 5, 6, 6, 7, 7))
        kind = rng.random()
        if kind < 0.5:
            g = C.rand_dag_order_graph(rng, n, C.ADMG_STATES[1:], density=rng.choice((0.3, 0.5, 0.8)))
        elif kind < 0.8:
            g = C.rand_dag_order_graph(rng, n, [("B",), ("B",), ("D>",), ("D>", "B")], density=rng.choice((0.4, 0.7)))
        elif kind < 0.95:   # few directed edges, chains of bidirected edges
            g = C.rand_dag_order_graph(rng, n, [("B",), ("B",), ("B",), ("D>",)], density=0.45)
        else:   # (almost) complete bidirected graph: 10-21 generated names, two-digit indices
            n = rng.choice((5, 6, 7))
            g = C.rand_dag_order_graph(rng, n, [("B",), ("B",), ("D>", "B")], density=0.95)
        if i % 3 == 0:
            g = C.shuffled_graph(rng, g)
        fam = rng.choice(COLLIDING) if rng.random() < 0.6 else rng.choice(FAMILIES)
        qs = [rand_query(rng, n) for _ in range(8)] if n >= 2 else []
        names = ["dir_layer", "bi_layer"] if i % 11 == 5 else None
        cls = "mixed" if names else CLS[i % len(CLS)]
        case = mk_case(rng, g, fam, "rnd", n <= (5 if tier == "thorough" else 4), qs, cls=cls, names=names)
        if i % 13 == 1:
            case["gattr"] = True
        case["pyq"] = 3
        yield case


# ----------------------------------------------------------------------------- shrinking
def _drop_node(case, v):
    g = case["g"]
    n = g["n"]
    if n <= 1:
        return None
    ren = {u: (u if u < v else u - 1) for u in range(n) if u != v}
    c = copy.deepcopy(case)
    h = {"n": n - 1}
    if "N" in g:
        h["N"] = [ren[u] for u in g["N"] if u != v]
    for k in ("D", "B", "U", "C"):
        h[k] = [[ren[a], ren[b]] for a, b in g.get(k, []) if a != v and b != v]
    c["g"] = h
    c["labs"] = [s for i, s in enumerate(case["labs"]) if i != v]
    c["attrs"] = [s for i, s in enumerate(case["attrs"]) if i != v]
    qs = []
    for X, Y, Z in case.get("queries", []):
        if v in X or v in Y:
            continue
        qs.append([[ren[u] for u in X], [ren[u] for u in Y], [ren[u] for u in Z if u != v]])
    c["queries"] = qs
    return c


def shrink10(case, fails, max_rounds=200):
    cur = copy.deepcopy(case)
    for k, val in (("cls", "mixed"), ("names", None), ("gattr", None), ("late", None)):
        if cur.get(k) not in (None, val):
            c = copy.deepcopy(cur)
            if val is None:
                c.pop(k, None)
            else:
                c[k] = val
            if _safe(fails, c):
                cur = c
    if "N" in cur["g"]:
        c = copy.deepcopy(cur)
        del c["g"]["N"]
        if _safe(fails, c):
            cur = c
    progress, rounds = True, 0
    while progress and rounds < max_rounds:
        progress = False
        rounds += 1
        cands = []
        for v in range(cur["g"]["n"] - 1, -1, -1):
            c = _drop_node(cur, v)
            if c is not None:
                cands.append(c)
        for h in _graph_variants(cur["g"]):
            c = copy.deepcopy(cur)
            c["g"] = h
            cands.append(c)
        for i in range(len(cur.get("queries", []))):
            c = copy.deepcopy(cur)
            del c["queries"][i]
            cands.append(c)
        for i, (X, Y, Z) in enumerate(cur.get("queries", [])):
            for j in range(len(Z)):
                c = copy.deepcopy(cur)
                del c["queries"][i][2][j]
                cands.append(c)
        for i, a in enumerate(cur["attrs"]):
            if a != 1:
                c = copy.deepcopy(cur)
                c["attrs"][i] = 1
                cands.append(c)
        for i, s in enumerate(cur["labs"]):
            plain = ["s", "v%d" % i]
            if s != plain and plain not in cur["labs"]:
                c = copy.deepcopy(cur)
                c["labs"][i] = plain
                cands.append(c)
        for c in cands:
            if _safe(fails, c):
                cur = c
                progress = True
                break
    return cur


def _safe(fails, c):
    try:
        return bool(fails(c))
    except Exception:
        return False


# ----------------------------------------------------------------------------- run / replay
def run(ctx):
    ev, out = ctx["ev"], ctx["out"]
    ev.rule = ("corpus first; exhaustive: every ADMG (pair states none,->,<-,<->,->+<->,<-+<->; acyclic directed part) on "
               "1-3 nodes (thorough: 1-4) x every disjoint (X,Y,Z) of original nodes with X,Y non-empty, decided in Lean on the "
               "implementation's returned graph; label families incl. four that collide with generated names (udense, ucoll, "
               "ugap, mixed); random: n in 2..7, DAG-ordered ADMGs, dense bidirected chains, shuffled insertion orders, "
               "classes MixedEdgeGraph (layer orders, empty undirected layer, custom layer names) and ADMG, node attributes "
               "from a pool incl. mutable values and the latent-attribute dict, 8 random queries each (+ all queries for n<=4, "
               "thorough n<=5). non-trivial = the graph has a bidirected edge and for at least one evaluated query the verified "
               "model's answer on G differs from its answer on G without the bidirected edges (the latent parents matter)")
    ev.assumptions = ["inputs are ADMGs held by MixedEdgeGraph/ADMG: endpoints are nodes, no self loops, directed part acyclic",
                      "X, Y, Z are pairwise disjoint sets of original nodes",
                      "attribute dictionaries are compared by equality with a fixed pool (tokens in the Lean model)",
                      "label->Lean-name encoding in harness/c10.py (strings over [A-Za-z0-9_.+] map to themselves, "
                      "every other label to a reserved name that cannot equal a generated name)"]
    cases = [dict(c, src="corpus") for c in C.load_corpus(PID)] + list(gen_cases(ctx))
    res = evaluate_batch(cases)
    bad_v, bad_c = [], []
    for case, (got, probs, info) in zip(cases, res):
        nb = len(case["g"]["B"])
        ev.case({k: case[k] for k in ("g", "labs", "attrs", "cls", "src")}, nontrivial=bool(nb and info["nontrivial"]),
                sample_every=4000)
        ev.count("src:" + case["src"])
        ev.count("fam:" + case.get("fam", "corpus"))
        ev.count("bidirected-edges:%s" % (nb if nb < 6 else ("6-9" if nb < 10 else "10+")))
        if info["skipped"]:
            ev.count("generated-name-collides-with-user-label")
        if info["names_equal"] is not None:
            ev.count("new-node-names-equal-model" if info["names_equal"] else "new-node-names-differ-from-model")
        ev.traces += 1 + (len(case.get("queries", [])) if "RL" in got else 0)
        for sev, kind, detail in probs:
            (bad_v if sev == "violation" else bad_c).append((case, kind, detail))
    ev.extra["exhaustive_part"] = "ADMGs on <=3 nodes (quick) / <=4 nodes (thorough) x all disjoint queries enumerated completely"
    ev.extra["lean_oracle"] = "C10.Struct/C10.Exact decided by `decide` (c10valid); MG.mSeparated on result and input (c10sepall, msep, c10sep)"
    if bad_v or bad_c:
        drv = C.Driver()
        try:
            if bad_v:
                case, kind, detail = bad_v[0]

                def fails(c, kind=kind):
                    _, probs, _ = evaluate_one(c, drv)
                    return any(s == "violation" and k == kind for s, k, _ in probs)
                small = shrink10(case, fails)
                got, probs, _ = evaluate_one(small, drv)
                out.violation(small, {"kind": kind, "detail": [p[2] for p in probs if p[0] == "violation"] or detail,
                                      "impl": got, "lean_requests": lines_for(small, got),
                                      "original_case": case, "disagreements_total": len(bad_v),
                                      "kinds": sorted(set(k for _, k, _ in bad_v))})
            else:
                case, kind, detail = bad_c[0]
                out.corr(case, {"kind": kind, "detail": detail, "count": len(bad_c),
                                "kinds": sorted(set(k for _, k, _ in bad_c))})
        finally:
            drv.close()


def replay(ctx, payload):
    case = payload.get("case") or payload.get("correspondence", {}).get("case")
    drv = C.Driver()
    got, probs, info = evaluate_one(case, drv)
    for line in lines_for(case, got):
        print("lean>", line, "=>", drv.ask(line))
    drv.close()
    print("implementation:", got)
    for p in probs:
        print("problem:", p)
    bad = any(p[0] == "violation" for p in probs) or (payload.get("kind") == "no-failing-input-found" and probs)
    print("REPRODUCED" if bad else "NOT-REPRODUCED")
    return 1 if bad else 0


# ----------------------------------------------------------------------------- C15 adapter (added by the integrator)
_C15_FAM = {"int": "int", "bigint": "bigint", "str": "plain", "tuple": "tuple", "frozenset": "frozenset",
            "falsy": "int", "nested": "nested", "lookalike": "mixed", "npint": "bigint"}


def c15_cases(rng, k):
    out = []
    for i in range(k):
        n = rng.choice((3, 4, 5))
        g = C.rand_dag_order_graph(rng, n, [("D>",), ("B",), ("D>", "B")], density=0.6)
        if not g["B"]:
            g["B"].append([0, 1])
        out.append({"g": g})
    return out


def c15_eval(case, fam, order_seed):
    """the returned graph is a witness among several (new node names are free): it is validated by the
    Lean validator `c10valid` (proved: C10.isConv_of_valid / sepPreserved_of_valid), not compared"""
    import random
    rng = random.Random(order_seed)
    g = C.shuffled_graph(rng, case["g"])
    n = g["n"]
    c = {"g": g, "labs": label_family(rng, _C15_FAM[fam], n, len(g["B"])), "attrs": [1] * n, "cls": "mixed",
         "src": "c15", "queries": []}
    got = impl(c)
    if "err" in got:
        return "err:" + got["err"].split(":")[0]
    if not got.get("isdigraph"):
        return "not-a-DiGraph"
    ls = lines_for(c, got)
    drv = C.Driver()
    try:
        ans = drv.ask(ls[1])
    finally:
        drv.close()
    return "found:valid" if ans == "T" else "found:INVALID:" + ans


def c15_expected(cases):
    return ["found:valid"] * len(cases)
