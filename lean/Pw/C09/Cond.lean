import Pw.C09.Struct
import Pw.C08.Complete
open Closure

/-! # C09, conditional part: given Meek's theorem (`C08.MeekT3`) and some orientation of the circle
component without unshielded colliders to start from (Zhang 2008: the circle component of a PAG is
chordal), the loop "orient the first undirected edge, close under the Meek rules" ends in a DAG
orientation of the circle component that has no unshielded collider – the premise of Zhang's
Theorem 2. -/
namespace C09
open MG C08

theorem wf_orient {G : MG} {i j : Nat} (hwf : G.WF) (hu : HasUn G i j) : (orient G i j).WF := by
  obtain ⟨h1, h2, h3⟩ := hwf
  have hij : i ∈ G.nodes ∧ j ∈ G.nodes := by
    rcases hu with h | h
    · exact h3 _ h
    · exact (h3 _ h).symm
  refine ⟨?_, h2, ?_⟩
  · intro e he
    rcases mem_orient_dir.mp he with he | rfl
    · exact h1 e he
    · exact hij
  · intro e he
    exact h3 e (mem_orient_un.mp he).1

/-- loop invariant -/
structure LoopInv (inner : List Nat) (T : MG) : Prop where
  simple : Simple T
  wf : T.WF
  cov : ∀ v ∈ T.nodes, v ∈ inner
  closed : MeekClosed T
  ext : ∃ D, ConsistentExt T D ∧ ∀ a c b, ¬ VStruct D a c b

theorem meekClosed_of_dir_nil {T : MG} (h : T.dir = []) : MeekClosed T := by
  intro i j _
  refine ⟨?_, ?_, ?_, ?_⟩
  · rintro ⟨k, hk, _⟩; rw [h] at hk; cases hk
  · rintro ⟨k, hk, _⟩; rw [h] at hk; cases hk
  · rintro ⟨k, l, _, _, _, hk, _⟩; rw [h] at hk; cases hk
  · rintro ⟨k, l, _, _, hk, _⟩; rw [h] at hk; cases hk

theorem loopInv_step (hT3 : MeekT3) {inner : List Nat} (hin : inner.Nodup) {T : MG} {u v : Nat}
    (hI : LoopInv inner T) (hu : HasUn T u v) : LoopInv inner (meek (orient T u v) inner) := by
  obtain ⟨D0, hD0, _⟩ := hI.ext
  -- Meek's theorem: the undirected edge is not compelled as v -> u, so some extension has u -> v
  have hnc : ¬ Compelled T v u :=
    hT3 T T hI.simple ⟨D0, hD0⟩ rfl (fun _ _ => Iff.rfl) hI.simple (fun _ h => h)
      (fun e he => Or.inl he) hI.closed v u hu.symm
  have hex : ∃ D, ConsistentExt T D ∧ (u, v) ∈ D.dir := by
    by_cases h : ∃ D, ConsistentExt T D ∧ (u, v) ∈ D.dir
    · exact h
    · exfalso
      apply hnc
      intro D hD
      rcases ext_dir_of_skel hD hu.skel with h' | h'
      · exact absurd ⟨D, hD, h'⟩ h
      · exact h'
  obtain ⟨D, hD, huv⟩ := hex
  have hDo : ConsistentExt (orient T u v) D := ext_orient hD hu huv
  have s1 : Simple (orient T u v) := simple_orient hI.simple
  have st := meek_steps (inner := inner) s1 hin
  have hDm := st.ext hDo
  have hnoV : ∀ a c b, ¬ VStruct D a c b := by
    intro a c b hv
    obtain ⟨D1, hD1, hno⟩ := hI.ext
    exact hno a c b ((hD1.vstruct a c b).mpr ((hD.vstruct a c b).mp hv))
  have wf' := st.wf (wf_orient hI.wf hu)
  have cov' : ∀ x ∈ (meek (orient T u v) inner).nodes, x ∈ inner := by
    intro x hx; rw [st.nodes] at hx; exact hI.cov x hx
  exact ⟨st.simple s1, wf', cov',
    closed_of_pass_false wf' cov' (acyclic_of_ext hDm) (irrefl_of_ext hDm)
      (by rw [meek_fixpoint s1 hin]),
    ⟨D, hDm, hnoV⟩⟩

theorem orientLoop_inv (hT3 : MeekT3) {inner : List Nat} (hin : inner.Nodup) :
    ∀ (f : Nat) (T : MG), LoopInv inner T → LoopInv inner (orientLoop inner f T)
  | 0, T, h => by unfold orientLoop; exact h
  | f + 1, T, h => by
    unfold orientLoop
    cases hf : firstUn T with
    | none => exact h
    | some p =>
      obtain ⟨u, v⟩ := p
      exact orientLoop_inv hT3 hin f _ (loopInv_step hT3 hin h (firstUn_some hf))

/-- **C09, circle component (conditional on `MeekT3`).** If the undirected graph `T0` (the `o-o`
    component) admits *some* DAG orientation without unshielded colliders, then the loop of
    `pag_to_mag` returns one: no undirected edge left, same skeleton, acyclic, no unshielded collider. -/
theorem orientLoop_dag_of_T3 (hT3 : MeekT3) (inner : List Nat) (hin : inner.Nodup) (T0 : MG)
    (hwf : T0.WF) (hcov : ∀ v ∈ T0.nodes, v ∈ inner) (hdir : T0.dir = [])
    (hext : ∃ D, ConsistentExt T0 D) :
    (orientLoop inner T0.un.length T0).un = [] ∧
    (∀ a b, Skel (orientLoop inner T0.un.length T0) a b ↔ Skel T0 a b) ∧
    Acyclic (orientLoop inner T0.un.length T0) ∧
    ∀ a c b, ¬ VStruct (orientLoop inner T0.un.length T0) a c b := by
  have hs : Simple T0 := by intro a b h; rw [hdir] at h; cases h
  obtain ⟨D, hD⟩ := hext
  have hnoV : ∀ a c b, ¬ VStruct D a c b := by
    intro a c b hv
    have := ((hD.vstruct a c b).mp hv).1
    rw [hdir] at this; cases this
  have hI : LoopInv inner T0 := ⟨hs, hwf, hcov, meekClosed_of_dir_nil hdir, ⟨D, hD, hnoV⟩⟩
  have hfin := orientLoop_inv hT3 hin T0.un.length T0 hI
  obtain ⟨hun, ho⟩ := orientLoop_spec hin T0.un.length T0 hs (fun e he => (hwf.2.2 e he).1) (Nat.le_refl _)
  obtain ⟨D', hD', hno'⟩ := hfin.ext
  exact ⟨hun, ho.skel, acyclic_of_ext hD', fun a c b hv => hno' a c b ((hD'.vstruct a c b).mpr hv)⟩

theorem tempCpdag_WF (c : Cls) : (tempCpdag c).WF := by
  refine ⟨by simp [tempCpdag], by simp [tempCpdag], ?_⟩
  intro e he
  simp only [tempCpdag, List.mem_map] at he
  obtain ⟨x, hx, rfl⟩ := he
  simp only [tempCpdag, tempNodes, List.mem_eraseDups, List.mem_flatMap]
  exact ⟨⟨x, hx, by simp⟩, ⟨x, hx, by simp⟩⟩

/-- the same for the temporary CPDAG built by `pag_to_mag` from the `o-o` edges of `P` -/
theorem pagToMag_circle_component_of_T3 (hT3 : MeekT3) (P : MG) (inner : List Nat) (hin : inner.Nodup)
    (hcov : ∀ v ∈ (tempCpdag (classify P)).nodes, v ∈ inner)
    (hchordal : ∃ D, ConsistentExt (tempCpdag (classify P)) D) :
    let T0 := tempCpdag (classify P)
    let T := orientLoop inner T0.un.length T0
    T.un = [] ∧ (∀ a b, Skel T a b ↔ Skel T0 a b) ∧ Acyclic T ∧ ∀ a c b, ¬ VStruct T a c b :=
  orientLoop_dag_of_T3 hT3 inner hin _ (tempCpdag_WF _) hcov rfl hchordal

end C09
