import Pw.C12.Main
open Closure MG

/-! # C12, second sentence: m-separation = vertex cut in the moral graph of the anterior subgraph

Unconditional: the classical theorem (T2) is `MG.mSep_iff_moral_cut` (Pw/T2).  This file bridges the
relational moral graph of Pw/T2 (`HAdj`, `HConn`: walks inside the anterior *predicate*) to

* the specification `AntMoralCut` (paths, induced subgraph `restrict G A`), and
* the models: `anterior` (closure), `restrict`, `moral`, `vcut` (closure). -/
namespace C12

/-! ## `_anterior` is the anterior set -/

theorem mem_antStep {G : MG} {a b : Nat} :
    b ∈ G.parents a ++ G.unbrs a ↔ ∃ mb, HasEdge G b a .tail mb := by
  rw [List.mem_append, mem_parents, unbrs, mem_sym]
  constructor
  · rintro (h | h)
    · exact ⟨.head, Or.inl ⟨rfl, rfl, h⟩⟩
    · exact ⟨.tail, Or.inr (Or.inr (Or.inr ⟨rfl, rfl, h.symm⟩))⟩
  · rintro ⟨mb, h⟩
    rcases h with ⟨_, _, h⟩ | ⟨h1, _, _⟩ | ⟨h1, _, _⟩ | ⟨_, _, h⟩
    · exact Or.inl h
    · cases h1
    · cases h1
    · exact Or.inr h.symm

theorem ant_of_reach {G : MG} {s v : Nat}
    (h : Reach G.nodes (fun v => G.parents v ++ G.unbrs v) s v) : Ant G v s := by
  induction h with
  | refl => exact Ant.refl _
  | tail _ st ih =>
    obtain ⟨mb, he⟩ := mem_antStep.mp st.1
    exact Ant.step he ih

theorem hasEdge_mem_left {G : MG} (hwf : G.WF) {a b : Nat} {ma mb : Mark} (h : HasEdge G a b ma mb) :
    a ∈ G.nodes := HasEdge.mem_nodes hwf h.symm

theorem reach_of_ant {G : MG} (hwf : G.WF) {s v : Nat} (h : Ant G v s) :
    Reach G.nodes (fun v => G.parents v ++ G.unbrs v) s v := by
  induction h with
  | refl => exact Reach.refl _
  | step he _ ih => exact Reach.tail ih ⟨mem_antStep.mpr ⟨_, he⟩, hasEdge_mem_left hwf he⟩

/-- **`_anterior` computes the anterior set** (closure characterisation, all inputs) -/
theorem mem_anterior {G : MG} (hwf : G.WF) {S : List Nat} (hS : ∀ s ∈ S, s ∈ G.nodes) {v : Nat} :
    v ∈ anterior G S ↔ InAnt G S v := by
  unfold anterior InAnt
  rw [mem_closure]
  constructor
  · rintro ⟨s, hs, _, hr⟩; exact ⟨s, hs, ant_of_reach hr⟩
  · rintro ⟨s, hs, ha⟩; exact ⟨s, hs, hS s hs, reach_of_ant hwf ha⟩

theorem anterior_sub_nodes {G : MG} {S : List Nat} {v : Nat} (h : v ∈ anterior G S) : v ∈ G.nodes := by
  unfold anterior at h
  rw [mem_closure] at h
  obtain ⟨s, _, hs, hr⟩ := h
  exact reach_mem hs hr

theorem anterior_isAntSet {G : MG} (hwf : G.WF) {S : List Nat} (hS : ∀ s ∈ S, s ∈ G.nodes) :
    IsAntSet G S (anterior G S) := by
  intro a
  constructor
  · intro h; exact ⟨anterior_sub_nodes h, (mem_anterior hwf hS).mp h⟩
  · rintro ⟨_, h⟩; exact (mem_anterior hwf hS).mpr h

/-! ## the induced subgraph -/

theorem hasEdge_restrict {G : MG} {A : List Nat} {a b : Nat} {ma mb : Mark} :
    HasEdge (restrict G A) a b ma mb ↔ (HasEdge G a b ma mb ∧ a ∈ A ∧ b ∈ A) := by
  unfold HasEdge restrict
  simp only [List.mem_filter, decide_eq_true_eq]
  constructor
  · rintro (⟨h1, h2, h3, h4, h5⟩ | ⟨h1, h2, h3, h4, h5⟩ | ⟨h1, h2, ⟨h3, h4, h5⟩ | ⟨h3, h4, h5⟩⟩ |
      ⟨h1, h2, ⟨h3, h4, h5⟩ | ⟨h3, h4, h5⟩⟩)
    · exact ⟨Or.inl ⟨h1, h2, h3⟩, h4, h5⟩
    · exact ⟨Or.inr (Or.inl ⟨h1, h2, h3⟩), h5, h4⟩
    · exact ⟨Or.inr (Or.inr (Or.inl ⟨h1, h2, Or.inl h3⟩)), h4, h5⟩
    · exact ⟨Or.inr (Or.inr (Or.inl ⟨h1, h2, Or.inr h3⟩)), h5, h4⟩
    · exact ⟨Or.inr (Or.inr (Or.inr ⟨h1, h2, Or.inl h3⟩)), h4, h5⟩
    · exact ⟨Or.inr (Or.inr (Or.inr ⟨h1, h2, Or.inr h3⟩)), h5, h4⟩
  · rintro ⟨⟨h1, h2, h3⟩ | ⟨h1, h2, h3⟩ | ⟨h1, h2, h3 | h3⟩ | ⟨h1, h2, h3 | h3⟩, ha, hb⟩
    · exact Or.inl ⟨h1, h2, h3, ha, hb⟩
    · exact Or.inr (Or.inl ⟨h1, h2, h3, hb, ha⟩)
    · exact Or.inr (Or.inr (Or.inl ⟨h1, h2, Or.inl ⟨h3, ha, hb⟩⟩))
    · exact Or.inr (Or.inr (Or.inl ⟨h1, h2, Or.inr ⟨h3, hb, ha⟩⟩))
    · exact Or.inr (Or.inr (Or.inr ⟨h1, h2, Or.inl ⟨h3, ha, hb⟩⟩))
    · exact Or.inr (Or.inr (Or.inr ⟨h1, h2, Or.inr ⟨h3, hb, ha⟩⟩))

theorem restrict_wf {G : MG} (hwf : G.WF) {A : List Nat} : (restrict G A).WF := by
  refine ⟨?_, ?_, ?_⟩ <;> intro e he <;>
    simp only [restrict, List.mem_filter, decide_eq_true_eq] at he ⊢
  · exact ⟨⟨(hwf.1 e he.1).1, he.2.1⟩, (hwf.1 e he.1).2, he.2.2⟩
  · exact ⟨⟨(hwf.2.1 e he.1).1, he.2.1⟩, (hwf.2.1 e he.1).2, he.2.2⟩
  · exact ⟨⟨(hwf.2.2 e he.1).1, he.2.1⟩, (hwf.2.2 e he.1).2, he.2.2⟩

theorem restrict_nsl {G : MG} (hsl : NoSelfLoop G) {A : List Nat} : NoSelfLoop (restrict G A) :=
  fun a ma mb h => hsl a ma mb (hasEdge_restrict.mp h).1

theorem validW_restrict {G : MG} {A : List Nat} : ∀ (hs : List Hop) (u : Nat), hs ≠ [] →
    (ValidW (restrict G A) u hs ↔ (ValidW G u hs ∧ ∀ w ∈ nodesOf u hs, w ∈ A))
  | [], _, hne => absurd rfl hne
  | [h], u, _ => by
    simp only [ValidW, hasEdge_restrict, nodesOf, List.map_cons, List.map_nil, List.mem_cons,
      List.not_mem_nil, or_false, and_true]
    constructor
    · rintro ⟨he, ha, hb⟩; exact ⟨he, by rintro w (rfl | rfl) <;> assumption⟩
    · rintro ⟨he, hall⟩; exact ⟨he, hall u (Or.inl rfl), hall h.nx (Or.inr rfl)⟩
  | h :: h2 :: t, u, _ => by
    have ih := validW_restrict (G := G) (A := A) (h2 :: t) h.nx (by simp)
    simp only [ValidW, hasEdge_restrict] at ih ⊢
    rw [ih]
    simp only [nodesOf, List.map_cons, List.mem_cons]
    constructor
    · rintro ⟨⟨he, ha, _⟩, hv, hall⟩
      refine ⟨⟨he, hv⟩, ?_⟩
      rintro w (rfl | hw)
      · exact ha
      · exact hall w hw
    · rintro ⟨⟨he, hv⟩, hall⟩
      exact ⟨⟨he, hall u (Or.inl rfl), hall h.nx (Or.inr (Or.inl rfl))⟩, hv, fun w hw => hall w (Or.inr hw)⟩

/-- adjacency in the relational moral graph of Pw/T2 = collider-connectedness in the induced subgraph -/
theorem hadj_iff_cc {G : MG} (hwf : G.WF) {A : List Nat} {u v : Nat} (hne : u ≠ v) :
    HAdj G (· ∈ A) u v ↔ ColliderConnected (restrict G A) u v := by
  rw [← walk_iff_cc (restrict_wf hwf) hne]
  unfold HAdj
  constructor
  · rintro ⟨hs, hn, hv, hend, hc, hall⟩
    exact ⟨hs, hn, (validW_restrict hs u hn).mpr ⟨hv, hall⟩, hend, hc⟩
  · rintro ⟨hs, hn, hv, hend, hc⟩
    obtain ⟨hv', hall⟩ := (validW_restrict hs u hn).mp hv
    exact ⟨hs, hn, hv', hend, hc, hall⟩

/-- the predicate of Pw/T2 and a list that represents it give the same adjacency -/
theorem hadj_congr {G : MG} (hwf : G.WF) {P : Nat → Prop} {A : List Nat}
    (hA : ∀ a, a ∈ A ↔ (a ∈ G.nodes ∧ P a)) {u v : Nat} : HAdj G P u v ↔ HAdj G (· ∈ A) u v := by
  unfold HAdj
  constructor
  · rintro ⟨hs, hn, hv, hend, hc, hall⟩
    refine ⟨hs, hn, hv, hend, hc, fun w hw => (hA w).mpr ⟨?_, hall w hw⟩⟩
    -- every node of a non-empty valid walk is a node of G
    have : ∀ (hs : List Hop) (u : Nat), hs ≠ [] → ValidW G u hs → ∀ w ∈ nodesOf u hs, w ∈ G.nodes := by
      intro hs
      induction hs with
      | nil => intro u hne; exact absurd rfl hne
      | cons h t ih =>
        intro u _ hv w hw
        simp only [nodesOf, List.map_cons, List.mem_cons] at hw
        rcases hw with rfl | rfl | hw
        · exact hasEdge_mem_left hwf hv.1
        · exact HasEdge.mem_nodes hwf hv.1
        · cases t with
          | nil => simp at hw
          | cons h2 t2 =>
            exact ih h.nx (by simp) hv.2 w (by simp only [nodesOf, List.mem_cons]; exact Or.inr hw)
    exact this hs u hn hv w hw
  · rintro ⟨hs, hn, hv, hend, hc, hall⟩
    exact ⟨hs, hn, hv, hend, hc, fun w hw => ((hA w).mp (hall w hw)).2⟩

/-! ## reachability avoiding Z -/

theorem PathAvoid.head {V : Nat → Prop} {E : Nat → Nat → Prop} {Z : List Nat} {a b c : Nat}
    (ha : V a) (haZ : a ∉ Z) (he : E a b) (h : PathAvoid V E Z b c) : PathAvoid V E Z a c := by
  induction h with
  | refl hb hbZ => exact PathAvoid.tail (PathAvoid.refl a ha haZ) he hb hbZ
  | tail _ e hc hcZ ih => exact PathAvoid.tail ih e hc hcZ

theorem PathAvoid.congr {V V' : Nat → Prop} {E E' : Nat → Nat → Prop} {Z : List Nat}
    (hV : ∀ a, V a → V' a) (hE : ∀ a b, V a → V b → E a b → E' a b) {a b : Nat}
    (h : PathAvoid V E Z a b) : PathAvoid V' E' Z a b := by
  suffices PathAvoid V' E' Z a b ∧ V b from this.1
  induction h with
  | refl ha haZ => exact ⟨PathAvoid.refl _ (hV _ ha) haZ, ha⟩
  | tail _ e hc hcZ ih => exact ⟨PathAvoid.tail ih.1 (hE _ _ ih.2 hc e) (hV _ hc) hcZ, hc⟩

theorem HConn.tail {G : MG} {A : Nat → Prop} {Z : List Nat} {a b c : Nat}
    (h : HConn G A Z a b) (he : HAdj G A b c) (hc : c ∉ Z) : HConn G A Z a c := by
  induction h with
  | refl => exact HConn.step he hc (HConn.refl c)
  | step e hb _ ih => exact HConn.step e hb (ih he)

theorem hadj_right {G : MG} {A : Nat → Prop} {u v : Nat} (h : HAdj G A u v) : A v := by
  obtain ⟨hs, _, _, hend, _, hall⟩ := h
  rw [← hend]; exact hall _ (endNode_mem_nodesOf hs u)

/-- reachability in the relational moral graph = reachability in any graph with the same nodes and
    the same adjacency between different nodes -/
theorem hconn_iff_pathAvoid {G : MG} {A : List Nat} {E : Nat → Nat → Prop} {Z : List Nat}
    (hE : ∀ u v, E u v ↔ (u ≠ v ∧ HAdj G (· ∈ A) u v)) {x y : Nat} (hx : x ∈ A) (hxZ : x ∉ Z) :
    HConn G (· ∈ A) Z x y ↔ PathAvoid (· ∈ A) E Z x y := by
  constructor
  · intro h
    induction h with
    | refl a => exact PathAvoid.refl a hx hxZ
    | @step a b c he hbZ _ ih =>
      have hb : b ∈ A := hadj_right he
      by_cases hab : a = b
      · subst hab; exact ih hx hxZ
      · exact PathAvoid.head hx hxZ ((hE a b).mpr ⟨hab, he⟩) (ih hb hbZ)
  · intro h
    induction h with
    | refl => exact HConn.refl _
    | tail _ e _ hcZ ih => exact HConn.tail ih ((hE _ _).mp e).2 hcZ

/-! ## the vertex-cut decider -/

theorem mem_ugNbrs {H : UG} {a b : Nat} : b ∈ H.nbrs a ↔ UAdj H.edges a b := mem_sym

/-- **`vcut` decides the vertex-cut relation** -/
theorem vcut_iff (H : UG) (X Y Z : List Nat) : vcut H X Y Z = true ↔ VCut H X Y Z := by
  unfold vcut VCut CutR reachAvoid
  simp only [Bool.not_eq_true', List.any_eq_false, decide_eq_true_eq]
  have hU : ∀ a, a ∈ H.nodes.filter (· ∉ Z) ↔ (a ∈ H.nodes ∧ a ∉ Z) := by
    intro a; simp [List.mem_filter]
  have r2p : ∀ {a b}, a ∈ H.nodes.filter (· ∉ Z) → Reach (H.nodes.filter (· ∉ Z)) H.nbrs a b →
      PathAvoid (· ∈ H.nodes) (UAdj H.edges) Z a b := by
    intro a b ha h
    induction h with
    | refl => exact PathAvoid.refl _ ((hU _).mp ha).1 ((hU _).mp ha).2
    | tail _ s ih => exact PathAvoid.tail ih (mem_ugNbrs.mp s.1) ((hU _).mp s.2).1 ((hU _).mp s.2).2
  have p2r : ∀ {a b}, PathAvoid (· ∈ H.nodes) (UAdj H.edges) Z a b →
      a ∈ H.nodes.filter (· ∉ Z) ∧ Reach (H.nodes.filter (· ∉ Z)) H.nbrs a b := by
    intro a b h
    induction h with
    | refl ha haZ => exact ⟨(hU _).mpr ⟨ha, haZ⟩, Reach.refl _⟩
    | tail _ e hc hcZ ih => exact ⟨ih.1, Reach.tail ih.2 ⟨mem_ugNbrs.mpr e, (hU _).mpr ⟨hc, hcZ⟩⟩⟩
  constructor
  · intro h x hx y hy hp
    obtain ⟨hxU, hr⟩ := p2r hp
    exact h y ((mem_closure _ _ _ _).mpr ⟨x, hx, hxU, hr⟩) hy
  · intro h v hv hvY
    obtain ⟨x, hx, hxU, hr⟩ := (mem_closure _ _ _ _).mp hv
    exact h x hx v hvY (r2p hxU hr)

/-! ## the second sentence -/

/-- T2 transported to a list `A` that represents the anterior set and to path-level
    collider-connectedness inside the induced subgraph -/
theorem sep_iff_cutR (G : MG) (hwf : G.WF) (hb : NoUndirAtHead G) (hsl : NoSelfLoop G)
    (X Y Z : List Nat) (hX : ∀ x ∈ X, x ∈ G.nodes) (hZ : ∀ z ∈ Z, z ∈ G.nodes)
    (hXZ : ∀ x ∈ X, x ∉ Z) (hYZ : ∀ y ∈ Y, y ∉ Z) (A : List Nat) (hA : IsAntSet G (X ++ Y ++ Z) A) :
    MSep G X Y Z ↔
      CutR (· ∈ A) (fun u v => u ≠ v ∧ ColliderConnected (restrict G A) u v) X Y Z := by
  unfold CutR
  rw [mSep_iff_moral_cut G hwf hb hsl X Y Z hZ hXZ hYZ]
  have bridge : ∀ x ∈ X, ∀ y,
      (HConn G (AntSet G X Y Z) Z x y ↔
        PathAvoid (· ∈ A) (fun u v => u ≠ v ∧ ColliderConnected (restrict G A) u v) Z x y) := by
    intro x hx y
    have hxA : x ∈ A := (hA x).mpr ⟨hX x hx, x, by simp [hx], Ant.refl x⟩
    have hcongr : ∀ a b, HConn G (AntSet G X Y Z) Z a b ↔ HConn G (· ∈ A) Z a b := by
      intro a b
      constructor
      · intro h
        induction h with
        | refl => exact HConn.refl _
        | step e hbZ _ ih => exact HConn.step ((hadj_congr hwf hA).mp e) hbZ ih
      · intro h
        induction h with
        | refl => exact HConn.refl _
        | step e hbZ _ ih => exact HConn.step ((hadj_congr hwf hA).mpr e) hbZ ih
    rw [hcongr]
    refine hconn_iff_pathAvoid ?_ hxA (hXZ x hx)
    intro u v
    constructor
    · rintro ⟨hne, h⟩; exact ⟨hne, (hadj_iff_cc hwf hne).mpr h⟩
    · rintro ⟨hne, h⟩; exact ⟨hne, (hadj_iff_cc hwf hne).mp h⟩
  constructor
  · intro h x hx y hy hp
    exact h ⟨x, hx, y, hy, (bridge x hx y).mpr hp⟩
  · rintro h ⟨x, hx, y, hy, hc⟩
    exact h x hx y hy ((bridge x hx y).mp hc)

theorem mem_union3 {G : MG} {X Y Z : List Nat} (hX : ∀ x ∈ X, x ∈ G.nodes) (hY : ∀ y ∈ Y, y ∈ G.nodes)
    (hZ : ∀ z ∈ Z, z ∈ G.nodes) : ∀ s ∈ X ++ Y ++ Z, s ∈ G.nodes := by
  intro s hs
  rcases List.mem_append.mp hs with hs | hs
  · rcases List.mem_append.mp hs with hs | hs
    · exact hX s hs
    · exact hY s hs
  · exact hZ s hs

/-- **C12, second sentence (specification level), unconditional.** On the domain of C01, for
    X, Y, Z ⊆ V with X, Y disjoint from Z: X and Y are m-separated given Z iff Z cuts X from Y in the
    graph on the anterior set of X ∪ Y ∪ Z whose adjacency is collider-connectedness inside the
    induced subgraph. -/
theorem sep_iff_antMoralCut (G : MG) (hwf : G.WF) (hb : NoUndirAtHead G) (hsl : NoSelfLoop G)
    (X Y Z : List Nat) (hX : ∀ x ∈ X, x ∈ G.nodes) (hY : ∀ y ∈ Y, y ∈ G.nodes)
    (hZ : ∀ z ∈ Z, z ∈ G.nodes) (hXZ : ∀ x ∈ X, x ∉ Z) (hYZ : ∀ y ∈ Y, y ∉ Z) : SepIffCut G X Y Z := by
  unfold SepIffCut AntMoralCut
  constructor
  · intro h A hA
    exact (sep_iff_cutR G hwf hb hsl X Y Z hX hZ hXZ hYZ A hA).mp h
  · intro h
    have hA := anterior_isAntSet hwf (mem_union3 hX hY hZ)
    exact (sep_iff_cutR G hwf hb hsl X Y Z hX hZ hXZ hYZ _ hA).mpr (h _ hA)

/-- **C12, second sentence for the models.** m-separation ⟺ `Z` is a vertex cut between `X` and `Y`
    in `moral (restrict G (anterior G (X ∪ Y ∪ Z)))` – the graph the code builds. -/
theorem sep_iff_vcut (G : MG) (hwf : G.WF) (hb : NoUndirAtHead G) (hsl : NoSelfLoop G)
    (X Y Z : List Nat) (hX : ∀ x ∈ X, x ∈ G.nodes) (hY : ∀ y ∈ Y, y ∈ G.nodes)
    (hZ : ∀ z ∈ Z, z ∈ G.nodes) (hXZ : ∀ x ∈ X, x ∉ Z) (hYZ : ∀ y ∈ Y, y ∉ Z) :
    MSep G X Y Z ↔ VCut (moral (restrict G (anterior G (X ++ Y ++ Z)))) X Y Z := by
  have hA := anterior_isAntSet hwf (mem_union3 hX hY hZ)
  rw [sep_iff_cutR G hwf hb hsl X Y Z hX hZ hXZ hYZ _ hA]
  generalize anterior G (X ++ Y ++ Z) = A at hA
  have hnodes : ∀ a, a ∈ (moral (restrict G A)).nodes ↔ a ∈ A := by
    intro a
    show a ∈ G.nodes.filter (· ∈ A) ↔ _
    simp only [List.mem_filter, decide_eq_true_eq]
    exact ⟨fun h => h.2, fun h => ⟨((hA a).mp h).1, h⟩⟩
  have hadj := moral_adj_iff (restrict G A) (restrict_wf hwf) (restrict_nsl hsl)
  unfold VCut CutR
  constructor
  · intro h x hx y hy hp
    exact h x hx y hy (hp.congr (fun a ha => (hnodes a).mp ha) (fun a b _ _ e => (hadj a b).mp e))
  · intro h x hx y hy hp
    exact h x hx y hy (hp.congr (fun a ha => (hnodes a).mpr ha) (fun a b _ _ e => (hadj a b).mpr e))

/-- **C12, second sentence, executable form**: the verified m-separation model of C01 and the
    vertex-cut decider on the model's moral graph of the model's anterior subgraph agree. -/
theorem mSeparated_eq_moralSep (G : MG) (hwf : G.WF) (hb : NoUndirAtHead G) (hsl : NoSelfLoop G)
    (X Y Z : List Nat) (hX : ∀ x ∈ X, x ∈ G.nodes) (hY : ∀ y ∈ Y, y ∈ G.nodes)
    (hZ : ∀ z ∈ Z, z ∈ G.nodes) (hXZ : ∀ x ∈ X, x ∉ Z) (hYZ : ∀ y ∈ Y, y ∉ Z) :
    mSeparated G X Y Z = moralSep G X Y Z := by
  have h1 := mSeparated_iff_MSep G hwf hb hsl X Y Z hX hZ hXZ
  have h2 := sep_iff_vcut G hwf hb hsl X Y Z hX hY hZ hXZ hYZ
  have h3 := vcut_iff (moral (restrict G (anterior G (X ++ Y ++ Z)))) X Y Z
  unfold moralSep
  cases hm : mSeparated G X Y Z <;>
    cases hv : vcut (moral (restrict G (anterior G (X ++ Y ++ Z)))) X Y Z <;> simp_all

/-- non-vacuity of the hypotheses (G1 of Main.lean, X = {0}, Y = {1}, Z = {4}) -/
example : G1.WF ∧ NoUndirAtHead G1 ∧ NoSelfLoop G1 ∧ (∀ x ∈ [0], x ∈ G1.nodes) ∧
    (∀ y ∈ [1], y ∈ G1.nodes) ∧ (∀ z ∈ [4], z ∈ G1.nodes) ∧ (∀ x ∈ [0], x ∉ [4]) ∧ (∀ y ∈ [1], y ∉ [4]) :=
  ⟨G1_wf, noUndirAtHead_of_un_nil G1 rfl, G1_nsl, by simp [G1], by simp [G1], by simp [G1], by simp, by simp⟩

end C12
