import Pw.C01.Guard
import Pw.C12.Model
open Closure C12

/-! # C11 model: `minimal_m_separator`, `is_minimal_m_separator`, `_anterior`, `_bfs_with_marks`
(pywhy_graphs/networkx/algorithms/causal/m_separation.py, after the `fix:` commits:
 node arguments wrapped as singleton sets; final check on `G` given `z ∪ i`; candidate set
 `z_prime` taken from the anterior set of `{x, y} ∪ i`)

`_anterior` is `C12.anterior` (worklist closure under parents and undirected neighbours, start nodes
included; the code marks on push, the combinator on pop – same set).  The moralisation is
`C12.moral`.  -/
namespace C11

/-- `for node in i: aug_G_p.remove_node(node)` -/
def delete (H : UG) (I : List Nat) : UG :=
  { nodes := H.nodes.filter (· ∉ I), edges := H.edges.filter (fun e => e.1 ∉ I ∧ e.2 ∉ I) }

/-- BFS state of `_bfs_with_marks`: node, and whether it was marked (= met inside `check_set`) -/
abbrev BSt := Nat × Bool

/-- loop body: every neighbour not yet visited is marked if it lies in `check_set` (and then not
    expanded), otherwise queued -/
def bfsExpand (H : UG) (check : List Nat) : BSt → List BSt
  | (v, false) => (H.nbrs v).map fun w => (w, decide (w ∈ check))
  | (_, true) => []

def bfsStates (H : UG) : List BSt := H.nodes.map (·, false) ++ H.nodes.map (·, true)

/-- `_bfs_with_marks(G, start_node, check_set)`: the start node is visited (never marked) and always
    expanded -/
def bfsWithMarks (H : UG) (start : Nat) (check : List Nat) : List Nat :=
  ((closure (bfsStates H) (bfsExpand H check) [(start, false)]).filter
      fun s => s.2 && s.1 != start).map (·.1)

def subset (A B : List Nat) : Bool := A.all (· ∈ B)
def setEq (A B : List Nat) : Bool := subset A B && subset B A

/-- the last three lines: `if not m_separated(...): return None; return z` (an exception of
    `m_separated` – cyclic directed layer – propagates) -/
def finish (r : Except String Bool) (Z : List Nat) : Except String (Option (List Nat)) :=
  match r with
  | .error e => .error e
  | .ok false => .ok none
  | .ok true => .ok (some Z)

/-- `minimal_m_separator(G, x, y, i, r)` -/
def minimalMSep (G : MG) (x y : Nat) (I R : List Nat) : Except String (Option (List Nat)) :=
  if !subset I R then .error "i-not-in-r" else
  let A := anterior G (x :: y :: I)                       -- anterior_nodes_G
  let Gc := restrict G A                                  -- G_copy
  let aug := delete (moral Gc) I                          -- aug_G_p
  let zp := (R.filter (· ∈ anterior Gc (x :: y :: I))).filter (fun v => v ≠ x ∧ v ≠ y)   -- z_prime
  let zdp := bfsWithMarks aug x zp                        -- z_dprime
  let z := bfsWithMarks aug y zdp
  finish (MG.mSeparatedE G [x] [y] (z ++ I)) (z ++ I)     -- final TESTSEP on G given z ∪ i

/-- `is_minimal_m_separator(G, x, y, z, i, r)` with its early exits -/
def isMinimalMSep (G : MG) (x y : Nat) (Z I R : List Nat) : Except String Bool :=
  if !subset I Z then .error "nx" else
  if !subset Z R then .error "nx" else
  let A := anterior G (x :: y :: I)
  if !subset Z A then .ok false else
  match MG.mSeparatedE G [x] [y] Z with
  | .error e => .error e
  | .ok false => .ok false
  | .ok true =>
    let aug := delete (moral (restrict G A)) I
    let zmi := Z.filter (· ∉ I)
    if !setEq zmi (bfsWithMarks aug x Z) then .ok false else
    if !setEq zmi (bfsWithMarks aug y Z) then .ok false else
    .ok true

end C11
