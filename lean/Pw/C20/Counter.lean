import Pw.C20.Proofs

/-!
C20 — (1) history-level stability of registered targets; (2) the four defects of the unchanged
code, each as a literal model (`Cfg` flag) with a kernel-checked counterexample to the
specification `StepOK`, on the witness that is also replayed on the implementation
(corpus/C20/*.json); (3) non-vacuity examples for the property theorems.
-/
namespace C20

/-! ### registered targets over a history -/

theorem entry_kept_step {s : State} (hs : HInv s) (op : Op) (g k : Nat) (e : FEntry)
    (hg : g < s.objs.length) (hne : op ≠ .at g (.rmF k)) :
    ∀ b ∈ view Cfg.fixed s g, (k, e) ∈ b.fs → ∀ a ∈ view Cfg.fixed (step Cfg.fixed s op).1 g, (k, e) ∈ a.fs := by
  intro b hb hin a ha
  by_cases ht : some g ≠ op.target
  · rw [frame_step hs op g hg ht] at ha
    rw [Option.mem_def] at hb ha
    rw [hb] at ha; cases ha; exact hin
  · have ht' : op.target = some g := by
      cases h : op.target with
      | none => rw [h] at ht; exact absurd (by simp) ht
      | some x => rw [h] at ht; simp at ht; rw [ht]
    cases op with
    | new _ => cases ht'
    | copy _ => cases ht'
    | allS _ _ => cases ht'
    | «at» g' lop =>
      simp only [Op.target, Option.some.injEq] at ht'
      subst ht'
      have hl : lop ≠ .rmF k := fun h => hne (by rw [h])
      obtain ⟨st, _⟩ := targets_stable_step hs g' lop b hb a ha
      cases ho : s.objs[g']? with
      | none => rw [view, ho] at hb; cases hb
      | some o =>
        rw [view_at ho] at hb
        have ha' := stepAt_view_self hs lop ho
        change a ∈ view Cfg.fixed (stepAt Cfg.fixed s g' lop).1 g' at ha
        rw [ha'] at ha
        cases hb; cases ha
        exact (stepLocal_keeps (hs.linv g' o ho) lop).1 (k, e) hin hl

/-- **Each F-node stays registered with exactly the targets it was created with**: over any
history in which `('F', k)` of object `g` is not removed, the entry `k ↦ (targets, domain)` of `g`
stays what it is (`addF_creates` says it starts as the targets given at creation; `reg_invariant`
says these are the children at every moment). -/
theorem targets_stable_run : ∀ (ops : List Op) {s : State}, HInv s → ∀ (g k : Nat) (e : FEntry),
    g < s.objs.length → (∀ op ∈ ops, op ≠ .at g (.rmF k)) →
    ∀ b ∈ view Cfg.fixed s g, (k, e) ∈ b.fs →
    ∀ a ∈ view Cfg.fixed (run Cfg.fixed s ops) g, (k, e) ∈ a.fs := by
  intro ops
  induction ops with
  | nil =>
    intro s _ g k e _ _ b hb hin a ha
    rw [Option.mem_def] at hb ha
    simp only [run] at ha
    rw [hb] at ha; cases ha; exact hin
  | cons op rest ih =>
    intro s hs g k e hg hne b hb hin a ha
    have hlen := Nat.lt_of_lt_of_le hg (step_len s hs op)
    cases hv : view Cfg.fixed (step Cfg.fixed s op).1 g with
    | none =>
      unfold view at hv
      have : (step Cfg.fixed s op).1.objs[g]? ≠ none := by
        rw [ne_eq, List.getElem?_eq_none_iff]; omega
      cases ho : (step Cfg.fixed s op).1.objs[g]? with
      | none => exact absurd ho this
      | some o => rw [ho] at hv; cases hv
    | some m =>
      have hm := entry_kept_step hs op g k e hg (hne op (List.mem_cons_self ..)) b hb hin m hv
      exact ih (step_inv hs op) g k e hlen (fun op' h' => hne op' (List.mem_cons_of_mem _ h')) m hv hm a ha

/-! ### the defects of the unchanged code -/

def Cfg.lenNamingOnly : Cfg := ⟨true, false, false, false⟩
def Cfg.sharedCopyOnly : Cfg := ⟨false, true, false, false⟩
def Cfg.keepSOnly : Cfg := ⟨false, false, true, false⟩
def Cfg.classDomsOnly : Cfg := ⟨false, false, false, true⟩

/-- the specification of one step, evaluated on the model `c` after the history `pre` -/
def StepOKAt (c : Cfg) (pre : List Op) (op : Op) : Prop :=
  StepOK op (decide ((step c (run c init pre) op).2 = .ok))
    (view c (run c init pre)) (view c (step c (run c init pre) op).1)
    (run c init pre).objs.length (step c (run c init pre) op).1.objs.length

instance (c : Cfg) (pre : List Op) (op : Op) : Decidable (StepOKAt c pre op) := by
  unfold StepOKAt; exact inferInstance

/-- every object satisfies `Reg` -/
def RegAll (c : Cfg) (s : State) : Prop := ∀ g < s.objs.length, ∀ v ∈ view c s g, Reg v

instance (c : Cfg) (s : State) : Decidable (RegAll c s) := by unfold RegAll; exact inferInstance

/-- witness corpus/C20/name-collision-after-removing-nonlast-f-node (a variant whose last call
targets `{0}`): F0 ↦ {0}, F1 ↦ {1}, remove F0, add an F-node for {0} -/
def preLen : List Op :=
  [.new .ag, .at 0 (.node 0), .at 0 (.node 1), .at 0 (.addF [0] true none), .at 0 (.addF [1] true none),
   .at 0 (.rmF 0)]

/-- `('F', len(f_nodes))` reuses the name of the live node `('F', 1)`: no node is created, and
`('F', 1)` is registered with `{0}` while its children are `{0, 1}` -/
theorem counterexample_len_naming : ¬ StepOKAt Cfg.lenNamingOnly preLen (.at 0 (.addF [0] true none)) := by decide

theorem counterexample_len_naming_reg :
    ¬ RegAll Cfg.lenNamingOnly (run Cfg.lenNamingOnly init (preLen ++ [.at 0 (.addF [0] true none)])) := by decide

/-- witness corpus/C20/copy-shares-registry: the copy registers an F-node, the original shows it -/
theorem counterexample_shared_copy :
    ¬ StepOKAt Cfg.sharedCopyOnly [.new .ag, .copy 0] (.at 1 (.addF [] true none)) := by decide

/-- Frame fails for the shared registry: the call on object 1 changes what object 0 shows -/
theorem counterexample_shared_copy_frame :
    ¬ Frame (.at 1 (.addF [] true none)) (view Cfg.sharedCopyOnly (run Cfg.sharedCopyOnly init [.new .ag, .copy 0]))
      (view Cfg.sharedCopyOnly (run Cfg.sharedCopyOnly init [.new .ag, .copy 0, .at 1 (.addF [] true none)])) 2 := by
  decide

/-- witness corpus/C20/add-all-snode-combinations-writes-into-original -/
theorem counterexample_shared_copy_allS : ¬ StepOKAt Cfg.sharedCopyOnly [.new .ag] (.allS 0 2) := by decide

/-- witness corpus/C20/augmentedgraph-remove-keeps-s-node-registered -/
theorem counterexample_keep_s :
    ¬ StepOKAt Cfg.keepSOnly [.new .ag, .at 0 (.addS (1, 2) [])] (.at 0 (.rmS 0)) := by decide

/-- witness corpus/C20/domains-class-attribute-shared: two separately constructed graphs -/
theorem counterexample_class_domains :
    ¬ StepOKAt Cfg.classDomsOnly [.new .ag, .new .ag] (.at 0 (.addS (1, 2) [])) := by decide

/-- the unchanged code (all four defects) fails on each witness -/
theorem counterexample_orig :
    ¬ StepOKAt Cfg.orig preLen (.at 0 (.addF [0] true none)) ∧
    ¬ StepOKAt Cfg.orig [.new .ag, .copy 0] (.at 1 (.addF [] true none)) ∧
    ¬ StepOKAt Cfg.orig [.new .ag, .at 0 (.addS (1, 2) [])] (.at 0 (.rmS 0)) ∧
    ¬ StepOKAt Cfg.orig [.new .ag, .new .ag] (.at 0 (.addS (1, 2) [])) := by decide

/-! ### tests (kernel-checked instances, not the unbounded claim) and non-vacuity -/

/-- test: the repaired model satisfies the whole step specification on the four witnesses -/
theorem test_fixed_on_witnesses :
    StepOKAt Cfg.fixed preLen (.at 0 (.addF [0] true none)) ∧
    StepOKAt Cfg.fixed [.new .ag, .copy 0] (.at 1 (.addF [] true none)) ∧
    StepOKAt Cfg.fixed [.new .ag] (.allS 0 2) ∧
    StepOKAt Cfg.fixed [.new .ag, .at 0 (.addS (1, 2) [])] (.at 0 (.rmS 0)) ∧
    StepOKAt Cfg.fixed [.new .ag, .new .ag] (.at 0 (.addS (1, 2) [])) := by decide

/-- a history with three live objects, a copy, removals and re-additions -/
def demo : List Op :=
  preLen ++ [.at 0 (.addF [0, 1] true (some [2])), .copy 0, .at 1 (.addS (1, 2) [0]), .new .pag,
             .at 2 (.node 2), .at 2 (.addS (2, 3) [2]), .at 1 (.rmF 1)]

/-- non-vacuity of `reg_invariant`: object 1 of `demo` exists and has F- and S-nodes -/
example : ∃ v, view Cfg.fixed (run Cfg.fixed init demo) 1 = some v ∧ v.fs ≠ [] ∧ v.ss ≠ [] :=
  ⟨_, rfl, by decide, by decide⟩

/-- non-vacuity of `frame_run` / `frame_step`: the last four operations of `demo` are not called on
object 0 (they edit its copy and another graph), object 0 exists before them -/
example : (∀ op ∈ demo.drop 8, some 0 ≠ op.target) ∧ 0 < (run Cfg.fixed init (demo.take 8)).objs.length ∧
    demo.drop 8 ≠ [] := by decide

/-- non-vacuity of `addF_creates`: the call returns `ok` after a removal of a non-last F-node -/
example : (step Cfg.fixed (run Cfg.fixed init preLen) (.at 0 (.addF [0] true none))).2 = .ok := by decide

/-- non-vacuity of `addS_creates` -/
example : (step Cfg.fixed (run Cfg.fixed init [.new .pag]) (.at 0 (.addS (1, 2) [0]))).2 = .ok := by decide

/-- non-vacuity of `targets_stable_run`: F2 ↦ {0,1} of object 0 exists after 8 steps of `demo` and
is never removed from object 0 afterwards -/
example : (∃ b ∈ view Cfg.fixed (run Cfg.fixed init (demo.take 8)) 0, (2, ⟨[0, 1], [2]⟩) ∈ b.fs) ∧
    (∀ op ∈ demo.drop 8, op ≠ .at 0 (.rmF 2)) := by decide

/-- the name chosen after removing F0 of {F0, F1} is 2 (first free index ≥ len), not 1 -/
example : nameF Cfg.fixed ⟨{ cls := .ag, nodes := [.ord 0, .f 1], reg := 0 }, { fs := [(1, ⟨[0], [1]⟩)] }, []⟩ = 2 := by
  decide

end C20
