import Pw.C01.WalkPath
open Closure

/-! # C01 specification: m-separation by *paths*, stated declaratively

A path is a start node plus a list of hops; each hop names the edge it uses by its two marks, so on a
pair that carries several edges (ADMG bows) a path picks one edge per hop. -/
namespace MG

/-- `Anc G a c`: there is a directed path a -> ... -> c (reflexive). -/
inductive Anc (G : MG) : Nat → Nat → Prop
  | refl (a : Nat) : Anc G a a
  | step {a b c : Nat} : (a, b) ∈ G.dir → Anc G b c → Anc G a c

/-- a collider is open given Z iff it is in Z or has a directed descendant in Z -/
def ColliderOpen (G : MG) (Z : List Nat) (v : Nat) : Prop := ∃ z ∈ Z, Anc G v z

/-- condition at an inner node `v` entered with mark `min` (at v) and left with mark `mout` (at v) -/
def condS (G : MG) (Z : List Nat) (min mout : Mark) (v : Nat) : Prop :=
  if min = .head ∧ mout = .head then ColliderOpen G Z v else v ∉ Z

/-- all inner nodes of the path `a, hs` satisfy the m-connection condition; `e` is the mark at `a` of
    the edge by which `a` was entered (`none`: `a` is the first node of the path, no condition). -/
def OpenS (G : MG) (Z : List Nat) : Option Mark → Nat → List Hop → Prop
  | _, _, [] => True
  | none, _, h :: t => OpenS G Z (some h.mn) h.nx t
  | some m, a, h :: t => condS G Z m h.mp a ∧ OpenS G Z (some h.mn) h.nx t

/-- an m-connecting path from x to y given Z -/
def MConnPath (G : MG) (Z : List Nat) (x y : Nat) : Prop :=
  ∃ hs, ValidW G x hs ∧ endNode x hs = y ∧ (nodesOf x hs).Nodup ∧ OpenS G Z none x hs

/-- X and Y are m-separated given Z: no m-connecting path between a node of X and a node of Y -/
def MSep (G : MG) (X Y Z : List Nat) : Prop :=
  ∀ x ∈ X, ∀ y ∈ Y, ¬ MConnPath G Z x y

/-- the directed layer has no cycle -/
def Acyclic (G : MG) : Prop := ∀ a b, (a, b) ∈ G.dir → ¬ Anc G b a

end MG
