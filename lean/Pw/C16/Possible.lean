import Pw.C16.Proofs
open Closure

/-! # C16: `possible_descendants` / `possible_ancestors` = closure characterisation -/
namespace C16

theorem nodup_reverse' {l : List Nat} : l.reverse.Nodup ↔ l.Nodup := by
  rw [List.Nodup, List.pairwise_reverse]
  exact ⟨fun h => h.imp Ne.symm, fun h => h.imp Ne.symm⟩

theorem chainP_snoc {R : Nat → Nat → Prop} {a : Nat} {l : List Nat} {c : Nat}
    (h : ChainP R (a :: l)) (hr : R (lastOf a l) c) : ChainP R (a :: (l ++ [c])) := by
  induction l generalizing a with
  | nil => exact ⟨by simpa using hr, trivial⟩
  | cons b l ih => exact ⟨h.1, ih h.2 (by simpa using hr)⟩

/-- reachability of the worklist closure = existence of a chain of single steps -/
theorem reach_iff_chain {U : List Nat} {step : Nat → List Nat} {a b : Nat} :
    Reach U step a b ↔ ∃ l, ChainP (Step U step) (a :: l) ∧ lastOf a l = b := by
  constructor
  · intro h
    induction h with
    | refl => exact ⟨[], trivial, rfl⟩
    | tail _ hs ih =>
      obtain ⟨l, hc, hl⟩ := ih
      exact ⟨l ++ [_], chainP_snoc hc (hl ▸ hs), by rw [lastOf_append]; rfl⟩
  · rintro ⟨l, hc, hl⟩
    induction l generalizing a with
    | nil => simp only [lastOf_nil] at hl; subst hl; exact Reach.refl _
    | cons c l ih => exact Reach.head hc.1 (ih hc.2 (by simpa using hl))

theorem mem_pdStep_false {G : MG} (hw : WF G) {v w : Nat} :
    Step G.nodes (pdStep G false) v w ↔ Hop G v w := by
  unfold Step pdStep possiblyDirected Hop Arrow
  simp only [List.mem_filter, mem_nbrs, Bool.false_eq_true, if_false]
  constructor
  · rintro ⟨⟨⟨_, hadj⟩, hpd⟩, _⟩
    refine ⟨hadj, ?_⟩
    split at hpd
    · cases hpd
    · split at hpd
      · cases hpd
      · rename_i h; simp only [Bool.or_eq_true, decide_eq_true_eq, not_or] at h
        rintro (h' | h' | h')
        · exact h.1 h'
        · exact h.2.2 h'
        · exact h.2.1 h'
  · rintro ⟨hadj, hna⟩
    have hn := hadj.mem_nodes hw
    refine ⟨⟨⟨hn.2, hadj⟩, ?_⟩, hn.2⟩
    rw [if_neg (by simp [hn.1, hadj.symm])]
    rw [if_neg]
    simp only [Bool.or_eq_true, decide_eq_true_eq, not_or]
    exact ⟨fun h => hna (Or.inl h), fun h => hna (Or.inr (Or.inr h)), fun h => hna (Or.inr (Or.inl h))⟩

theorem mem_pdStep_true {G : MG} (hw : WF G) {v w : Nat} :
    Step G.nodes (pdStep G true) v w ↔ Hop G w v := by
  unfold Step pdStep possiblyDirected Hop Arrow
  simp only [List.mem_filter, mem_nbrs, if_true]
  constructor
  · rintro ⟨⟨⟨_, hadj⟩, hpd⟩, _⟩
    refine ⟨hadj.symm, ?_⟩
    split at hpd
    · cases hpd
    · split at hpd
      · cases hpd
      · rename_i h; simp only [Bool.or_eq_true, decide_eq_true_eq, not_or] at h
        rintro (h' | h' | h')
        · exact h.1 h'
        · exact h.2.1 h'
        · exact h.2.2 h'
  · rintro ⟨hadj, hna⟩
    have hn := hadj.mem_nodes hw
    refine ⟨⟨⟨hn.1, hadj.symm⟩, ?_⟩, hn.1⟩
    rw [if_neg (by simp [hn.2, hadj])]
    rw [if_neg]
    simp only [Bool.or_eq_true, decide_eq_true_eq, not_or]
    exact ⟨fun h => hna (Or.inl h), fun h => hna (Or.inr (Or.inl h)), fun h => hna (Or.inr (Or.inr h))⟩

theorem getLast?_cons_eq_lastOf (a : Nat) (l : List Nat) : (a :: l).getLast? = some (lastOf a l) := by
  simp [lastOf, List.getLast?_eq_some_getLast]

/-- a chain of hops from `s`, cut down to a semi-directed path -/
theorem semiDirected_of_chain {G : MG} (hw : WF G) {s : Nat} (hs : s ∈ G.nodes) {l : List Nat}
    (hc : ChainP (Hop G) (s :: l)) :
    ∃ l', SemiDirected G (s :: l') ∧ lastOf s l' = lastOf s l := by
  obtain ⟨l', hc', hnd, hlast, hsub⟩ := chain_to_path s l hc
  refine ⟨l', ⟨by simp, ?_, hnd, hc'⟩, hlast⟩
  -- every node of a chain of hops from a node is a node
  have : ∀ (a : Nat) (m : List Nat), a ∈ G.nodes → ChainP (Hop G) (a :: m) → ∀ v ∈ a :: m, v ∈ G.nodes := by
    intro a m
    induction m generalizing a with
    | nil => intro ha _ v hv; simp only [List.mem_singleton] at hv; exact hv ▸ ha
    | cons b m ih =>
      intro ha hch v hv
      rcases List.mem_cons.mp hv with rfl | hv
      · exact ha
      · exact ih b (hch.1.1.mem_nodes hw).2 hch.2 v hv
  exact this s l' hs hc'

/-- ★ `possible_descendants(G, s)` = `s` together with the ends of semi-directed paths from `s` -/
theorem mem_possibleDescendants {G : MG} (hw : WF G) {s : Nat} (hs : s ∈ G.nodes) (v : Nat) :
    v ∈ possibleDescendants G s ↔ PossDesc G s v := by
  unfold possibleDescendants PossDesc
  rw [mem_closure]
  simp only [List.mem_singleton, exists_eq_left, hs, true_and, reach_iff_chain]
  constructor
  · rintro ⟨l, hc, hl⟩
    have hc' : ChainP (Hop G) (s :: l) := hc.imp fun a b h => (mem_pdStep_false hw).mp h
    obtain ⟨l', hsd, hlast⟩ := semiDirected_of_chain hw hs hc'
    cases l' with
    | nil => left; rw [← hl, ← hlast]; rfl
    | cons b l' => right; exact ⟨_, hsd, by simp, by rw [getLast?_cons_eq_lastOf, hlast, hl]⟩
  · rintro (rfl | ⟨p, hsd, hh, hlast⟩)
    · exact ⟨[], trivial, rfl⟩
    · cases p with
      | nil => simp at hh
      | cons a l =>
        simp only [List.head?_cons, Option.some.injEq] at hh
        subst hh
        refine ⟨l, hsd.2.2.2.imp fun a b h => (mem_pdStep_false hw).mpr h, ?_⟩
        rw [getLast?_cons_eq_lastOf] at hlast
        exact Option.some.inj hlast

/-- ★ `possible_ancestors(G, s)` = `s` together with the starts of semi-directed paths to `s` -/
theorem mem_possibleAncestors {G : MG} (hw : WF G) {s : Nat} (hs : s ∈ G.nodes) (v : Nat) :
    v ∈ possibleAncestors G s ↔ PossAnc G s v := by
  unfold possibleAncestors PossAnc
  rw [mem_closure]
  simp only [List.mem_singleton, exists_eq_left, hs, true_and, reach_iff_chain]
  constructor
  · rintro ⟨l, hc, hl⟩
    -- the reversed relation is again "a chain of single steps"; cut it to a path, then reverse
    have hc' : ChainP (fun a b => Hop G b a) (s :: l) := hc.imp fun a b h => (mem_pdStep_true hw).mp h
    obtain ⟨l', hch, hnd, hlast, -⟩ := chain_to_path s l hc'
    cases l' with
    | nil => left; rw [← hl, ← hlast]; rfl
    | cons b l' =>
      right
      refine ⟨(s :: b :: l').reverse, ⟨by simp, ?_, nodup_reverse'.mpr hnd, by
        rw [chainP_reverse]; exact hch⟩, ?_, by simp⟩
      · have : ∀ (a : Nat) (m : List Nat), a ∈ G.nodes → ChainP (fun a b => Hop G b a) (a :: m) →
            ∀ v ∈ a :: m, v ∈ G.nodes := by
          intro a m
          induction m generalizing a with
          | nil => intro ha _ v hv; simp only [List.mem_singleton] at hv; exact hv ▸ ha
          | cons c m ih =>
            intro ha hch v hv
            rcases List.mem_cons.mp hv with rfl | hv
            · exact ha
            · exact ih c (hch.1.1.mem_nodes hw).1 hch.2 v hv
        intro v hv
        exact this s (b :: l') hs hch v (List.mem_reverse.mp hv)
      · rw [List.head?_reverse, getLast?_cons_eq_lastOf, hlast, hl]
  · rintro (rfl | ⟨p, hsd, hh, hlast⟩)
    · exact ⟨[], trivial, rfl⟩
    · -- reverse the path: it starts at `s`
      have hrev : ChainP (fun a b => Hop G b a) p.reverse :=
        (chainP_reverse (R := fun a b => Hop G b a)).mpr hsd.2.2.2
      have hhead : p.reverse.head? = some s := by rw [List.head?_reverse]; exact hlast
      have hl : p.reverse.getLast? = some v := by rw [List.getLast?_reverse]; exact hh
      cases hp : p.reverse with
      | nil => rw [hp] at hhead; simp at hhead
      | cons a l =>
        rw [hp] at hrev hhead hl
        simp only [List.head?_cons, Option.some.injEq] at hhead
        subst hhead
        refine ⟨l, hrev.imp fun a b h => (mem_pdStep_true hw).mpr h, ?_⟩
        rw [getLast?_cons_eq_lastOf] at hl
        exact Option.some.inj hl

/-- ★ the oracles of the harness are the specification -/
theorem mem_possDescDec {G : MG} {s : Nat} (hs : s ∈ G.nodes) (v : Nat) :
    v ∈ possDescDec G s ↔ PossDesc G s v := by
  unfold possDescDec PossDesc
  simp only [List.mem_filterMap, mem_simplePaths hs]
  constructor
  · rintro ⟨p, ⟨⟨hn, hnd, _⟩, hh⟩, hv⟩
    split at hv
    · rename_i hch
      cases p with
      | nil => simp at hh
      | cons a l =>
        cases l with
        | nil =>
          left
          simp only [List.head?_cons, Option.some.injEq] at hh
          simp only [List.getLast?_singleton, Option.some.injEq] at hv
          rw [← hv, hh]
        | cons b l => right; exact ⟨_, ⟨by simp, hn, hnd, hch⟩, hh, hv⟩
    · cases hv
  · rintro (rfl | ⟨p, hsd, hh, hlast⟩)
    · exact ⟨[v], ⟨⟨by simpa using hs, by simp, trivial⟩, rfl⟩, by simp⟩
    · exact ⟨p, ⟨⟨hsd.2.1, hsd.2.2.1, hsd.2.2.2.imp fun _ _ => Hop.adj⟩, hh⟩, by simp [hsd.2.2.2, hlast]⟩

theorem mem_possAncDec {G : MG} {s : Nat} (hs : s ∈ G.nodes) (v : Nat) :
    v ∈ possAncDec G s ↔ PossAnc G s v := by
  unfold possAncDec PossAnc
  simp only [List.mem_filterMap, mem_simplePaths hs]
  constructor
  · rintro ⟨p, ⟨⟨hn, hnd, _⟩, hh⟩, hv⟩
    split at hv
    · rename_i hch
      cases p with
      | nil => simp at hh
      | cons a l =>
        cases l with
        | nil =>
          left
          simp only [List.head?_cons, Option.some.injEq] at hh
          simp only [List.getLast?_singleton, Option.some.injEq] at hv
          rw [← hv, hh]
        | cons b l =>
          right
          refine ⟨(a :: b :: l).reverse, ⟨by simp, fun v hv => hn v (List.mem_reverse.mp hv),
            nodup_reverse'.mpr hnd, ?_⟩, ?_, ?_⟩
          · rw [chainP_reverse]; exact hch
          · rw [List.head?_reverse]; exact hv
          · rw [List.getLast?_reverse]; exact hh
    · cases hv
  · rintro (rfl | ⟨p, hsd, hh, hlast⟩)
    · exact ⟨[v], ⟨⟨by simpa using hs, by simp, trivial⟩, rfl⟩, by simp⟩
    · have hrev : ChainP (fun a b => Hop G b a) p.reverse :=
        (chainP_reverse (R := fun a b => Hop G b a)).mpr hsd.2.2.2
      refine ⟨p.reverse, ⟨⟨fun v hv => hsd.2.1 v (List.mem_reverse.mp hv), nodup_reverse'.mpr hsd.2.2.1, ?_⟩, ?_⟩, ?_⟩
      · exact hrev.imp fun a b h => h.1.symm
      · rw [List.head?_reverse]; exact hlast
      · simp only [hrev, if_true, List.getLast?_reverse]; exact hh

end C16
