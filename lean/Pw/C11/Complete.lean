import Pw.C11.Decider
open Closure MG C12
set_option linter.unusedSectionVars false

/-! # C11: completeness and minimality of `minimal_m_separator` (unconditional)

With T2 proved (Pw/T2) and bridged to the models (Pw/C12/Cut), what is left of van der Zander et
al.'s FINDMINSEP argument is elementary reasoning about vertex cuts in one fixed undirected graph
`H = moral (restrict G A)`, `A = anterior G ({x,y} ∪ I)`:

* every set `Z'` with `I ⊆ Z' ⊆ A` has the same anterior set, hence
  `MSep G [x] [y] Z' ↔ Z'` cuts x from y in `H`  (`msep_iff_cut`);
* a separator `Z ⊇ I` of any shape still cuts x from y in `H`  (`cut_of_sep`);
* marking from x, then from y, keeps a cut a cut (`cut_shrink`) and every marked node is needed
  (`minimalMSep_minimal`). -/
namespace C12

/-! ## paths avoiding Z in an undirected graph -/

theorem PathAvoid.trans {V : Nat → Prop} {E : Nat → Nat → Prop} {Z : List Nat} {a b c : Nat}
    (h1 : PathAvoid V E Z a b) (h2 : PathAvoid V E Z b c) : PathAvoid V E Z a c := by
  induction h2 with
  | refl _ _ => exact h1
  | tail _ e hc hcZ ih => exact PathAvoid.tail ih e hc hcZ

theorem PathAvoid.symm {V : Nat → Prop} {E : Nat → Nat → Prop} {Z : List Nat} {a b : Nat}
    (hE : ∀ a b, E a b → E b a) (h : PathAvoid V E Z a b) : PathAvoid V E Z b a := by
  induction h with
  | refl ha haZ => exact PathAvoid.refl _ ha haZ
  | tail _ e hc hcZ ih => exact PathAvoid.head hc hcZ (hE _ _ e) ih

theorem PathAvoid.left_mem {V : Nat → Prop} {E : Nat → Nat → Prop} {Z : List Nat} {a b : Nat}
    (h : PathAvoid V E Z a b) : V a ∧ a ∉ Z := by
  induction h with
  | refl ha haZ => exact ⟨ha, haZ⟩
  | tail _ _ _ _ ih => exact ih

theorem PathAvoid.right_mem {V : Nat → Prop} {E : Nat → Nat → Prop} {Z : List Nat} {a b : Nat}
    (h : PathAvoid V E Z a b) : V b ∧ b ∉ Z := by
  cases h with
  | refl ha haZ => exact ⟨ha, haZ⟩
  | tail _ _ hc hcZ => exact ⟨hc, hcZ⟩

theorem PathAvoid.mono_Z {V : Nat → Prop} {E : Nat → Nat → Prop} {Z1 Z2 : List Nat} {a b : Nat}
    (hz : ∀ v, V v → v ∈ Z2 → v ∈ Z1) (h : PathAvoid V E Z1 a b) : PathAvoid V E Z2 a b := by
  induction h with
  | refl ha haZ => exact PathAvoid.refl _ ha (fun h2 => haZ (hz _ ha h2))
  | tail _ e hc hcZ ih => exact PathAvoid.tail ih e hc (fun h2 => hcZ (hz _ hc h2))

end C12

namespace C11

theorem uadj_symm {es : List (Nat × Nat)} {a b : Nat} (h : UAdj es a b) : UAdj es b a := Or.symm h

theorem uadj_delete {H : UG} {I : List Nat} {a b : Nat} :
    UAdj (delete H I).edges a b ↔ (UAdj H.edges a b ∧ a ∉ I ∧ b ∉ I) := by
  unfold UAdj delete
  simp only [List.mem_filter, decide_eq_true_eq]
  constructor
  · rintro (⟨h, h1, h2⟩ | ⟨h, h1, h2⟩)
    · exact ⟨Or.inl h, h1, h2⟩
    · exact ⟨Or.inr h, h2, h1⟩
  · rintro ⟨h | h, h1, h2⟩
    · exact Or.inl ⟨h, h1, h2⟩
    · exact Or.inr ⟨h, h2, h1⟩

/-- abbreviation: reachability in `H` avoiding `Z` -/
abbrev PA (H : UG) (Z : List Nat) (a b : Nat) : Prop :=
  PathAvoid (· ∈ H.nodes) (UAdj H.edges) Z a b

/-- a search of `_bfs_with_marks` in `H - I` is a walk of `H` that avoids every subset of `K ∪ I`
    not containing the start node -/
theorem pa_of_bfree {H : UG} {I K Z' : List Nat} {s v : Nat} (hs : s ∈ H.nodes) (hsZ : s ∉ Z')
    (hZ' : ∀ a ∈ Z', a ∈ K ∨ a ∈ I) (h : BFree (delete H I) K s v) : PA H Z' s v := by
  induction h with
  | refl => exact PathAvoid.refl _ hs hsZ
  | @step v w _ hadj hwn hwk ih =>
    have hw := mem_delete_nodes.mp hwn
    refine PathAvoid.tail ih (uadj_delete.mp hadj).1 hw.1 ?_
    intro hz
    rcases hZ' w hz with h | h
    · exact hwk h
    · exact hw.2 h

/-- a walk of `H` from `s` that avoids the marked nodes and `I` never meets `K` at all -/
theorem bfree_of_pa {H : UG} {I K : List Nat} {s b : Nat} (hsK : s ∉ K)
    (h : PA H (bfsWithMarks (delete H I) s K ++ I) s b) : BFree (delete H I) K s b := by
  have hs := h.left_mem
  have hsM : s ∈ (delete H I).nodes :=
    mem_delete_nodes.mpr ⟨hs.1, fun hi => hs.2 (List.mem_append_right _ hi)⟩
  induction h with
  | refl => exact BFree.refl
  | @tail b c hab e hc hcZ ih =>
    have hb := hab.right_mem
    have hbI : b ∉ I := fun hi => hb.2 (List.mem_append_right _ hi)
    have hcI : c ∉ I := fun hi => hcZ (List.mem_append_right _ hi)
    have hadj : UAdj (delete H I).edges b c := uadj_delete.mpr ⟨e, hbI, hcI⟩
    have hcM : c ∈ (delete H I).nodes := mem_delete_nodes.mpr ⟨hc, hcI⟩
    have hfree := ih
    by_cases hcK : c ∈ K
    · exfalso
      apply hcZ
      apply List.mem_append_left
      exact (mem_bfsWithMarks hsM).mpr ⟨hcK, fun e => hsK (e ▸ hcK), hcM, b, hfree, hadj⟩
    · exact BFree.step hfree hadj hcM hcK

/-- **one marking pass keeps a cut a cut** -/
theorem cut_shrink {H : UG} {I K : List Nat} {s t : Nat} (hsK : s ∉ K) (hsI : s ∉ I)
    (hcut : ¬ PA H (K ++ I) s t) : ¬ PA H (bfsWithMarks (delete H I) s K ++ I) s t := by
  intro p
  apply hcut
  refine pa_of_bfree p.left_mem.1 ?_ (fun a ha => List.mem_append.mp ha) (bfree_of_pa hsK p)
  intro h
  rcases List.mem_append.mp h with h | h
  · exact hsK h
  · exact hsI h

/-! ## the fixed graph `H` -/

/-- `A = _anterior(G, {x, y} ∪ I)` -/
abbrev antA (G : MG) (x y : Nat) (I : List Nat) : List Nat := anterior G (x :: y :: I)

/-- the moral graph of the anterior subgraph -/
abbrev morH (G : MG) (x y : Nat) (I : List Nat) : UG := moral (restrict G (antA G x y I))

theorem ant_trans {G : MG} {a b c : Nat} (h1 : Ant G a b) (h2 : Ant G b c) : Ant G a c := by
  induction h1 with
  | refl => exact h2
  | step e _ ih => exact Ant.step e (ih h2)

theorem hadj_mono {G : MG} {P Q : Nat → Prop} (hPQ : ∀ w, P w → Q w) {u v : Nat}
    (h : HAdj G P u v) : HAdj G Q u v := by
  obtain ⟨hs, hn, hv, hend, hc, hall⟩ := h
  exact ⟨hs, hn, hv, hend, hc, fun w hw => hPQ w (hall w hw)⟩

section
variable (G : MG) (hwf : G.WF) (hb : NoUndirAtHead G) (hsl : NoSelfLoop G) (x y : Nat) (I : List Nat)
  (hx : x ∈ G.nodes) (hy : y ∈ G.nodes) (hI : ∀ i ∈ I, i ∈ G.nodes)
include hwf hx hy hI

theorem s0_sub : ∀ s ∈ x :: y :: I, s ∈ G.nodes := by
  intro s hs
  rcases List.mem_cons.mp hs with rfl | hs
  · exact hx
  · rcases List.mem_cons.mp hs with rfl | hs
    · exact hy
    · exact hI s hs

theorem mem_antA {a : Nat} : a ∈ antA G x y I ↔ InAnt G (x :: y :: I) a :=
  mem_anterior hwf (s0_sub G hwf x y I hx hy hI)

theorem mem_morH_nodes {a : Nat} : a ∈ (morH G x y I).nodes ↔ a ∈ antA G x y I := by
  show a ∈ G.nodes.filter (· ∈ antA G x y I) ↔ _
  simp only [List.mem_filter, decide_eq_true_eq]
  exact ⟨fun h => h.2, fun h => ⟨anterior_sub_nodes h, h⟩⟩

/-- every `Z'` between `I` and `A` has the anterior set `A` -/
theorem isAntSet_of_between (Z' : List Nat) (hIZ : ∀ i ∈ I, i ∈ Z') (hZA : ∀ z ∈ Z', z ∈ antA G x y I) :
    IsAntSet G ([x] ++ [y] ++ Z') (antA G x y I) := by
  intro a
  rw [mem_antA G hwf x y I hx hy hI]
  constructor
  · rintro ⟨t, ht, ha⟩
    refine ⟨?_, t, ?_, ha⟩
    · exact anterior_sub_nodes ((mem_antA G hwf x y I hx hy hI).mpr ⟨t, ht, ha⟩)
    · rcases List.mem_cons.mp ht with rfl | ht
      · simp
      · rcases List.mem_cons.mp ht with rfl | ht
        · simp
        · simp [hIZ t ht]
  · rintro ⟨_, t, ht, ha⟩
    simp only [List.mem_append, List.mem_singleton] at ht
    rcases ht with (rfl | rfl) | ht
    · exact ⟨t, by simp, ha⟩
    · exact ⟨t, by simp, ha⟩
    · obtain ⟨s, hs, hts⟩ := (mem_antA G hwf x y I hx hy hI).mp (hZA t ht)
      exact ⟨s, hs, ant_trans ha hts⟩

include hb hsl

/-- the two presentations of the moral graph on `A` have the same avoiding walks -/
theorem pa_iff_cutPath (Z' : List Nat) (a b : Nat) :
    PA (morH G x y I) Z' a b ↔
      PathAvoid (· ∈ antA G x y I)
        (fun u v => u ≠ v ∧ ColliderConnected (restrict G (antA G x y I)) u v) Z' a b := by
  have hadj := moral_adj_iff (restrict G (antA G x y I)) (restrict_wf hwf) (restrict_nsl hsl)
  constructor
  · intro h
    exact h.congr (fun a ha => (mem_morH_nodes G hwf x y I hx hy hI).mp ha) (fun a b _ _ e => (hadj a b).mp e)
  · intro h
    exact h.congr (fun a ha => (mem_morH_nodes G hwf x y I hx hy hI).mpr ha) (fun a b _ _ e => (hadj a b).mpr e)

/-- **(∗)** for every `Z'` with `I ⊆ Z' ⊆ A`, x, y ∉ Z': m-separation given `Z'` is a cut in `H` -/
theorem msep_iff_cut (Z' : List Nat) (hIZ : ∀ i ∈ I, i ∈ Z') (hZA : ∀ z ∈ Z', z ∈ antA G x y I)
    (hxZ : x ∉ Z') (hyZ : y ∉ Z') : MSep G [x] [y] Z' ↔ ¬ PA (morH G x y I) Z' x y := by
  have hA := isAntSet_of_between G hwf x y I hx hy hI Z' hIZ hZA
  rw [sep_iff_cutR G hwf hb hsl [x] [y] Z' (by simpa using hx) (fun z hz => anterior_sub_nodes (hZA z hz))
    (by simpa using hxZ) (by simpa using hyZ) _ hA, pa_iff_cutPath G hwf hb hsl x y I hx hy hI]
  unfold CutR
  simp

/-- a separator of any shape that contains `I` still cuts x from y in `H` -/
theorem cut_of_sep (Z : List Nat) (hIZ : ∀ i ∈ I, i ∈ Z) (hZn : ∀ z ∈ Z, z ∈ G.nodes)
    (hxZ : x ∉ Z) (hyZ : y ∉ Z) (h : MSep G [x] [y] Z) : ¬ PA (morH G x y I) Z x y := by
  intro p
  have hS : ∀ s ∈ [x] ++ [y] ++ Z, s ∈ G.nodes :=
    mem_union3 (by simpa using hx) (by simpa using hy) hZn
  have hAZ := anterior_isAntSet hwf hS
  have hcut := (sep_iff_cutR G hwf hb hsl [x] [y] Z (by simpa using hx) hZn (by simpa using hxZ)
    (by simpa using hyZ) _ hAZ).mp h
  have hsub : ∀ a, a ∈ antA G x y I → a ∈ anterior G ([x] ++ [y] ++ Z) := by
    intro a ha
    obtain ⟨t, ht, hat⟩ := (mem_antA G hwf x y I hx hy hI).mp ha
    refine (mem_anterior hwf hS).mpr ⟨t, ?_, hat⟩
    rcases List.mem_cons.mp ht with rfl | ht
    · simp
    · rcases List.mem_cons.mp ht with rfl | ht
      · simp
      · simp [hIZ t ht]
  apply hcut x (by simp) y (by simp)
  refine ((pa_iff_cutPath G hwf hb hsl x y I hx hy hI Z x y).mp p).congr hsub ?_
  rintro a b _ _ ⟨hne, hcc⟩
  exact ⟨hne, (hadj_iff_cc hwf hne).mp (hadj_mono hsub ((hadj_iff_cc hwf hne).mpr hcc))⟩

/-- the restricted graph has the same anterior set (the code calls `_anterior` on `G_copy`) -/
theorem mem_anterior_restrict {a : Nat} :
    a ∈ anterior (restrict G (antA G x y I)) (x :: y :: I) ↔ a ∈ antA G x y I := by
  have hS := s0_sub G hwf x y I hx hy hI
  have hSA : ∀ s ∈ x :: y :: I, s ∈ antA G x y I :=
    fun s hs => (mem_antA G hwf x y I hx hy hI).mpr ⟨s, hs, Ant.refl s⟩
  have hS' : ∀ s ∈ x :: y :: I, s ∈ (restrict G (antA G x y I)).nodes :=
    fun s hs => mem_restrict_nodes.mpr ⟨hS s hs, hSA s hs⟩
  rw [mem_anterior (restrict_wf hwf) hS']
  constructor
  · rintro ⟨s, hs, ha⟩
    -- an anterior walk in the subgraph is one in G
    have : ∀ {a s}, Ant (restrict G (antA G x y I)) a s → Ant G a s := by
      intro a s h
      induction h with
      | refl => exact Ant.refl _
      | step e _ ih => exact Ant.step (hasEdge_restrict.mp e).1 ih
    exact (mem_antA G hwf x y I hx hy hI).mpr ⟨s, hs, this ha⟩
  · intro ha
    obtain ⟨s, hs, has⟩ := (mem_antA G hwf x y I hx hy hI).mp ha
    refine ⟨s, hs, ?_⟩
    clear ha
    induction has with
    | refl => exact Ant.refl _
    | @step a b c mb e hbc ih =>
      have haA : a ∈ antA G x y I := (mem_antA G hwf x y I hx hy hI).mpr ⟨c, hs, Ant.step e hbc⟩
      have hbA : b ∈ antA G x y I := (mem_antA G hwf x y I hx hy hI).mpr ⟨c, hs, hbc⟩
      exact Ant.step (hasEdge_restrict.mpr ⟨e, haA, hbA⟩) (ih hs)

end

/-! ## the pieces of the model -/

abbrev augH (G : MG) (x y : Nat) (I : List Nat) : UG := delete (morH G x y I) I

def zP (G : MG) (x y : Nat) (I R : List Nat) : List Nat :=
  (R.filter (· ∈ anterior (restrict G (antA G x y I)) (x :: y :: I))).filter (fun v => v ≠ x ∧ v ≠ y)
def zDP (G : MG) (x y : Nat) (I R : List Nat) : List Nat := bfsWithMarks (augH G x y I) x (zP G x y I R)
def zF (G : MG) (x y : Nat) (I R : List Nat) : List Nat := bfsWithMarks (augH G x y I) y (zDP G x y I R)

theorem mSeparatedE_ok {G : MG} (hwf : G.WF) (hac : Acyclic G) (X Y Z : List Nat) :
    mSeparatedE G X Y Z = .ok (mSeparated G X Y Z) := by
  unfold mSeparatedE
  rw [(hasCycle_false_iff G hwf).mpr hac]
  rfl

theorem minimalMSep_eq {G : MG} (hwf : G.WF) (hac : Acyclic G) (x y : Nat) (I R : List Nat)
    (hIR : ∀ i ∈ I, i ∈ R) :
    minimalMSep G x y I R =
      if mSeparated G [x] [y] (zF G x y I R ++ I) then .ok (some (zF G x y I R ++ I)) else .ok none := by
  unfold minimalMSep
  rw [if_neg (by simp [subset_iff.mpr hIR])]
  show finish (mSeparatedE G [x] [y] (zF G x y I R ++ I)) (zF G x y I R ++ I) = _
  rw [mSeparatedE_ok hwf hac]
  cases mSeparated G [x] [y] (zF G x y I R ++ I) <;> rfl

section
variable (G : MG) (hwf : G.WF) (hb : NoUndirAtHead G) (hsl : NoSelfLoop G) (hac : Acyclic G)
  (x y : Nat) (I R : List Nat)
  (hx : x ∈ G.nodes) (hy : y ∈ G.nodes) (hR : ∀ r ∈ R, r ∈ G.nodes) (hxR : x ∉ R) (hyR : y ∉ R)
  (hIR : ∀ i ∈ I, i ∈ R)
include hwf hb hsl hx hy hR hxR hyR hIR

theorem hI_nodes : ∀ i ∈ I, i ∈ G.nodes := fun i hi => hR i (hIR i hi)
theorem hxI : x ∉ I := fun h => hxR (hIR x h)
theorem hyI : y ∉ I := fun h => hyR (hIR y h)

theorem mem_zP {v : Nat} : v ∈ zP G x y I R ↔ (v ∈ R ∧ v ∈ antA G x y I ∧ v ≠ x ∧ v ≠ y) := by
  unfold zP
  simp only [List.mem_filter, decide_eq_true_eq]
  rw [mem_anterior_restrict G hwf hb hsl x y I hx hy (hI_nodes G hwf hb hsl x y I R hx hy hR hxR hyR hIR)]
  exact ⟨fun h => ⟨h.1.1, h.1.2, h.2.1, h.2.2⟩, fun h => ⟨⟨h.1, h.2.1⟩, h.2.2.1, h.2.2.2⟩⟩

theorem zDP_sub {v : Nat} (h : v ∈ zDP G x y I R) : v ∈ zP G x y I R := (bfsWithMarks_sub h).1
theorem zF_sub {v : Nat} (h : v ∈ zF G x y I R) : v ∈ zDP G x y I R := (bfsWithMarks_sub h).1

theorem xA : x ∈ antA G x y I :=
  (mem_antA G hwf x y I hx hy (hI_nodes G hwf hb hsl x y I R hx hy hR hxR hyR hIR)).mpr ⟨x, by simp, Ant.refl x⟩
theorem yA : y ∈ antA G x y I :=
  (mem_antA G hwf x y I hx hy (hI_nodes G hwf hb hsl x y I R hx hy hR hxR hyR hIR)).mpr ⟨y, by simp, Ant.refl y⟩
theorem IA : ∀ i ∈ I, i ∈ antA G x y I := fun i hi =>
  (mem_antA G hwf x y I hx hy (hI_nodes G hwf hb hsl x y I R hx hy hR hxR hyR hIR)).mpr
    ⟨i, by simp [hi], Ant.refl i⟩

/-- facts about the returned set `zF ++ I` -/
theorem zFI_facts : (∀ i ∈ I, i ∈ zF G x y I R ++ I) ∧ (∀ z ∈ zF G x y I R ++ I, z ∈ antA G x y I) ∧
    x ∉ zF G x y I R ++ I ∧ y ∉ zF G x y I R ++ I ∧ (∀ z ∈ zF G x y I R ++ I, z ∈ R) := by
  have hmem : ∀ z ∈ zF G x y I R, z ∈ R ∧ z ∈ antA G x y I ∧ z ≠ x ∧ z ≠ y := fun z hz =>
    (mem_zP G hwf hb hsl x y I R hx hy hR hxR hyR hIR).mp
      (zDP_sub G hwf hb hsl x y I R hx hy hR hxR hyR hIR (zF_sub G hwf hb hsl x y I R hx hy hR hxR hyR hIR hz))
  refine ⟨fun i hi => List.mem_append_right _ hi, ?_, ?_, ?_, ?_⟩
  · intro z hz
    rcases List.mem_append.mp hz with hz | hz
    · exact (hmem z hz).2.1
    · exact IA G hwf hb hsl x y I R hx hy hR hxR hyR hIR z hz
  · intro h
    rcases List.mem_append.mp h with h | h
    · exact (hmem x h).2.2.1 rfl
    · exact hxI G hwf hb hsl x y I R hx hy hR hxR hyR hIR h
  · intro h
    rcases List.mem_append.mp h with h | h
    · exact (hmem y h).2.2.2 rfl
    · exact hyI G hwf hb hsl x y I R hx hy hR hxR hyR hIR h
  · intro z hz
    rcases List.mem_append.mp hz with hz | hz
    · exact (hmem z hz).1
    · exact hIR z hz

/-- **completeness core**: if any admissible separator exists, the set computed by the two marking
    passes (plus `I`) m-separates x and y -/
theorem zF_separates (h : ∃ Z, Sep G x y I R Z) : MSep G [x] [y] (zF G x y I R ++ I) := by
  obtain ⟨Z, hIZ, hZR, hsep⟩ := h
  have hIn := hI_nodes G hwf hb hsl x y I R hx hy hR hxR hyR hIR
  have hxI' := hxI G hwf hb hsl x y I R hx hy hR hxR hyR hIR
  have hyI' := hyI G hwf hb hsl x y I R hx hy hR hxR hyR hIR
  have hcutZ := cut_of_sep G hwf hb hsl x y I hx hy hIn Z hIZ (fun z hz => hR z (hZR z hz))
    (fun h => hxR (hZR x h)) (fun h => hyR (hZR y h)) hsep
  -- the full candidate set is a cut
  have hcut0 : ¬ PA (morH G x y I) (zP G x y I R ++ I) x y := by
    intro p
    apply hcutZ
    refine p.mono_Z ?_
    intro v hv hvZ
    apply List.mem_append_left
    refine (mem_zP G hwf hb hsl x y I R hx hy hR hxR hyR hIR).mpr
      ⟨hZR v hvZ, (mem_morH_nodes G hwf x y I hx hy hIn).mp hv, ?_, ?_⟩
    · rintro rfl; exact hxR (hZR _ hvZ)
    · rintro rfl; exact hyR (hZR _ hvZ)
  have hxP : x ∉ zP G x y I R := fun h =>
    ((mem_zP G hwf hb hsl x y I R hx hy hR hxR hyR hIR).mp h).2.2.1 rfl
  have hyDP : y ∉ zDP G x y I R := fun h =>
    ((mem_zP G hwf hb hsl x y I R hx hy hR hxR hyR hIR).mp
      (zDP_sub G hwf hb hsl x y I R hx hy hR hxR hyR hIR h)).2.2.2 rfl
  -- pass 1 (from x), pass 2 (from y, by symmetry of the undirected graph)
  have hcut1 : ¬ PA (morH G x y I) (zDP G x y I R ++ I) x y := cut_shrink hxP hxI' hcut0
  have hcut1' : ¬ PA (morH G x y I) (zDP G x y I R ++ I) y x :=
    fun p => hcut1 (p.symm (fun _ _ => uadj_symm))
  have hcut2' : ¬ PA (morH G x y I) (zF G x y I R ++ I) y x := cut_shrink hyDP hyI' hcut1'
  have hcut2 : ¬ PA (morH G x y I) (zF G x y I R ++ I) x y :=
    fun p => hcut2' (p.symm (fun _ _ => uadj_symm))
  obtain ⟨f1, f2, f3, f4, _⟩ := zFI_facts G hwf hb hsl x y I R hx hy hR hxR hyR hIR
  exact (msep_iff_cut G hwf hb hsl x y I hx hy hIn _ f1 f2 f3 f4).mpr hcut2

include hac

/-- **C11 completeness.** `minimal_m_separator` (model) returns `None` exactly when no set `Z` with
    `I ⊆ Z ⊆ R` m-separates x and y. -/
theorem minimalMSep_none_iff :
    minimalMSep G x y I R = .ok none ↔ ¬ ∃ Z, Sep G x y I R Z := by
  rw [minimalMSep_eq hwf hac x y I R hIR]
  constructor
  · intro h hex
    have hs := zF_separates G hwf hb hsl x y I R hx hy hR hxR hyR hIR hex
    obtain ⟨_, f2, f3, _, _⟩ := zFI_facts G hwf hb hsl x y I R hx hy hR hxR hyR hIR
    have := (mSeparated_iff_MSep G hwf hb hsl [x] [y] _ (by simpa using hx)
      (fun z hz => anterior_sub_nodes (f2 z hz)) (by simpa using f3)).mpr hs
    rw [this] at h
    simp at h
  · intro h
    cases hm : mSeparated G [x] [y] (zF G x y I R ++ I)
    · simp
    · exfalso
      apply h
      obtain ⟨f1, f2, f3, _, f5⟩ := zFI_facts G hwf hb hsl x y I R hx hy hR hxR hyR hIR
      exact ⟨_, f1, f5, (mSeparated_iff_MSep G hwf hb hsl [x] [y] _ (by simpa using hx)
        (fun z hz => anterior_sub_nodes (f2 z hz)) (by simpa using f3)).mp hm⟩

/-- **C11 minimality.** A set returned by `minimal_m_separator` (model) is an I-minimal separator. -/
theorem minimalMSep_minimal (Z : List Nat) (h : minimalMSep G x y I R = .ok (some Z)) :
    MinSep G x y I R Z := by
  have hIn := hI_nodes G hwf hb hsl x y I R hx hy hR hxR hyR hIR
  have hxI' := hxI G hwf hb hsl x y I R hx hy hR hxR hyR hIR
  have hyI' := hyI G hwf hb hsl x y I R hx hy hR hxR hyR hIR
  have hsound := minimalMSep_sound G hwf hb hsl x y I R hx hIn hxI' Z h
  refine ⟨hsound, ?_⟩
  rw [minimalMSep_eq hwf hac x y I R hIR] at h
  have hZ : Z = zF G x y I R ++ I := by
    cases hm : mSeparated G [x] [y] (zF G x y I R ++ I) <;> rw [hm] at h <;> simp at h
    exact h.symm
  subst hZ
  obtain ⟨f1, f2, f3, f4, f5⟩ := zFI_facts G hwf hb hsl x y I R hx hy hR hxR hyR hIR
  rintro Z' hsub ⟨w, hw, hwn⟩ ⟨hIZ', _, hsep'⟩
  -- w is a marked node
  have hwI : w ∉ I := fun hi => hwn (hIZ' w hi)
  have hwF : w ∈ zF G x y I R := by
    rcases List.mem_append.mp hw with h | h
    · exact h
    · exact absurd h hwI
  have hxA' := xA G hwf hb hsl x y I R hx hy hR hxR hyR hIR
  have hyA' := yA G hwf hb hsl x y I R hx hy hR hxR hyR hIR
  have hxH : x ∈ (morH G x y I).nodes := (mem_morH_nodes G hwf x y I hx hy hIn).mpr hxA'
  have hyH : y ∈ (morH G x y I).nodes := (mem_morH_nodes G hwf x y I hx hy hIn).mpr hyA'
  have hxM : x ∈ (augH G x y I).nodes := mem_delete_nodes.mpr ⟨hxH, hxI'⟩
  have hyM : y ∈ (augH G x y I).nodes := mem_delete_nodes.mpr ⟨hyH, hyI'⟩
  have hxZ' : x ∉ Z' := fun h => f3 (hsub x h)
  have hyZ' : y ∉ Z' := fun h => f4 (hsub y h)
  -- y-side: w is adjacent to a node reached from y outside zDP
  obtain ⟨_, _, hwM, uy, huy, hadjy⟩ := (mem_bfsWithMarks hyM).mp hwF
  -- x-side: w ∈ zDP is adjacent to a node reached from x outside zP
  have hwDP := zF_sub G hwf hb hsl x y I R hx hy hR hxR hyR hIR hwF
  obtain ⟨_, _, _, ux, hux, hadjx⟩ := (mem_bfsWithMarks hxM).mp hwDP
  have hZ'sub : ∀ a ∈ Z', a ∈ zF G x y I R ∨ a ∈ I := fun a ha => List.mem_append.mp (hsub a ha)
  have px : PA (morH G x y I) Z' x ux := pa_of_bfree hxH hxZ' (fun a ha => by
    rcases hZ'sub a ha with h | h
    · exact Or.inl (zDP_sub G hwf hb hsl x y I R hx hy hR hxR hyR hIR
        (zF_sub G hwf hb hsl x y I R hx hy hR hxR hyR hIR h))
    · exact Or.inr h) hux
  have py : PA (morH G x y I) Z' y uy := pa_of_bfree hyH hyZ' (fun a ha => by
    rcases hZ'sub a ha with h | h
    · exact Or.inl (zF_sub G hwf hb hsl x y I R hx hy hR hxR hyR hIR h)
    · exact Or.inr h) huy
  have hwH : w ∈ (morH G x y I).nodes := (mem_delete_nodes.mp hwM).1
  have p1 : PA (morH G x y I) Z' x w := PathAvoid.tail px (uadj_delete.mp hadjx).1 hwH hwn
  have p2 : PA (morH G x y I) Z' w y :=
    (PathAvoid.tail py (uadj_delete.mp hadjy).1 hwH hwn).symm (fun _ _ => uadj_symm)
  have hcut := (msep_iff_cut G hwf hb hsl x y I hx hy hIn Z' hIZ' (fun z hz => f2 z (hsub z hz))
    hxZ' hyZ').mp hsep'
  exact hcut (p1.trans p2)

/-- **C11, first sentence, for the model (unconditional).** On acyclic graphs of the C01 domain with
    x, y ∈ V and I ⊆ R ⊆ V ∖ {x, y}: the model returns a value, and that value is what the property
    demands (`None` iff no separator exists, otherwise an I-minimal separator). -/
theorem minimalMSep_spec :
    ∃ r, minimalMSep G x y I R = .ok r ∧ MinimalSpec G x y I R r := by
  rw [minimalMSep_eq hwf hac x y I R hIR]
  cases hm : mSeparated G [x] [y] (zF G x y I R ++ I)
  · refine ⟨none, by simp, ?_⟩
    apply (minimalMSep_none_iff G hwf hb hsl hac x y I R hx hy hR hxR hyR hIR).mp
    rw [minimalMSep_eq hwf hac x y I R hIR, hm]; simp
  · refine ⟨some (zF G x y I R ++ I), by simp, ?_⟩
    apply minimalMSep_minimal G hwf hb hsl hac x y I R hx hy hR hxR hyR hIR
    rw [minimalMSep_eq hwf hac x y I R hIR, hm]; simp

end

end C11
