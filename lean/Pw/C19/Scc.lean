import Pw.C19.Spec
open Closure MG

/-! # C19: strongly connected components by mutual reachability -/
namespace C19

/-- the inputs of the property: endpoints are nodes, the node list has no duplicates, no self loops -/
structure Dom (G : MG) : Prop where
  wf : G.WF
  nodup : G.nodes.Nodup
  noloopD : ∀ a, (a, a) ∉ G.dir
  noloopB : ∀ a, (a, a) ∉ G.bi

theorem SC.refl (G : MG) (a : Nat) : SC G a a := ⟨Anc.refl a, Anc.refl a⟩
theorem SC.symm {G : MG} {a b : Nat} (h : SC G a b) : SC G b a := ⟨h.2, h.1⟩
theorem SC.trans {G : MG} {a b c : Nat} (h1 : SC G a b) (h2 : SC G b c) : SC G a c :=
  ⟨h1.1.trans h2.1, h2.2.trans h1.2⟩

theorem Anc.mem_nodes {G : MG} (hwf : G.WF) {a b : Nat} (h : Anc G a b) (ha : a ∈ G.nodes) :
    b ∈ G.nodes := by
  induction h with
  | refl => exact ha
  | step e _ ih => exact ih (hwf.1 _ e).2

theorem Anc.mem_nodes_left {G : MG} (hwf : G.WF) {a b : Nat} (h : Anc G a b) (hb : b ∈ G.nodes) :
    a ∈ G.nodes := by
  induction h with
  | refl => exact hb
  | step e _ _ => exact (hwf.1 _ e).1

theorem reach_iff {G : MG} (hwf : G.WF) {a b : Nat} (ha : a ∈ G.nodes) :
    reach G a b = true ↔ Anc G a b := by
  simp only [reach, decide_eq_true_eq, mem_closure]
  constructor
  · rintro ⟨w, hw, _, hr⟩
    simp at hw; subst hw
    exact reach_children_anc hr
  · intro h
    exact ⟨a, by simp, ha, anc_reach_children hwf h⟩

theorem scB_iff {G : MG} (hwf : G.WF) {a b : Nat} (ha : a ∈ G.nodes) (hb : b ∈ G.nodes) :
    scB G a b = true ↔ SC G a b := by
  simp only [scB, Bool.and_eq_true, reach_iff hwf ha, reach_iff hwf hb, SC]

theorem mem_sc {G : MG} (hwf : G.WF) {a b : Nat} (ha : a ∈ G.nodes) :
    b ∈ sc G a ↔ SC G a b := by
  simp only [sc, List.mem_filter, Bool.and_eq_true]
  constructor
  · rintro ⟨hb, h1, h2⟩
    exact ⟨(reach_iff hwf ha).mp h1, (reach_iff hwf hb).mp h2⟩
  · rintro ⟨h1, h2⟩
    have hb := Anc.mem_nodes hwf h1 ha
    exact ⟨hb, (reach_iff hwf ha).mpr h1, (reach_iff hwf hb).mpr h2⟩

theorem sc_subset_nodes (G : MG) (a : Nat) : ∀ b ∈ sc G a, b ∈ G.nodes := by
  intro b hb
  exact (List.mem_filter.mp hb).1

theorem self_mem_sc {G : MG} (hwf : G.WF) {a : Nat} (ha : a ∈ G.nodes) : a ∈ sc G a :=
  (mem_sc hwf ha).mpr (SC.refl G a)

theorem sc_nodup {G : MG} (hn : G.nodes.Nodup) (a : Nat) : (sc G a).Nodup :=
  hn.filter _

theorem length_le_one_of_all_eq (r : Nat) : ∀ l : List Nat, l.Nodup → (∀ x ∈ l, x = r) → l.length ≤ 1
  | [], _, _ => by simp
  | [_], _, _ => by simp
  | a :: b :: t, hn, h => by
    have ha := h a (by simp)
    have hb := h b (by simp)
    subst ha; subst hb
    simp at hn

/-- a component is non-trivial iff it has a second member -/
theorem sc_nontrivial_iff {G : MG} (hd : Dom G) {r : Nat} (hr : r ∈ G.nodes) :
    ¬ (sc G r).length ≤ 1 ↔ ∃ x, x ≠ r ∧ SC G r x := by
  constructor
  · intro h
    apply Classical.byContradiction
    intro hne
    apply h
    apply length_le_one_of_all_eq r _ (sc_nodup hd.nodup r)
    intro x hx
    apply Classical.byContradiction
    intro hxr
    exact hne ⟨x, hxr, (mem_sc hd.wf hr).mp hx⟩
  · rintro ⟨x, hxr, hsc⟩ hle
    have hsub : [r, x] ⊆ sc G r := by
      intro y hy
      simp at hy
      rcases hy with rfl | rfl
      · exact self_mem_sc hd.wf hr
      · exact (mem_sc hd.wf hr).mpr hsc
    have hnd : [r, x].Nodup := by simp; exact fun h => hxr h.symm
    have := List.Nodup.length_le_of_subset hnd hsub
    simp at this
    omega

/-! ## the list of components -/

theorem compsAux_spec (G : MG) : ∀ (vs seen : List Nat), ∀ c ∈ compsAux G vs seen, ∃ r ∈ vs, c = sc G r
  | [], _, c, hc => by simp [compsAux] at hc
  | v :: vs, seen, c, hc => by
    unfold compsAux at hc
    split at hc
    · obtain ⟨r, hr, h⟩ := compsAux_spec G vs seen c hc
      exact ⟨r, List.mem_cons_of_mem _ hr, h⟩
    · rcases List.mem_cons.mp hc with rfl | hc
      · exact ⟨v, List.mem_cons_self, rfl⟩
      · obtain ⟨r, hr, h⟩ := compsAux_spec G vs _ c hc
        exact ⟨r, List.mem_cons_of_mem _ hr, h⟩

theorem compsAux_cover (G : MG) : ∀ (vs seen : List Nat), (∀ v ∈ vs, v ∈ sc G v) →
    ∀ w ∈ vs, w ∈ seen ∨ ∃ c ∈ compsAux G vs seen, w ∈ c
  | [], _, _, w, hw => by cases hw
  | v :: vs, seen, h, w, hw => by
    have h' : ∀ v ∈ vs, v ∈ sc G v := fun u hu => h u (List.mem_cons_of_mem _ hu)
    unfold compsAux
    split
    · rename_i hv
      rcases List.mem_cons.mp hw with rfl | hw
      · exact Or.inl hv
      · exact compsAux_cover G vs seen h' w hw
    · rcases List.mem_cons.mp hw with rfl | hw
      · exact Or.inr ⟨sc G w, List.mem_cons_self, h w List.mem_cons_self⟩
      · rcases compsAux_cover G vs _ h' w hw with hs | ⟨c, hc, hwc⟩
        · rcases List.mem_append.mp hs with hs | hs
          · exact Or.inr ⟨sc G v, List.mem_cons_self, hs⟩
          · exact Or.inl hs
        · exact Or.inr ⟨c, List.mem_cons_of_mem _ hc, hwc⟩

/-- an order of the components: a list of nodes that mentions every node -/
structure IsOrder (G : MG) (order : List Nat) : Prop where
  sub : ∀ v ∈ order, v ∈ G.nodes
  cover : ∀ v ∈ G.nodes, v ∈ order

theorem comps_spec {G : MG} {order : List Nat} (ho : IsOrder G order) :
    ∀ c ∈ comps G order, ∃ r ∈ G.nodes, c = sc G r := by
  intro c hc
  obtain ⟨r, hr, h⟩ := compsAux_spec G order [] c hc
  exact ⟨r, ho.sub r hr, h⟩

theorem comps_cover {G : MG} (hwf : G.WF) {order : List Nat} (ho : IsOrder G order) :
    ∀ v ∈ G.nodes, ∃ c ∈ comps G order, v ∈ c := by
  intro v hv
  rcases compsAux_cover G order [] (fun u hu => self_mem_sc hwf (ho.sub u hu)) v (ho.cover v hv) with h | h
  · cases h
  · exact h

end C19
