import Pw.Core.Proto
import Pw.C14.Model
import Pw.C14.Spec
import Pw.C14.Ts
open Proto

namespace C14

def parseCls (s : String) : Cls := if s == "admg" then .admg else if s == "cpdag" then .cpdag else .pag
def parseFmt (s : String) : Fmt := if s == "numpy" then .numpy else if s == "clearn" then .clearn else .pcalg

def parseInts (s : String) : List Int := (s.splitOn ",").filterMap (·.toInt?)
/-- `M=0,-1;1,0` -/
def parseMat (s : String) : Mat := Mat.ofLists ((s.splitOn ";").map parseInts)
def fmtMat (n : Nat) (m : Mat) : String :=
  ";".intercalate ((m.toLists n).map fun r => ",".intercalate (r.map toString))

/-- graph with the given pair bits (for printing the specification's decoding) -/
def graphOfBits (n : Nat) (f : Nat → Nat → PB) : MG :=
  let ps := allPairs n
  { nodes := List.range n,
    dir := ps.filter fun ij => ij.1 != ij.2 && (f ij.1 ij.2).duv,
    bi := ps.filter fun ij => ij.1 < ij.2 && (f ij.1 ij.2).bi,
    un := ps.filter fun ij => ij.1 < ij.2 && (f ij.1 ij.2).un,
    circ := ps.filter fun ij => ij.1 != ij.2 && (f ij.1 ij.2).cuv }

def hEnc : Handler := fun a =>
  let c := parseCls (a.get "cls"); let f := parseFmt (a.get "fmt"); let n := a.nat "n"; let g := a.graph
  match f with
  | .numpy => "ok " ++ fmtMat n (npEnc c g n)
  | .clearn => match clEnc c g n with | some m => "ok " ++ fmtMat n m | none => "err"
  | .pcalg => match pcEnc c g n with | some m => "ok " ++ fmtMat n m | none => "err"

/-- specification side: `T|F` (graph in the documented domain) and the documented matrix -/
def hSpec : Handler := fun a =>
  let c := parseCls (a.get "cls"); let f := parseFmt (a.get "fmt"); let n := a.nat "n"; let g := a.graph
  fmtBool (inDomain c f g n) ++ " " ++ fmtMat n (specEnc c f g)

def hDec : Handler := fun a =>
  let c := parseCls (a.get "cls"); let f := parseFmt (a.get "fmt"); let n := a.nat "n"
  let A := parseMat (a.get "M")
  let r := match f with
    | .numpy => npDec c A n
    | .clearn => clDec c A n
    | .pcalg => pcDec c A n
  match r with | some g => "ok " ++ fmtGraph g | none => "err"

/-- specification side: `T|F` (matrix well formed) and the graph the documentation assigns to it -/
def hSpecDec : Handler := fun a =>
  let c := parseCls (a.get "cls"); let f := parseFmt (a.get "fmt"); let n := a.nat "n"
  let A := parseMat (a.get "M")
  fmtBool (wfMatrix c f A n) ++ " " ++ fmtGraph (graphOfBits n (specDecBits c f A))

def tetDomain (c : Cls) (g : MG) (n : Nat) : Bool :=
  (allPairs n).all fun ij => ij.1 == ij.2 || bits g ij.1 ij.2 == PB.empty || (admits c).contains (bits g ij.1 ij.2)

/-- `c14tet cls= n= D= ..` → `T|F a:-->:b;…` (domain flag, lines of the model writer) -/
def hTet : Handler := fun a =>
  let c := parseCls (a.get "cls"); let n := a.nat "n"; let g := a.graph
  fmtBool (tetDomain c g n) ++ " " ++
    ";".intercalate ((tetEnc c g n).map fun l => toString l.1 ++ ":" ++ tetStr l.2.1 ++ ":" ++ toString l.2.2)

def parseTetLines (s : String) : List (Nat × Char × Char × Nat) :=
  (s.splitOn ";").filterMap fun l =>
    match l.splitOn ":" with
    | [x, e, y] => match x.toNat?, y.toNat?, e.toList with
      | some x, some y, c1 :: rest => some (x, c1, (rest.getLast?).getD c1, y)
      | _, _, _ => none
    | _ => none

/-- `c14tetdec cls= n= L=a:-->:b;…` → graph read by the model reader -/
def hTetDec : Handler := fun a =>
  let c := parseCls (a.get "cls"); let n := a.nat "n"
  match tetDec c n (parseTetLines (a.get "L")) with
  | some g => "ok " ++ fmtGraph g
  | none => "err"

/-- `E=x.l.y.m,…` -/
def parseTsEdges (s : String) : List (TsNode × TsNode) :=
  (s.splitOn ",").filterMap fun e =>
    match (e.splitOn ".").map (·.toNat?) with
    | [some x, some l, some y, some m] => some ((x, l), (y, m))
    | _ => none

/-- `A=i.j.lag.val,…` (all other entries 0) -/
def parseArr (s : String) : Arr :=
  let es := (s.splitOn ",").filterMap fun e =>
    match e.splitOn "." with
    | [i, j, l, v] => match i.toNat?, j.toNat?, l.toNat?, v.toInt? with
      | some i, some j, some l, some v => some ((i, j, l), v)
      | _, _, _, _ => none
    | _ => none
  fun i j l => (es.lookup (i, j, l)).getD 0

def tsKey (directed : Bool) (e : TsNode × TsNode) : Nat :=
  let e := if directed || (e.1.1 < e.2.1 || (e.1.1 == e.2.1 && e.1.2 ≤ e.2.2)) then e else (e.2, e.1)
  ((e.1.1 * 1000 + e.1.2) * 1000 + e.2.1) * 1000 + e.2.2

/-- `c14tsenc dir=1 nv= L= E=` → non-zero entries `i.j.lag.val` in index order -/
def hTsEnc : Handler := fun a =>
  let G : TsG := { nv := a.nat "nv", maxLag := a.nat "L", directed := a.nat "dir" == 1, edges := parseTsEdges (a.get "E") }
  let A := tsEnc G
  let idx := (List.range G.nv).flatMap fun i => (List.range G.nv).flatMap fun j =>
    (List.range (G.maxLag + 1)).map fun l => (i, j, l)
  ",".intercalate ((idx.filter fun t => A t.1 t.2.1 t.2.2 != 0).map fun t =>
    toString t.1 ++ "." ++ toString t.2.1 ++ "." ++ toString t.2.2 ++ "." ++ toString (A t.1 t.2.1 t.2.2))

/-- `c14tsdec dir=1 nv= L= A=` → sorted edge keys -/
def hTsDec : Handler := fun a =>
  let d := a.nat "dir" == 1
  let G := tsDec d (a.nat "nv") (a.nat "L") (parseArr (a.get "A"))
  fmtSet (G.edges.map (tsKey d))

def handlers : List (String × Handler) :=
  [("c14enc", hEnc), ("c14spec", hSpec), ("c14dec", hDec), ("c14specdec", hSpecDec),
   ("c14tet", hTet), ("c14tetdec", hTetDec), ("c14tsenc", hTsEnc), ("c14tsdec", hTsDec)]

end C14
