import Pw.C02.Inv

/-! # C02 frame property: a step only changes the object it addresses -/
namespace C02

/-- the handle whose object a step may change (`new`/`copy`/`subgraph` only allocate) -/
def Op.target : Op → Option Nat
  | .on h _ => some h
  | _ => none

/-- **frame**: a step leaves every live object other than its target literally unchanged (in
    particular `copy`/`subgraph` do not touch their source, and mutating a copy never shows in the
    original or vice versa) -/
theorem Store.frame (s : Store) (op : Op) (j : Nat) (hj : j < s.length) (hne : op.target ≠ some j) :
    (s.step op).1[j]? = s[j]? := by
  cases op with
  | new a => simp [Store.step, List.getElem?_append_left hj]
  | on h op =>
    simp only [Store.step]
    split
    · rfl
    · simp only [Op.target, ne_eq, Option.some.injEq] at hne
      simp [List.getElem?_set_ne hne]
  | copy h =>
    simp only [Store.step]
    split
    · rfl
    · simp [List.getElem?_append_left hj]
  | subgraph h ns =>
    simp only [Store.step]
    split
    · rfl
    · simp [List.getElem?_append_left hj]

/-- handles are never invalidated -/
theorem Store.length_step (s : Store) (op : Op) : s.length ≤ (s.step op).1.length := by
  cases op <;> simp only [Store.step] <;> (try split) <;> simp

/-- the same two facts for the abstract store -/
theorem AStore.frame (s : AStore) (op : Op) (j : Nat) (hj : j < s.length) (hne : op.target ≠ some j) :
    (s.step op).1[j]? = s[j]? := by
  cases op with
  | new a => simp [AStore.step, List.getElem?_append_left hj]
  | on h op =>
    simp only [AStore.step]
    split
    · rfl
    · simp only [Op.target, ne_eq, Option.some.injEq] at hne
      simp [List.getElem?_set_ne hne]
  | copy h =>
    simp only [AStore.step]
    split
    · rfl
    · simp [List.getElem?_append_left hj]
  | subgraph h ns =>
    simp only [AStore.step]
    split
    · rfl
    · simp [List.getElem?_append_left hj]

example : (Store.step [MEG.fresh true, MEG.fresh false] (.on 1 (.addNode 3 [])) ).1[0]? = some (MEG.fresh true) := by
  rfl

end C02
