import Pw.C20.Heap

/-!
C20 — property theorems for the model of the repaired code (`Cfg.fixed`), for all histories:

* `reg_invariant`   : `Reg` holds for every live object after every history
* `frame_step`, `frame_run` : an operation (a history of operations) not called on object `g`
  leaves the observation of `g` unchanged – across `copy`, `add_all_snode_combinations` and between
  separately constructed graphs
* `addF_creates`, `addS_creates` : a created augmented node has a name that was not a node, and is
  registered with the targets given
* `targets_stable_step`, `targets_stable_run` : registered targets only ever change by removing
  that very F-node
* `copy_same_view` : a copy shows what its original shows
-/
namespace C20

/-! ### `new`, `copy` as allocations -/

theorem step_new (c : Cfg) (s : State) (cls : Cls) :
    step c s (.new cls) = (alloc s { cls := cls, reg := 0 } {}, .ok) := rfl

theorem stepCopy_none {c : Cfg} {s : State} {g : Nat} (h : s.objs[g]? = none) : stepCopy c s g = (s, .err) := by
  unfold stepCopy; rw [h]

theorem stepCopy_some {s : State} {g : Nat} {o : Obj} (h : s.objs[g]? = some o) :
    stepCopy Cfg.fixed s g = (alloc s o (s.cell o), .ok) := by
  unfold stepCopy; rw [h]; rfl

theorem alloc_len (s : State) (o : Obj) (r : Registry) : (alloc s o r).objs.length = s.objs.length + 1 := by
  simp [alloc]

theorem alloc_frame {s : State} (hs : HInv s) (o : Obj) (r : Registry) (j : Nat) (hj : j < s.objs.length) :
    view Cfg.fixed (alloc s o r) j = view Cfg.fixed s j := by
  unfold view
  rw [alloc_objs, if_pos hj]
  cases hq : s.objs[j]? with
  | none => rfl
  | some q =>
    simp only [Option.map_some, viewOf_fixed]
    congr 1
    have := alloc_cell_old s o r q (hs.valid j q hq)
    simp only [lview, localOf] at this ⊢
    rw [this]

theorem alloc_view_new (s : State) (o : Obj) (r : Registry) :
    view Cfg.fixed (alloc s o r) s.objs.length = some (lview ⟨o, r, s.classDoms⟩) := by
  unfold view
  rw [alloc_objs, if_neg (Nat.lt_irrefl _), if_pos rfl]
  simp only [Option.map_some, viewOf_fixed]
  congr 1
  have := alloc_cell_new s o r { o with reg := s.regs.length } rfl
  simp only [lview, localOf] at this ⊢
  rw [this]

theorem empty_linv (cls : Cls) (cd : List Nat) : LInv ⟨{ cls := cls, reg := 0 }, {}, cd⟩ := by
  refine ⟨⟨?_, ?_, ?_, ?_, ?_, ?_⟩, ?_⟩ <;> simp [lview, fNames, sNames, dKeys, WFL]

/-! ### the loop of add_all_snode_combinations and the dropped half-built copy -/

theorem allSLoop_spec (g : Nat) : ∀ (ds : List (Nat × Nat)) (s : State) (k : Nat), HInv s →
    HInv (allSLoop Cfg.fixed s g ds k).1 ∧
    (allSLoop Cfg.fixed s g ds k).1.objs.length = s.objs.length ∧
    ∀ j, j ≠ g → view Cfg.fixed (allSLoop Cfg.fixed s g ds k).1 j = view Cfg.fixed s j := by
  intro ds
  induction ds with
  | nil => intro s k hs; exact ⟨hs, rfl, fun _ _ => rfl⟩
  | cons d rest ih =>
    intro s k hs
    unfold allSLoop
    have h1 := stepAt_inv hs g (.rawS k d)
    have h2 := stepAt_len Cfg.fixed s g (.rawS k d)
    have h3 := fun j hj => stepAt_frame hs g (.rawS k d) j hj
    rcases hst : stepAt Cfg.fixed s g (.rawS k d) with ⟨s', st⟩
    rw [hst] at h1 h2 h3
    cases st with
    | ok =>
      obtain ⟨i1, i2, i3⟩ := ih s' (k + 1) h1
      exact ⟨i1, i2.trans h2, fun j hj => (i3 j hj).trans (h3 j hj)⟩
    | err => exact ⟨h1, h2, h3⟩

theorem take_objs (s : State) (n j : Nat) :
    ({ s with objs := s.objs.take n } : State).objs[j]? = if j < n then s.objs[j]? else none := by
  simp only [List.getElem?_take]

theorem take_inv {s : State} (hs : HInv s) (n : Nat) : HInv { s with objs := s.objs.take n } := by
  have sub : ∀ {j : Nat} {q : Obj}, ({ s with objs := s.objs.take n } : State).objs[j]? = some q → s.objs[j]? = some q := by
    intro j q hq
    rw [take_objs] at hq
    by_cases h : j < n
    · rw [if_pos h] at hq; exact hq
    · rw [if_neg h] at hq; cases hq
  exact ⟨fun j q hq => hs.valid j q (sub hq), fun j k q p hq hp hne => hs.sep j k q p (sub hq) (sub hp) hne,
    fun j q hq => hs.linv j q (sub hq)⟩

theorem take_view (s : State) (n j : Nat) (hj : j < n) :
    view Cfg.fixed { s with objs := s.objs.take n } j = view Cfg.fixed s j := by
  unfold view
  rw [take_objs, if_pos hj]
  rfl

/-! ### one step -/

/-- the state after `add_all_snode_combinations` when the copy exists -/
theorem step_allS_some {s : State} {g : Nat} {o : Obj} (n : Nat) (h : s.objs[g]? = some o) :
    step Cfg.fixed s (.allS g n) =
      match allSLoop Cfg.fixed (alloc s o (s.cell o)) s.objs.length (domPairs n) 0 with
      | (s2, .ok) => (s2, .ok)
      | (s2, .err) => ({ s2 with objs := s2.objs.take s.objs.length }, .err) := by
  simp only [step]; rw [stepCopy_some h]; rfl

theorem step_allS_none {s : State} {g : Nat} (n : Nat) (h : s.objs[g]? = none) :
    step Cfg.fixed s (.allS g n) = (s, .err) := by
  simp only [step]; rw [stepCopy_none h]

/-- the heap invariant (valid, pairwise distinct registry references; `Reg` for every object) is
preserved by every operation of the repaired code -/
theorem step_inv {s : State} (hs : HInv s) (op : Op) : HInv (step Cfg.fixed s op).1 := by
  cases op with
  | new cls => rw [step_new]; exact alloc_inv hs _ _ (empty_linv cls _)
  | copy g =>
    show HInv (stepCopy Cfg.fixed s g).1
    cases h : s.objs[g]? with
    | none => rw [stepCopy_none h]; exact hs
    | some o => rw [stepCopy_some h]; exact alloc_inv hs o _ (hs.linv g o h)
  | «at» g lop => exact stepAt_inv hs g lop
  | allS g n =>
    cases h : s.objs[g]? with
    | none => rw [step_allS_none n h]; exact hs
    | some o =>
      rw [step_allS_some n h]
      have h1 := alloc_inv hs o _ (hs.linv g o h)
      have := (allSLoop_spec s.objs.length (domPairs n) _ 0 h1).1
      rcases hl : allSLoop Cfg.fixed (alloc s o (s.cell o)) s.objs.length (domPairs n) 0 with ⟨s2, st⟩
      rw [hl] at this
      cases st with
      | ok => exact this
      | err => exact take_inv this _

/-- **Frame.** An operation leaves the observation of every object it is not called on unchanged –
in particular `copy` and `add_all_snode_combinations` leave their source unchanged, and a method
call on a copy (the original, another graph) is invisible in the original (the copy, the other
graph). -/
theorem frame_step {s : State} (hs : HInv s) (op : Op) :
    Frame op (view Cfg.fixed s) (view Cfg.fixed (step Cfg.fixed s op).1) s.objs.length := by
  intro j hj hne
  cases op with
  | new cls => rw [step_new]; exact alloc_frame hs _ _ j hj
  | copy g =>
    show view Cfg.fixed (stepCopy Cfg.fixed s g).1 j = _
    cases h : s.objs[g]? with
    | none => rw [stepCopy_none h]
    | some o => rw [stepCopy_some h]; exact alloc_frame hs _ _ j hj
  | «at» g lop =>
    have : j ≠ g := fun e => hne (by rw [e]; rfl)
    exact stepAt_frame hs g lop j this
  | allS g n =>
    cases h : s.objs[g]? with
    | none => rw [step_allS_none n h]
    | some o =>
      rw [step_allS_some n h]
      have h1 := alloc_inv hs o (s.cell o) (hs.linv g o h)
      obtain ⟨_, _, fr⟩ := allSLoop_spec s.objs.length (domPairs n) _ 0 h1
      have hj' : j ≠ s.objs.length := by omega
      have := (fr j hj').trans (alloc_frame hs o (s.cell o) j hj)
      rcases hl : allSLoop Cfg.fixed (alloc s o (s.cell o)) s.objs.length (domPairs n) 0 with ⟨s2, st⟩
      rw [hl] at this
      cases st with
      | ok => exact this
      | err => exact (take_view s2 _ j hj).trans this

/-- objects never disappear -/
theorem step_len (s : State) (hs : HInv s) (op : Op) : s.objs.length ≤ (step Cfg.fixed s op).1.objs.length := by
  cases op with
  | new cls => rw [step_new, alloc_len]; omega
  | copy g =>
    show _ ≤ (stepCopy Cfg.fixed s g).1.objs.length
    cases h : s.objs[g]? with
    | none => rw [stepCopy_none h]; exact Nat.le_refl _
    | some o => rw [stepCopy_some h, alloc_len]; omega
  | «at» g lop => show _ ≤ (stepAt Cfg.fixed s g lop).1.objs.length; rw [stepAt_len]; exact Nat.le_refl _
  | allS g n =>
    cases h : s.objs[g]? with
    | none => rw [step_allS_none n h]; exact Nat.le_refl _
    | some o =>
      rw [step_allS_some n h]
      have h1 := alloc_inv hs o (s.cell o) (hs.linv g o h)
      obtain ⟨_, len, _⟩ := allSLoop_spec s.objs.length (domPairs n) _ 0 h1
      rw [alloc_len] at len
      rcases hl : allSLoop Cfg.fixed (alloc s o (s.cell o)) s.objs.length (domPairs n) 0 with ⟨s2, st⟩
      rw [hl] at len
      dsimp only at len
      cases st with
      | ok => show _ ≤ s2.objs.length; omega
      | err => show _ ≤ (s2.objs.take s.objs.length).length; rw [List.length_take]; omega

/-! ### histories -/

theorem init_inv : HInv init := by
  refine ⟨?_, ?_, ?_⟩ <;> intro g <;> simp [init]

theorem run_inv : ∀ (ops : List Op) {s : State}, HInv s → HInv (run Cfg.fixed s ops) := by
  intro ops
  induction ops with
  | nil => intro s hs; exact hs
  | cons op rest ih => intro s hs; exact ih (step_inv hs op)

theorem reg_of_inv {s : State} (hs : HInv s) {g : Nat} {v : View} (h : view Cfg.fixed s g = some v) : Reg v := by
  unfold view at h
  cases ho : s.objs[g]? with
  | none => rw [ho] at h; cases h
  | some o =>
    rw [ho] at h
    simp only [Option.map_some, viewOf_fixed, Option.some.injEq] at h
    rw [← h]; exact (hs.linv g o ho).reg

/-- **Reg is an invariant over all histories**: after any sequence of `new`, `copy`,
`add_all_snode_combinations`, `add_f_node`, `add_f_nodes_from`, `add_s_node`, removal of augmented
nodes and node / edge edits among ordinary nodes, on any number of live objects of both classes,
every live object's registered F- and S-nodes are exactly the augmented nodes present and the registered
targets of every F-node are exactly its children. -/
theorem reg_invariant (ops : List Op) (g : Nat) (v : View)
    (h : view Cfg.fixed (run Cfg.fixed init ops) g = some v) : Reg v :=
  reg_of_inv (run_inv ops init_inv) h

/-- no two live objects ever share a registry (the absence of aliasing, for all histories) -/
theorem no_aliasing (ops : List Op) (g h : Nat) (o p : Obj)
    (ho : (run Cfg.fixed init ops).objs[g]? = some o) (hp : (run Cfg.fixed init ops).objs[h]? = some p)
    (hne : g ≠ h) : o.reg ≠ p.reg :=
  (run_inv ops init_inv).sep g h o p ho hp hne

/-- **Frame over histories**: a whole history none of whose operations is called on object `g`
leaves what `g` shows unchanged (whatever is done to its copies, its original, other graphs). -/
theorem frame_run : ∀ (ops : List Op) {s : State}, HInv s → ∀ g, g < s.objs.length →
    (∀ op ∈ ops, some g ≠ op.target) → view Cfg.fixed (run Cfg.fixed s ops) g = view Cfg.fixed s g := by
  intro ops
  induction ops with
  | nil => intro s _ g _ _; rfl
  | cons op rest ih =>
    intro s hs g hg hne
    have h1 := frame_step hs op g hg (hne op (List.mem_cons_self ..))
    have h2 := ih (step_inv hs op) g (Nat.lt_of_lt_of_le hg (step_len s hs op))
      (fun op' h' => hne op' (List.mem_cons_of_mem _ h'))
    exact h2.trans h1

/-! ### creation, freshness, stability -/

theorem view_at {s : State} {g : Nat} {o : Obj} (h : s.objs[g]? = some o) :
    view Cfg.fixed s g = some (lview (localOf s o)) := by
  unfold view; rw [h]; simp only [Option.map_some, viewOf_fixed]

/-- **Freshness and creation targets** for `add_f_node`: when the call returns, there is a new
F-node whose name was not a node of the graph before, it is a node now, and it is registered with
exactly the given targets. -/
theorem addF_creates {s : State} (hs : HInv s) (g : Nat) (ts : List Nat) (u : Bool) (d : Option (List Nat))
    (hok : (step Cfg.fixed s (.at g (.addF ts u d))).2 = .ok) :
    ∀ b ∈ view Cfg.fixed s g, ∀ a ∈ view Cfg.fixed (step Cfg.fixed s (.at g (.addF ts u d))).1 g,
      CreatedF b a ⟨ts, d.getD [1]⟩ := by
  intro b hb a ha
  cases h : s.objs[g]? with
  | none => rw [view, h] at hb; cases hb
  | some o =>
    rw [view_at h] at hb
    have ha' := stepAt_view_self hs (.addF ts u d) h
    change view Cfg.fixed (stepAt Cfg.fixed s g (.addF ts u d)).1 g = _ at ha'
    change a ∈ view Cfg.fixed (stepAt Cfg.fixed s g (.addF ts u d)).1 g at ha
    rw [ha'] at ha
    cases hb; cases ha
    have hst : (stepLocal Cfg.fixed (localOf s o) (.addF ts u d)).2 = .ok := by
      have : (stepAt Cfg.fixed s g (.addF ts u d)).2 = .ok := hok
      rw [stepAt_some _ h] at this; exact this
    have hl := hs.linv g o h
    simp only [stepLocal] at hst ⊢
    rcases addF_cases Cfg.fixed (localOf s o) ts u d with e | ⟨e, _⟩
    · rw [e] at hst; cases hst
    · rw [e]
      have hkey := nameF_not_key hl
      refine ⟨nameF Cfg.fixed (localOf s o), ?_, nameF_fresh _, ?_, (nameF Cfg.fixed (localOf s o), ⟨ts, d.getD [1]⟩), ?_, rfl, sameEntry_refl _⟩
      · simp [lview, addFok, dKeys_dSet]
      · simp [lview, addFok, mem_insertNew]
      · simp [lview, addFok, mem_dSet_new hkey]

/-- **Freshness and creation targets** for `add_f_nodes_from`: when the call returns, every given
set has got an F-node of its own whose name was not a node before -/
theorem addFs_creates_heap {s : State} (hs : HInv s) (g : Nat) (tss : List (List Nat))
    (hok : (step Cfg.fixed s (.at g (.addFs tss))).2 = .ok) :
    ∀ b ∈ view Cfg.fixed s g, ∀ a ∈ view Cfg.fixed (step Cfg.fixed s (.at g (.addFs tss))).1 g,
      ∀ ts ∈ tss, CreatedF b a ⟨ts, [1]⟩ := by
  intro b hb a ha ts hts
  cases h : s.objs[g]? with
  | none => rw [view, h] at hb; cases hb
  | some o =>
    rw [view_at h] at hb
    have ha' := stepAt_view_self hs (.addFs tss) h
    change a ∈ view Cfg.fixed (stepAt Cfg.fixed s g (.addFs tss)).1 g at ha
    rw [ha'] at ha
    cases hb; cases ha
    have hst : (stepLocal Cfg.fixed (localOf s o) (.addFs tss)).2 = .ok := by
      have : (stepAt Cfg.fixed s g (.addFs tss)).2 = .ok := hok
      rw [stepAt_some _ h] at this; exact this
    simp only [stepLocal] at hst ⊢
    obtain ⟨k, k1, k2, k3⟩ := addFs_creates tss (hs.linv g o h) hst ts hts
    exact ⟨k, mem_dKeys.2 ⟨_, k3⟩, k1, k2, _, k3, rfl, sameEntry_refl _⟩

/-- **Freshness** for `add_s_node` -/
theorem addS_creates {s : State} (hs : HInv s) (g : Nat) (d : Nat × Nat) (chg : List Nat)
    (hok : (step Cfg.fixed s (.at g (.addS d chg))).2 = .ok) :
    ∀ b ∈ view Cfg.fixed s g, ∀ a ∈ view Cfg.fixed (step Cfg.fixed s (.at g (.addS d chg))).1 g,
      CreatedS b a d := by
  intro b hb a ha
  cases h : s.objs[g]? with
  | none => rw [view, h] at hb; cases hb
  | some o =>
    rw [view_at h] at hb
    have ha' := stepAt_view_self hs (.addS d chg) h
    change view Cfg.fixed (stepAt Cfg.fixed s g (.addS d chg)).1 g = _ at ha'
    change a ∈ view Cfg.fixed (stepAt Cfg.fixed s g (.addS d chg)).1 g at ha
    rw [ha'] at ha
    cases hb; cases ha
    have hst : (stepLocal Cfg.fixed (localOf s o) (.addS d chg)).2 = .ok := by
      have : (stepAt Cfg.fixed s g (.addS d chg)).2 = .ok := hok
      rw [stepAt_some _ h] at this; exact this
    have hl := hs.linv g o h
    simp only [stepLocal] at hst ⊢
    rcases addS_cases Cfg.fixed (localOf s o) d chg with e | ⟨e, _⟩
    · rw [e] at hst; cases hst
    · rw [e]
      have hkey := nameS_not_key hl
      have hfresh := nameS_fresh (localOf s o)
      simp only [nameS, Cfg.fixed, Bool.false_eq_true, if_false] at hkey hfresh
      refine ⟨freshIdx (sNames (localOf s o).o.nodes) (localOf s o).r.ss.length, ?_, hfresh, ?_, ?_⟩
      · simp [lview, addSok, nameS, Cfg.fixed, dKeys_dSet]
      · simp [lview, addSok, nameS, Cfg.fixed, mem_addAll, mem_insertNew]
      · simp [lview, addSok, nameS, Cfg.fixed, mem_dSet_new hkey]

/-- **Stability of registered targets, one step**: whatever method is called on the object, an
F-node registered before that is not the node being removed is registered afterwards with the same
targets (and S-nodes keep their domain pair): nobody's entry is overwritten. -/
theorem targets_stable_step {s : State} (hs : HInv s) (g : Nat) (lop : LOp) :
    ∀ b ∈ view Cfg.fixed s g, ∀ a ∈ view Cfg.fixed (step Cfg.fixed s (.at g lop)).1 g, Stable lop b a := by
  intro b hb a ha
  cases h : s.objs[g]? with
  | none => rw [view, h] at hb; cases hb
  | some o =>
    rw [view_at h] at hb
    have ha' := stepAt_view_self hs lop h
    change a ∈ view Cfg.fixed (stepAt Cfg.fixed s g lop).1 g at ha
    rw [ha'] at ha
    cases hb; cases ha
    obtain ⟨k1, k2⟩ := stepLocal_keeps (hs.linv g o h) lop
    exact ⟨fun p hp hne => ⟨p, k1 p hp hne, rfl, sameEntry_refl _⟩, fun p hp hne => k2 p hp hne⟩

/-- a copy shows exactly what its original shows at the moment of the copy -/
theorem copy_same_view {s : State} (hs : HInv s) (g : Nat) (b : View) (hb : view Cfg.fixed s g = some b) :
    view Cfg.fixed (step Cfg.fixed s (.copy g)).1 s.objs.length = some b := by
  cases h : s.objs[g]? with
  | none => rw [view, h] at hb; cases hb
  | some o =>
    rw [view_at h] at hb
    show view Cfg.fixed (stepCopy Cfg.fixed s g).1 _ = _
    rw [stepCopy_some h, alloc_view_new, ← hb]
    rfl

end C20
