"""C08: Meek-rule closure (`_apply_meek_rules`, `_meek_rule1.._meek_rule4`) sound, and complete on patterns.

Deciding oracle = Lean: `c08comp` / `c08ess` (brute-force decider of consistent extensions and compelled
edges, lean/Pw/C08/Dec.lean) and the proved model `c08meek` / `c08rule` (lean/Pw/C08/Model.lean).

case kinds
  pattern : g = a DAG; the implementation is run on the pattern of g (computed by Lean); the result must be
            exactly the essential graph (compelled edges by brute force)
  pdag    : g = a PDAG with >= 1 consistent extension; result must keep skeleton + directed edges, orient only
            undirected edges, every new arrow compelled (brute force); additionally implementation == model
  rule    : g = such a PDAG, r, i, j: one direct call `_meek_rule<r>(G, i, j)`; flag and graph == model, and an
            orientation made must be compelled
"""
import itertools
import signal

from . import common as C
from .shrink import shrink_case

PID = "C08"
TIMEOUT_S = 20


# ----------------------------------------------------------------------------- implementation side
class _Timeout(BaseException):  # not an Exception: `except Exception` blocks must not swallow it
    pass


def _alarm(signum, frame):
    raise _Timeout()


_POLLUTED = False


def pollute_other_objects():
    """once per process: another, unrelated CPDAG object marks triples as unfaithful and is then closed.
    State of one graph object must never leak into another (class-level dicts, module-level memo tables)."""
    global _POLLUTED
    if _POLLUTED:
        return
    _POLLUTED = True
    old = signal.signal(signal.SIGPROF, _alarm)
    signal.setitimer(signal.ITIMER_PROF, 10)
    try:
        from pywhy_graphs import CPDAG
        from pywhy_graphs.algorithms import pag as pagmod
        for fam in C.Labels.FAMILIES:
            lab = C.Labels(fam)
            H = CPDAG()
            for v in range(6):
                H.add_node(lab(v))
            for a in range(6):
                for b in range(6):
                    for c in range(6):
                        if len({a, b, c}) == 3:
                            H.mark_unfaithful_triple(lab(a), lab(b), lab(c))
            H.add_edge(lab(0), lab(1), "directed")
            H.add_edge(lab(1), lab(2), "undirected")
            pagmod._apply_meek_rules(H)
    except (Exception, _Timeout):
        pass
    finally:
        signal.setitimer(signal.ITIMER_PROF, 0)
        signal.signal(signal.SIGPROF, old)


def build_cpdag(g, lab):
    from pywhy_graphs import CPDAG
    pollute_other_objects()
    G = CPDAG()
    for v in C.g_nodes(g):
        G.add_node(lab(v))
    for a, b in g["D"]:
        G.add_edge(lab(a), lab(b), "directed")
    for a, b in g["U"]:
        G.add_edge(lab(a), lab(b), "undirected")
    return G


def canon_of(G, lab):
    return C.canon_graph([lab.inv(v) for v in G.nodes],
                         D=[(lab.inv(a), lab.inv(b)) for a, b in G.directed_edges],
                         U=[(lab.inv(a), lab.inv(b)) for a, b in G.undirected_edges])


def run_impl(pdag, fam="int", rule=None, i=None, j=None):
    """run the closure (or one rule) on the encoded PDAG; returns canonical string (`T|F ` prefix for a rule)"""
    from pywhy_graphs.algorithms import pag as pagmod
    if C.too_many_timeouts():
        return "err:timeout"        # several closures did not return already: the run ends with that finding
    lab = C.Labels(fam)
    try:
        G = build_cpdag(pdag, lab)
    except Exception as e:
        return "err:build:" + type(e).__name__
    old = signal.signal(signal.SIGPROF, _alarm)
    signal.setitimer(signal.ITIMER_PROF, TIMEOUT_S)
    try:
        if rule is None and C.warm_decide({"g": pdag, "fam": fam}, 4) and pdag["U"]:
            # the same CPDAG object is closed, emptied, refilled with the real input and closed again
            # (count-validated memo tables keyed by the object survive clear_edges + refill)
            try:
                alt = {"n": pdag["n"], "D": [list(e) for e in pdag["D"]], "U": [list(e) for e in pdag["U"]]}
                a0, b0 = alt["U"][0]
                others = [w for w in C.g_nodes(pdag) if w not in (a0, b0)
                          and [a0, w] not in alt["U"] and [w, a0] not in alt["U"]
                          and [a0, w] not in alt["D"] and [w, a0] not in alt["D"]]
                if others:
                    alt["U"][0] = [a0, others[0]]
                G.clear_edges()
                for a, b in alt["D"]:
                    G.add_edge(lab(a), lab(b), "directed")
                for a, b in alt["U"]:
                    G.add_edge(lab(a), lab(b), "undirected")
                pagmod._apply_meek_rules(G)
            except (Exception, _Timeout):
                pass
            signal.setitimer(signal.ITIMER_PROF, TIMEOUT_S)
            G.clear_edges()
            for a, b in pdag["D"]:
                G.add_edge(lab(a), lab(b), "directed")
            for a, b in pdag["U"]:
                G.add_edge(lab(a), lab(b), "undirected")
        if rule is None:
            pagmod._apply_meek_rules(G)
            pre = ""
        else:
            r = getattr(pagmod, "_meek_rule%d" % rule)(G, lab.fresh(i), lab.fresh(j))
            pre = ("T " if r is True else "F " if r is False else "bad:%r " % (r,))
        return pre + canon_of(G, lab)
    except _Timeout:
        C.note_timeout({"pdag": pdag, "fam": fam, "rule": rule, "i": i, "j": j}, TIMEOUT_S)
        return "err:timeout"
    except Exception as e:
        return "err:" + type(e).__name__
    finally:
        signal.setitimer(signal.ITIMER_PROF, 0)
        signal.signal(signal.SIGPROF, old)


def parse_graph(s):
    """`N=.. D=.. B=.. U=.. C=..` -> dict of sets"""
    out = {}
    for tok in s.split():
        k, _, v = tok.partition("=")
        if k == "N":
            out[k] = set(int(x) for x in v.split(",") if x)
        else:
            out[k] = set(tuple(int(x) for x in p.split("-")) for p in v.split(",") if p)
    return out


def pdag_of_graphstr(s, order=None):
    p = parse_graph(s)
    g = C.g_new(len(p["N"]), D=sorted(p["D"]), U=sorted(p["U"]))
    if order is not None:
        g["N"] = list(order)
    return g


# ----------------------------------------------------------------------------- Lean side
def pline(cmd, g, extra=""):
    return "%s %s%s" % (cmd, C.g_line(g), extra)


def lean_pattern(drv, dag):
    return drv.ask(pline("c08pattern", dag))


# ----------------------------------------------------------------------------- judging
def soundness(pdag, res, comp):
    """property clauses for any PDAG with an extension; returns None or a reason"""
    if res.startswith("err"):
        return "raised/timeout: " + res
    r = parse_graph(res)
    D0 = set(map(tuple, pdag["D"]))
    U0 = set(frozenset(e) for e in pdag["U"])
    if r["N"] != set(C.g_nodes(pdag)):
        return "node set changed"
    if not D0 <= r["D"]:
        return "a directed edge was removed or reversed: %s" % sorted(D0 - r["D"])
    newd = r["D"] - D0
    for a, b in newd:
        if frozenset((a, b)) not in U0:
            return "new arrow %d->%d is not an orientation of an undirected edge" % (a, b)
        if (b, a) in r["D"]:
            return "edge oriented both ways %d<->%d" % (a, b)
    left = set(frozenset(e) for e in r["U"])
    if left | set(frozenset(e) for e in newd) != U0 or (left & set(frozenset(e) for e in newd)):
        return "undirected layer is not (input undirected) minus (oriented)"
    bad = sorted(e for e in newd if e not in comp)
    if bad:
        return "orientation(s) %s do not hold in every consistent extension" % bad
    return None


def parse_comp(s):
    ext, comp = s.split()
    return int(ext[4:]), set(tuple(int(x) for x in p.split("-")) for p in comp[5:].split(",") if p)


def eval_case(case, drv):
    """full evaluation of one case with a persistent driver; returns (verdict, detail) where verdict in
    None | 'violation' | 'corr' | 'skip'"""
    kind = case["kind"]
    fam = case.get("fam", "int")
    if kind == "pattern":
        dag = case["g"]
        if not C.is_acyclic(dag["n"], dag["D"]) or dag["U"]:
            return "skip", "not a DAG"
        pat = pdag_of_graphstr(lean_pattern(drv, dag), dag.get("N"))
        ess = drv.ask(pline("c08ess", dag))
        got = run_impl(pat, fam)
        model = drv.ask(pline("c08meek", pat))
        if got != ess:
            return "violation", {"clause": "complete-and-sound-on-patterns", "pattern": pat, "impl": got,
                                 "essential_graph(lean brute force)": ess, "model": model}
        if got != model and fam == "int":
            return "corr", {"impl": got, "model": model, "pattern": pat}
        return None, {"oriented": len(parse_graph(got)["D"]) - len(pat["D"]), "left": len(parse_graph(got)["U"])}
    g = case["g"]
    ext, comp = parse_comp(drv.ask(pline("c08comp", g)))
    if ext == 0 or not C.is_acyclic(g["n"], g["D"]) or not simple(g):
        return "skip", "outside the quantifier (no consistent extension)"
    if kind == "pdag":
        got = run_impl(g, fam)
        why = soundness(g, got, comp)
        model = drv.ask(pline("c08meek", g))
        if why:
            return "violation", {"clause": "sound-on-pdags", "why": why, "impl": got, "compelled(lean brute force)": sorted(comp),
                                 "extensions": ext, "model": model}
        if got != model and fam == "int":
            return "corr", {"impl": got, "model": model}
        return None, {"oriented": len(parse_graph(got)["D"]) - len(g["D"]), "left": len(parse_graph(got)["U"])}
    if kind == "rule":
        # The four rule functions are private helpers: the property speaks of the closure.  A disagreement of a
        # single rule call with the model (or an unsound single call) is therefore confirmed at closure level on
        # the same graph and on the graph the call produced; only then is it reported (with that closure case).
        v, d = _eval_rule(case, g, fam, comp, drv)
        if v in ("violation", "corr"):
            follow = [g]
            try:
                follow.append(pdag_of_graphstr(d["impl"][2:], g.get("N")))
            except Exception:
                pass
            for g2 in follow:
                c2 = {"kind": "pdag", "g": g2, "fam": fam, "src": "rule-followup"}
                try:
                    v2, d2 = eval_case(c2, drv)
                except Exception:
                    continue
                if v2 in ("violation", "corr"):
                    return v2, dict(d2, via_rule_call=d, _case=c2)
            return None, {"oriented": 0, "left": 0, "private_rule_differs": True}
        return v, d
    raise ValueError(kind)


def _eval_rule(case, g, fam, comp, drv):
    if True:
        r, i, j = case["r"], case["i"], case["j"]
        got = run_impl(g, fam, r, i, j)
        model = drv.ask(pline("c08rule", g, " r=%d i=%d j=%d" % (r, i, j)))
        if got.startswith("err") or got.startswith("bad"):
            return "violation", {"clause": "rule-raises", "impl": got, "model": model}
        why = soundness(g, got[2:], comp)
        flag = got[0] == "T"
        changed = parse_graph(got[2:])["D"] != set(map(tuple, g["D"]))
        if why is None and flag != changed:
            why = "return flag %s but graph %s" % (flag, "changed" if changed else "unchanged")
        if why is None and changed and parse_graph(got[2:])["D"] - set(map(tuple, g["D"])) != {(i, j)}:
            why = "rule(i,j) oriented something else than i->j"
        if why:
            return "violation", {"clause": "rule-sound", "rule": r, "why": why, "impl": got, "model": model,
                                 "compelled(lean brute force)": sorted(comp)}
        if got != model:
            return "corr", {"impl": got, "model": model, "rule": r}
        return None, {"oriented": int(changed), "left": 0}


def simple(g):
    seen = set()
    for a, b in list(g["D"]) + list(g["U"]):
        k = frozenset((a, b))
        if a == b or k in seen:
            return False
        seen.add(k)
    return True


# ----------------------------------------------------------------------------- generators
DAG_STATES = [(), ("D>",), ("D<",)]
PDAG_STATES = [(), ("D>",), ("D<",), ("U",)]


def all_dags(n):
    for g in C.enum_graphs(n, DAG_STATES):
        if C.is_acyclic(n, g["D"]):
            yield g


def rand_dag(rng, n, density):
    perm = list(range(n))
    rng.shuffle(perm)
    g = C.g_new(n)
    for x in range(n):
        for y in range(x + 1, n):
            if rng.random() < density:
                g["D"].append([perm[x], perm[y]])
    rng.shuffle(g["D"])
    return g


def with_order(rng, g):
    h = dict(g)
    N = list(range(g["n"]))
    rng.shuffle(N)
    h["N"] = N
    h["D"] = [list(e) for e in g["D"]]
    h["U"] = [list(e) if rng.random() < 0.5 else [e[1], e[0]] for e in g["U"]]
    rng.shuffle(h["D"])
    rng.shuffle(h["U"])
    return h


def adjacent_pairs(g):
    out = []
    for a, b in list(g["D"]) + list(g["U"]):
        out += [(a, b), (b, a)]
    return out


def gen_cases(ctx):
    tier, rng = ctx["tier"], ctx["rng"]
    fams = C.Labels.FAMILIES
    cases = []
    # (a) patterns of every DAG on <= 4 (thorough: 5) nodes, once in canonical and once in shuffled order
    for n in ((1, 2, 3, 4) if tier == "quick" else (1, 2, 3, 4, 5)):
        for k, g in enumerate(all_dags(n)):
            cases.append({"kind": "pattern", "g": g, "src": "dag%d" % n})
            if n <= 4 or k % 4 == 0:
                h = with_order(rng, g)
                cases.append({"kind": "pattern", "g": h, "src": "dag%d-shuffled" % n, "fam": fams[k % len(fams)]})
    if tier == "quick":
        # a seed-dependent eighth of the 5-node DAGs, in a shuffled node order (orientations that must
        # propagate over several sweeps and rule combinations first appear at 5 nodes)
        for k, g in enumerate(all_dags(5)):
            if k % 8 == ctx["seed"] % 8:
                cases.append({"kind": "pattern", "g": with_order(rng, g), "src": "dag5(1/8)-shuffled",
                              "fam": fams[k % len(fams)]})
    # random larger DAGs (5..7 nodes): patterns, brute force still cheap (<= 2^|undirected| orientations)
    for k in range(400 if tier == "quick" else 4000):
        n = rng.choice((5, 6, 6, 7))
        g = rand_dag(rng, n, rng.choice((0.3, 0.45, 0.6)))
        if len(g["D"]) <= 11:
            cases.append({"kind": "pattern", "g": with_order(rng, g), "src": "dag-rnd", "fam": fams[k % len(fams)]})
    # (b) every PDAG on <= 4 nodes (pairs in {none,->,<-,--}); those without extension are skipped by eval
    for n in (2, 3, 4):
        for k, g in enumerate(C.enum_graphs(n, PDAG_STATES)):
            if not g["U"] or not C.is_acyclic(n, g["D"]):
                continue
            cases.append({"kind": "pdag", "g": g, "src": "pdag%d" % n})
            if k % 3 == 0:
                cases.append({"kind": "pdag", "g": with_order(rng, g), "src": "pdag%d-shuffled" % n,
                              "fam": fams[k % len(fams)]})
            # direct rule calls on every ordered adjacent pair
            if n <= 3 or tier == "thorough" or k % 4 == 1:
                for (i, j) in sorted(set(adjacent_pairs(g))):
                    for r in (1, 2, 3, 4):
                        cases.append({"kind": "rule", "g": g, "r": r, "i": i, "j": j, "src": "rule%d" % r})
    # (c) random: pattern of a DAG plus background orientations taken from the DAG (keeps an extension);
    #     biased to directed paths of length >= 2 entering the undirected part
    for k in range(1500 if tier == "quick" else 20000):
        n = rng.choice((5, 5, 6))
        g = rand_dag(rng, n, rng.choice((0.35, 0.5, 0.65)))
        if len(g["D"]) > 10:
            continue
        cases.append({"kind": "bg", "g": g, "keep": rng.random(), "src": "bg-rnd", "fam": fams[k % len(fams)] if k % 2 else "int",
                      "seed": rng.randrange(1 << 30)})
    return cases


def expand_bg(cases, drv_batch):
    """turn 'bg' cases into 'pdag' cases: pattern(g) with a random subset of the undirected edges oriented
    as in the DAG g (so g stays a consistent extension)"""
    import random
    idx = [k for k, c in enumerate(cases) if c["kind"] == "bg"]
    pats = drv_batch([pline("c08pattern", cases[k]["g"]) for k in idx])
    for k, ps in zip(idx, pats):
        c = cases[k]
        rr = random.Random(c["seed"])
        p = parse_graph(ps)
        dagD = set(map(tuple, c["g"]["D"]))
        D, U = sorted(p["D"]), []
        for a, b in sorted(p["U"]):
            if rr.random() < c["keep"]:
                U.append([a, b])
            else:
                D.append((a, b) if (a, b) in dagD else (b, a))
        g = C.g_new(c["g"]["n"], D=D, U=U)
        g = with_order(rr, g)
        cases[k] = {"kind": "pdag", "g": g, "src": c["src"], "fam": c["fam"]}
        # a few direct rule calls on these larger graphs too
        prs = sorted(set(adjacent_pairs(g)))
        if prs and k % 3 == 0:
            i, j = prs[rr.randrange(len(prs))]
            cases.append({"kind": "rule", "g": g, "r": rr.choice((1, 2, 3, 4)), "i": i, "j": j, "src": "rule-rnd"})


_DRV = None


def _worker(case):
    global _DRV
    if _DRV is None:
        _DRV = C.Driver()
    try:
        return eval_case(case, _DRV)
    except Exception as e:  # infrastructure problem in a worker: surface it
        return "infra", "%s: %s" % (type(e).__name__, e)


def fails(case):
    drv = C.Driver()
    try:
        v, _ = eval_case(case, drv)
        return v == "violation"
    finally:
        drv.close()


def report(ctx, case, detail):
    small = shrink_case(case, fails, setkeys=("i", "j"), optional_sets=())
    drv = C.Driver()
    try:
        v, d = eval_case(small, drv)
    finally:
        drv.close()
    if v != "violation":
        small, d = case, detail
    ctx["out"].violation(small, {"detail": d, "original_case": case})


def stress_cases():
    """two large inputs whose closure is known in closed form (labelled TESTS of the termination clause: the
    expected result is what rule 1 gives step by step; no Lean oracle at this size).
    deep: the pattern of a long compelled chain with a reversible edge x - y below it => the chain is oriented
    forward, x - y stays.  ladder: 40 two-node levels, every node pointing to both nodes of the next level (2^40
    directed paths), both bottom nodes pointing to x and y, x - y reversible => nothing changes."""
    N = 1200
    # pattern of  a -> 1 <- b, 1 -> 2 -> ... -> N, N -> x, N -> y, x -> y : the reversible edge x - y sits below a
    # directed path that is N edges deep (rule 2 looks at ancestors / descendants there)
    chain = [(i, i + 1) for i in range(1, N)] + [(N, "x"), (N, "y")]
    deep = {"D": [("a", 1), ("b", 1)], "U": chain + [("x", "y")], "expectD": chain, "expectU": [("x", "y")], "slow_ok": True}
    D = []
    for i in range(40):
        for p in ("p", "q"):
            for q in ("p", "q"):
                D.append(((p, i), (q, i + 1)))
    D += [(("p", 40), "x"), (("q", 40), "x"), (("p", 40), "y"), (("q", 40), "y")]
    ladder = {"D": D, "U": [("x", "y")], "expectD": [], "expectU": [("x", "y")]}
    return {"deep-chain-1200": deep, "ladder-2^40-paths": ladder}


def run_stress(name, spec):
    from pywhy_graphs import CPDAG
    from pywhy_graphs.algorithms import pag as pagmod
    G = CPDAG()
    for a, b in spec["D"]:
        G.add_edge(a, b, "directed")
    for a, b in spec["U"]:
        G.add_edge(a, b, "undirected")
    old = signal.signal(signal.SIGPROF, _alarm)
    # The ladder is tiny (about 170 edges): only an algorithm that walks its 2^40 directed paths one by one fails
    # to finish, so a timeout there is reported.  On the deep chain a correct but quadratic / cubic closure is
    # merely slow: a timeout (60 s cap) is "inconclusive", never a violation - only an exception (RecursionError)
    # or a wrong result is.
    chain = spec.get("slow_ok", False)
    signal.setitimer(signal.ITIMER_PROF, 60 if chain else TIMEOUT_S)
    try:
        pagmod._apply_meek_rules(G)
    except _Timeout:
        return "inconclusive" if chain else "does not terminate within %d s" % TIMEOUT_S
    except BaseException as e:
        return "raised %s" % type(e).__name__
    finally:
        signal.setitimer(signal.ITIMER_PROF, 0)
        signal.signal(signal.SIGPROF, old)
    if not all(G.has_edge(a, b, "directed") for a, b in spec["expectD"] + spec["D"]):
        return "an expected orientation is missing"
    if len(list(G.undirected_edges)) != len(spec["expectU"]):
        return "undirected edges left: %d" % len(list(G.undirected_edges))
    return None


def run(ctx):
    ev, out = ctx["ev"], ctx["out"]
    for _name, _spec in stress_cases().items():
        _r = run_stress(_name, _spec)
        if _r == "inconclusive":
            ev.count("stress:" + _name + ":not-finished-in-60s(inconclusive)")
            continue
        ev.count("stress:" + _name + (":ok" if _r is None else ":BAD"))
        if _r is not None:
            out.violation({"kind": "stress", "name": _name},
                          {"kind": "termination/closure on a large input", "detail": _r,
                           "input": "see harness/c08.py stress_cases(): " + _name})
    ev.rule = ("patterns (computed by Lean) of every DAG on <=4 nodes (thorough: <=5), canonical and shuffled node/edge "
               "order, five label families, plus random DAGs on 5-7 nodes: result must equal the essential graph computed by "
               "the Lean brute-force decider; every PDAG on <=4 nodes over pair states {none,->,<-,--} that has a consistent "
               "extension (decided by Lean) and random pattern+background-orientation PDAGs on 5-6 nodes: soundness "
               "clauses against the brute-force compelled set and equality with the proved model; direct calls of "
               "_meek_rule1..4 on every ordered adjacent pair. non-trivial = the closure (or rule) orients at least one "
               "edge; for patterns additionally at least one edge stays undirected or the DAG has a v-structure")
    ev.assumptions = ["excluded_triples is empty", "inputs satisfy the CPDAG class invariant (one edge kind per pair)",
                      "model comparison on non-pattern inputs only for int labels 0..n-1 (Python set order = ascending)",
                      "completeness on patterns is compared with the brute-force decider (testing); it is a theorem only "
                      "conditionally on Meek's theorem"]
    cases = [dict(c, src="corpus") for c in C.load_corpus(PID)] + gen_cases(ctx)
    expand_bg(cases, C.lean_batch)
    res = C.pmap(_worker, cases, chunksize=32)
    bad, corr = [], []
    for case, (v, d) in zip(cases, res):
        if v == "infra":
            raise RuntimeError("worker failed on %r: %s" % (case, d))
        if v == "skip":
            ev.count("skipped:" + case["kind"])
            continue
        if isinstance(d, dict) and "_case" in d:      # a rule-call disagreement confirmed at closure level
            d = dict(d)
            case = dict(d.pop("_case"), src=case["src"])
        if isinstance(d, dict) and d.get("private_rule_differs"):
            ev.count("private-rule-call-differs-closure-ok")
        nt = isinstance(d, dict) and d.get("oriented", 0) > 0
        ev.case(case, nontrivial=bool(nt or v), sample_every=3000)
        ev.count("src:" + case["src"])
        ev.count("kind:" + case["kind"])
        if isinstance(d, dict) and "oriented" in d:
            ev.count("oriented>0" if d["oriented"] else "oriented=0")
        if v == "violation":
            bad.append((case, d))
        elif v == "corr":
            corr.append((case, d))
    ev.extra["exhaustive_part"] = ("all DAGs <=4 nodes (thorough <=5) as patterns; all PDAGs <=4 nodes with an extension; "
                                   "all (rule, ordered adjacent pair) on PDAGs <=3 nodes (thorough <=4, quick: a quarter of the 4-node ones)")
    if bad:
        ev.extra["disagreements_total"] = len(bad)
        kinds = {}
        for case, d in bad:
            kinds.setdefault((case["kind"], case.get("r")), (case, d))
        # report the smallest-looking representative first
        case, d = sorted(kinds.values(), key=lambda cd: (cd[0]["g"]["n"], len(cd[0]["g"]["D"]) + len(cd[0]["g"]["U"])))[0]
        report(ctx, case, d)
        for (k, r), (c2, d2) in sorted(kinds.items(), key=str):
            print("  disagreement class kind=%s rule=%s e.g. %s" % (k, r, C.g_line(c2["g"])))
    for case, d in corr[:1]:
        out.corr(case, dict(d, count=len(corr)))


def replay(ctx, payload):
    case = payload.get("case") or payload.get("correspondence", {}).get("case")
    drv = C.Driver()
    v, d = eval_case(case, drv)
    drv.close()
    print("verdict:", v, d)
    print("REPRODUCED" if v in ("violation", "corr") else "NOT-REPRODUCED")
    return 1 if v in ("violation", "corr") else 0


# ----------------------------------------------------------------------------- C15 adapter
def c15_cases(rng, k):
    out = []
    while len(out) < k:
        n = rng.choice((3, 4, 4, 5, 5, 6))
        g = rand_dag(rng, n, rng.choice((0.4, 0.6)))
        if len(g["D"]) <= 10:
            out.append({"kind": "pattern", "g": g})
    return out


def c15_eval(case, fam, order_seed):
    import random
    drv = C.Driver()
    try:
        pat = pdag_of_graphstr(lean_pattern(drv, case["g"]))
    finally:
        drv.close()
    pat = C.shuffled_graph(random.Random(order_seed), pat)
    return run_impl(pat, fam)


def c15_expected(cases):
    return C.lean_batch([pline("c08ess", c["g"]) for c in cases])
