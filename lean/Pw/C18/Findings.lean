import Pw.C18.UncovComplete

/-! # C18: known findings as kernel-checked counterexamples, and non-vacuity examples -/
namespace C18

/-- all nodes mentioned by the graph -/
def verts (G : MG) : List Nat :=
  G.nodes ++ G.dir.map (·.1) ++ G.dir.map (·.2) ++ G.bi.map (·.1) ++ G.bi.map (·.2) ++
    G.un.map (·.1) ++ G.un.map (·.2) ++ G.circ.map (·.1) ++ G.circ.map (·.2)

theorem adj_verts {G : MG} {a b : Nat} (h : adj G a b = true) : a ∈ verts G ∧ b ∈ verts G := by
  simp only [adj, hD, hB, hU, hC, Bool.or_eq_true, decide_eq_true_eq] at h
  simp only [verts, List.mem_append, List.mem_map]
  rcases h with ((((h | h) | h | h) | h | h) | h) | h
  all_goals
    constructor
    all_goals first
      | exact Or.inr ⟨_, h, rfl⟩
      | exact Or.inl (Or.inr ⟨_, h, rfl⟩)
      | exact Or.inl (Or.inl (Or.inr ⟨_, h, rfl⟩))
      | exact Or.inl (Or.inl (Or.inl (Or.inr ⟨_, h, rfl⟩)))
      | exact Or.inl (Or.inl (Or.inl (Or.inl (Or.inr ⟨_, h, rfl⟩))))
      | exact Or.inl (Or.inl (Or.inl (Or.inl (Or.inl (Or.inr ⟨_, h, rfl⟩)))))
      | exact Or.inl (Or.inl (Or.inl (Or.inl (Or.inl (Or.inl (Or.inr ⟨_, h, rfl⟩))))))
      | exact Or.inl (Or.inl (Or.inl (Or.inl (Or.inl (Or.inl (Or.inl (Or.inr ⟨_, h, rfl⟩)))))))

def simpleAt (G : MG) (a b : Nat) : Bool :=
  (!hB G a b || (!hD G a b && !hD G b a && !hU G a b && !hC G a b && !hC G b a)) &&
  (!hU G a b || (!hD G a b && !hD G b a && !hC G a b && !hC G b a)) &&
  (!hD G a b || (!hD G b a && !hC G a b)) && !adj G a a

/-- executable check of the domain condition -/
def simpleB (G : MG) : Bool := (verts G).all fun a => (verts G).all fun b => simpleAt G a b

theorem adj_of_atom {G : MG} {a b : Nat} :
    (hD G a b = true ∨ hD G b a = true ∨ hB G a b = true ∨ hU G a b = true ∨ hC G a b = true ∨ hC G b a = true) →
      adj G a b = true := by
  unfold adj
  cases hD G a b <;> cases hD G b a <;> cases hB G a b <;> cases hU G a b <;> cases hC G a b <;>
    cases hC G b a <;> simp

theorem simple_of_simpleB {G : MG} (h : simpleB G = true) : Simple G := by
  intro a b
  by_cases hadj : adj G a b = true
  · obtain ⟨ha, hb⟩ := adj_verts hadj
    simp only [simpleB, List.all_eq_true] at h
    have := h a ha b hb
    unfold simpleAt at this
    revert this
    cases hB G a b <;> cases hD G a b <;> cases hD G b a <;> cases hU G a b <;> cases hC G a b <;>
      cases hC G b a <;> cases adj G a a <;> simp
  · have hn : adj G a b = false := by simpa using hadj
    have f : ∀ x : Bool, (x = true → adj G a b = true) → x = false := by
      intro x hx; cases x with
      | false => rfl
      | true => rw [hx rfl] at hn; cases hn
    have e1 := f (hD G a b) (fun h => adj_of_atom (Or.inl h))
    have e2 := f (hD G b a) (fun h => adj_of_atom (Or.inr (Or.inl h)))
    have e3 := f (hB G a b) (fun h => adj_of_atom (Or.inr (Or.inr (Or.inl h))))
    have e4 := f (hU G a b) (fun h => adj_of_atom (Or.inr (Or.inr (Or.inr (Or.inl h)))))
    have e5 := f (hC G a b) (fun h => adj_of_atom (Or.inr (Or.inr (Or.inr (Or.inr (Or.inl h))))))
    have e6 := f (hC G b a) (fun h => adj_of_atom (Or.inr (Or.inr (Or.inr (Or.inr (Or.inr h))))))
    refine ⟨by simp [e1, e2, e3, e4, e5, e6], by simp [e1, e2, e3, e4, e5, e6], by simp [e1, e2, e5], ?_⟩
    by_cases haa : adj G a a = true
    · obtain ⟨ha, _⟩ := adj_verts haa
      simp only [simpleB, List.all_eq_true] at h
      have := h a ha a ha
      unfold simpleAt at this
      simp only [Bool.and_eq_true, Bool.not_eq_true'] at this
      exact this.2
    · simpa using haa

def wfgB (G : MG) : Bool := (verts G).all fun a => decide (a ∈ G.nodes)

theorem wfg_of_wfgB {G : MG} (h : wfgB G = true) : WFG G := by
  intro a b hadj
  obtain ⟨ha, hb⟩ := adj_verts hadj
  simp only [wfgB, List.all_eq_true, decide_eq_true_eq] at h
  exact ⟨h a ha, h b hb⟩

/-- `e = .ok v` as a `Bool` (there is no `DecidableEq (Except _ _)` instance) -/
def isOk {α : Type} [BEq α] (e : Except String α) (v : α) : Bool :=
  match e with
  | .ok r => r == v
  | .error _ => false

theorem eq_of_isOk {α : Type} [BEq α] [LawfulBEq α] {e : Except String α} {v : α} (h : isOk e v = true) :
    e = .ok v := by
  cases e with
  | error _ => cases h
  | ok r => simp [isOk] at h; rw [h]

/-! ## known finding C18-updp-global-explored -/

/-- `0 -> 1 -> 3 -> 4`, `0 -> 2 -> 3`, `1 <-> 4`: the triple (1,3,4) is shielded, (2,3,4) is not. -/
def Gcross : MG := { nodes := [0, 1, 2, 3, 4], dir := [(0, 1), (0, 2), (1, 3), (2, 3), (3, 4)], bi := [(1, 4)] }
def qcross : Query := { u := 0, c := 4 }

/-- **Completeness of the global-explored BFS is false**: on `Gcross` (inside the property's domain)
    the list `[0, 2, 3, 4]` is an uncovered pd path from 0 to 4, but the search (ascending
    neighbour order) enters node 3 from node 1 first, marks it explored and returns not-found. -/
theorem uncovPdPath_incomplete :
    simpleB Gcross = true ∧ UncovPd Gcross qcross [0, 2, 3, 4] ∧
      isOk (uncovPdPath Gcross (nbDefault Gcross) qcross) ([], false) = true := by decide

/-- the full-strength completeness statement fails -/
theorem uncovPdPath_complete_false :
    ¬ (∀ (G : MG) (q : Query), Simple G → (∃ p, UncovPd G q p) →
        ∃ p, uncovPdPath G (nbDefault G) q = .ok (p, true)) := by
  intro h
  obtain ⟨p, hp⟩ := h Gcross qcross (simple_of_simpleB uncovPdPath_incomplete.1) ⟨_, uncovPdPath_incomplete.2.1⟩
  rw [eq_of_isOk uncovPdPath_incomplete.2.2] at hp
  cases hp

/-! ## known finding C18-disc-a-possible-parent -/

/-- `0 -> 1 <-> 2`, `1 o-> 3`, `2 -> 3` -/
def Gposs : MG := { nodes := [0, 1, 2, 3], dir := [(0, 1), (1, 3), (2, 3)], bi := [(1, 2)], circ := [(3, 1)] }

/-- **`discriminating_path` accepts `a o-> c`**: the model returns `[0, 1, 2, 3]` for (u,a,c) = (2,1,3)
    although node 1 is not a parent of 3 (circle mark at 1), so no discriminating path exists. -/
theorem discPath_accepts_possible_parent :
    simpleB Gposs = true ∧
      isOk (discPath Gposs (nbDefault Gposs) (bnbDefault Gposs) 2 1 3) (true, [0, 1, 2, 3], [0, 1, 2, 3]) = true ∧
      ¬ DiscPath Gposs 2 1 3 [0, 1, 2, 3] ∧ DiscPathWeak Gposs 2 1 3 [0, 1, 2, 3] ∧
      discExists Gposs 2 1 3 = false := by decide

/-! ## non-vacuity of the soundness theorems -/

/-- Colombo et al. Fig. 4 (test_discriminating_path_longer): xl <-> xk <-> xj <- xb, all -> xp -/
def Gfig4 : MG := { nodes := [0, 1, 2, 3, 4], dir := [(1, 4), (2, 4), (3, 4), (3, 2)], bi := [(0, 1), (1, 2)] }

example : Simple Gfig4 ∧ hC Gfig4 4 2 = false ∧
    discPath Gfig4 (nbDefault Gfig4) (bnbDefault Gfig4) 3 2 4 = .ok (true, [0, 1, 2, 3, 4], [0, 1, 2, 3, 4]) ∧
    DiscPath Gfig4 3 2 4 [0, 1, 2, 3, 4] :=
  ⟨simple_of_simpleB (by decide), by decide, eq_of_isOk (by decide), by decide⟩

/-- A o-o u o-o B o-> C with first_node A (test_uncovered_pd_path_circle_path_only) -/
def Gcirc : MG := { nodes := [0, 1, 2, 3], dir := [(2, 3)], circ := [(0, 1), (1, 0), (1, 2), (2, 1), (3, 2)] }

example : Simple Gcirc ∧
    uncovPdPath Gcirc (nbDefault Gcirc) { u := 1, c := 3, first := some 0 } = .ok ([0, 1, 2, 3], true) ∧
    UncovPd Gcirc { u := 1, c := 3, first := some 0 } [0, 1, 2, 3] ∧
    uncovPdPath Gcirc (nbDefault Gcirc) { u := 1, c := 3, first := some 0, fc := true } = .ok ([], false) ∧
    uncovExists Gcirc { u := 1, c := 3, first := some 0, fc := true } = false :=
  ⟨simple_of_simpleB (by decide), eq_of_isOk (by decide), by decide, eq_of_isOk (by decide), by decide⟩

example : WFG Gcross ∧ uncovExists Gcross qcross = true := ⟨wfg_of_wfgB (by decide), by decide⟩

/-! ## non-vacuity of the completeness theorems -/

def triFreeB (G : MG) : Bool :=
  (verts G).all fun x => (verts G).all fun y => (verts G).all fun z => !(adj G x y && adj G y z && adj G x z)

theorem triangleFree_of_triFreeB {G : MG} (h : triFreeB G = true) : TriangleFree G := by
  intro x y z h1 h2 h3
  simp only [triFreeB, List.all_eq_true] at h
  have := h x (adj_verts h1).1 y (adj_verts h1).2 z (adj_verts h2).2
  rw [h1, h2, h3] at this
  cases this

theorem nbDefault_faithful {G : MG} (hW : WFG G) (x y : Nat) : y ∈ nbDefault G x ↔ adj G x y = true := by
  unfold nbDefault
  rw [List.mem_filter]
  exact ⟨fun h => h.2, fun h => ⟨(hW x y h).2, h⟩⟩

theorem bnbDefault_faithful (G : MG) (x y : Nat) : y ∈ bnbDefault G x ↔ hB G x y = true := by
  unfold bnbDefault hB
  rw [MG.mem_sym]
  simp

/-- the hypotheses of `uncovPdPath_complete_partial` are satisfiable (and its conclusion is checked
    by evaluation): the circle path `Gcirc` is triangle-free -/
example : Simple Gcirc ∧ WFG Gcirc ∧ TriangleFree Gcirc ∧
    uncovGuard Gcirc { u := 1, c := 3, first := some 0 } = false ∧ Gcirc.nodes.length < 1000 ∧
    (∃ p, UncovPd Gcirc { u := 1, c := 3, first := some 0 } p) :=
  ⟨simple_of_simpleB (by decide), wfg_of_wfgB (by decide), triangleFree_of_triFreeB (by decide), by decide,
   by decide, ⟨[0, 1, 2, 3], by decide⟩⟩

/-- the hypotheses of `discPath_complete` / `discPath_found_iff` are satisfiable -/
example : Simple Gfig4 ∧ WFG Gfig4 ∧ hC Gfig4 4 2 = false ∧ Gfig4.nodes.length < 1000 ∧
    (∃ p, DiscPath Gfig4 3 2 4 p) :=
  ⟨simple_of_simpleB (by decide), wfg_of_wfgB (by decide), by decide, by decide, ⟨[0, 1, 2, 3, 4], by decide⟩⟩

/-- `uncovered_pd_path` with the default (ascending) orders: found ⇒ valid path; on triangle-free
    skeletons found ⇔ a path exists (corollary of the two theorems, for the record) -/
theorem uncovPdPath_found_iff_partial (G : MG) (hS : Simple G) (hW : WFG G) (hT : TriangleFree G)
    (q : Query) (hfu : q.first ≠ some q.u) (hg : uncovGuard G q = false) (hlen : G.nodes.length < 1000) :
    (∃ p, p ≠ [] ∧ uncovPdPath G (nbDefault G) q = .ok (p, true)) ↔ ∃ p, UncovPd G q p := by
  constructor
  · rintro ⟨p, hp, h⟩
    exact ⟨p, uncovPdPath_sound G hS _ q hfu 1000 p h hp⟩
  · intro hex
    obtain ⟨p, h, hv⟩ := uncovPdPath_complete_partial G hS hW hT _ (nbDefault_faithful hW) q hfu hg 1000 hlen hex
    refine ⟨p, ?_, h⟩
    intro e; subst e
    obtain ⟨_, _, _, h2, _⟩ := hv
    simp at h2

end C18
