import Pw.T5.Inducing
open Closure MG

/-! # T5a: statements used by C06 (adjacency clause) and C07 (maximality) -/
namespace T5
open C06

variable {G : MG}

/-- **T5a.** In an ADMG, relative to latent `L` and selection `S` (disjoint), for distinct observed
    nodes x and y: an inducing path exists iff no set Z of other observed nodes m-separates x and y
    given Z ∪ S. -/
theorem inducing_iff_inseparable (hwf : G.WF) (hun : G.un = []) (hsl : NoSelfLoop G)
    {L S : List Nat} {x y : Nat} (hxy : x ≠ y) (hx : x ∈ G.nodes) (hy : y ∈ G.nodes)
    (hxS : x ∉ S) (hyS : y ∉ S) (hSn : ∀ s ∈ S, s ∈ G.nodes) (hLS : ∀ v, v ∈ L → v ∉ S) :
    HasInducingPath G L S x y ↔
      ∀ Z : List Nat, (∀ z ∈ Z, z ∈ G.nodes ∧ z ∉ L ∧ z ∉ S ∧ z ≠ x ∧ z ≠ y) →
        ¬ MSep G [x] [y] (Z ++ S) := by
  constructor
  · intro hp Z hZ
    exact not_sep_of_inducing hwf hun hsl hyS hxS hSn hLS hp Z
      (fun z hz => ⟨(hZ z hz).1, (hZ z hz).2.1, (hZ z hz).2.2.2.1, (hZ z hz).2.2.2.2⟩)
  · intro hall
    by_cases hp : HasInducingPath G L S x y
    · exact hp
    · exfalso
      refine hall (canonZ G L S x y) ?_ (sep_of_no_inducing hwf hun hsl hxy hx hy hxS hyS hSn hp)
      intro z hz
      have hm := List.mem_filter.mp hz
      have hdec := hm.2
      simp only [decide_eq_true_eq] at hdec
      refine ⟨?_, hdec.1, hdec.2.1, hdec.2.2.1, hdec.2.2.2⟩
      have hv := hm.1
      unfold anc at hv
      rw [mem_closure] at hv
      obtain ⟨w, _, hwU, hr⟩ := hv
      cases hr with
      | refl => exact hwU
      | tail _ s => exact s.2

/-- **C07: maximality ⇔ no inducing path between non-adjacent nodes** (the hypothesis `C07.T5`,
    proved for every ADMG without self loops). -/
theorem c07_T5 (hwf : G.WF) (hun : G.un = []) (hsl : NoSelfLoop G) : C07.T5 G := by
  unfold C07.T5 C07.Maximal C07.NoInducingPathBetweenNonAdjacent
  constructor
  · intro hmax a ha b hb hab hnadj hp
    obtain ⟨Z, hZ, hsep⟩ := hmax a ha b hb hab hnadj
    have := not_sep_of_inducing hwf hun hsl (L := []) (S := []) (by simp) (by simp) (by simp)
      (by simp) hp Z (fun z hz => ⟨(hZ z hz).1, by simp, (hZ z hz).2.1, (hZ z hz).2.2⟩)
    rw [List.append_nil] at this
    exact this hsep
  · intro hno a ha b hb hab hnadj
    have hsep := sep_of_no_inducing hwf hun hsl (L := []) (S := []) hab ha hb (by simp) (by simp)
      (by simp) (hno a ha b hb hab hnadj)
    rw [List.append_nil] at hsep
    refine ⟨canonZ G [] [] a b, ?_, hsep⟩
    intro z hz
    have hm := List.mem_filter.mp hz
    have hdec := hm.2
    simp only [decide_eq_true_eq] at hdec
    refine ⟨?_, hdec.2.2.1, hdec.2.2.2⟩
    have hv := hm.1
    unfold anc at hv
    rw [mem_closure] at hv
    obtain ⟨w, _, hwU, hr⟩ := hv
    cases hr with
    | refl => exact hwU
    | tail _ s => exact s.2

end T5
