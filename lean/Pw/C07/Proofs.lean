import Pw.C07.Model
import Pw.C07.Spec
import Pw.C06.Mag
open Closure

/-! # C07: `valid_mag` / `is_maximal` model = specification

Unconditional (all graphs, no size bound):
* `validMag_iff`: `valid_mag` accepts iff no undirected edge, at most one edge per pair, no directed
  cycle, no bidirected edge between a node and an ancestor, and no inducing path between non-adjacent
  nodes.  This includes the fact that `has_adc` misses `a -> b, a <-> b` but those pairs are exactly
  what the first loop rejects.
* `isMaximal_iff`, `validMag_false_of_undirected`.
Conditional on T5 (inducing path ⇔ inseparable; Richardson–Spirtes): the statement with `Maximal`. -/
namespace C07
open MG C06

variable {G : MG}

theorem biB_iff {a b : Nat} : biB G a b = true ↔ Bi G a b := by
  simp [biB, Bi]
theorem unB_iff {a b : Nat} : unB G a b = true ↔ Un G a b := by
  simp [unB, Un]

theorem edgeScanBad_iff : edgeScanBad G = true ↔
    ∃ node, node ∈ G.nodes ∧ ∃ elem, elem ∈ nbrs G node ∧
      (Un G node elem ∨ (Bi G node elem ∧ (node, elem) ∈ G.dir)) := by
  simp [edgeScanBad, unB_iff, biB_iff]

/-- first loop of `valid_mag` -/
theorem edgeScanBad_false_iff (hwf : G.WF) :
    edgeScanBad G = false ↔ (G.un = [] ∧ ∀ a b, (a, b) ∈ G.dir → ¬ Bi G a b) := by
  rw [← Bool.not_eq_true, edgeScanBad_iff]
  constructor
  · intro h
    refine ⟨?_, ?_⟩
    · rw [List.eq_nil_iff_forall_not_mem]
      rintro ⟨a, b⟩ hab
      exact h ⟨a, (hwf.2.2 _ hab).1, b, mem_nbrs.mpr (Or.inr (Or.inr (Or.inr (Or.inl hab)))),
        Or.inl (Or.inl hab)⟩
    · intro a b hab hbi
      exact h ⟨a, (hwf.1 _ hab).1, b, mem_nbrs.mpr (Or.inr (Or.inl hab)), Or.inr ⟨hbi, hab⟩⟩
  · rintro ⟨hun, hbow⟩ ⟨node, _, elem, _, h | ⟨hbi, hd⟩⟩
    · unfold Un at h; rw [hun] at h; simp at h
    · exact hbow _ _ hd hbi

theorem sanc_trans {a b c : Nat} (h1 : SAnc G a b) (h2 : SAnc G b c) : SAnc G a c := by
  obtain ⟨x, hax, hxb⟩ := h1
  obtain ⟨y, hby, hyc⟩ := h2
  exact ⟨x, hax, hxb.trans (Anc.step hby hyc)⟩

theorem mem_descStrict (hwf : G.WF) {e v : Nat} : v ∈ descStrict G e ↔ SAnc G e v := by
  unfold descStrict SAnc
  rw [mem_closure]
  constructor
  · rintro ⟨w, hw, _, hr⟩
    exact ⟨w, mem_children.mp hw, reach_children_anc hr⟩
  · rintro ⟨c, hc, ha⟩
    exact ⟨c, mem_children.mpr hc, (hwf.1 _ hc).2, anc_reach_children hwf ha⟩

theorem mem_ancStrict' (hwf : G.WF) {e u : Nat} : u ∈ ancStrict G e ↔ SAnc G u e := by
  rw [mem_ancStrict hwf]; exact sanc_first_iff_last.symm

theorem hasAdc_iff (hwf : G.WF) : hasAdc G = true ↔
    ∃ elem, elem ∈ G.nodes ∧ ∃ a b, (a, b) ∈ G.bi ∧
      ((SAnc G a elem ∧ SAnc G elem b) ∨ (SAnc G b elem ∧ SAnc G elem a)) := by
  simp [hasAdc, mem_ancStrict' hwf, mem_descStrict hwf]

/-- `has_adc` agrees with "not ancestral" on graphs in which no pair carries `a -> b` and `a <-> b`;
    it is silent on exactly those pairs -/
theorem hasAdc_false_iff (hwf : G.WF) (hbow : ∀ a b, (a, b) ∈ G.dir → ¬ Bi G a b) :
    hasAdc G = false ↔ Ancestral G := by
  rw [← Bool.not_eq_true, hasAdc_iff hwf]
  constructor
  · intro h a b hbi hs
    obtain ⟨c, hac, hcb⟩ := hs
    cases hcb with
    | refl => exact hbow _ _ hac hbi
    | step hcd hdb =>
      have hc := (hwf.1 _ hac).2
      have h1 : SAnc G a c := ⟨c, hac, Anc.refl c⟩
      have h2 : SAnc G c b := ⟨_, hcd, hdb⟩
      rcases hbi with hbi | hbi
      · exact h ⟨c, hc, a, b, hbi, Or.inl ⟨h1, h2⟩⟩
      · exact h ⟨c, hc, b, a, hbi, Or.inr ⟨h1, h2⟩⟩
  · rintro h ⟨elem, _, a, b, he, ⟨h1, h2⟩ | ⟨h1, h2⟩⟩
    · exact h a b (Or.inl he) (sanc_trans h1 h2)
    · exact h b a (Or.inr he) (sanc_trans h1 h2)

theorem not_mem_nbrs_iff {a b : Nat} : b ∉ nbrs G a ↔ ¬ Adjacent G a b := by
  rw [mem_nbrs]
  unfold Adjacent Dir Bi Un
  constructor
  · intro h hadj; apply h
    rcases hadj with h1 | h1 | h1 | h1
    · exact Or.inr (Or.inl h1)
    · exact Or.inl h1
    · exact Or.inr (Or.inr (Or.inl h1))
    · exact Or.inr (Or.inr (Or.inr h1))
  · intro h hn; apply h
    rcases hn with h1 | h1 | h1 | h1
    · exact Or.inr (Or.inl h1)
    · exact Or.inl h1
    · exact Or.inr (Or.inr (Or.inl h1))
    · exact Or.inr (Or.inr (Or.inr h1))

/-- the scan over non-adjacent ordered pairs -/
theorem indScan_false_iff (hwf : G.WF) (hun : G.un = []) (hcirc : G.circ = [])
    (no2 : ∀ a b, (a, b) ∈ G.dir → (b, a) ∉ G.dir) :
    indScan G [] [] = false ↔ NoInducingPathBetweenNonAdjacent G := by
  unfold indScan NoInducingPathBetweenNonAdjacent
  simp only [List.any_eq_false, List.mem_filter, Bool.and_eq_true, decide_eq_true_eq, bne_iff_ne,
    and_imp, Bool.not_eq_true]
  constructor
  · intro h a ha b hb hab hadj hind
    have := h a ha b hb (not_mem_nbrs_iff.mpr hadj) (Ne.symm hab)
    have h2 := (hasInd_full (L := []) (S := []) hwf hun hcirc no2 ha hb hab).mpr
      ⟨by simp, by simp, by simp, by simp, hind⟩
    rw [this] at h2; cases h2
  · intro h s hs d hd hadj hne
    cases hh : hasInd G [] [] s d with
    | false => rfl
    | true =>
      have := (hasInd_full (L := []) (S := []) hwf hun hcirc no2 hs hd (Ne.symm hne)).mp hh
      exact absurd this.2.2.2.2 (h s hs d hd (Ne.symm hne) (not_mem_nbrs_iff.mp hadj))

theorem no2_of_acyclic (h : Acyclic G) : ∀ a b, (a, b) ∈ G.dir → (b, a) ∉ G.dir :=
  fun a b hab hba => h a b hab (Anc.step hba (Anc.refl a))

theorem validMag_unfold :
    validMag G = true ↔
      (edgeScanBad G = false ∧ hasCycle G = false ∧ hasAdc G = false ∧ indScan G [] [] = false) := by
  unfold validMag
  cases edgeScanBad G <;> cases hasCycle G <;> cases hasAdc G <;> cases indScan G [] [] <;> simp

/-- **C07, valid_mag (unconditional part).** -/
theorem validMag_iff (hwf : G.WF) (hcirc : G.circ = []) :
    validMag G = true ↔
      (NoUndirected G ∧ Simple G ∧ Acyclic G ∧ Ancestral G ∧ NoInducingPathBetweenNonAdjacent G) := by
  rw [validMag_unfold, edgeScanBad_false_iff hwf, hasCycle_false_iff G hwf]
  constructor
  · rintro ⟨⟨hun, hbow⟩, hac, hadc, hind⟩
    have no2 := no2_of_acyclic hac
    refine ⟨hun, ?_, hac, (hasAdc_false_iff hwf hbow).mp hadc,
      (indScan_false_iff hwf hun hcirc no2).mp hind⟩
    intro a b
    refine ⟨fun h => no2 a b h.1 h.2, fun h => hbow a b h.1 h.2, ?_, ?_⟩
    · rintro ⟨_, h⟩; unfold Un at h; rw [hun] at h; simp at h
    · rintro ⟨_, h⟩; unfold Un at h; rw [hun] at h; simp at h
  · rintro ⟨hun, hsimple, hac, hanc, hind⟩
    have no2 := no2_of_acyclic hac
    have hbow : ∀ a b, (a, b) ∈ G.dir → ¬ Bi G a b := fun a b hab hbi => (hsimple a b).2.1 ⟨hab, hbi⟩
    exact ⟨⟨hun, hbow⟩, hac, (hasAdc_false_iff hwf hbow).mpr hanc,
      (indScan_false_iff hwf hun hcirc no2).mpr hind⟩

/-- **C07, rejection clause.** A graph containing an undirected edge is never accepted. -/
theorem validMag_false_of_undirected (hwf : G.WF) (h : G.un ≠ []) : validMag G = false := by
  cases hv : validMag G with
  | false => rfl
  | true =>
    have := (validMag_unfold.mp hv).1
    exact absurd ((edgeScanBad_false_iff hwf).mp this).1 h

/-- **C07, is_maximal (unconditional part)**: on a graph with directed and bidirected edges only and
    no 2-cycle, `is_maximal` returns, and returns True iff no inducing path joins a non-adjacent pair -/
theorem isMaximal_iff (hwf : G.WF) (hun : G.un = []) (hcirc : G.circ = [])
    (no2 : ∀ a b, (a, b) ∈ G.dir → (b, a) ∉ G.dir) :
    ∃ b, isMaximal G = .ok b ∧ (b = true ↔ NoInducingPathBetweenNonAdjacent G) := by
  unfold isMaximal
  have hg : ¬ (G.un ≠ [] ∨ G.circ ≠ []) := by
    rintro (h | h)
    · exact h hun
    · exact h hcirc
  rw [if_neg (fun h => hg h.1)]
  refine ⟨_, rfl, ?_⟩
  rw [← indScan_false_iff hwf hun hcirc no2]
  cases indScan G [] [] <;> simp

/-- **C07, full statement, conditional on T5** (for an ADMG: every non-adjacent pair is m-separable
    iff no inducing path joins a non-adjacent pair). -/
theorem validMag_iff_ValidMAG_of_T5 (hwf : G.WF) (hcirc : G.circ = []) (hT5 : T5 G) :
    validMag G = true ↔ ValidMAG G := by
  rw [validMag_iff hwf hcirc]
  unfold ValidMAG T5 at *
  rw [hT5]

theorem isMaximal_iff_Maximal_of_T5 (hwf : G.WF) (hun : G.un = []) (hcirc : G.circ = [])
    (no2 : ∀ a b, (a, b) ∈ G.dir → (b, a) ∉ G.dir) (hT5 : T5 G) :
    ∃ b, isMaximal G = .ok b ∧ (b = true ↔ Maximal G) := by
  obtain ⟨b, hb, h⟩ := isMaximal_iff hwf hun hcirc no2
  exact ⟨b, hb, by rw [h]; exact hT5.symm⟩

/-- `has_adc` alone is *not* "not ancestral": it is silent on `0 -> 1, 0 <-> 1` (test by evaluation of
    the specification side; the model side is the run-time correspondence case `vm n=2 D=0-1 B=0-1`) -/
theorem bow_not_ancestral : ¬ Ancestral { nodes := [0, 1], dir := [(0, 1)], bi := [(0, 1)] } := by
  intro h
  exact h 0 1 (Or.inl (by simp)) ⟨1, by simp, Anc.refl 1⟩

/-- non-vacuity: the hypotheses of `validMag_iff` / `isMaximal_iff` hold for the C06 example DAG -/
example : ∃ b, isMaximal exG = .ok b ∧ (b = true ↔ NoInducingPathBetweenNonAdjacent exG) :=
  isMaximal_iff exG_dom.wf rfl rfl exG_dom.no2

example : validMag exG = true ↔
    (NoUndirected exG ∧ Simple exG ∧ Acyclic exG ∧ Ancestral exG ∧ NoInducingPathBetweenNonAdjacent exG) :=
  validMag_iff exG_dom.wf rfl

end C07
