import Pw.C19.Full
open Closure MG

/-! # C19: the run-time oracle `acySpecG` is an acyclification; uniqueness; examples; counterexamples
for the unchanged loop -/
namespace C19

theorem dirSpecB_iff {G : MG} (hwf : G.WF) {i j : Nat} (hi : i ∈ G.nodes) (hj : j ∈ G.nodes) :
    dirSpecB G i j = true ↔ DirSpec G i j := by
  simp only [dirSpecB, Bool.and_eq_true, Bool.not_eq_true', List.any_eq_true, decide_eq_true_eq, DirSpec]
  constructor
  · rintro ⟨h1, k, hk, h2, h3⟩
    refine ⟨?_, k, (scB_iff hwf hj hk).mp h2, h3⟩
    intro hsc
    rw [(scB_iff hwf hi hj).mpr hsc] at h1; cases h1
  · rintro ⟨h1, k, h2, h3⟩
    have hk := (hwf.1 _ h3).2
    refine ⟨?_, k, hk, (scB_iff hwf hj hk).mpr h2, h3⟩
    cases h : scB G i j
    · rfl
    · exact absurd ((scB_iff hwf hi hj).mp h) h1

theorem biSpecB_iff {G : MG} (hwf : G.WF) {i j : Nat} (hi : i ∈ G.nodes) (hj : j ∈ G.nodes) :
    biSpecB G i j = true ↔ BiSpec G i j := by
  simp only [biSpecB, Bool.and_eq_true, bne_iff_ne, ne_eq, Bool.or_eq_true, List.any_eq_true,
    decide_eq_true_eq, BiSpec, scB_iff hwf hi hj]
  constructor
  · rintro ⟨hne, h | ⟨a, ha, b, hb, ⟨h1, h2⟩, h3⟩⟩
    · exact ⟨hne, Or.inl h⟩
    · exact ⟨hne, Or.inr ⟨a, b, (scB_iff hwf hi ha).mp h1, (scB_iff hwf hj hb).mp h2, h3⟩⟩
  · rintro ⟨hne, h | ⟨a, b, h1, h2, h3⟩⟩
    · exact ⟨hne, Or.inl h⟩
    · have han : a ∈ G.nodes ∧ b ∈ G.nodes := by
        rcases h3 with h | h
        · exact hwf.2.1 _ h
        · exact (hwf.2.1 _ h).symm
      exact ⟨hne, Or.inr ⟨a, han.1, b, han.2, ⟨(scB_iff hwf hi han.1).mpr h1, (scB_iff hwf hj han.2).mpr h2⟩, h3⟩⟩

theorem mem_allPairs {G : MG} {e : Nat × Nat} : e ∈ allPairs G ↔ e.1 ∈ G.nodes ∧ e.2 ∈ G.nodes := by
  obtain ⟨i, j⟩ := e
  simp only [allPairs, List.mem_flatMap, List.mem_map, Prod.mk.injEq]
  constructor
  · rintro ⟨a, ha, b, hb, rfl, rfl⟩; exact ⟨ha, hb⟩
  · rintro ⟨hi, hj⟩; exact ⟨i, hi, j, hj, rfl, rfl⟩

/-- the oracle of the harness (`acyspec`) is the declarative characterisation -/
theorem acySpecG_isAcyclification {G : MG} (hwf : G.WF) : IsAcyclification G (acySpecG G) := by
  have hdir : ∀ i j, (i, j) ∈ (acySpecG G).dir ↔ DirSpec G i j := by
    intro i j
    simp only [acySpecG, List.mem_filter, mem_allPairs]
    constructor
    · rintro ⟨⟨hi, hj⟩, h⟩; exact (dirSpecB_iff hwf hi hj).mp h
    · intro h
      have hn := DirSpec.mem_nodes hwf h
      exact ⟨hn, (dirSpecB_iff hwf hn.1 hn.2).mpr h⟩
  refine ⟨rfl, hdir, ?_, rfl, acyclic_of_dirSpec hdir⟩
  intro i j
  simp only [acySpecG, List.mem_filter, mem_allPairs]
  constructor
  · rintro (⟨⟨hi, hj⟩, h⟩ | ⟨⟨hj, hi⟩, h⟩)
    · exact (biSpecB_iff hwf hi hj).mp h
    · exact ((biSpecB_iff hwf hj hi).mp h).symm
  · intro h
    have hn := BiSpec.mem_nodes hwf h
    exact Or.inl ⟨hn, (biSpecB_iff hwf hn.1 hn.2).mpr h⟩

/-- the characterisation determines the result: two acyclifications of `G` have the same nodes and
    the same edge sets (so comparing the implementation with `acySpecG` loses nothing) -/
theorem IsAcyclification.unique {G A A' : MG} (h : IsAcyclification G A) (h' : IsAcyclification G A') :
    A.nodes = A'.nodes ∧ (∀ e, e ∈ A.dir ↔ e ∈ A'.dir) ∧
    (∀ i j, ((i, j) ∈ A.bi ∨ (j, i) ∈ A.bi) ↔ ((i, j) ∈ A'.bi ∨ (j, i) ∈ A'.bi)) := by
  refine ⟨by rw [h.nodes, h'.nodes], ?_, ?_⟩
  · rintro ⟨i, j⟩; rw [h.dir, h'.dir]
  · intro i j; rw [h.bi, h'.bi]

/-- model = oracle, for every component order -/
theorem acy_eq_acySpecG {G : MG} {order : List Nat} (hd : Dom G) (ho : IsOrder G order) :
    (acy G order).nodes = (acySpecG G).nodes ∧ (∀ e, e ∈ (acy G order).dir ↔ e ∈ (acySpecG G).dir) ∧
    (∀ i j, ((i, j) ∈ (acy G order).bi ∨ (j, i) ∈ (acy G order).bi) ↔
            ((i, j) ∈ (acySpecG G).bi ∨ (j, i) ∈ (acySpecG G).bi)) :=
  (acy_isAcyclification hd ho).unique (acySpecG_isAcyclification hd.wf)

/-! ## non-vacuity: the hypotheses hold on the two adjacent 2-cycles `0 ⇄ 3 → 1 ⇄ 2` -/

/-- two adjacent 2-cycles (the witness of the first fixed defect) -/
def W1 : MG := { nodes := [0, 1, 2, 3], dir := [(0, 3), (3, 0), (1, 2), (2, 1), (3, 1)] }
/-- two 2-cycles joined by a bidirected edge (the witness of the second fixed defect) -/
def W2 : MG := { nodes := [0, 1, 2, 3], dir := [(0, 2), (2, 0), (1, 3), (3, 1)], bi := [(2, 3)] }

theorem W1_dom : Dom W1 := by
  refine ⟨⟨by decide, by decide, by decide⟩, by decide, ?_, ?_⟩
  · intro a h; simp [W1] at h; omega
  · intro a h; simp [W1] at h
theorem W2_dom : Dom W2 := by
  refine ⟨⟨by decide, by decide, by decide⟩, by decide, ?_, ?_⟩
  · intro a h; simp [W2] at h; omega
  · intro a h; simp [W2] at h; omega
theorem W1_order : IsOrder W1 [2, 3, 0, 1] := ⟨by decide, by decide⟩
theorem W2_order : IsOrder W2 [3, 1, 2, 0] := ⟨by decide, by decide⟩

example : IsAcyclification W1 (acy W1 [2, 3, 0, 1]) := acy_isAcyclification W1_dom W1_order
example : IsAcyclification W2 (acy W2 [3, 1, 2, 0]) := acy_isAcyclification W2_dom W2_order
example : sigmaSeparatedE W1 [2, 3, 0, 1] [0] [2] [] = .ok (sigmaSeparated W1 [2, 3, 0, 1] [0] [2] []) :=
  sigmaSeparatedE_eq W1_dom rfl W1_order _ _ _
example : sigmaSeparated W1 [2, 3, 0, 1] [0] [2] [3] = true ↔ MSep (acy W1 [2, 3, 0, 1]) [0] [2] [3] :=
  sigmaSeparated_iff_MSep_acy W1_dom rfl W1_order _ _ _ (by decide) (by decide) (by decide)
example : sigmaSepDec W1 [0] [2] [3] = true ↔ SigmaSep W1 [0] [2] [3] :=
  sigmaSepDec_iff W1_dom.wf (by decide) (by decide)

/-! ## the unchanged loop (before the `fix:` commits) violates the characterisation -/

theorem W1_anc_closed : ∀ {a b : Nat}, Anc W1 a b → (a = 1 ∨ a = 2) → (b = 1 ∨ b = 2) := by
  intro a b h
  induction h with
  | refl => exact id
  | step e _ ih =>
    intro ha
    apply ih
    simp [W1] at e
    omega

/-- the characterisation demands `3 -> 2` in the acyclification of `W1` -/
theorem W1_dirSpec_3_2 : DirSpec W1 3 2 := by
  refine ⟨?_, 1, ⟨Anc.step (by decide) (Anc.refl 1), Anc.step (by decide) (Anc.refl 2)⟩, by decide⟩
  rintro ⟨_, h⟩
  have := W1_anc_closed h (Or.inr rfl)
  omega

/-- **counterexample (first fixed defect).** The unchanged loop body, run over the components of
    `W1` with the downstream component `{1,2}` first (the order networkx yields), does not produce
    the required edge `3 -> 2`; the repaired body does, in either order. -/
theorem C19_counterexample_old_loop_dir :
    DirSpec W1 3 2 ∧ (3, 2) ∉ ([[1, 2], [0, 3]].foldl (procCompOld W1) W1).dir ∧
    (3, 2) ∈ ([[1, 2], [0, 3]].foldl (procComp W1) W1).dir ∧
    (3, 2) ∈ ([[0, 3], [1, 2]].foldl (procComp W1) W1).dir :=
  ⟨W1_dirSpec_3_2, by decide, by decide, by decide⟩

/-- the characterisation demands `0 <-> 1` in the acyclification of `W2` -/
theorem W2_biSpec_0_1 : BiSpec W2 0 1 := by
  refine ⟨by decide, Or.inr ⟨2, 3, ⟨Anc.step (by decide) (Anc.refl 2), Anc.step (by decide) (Anc.refl 0)⟩,
    ⟨Anc.step (by decide) (Anc.refl 3), Anc.step (by decide) (Anc.refl 1)⟩, Or.inl (by decide)⟩⟩

/-- **counterexample (second fixed defect).** The unchanged loop body does not produce `0 <-> 1` on
    `W2` in either order of the two components. -/
theorem C19_counterexample_old_loop_bi :
    BiSpec W2 0 1 ∧
    (0, 1) ∉ ([[1, 3], [0, 2]].foldl (procCompOld W2) W2).bi ∧
    (1, 0) ∉ ([[1, 3], [0, 2]].foldl (procCompOld W2) W2).bi ∧
    (0, 1) ∉ ([[0, 2], [1, 3]].foldl (procCompOld W2) W2).bi ∧
    (1, 0) ∉ ([[0, 2], [1, 3]].foldl (procCompOld W2) W2).bi :=
  ⟨W2_biSpec_0_1, by decide, by decide, by decide, by decide⟩

end C19
