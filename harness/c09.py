"""C09: pag_to_mag returns a member of the class the PAG represents.

Deciding oracle = Lean (lean/Pw/C09/Dec.lean): `c09pag` computes the PAG of a MAG from the definition
(enumeration of the Markov equivalence class with the proved m-separation model), `c09valid` / `c09struct`
validate the graph returned by the implementation against the clauses of the property (a MAG is a
*witness* output: validated, not compared).  Both are proved equal to their declarative specification
(lean/Pw/C09/ValidOk.lean: c09valid_ok_iff, c09struct_ok_iff, c09pag_spec).  `c09model` is the Lean model of the function; it is compared
with the implementation on int-labelled inputs (iteration orders of Python sets are passed as inputs).

case kinds
  mag : g = a MAG (directed + bidirected); P = its PAG (Lean); all clauses incl. Markov equivalence
  pag : g = any well-formed PAG instance (one edge per pair); structural clauses only
"""
import random

from . import common as C
from .shrink import shrink_case

PID = "C09"
NAMES = {"D": "directed", "B": "bidirected", "U": "undirected", "C": "circle"}


# ----------------------------------------------------------------------------- implementation side
def build_pag(g, lab):
    from pywhy_graphs import PAG
    P = PAG()
    for v in C.g_nodes(g):
        P.add_node(lab(v))
    for k in ("D", "B", "U", "C"):
        for a, b in g.get(k, []):
            P.add_edge(lab(a), lab(b), NAMES[k])
    return P


def parse_graph(s):
    out = {}
    for tok in s.split():
        k, _, v = tok.partition("=")
        if k == "N":
            out[k] = sorted(int(x) for x in v.split(",") if x)
        elif k in ("D", "B", "U", "C"):
            out[k] = [tuple(int(x) for x in p.split("-")) for p in v.split(",") if p]
    return out


def g_of_str(s, order=None):
    p = parse_graph(s)
    g = C.g_new(len(p["N"]), D=p["D"], B=p["B"], U=p["U"], C=p["C"])
    if order is not None:
        g["N"] = list(order)
    return g


def run_impl(pg, fam="int"):
    """returns dict: res (canonical graph string of the result or err:..), mutated, corder (iteration order of
    the circle-edge set as index pairs, for the model)"""
    from pywhy_graphs.algorithms.pag import pag_to_mag
    lab = C.Labels(fam)
    try:
        P = build_pag(pg, lab)
    except Exception as e:
        return {"res": "err:build:" + type(e).__name__}
    if C.too_many_timeouts():
        return {"res": "err:does-not-terminate(20s)", "corder": [], "mutated": False}
    try:
        from . import c08 as _c08
        _c08.pollute_other_objects()
    except Exception:
        pass
    try:
        if C.warm_decide({"g": pg, "fam": fam}, 4):
            # query, edit the same object in place, query again (see common.warmup)
            with C.time_limit(20):
                C.warmup(P, lambda: pag_to_mag(P), layers=("circle", "directed", "bidirected", "undirected"))
    except C.CallTimeout:
        P = build_pag(pg, lab)
    try:
        corder = [(lab.inv(a), lab.inv(b)) for a, b in set(P.copy().circle_edges)]
    except Exception:  # copy() is not the function under test here; the literal model then gets P's own order
        corder = [(lab.inv(a), lab.inv(b)) for a, b in set(P.circle_edges)]
    before = C.snapshot(P)
    try:
        with C.time_limit(20):
            M = pag_to_mag(P)
    except C.CallTimeout:
        C.note_timeout({"pag": pg, "fam": fam}, 20)
        return {"res": "err:does-not-terminate(20s)", "corder": corder, "mutated": before != C.snapshot(P)}
    except Exception as e:
        return {"res": "err:" + type(e).__name__, "corder": corder, "mutated": before != C.snapshot(P)}
    after = C.snapshot(P)
    try:
        ed = M.edges()
        extra = sorted(k for k, v in ed.items() if k not in ("directed", "bidirected", "undirected") and len(v))
        res = C.canon_graph([lab.inv(v) for v in M.nodes],
                            D=[(lab.inv(a), lab.inv(b)) for a, b in ed.get("directed", [])],
                            B=[(lab.inv(a), lab.inv(b)) for a, b in ed.get("bidirected", [])],
                            U=[(lab.inv(a), lab.inv(b)) for a, b in ed.get("undirected", [])],
                            C=[(lab.inv(a), lab.inv(b)) for a, b in ed.get("circle", [])])
        if extra:
            res = "err:extra-layers:" + ",".join(extra)
    except Exception as e:
        res = "err:result:" + type(e).__name__
    return {"res": res, "mutated": before != after, "corder": corder}


# ----------------------------------------------------------------------------- Lean side
def mline(prefix, s):
    """re-key a canonical graph string with a prefix (mN= mD= ...)"""
    return " ".join(prefix + tok for tok in s.split())


def valid_line(cmd, pg, res, src=None):
    ln = "%s %s %s" % (cmd, C.g_line(pg), mline("m", res))
    if src is not None:
        ln += " " + mline("s", C.canon_graph(C.g_nodes(src), D=src["D"], B=src["B"]))
    return ln


def model_line(pg, corder):
    h = dict(pg)
    h["C"] = [list(e) for e in corder]
    return "c09model " + C.g_line(h)


def wellformed_pag(g):
    """one edge per pair in one of the encodings of the PAG docstring, no self loops"""
    per = {}
    for k in ("D", "B", "U", "C"):
        for a, b in g.get(k, []):
            if a == b:
                return False
            per.setdefault(frozenset((a, b)), []).append((k, a, b))
    for items in per.values():
        kinds = sorted(k for k, _, _ in items)
        if kinds in (["D"], ["B"], ["U"], ["C"]):
            continue
        if kinds == ["C", "C"]:
            (_, a, b), (_, c, d) = items
            if (a, b) == (d, c):
                continue
            return False
        if kinds == ["C", "D"]:
            d = [x for x in items if x[0] == "D"][0]
            c = [x for x in items if x[0] == "C"][0]
            if (d[1], d[2]) == (c[2], c[1]):
                continue
            return False
        return False
    return True


def eval_case(case, drv):
    """(verdict, detail): verdict None | 'violation' | 'corr' | 'skip'"""
    fam = case.get("fam", "int")
    src = None
    if case["kind"] == "mag":
        src = case["g"]
        ans = drv.ask("c09pag " + C.g_line(src))
        if ans == "notmag":
            return "skip", "not a MAG"
        cls, _, ps = ans.partition(" ")
        pg = g_of_str(ps, src.get("N"))
        if case.get("eseed") is not None:
            pg = C.shuffled_graph(random.Random(case["eseed"]), pg)
    else:
        pg = case["g"]
        if not wellformed_pag(pg):
            return "skip", "not a well-formed PAG instance"
        cls = "cls=0"
    got = run_impl(pg, fam)
    info = {"pag": C.g_line(pg), "impl": got["res"], "circles": len(pg["C"]), "cls": int(cls[4:])}
    if got["res"].startswith("err"):
        return "violation", dict(info, clause="raises", why=got["res"])
    verdict = drv.ask(valid_line("c09valid" if src is not None else "c09struct", pg, got["res"], src))
    if verdict != "ok":
        return "violation", dict(info, clause=verdict, lean_request=valid_line("c09valid" if src is not None else "c09struct", pg, got["res"], src))
    if got["mutated"]:
        return "violation", dict(info, clause="input PAG was modified")
    if fam == "int":
        # pag_to_mag returns ONE member of the class (a witness): it has been validated above against every
        # clause; whether it is the same member as the literal Lean model's is recorded, never alarmed on
        model = drv.ask(model_line(pg, got["corder"]))
        info["same_as_model"] = (model == got["res"])
    return None, info


# ----------------------------------------------------------------------------- generators
MAG_STATES = [(), ("D>",), ("D<",), ("B",)]
# PAG pair kinds: none, ->, <-, <->, --, o-o, o->, <-o, -o, o-
PAG_KINDS = [(), ("D>",), ("D<",), ("B",), ("U",), ("C>", "C<"), ("D>", "C<"), ("D<", "C>"), ("C>",), ("C<",)]


def rand_mag_candidate(rng, n, density):
    perm = list(range(n))
    rng.shuffle(perm)
    pos = {v: i for i, v in enumerate(perm)}
    g = C.g_new(n)
    for a, b in C.all_pairs(n):
        if rng.random() > density:
            continue
        if rng.random() < 0.65:
            u, v = (a, b) if pos[a] < pos[b] else (b, a)
            g["D"].append([u, v])
        else:
            g["B"].append([a, b])
    return g


def gen_cases(ctx):
    tier, rng = ctx["tier"], ctx["rng"]
    fams = C.Labels.FAMILIES
    cases = []
    # (a) every MAG (directed + bidirected) on <= 4 nodes; non-MAGs are skipped by the Lean filter
    for n in (1, 2, 3, 4):
        for k, g in enumerate(C.enum_graphs(n, MAG_STATES)):
            if not C.is_acyclic(n, g["D"]):
                continue
            c = {"kind": "mag", "g": g, "src": "mag%d" % n}
            if k % 2:
                c["eseed"] = rng.randrange(1 << 30)
                c["fam"] = fams[(k // 2) % len(fams)]
            cases.append(c)
    # random MAG candidates on 5 nodes (thorough only; the class enumeration is 3^|edges|)
    if tier == "thorough":
        for k in range(4000):
            g = rand_mag_candidate(rng, 5, rng.choice((0.4, 0.55, 0.7)))
            if len(g["D"]) + len(g["B"]) <= 8:
                cases.append({"kind": "mag", "g": g, "src": "mag5-rnd", "eseed": rng.randrange(1 << 30),
                              "fam": fams[k % len(fams)]})
    # 5-node DAGs without v-structures (their PAG is the all-circle graph on a chordal skeleton: the whole
    # result is produced by the "orient one edge, Meek closure" loop) - a few in quick, more in thorough
    for k in range(160 if tier == "quick" else 1200):
        order = list(range(5))
        rng.shuffle(order)
        D = []
        for i, v in enumerate(order):          # perfect elimination order: parents of v form a clique
            prev = order[:i]
            if not prev:
                continue
            par = []
            for u in rng.sample(prev, len(prev)):
                if rng.random() < 0.75 and all(([p, u] in D or [u, p] in D) for p in par):
                    par.append(u)
            D += [[u, v] for u in par]
        if 4 <= len(D) <= 7:
            cases.append({"kind": "mag", "g": C.g_new(5, D=D), "src": "dag5-novstruct", "eseed": rng.randrange(1 << 30),
                          "fam": fams[k % len(fams)]})
    # every chordal skeleton on 5 nodes with 4..7 edges, as a v-structure-free DAG (PAG = all circles); quick
    # takes a seed-dependent third
    import itertools as _it
    prs = list(_it.combinations(range(5), 2))
    kk = 0
    for mask in range(1 << len(prs)):
        es = [prs[i] for i in range(len(prs)) if mask >> i & 1]
        if not 4 <= len(es) <= 7:
            continue
        adj = set(es) | set((b, a) for a, b in es)
        dag = None
        for perm in _it.permutations(range(5)):
            pos = {v: i for i, v in enumerate(perm)}
            D = [[a, b] if pos[a] < pos[b] else [b, a] for a, b in es]
            par = {}
            for a, b in D:
                par.setdefault(b, []).append(a)
            if all((x, y) in adj for ps in par.values() for x, y in _it.combinations(ps, 2)):
                dag = D
                break
        if dag is None:
            continue
        kk += 1
        if True:  # all of them in both tiers (cheap: <= 7 edges)
            cases.append({"kind": "mag", "g": C.g_new(5, D=dag), "src": "chordal5", "eseed": rng.randrange(1 << 30),
                          "fam": "int" if kk % 2 else fams[kk % len(fams)]})
    # (b) structural clauses on arbitrary well-formed PAG instances: all on 3 nodes, random on 4..6
    for k, g in enumerate(C.enum_graphs(3, PAG_KINDS)):
        cases.append({"kind": "pag", "g": g, "src": "pag3"})
    for k in range(1500 if tier == "quick" else 15000):
        n = rng.choice((4, 4, 5, 6))
        g = C.rand_graph(rng, n, PAG_KINDS[1:], weights=(2, 2, 2, 1, 5, 2, 2, 1, 1), density=rng.choice((0.4, 0.6, 0.8)))
        if rng.random() < 0.3:
            g["n"] += 1  # an isolated node
        if k % 2:
            g = C.shuffled_graph(rng, g)
        cases.append({"kind": "pag", "g": g, "src": "pag-rnd", "fam": fams[k % len(fams)] if k % 3 == 0 else "int"})
    return cases


_DRV = None


def _worker(case):
    global _DRV
    if _DRV is None:
        _DRV = C.Driver()
    try:
        return eval_case(case, _DRV)
    except Exception as e:
        return "infra", "%s: %s" % (type(e).__name__, e)


def fails(case):
    drv = C.Driver()
    try:
        return eval_case(case, drv)[0] == "violation"
    finally:
        drv.close()


def run(ctx):
    ev, out = ctx["ev"], ctx["out"]
    ev.rule = ("every graph on <=4 nodes over pair states {none,->,<-,<->} that Lean accepts as a MAG (ancestral, maximal) "
               "[thorough: plus random 5-node MAGs]; "
               "its PAG is computed from the definition by the Lean oracle (marks shared by every member of the Markov "
               "equivalence class, class enumerated with the proved m-separation model); pag_to_mag's result is validated by "
               "Lean against every clause (nodes, adjacencies, marks kept, no circle, acyclic, ancestral, no new unshielded "
               "collider, maximal, same m-separations as the source MAG over all queries); input snapshot before/after. "
               "Structural clauses additionally on every well-formed PAG instance on 3 nodes over the 10 pair kinds and "
               "random ones on 4-6 nodes (isolated nodes, <->, --, -o, o-o, o->). non-trivial = the PAG has a circle mark")
    ev.assumptions = ["PAG instances are well-formed (one edge per pair, encodings of the PAG class docstring)",
                      "model comparison only for int labels 0..n-1 (set iteration order passed to / assumed by the model)",
                      "the class clauses (acyclic, ancestral, no new unshielded collider, maximal, Markov equivalence) are judged "
                      "on each output by the Lean validator, itself proved equal to the declarative clauses (C09.c09valid_ok_iff; PAG "
                      "oracle: C09.pagOf_isPagOf); that pag_to_mag satisfies them is testing - a theorem only conditionally "
                      "(Zhang 2008 Thm 2, Meek)"]
    cases = [dict(c, src="corpus") for c in C.load_corpus(PID)] + gen_cases(ctx)
    res = C.pmap(_worker, cases, chunksize=16)
    bad, corr = [], []
    for case, (v, d) in zip(cases, res):
        if v == "infra":
            raise RuntimeError("worker failed on %r: %s" % (case, d))
        if v == "skip":
            ev.count("skipped:" + case["kind"])
            continue
        ev.case(case, nontrivial=d.get("circles", 0) > 0, sample_every=1500)
        ev.count("src:" + case["src"])
        ev.count("kind:" + case["kind"])
        if case["kind"] == "mag":
            ev.count("class-size>1" if d.get("cls", 0) > 1 else "class-size=1")
        if isinstance(d, dict) and "same_as_model" in d:
            ev.count("witness-equals-literal-model" if d["same_as_model"] else "witness-differs-from-literal-model")
        if v == "violation":
            bad.append((case, d))
        elif v == "corr":
            corr.append((case, d))
    ev.extra["exhaustive_part"] = "MAGs on <=4 nodes and PAG instances on 3 nodes enumerated completely"
    if bad:
        ev.extra["disagreements_total"] = len(bad)
        kinds = {}
        for case, d in bad:
            kinds.setdefault((case["kind"], d.get("clause")), (case, d))
        case, d = sorted(kinds.values(), key=lambda cd: (cd[0]["g"]["n"], sum(len(cd[0]["g"][k]) for k in "DBUC")))[0]
        small = shrink_case(case, fails, setkeys=(), optional_sets=())
        drv = C.Driver()
        v2, d2 = eval_case(small, drv)
        drv.close()
        if v2 != "violation":
            small, d2 = case, d
        out.violation(small, {"detail": d2, "original_case": case})
        for (k, cl), (c2, _) in sorted(kinds.items(), key=str):
            print("  disagreement class kind=%s clause=%s e.g. %s" % (k, cl, C.g_line(c2["g"])))
    for case, d in corr[:1]:
        out.corr(case, dict(d, count=len(corr)))


def replay(ctx, payload):
    case = payload.get("case") or payload.get("correspondence", {}).get("case")
    drv = C.Driver()
    v, d = eval_case(case, drv)
    drv.close()
    print("verdict:", v, d)
    print("REPRODUCED" if v in ("violation", "corr") else "NOT-REPRODUCED")
    return 1 if v in ("violation", "corr") else 0


# ----------------------------------------------------------------------------- C15 adapter
def c15_cases(rng, k):
    drv = C.Driver()
    out = []
    try:
        while len(out) < k:
            n = rng.choice((3, 4, 4))
            g = rand_mag_candidate(rng, n, rng.choice((0.5, 0.7, 0.9)))
            if drv.ask("c09pag " + C.g_line(g)) != "notmag":
                out.append({"kind": "mag", "g": g})
    finally:
        drv.close()
    return out


def c15_eval(case, fam, order_seed):
    drv = C.Driver()
    try:
        src = case["g"]
        ans = drv.ask("c09pag " + C.g_line(src))
        if ans == "notmag":
            return "none"
        pg = C.shuffled_graph(random.Random(order_seed), g_of_str(ans.partition(" ")[2]))
        got = run_impl(pg, fam)
        if got["res"].startswith("err"):
            return got["res"]
        v = drv.ask(valid_line("c09valid", pg, got["res"], src))
        if v == "ok" and got["mutated"]:
            v = "fail:input-modified"
        return "found:valid" if v == "ok" else "found:INVALID:" + v
    finally:
        drv.close()


def c15_expected(cases):
    ans = C.lean_batch(["c09pag " + C.g_line(c["g"]) for c in cases])
    return ["none" if a == "notmag" else "found:valid" for a in ans]
