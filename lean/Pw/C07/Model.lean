import Pw.C06.Model
import Pw.C01.Guard
open Closure

/-! # C07 model: `valid_mag`, `has_adc`, `is_maximal` (pywhy_graphs/algorithms/generic.py)

`has_adc` as after the `fix:` commit on branch f-a0607 (an almost directed cycle is a bidirected edge
between a node and one of its strict ancestors – the old scan required a third node in between and
missed `a -> b, a <-> b`). -/
namespace C07
open MG C06

def biB (G : MG) (a b : Nat) : Bool := decide ((a, b) ∈ G.bi) || decide ((b, a) ∈ G.bi)
def unB (G : MG) (a b : Nat) : Bool := decide ((a, b) ∈ G.un) || decide ((b, a) ∈ G.un)

/-- first loop of `valid_mag`: some neighbour pair carries an undirected edge, or `node -> elem`
    together with `node <-> elem` -/
def edgeScanBad (G : MG) : Bool :=
  G.nodes.any fun node => (nbrs G node).any fun elem =>
    unB G node elem || (biB G node elem && decide ((node, elem) ∈ G.dir))

/-- `has_adc(G)` -/
def hasAdc (G : MG) : Bool :=
  G.bi.any fun e => decide (e.1 ∈ ancStrict G e.2) || decide (e.2 ∈ ancStrict G e.1)

/-- the scan over non-adjacent ordered pairs shared by `valid_mag` and `is_maximal`:
    `cur_set = all_nodes - nb - {source}` -/
def indScan (G : MG) (L S : List Nat) : Bool :=
  G.nodes.any fun source =>
    (G.nodes.filter fun d => decide (d ∉ nbrs G source) && d != source).any fun dest =>
      hasInd G L S source dest

/-- `valid_mag(G)` (L = S = ∅) -/
def validMag (G : MG) : Bool :=
  if edgeScanBad G then false
  else if hasCycle G then false
  else if hasAdc G then false
  else if indScan G [] [] then false
  else true

/-- `is_maximal(G)` (L = S = ∅); `inducing_path` raises on a non-empty undirected layer as soon as
    one non-adjacent pair is examined -/
def isMaximal (G : MG) : Except String Bool :=
  if (G.un ≠ [] ∨ G.circ ≠ []) ∧
      (G.nodes.any fun s => (G.nodes.filter fun d => decide (d ∉ nbrs G s) && d != s).any fun _ => true)
  then .error "value"
  else .ok (!indScan G [] [])

end C07
