import Pw.C01.Driver
open Proto

def handlers : List (String × Handler) := [
  ("msep", C01.handle)
]

def dispatch (line : String) : String :=
  let (fn, args) := parseLine line
  match handlers.lookup fn with
  | some h => h args
  | none => "bad-op"
