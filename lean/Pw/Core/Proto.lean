import Pw.Core.Graph

/-! Line protocol of the driver: `fn key=val key=val …`; lists are comma separated, pairs are `a-b`. -/
namespace Proto

abbrev Args := List (String × String)

def parseLine (line : String) : String × Args :=
  match (line.trimAscii.toString.splitOn " ").filter (· ≠ "") with
  | [] => ("", [])
  | fn :: rest =>
    (fn, rest.filterMap fun tok =>
      match tok.splitOn "=" with
      | [k, v] => some (k, v)
      | _ => none)

def Args.get (a : Args) (k : String) : String := (a.lookup k).getD ""
def Args.has (a : Args) (k : String) : Bool := (a.lookup k).isSome

def parseNats (s : String) : List Nat := (s.splitOn ",").filterMap (·.toNat?)

def parsePairs (s : String) : List (Nat × Nat) :=
  (s.splitOn ",").filterMap fun p =>
    match p.splitOn "-" with
    | [a, b] => match a.toNat?, b.toNat? with
      | some x, some y => some (x, y)
      | _, _ => none
    | _ => none

def Args.nat (a : Args) (k : String) : Nat := ((a.get k).toNat?).getD 0
def Args.nat? (a : Args) (k : String) : Option Nat := (a.get k).toNat?
def Args.nats (a : Args) (k : String) : List Nat := parseNats (a.get k)
def Args.pairs (a : Args) (k : String) : List (Nat × Nat) := parsePairs (a.get k)

/-- graph: `n=4` (nodes 0..3) or `N=2,0,1` (explicit order), layers `D= B= U= C=` -/
def Args.graph (a : Args) : MG :=
  { nodes := if a.has "N" then a.nats "N" else List.range (a.nat "n"),
    dir := a.pairs "D", bi := a.pairs "B", un := a.pairs "U", circ := a.pairs "C" }

def sortNats (l : List Nat) : List Nat := l.mergeSort (· ≤ ·)
def lexLe (a b : Nat × Nat) : Bool := a.1 < b.1 || (a.1 == b.1 && a.2 ≤ b.2)
def sortPairs (l : List (Nat × Nat)) : List (Nat × Nat) := l.mergeSort lexLe
def normPair (p : Nat × Nat) : Nat × Nat := if p.1 ≤ p.2 then p else (p.2, p.1)

def fmtNats (l : List Nat) : String := ",".intercalate (l.map toString)
def fmtSet (l : List Nat) : String := fmtNats (sortNats l.eraseDups)
def fmtPair (p : Nat × Nat) : String := toString p.1 ++ "-" ++ toString p.2
def fmtPairs (l : List (Nat × Nat)) : String := ",".intercalate (l.map fmtPair)
/-- ordered pairs as a sorted set -/
def fmtDirSet (l : List (Nat × Nat)) : String := fmtPairs (sortPairs l.eraseDups)
/-- unordered pairs as a sorted set -/
def fmtUndSet (l : List (Nat × Nat)) : String := fmtPairs (sortPairs (l.map normPair).eraseDups)
def fmtBool (b : Bool) : String := if b then "T" else "F"
def fmtPath (p : List Nat) : String := "-".intercalate (p.map toString)
def fmtGraph (G : MG) : String :=
  "N=" ++ fmtSet G.nodes ++ " D=" ++ fmtDirSet G.dir ++ " B=" ++ fmtUndSet G.bi ++
  " U=" ++ fmtUndSet G.un ++ " C=" ++ fmtDirSet G.circ

abbrev Handler := Args → String

end Proto
