import Pw.Core.Graph
open Closure

/-! # C12 model: `mixed_edge_moral_graph`
(pywhy_graphs/networkx/algorithms/causal/mixed_edge_moral.py, after the `fix:` commit that marries
the parents of a district)

```
G_a = compose(undirected, directed.to_undirected(), bidirected)     -- `baseEdges`
for component in nx.connected_components(G_bidirected):             -- `comps`
    for u, v in combinations(component, 2): G_a.add_edge(u, v)       -- `pairsOf comp`
    all_parents = {p for node in component for p in predecessors(node)}   -- `allParents`
    for node in component:
        for parent in all_parents - {node}: G_a.add_edge(node, parent)   -- `nodeParent`
    for u, v in combinations(all_parents, 2): G_a.add_edge(u, v)     -- `pairsOf ps` (the fix)
```
A missing layer is replaced by an empty graph on G's nodes (the `has_*` flags): in `MG` a missing
layer is the empty list.  The result is an undirected graph: node list + unordered edge list. -/
namespace C12

/-- plain undirected graph (networkx.Graph): unordered pairs, either orientation may be stored -/
structure UG where
  nodes : List Nat
  edges : List (Nat × Nat)
deriving Repr, DecidableEq

/-- adjacency in an unordered edge list -/
def UAdj (es : List (Nat × Nat)) (u v : Nat) : Prop := (u, v) ∈ es ∨ (v, u) ∈ es

instance (es : List (Nat × Nat)) (u v : Nat) : Decidable (UAdj es u v) := by
  unfold UAdj; exact inferInstance

def UG.nbrs (H : UG) (v : Nat) : List Nat := MG.sym H.edges v

/-- the connected component of `v` in the bidirected layer (BFS of `nx.connected_components`) -/
def bicomp (G : MG) (v : Nat) : List Nat := closure G.nodes G.spouses [v]

/-- `nx.connected_components`: scan the nodes in order, skip the ones already seen -/
def compsFrom (G : MG) : List Nat → List Nat → List (List Nat)
  | [], _ => []
  | v :: rest, seen =>
    if v ∈ seen then compsFrom G rest seen
    else (bicomp G v) :: compsFrom G rest (bicomp G v ++ seen)

def comps (G : MG) : List (List Nat) := compsFrom G G.nodes []

/-- `{parent for node in component for parent in G_directed.predecessors(node)}` -/
def allParents (G : MG) (comp : List Nat) : List Nat := comp.flatMap G.parents

/-- `itertools.combinations(S, 2)` of a set, as pairs of distinct members -/
def pairsOf (S : List Nat) : List (Nat × Nat) :=
  S.flatMap fun u => (S.filter (· ≠ u)).map fun v => (u, v)

/-- `for node in component: for parent in all_parents - {node}: add_edge(node, parent)` -/
def nodeParent (comp ps : List Nat) : List (Nat × Nat) :=
  comp.flatMap fun node => (ps.filter (· ≠ node)).map fun p => (node, p)

/-- edges added for one bidirected component -/
def compEdges (G : MG) (comp : List Nat) : List (Nat × Nat) :=
  pairsOf comp ++ nodeParent comp (allParents G comp) ++ pairsOf (allParents G comp)

/-- the three composed layers -/
def baseEdges (G : MG) : List (Nat × Nat) := G.un ++ G.dir ++ G.bi

def moralEdges (G : MG) : List (Nat × Nat) := baseEdges G ++ (comps G).flatMap (compEdges G)

/-- model of `mixed_edge_moral_graph` -/
def moral (G : MG) : UG := { nodes := G.nodes, edges := moralEdges G }

/-- the code before the fix (parents never married) – kept for the counterexample theorem -/
def compEdgesUnfixed (G : MG) (comp : List Nat) : List (Nat × Nat) :=
  pairsOf comp ++ nodeParent comp (allParents G comp)
def moralUnfixed (G : MG) : UG :=
  { nodes := G.nodes, edges := baseEdges G ++ (comps G).flatMap (compEdgesUnfixed G) }

/-! ## vertex cuts in an undirected graph (used for the second sentence of C12 and by C11) -/

/-- nodes reachable from `X` in `H` without entering `Z` -/
def reachAvoid (H : UG) (X Z : List Nat) : List Nat :=
  closure (H.nodes.filter (· ∉ Z)) H.nbrs X

/-- `Z` separates `X` from `Y` in `H` as an ordinary vertex cut -/
def vcut (H : UG) (X Y Z : List Nat) : Bool :=
  !((reachAvoid H X Z).any fun v => v ∈ Y)

/-- induced subgraph of a mixed graph (`G.copy(); remove_nodes_from(V - A)`) -/
def restrict (G : MG) (A : List Nat) : MG :=
  { nodes := G.nodes.filter (· ∈ A),
    dir := G.dir.filter (fun e => e.1 ∈ A ∧ e.2 ∈ A),
    bi := G.bi.filter (fun e => e.1 ∈ A ∧ e.2 ∈ A),
    un := G.un.filter (fun e => e.1 ∈ A ∧ e.2 ∈ A),
    circ := G.circ.filter (fun e => e.1 ∈ A ∧ e.2 ∈ A) }

/-- `_anterior`: closure under parents and undirected neighbours, start nodes included -/
def anterior (G : MG) (S : List Nat) : List Nat :=
  closure G.nodes (fun v => G.parents v ++ G.unbrs v) S

/-- the right-hand side of the second sentence of C12, computed by the models -/
def moralSep (G : MG) (X Y Z : List Nat) : Bool :=
  vcut (moral (restrict G (anterior G (X ++ Y ++ Z)))) X Y Z

end C12
