"""sub-process worker for C15: evaluates implementation adapters under one PYTHONHASHSEED.
stdin: JSON {"jobs": [[module, case, fam, order_seed], ...]}; stdout: JSON list of result strings."""
import importlib
import json
import sys


def main():
    req = json.load(sys.stdin)
    mods = {}
    out = []
    for mod, case, fam, oseed in req["jobs"]:
        m = mods.get(mod) or mods.setdefault(mod, importlib.import_module("harness." + mod))
        try:
            from harness import common as _C
            with _C.time_limit(30):
                out.append(m.c15_eval(case, fam, oseed))
        except _C.CallTimeout:
            out.append("err:does-not-terminate(30s)")
        except Exception as e:  # adapter crash is reported as a result, compared like any other
            out.append("crash:%s:%s" % (type(e).__name__, str(e)[:80]))
    json.dump(out, sys.stdout)


if __name__ == "__main__":
    main()
