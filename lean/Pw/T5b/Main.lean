import Pw.T5b.FromD
open Closure MG

/-! # T5b (Richardson–Spirtes 2002, Thm 4.18, for ADMGs without undirected edges): statements

`D` is an acyclic directed mixed graph (directed and bidirected edges), `L` latent and `S` selection nodes,
`M` any graph with `C06.MagStructure D L S M` (adjacent iff an inducing path exists, marks by ancestry) –
in particular the result of the model `C06.dagToMag`.  Then for observed x, y and a list Z of observed
nodes other than x, y:   `MSep M [x] [y] Z ↔ MSep D [x] [y] (Z ++ S)`. -/
namespace T5b
open C06

variable {D M : MG} {L S : List Nat}

/-- **T5b.1** the MAG of an acyclic `D` is a well-formed ancestral graph without self loops, so the
    C01 / T2 theorems apply to it. -/
theorem mag_ancestral (hs : MagStructure D L S M) (hacy : Acyclic D) :
    NoUndirAtHead M ∧ NoSelfLoop M ∧ M.WF :=
  ⟨mag_noUndirAtHead hs hacy, mag_noSelfLoop hs, mag_wf hs⟩

/-- **T5b.2** (Thm 4.18, "⇐" half): m-separation in `D` given `Z ∪ S` implies m-separation in the
    MAG `M` given `Z`, for observed x, y and Z a list of observed nodes other than x, y. -/
theorem msep_mag_of_dsep (su : Setup D L S M) {x y : Nat} {Z : List Nat}
    (hx : x ∈ M.nodes) (hy : y ∈ M.nodes) (hZ : ∀ z ∈ Z, z ∈ M.nodes ∧ z ≠ x ∧ z ≠ y)
    (h : MSep D [x] [y] (Z ++ S)) : MSep M [x] [y] Z :=
  Classical.byContradiction fun hn => not_msep_D_of_not_msep_M su hx hy hZ hn h

/-- **T5b.3** (Thm 4.18, "⇒" half): m-separation in the MAG given `Z` implies m-separation in `D`
    given `Z ∪ S`. -/
theorem dsep_of_msep_mag (su : Setup D L S M) {x y : Nat} {Z : List Nat}
    (hx : x ∈ M.nodes) (hy : y ∈ M.nodes) (hZ : ∀ z ∈ Z, z ∈ M.nodes ∧ z ≠ x ∧ z ≠ y)
    (h : MSep M [x] [y] Z) : MSep D [x] [y] (Z ++ S) :=
  Classical.byContradiction fun hn => not_msep_M_of_not_msep_D su hx hy hZ hn h

/-- **T5b (Richardson–Spirtes Thm 4.18).** The MAG represents exactly the m-separations of `D` among the
    observed nodes after marginalising `L` and conditioning on `S`. -/
theorem msep_mag_iff (su : Setup D L S M) {x y : Nat} {Z : List Nat}
    (hx : x ∈ M.nodes) (hy : y ∈ M.nodes) (hZ : ∀ z ∈ Z, z ∈ M.nodes ∧ z ≠ x ∧ z ≠ y) :
    MSep M [x] [y] Z ↔ MSep D [x] [y] (Z ++ S) :=
  ⟨dsep_of_msep_mag su hx hy hZ, msep_mag_of_dsep su hx hy hZ⟩

/-- the same with the hypotheses spelt out -/
theorem msep_mag_iff' (hs : MagStructure D L S M) (hwf : D.WF) (hun : D.un = []) (hacy : Acyclic D)
    (hsl : NoSelfLoop D) (hSn : ∀ s ∈ S, s ∈ D.nodes) (hLS : ∀ v, v ∈ L → v ∉ S) {x y : Nat}
    {Z : List Nat} (hx : x ∈ M.nodes) (hy : y ∈ M.nodes)
    (hZ : ∀ z ∈ Z, z ∈ M.nodes ∧ z ≠ x ∧ z ≠ y) :
    MSep M [x] [y] Z ↔ MSep D [x] [y] (Z ++ S) :=
  msep_mag_iff ⟨hs, hwf, hun, hacy, hsl, hSn, hLS⟩ hx hy hZ

/-- **T5b for the model of `dag_to_mag`.** -/
theorem msep_dagToMag_iff (hwf : D.WF) (hun : D.un = []) (hcirc : D.circ = []) (hacy : Acyclic D)
    (hsl : NoSelfLoop D) (hSn : ∀ s ∈ S, s ∈ D.nodes) (hLS : ∀ v, v ∈ L → v ∉ S)
    (hM : dagToMag D L S = .ok M) {x y : Nat} {Z : List Nat} (hx : x ∈ M.nodes) (hy : y ∈ M.nodes)
    (hZ : ∀ z ∈ Z, z ∈ M.nodes ∧ z ≠ x ∧ z ≠ y) :
    MSep M [x] [y] Z ↔ MSep D [x] [y] (Z ++ S) := by
  have no2 : ∀ a b, (a, b) ∈ D.dir → (b, a) ∉ D.dir := by
    intro a b h1 h2
    exact hacy a b h1 (Anc.step h2 (Anc.refl a))
  exact msep_mag_iff' (dagToMag_structure hwf hun hcirc no2 hM) hwf hun hacy hsl hSn hLS hx hy hZ

/-- with the two ancestral-graph facts, the model-level decision procedure agrees as well -/
theorem mSeparated_dagToMag (su : Setup D L S M) {x y : Nat} {Z : List Nat}
    (hx : x ∈ M.nodes) (hy : y ∈ M.nodes) (hZ : ∀ z ∈ Z, z ∈ M.nodes ∧ z ≠ x ∧ z ≠ y) :
    mSeparated M [x] [y] Z = mSeparated D [x] [y] (Z ++ S) := by
  have hxo := obs_of_mem su.hs hx
  have e1 := mSeparated_iff_MSep M (mag_wf su.hs) (mag_noUndirAtHead su.hs su.acy)
    (mag_noSelfLoop su.hs) [x] [y] Z (by intro a ha; simp at ha; subst ha; exact hx)
    (fun z hz => (hZ z hz).1) (by intro a ha hz; simp at ha; subst ha; exact (hZ a hz).2.1 rfl)
  have e2 := mSeparated_iff_MSep D su.wf (noUndirAtHead_of_un_nil D su.un) su.sl [x] [y] (Z ++ S)
    (by intro a ha; simp at ha; subst ha; exact hxo.1)
    (by
      intro z hz
      rcases List.mem_append.mp hz with hz | hz
      · exact (obs_of_mem su.hs (hZ z hz).1).1
      · exact su.hSn z hz)
    (by
      intro a ha hz; simp at ha; subst ha
      rcases List.mem_append.mp hz with hz | hz
      · exact (hZ a hz).2.1 rfl
      · exact hxo.2.2 hz)
  have e3 := msep_mag_iff su hx hy hZ
  cases h1 : mSeparated M [x] [y] Z <;> cases h2 : mSeparated D [x] [y] (Z ++ S) <;> simp_all

/-! ## non-vacuity -/

theorem acyclic_of_rank {G : MG} (f : Nat → Nat) (h : ∀ e ∈ G.dir, f e.1 < f e.2) : Acyclic G := by
  have hmono : ∀ {a b : Nat}, Anc G a b → f a ≤ f b := by
    intro a b hab
    induction hab with
    | refl => exact Nat.le_refl _
    | step e _ ih => exact Nat.le_trans (Nat.le_of_lt (h _ e)) ih
  intro a b e hba
  have h1 := h _ e
  have h2 := hmono hba
  simp only at h1
  omega

/-- the DAG `0 <- 1 -> 2 <- 3, 2 -> 4` with latent 1 and selection node 4 satisfies `Setup` -/
theorem exG_setup : ∃ M, dagToMag exG [1] [4] = .ok M ∧ Setup exG [1] [4] M := by
  obtain ⟨M, hM⟩ := dagToMag_ok (G := exG) (L := [1]) (S := [4]) rfl rfl
  refine ⟨M, hM, dagToMag_structure exG_dom.wf rfl rfl exG_dom.no2 hM, exG_dom.wf, rfl, ?_, ?_, ?_, ?_⟩
  · apply acyclic_of_rank (fun v => if v = 1 ∨ v = 3 then 0 else if v = 4 then 2 else 1)
    intro e he
    simp [exG] at he
    rcases he with rfl | rfl | rfl | rfl <;> simp
  · intro a ma mb h
    rcases h with ⟨_, _, h⟩ | ⟨_, _, h⟩ | ⟨_, _, h⟩ | ⟨_, _, h⟩ <;> simp [exG] at h <;> omega
  · intro s hs; simp at hs; subst hs; simp [exG]
  · intro v hv; simp at hv; subst hv; simp

/-- an instance of the theorem on that DAG -/
example : ∃ M, dagToMag exG [1] [4] = .ok M ∧
    (MSep M [0] [3] [2] ↔ MSep exG [0] [3] ([2] ++ [4])) := by
  obtain ⟨M, hM, su⟩ := exG_setup
  have hn : ∀ v, v ∈ [0, 2, 3] → v ∈ M.nodes := by
    intro v hv
    rw [su.hs.nodes]
    simp at hv
    rcases hv with rfl | rfl | rfl <;> simp [exG]
  refine ⟨M, hM, msep_mag_iff su (hn 0 (by simp)) (hn 3 (by simp)) ?_⟩
  intro z hz
  simp at hz; subst hz
  exact ⟨hn 2 (by simp), by omega, by omega⟩

end T5b
