#!/bin/bash
# usage: tools/integrate.sh <agent-name>   merge w-<name> into /verif main (index files regenerated), show f-<name> commits
set -e
n=$1
cd /verif
git merge --no-commit w-$n >/dev/null 2>&1 || true
# generated / mergeable files: take ours then regenerate
for f in lean/Pw.lean lean/Pw/Driver.lean; do git checkout --ours -- $f 2>/dev/null || true; done
tools/gen_lean_index.py
git add -A
if git diff --cached --quiet; then echo "nothing to merge"; else
  if git ls-files -u | grep -q .; then echo "UNRESOLVED CONFLICTS:"; git ls-files -u | cut -f2 | sort -u; exit 1; fi
  git commit -qm "merge w-$n" && echo "merged w-$n"
fi
echo "--- fix commits on f-$n:"
git -C /repo log --reverse --format='%h %s' main..f-$n
