import Pw.C04.Struct

/-! # C04: `order_edges` produces Chickering's total order (Algorithm 4, read from the end)

In the list returned by the model, targets never increase in topological position, and among edges
into the same target the sources increase: `label_edges`, which always takes the *last* unknown edge,
therefore visits the lowest target first and, for one target, the highest source first. -/
namespace C04

theorem argmax_ge {α : Type} (key : α → Nat) : ∀ (l : List α) (a : α), argmax key l = some a →
    ∀ b ∈ l, key b ≤ key a := by
  intro l
  induction l with
  | nil => intro a h; cases h
  | cons c l ih =>
    intro a h b hb
    rw [argmax] at h
    cases hm : argmax key l with
    | none =>
      rw [hm] at h; cases h
      have := argmax_none key l hm
      subst this
      rcases List.mem_cons.mp hb with rfl | hb
      · exact Nat.le_refl _
      · cases hb
    | some d =>
      rw [hm] at h
      dsimp only at h
      have ihd := ih d hm
      split at h
      · rename_i hle
        cases h
        rcases List.mem_cons.mp hb with rfl | hb
        · exact hle
        · exact ihd b hb
      · rename_i hle
        cases h
        rcases List.mem_cons.mp hb with rfl | hb
        · exact Nat.le_refl _
        · have := ihd b hb; omega

theorem argmin_le {α : Type} (key : α → Nat) : ∀ (l : List α) (a : α), argmin key l = some a →
    ∀ b ∈ l, key a ≤ key b := by
  intro l
  induction l with
  | nil => intro a h; cases h
  | cons c l ih =>
    intro a h b hb
    rw [argmin] at h
    cases hm : argmin key l with
    | none =>
      rw [hm] at h; cases h
      have := argmin_none key l hm
      subst this
      rcases List.mem_cons.mp hb with rfl | hb
      · exact Nat.le_refl _
      · cases hb
    | some d =>
      rw [hm] at h
      dsimp only at h
      have ihd := ih d hm
      split at h
      · rename_i hlt
        cases h
        rcases List.mem_cons.mp hb with rfl | hb
        · omega
        · exact ihd b hb
      · rename_i hlt
        cases h
        rcases List.mem_cons.mp hb with rfl | hb
        · exact Nat.le_refl _
        · have := ihd b hb; omega

/-- `e` comes before `e'` in the edge order -/
def Before (topo : List Nat) (e e' : Edge) : Prop :=
  pos topo e'.2 ≤ pos topo e.2 ∧ (e'.2 = e.2 → pos topo e.1 ≤ pos topo e'.1)

theorem orderStep_first {topo : List Nat} {un : List Edge} {e : Edge} (h : orderStep topo un = some e) :
    ∀ e' ∈ un, Before topo e e' := by
  unfold orderStep at h
  split at h
  · cases h
  · rename_i ey hey
    split at h
    · cases h
    · rename_i x hx
      cases h
      intro e' he'
      refine ⟨argmax_ge _ _ _ hey e' he', ?_⟩
      intro heq
      apply argmin_le _ _ _ hx
      simp only [List.mem_map, List.mem_filter, beq_iff_eq]
      exact ⟨e', ⟨he', heq⟩, rfl⟩

theorem orderLoop_sorted (topo : List Nat) : ∀ (fuel : Nat) (un : List Edge), un.length ≤ fuel →
    (orderLoop topo fuel un).Pairwise (Before topo) := by
  intro fuel
  induction fuel with
  | zero => intro un _; rw [orderLoop]; exact List.Pairwise.nil
  | succ n ih =>
    intro un h
    rw [orderLoop]
    cases hs : orderStep topo un with
    | none => exact List.Pairwise.nil
    | some e =>
      have hmem := orderStep_mem hs
      have hlen := List.length_erase_of_mem hmem
      refine List.Pairwise.cons ?_ (ih (un.erase e) (by omega))
      intro e' he'
      have h1 : e' ∈ un.erase e := (orderLoop_perm topo n (un.erase e) (by omega)).mem_iff.mp he'
      exact orderStep_first hs e' (List.mem_of_mem_erase h1)

/-- **order_edges = Chickering's Algorithm 4**: the returned list is sorted by (target descending,
    source ascending) in the topological positions -/
theorem orderEdges_sorted (topo : List Nat) (E : List Edge) : (orderEdges topo E).Pairwise (Before topo) :=
  orderLoop_sorted topo E.length E (Nat.le_refl _)

end C04
