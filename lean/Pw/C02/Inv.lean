import Pw.C02.LayerLemmas

/-! # C02: the container invariant holds after every history

`MEG.Inv`: node ids duplicate-free, edge-type names duplicate-free, **every layer has exactly the
master node set**, every layer is well formed (**endpoints are nodes**, no edge stored twice). -/
namespace C02

theorem mem_of_lookup {α} {t : Nat} {l : List (Nat × α)} {x : α} (h : List.lookup t l = some x) : (t, x) ∈ l := by
  induction l with
  | nil => simp at h
  | cons p l ih =>
    obtain ⟨k, y⟩ := p
    simp only [List.lookup_cons] at h
    split at h
    · rename_i hk; simp at hk h; subst hk; subst h; simp
    · exact List.mem_cons_of_mem _ (ih h)

theorem lookup_of_mem {α} {t : Nat} {l : List (Nat × α)} {x : α} (hn : (l.map (·.1)).Nodup) (h : (t, x) ∈ l) :
    List.lookup t l = some x := by
  induction l with
  | nil => simp at h
  | cons p l ih =>
    obtain ⟨k, y⟩ := p
    simp only [List.map_cons, List.nodup_cons, List.mem_map, not_exists, not_and] at hn
    simp only [List.lookup_cons]
    rcases List.mem_cons.1 h with h | h
    · cases h; simp
    · have : t ≠ k := fun hk => hn.1 (t, x) h hk
      have : (t == k) = false := by simpa using this
      simp [this, ih hn.2 h]

theorem lookup_map_snd {α β} (t : Nat) (l : List (Nat × α)) (f : Nat → α → β) :
    List.lookup t (l.map fun p => (p.1, f p.1 p.2)) = (List.lookup t l).map (f t) := by
  induction l with
  | nil => simp
  | cons p l ih =>
    obtain ⟨k, y⟩ := p
    simp only [List.map_cons, List.lookup_cons]
    split
    · rename_i hk; simp at hk; subst hk; simp
    · exact ih

theorem lookup_isSome_iff {α} (t : Nat) (l : List (Nat × α)) : (List.lookup t l).isSome = (l.map (·.1)).contains t := by
  induction l with
  | nil => simp
  | cons p l ih =>
    obtain ⟨k, y⟩ := p
    simp only [List.lookup_cons, List.map_cons, List.contains_cons]
    split
    · rename_i hk; simp [hk]
    · rename_i hk; simp at hk; simp [ih]; grind

namespace MEG

structure Inv (g : MEG) : Prop where
  nodup : g.nodeIds.Nodup
  names : g.names.Nodup
  sync : ∀ p ∈ g.layers, ∀ v, v ∈ p.2.nodes ↔ v ∈ g.nodeIds
  wf : ∀ p ∈ g.layers, p.2.WF

/-- all mutations have this shape: new node list, every layer transformed -/
def remap (g : MEG) (nodes' : List (Nat × Attr)) (f : Nat → Layer → Layer) : MEG :=
  { g with nodes := nodes', layers := g.layers.map fun p => (p.1, f p.1 p.2) }

theorem inv_remap {g : MEG} (hnames : g.names.Nodup) (nodes' : List (Nat × Attr)) (f : Nat → Layer → Layer)
    (hn : (nodes'.map (·.1)).Nodup)
    (hf : ∀ p ∈ g.layers, (f p.1 p.2).WF ∧ ∀ v, v ∈ (f p.1 p.2).nodes ↔ v ∈ nodes'.map (·.1)) :
    (g.remap nodes' f).Inv := by
  refine ⟨hn, ?_, ?_, ?_⟩
  · have : (g.remap nodes' f).names = g.names := by simp [MEG.remap, names, List.map_map, Function.comp_def]
    rw [this]; exact hnames
  · intro p hp v
    simp only [MEG.remap, List.mem_map] at hp
    obtain ⟨q, hq, rfl⟩ := hp
    exact (hf q hq).2 v
  · intro p hp
    simp only [MEG.remap, List.mem_map] at hp
    obtain ⟨q, hq, rfl⟩ := hp
    exact (hf q hq).1

theorem Inv.remap {g : MEG} (h : g.Inv) (nodes' : List (Nat × Attr)) (f : Nat → Layer → Layer)
    (hn : (nodes'.map (·.1)).Nodup)
    (hf : ∀ p ∈ g.layers, (f p.1 p.2).WF ∧ ∀ v, v ∈ (f p.1 p.2).nodes ↔ v ∈ nodes'.map (·.1)) :
    (g.remap nodes' f).Inv := inv_remap h.names nodes' f hn hf

theorem applyAll_eq (g : MEG) (f : Layer → Layer) : g.applyAll f = g.remap g.nodes fun _ => f := rfl
theorem setLayer_eq (g : MEG) (t : Nat) (L : Layer) :
    g.setLayer t L = g.remap g.nodes fun t' L' => if t' == t then L else L' := by
  simp only [setLayer, MEG.remap]
  congr 1
  apply List.map_congr_left
  intro p _; split <;> rfl

theorem hasNode_iff {g : MEG} {v : Nat} : g.hasNode v = true ↔ v ∈ g.nodeIds := by simp [hasNode]

/-! ### node operations -/
theorem nodeIds_addNode (g : MEG) (v : Nat) (a : Attr) :
    (g.addNode v a).nodeIds = if g.hasNode v then g.nodeIds else g.nodeIds ++ [v] := by
  unfold addNode; simp only
  split
  · simp only [applyAll, nodeIds, List.map_map]
    apply List.map_congr_left; intro p _; simp only [Function.comp]; split <;> rfl
  · simp [applyAll, nodeIds]
theorem mem_nodeIds_addNode {g : MEG} {v x : Nat} {a : Attr} :
    x ∈ (g.addNode v a).nodeIds ↔ x ∈ g.nodeIds ∨ x = v := by
  rw [nodeIds_addNode]; split
  · rename_i h; have := hasNode_iff.1 h; grind
  · simp
theorem addNode_eq (g : MEG) (v : Nat) (a : Attr) :
    g.addNode v a = g.remap (g.addNode v a).nodes fun _ L => L.addNode v := by
  unfold addNode; simp only; split <;> rfl

theorem Inv.addNode {g : MEG} (h : g.Inv) (v : Nat) (a : Attr) : (g.addNode v a).Inv := by
  rw [addNode_eq]
  apply h.remap
  · show (g.addNode v a).nodeIds.Nodup
    rw [nodeIds_addNode]; split
    · exact h.nodup
    · rename_i hh
      have : v ∉ g.nodeIds := fun hc => hh (hasNode_iff.2 hc)
      simp only [List.nodup_append, List.nodup_cons, List.not_mem_nil, not_false_eq_true, List.nodup_nil,
        and_self, List.mem_cons, or_false, true_and]
      exact ⟨h.nodup, by grind⟩
  · intro p hp
    refine ⟨(h.wf p hp).addNode v, fun x => ?_⟩
    show _ ↔ x ∈ (g.addNode v a).nodeIds
    rw [Layer.mem_addNode, mem_nodeIds_addNode, h.sync p hp]

theorem Inv.addNodes {g : MEG} (h : g.Inv) (vs : List Nat) (a : Attr) : (g.addNodes vs a).Inv := by
  unfold MEG.addNodes
  induction vs generalizing g with
  | nil => exact h
  | cons v vs ih => exact ih (h.addNode v a)
theorem mem_nodeIds_addNodes {g : MEG} {vs : List Nat} {x : Nat} {a : Attr} :
    x ∈ (g.addNodes vs a).nodeIds ↔ x ∈ g.nodeIds ∨ x ∈ vs := by
  unfold addNodes
  induction vs generalizing g with
  | nil => simp
  | cons v vs ih => simp only [List.foldl_cons, ih, mem_nodeIds_addNode, List.mem_cons]; grind

theorem Inv.ensureNode {g : MEG} (h : g.Inv) (v : Nat) (a : Attr) : (g.ensureNode v a).Inv := by
  unfold MEG.ensureNode; split
  · exact h
  · exact h.addNode v a
theorem mem_nodeIds_ensureNode {g : MEG} {v x : Nat} {a : Attr} :
    x ∈ (g.ensureNode v a).nodeIds ↔ x ∈ g.nodeIds ∨ x = v := by
  unfold ensureNode; split
  · rename_i h; have := hasNode_iff.1 h; grind
  · exact mem_nodeIds_addNode

theorem filter_ids (l : List (Nat × Attr)) (p : Nat → Bool) :
    (l.filter fun q => p q.1).map (·.1) = (l.map (·.1)).filter p := by
  induction l with
  | nil => rfl
  | cons q l ih => simp only [List.filter_cons, List.map_cons]; split <;> simp [ih]

theorem Inv.removeNode {g : MEG} (h : g.Inv) (v : Nat) : (g.removeNode v).1.Inv := by
  unfold MEG.removeNode; split
  · simp only [applyAll_eq]
    apply inv_remap (g := { g with nodes := g.nodes.filter (·.1 != v) }) h.names
    · rw [filter_ids g.nodes (· != v)]; exact h.nodup.filter _
    · intro p hp
      rw [Layer.removeNode_eq _ _ (h.wf p hp)]
      refine ⟨(h.wf p hp).dropNode v, fun x => ?_⟩
      rw [Layer.mem_dropNode_nodes, h.sync p hp, filter_ids g.nodes (· != v)]
      simp [nodeIds, List.mem_filter]
  · exact h

theorem Inv.removeNodes {g : MEG} (h : g.Inv) (vs : List Nat) : (g.removeNodes vs).Inv := by
  unfold MEG.removeNodes
  simp only [applyAll_eq]
  apply inv_remap (g := { g with nodes := g.nodes.filter fun p => !vs.contains p.1 }) h.names
  · rw [filter_ids g.nodes (fun x => !vs.contains x)]; exact h.nodup.filter _
  · intro p hp
    refine ⟨(h.wf p hp).removeNodes vs, fun x => ?_⟩
    rw [Layer.mem_removeNodes_nodes, h.sync p hp, filter_ids g.nodes (fun x => !vs.contains x)]
    simp [nodeIds, List.mem_filter]

end MEG
end C02
