import Pw.C06.Full
import Pw.C06.DecProofs
import Pw.C07.DecProofs
open Closure

/-! # C06: the all-subsets oracle `inseparable` (run-time check of the adjacency clause) is correct,
and agrees with adjacency in the model's MAG -/
namespace C06
open MG

variable {G : MG} {L S : List Nat}

theorem inseparable_iff (hwf : G.WF) (hun : G.un = []) (hsl : NoSelfLoop G) {a b : Nat}
    (ha : a ∈ G.nodes) (haS : a ∉ S) (hSn : ∀ s ∈ S, s ∈ G.nodes) :
    inseparable G L S a b = true ↔ Inseparable G L S a b := by
  have hb := noUndirAtHead_of_un_nil G hun
  unfold inseparable Inseparable
  simp only [List.all_eq_true, Bool.not_eq_true']
  have hO : ∀ v, v ∈ (G.nodes.filter fun v => decide (v ∉ L) && decide (v ∉ S) && v != a && v != b) ↔
      (v ∈ G.nodes ∧ v ∉ L ∧ v ∉ S ∧ v ≠ a ∧ v ≠ b) := by
    intro v
    simp only [List.mem_filter, Bool.and_eq_true, decide_eq_true_eq, bne_iff_ne, and_assoc]
  have key : ∀ Z : List Nat, (∀ z ∈ Z, z ∈ G.nodes ∧ z ∉ L ∧ z ∉ S ∧ z ≠ a ∧ z ≠ b) →
      (mSeparated G [a] [b] (Z ++ S) = true ↔ MSep G [a] [b] (Z ++ S)) := by
    intro Z hZ
    apply mSeparated_iff_MSep G hwf hb hsl
    · intro x hx; rw [List.mem_singleton] at hx; subst hx; exact ha
    · intro z hz
      rcases List.mem_append.mp hz with hz | hz
      · exact (hZ z hz).1
      · exact hSn z hz
    · intro x hx hxz; rw [List.mem_singleton] at hx; subst hx
      rcases List.mem_append.mp hxz with hz | hz
      · exact (hZ x hz).2.2.2.1 rfl
      · exact haS hz
  constructor
  · intro h Z hZ hsep
    let O := G.nodes.filter fun v => decide (v ∉ L) && decide (v ∉ S) && v != a && v != b
    have hcongr : ∀ v, v ∈ O.filter (fun v => decide (v ∈ Z)) ↔ v ∈ Z := by
      intro v
      rw [List.mem_filter, decide_eq_true_eq, hO]
      exact ⟨fun h => h.2, fun hv => ⟨hZ v hv, hv⟩⟩
    have hcongr' : ∀ v, v ∈ O.filter (fun v => decide (v ∈ Z)) ++ S ↔ v ∈ Z ++ S := by
      intro v; simp only [List.mem_append, hcongr]
    have h1 := h _ (C07.filter_mem_subsets (fun v => decide (v ∈ Z)) O)
    have h2 := (key _ (fun z hz => hZ z ((hcongr z).mp hz))).mpr ((C07.mSep_congr hcongr' [a] [b]).mpr hsep)
    rw [h1] at h2; cases h2
  · intro h Z hZ
    have hmem : ∀ z ∈ Z, z ∈ G.nodes ∧ z ∉ L ∧ z ∉ S ∧ z ≠ a ∧ z ≠ b :=
      fun z hz => (hO z).mp (C07.subsets_sub _ Z hZ z hz)
    cases hm : mSeparated G [a] [b] (Z ++ S) with
    | false => rfl
    | true => exact absurd ((key Z hmem).mp hm) (h Z hmem)

/-- **adjacency clause with the executable oracle**: in the model's MAG two remaining nodes are
    adjacent iff the all-subsets decider finds no separating set -/
theorem dagToMag_adjacent_iff_inseparableDec (hwf : G.WF) (hun : G.un = []) (hcirc : G.circ = [])
    (no2 : ∀ a b, (a, b) ∈ G.dir → (b, a) ∉ G.dir) (hsl : NoSelfLoop G)
    (hSn : ∀ s ∈ S, s ∈ G.nodes) (hLS : ∀ v, v ∈ L → v ∉ S) {M : MG}
    (hM : dagToMag G L S = .ok M) {a b : Nat} (ha : a ∈ M.nodes) (hb : b ∈ M.nodes) (hab : a ≠ b) :
    C07.Adjacent M a b ↔ inseparable G L S a b = true := by
  have hs := dagToMag_structure (L := L) (S := S) hwf hun hcirc no2 hM
  obtain ⟨haG, _, haS⟩ := (hs.nodes a).mp ha
  rw [dagToMag_adjacent_iff_inseparable hwf hun hcirc no2 hsl hSn hLS hM ha hb hab,
    inseparable_iff hwf hun hsl haG haS hSn]

end C06
