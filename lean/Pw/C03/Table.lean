import Pw.C03.Model
/-! C03 — the complete 64-state (PAG) / 8-state (CPDAG) tables, by `decide`.

Every statement quantifies over *all* pair states and all edge types, so these are proofs, not
tests.  They are stated about `checkPag` / `checkCpdag` as *generated from the source*; the check
re-elaborates this file against the freshly generated guards on every run. -/
namespace C03

/-! ### PAG -/

/-- every accepted single addition of a named layer maps Good to Good -/
theorem addP_good (t : ET) (ht : t ≠ .all) (s : PBits) (hg : GoodP s = true)
    (ha : (addP t s).2 = false) : GoodP (addP t s).1 = true := by
  rcases s with ⟨a, b, c, d, e, f⟩
  cases t <;> first | exact absurd rfl ht | (revert a b c d e f; decide)

/-- a rejected addition leaves the pair exactly as it was (all 64 states, all types incl. 'all') -/
theorem addP_reject (t : ET) (s : PBits) (hr : (addP t s).2 = true) : (addP t s).1 = s := by
  rcases s with ⟨a, b, c, d, e, f⟩
  cases t <;> (revert a b c d e f; decide)

/-- the guard is exact on Good states: it rejects a named-layer addition iff the addition would
    create contradictory marks -/
theorem addP_exact (t : ET) (ht : t ≠ .all) (ho : t ≠ .other) (s : PBits) (hg : GoodP s = true) :
    ((addP t s).2 = false ↔ GoodP (rawAddP t s) = true) := by
  rcases s with ⟨a, b, c, d, e, f⟩
  cases t <;> first | exact absurd rfl ht | exact absurd rfl ho | (revert a b c d e f; decide)

theorem removeP_good (t : ET) (s : PBits) (hg : GoodP s = true) : GoodP (removeP t s).1 = true := by
  rcases s with ⟨a, b, c, d, e, f⟩
  cases t <;> (revert a b c d e f; decide)

theorem removeP_reject (t : ET) (s : PBits) (hr : (removeP t s).2 = true) : (removeP t s).1 = s := by
  rcases s with ⟨a, b, c, d, e, f⟩
  cases t <;> (revert a b c d e f; decide)

theorem removeSilentP_good (t : ET) (s : PBits) (hg : GoodP s = true) :
    GoodP (removeSilentP t s).1 = true := by
  rcases s with ⟨a, b, c, d, e, f⟩
  cases t <;> (revert a b c d e f; decide)

theorem removeSilentP_reject (t : ET) (s : PBits) (hr : (removeSilentP t s).2 = true) :
    (removeSilentP t s).1 = s := by
  rcases s with ⟨a, b, c, d, e, f⟩
  cases t <;> (revert a b c d e f; decide)

/-- orientation keeps the pair Good whether or not it raises -/
theorem orientP_good (s : PBits) (hg : GoodP s = true) : GoodP (orientP s).1 = true := by
  rcases s with ⟨a, b, c, d, e, f⟩
  revert a b c d e f; decide

/-- from a Good pair `orient_uncertain_edge` never raises half-way -/
theorem orientP_reject (s : PBits) (hg : GoodP s = true) (hr : (orientP s).2 = true) :
    (orientP s).1 = s := by
  rcases s with ⟨a, b, c, d, e, f⟩
  revert a b c d e f; decide

/-- from a Good pair it raises exactly when there is no circle at v to orient -/
theorem orientP_raises_iff (s : PBits) (hg : GoodP s = true) :
    ((orientP s).2 = true ↔ s.circle_uv = false) := by
  rcases s with ⟨a, b, c, d, e, f⟩
  revert a b c d e f; decide


/-- a successful orientation changes exactly the one mark it was asked to orient -/
theorem orientP_only (s : PBits) (hg : GoodP s = true) (ha : (orientP s).2 = false) :
    OrientOnlyP s (orientP s).1 := by
  rcases s with ⟨a, b, c, d, e, f⟩
  revert a b c d e f; decide

/-- `is_valid_mec_graph` accepts a pair iff it carries no contradictory marks (all 64 states) -/
theorem isValidP_eq_good (s : PBits) : isValidP s = GoodP s := by
  rcases s with ⟨a, b, c, d, e, f⟩
  revert a b c d e f; decide

/-! ### CPDAG -/

theorem addC_good (t : ET) (ht : t ≠ .all) (s : CBits) (hg : GoodC s = true)
    (ha : (addC t s).2 = false) : GoodC (addC t s).1 = true := by
  rcases s with ⟨a, b, c⟩
  cases t <;> first | exact absurd rfl ht | (revert a b c; decide)

theorem addC_reject (t : ET) (s : CBits) (hr : (addC t s).2 = true) : (addC t s).1 = s := by
  rcases s with ⟨a, b, c⟩
  cases t <;> (revert a b c; decide)

theorem addC_exact (t : ET) (ht : t = .directed ∨ t = .undirected) (s : CBits) (hg : GoodC s = true) :
    ((addC t s).2 = false ↔ GoodC (rawAddC t s) = true) := by
  rcases s with ⟨a, b, c⟩
  rcases ht with rfl | rfl <;> (revert a b c; decide)

theorem removeC_good (t : ET) (s : CBits) (hg : GoodC s = true) : GoodC (removeC t s).1 = true := by
  rcases s with ⟨a, b, c⟩
  cases t <;> (revert a b c; decide)

theorem removeC_reject (t : ET) (s : CBits) (hr : (removeC t s).2 = true) : (removeC t s).1 = s := by
  rcases s with ⟨a, b, c⟩
  cases t <;> (revert a b c; decide)

theorem removeSilentC_good (t : ET) (s : CBits) (hg : GoodC s = true) :
    GoodC (removeSilentC t s).1 = true := by
  rcases s with ⟨a, b, c⟩
  cases t <;> (revert a b c; decide)

theorem removeSilentC_reject (t : ET) (s : CBits) (hr : (removeSilentC t s).2 = true) :
    (removeSilentC t s).1 = s := by
  rcases s with ⟨a, b, c⟩
  cases t <;> (revert a b c; decide)

theorem orientC_good (s : CBits) (hg : GoodC s = true) : GoodC (orientC s).1 = true := by
  rcases s with ⟨a, b, c⟩
  revert a b c; decide

theorem orientC_reject (s : CBits) (hg : GoodC s = true) (hr : (orientC s).2 = true) :
    (orientC s).1 = s := by
  rcases s with ⟨a, b, c⟩
  revert a b c; decide

theorem orientC_raises_iff (s : CBits) (hg : GoodC s = true) :
    ((orientC s).2 = true ↔ s.un = false) := by
  rcases s with ⟨a, b, c⟩
  revert a b c; decide

theorem orientC_only (s : CBits) (hg : GoodC s = true) (ha : (orientC s).2 = false) :
    OrientOnlyC s (orientC s).1 := by
  rcases s with ⟨a, b, c⟩
  revert a b c; decide

theorem isValidC_eq_good (s : CBits) : isValidC s = GoodC s := by
  rcases s with ⟨a, b, c⟩
  revert a b c; decide

/-! ### `edge_type='all'` (known finding C03-all-bypasses-guards): the default edge type of
`add_edge` is accepted on an empty pair and stores an entry in every layer -/

theorem C03_counterexample_all_pag :
    ¬ (∀ s : PBits, GoodP s = true → (addP .all s).2 = false → GoodP (addP .all s).1 = true) := by
  intro h; exact absurd (h PBits.empty (by decide) (by decide)) (by decide)

theorem C03_counterexample_all_cpdag :
    ¬ (∀ s : CBits, GoodC s = true → (addC .all s).2 = false → GoodC (addC .all s).1 = true) := by
  intro h; exact absurd (h CBits.empty (by decide) (by decide)) (by decide)

/-- … and it is *never* right: whenever 'all' is accepted the result carries contradictory marks -/
theorem addP_all_never_good (s : PBits) (ha : (addP .all s).2 = false) : GoodP (addP .all s).1 = false := by
  rcases s with ⟨a, b, c, d, e, f⟩
  revert a b c d e f; decide

theorem addC_all_never_good (s : CBits) (ha : (addC .all s).2 = false) : GoodC (addC .all s).1 = false := by
  rcases s with ⟨a, b, c⟩
  revert a b c; decide

end C03
