import Pw.C09.Cond
import Pw.C08.Examples
open Closure

/-! # C09: non-vacuity examples and a kernel-evaluated instance (test) -/
namespace C09
open MG C08

/-- `0 o-> 1 o-o 2`, isolated node `3`, `2 <-> 4` -/
def exPag : MG :=
  { nodes := [0, 1, 2, 3, 4], dir := [(0, 1)], circ := [(1, 0), (1, 2), (2, 1)], bi := [(2, 4)] }

/-- test (kernel evaluation of the model): circles gone, `<->` and the isolated node kept -/
theorem exPag_result : pagToMag exPag [0, 1, 2, 3, 4] =
    { nodes := [0, 1, 2, 3, 4], dir := [(0, 1), (2, 1)], bi := [(2, 4)], un := [], circ := [] } := by
  decide +kernel

/-- instance of `pagToMag_structural` on a PAG with every kind of clause exercised -/
example : Structural exPag (pagToMag exPag [0, 1, 2, 3, 4]) :=
  pagToMag_structural exPag _ (by decide)

/-- the circle mark at `0` of `0 o-> 1` became a tail, the arrowhead at `1` is kept (read off the result) -/
example : markAt exPag 1 0 = some .circle ∧ markAt (pagToMag exPag [0, 1, 2, 3, 4]) 1 0 = some .tail ∧
    markAt exPag 0 1 = some .head ∧ markAt (pagToMag exPag [0, 1, 2, 3, 4]) 0 1 = some .head := by
  rw [exPag_result]; decide

/-- non-vacuity of the hypotheses of `pagToMag_circle_component_of_T3` (other than Meek's theorem
    itself): the `o-o` component of `exPag` has an orientation without unshielded colliders -/
example : [0, 1, 2, 3, 4].Nodup ∧ (∀ v ∈ (tempCpdag (classify exPag)).nodes, v ∈ [0, 1, 2, 3, 4]) ∧
    ∃ D, ConsistentExt (tempCpdag (classify exPag)) D := by
  have hT : tempCpdag (classify exPag) = { nodes := [2, 1], un := [(2, 1)] } := by decide
  rw [hT]
  refine ⟨by decide, by simp, ⟨{ nodes := [2, 1], dir := [(1, 2)] }, ?_⟩⟩
  exact {
    nodes := rfl
    noUn := rfl
    acyclic := acyclic_of_rank id (by simp)
    skel := by intro a b; simp [Skel]; omega
    dir := by simp
    vstruct := by intro a c b; simp [VStruct, Skel]; omega }

end C09
