import Pw.Driver

partial def loop (hin hout : IO.FS.Stream) : IO Unit := do
  let line ← hin.getLine
  if line.isEmpty then return ()
  hout.putStrLn (dispatch line)
  hout.flush
  loop hin hout

def main : IO Unit := do
  let hin ← IO.getStdin
  let hout ← IO.getStdout
  loop hin hout
  hout.flush
