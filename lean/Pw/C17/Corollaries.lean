import Pw.C17.Literal
open Closure C16

/-! # C17: corollaries that spell out the remaining clauses of the property -/
namespace C17

/-- members of the definition are neither `x` nor `y` -/
theorem PdsDef.ne {G : MG} {x : Nat} {y : Option Nat} {v : Nat} (h : PdsDef G x y v) : v ≠ x ∧ some v ≠ y := by
  obtain ⟨-, p, ⟨⟨-, hnd, -⟩, hh, hlen, hav, -⟩, hlast⟩ := h
  match p, hh, hlen with
  | a :: l, hh, hlen =>
    simp only [List.head?_cons, Option.some.injEq] at hh
    subst hh
    rw [getLast?_cons_eq_lastOf] at hlast
    have hv : lastOf a l = v := Option.some.inj hlast
    have hne : l ≠ [] := by intro e; subst e; simp at hlen
    refine ⟨hv ▸ lastOf_ne_of_nodup hne hnd, ?_⟩
    intro e
    exact hav v e.symm (hv ▸ lastOf_mem)

/-- ★ the intended search returns neither `x` nor `y` -/
theorem pdsW_ne {G : MG} (hw : WF G) (hl : NoLoop G) {x : Nat} (hx : x ∈ G.nodes) {y : Option Nat} {v : Nat}
    (h : v ∈ pdsW G x y) : v ≠ x ∧ some v ≠ y := by
  obtain ⟨-, l, hne, -, hlast, hxl, hav, -⟩ := (mem_pdsW_iff_walk hw hl hx v).mp h
  have hm : v ∈ l := hlast ▸ lastOf_mem_tail hne
  exact ⟨fun e => hxl (e ▸ hm), fun e => hav v e.symm hm⟩

/-- ★ "empty when y is not connected to x" – for the intended search, the code as it is, and the definition -/
theorem pdsW_empty_of_not_conn {G : MG} (hw : WF G) (hl : NoLoop G) {x y : Nat} (hx : x ∈ G.nodes)
    (hc : ¬ Conn G x y) (v : Nat) : v ∉ pdsW G x (some y) :=
  fun h => hc (((mem_pdsW_iff_walk hw hl hx v).mp h).1 y rfl)

theorem pds_empty_of_not_conn {G : MG} (hw : WF G) {x y : Nat} (hx : x ∈ G.nodes) (hc : ¬ Conn G x y) (v : Nat) :
    v ∉ pds G x (some y) :=
  fun h => hc ((mem_pds_imp hw hx h).1 y rfl)

theorem pdsDef_empty_of_not_conn {G : MG} {x y : Nat} (hc : ¬ Conn G x y) (v : Nat) : ¬ PdsDef G x (some y) v :=
  fun h => hc (h.1 y rfl)

/-- ★ the code as it is returns a subset of what the intended search returns -/
theorem pds_subset_pdsW {G : MG} (hw : WF G) (hl : NoLoop G) {x : Nat} (hx : x ∈ G.nodes) {y : Option Nat}
    (hxy : some x ≠ y) {v : Nat} (h : v ∈ pds G x y) : v ∈ pdsW G x y :=
  pdsDef_subset_pdsW hw hl hx (pds_subset_pdsDef hw hl hx hxy h)

/-- ★ `pds_path` is empty when `x` and `y` are not adjacent (no component contains the edge) -/
theorem pdsPath_empty_of_not_adj {G : MG} {x y : Nat} (hx : x ∈ G.nodes) (ha : ¬ Adj G x y) (v : Nat) :
    v ∉ pdsPath G x y :=
  fun h => ha ((mem_pdsPath hx v).mp h).2.1

/-- the sandwich the harness re-checks on every case: literal model ⊆ definition ⊆ intended search -/
theorem sandwich {G : MG} (hw : WF G) (hl : NoLoop G) {x : Nat} (hx : x ∈ G.nodes) {y : Option Nat}
    (hxy : some x ≠ y) (v : Nat) :
    (v ∈ pds G x y → v ∈ pdsDec G x y) ∧ (v ∈ pdsDec G x y → v ∈ pdsW G x y) := by
  rw [mem_pdsDec hw hx]
  exact ⟨pds_subset_pdsDef hw hl hx hxy, pdsDef_subset_pdsW hw hl hx⟩

end C17
