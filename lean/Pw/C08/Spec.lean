import Pw.C01.Guard
import Pw.C08.Model
open Closure

/-! # C08 specification: consistent extensions, compelled edges, patterns, essential graph

A PDAG is an `MG` using the layers `dir` and `un`.  Interpretation choice 4 of DESIGN §6: the
v-structures of a PDAG are its directed–directed unshielded colliders; skeleton = adjacency in any
layer. -/
namespace C08
open MG

/-- adjacency in the skeleton -/
def Skel (G : MG) (a b : Nat) : Prop :=
  (a, b) ∈ G.dir ∨ (b, a) ∈ G.dir ∨ (a, b) ∈ G.un ∨ (b, a) ∈ G.un

/-- `a -> c <- b` with `a`, `b` distinct and non-adjacent -/
def VStruct (G : MG) (a c b : Nat) : Prop :=
  (a, c) ∈ G.dir ∧ (b, c) ∈ G.dir ∧ a ≠ b ∧ ¬ Skel G a b

/-- `D` is a consistent DAG extension of the PDAG `P`: a DAG on P's nodes with P's skeleton that
    keeps P's directed edges and has exactly P's v-structures. -/
structure ConsistentExt (P D : MG) : Prop where
  nodes : D.nodes = P.nodes
  noUn : D.un = []
  acyclic : Acyclic D
  skel : ∀ a b, Skel D a b ↔ Skel P a b
  dir : ∀ e ∈ P.dir, e ∈ D.dir
  vstruct : ∀ a c b, VStruct D a c b ↔ VStruct P a c b

/-- `a -> b` holds in every consistent extension -/
def Compelled (P : MG) (a b : Nat) : Prop := ∀ D, ConsistentExt P D → (a, b) ∈ D.dir

/-- at most one edge kind per pair (what the `CPDAG` class guards maintain, C03) -/
def Simple (G : MG) : Prop := ∀ a b, (a, b) ∈ G.dir → (a, b) ∉ G.un ∧ (b, a) ∉ G.un

/-- `D` is a DAG: no undirected edge, acyclic -/
structure IsDAG (D : MG) : Prop where
  noUn : D.un = []
  acyclic : Acyclic D

/-- `Pt` is the pattern of the DAG `D`: same nodes and skeleton, exactly the v-structure edges directed -/
structure IsPattern (D Pt : MG) : Prop where
  nodes : Pt.nodes = D.nodes
  skel : ∀ a b, Skel Pt a b ↔ Skel D a b
  dirIff : ∀ a c, (a, c) ∈ Pt.dir ↔ ∃ b, VStruct D a c b
  simple : Simple Pt

/-- `E` is the essential graph (CPDAG) of the DAG `D`: same nodes and skeleton; an edge is directed
    iff it is compelled, i.e. has this orientation in every DAG Markov equivalent to `D`
    (= every consistent extension of the pattern of `D`). -/
structure IsEssential (D Pt E : MG) : Prop where
  nodes : E.nodes = D.nodes
  skel : ∀ a b, Skel E a b ↔ Skel D a b
  dirIff : ∀ a b, (a, b) ∈ E.dir ↔ (Skel D a b ∧ Compelled Pt a b)
  simple : Simple E

/-! ## Textbook Meek rules, stated declaratively (for the conditional completeness theorem) -/

def HasUn (G : MG) (a b : Nat) : Prop := (a, b) ∈ G.un ∨ (b, a) ∈ G.un

/-- R1: `k -> i - j`, `k`, `j` non-adjacent -/
def R1 (G : MG) (i j : Nat) : Prop := ∃ k, (k, i) ∈ G.dir ∧ ¬ Skel G k j
/-- R2: `i -> k -> j` -/
def R2 (G : MG) (i j : Nat) : Prop := ∃ k, (i, k) ∈ G.dir ∧ (k, j) ∈ G.dir
/-- R3: `i - k -> j`, `i - l -> j`, `k ≠ l` non-adjacent -/
def R3 (G : MG) (i j : Nat) : Prop :=
  ∃ k l, k ≠ l ∧ HasUn G i k ∧ HasUn G i l ∧ (k, j) ∈ G.dir ∧ (l, j) ∈ G.dir ∧ ¬ Skel G k l
/-- R4: `i - k -> l -> j`, `k`, `j` non-adjacent and distinct -/
def R4 (G : MG) (i j : Nat) : Prop :=
  ∃ k l, k ≠ j ∧ HasUn G i k ∧ (k, l) ∈ G.dir ∧ (l, j) ∈ G.dir ∧ ¬ Skel G k j

/-- no rule among R1–R4 applies to any undirected edge -/
def MeekClosed (G : MG) : Prop :=
  ∀ i j, HasUn G i j → ¬ R1 G i j ∧ ¬ R2 G i j ∧ ¬ R3 G i j ∧ ¬ R4 G i j

/-- **T3 (Meek 1995, Thm 3/4), as a hypothesis.**  If `G` arises from a PDAG `P` that has a consistent
    extension by orienting undirected edges only, all of them compelled, and no rule R1–R4 applies
    any more, then no remaining undirected edge of `G` is compelled in `P` in either direction. -/
def MeekT3 : Prop :=
  ∀ P G : MG, Simple P → (∃ D, ConsistentExt P D) →
    G.nodes = P.nodes → (∀ a b, Skel G a b ↔ Skel P a b) → Simple G →
    (∀ e ∈ P.dir, e ∈ G.dir) → (∀ e ∈ G.dir, e ∈ P.dir ∨ Compelled P e.1 e.2) →
    MeekClosed G → ∀ a b, HasUn G a b → ¬ Compelled P a b

end C08
