import Pw.C13.History

/-! # C13 — `copy()` of the StationaryTimeSeriesCPDAG (the class with a mark guard)

`StationaryTimeSeriesCPDAG.copy()` re-adds every adjacency entry into lag 0 through the *guarded*
public `add_edge` (`_check_adding_cpdag_edge`).  The copy is equal to the original as soon as the
original carries no directed edge together with an undirected or an opposite directed edge on a node
pair (`NoConf`, property C03's invariant for CPDAGs, stated on the node-level edge lists of the C13
model).  This file proves

* `copy_same_guarded` – the copy clause for any mixed-edge class whose guard accepts the re-added
  candidates in every graph that lies *below* the original (`Below`);
* `copy_same_cpdag` – the instance for the CPDAG guard from `NoConf`.

The reachable-state part (the guard keeps `NoConf` along histories) is in `Pw/C13/CpdagInv.lean`. -/
namespace C13

/-! ## layers by index -/

theorem getElem?_mapSel (sel : Sel) (f : Layer → Layer) : ∀ (ls : List Layer) (k j : Nat),
    (mapSel sel f k ls)[j]? = (ls[j]?).map (fun L => if selHas sel (k + j) then f L else L)
  | [], _, _ => by simp [mapSel]
  | L :: r, k, 0 => by simp [mapSel]
  | L :: r, k, j + 1 => by
    simp only [mapSel, List.getElem?_cons_succ]
    rw [getElem?_mapSel sel f r (k + 1) j, show k + 1 + j = k + (j + 1) by omega]

theorem layerEdges_eq (s : St) (i : Nat) :
    layerEdges s i = match s.layers[i]? with | some L => L.edges | none => [] := by
  unfold layerEdges
  rw [List.getD_eq_getElem?_getD]
  cases s.layers[i]? <;> rfl

theorem layerEdges_of_get {s : St} {i : Nat} {L : Layer} (h : s.layers[i]? = some L) :
    layerEdges s i = L.edges := by rw [layerEdges_eq, h]

/-- `t` has the same edge types as `s` and, per edge type, only edges of `s` -/
def Below (t s : St) : Prop :=
  t.layers.length = s.layers.length ∧
  ∀ (i : Nat) (T L : Layer), t.layers[i]? = some T → s.layers[i]? = some L → T.kind = L.kind ∧ ∀ e ∈ T.edges, e ∈ L.edges

theorem Below.mem {t s : St} (h : Below t s) {j : Nat} {e : Edge} (he : e ∈ layerEdges t j) :
    e ∈ layerEdges s j := by
  rw [layerEdges_eq] at he
  cases hT : t.layers[j]? with
  | none => simp [hT] at he
  | some T =>
    simp only [hT] at he
    have hj : j < s.layers.length := by
      rw [← h.1]; exact (List.getElem?_eq_some_iff.1 hT).1
    have hL : s.layers[j]? = some s.layers[j] := List.getElem?_eq_getElem hj
    rw [layerEdges_of_get hL]
    exact (h.2 j T _ hT hL).2 e he

/-! ## the copies of a candidate of the copy loop are edges of the original -/

theorem copies_cand_sub {nodes : List Node} {m : Nat} {mixed : Bool} {L : Layer} (hc : Complete nodes m)
    (hL : LayerInv nodes m L) {e p : Edge} (he : e ∈ copyCands mixed L) (hp : p ∈ copies L.kind m e) :
    p ∈ L.edges := by
  obtain ⟨h1, h2, h3, h4⟩ := hL
  have hw := inWin_of hc h1
  rw [mem_copyCands] at he
  obtain ⟨hmem, hfil⟩ := he
  have key : ∃ e' ∈ L.edges, copies L.kind m e = copies L.kind m e' := by
    rcases hmem with hmem | ⟨hk, hmem⟩
    · exact ⟨e, hmem, rfl⟩
    · refine ⟨swap e, hmem, ?_⟩
      obtain ⟨⟨x, a⟩, ⟨y, b⟩⟩ := e
      have hfw := h3 y b x a (by simpa [swap] using hmem)
      have hab : a = b := by
        cases mixed <;> simp at hfil <;> omega
      simp only [hk, copies, canonUnd_swap_of_eq_lag (e := ((x, a), (y, b))) hab]
  obtain ⟨e', he', hcp⟩ := key
  rw [hcp] at hp
  obtain ⟨⟨x, a⟩, ⟨y, b⟩⟩ := e'
  have hf := h3 x a y b he'
  obtain ⟨hwa, hwb⟩ := hw _ he'
  by_cases hk : L.kind = .und
  · rw [hk, mem_copies_und, h4 hk _ he'] at hp
    obtain ⟨i, hi, rfl⟩ := hp
    exact h2 x a y b he' _ _ (by simp at hi ⊢; omega) (by simp at hi ⊢; omega) (by simp; omega)
  · rw [mem_copies_fwd hk hf] at hp
    obtain ⟨i, hi, rfl⟩ := hp
    exact h2 x a y b he' _ _ (by simp at hi ⊢; omega) (by simp at hi ⊢; omega) (by simp; omega)

/-! ## one guarded `add_edge` of the copy loop -/

theorem addEdgeMixed_copy {cfg : Cfg} {t : St} (hi : Inv t) {i : Nat} (hsel : i < t.layers.length)
    {e : Edge} (h1 : e.1 ∈ t.nodes) (h2 : e.2 ∈ t.nodes) (hf : e.2.2 ≤ e.1.2)
    (hgb : guardBad cfg t (.one i) (tnode e.1) (tnode e.2) = false) :
    addEdgeMixed cfg t (.one i) (tnode e.1) (tnode e.2) =
      ({ t with layers := mapSel (.one i) (·.add t.maxLag (tnode e.1) (tnode e.2)) 0 t.layers }, false) := by
  obtain ⟨⟨x, a⟩, ⟨y, b⟩⟩ := e
  have hw1 := (hi.1 x a h1).1
  have hw2 := (hi.1 y b h2).1
  have hok : okEdge t.maxLag (tnode (x, a)) (tnode (y, b)) = true :=
    okEdge_tnode (e := ((x, a), (y, b))) hw1 hw2 hf
  have e1 : ensureNode t (tnode (x, a)) = some t := by simp [ensureNode, hasNode_tnode h1]
  have e2 : ensureNode t (tnode (y, b)) = some t := by simp [ensureNode, hasNode_tnode h2]
  have hs : selOk t.layers.length (.one i) = true := by simp [selOk, hsel]
  simp only [addEdgeMixed, hgb, e1, e2, hs, hok, Bool.false_eq_true, if_false, Bool.not_true]

/-- the inner loop of `copy()` for one edge type of a mixed-edge class with a guard -/
theorem foldAdd_guarded {cfg : Cfg} (hm : cfg.mixed = true) {s : St} (hs : Inv s) {i : Nat} {L0 : Layer}
    (hL0 : s.layers[i]? = some L0)
    (hG : ∀ t, Below t s → ∀ e ∈ copyCands true L0,
      guardBad cfg t (.one i) (tnode e.1) (tnode e.2) = false) :
    ∀ (es : List Edge) (t : St), Inv t → t.maxLag = s.maxLag → Below t s →
    (∀ e ∈ es, e ∈ copyCands true L0 ∧ e.1 ∈ t.nodes ∧ e.2 ∈ t.nodes) →
    ∃ t', foldAdd cfg i (t, false) es = (t', false) ∧ t'.maxLag = t.maxLag ∧
      (∀ n, n ∈ t'.nodes ↔ n ∈ t.nodes) ∧ Inv t' ∧ Below t' s ∧
      t'.layers = mapSel (.one i)
        (fun L => es.foldl (fun L e => L.add t.maxLag (tnode e.1) (tnode e.2)) L) 0 t.layers
  | [], t, hi, _, hb, _ => ⟨t, rfl, rfl, fun _ => Iff.rfl, hi, hb, by simp [mapSel_id]⟩
  | e :: es, t, hi, hmt, hb, hes => by
    obtain ⟨hcand, h1, h2⟩ := hes e (List.mem_cons_self ..)
    have hLi : LayerInv s.nodes s.maxLag L0 := hs.2 L0 (List.mem_of_getElem? hL0)
    have hf : e.2.2 ≤ e.1.2 := (copyCands_ends hLi hcand).2.2
    have hsel : i < t.layers.length := by
      rw [hb.1]; exact (List.getElem?_eq_some_iff.1 hL0).1
    have hadd := addEdgeMixed_copy (cfg := cfg) hi hsel h1 h2 hf (hG t hb e hcand)
    have ht1 : addEdge cfg t (.one i) (tnode e.1) (tnode e.2) =
        ({ t with layers := mapSel (.one i) (·.add t.maxLag (tnode e.1) (tnode e.2)) 0 t.layers }, false) := by
      unfold addEdge; simp only [hm, if_true]; exact hadd
    have hi1 : Inv ({ t with layers := mapSel (.one i) (·.add t.maxLag (tnode e.1) (tnode e.2)) 0 t.layers } : St) := by
      have := inv_addEdge cfg hi (.one i) (tnode e.1) (tnode e.2)
      rw [ht1] at this; exact this
    have hb1 : Below ({ t with layers := mapSel (.one i) (·.add t.maxLag (tnode e.1) (tnode e.2)) 0 t.layers } : St) s := by
      refine ⟨by simp only [mapSel_length]; exact hb.1, ?_⟩
      intro j T L hT hL
      simp only [getElem?_mapSel, Nat.zero_add] at hT
      cases hT0 : t.layers[j]? with
      | none => simp [hT0] at hT
      | some T0 =>
        simp only [hT0, Option.map_some, Option.some.injEq] at hT
        obtain ⟨hk0, hsub0⟩ := hb.2 j T0 L hT0 hL
        by_cases hij : i = j
        · subst hij
          have hLL : L = L0 := by rw [hL0] at hL; exact (Option.some.inj hL).symm
          subst hLL
          simp only [selHas, beq_self_eq_true, if_true] at hT
          subst hT
          refine ⟨hk0, ?_⟩
          intro p hp
          simp only [Layer.add, mem_union, toNode_tnode] at hp
          rcases hp with hp | hp
          · exact hsub0 p hp
          · rw [hk0, hmt] at hp
            exact copies_cand_sub hs.1 hLi hcand hp
        · have : (i == j) = false := by simpa using hij
          simp only [selHas, this, Bool.false_eq_true, if_false] at hT
          subst hT
          exact ⟨hk0, hsub0⟩
    obtain ⟨t2, ht2, hm2, hn2, hi2, hb2, hl2⟩ := foldAdd_guarded hm hs hL0 hG es _ hi1 hmt hb1
      (fun e' he' => by
        obtain ⟨a, b, c⟩ := hes e' (List.mem_cons_of_mem _ he')
        exact ⟨a, b, c⟩)
    refine ⟨t2, ?_, hm2, hn2, hi2, hb2, ?_⟩
    · simp only [foldAdd, ht1, ht2]
    · rw [hl2, mapSel_comp]
      rfl

/-- all edge types -/
theorem copyLayers_guarded {cfg : Cfg} (hm : cfg.mixed = true) {s : St} (hs : Inv s)
    (hG : ∀ t, Below t s → ∀ i L0, s.layers[i]? = some L0 → ∀ e ∈ copyCands true L0,
      guardBad cfg t (.one i) (tnode e.1) (tnode e.2) = false) :
    ∀ (Ls : List Layer) (i : Nat) (t : St), Inv t → t.maxLag = s.maxLag → Below t s →
    (∀ k L0, Ls[k]? = some L0 → s.layers[i + k]? = some L0) → (∀ n, n ∈ t.nodes ↔ n ∈ s.nodes) →
    ∃ t', copyLayers cfg i (t, false) Ls = (t', false) ∧ t'.maxLag = t.maxLag ∧
      (∀ n, n ∈ t'.nodes ↔ n ∈ t.nodes) ∧ t'.layers = copyLoop cfg.mixed t.maxLag i Ls t.layers
  | [], _, t, _, _, _, _, _ => ⟨t, rfl, rfl, fun _ => Iff.rfl, rfl⟩
  | L0 :: Ls, i, t, hi, hmt, hb, hidx, hn => by
    have hL0 : s.layers[i]? = some L0 := by simpa using hidx 0 L0 (by simp)
    have hLi : LayerInv s.nodes s.maxLag L0 := hs.2 L0 (List.mem_of_getElem? hL0)
    obtain ⟨t1, ht1, hm1, hn1, hi1, hb1, hl1⟩ := foldAdd_guarded hm hs hL0
      (fun t hb e he => hG t hb i L0 hL0 e he) (copyCands true L0) t hi hmt hb
      (fun e he => by
        obtain ⟨a, b, _⟩ := copyCands_ends hLi he
        exact ⟨he, (hn _).2 a, (hn _).2 b⟩)
    obtain ⟨t2, ht2, hm2, hn2, hl2⟩ := copyLayers_guarded hm hs hG Ls (i + 1) t1 hi1 (by rw [hm1, hmt]) hb1
      (fun k L hk => by
        have := hidx (k + 1) L (by simpa using hk)
        rwa [show i + (k + 1) = i + 1 + k by omega] at this)
      (fun n => (hn1 n).trans (hn n))
    refine ⟨t2, ?_, by rw [hm2, hm1], fun n => (hn2 n).trans (hn1 n), ?_⟩
    · simp only [copyLayers, hm, ht1, ht2]
    · rw [hl2, hl1, hm1, hm]; rfl

/-- **copy clause for a mixed-edge class with a mark guard**: if the guard accepts every candidate of
the copy loop in every graph below the original, `copy()` does not raise and returns an equal graph -/
theorem copy_same_guarded (cfg : Cfg) (hm : cfg.mixed = true) (s : St) (hi : Inv s)
    (hG : ∀ t, Below t s → ∀ i L0, s.layers[i]? = some L0 → ∀ e ∈ copyCands true L0,
      guardBad cfg t (.one i) (tnode e.1) (tnode e.2) = false) :
    (copy cfg s).2 = false ∧ Same (copy cfg s).1 s := by
  refine copy_same_of_loop cfg s hi (fun s1 hi1 hm1 hl1 hn1 => ?_)
  have hb : Below s1 s := by
    refine ⟨by rw [hl1]; simp, ?_⟩
    intro j T L hT hL
    rw [hl1, List.getElem?_map, hL] at hT
    simp only [Option.map_some, Option.some.injEq] at hT
    subst hT
    exact ⟨rfl, fun e he => by simp at he⟩
  exact copyLayers_guarded hm hi hG s.layers 0 s1 hi1 hm1 hb (fun k L hk => by simpa using hk) hn1

/-! ## the CPDAG -/

/-- property C03's CPDAG invariant on the node-level edge lists: no node pair carries a directed edge
together with an opposite directed edge or an undirected edge (layer 0 = directed, layer 1 =
undirected; an undirected edge is looked up in both orientations like `nx.Graph.has_edge`) -/
def NoConf (s : St) : Prop :=
  ∀ p q, (p, q) ∈ layerEdges s 0 →
    (q, p) ∉ layerEdges s 0 ∧ (p, q) ∉ layerEdges s 1 ∧ (q, p) ∉ layerEdges s 1

/-- the two edge types of a CPDAG -/
def Shape (s : St) : Prop := s.layers.map (·.kind) = [.dir, .und]

theorem Shape.layers {s : St} (h : Shape s) :
    s.layers = [⟨.dir, layerEdges s 0⟩, ⟨.und, layerEdges s 1⟩] := by
  unfold Shape at h
  unfold layerEdges
  match hl : s.layers, h with
  | [⟨k0, D⟩, ⟨k1, U⟩], h =>
    simp only [List.map_cons, List.map_nil, List.cons.injEq, and_true] at h
    obtain ⟨rfl, rfl⟩ := h
    rfl

theorem hasDir_tnode (E : List Edge) (a b : Node) : hasDir E (tnode a) (tnode b) = E.contains (a, b) := by
  have h1 : (tnode a).2 ≤ 0 := by simp only [tnode]; omega
  have h2 : (tnode b).2 ≤ 0 := by simp only [tnode]; omega
  simp [hasDir, toNode_tnode, h1, h2]

/-- in a graph below a conflict-free CPDAG the guard accepts every candidate of the copy loop -/
theorem guard_cpdag_copy {s : St} (hk : Shape s) (hc : NoConf s) :
    ∀ t, Below t s → ∀ i L0, s.layers[i]? = some L0 → ∀ e ∈ copyCands true L0,
      guardBad cfgCpdag t (.one i) (tnode e.1) (tnode e.2) = false := by
  intro t hb i L0 hL0 e he
  have hl := hk.layers
  obtain ⟨p, q⟩ := e
  rw [mem_copyCands] at he
  obtain ⟨hmem, -⟩ := he
  match i with
  | 0 =>
    rw [hl] at hL0
    simp only [List.getElem?_cons_zero, Option.some.injEq] at hL0
    subst hL0
    simp only [reduceCtorEq, false_and, or_false] at hmem
    obtain ⟨h1, h2, h3⟩ := hc p q hmem
    simp only [guardBad, cfgCpdag, hasUnd, hasDir_tnode, Bool.or_eq_false_iff, List.contains_eq_mem,
      decide_eq_false_iff_not]
    exact ⟨⟨fun h => h2 (hb.mem h), fun h => h3 (hb.mem h)⟩, fun h => h1 (hb.mem h)⟩
  | 1 =>
    rw [hl] at hL0
    simp only [List.getElem?_cons_succ, List.getElem?_cons_zero, Option.some.injEq] at hL0
    subst hL0
    simp only [guardBad, cfgCpdag, hasDir_tnode, Bool.or_eq_false_iff, List.contains_eq_mem,
      decide_eq_false_iff_not]
    constructor
    · intro h
      obtain ⟨_, h2, h3⟩ := hc p q (hb.mem h)
      rcases hmem with hmem | ⟨_, hmem⟩
      · exact h2 hmem
      · exact h3 (by simpa [swap] using hmem)
    · intro h
      obtain ⟨_, h2, h3⟩ := hc q p (hb.mem h)
      rcases hmem with hmem | ⟨_, hmem⟩
      · exact h3 hmem
      · exact h2 (by simpa [swap] using hmem)
  | _ + 2 => simp [guardBad, cfgCpdag]

/-- **C13, copy clause for the StationaryTimeSeriesCPDAG**: in every state that satisfies the C13
invariant and carries no directed/undirected or directed/opposite-directed conflict (C03's CPDAG
invariant), `copy()` – which re-adds the edges through the mark guard – does not raise and returns a
graph with the same nodes, max_lag and edges of both edge types. -/
theorem copy_same_cpdag (s : St) (hi : Inv s) (hk : Shape s) (hc : NoConf s) :
    (copy cfgCpdag s).2 = false ∧ Same (copy cfgCpdag s).1 s :=
  copy_same_guarded cfgCpdag rfl s hi (guard_cpdag_copy hk hc)

end C13
