import Pw.Core.Proto
import Pw.C18.Model
open Proto

/-! C18 driver requests

`updp <graph> O=<a-b,…> u= c= [first=] [second=] [forbid=] fc=0|1 [p=<path of the implementation>]`
  → `m=<T|F|err:…>:<model path> ex=<T|F> v=<T|F|->`
`disc <graph> O=<a-b,…> BO=<a-b,…> u= a= c= [p=…]` → same format plus `w=` (validation against `DiscPathWeak`)

`O` lists, per node a, its neighbours b in the iteration order of `graph.neighbors(a)`; `BO` the
iteration order of the bidirected layer.  Without `O`/`BO` ascending / storage order is used.
`ex` is the brute-force decider of the specification, `v` validates the implementation's path `p`
against the specification (`-` when no path is given). -/
namespace C18

def ordOf (ps : List (Nat × Nat)) (a : Nat) : List Nat := (ps.filter (·.1 == a)).map (·.2)

def dashPath (s : String) : List Nat := (s.splitOn "-").filterMap (·.toNat?)

def queryOf (a : Args) : Query :=
  { u := a.nat "u", c := a.nat "c", first := a.nat? "first", second := a.nat? "second",
    forbid := a.nat? "forbid", fc := a.nat "fc" == 1 }

def handleUpdp : Handler := fun a =>
  let G := a.graph
  let q := queryOf a
  let nb := if a.has "O" then ordOf (a.pairs "O") else nbDefault G
  let m := match uncovPdPath G nb q with
    | .ok (p, f) => fmtBool f ++ ":" ++ fmtPath p
    | .error e => "err:" ++ e ++ ":"
  let ex := fmtBool (uncovExists G q)
  let v := if a.has "p" then fmtBool (decide (UncovPd G q (dashPath (a.get "p")))) else "-"
  "m=" ++ m ++ " ex=" ++ ex ++ " v=" ++ v

def handleDisc : Handler := fun a =>
  let G := a.graph
  let (u, x, c) := (a.nat "u", a.nat "a", a.nat "c")
  let nb := if a.has "O" then ordOf (a.pairs "O") else nbDefault G
  let bnb := if a.has "BO" then ordOf (a.pairs "BO") else bnbDefault G
  let m := match discPath G nb bnb u x c with
    | .ok (f, p, _) => fmtBool f ++ ":" ++ fmtPath p
    | .error e => "err:" ++ e ++ ":"
  let ex := fmtBool (discExists G u x c)
  let v := if a.has "p" then fmtBool (decide (DiscPath G u x c (dashPath (a.get "p")))) else "-"
  let w := if a.has "p" then fmtBool (decide (DiscPathWeak G u x c (dashPath (a.get "p")))) else "-"
  "m=" ++ m ++ " ex=" ++ ex ++ " v=" ++ v ++ " w=" ++ w

def handlers : List (String × Handler) := [("updp", handleUpdp), ("disc", handleDisc)]
end C18
