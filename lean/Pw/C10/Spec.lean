import Pw.C10.Model
import Pw.C01.Spec
open Closure

/-! # C10 specification

"bidirected_to_unobserved_confounder(G) returns a DAG that contains G's nodes with their attributes
and G's directed edges and, for each bidirected edge, one new parentless node distinct from all
existing nodes whose only children are that edge's two endpoints.  For all disjoint sets of original
nodes, d-separation in the result equals m-separation in G."

Every quantifier of the structure sentence is bounded by a list of the two graphs, so the sentence is
decidable as it stands: `decide (Struct G R)` is the validator the harness runs on the
implementation's output (the decider *is* the specification). -/
namespace C10
variable {α : Type} [DecidableEq α]

def DG.children (R : DG α) (v : α) : List α := (R.edges.filter (·.1 == v)).map (·.2)

/-- there is a directed path of length ≥ 0 from a to b -/
inductive DG.Reaches (R : DG α) : α → α → Prop
  | refl (a : α) : DG.Reaches R a a
  | step {a b c : α} : (a, b) ∈ R.edges → DG.Reaches R b c → DG.Reaches R a c

/-- "returns a DAG": no edge closes a directed cycle -/
def DG.IsDAG (R : DG α) : Prop := ∀ a b, (a, b) ∈ R.edges → ¬ DG.Reaches R b a

/-- executable form of `IsDAG` (proved equivalent for graphs whose edge endpoints are nodes:
    `C10.hasCycle_false_iff`) -/
def DG.hasCycle (R : DG α) : Bool :=
  R.names.any fun v => decide (v ∈ closure R.names R.children (R.children v))

/-- `u` is a new (not a node of G) parentless node of `R` whose only children are the two endpoints
    of the bidirected edge `e` -/
def NewNodeFor (G : LG α) (R : DG α) (u : α) (e : α × α) : Prop :=
  u ∈ R.names ∧ u ∉ G.names ∧
  (∀ q ∈ R.edges, q.2 ≠ u) ∧
  (u, e.1) ∈ R.edges ∧ (u, e.2) ∈ R.edges ∧
  (∀ q ∈ R.edges, q.1 = u → q.2 = e.1 ∨ q.2 = e.2)

instance (G : LG α) (R : DG α) (u : α) (e : α × α) : Decidable (NewNodeFor G R u e) := by
  unfold NewNodeFor; exact inferInstance

/-- the clauses of the structure sentence -/
def NodesKept (G : LG α) (R : DG α) : Prop := ∀ p ∈ G.nodes, p ∈ R.nodes
def DirKept (G : LG α) (R : DG α) : Prop := ∀ e ∈ G.dir, e ∈ R.edges
def LatentPerBi (G : LG α) (R : DG α) : Prop := ∀ e ∈ G.bi, ∃ u ∈ R.names, NewNodeFor G R u e

/-- the structure sentence of C10 -/
def Struct (G : LG α) (R : DG α) : Prop :=
  R.hasCycle = false ∧ NodesKept G R ∧ DirKept G R ∧ LatentPerBi G R

/-- nothing else is in the result: every node is an original node or the latent of some bidirected
    edge, every edge leaving an original node is a directed edge of G, each bidirected edge has only
    one latent, the node dict has no second entry for a name -/
def Exact (G : LG α) (R : DG α) : Prop :=
  R.names.Nodup ∧
  (∀ u ∈ R.names, u ∈ G.names ∨ ∃ e ∈ G.bi, NewNodeFor G R u e) ∧
  (∀ q ∈ R.edges, q ∈ G.dir ∨ q.1 ∉ G.names) ∧
  (∀ e ∈ G.bi, ∀ u ∈ R.names, ∀ u' ∈ R.names, NewNodeFor G R u e → NewNodeFor G R u' e → u = u')

instance (G : LG α) (R : DG α) : Decidable (NodesKept G R) := by unfold NodesKept; exact inferInstance
instance (G : LG α) (R : DG α) : Decidable (DirKept G R) := by unfold DirKept; exact inferInstance
instance (G : LG α) (R : DG α) : Decidable (LatentPerBi G R) := by unfold LatentPerBi; exact inferInstance
instance (G : LG α) (R : DG α) : Decidable (Struct G R) := by unfold Struct; exact inferInstance
instance (G : LG α) (R : DG α) : Decidable (Exact G R) := by unfold Exact; exact inferInstance

/-- well-formed input (the quantifier of C10: an ADMG held by a `MixedEdgeGraph`): node names are the
    keys of a dict, edge endpoints are nodes, no self loops, directed layer acyclic -/
structure LG.WF (G : LG α) : Prop where
  nodup : G.names.Nodup
  dir_mem : ∀ e ∈ G.dir, e.1 ∈ G.names ∧ e.2 ∈ G.names
  bi_mem : ∀ e ∈ G.bi, e.1 ∈ G.names ∧ e.2 ∈ G.names

/-- second sentence, on `Nat`-labelled graphs (C01 vocabulary): `R` has directed edges only, so
    `MG.MSep R` is d-separation -/
def SepPreserved (G R : MG) : Prop :=
  ∀ X Y Z : List Nat, (∀ x ∈ X, x ∈ G.nodes) → (∀ y ∈ Y, y ∈ G.nodes) → (∀ z ∈ Z, z ∈ G.nodes) →
    (∀ x ∈ X, x ∉ Z) → (∀ y ∈ Y, y ∉ Z) →
    (MG.MSep R X Y Z ↔ MG.MSep G X Y Z)

end C10
