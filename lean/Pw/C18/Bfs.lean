import Pw.C18.Model

/-! # C18: invariant of the shared BFS skeleton (soundness direction)

`Tr desc stop x l`: following the back-pointers from `x` reaches `stop`, and `l` is the visited node
list in forward order (`stop … x`).  The loop invariant says that every queued node has such a trace
which satisfies a predicate `P` of "valid partial paths", and that the recorded end node (if any) has
a trace satisfying `Pfin`.  `P`/`Pfin` only need to be closed under the extensions the classification
function admits (`hpush`, `hfin`).  No ordering argument is needed: traces consist of explored nodes
and a newly entered node is not explored, so traces stay duplicate free and are not disturbed by new
back-pointers. -/
namespace C18

/-- second to last element -/
def penult (l : List Nat) : Option Nat := l.dropLast.getLast?

inductive Tr (desc : List (Nat × Nat)) (stop : Nat) : Nat → List Nat → Prop
  | base : Tr desc stop stop [stop]
  | step {x y : Nat} {l : List Nat} : x ≠ stop → desc.lookup x = some y → Tr desc stop y l →
      Tr desc stop x (l ++ [x])

theorem Tr.last {desc stop x l} (h : Tr desc stop x l) : l.getLast? = some x := by
  cases h <;> simp

theorem Tr.ne_nil {desc stop x l} (h : Tr desc stop x l) : l ≠ [] := by
  cases h <;> simp

theorem Tr.head {desc stop x l} (h : Tr desc stop x l) : l.head? = some stop := by
  induction h with
  | base => rfl
  | @step x y l _ _ ht ih =>
    cases l with
    | nil => exact absurd rfl ht.ne_nil
    | cons a t => simpa using ih

theorem Tr.stop_mem {desc stop x l} (h : Tr desc stop x l) : stop ∈ l := by
  have := h.head
  cases l with
  | nil => cases this
  | cons a t => simp at this; simp [this]

theorem Tr.self_mem {desc stop x l} (h : Tr desc stop x l) : x ∈ l := by
  cases h <;> simp

/-- a new back-pointer for a key outside the trace does not disturb it -/
theorem Tr.cons_fresh {desc stop x l} (h : Tr desc stop x l) (k v : Nat) (hk : k ∉ l) :
    Tr ((k, v) :: desc) stop x l := by
  induction h with
  | base => exact Tr.base
  | @step x y l hne hl _ ih =>
    have hkx : k ≠ x := by intro e; apply hk; simp [e]
    have hkl : k ∉ l := by intro e; apply hk; simp [e]
    refine Tr.step hne ?_ (ih hkl)
    rw [List.lookup_cons]
    have : (x == k) = false := by simp; exact fun e => hkx e.symm
    simp [this, hl]

theorem penult_append_singleton (l : List Nat) (x : Nat) : penult (l ++ [x]) = l.getLast? := by
  simp [penult]

/-- the stored back-pointer of a traced node is the second to last node of its trace -/
theorem Tr.penult {desc stop x l} (h : Tr desc stop x l) (hs : desc.lookup stop = none) :
    C18.penult l = desc.lookup x := by
  cases h with
  | base => simp [C18.penult, hs]
  | step _ hl ht => rw [penult_append_singleton, ht.last, hl]

theorem recon_of_Tr {desc stop x l} (h : Tr desc stop x l) :
    ∀ (fuel : Nat) (acc : List Nat), l.length ≤ fuel → recon desc stop fuel (x :: acc) = some (l ++ acc) := by
  induction h with
  | base =>
    intro fuel acc hf
    cases fuel with
    | zero => simp at hf
    | succ n => simp [recon]
  | @step x y l hne hl _ ih =>
    intro fuel acc hf
    cases fuel with
    | zero => simp at hf
    | succ n =>
      have : (x == stop) = false := by simp [hne]
      simp only [recon, this, hl]
      rw [ih n (x :: acc) (by simp at hf; omega)]
      simp

/-! ## the invariant -/

section
variable (cls : Option Nat → Nat → Nat → Cls) (stop : Nat) (P Pfin : List Nat → Prop)

/-- `x` has a trace satisfying `Q` inside the explored set -/
def Traced (Q : List Nat → Prop) (s : St) (x : Nat) : Prop :=
  ∃ l, Tr s.desc stop x l ∧ Q l ∧ (∀ z ∈ l, z ∈ s.explored) ∧ l.length ≤ s.explored.length

structure Inv (s : St) : Prop where
  queue : ∀ x ∈ s.queue, Traced stop P s x
  fin : s.found = true → ∃ e, s.last = some e ∧ Traced stop Pfin s e
  stopNone : s.desc.lookup stop = none
  stopMem : stop ∈ s.explored

variable {cls stop P Pfin}

/-- adding a fresh node with a back-pointer keeps old traces -/
theorem Traced.add {Q : List Nat → Prop} {s : St} {x : Nat} (h : Traced stop Q s x) (next this : Nat)
    (hn : next ∉ s.explored) (q : List Nat) (f : Bool) (la : Option Nat) :
    Traced stop Q { s with explored := next :: s.explored, desc := (next, this) :: s.desc, queue := q,
                           found := f, last := la } x := by
  obtain ⟨l, ht, hq, hsub, hlen⟩ := h
  refine ⟨l, ht.cons_fresh next this (fun e => hn (hsub _ e)), hq, ?_, ?_⟩
  · intro z hz; exact List.mem_cons_of_mem _ (hsub z hz)
  · simp; omega

/-- the new node's trace is the trace of `this` extended by it -/
theorem Traced.extend {s : St} {this : Nat} {lt : List Nat} (ht : Tr s.desc stop this lt)
    (hsub : ∀ z ∈ lt, z ∈ s.explored) (hlen : lt.length ≤ s.explored.length)
    (next : Nat) (hn : next ∉ s.explored) {Q : List Nat → Prop} (hQ : Q (lt ++ [next]))
    (q : List Nat) (f : Bool) (la : Option Nat) :
    Traced stop Q { s with explored := next :: s.explored, desc := (next, this) :: s.desc, queue := q,
                           found := f, last := la } next := by
  have hnl : next ∉ lt := fun e => hn (hsub _ e)
  have hns : next ≠ stop := fun e => hnl (e ▸ ht.stop_mem)
  refine ⟨lt ++ [next], Tr.step hns (by simp [List.lookup_cons]) (ht.cons_fresh next this hnl), hQ, ?_, ?_⟩
  · intro z hz
    rcases List.mem_append.mp hz with hz | hz
    · exact List.mem_cons_of_mem _ (hsub z hz)
    · simp at hz; simp [hz]
  · simp; omega

variable
  (hpush : ∀ l this next, P l → l.getLast? = some this → next ∉ l →
      cls (penult l) this next = .push → P (l ++ [next]))
  (hfin : ∀ l this next, P l → l.getLast? = some this → next ∉ l →
      cls (penult l) this next = .fin → Pfin (l ++ [next]))

include hpush hfin in
theorem inner_inv (this : Nat) (lt : List Nat) (hP : P lt) (iter : List Nat) :
    ∀ s : St, Inv stop P Pfin s → Tr s.desc stop this lt → (∀ z ∈ lt, z ∈ s.explored) →
      lt.length ≤ s.explored.length →
      Inv stop P Pfin (inner cls this (s.desc.lookup this) iter s) := by
  induction iter with
  | nil => intro s hi _ _ _; simpa [inner] using hi
  | cons next rest ih =>
    intro s hi ht hsub hlen
    have hprev : s.desc.lookup this = penult lt := (ht.penult hi.stopNone).symm
    unfold inner
    by_cases hex : next ∈ s.explored
    · simp only [hex, if_true]; exact ih s hi ht hsub hlen
    · simp only [hex, if_false]
      have hnl : next ∉ lt := fun e => hex (hsub _ e)
      cases hc : cls (s.desc.lookup this) this next with
      | skip => simp only; exact ih s hi ht hsub hlen
      | fin =>
        simp only
        have hQ : Pfin (lt ++ [next]) := hfin lt this next hP ht.last hnl (hprev ▸ hc)
        refine ⟨?_, ?_, ?_, ?_⟩
        · intro x hx; exact (hi.queue x hx).add next this hex _ _ _
        · intro _; exact ⟨next, rfl, Traced.extend ht hsub hlen next hex hQ _ _ _⟩
        · have hns : next ≠ stop := fun e => hex (e ▸ hi.stopMem)
          have : (stop == next) = false := by simp; exact fun e => hns e.symm
          simp [List.lookup_cons, this, hi.stopNone]
        · exact List.mem_cons_of_mem _ hi.stopMem
      | push =>
        simp only
        have hQ : P (lt ++ [next]) := hpush lt this next hP ht.last hnl (hprev ▸ hc)
        have hns : next ≠ stop := fun e => hex (e ▸ hi.stopMem)
        have hne : (this == next) = false := by
          simp; intro e; exact hnl (e ▸ ht.self_mem)
        have hlk : List.lookup this ((next, this) :: s.desc) = s.desc.lookup this := by
          simp [List.lookup_cons, hne]
        let s' : St := { s with explored := next :: s.explored, desc := (next, this) :: s.desc,
                                queue := s.queue ++ [next] }
        have hi' : Inv stop P Pfin s' := by
          refine ⟨?_, ?_, ?_, ?_⟩
          · intro x hx
            rcases List.mem_append.mp hx with hx | hx
            · exact (hi.queue x hx).add next this hex _ _ _
            · simp at hx; subst hx
              exact Traced.extend ht hsub hlen x hex hQ _ _ _
          · intro hf
            obtain ⟨e, he, htr⟩ := hi.fin hf
            exact ⟨e, he, htr.add next this hex _ _ _⟩
          · have : (stop == next) = false := by simp; exact fun e => hns e.symm
            simp [s', List.lookup_cons, this, hi.stopNone]
          · exact List.mem_cons_of_mem _ hi.stopMem
        have hres := ih s' hi' (ht.cons_fresh next this hnl)
          (fun z hz => List.mem_cons_of_mem _ (hsub z hz)) (by simp [s']; omega)
        simp only [s'] at hres
        rw [hlk] at hres
        exact hres

include hpush hfin in
theorem loop_inv (iter : Nat → List Nat) (cont : Bool) :
    ∀ (fuel : Nat) (s : St), Inv stop P Pfin s → Inv stop P Pfin (loop iter cls cont fuel s) := by
  intro fuel
  induction fuel with
  | zero =>
    intro s hi
    unfold loop
    split
    · exact hi
    · exact ⟨hi.queue, hi.fin, hi.stopNone, hi.stopMem⟩
  | succ n ih =>
    intro s hi
    unfold loop
    cases hq : s.queue with
    | nil => simpa using hi
    | cons this q =>
      simp only
      obtain ⟨lt, ht, hP, hsub, hlen⟩ := hi.queue this (by simp [hq])
      have hi0 : Inv stop P Pfin { s with queue := q } :=
        ⟨fun x hx => hi.queue x (by simp [hq, hx]), hi.fin, hi.stopNone, hi.stopMem⟩
      have h1 := inner_inv hpush hfin this lt hP (iter this) { s with queue := q } hi0 ht hsub hlen
      split
      · exact h1
      · exact ih _ h1

end
end C18
