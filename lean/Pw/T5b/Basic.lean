import Pw.C06.Full
open Closure MG

/-! # T5b (Richardson–Spirtes Thm 4.18 for ADMGs), part 1: the MAG of a DAG is an ancestral graph

`M` is any graph with `C06.MagStructure D L S M`.  Marks of `M` are read off ancestry in `D`:
tail at `b` on the edge between `a` and `b` iff `b` is a strict ancestor of `S ∪ {a}`. -/
namespace T5b
open C06

variable {D M : MG} {L S : List Nat}

/-- every M-edge, decoded: adjacency data plus the meaning of both marks -/
structure EdgeInfo (D : MG) (L S : List Nat) (a b : Nat) (ma mb : Mark) : Prop where
  ha : a ∈ D.nodes
  hb : b ∈ D.nodes
  hab : a ≠ b
  ind : HasInducingPath D L S a b ∨ HasInducingPath D L S b a
  haL : a ∉ L
  haS : a ∉ S
  hbL : b ∉ L
  hbS : b ∉ S
  ma_tail : ma = .tail ↔ TailAt D S b a
  mb_tail : mb = .tail ↔ TailAt D S a b

theorem edgeInfo_of_hasEdge (hs : MagStructure D L S M) {a b : Nat} {ma mb : Mark}
    (he : HasEdge M a b ma mb) : EdgeInfo D L S a b ma mb := by
  rcases he with ⟨rfl, rfl, h⟩ | ⟨rfl, rfl, h⟩ | ⟨rfl, rfl, h⟩ | ⟨rfl, rfl, h⟩
  · obtain ⟨h1, h2, h3, h4, h5, h6, h7, h8, h9, h10⟩ := (hs.dir a b).mp h
    exact ⟨h1, h2, h3, h4, h5, h6, h7, h8, by simp [h9], by simp [h10]⟩
  · obtain ⟨h1, h2, h3, h4, h5, h6, h7, h8, h9, h10⟩ := (hs.dir b a).mp h
    exact ⟨h2, h1, Ne.symm h3, h4.symm, h7, h8, h5, h6, by simp [h10], by simp [h9]⟩
  · obtain ⟨h1, h2, h3, h4, h5, h6, h7, h8, h9, h10⟩ := (hs.bi a b).mp h
    exact ⟨h1, h2, h3, h4, h5, h6, h7, h8, by simp [h9], by simp [h10]⟩
  · obtain ⟨h1, h2, h3, h4, h5, h6, h7, h8, h9, h10⟩ := (hs.un a b).mp h
    exact ⟨h1, h2, h3, h4, h5, h6, h7, h8, by simp [h9], by simp [h10]⟩

/-- conversely adjacency data with marks chosen according to ancestry is an M-edge -/
theorem hasEdge_of_info (hs : MagStructure D L S M) {a b : Nat} {ma mb : Mark}
    (h : EdgeInfo D L S a b ma mb) : HasEdge M a b ma mb := by
  obtain ⟨h1, h2, h3, h4, h5, h6, h7, h8, t1, t2⟩ := h
  cases ma <;> cases mb
  · exact Or.inr (Or.inr (Or.inr ⟨rfl, rfl,
      (hs.un a b).mpr ⟨h1, h2, h3, h4, h5, h6, h7, h8, t1.mp rfl, t2.mp rfl⟩⟩))
  · refine Or.inl ⟨rfl, rfl, (hs.dir a b).mpr ⟨h1, h2, h3, h4, h5, h6, h7, h8, t1.mp rfl, ?_⟩⟩
    intro ht; have := t2.mpr ht; cases this
  · refine Or.inr (Or.inl ⟨rfl, rfl,
      (hs.dir b a).mpr ⟨h2, h1, Ne.symm h3, h4.symm, h7, h8, h5, h6, t2.mp rfl, ?_⟩⟩)
    intro ht; have := t1.mpr ht; cases this
  · refine Or.inr (Or.inr (Or.inl ⟨rfl, rfl, (hs.bi a b).mpr ⟨h1, h2, h3, h4, h5, h6, h7, h8, ?_, ?_⟩⟩))
    · intro ht; have := t1.mpr ht; cases this
    · intro ht; have := t2.mpr ht; cases this

theorem sAnc_mono {T T' : List Nat} (h : ∀ t ∈ T, t ∈ T') {a : Nat} (ha : SAncOfSet D T a) :
    SAncOfSet D T' a := by
  obtain ⟨t, ht, c, hc, hct⟩ := ha
  exact ⟨t, h t ht, c, hc, hct⟩

/-- a strict ancestor of a strict ancestor -/
theorem sAnc_trans {T : List Nat} {a b : Nat} (hab : SAncOfSet D [b] a) (hb : SAncOfSet D T b) :
    SAncOfSet D T a := by
  obtain ⟨t, ht, c, hc, hct⟩ := hab
  simp at ht; subst ht
  obtain ⟨t', ht', c', hc', hct'⟩ := hb
  exact ⟨t', ht', c, hc, hct.trans (Anc.step hc' hct')⟩

theorem not_sAnc_self (hacy : Acyclic D) {a : Nat} : ¬ SAncOfSet D [a] a := by
  rintro ⟨t, ht, c, hc, hct⟩
  simp at ht; subst ht
  exact hacy _ _ hc hct

theorem tailAt_cases {a b : Nat} (h : TailAt D S a b) : SAncOfSet D S b ∨ SAncOfSet D [a] b := by
  obtain ⟨t, ht, c, hc, hct⟩ := h
  rcases List.mem_append.mp ht with ht | ht
  · exact Or.inl ⟨t, ht, c, hc, hct⟩
  · exact Or.inr ⟨t, ht, c, hc, hct⟩

theorem tailAt_of_sAncS {a b : Nat} (h : SAncOfSet D S b) : TailAt D S a b :=
  sAnc_mono (fun t ht => List.mem_append_left _ ht) h

/-- both ends of an undirected M-edge are strict ancestors of S -/
theorem sAncS_of_two_tails (hacy : Acyclic D) {a b : Nat} (h1 : TailAt D S b a) (h2 : TailAt D S a b) :
    SAncOfSet D S a := by
  rcases tailAt_cases h1 with h | h
  · exact h
  · rcases tailAt_cases h2 with h' | h'
    · exact sAnc_trans h h'
    · exact absurd (sAnc_trans h h') (not_sAnc_self hacy)

theorem mag_wf (hs : MagStructure D L S M) : M.WF := by
  refine ⟨?_, ?_, ?_⟩
  · rintro ⟨a, b⟩ he
    obtain ⟨h1, h2, _, _, h5, h6, h7, h8, _⟩ := (hs.dir a b).mp he
    exact ⟨(hs.nodes a).mpr ⟨h1, h5, h6⟩, (hs.nodes b).mpr ⟨h2, h7, h8⟩⟩
  · rintro ⟨a, b⟩ he
    obtain ⟨h1, h2, _, _, h5, h6, h7, h8, _⟩ := (hs.bi a b).mp (Or.inl he)
    exact ⟨(hs.nodes a).mpr ⟨h1, h5, h6⟩, (hs.nodes b).mpr ⟨h2, h7, h8⟩⟩
  · rintro ⟨a, b⟩ he
    obtain ⟨h1, h2, _, _, h5, h6, h7, h8, _⟩ := (hs.un a b).mp (Or.inl he)
    exact ⟨(hs.nodes a).mpr ⟨h1, h5, h6⟩, (hs.nodes b).mpr ⟨h2, h7, h8⟩⟩

theorem mag_noSelfLoop (hs : MagStructure D L S M) : NoSelfLoop M := by
  intro a ma mb he
  exact (edgeInfo_of_hasEdge hs he).hab rfl

theorem mag_noUndirAtHead (hs : MagStructure D L S M) (hacy : Acyclic D) : NoUndirAtHead M := by
  intro a p mp hp c hc
  have i1 := edgeInfo_of_hasEdge hs hp
  have i2 := edgeInfo_of_hasEdge hs hc
  have hS : SAncOfSet D S a := sAncS_of_two_tails hacy (i2.ma_tail.mp rfl) (i2.mb_tail.mp rfl)
  have := i1.mb_tail.mpr (tailAt_of_sAncS hS)
  cases this

end T5b
