import Pw.C13.Proofs

/-! # C13 — an operation that raises; the decider of the property -/
namespace C13

theorem ensureAll_frame : ∀ (es : List (TNode × TNode)) (s : St),
    (ensureAll s es).1.maxLag = s.maxLag ∧ (ensureAll s es).1.layers = s.layers
  | [], _ => ⟨rfl, rfl⟩
  | (u, v) :: r, s => by
    unfold ensureAll
    split
    · exact ⟨rfl, rfl⟩
    · rename_i s1 h1
      obtain ⟨a1, b1⟩ := ensureNode_frame h1
      split
      · exact ⟨a1, b1⟩
      · rename_i s2 h2
        obtain ⟨a2, b2⟩ := ensureNode_frame h2
        obtain ⟨a3, b3⟩ := ensureAll_frame r s2
        exact ⟨by rw [a3, a2, a1], by rw [b3, b2, b1]⟩

theorem addEdgeBase_rej (s : St) (u v : TNode) :
    (addEdgeBase s u v).2 = true → (addEdgeBase s u v).1 = s := by
  unfold addEdgeBase
  split
  · intro _; rfl
  · intro h; simp at h

theorem addEdgesBase_rej (s : St) (es : List (TNode × TNode)) :
    (addEdgesBase s es).2 = true → (addEdgesBase s es).1 = s := by
  unfold addEdgesBase
  split
  · intro _; rfl
  · intro h; simp at h

theorem addEdgeMixed_rej (cfg : Cfg) (s : St) (sel : Sel) (u v : TNode) :
    (addEdgeMixed cfg s sel u v).2 = true →
      (addEdgeMixed cfg s sel u v).1.layers = s.layers ∧ (addEdgeMixed cfg s sel u v).1.maxLag = s.maxLag := by
  unfold addEdgeMixed
  split
  · intro _; exact ⟨rfl, rfl⟩
  · split
    · intro _; exact ⟨rfl, rfl⟩
    · rename_i s1 h1
      obtain ⟨a1, b1⟩ := ensureNode_frame h1
      split
      · intro _; exact ⟨b1, a1⟩
      · rename_i s2 h2
        obtain ⟨a2, b2⟩ := ensureNode_frame h2
        split
        · intro _; exact ⟨by rw [b2, b1], by rw [a2, a1]⟩
        · split
          · intro _; exact ⟨by rw [b2, b1], by rw [a2, a1]⟩
          · intro h; simp at h

theorem addEdgesMixed_rej (cfg : Cfg) (s : St) (sel : Sel) (es : List (TNode × TNode)) :
    (addEdgesMixed cfg s sel es).2 = true →
      (addEdgesMixed cfg s sel es).1.layers = s.layers ∧ (addEdgesMixed cfg s sel es).1.maxLag = s.maxLag := by
  unfold addEdgesMixed
  obtain ⟨a, b⟩ := ensureAll_frame es s
  split
  · intro _; exact ⟨rfl, rfl⟩
  · simp only []
    split
    · intro _; exact ⟨b, a⟩
    · split
      · intro _; exact ⟨b, a⟩
      · split
        · intro _; exact ⟨b, a⟩
        · intro h; simp at h

theorem removeEdge_rej (cfg : Cfg) (s : St) (sel : Sel) (u v : TNode) :
    (removeEdge cfg s sel u v).2 = true → (removeEdge cfg s sel u v).1 = s := by
  unfold removeEdge
  simp only []
  generalize (if cfg.mixed = true then sel else Sel.all) = sel'
  split
  · intro _; rfl
  · split
    · intro _; rfl
    · intro h; simp at h

theorem removeEdges_rej (cfg : Cfg) (s : St) (sel : Sel) (es : List (TNode × TNode)) :
    (removeEdges cfg s sel es).2 = true → (removeEdges cfg s sel es).1 = s := by
  unfold removeEdges
  split
  · intro _; rfl
  · simp only []
    generalize (if cfg.mixed = true then sel else Sel.all) = sel'
    split
    · intro _; rfl
    · intro h; simp at h

theorem setMaxLag_rej (s : St) (k : Int) : (setMaxLag s k).2 = true → (setMaxLag s k).1 = s := by
  unfold setMaxLag
  split
  · intro _; rfl
  · simp only []
    split
    · intro h; simp at h
    · split
      · intro h; simp at h
      · intro _; rfl

theorem copyStep_rej (cfg : Cfg) (s : St) :
    (step cfg s .copy).2 = true → (step cfg s .copy).1 = s := by
  simp only [step]
  split
  · intro _; rfl
  · rename_i hc; intro h; exact absurd h hc

/-- **C13, rejected operations**: an operation that raises leaves every edge list and max_lag
literally unchanged (and the state still satisfies the property by `C13_invariant`; a rejected
`add_edge(s)` of a mixed-edge class may already have added the variables of the named nodes). -/
theorem step_rejected (cfg : Cfg) (s : St) (op : Op) (h : (step cfg s op).2 = true) :
    (step cfg s op).1.layers = s.layers ∧ (step cfg s op).1.maxLag = s.maxLag := by
  cases op with
  | addEdge l u v =>
    simp only [step, addEdge] at h ⊢
    split at h
    · rename_i hm; simp only [hm, if_true]; exact addEdgeMixed_rej cfg s l u v h
    · rename_i hm; simp only [hm, Bool.false_eq_true, if_false]; rw [addEdgeBase_rej s u v h]; exact ⟨rfl, rfl⟩
  | addEdges l es =>
    simp only [step, addEdges] at h ⊢
    split at h
    · rename_i hm; simp only [hm, if_true]; exact addEdgesMixed_rej cfg s l es h
    · rename_i hm; simp only [hm, Bool.false_eq_true, if_false]; rw [addEdgesBase_rej s es h]; exact ⟨rfl, rfl⟩
  | removeEdge l u v => simp only [step] at h ⊢; rw [removeEdge_rej cfg s l u v h]; exact ⟨rfl, rfl⟩
  | removeEdges l es => simp only [step] at h ⊢; rw [removeEdges_rej cfg s l es h]; exact ⟨rfl, rfl⟩
  | addVar x => simp [step] at h
  | removeVar x => simp [step] at h
  | setMaxLag k => simp only [step] at h ⊢; rw [setMaxLag_rej s k h]; exact ⟨rfl, rfl⟩
  | copy => rw [copyStep_rej cfg s h]; exact ⟨rfl, rfl⟩

/-- for the plain graph classes, and for every operation other than `add_edge(s)` of the mixed-edge
classes, a raising operation returns the *identical* state (nodes included) -/
theorem step_rejected_state (cfg : Cfg) (s : St) (op : Op) (h : (step cfg s op).2 = true)
    (hop : cfg.mixed = false ∨ (∀ l u v, op ≠ .addEdge l u v) ∧ (∀ l es, op ≠ .addEdges l es)) :
    (step cfg s op).1 = s := by
  cases op with
  | addEdge l u v =>
    rcases hop with hm | ⟨h1, _⟩
    · simp only [step, addEdge, hm] at h ⊢
      exact addEdgeBase_rej s u v h
    · exact absurd rfl (h1 l u v)
  | addEdges l es =>
    rcases hop with hm | ⟨_, h2⟩
    · simp only [step, addEdges, hm] at h ⊢
      exact addEdgesBase_rej s es h
    · exact absurd rfl (h2 l es)
  | removeEdge l u v => exact removeEdge_rej cfg s l u v h
  | removeEdges l es => exact removeEdges_rej cfg s l es h
  | addVar x => simp [step] at h
  | removeVar x => simp [step] at h
  | setMaxLag k => exact setMaxLag_rej s k h
  | copy => exact copyStep_rej cfg s h

/-! ## the decider is the specification -/

theorem completeDec_iff (nodes : List Node) (m : Nat) : completeDec nodes m = true ↔ Complete nodes m := by
  simp only [completeDec, Complete, List.all_eq_true, Bool.and_eq_true, decide_eq_true_eq,
    List.mem_range, List.contains_eq_mem, Prod.forall]
  constructor
  · intro h x a hx
    exact ⟨(h x a hx).1, fun b hb => (h x a hx).2 b (by omega)⟩
  · intro h x a hx
    exact ⟨(h x a hx).1, fun b hb => (h x a hx).2 b (by omega)⟩

theorem shiftClosedDec_iff (m : Nat) (E : List Edge) : shiftClosedDec m E = true ↔ ShiftClosed m E := by
  simp only [shiftClosedDec, ShiftClosed, List.all_eq_true, List.mem_range, Bool.or_eq_true,
    Bool.not_eq_true', decide_eq_false_iff_not, List.contains_eq_mem, decide_eq_true_eq, Prod.forall]
  constructor
  · intro h x a y b he a' b' ha' hb' hab
    rcases h x a y b he a' (by omega) b' (by omega) with h' | h'
    · exact absurd hab h'
    · exact h'
  · intro h x a y b he a' ha' b' hb'
    by_cases hab : a' + b = a + b'
    · exact Or.inr (h x a y b he a' b' (by omega) (by omega) hab)
    · exact Or.inl hab

theorem forwardDec_iff (E : List Edge) : forwardDec E = true ↔ Forward E := by
  simp [forwardDec, Forward, List.all_eq_true]

theorem endsInDec_iff (nodes : List Node) (E : List Edge) : endsInDec nodes E = true ↔ EndsIn nodes E := by
  simp [endsInDec, EndsIn, List.all_eq_true]

theorem layerOkDec_iff (nodes : List Node) (m : Nat) (L : Layer) :
    layerOkDec nodes m L = true ↔ LayerOk nodes m L := by
  simp only [layerOkDec, LayerOk, Bool.and_eq_true, Bool.or_eq_true, endsInDec_iff, shiftClosedDec_iff,
    forwardDec_iff, bne_iff_ne, ne_eq]
  constructor
  · rintro ⟨⟨h1, h2⟩, h3⟩
    exact ⟨h1, h2, fun hk => h3.resolve_left (fun h => h hk)⟩
  · rintro ⟨h1, h2, h3⟩
    refine ⟨⟨h1, h2⟩, ?_⟩
    by_cases hk : L.kind = .dir
    · exact Or.inr (h3 hk)
    · exact Or.inl hk

/-- **the executable decider the harness applies to every observed implementation state is the
specification** -/
theorem stationaryDec_iff (s : St) : stationaryDec s = true ↔ Stationary s := by
  simp only [stationaryDec, Stationary, Bool.and_eq_true, completeDec_iff, List.all_eq_true,
    layerOkDec_iff]

end C13
