import Pw.C09.DecCorrect
open Closure

/-! # C09 validator, part 1: the structural clauses and "no new unshielded collider"

`structuralFails P M = [] ↔ StructuralS P M` for **every** pair of graphs (no well-formedness
hypothesis), `noNewUCB P M ↔ NoNewUC P M` for every `M` whose directed/bidirected edges join nodes. -/
namespace C09
open MG

/-! ## the numeric mark code -/

theorem markB_eq_zero {G : MG} {a b : Nat} : markB G a b = 0 ↔ markAt G a b = none := by
  unfold markB; cases h : markAt G a b with
  | none => simp
  | some m => cases m <;> simp

theorem markB_eq_one {G : MG} {a b : Nat} : markB G a b = 1 ↔ markAt G a b = some .tail := by
  unfold markB; cases h : markAt G a b with
  | none => simp
  | some m => cases m <;> simp

theorem markB_eq_two {G : MG} {a b : Nat} : markB G a b = 2 ↔ markAt G a b = some .head := by
  unfold markB; cases h : markAt G a b with
  | none => simp
  | some m => cases m <;> simp

theorem markB_eq_three {G : MG} {a b : Nat} : markB G a b = 3 ↔ markAt G a b = some .circle := by
  unfold markB; cases h : markAt G a b with
  | none => simp
  | some m => cases m <;> simp

theorem adjB_iff {G : MG} {a b : Nat} : adjB G a b = true ↔ (markAt G a b).isSome = true := by
  unfold adjB
  rw [bne_iff_ne, Ne, markB_eq_zero]
  cases markAt G a b <;> simp

theorem adjB_false_iff {G : MG} {a b : Nat} : adjB G a b = false ↔ markAt G a b = none := by
  rw [← Bool.not_eq_true, adjB_iff]
  cases markAt G a b <;> simp

/-- which edges produce which mark -/
theorem markAt_circle_iff {G : MG} {a b : Nat} : markAt G a b = some .circle ↔ (a, b) ∈ G.circ := by
  unfold markAt
  by_cases h1 : (a, b) ∈ G.circ
  · simp [h1]
  · rw [if_neg h1]
    constructor
    · intro h; split at h
      · cases h
      · split at h <;> cases h
    · intro h; exact absurd h h1

theorem markAt_head_iff {G : MG} {a b : Nat} :
    markAt G a b = some .head ↔
      (a, b) ∉ G.circ ∧ ((a, b) ∈ G.dir ∨ (a, b) ∈ G.bi ∨ (b, a) ∈ G.bi) := by
  unfold markAt
  by_cases h1 : (a, b) ∈ G.circ
  · simp [h1]
  · rw [if_neg h1]
    by_cases h2 : (a, b) ∈ G.dir ∨ (a, b) ∈ G.bi ∨ (b, a) ∈ G.bi
    · rw [if_pos h2]; exact ⟨fun _ => ⟨h1, h2⟩, fun _ => rfl⟩
    · rw [if_neg h2]
      constructor
      · intro h; split at h <;> cases h
      · intro h; exact absurd h.2 h2

theorem markAt_none_iff {G : MG} {a b : Nat} :
    markAt G a b = none ↔
      (a, b) ∉ G.circ ∧ (a, b) ∉ G.dir ∧ (a, b) ∉ G.bi ∧ (b, a) ∉ G.bi ∧
      (b, a) ∉ G.dir ∧ (a, b) ∉ G.un ∧ (b, a) ∉ G.un ∧ (b, a) ∉ G.circ := by
  unfold markAt
  by_cases h1 : (a, b) ∈ G.circ
  · simp [h1]
  · rw [if_neg h1]
    by_cases h2 : (a, b) ∈ G.dir ∨ (a, b) ∈ G.bi ∨ (b, a) ∈ G.bi
    · rw [if_pos h2]
      constructor
      · intro h; cases h
      · rintro ⟨_, h3, h4, h5, _⟩
        rcases h2 with h | h | h
        · exact absurd h h3
        · exact absurd h h4
        · exact absurd h h5
    · rw [if_neg h2]
      by_cases h3 : (b, a) ∈ G.dir ∨ (a, b) ∈ G.un ∨ (b, a) ∈ G.un ∨ (b, a) ∈ G.circ
      · rw [if_pos h3]
        constructor
        · intro h; cases h
        · rintro ⟨_, _, _, _, h4, h5, h6, h7⟩
          rcases h3 with h | h | h | h
          · exact absurd h h4
          · exact absurd h h5
          · exact absurd h h6
          · exact absurd h h7
      · rw [if_neg h3]
        simp only [not_or] at h2 h3
        exact ⟨fun _ => ⟨h1, h2.1, h2.2.1, h2.2.2, h3.1, h3.2.1, h3.2.2.1, h3.2.2.2⟩, fun _ => rfl⟩

theorem mem_ends_of_mem {G : MG} {a b : Nat}
    (h : (a, b) ∈ G.dir ∨ (a, b) ∈ G.bi ∨ (a, b) ∈ G.un ∨ (a, b) ∈ G.circ) :
    a ∈ ends G ∧ b ∈ ends G := by
  have hm : (a, b) ∈ G.dir ++ G.bi ++ G.un ++ G.circ := by
    simp only [List.mem_append]
    rcases h with h | h | h | h
    · exact Or.inl (Or.inl (Or.inl h))
    · exact Or.inl (Or.inl (Or.inr h))
    · exact Or.inl (Or.inr h)
    · exact Or.inr h
  unfold ends
  constructor
  · exact List.mem_flatMap.mpr ⟨(a, b), hm, by simp⟩
  · exact List.mem_flatMap.mpr ⟨(a, b), hm, by simp⟩

/-- adjacent vertices are endpoints of an edge -/
theorem mem_ends_of_markAt {G : MG} {a b : Nat} (h : markAt G a b ≠ none) :
    a ∈ ends G ∧ b ∈ ends G := by
  rw [Ne, markAt_none_iff] at h
  by_cases h1 : (a, b) ∈ G.dir ∨ (a, b) ∈ G.bi ∨ (a, b) ∈ G.un ∨ (a, b) ∈ G.circ
  · exact mem_ends_of_mem h1
  · by_cases h2 : (b, a) ∈ G.dir ∨ (b, a) ∈ G.bi ∨ (b, a) ∈ G.un ∨ (b, a) ∈ G.circ
    · exact (mem_ends_of_mem h2).symm
    · simp only [not_or] at h1 h2
      exact absurd ⟨h1.2.2.2, h1.1, h1.2.1, h2.2.1, h2.1, h1.2.2.1, h2.2.2.1, h2.2.2.2⟩ h

/-! ## piece 1: `structuralFails` -/

theorem sameNodes_iff {A B : List Nat} : sameNodes A B = true ↔ SameNodes B A := by
  unfold sameNodes SameNodes
  simp only [Bool.and_eq_true, List.all_eq_true, decide_eq_true_eq]
  constructor
  · rintro ⟨h1, h2⟩ v; exact ⟨h2 v, h1 v⟩
  · intro h; exact ⟨fun v hv => (h v).mpr hv, fun v hv => (h v).mp hv⟩

theorem ite_nil_iff {c : Prop} [Decidable c] {s : String} :
    (if c then ([] : List String) else [s]) = [] ↔ c := by
  by_cases h : c <;> simp [h]

theorem mem_prs {ns : List Nat} {a b : Nat} :
    (a, b) ∈ (ns.flatMap fun a => ns.map fun b => (a, b)) ↔ a ∈ ns ∧ b ∈ ns := by
  simp only [List.mem_flatMap, List.mem_map, Prod.mk.injEq]
  constructor
  · rintro ⟨x, hx, y, hy, rfl, rfl⟩; exact ⟨hx, hy⟩
  · rintro ⟨ha, hb⟩; exact ⟨a, ha, b, hb, rfl, rfl⟩

/-- **piece 1.** The structural part of the validator reports nothing iff the structural clauses
    hold – for every pair of graphs, well-formed or not. -/
theorem structuralFails_nil_iff (P M : MG) : structuralFails P M = [] ↔ StructuralS P M := by
  unfold structuralFails
  simp only [List.append_eq_nil_iff, ite_nil_iff, List.all_eq_true, Prod.forall, mem_prs,
    List.mem_eraseDups, List.mem_append]
  -- pairs outside the comparison domain carry no mark in either graph
  have hout : ∀ a b, ¬ (((a ∈ P.nodes ∨ a ∈ M.nodes) ∨ a ∈ ends P) ∨ a ∈ ends M) ∨
      ¬ (((b ∈ P.nodes ∨ b ∈ M.nodes) ∨ b ∈ ends P) ∨ b ∈ ends M) →
      markAt P a b = none ∧ markAt M a b = none := by
    intro a b h
    constructor
    · apply Classical.byContradiction
      intro hn
      have := mem_ends_of_markAt hn
      rcases h with h | h
      · exact h (Or.inl (Or.inr this.1))
      · exact h (Or.inl (Or.inr this.2))
    · apply Classical.byContradiction
      intro hn
      have := mem_ends_of_markAt hn
      rcases h with h | h
      · exact h (Or.inr this.1)
      · exact h (Or.inr this.2)
  constructor
  · rintro ⟨⟨⟨⟨hn, hadj⟩, hh⟩, ht⟩, hc⟩
    refine ⟨sameNodes_iff.mp hn, ?_, ?_, ?_, ?_⟩
    · intro a b
      by_cases hd : (((a ∈ P.nodes ∨ a ∈ M.nodes) ∨ a ∈ ends P) ∨ a ∈ ends M) ∧
          (((b ∈ P.nodes ∨ b ∈ M.nodes) ∨ b ∈ ends P) ∨ b ∈ ends M)
      · have := hadj a b hd
        rw [beq_iff_eq] at this
        rw [← adjB_iff, ← adjB_iff, this]
      · have := hout a b (Classical.not_and_iff_not_or_not.mp hd)
        rw [this.1, this.2]
    · intro a b hp
      by_cases hd : (((a ∈ P.nodes ∨ a ∈ M.nodes) ∨ a ∈ ends P) ∨ a ∈ ends M) ∧
          (((b ∈ P.nodes ∨ b ∈ M.nodes) ∨ b ∈ ends P) ∨ b ∈ ends M)
      · have := hh a b hd
        rw [Bool.or_eq_true, bne_iff_ne, Ne, beq_iff_eq, markB_eq_two, markB_eq_two] at this
        rcases this with h | h
        · exact absurd hp h
        · exact h
      · have := hout a b (Classical.not_and_iff_not_or_not.mp hd)
        rw [this.1] at hp; cases hp
    · intro a b hp
      by_cases hd : (((a ∈ P.nodes ∨ a ∈ M.nodes) ∨ a ∈ ends P) ∨ a ∈ ends M) ∧
          (((b ∈ P.nodes ∨ b ∈ M.nodes) ∨ b ∈ ends P) ∨ b ∈ ends M)
      · have := ht a b hd
        rw [Bool.or_eq_true, bne_iff_ne, Ne, beq_iff_eq, markB_eq_one, markB_eq_one] at this
        rcases this with h | h
        · exact absurd hp h
        · exact h
      · have := hout a b (Classical.not_and_iff_not_or_not.mp hd)
        rw [this.1] at hp; cases hp
    · intro a b h
      rw [markAt_circle_iff] at h
      rw [List.isEmpty_iff] at hc
      rw [hc] at h; cases h
  · intro h
    refine ⟨⟨⟨⟨sameNodes_iff.mpr h.nodes, ?_⟩, ?_⟩, ?_⟩, ?_⟩
    · intro a b _
      rw [beq_iff_eq]
      have := h.adj a b
      rw [← adjB_iff, ← adjB_iff] at this
      cases h1 : adjB M a b <;> cases h2 : adjB P a b <;> simp_all
    · intro a b _
      rw [Bool.or_eq_true, bne_iff_ne, Ne, beq_iff_eq, markB_eq_two, markB_eq_two]
      by_cases hp : markAt P a b = some .head
      · exact Or.inr (h.keepHead a b hp)
      · exact Or.inl hp
    · intro a b _
      rw [Bool.or_eq_true, bne_iff_ne, Ne, beq_iff_eq, markB_eq_one, markB_eq_one]
      by_cases hp : markAt P a b = some .tail
      · exact Or.inr (h.keepTail a b hp)
      · exact Or.inl hp
    · rw [List.isEmpty_iff]
      cases hc : M.circ with
      | nil => rfl
      | cons e t =>
        exfalso
        apply h.noCircle e.1 e.2
        rw [markAt_circle_iff, hc]; exact List.mem_cons_self

/-! ## piece 2: no new unshielded collider -/

theorem ucB_iff {G : MG} {a c b : Nat} : ucB G a c b = true ↔ UC G a c b := by
  unfold ucB UC
  simp only [Bool.and_eq_true, beq_iff_eq, bne_iff_ne, markB_eq_two, markB_eq_zero, and_assoc]

/-- an arrowhead comes from a directed or a bidirected edge: both ends are nodes of a well-formed graph -/
theorem mem_nodes_of_head {G : MG} (hwf : G.WF) {a b : Nat} (h : markAt G a b = some .head) :
    a ∈ G.nodes ∧ b ∈ G.nodes := by
  rcases (markAt_head_iff.mp h).2 with h | h | h
  · exact hwf.1 _ h
  · exact hwf.2.1 _ h
  · exact (hwf.2.1 _ h).symm

/-- **piece 2.** `noNewUCB` (triples over the node list of `M`) decides "every unshielded collider of
    `M` is already one of `P`". -/
theorem noNewUCB_iff {P M : MG} (hwf : M.WF) : noNewUCB P M = true ↔ NoNewUC P M := by
  unfold noNewUCB NoNewUC
  simp only [List.all_eq_true, Bool.or_eq_true, Bool.not_eq_true', ← Bool.not_eq_true, ucB_iff]
  constructor
  · intro h a c b hu
    have h1 := mem_nodes_of_head hwf hu.1
    have h2 := mem_nodes_of_head hwf hu.2.1
    rcases h a h1.1 c h1.2 b h2.1 with h | h
    · exact absurd hu h
    · exact h
  · intro h a _ c _ b _
    by_cases hu : UC M a c b
    · exact Or.inr (h a c b hu)
    · exact Or.inl hu

end C09
