import Pw.C04.VStruct
open Closure

/-! # Chickering's `label_edges` (C04 model): exact description of one iteration and of the result -/
namespace T3
open C04

/-- exact effect of the `for node in w_nodes` loop -/
theorem wLoop_full (E : List Edge) (y : Nat) : ∀ (ws : List Nat) (lab : Edge → Label),
    ((wLoop E y ws lab).2 = false →
      (∀ w ∈ ws, (w, y) ∈ E) ∧
      (∀ e, (∃ w ∈ ws, e = (w, y)) → (wLoop E y ws lab).1 e = .compelled) ∧
      (∀ e, (¬ ∃ w ∈ ws, e = (w, y)) → (wLoop E y ws lab).1 e = lab e)) ∧
    ((wLoop E y ws lab).2 = true →
      (∃ w ∈ ws, (w, y) ∉ E) ∧
      (∀ e : Edge, e.2 = y → (wLoop E y ws lab).1 e = .compelled) ∧
      (∀ e : Edge, e.2 ≠ y → (wLoop E y ws lab).1 e = lab e)) := by
  intro ws
  induction ws with
  | nil =>
    intro lab
    refine ⟨fun _ => ⟨fun _ h => (by cases h), ?_, fun _ _ => rfl⟩, fun h => (by cases h)⟩
    rintro e ⟨w, hw, _⟩; cases hw
  | cons w ws ih =>
    intro lab
    by_cases hc : E.contains (w, y) = true
    · have hwy : (w, y) ∈ E := List.contains_iff_mem.mp hc
      have hrw : wLoop E y (w :: ws) lab = wLoop E y ws (setEdge (w, y) .compelled lab) := by
        rw [wLoop, if_pos hc]
      rw [hrw]
      obtain ⟨ih1, ih2⟩ := ih (setEdge (w, y) .compelled lab)
      constructor
      · intro hf
        obtain ⟨a, b, c⟩ := ih1 hf
        refine ⟨?_, ?_, ?_⟩
        · intro w' hw'
          rcases List.mem_cons.mp hw' with rfl | hw'
          · exact hwy
          · exact a w' hw'
        · rintro e ⟨w', hw', rfl⟩
          by_cases hin : ∃ w'' ∈ ws, (w', y) = (w'', y)
          · exact b _ hin
          · rw [c _ hin]
            rcases List.mem_cons.mp hw' with rfl | hw''
            · simp [setEdge]
            · exact absurd ⟨w', hw'', rfl⟩ hin
        · intro e hn
          have hn' : ¬ ∃ w'' ∈ ws, e = (w'', y) := fun ⟨w'', h1, h2⟩ =>
            hn ⟨w'', List.mem_cons_of_mem _ h1, h2⟩
          rw [c e hn']
          have : e ≠ (w, y) := fun h => hn ⟨w, List.mem_cons_self, h⟩
          simp [setEdge, this]
      · intro ht
        obtain ⟨⟨w', hw', hnw⟩, b, c⟩ := ih2 ht
        refine ⟨⟨w', List.mem_cons_of_mem _ hw', hnw⟩, b, ?_⟩
        intro e he
        rw [c e he]
        have : e ≠ (w, y) := fun h => he (by rw [h])
        simp [setEdge, this]
    · have hwy : (w, y) ∉ E := fun h => hc (List.contains_iff_mem.mpr h)
      have hrw : wLoop E y (w :: ws) lab = (setInto y .compelled lab, true) := by
        rw [wLoop, if_neg hc]
      rw [hrw]
      refine ⟨fun h => (by cases h), fun _ => ⟨⟨w, List.mem_cons_self, hwy⟩, ?_, ?_⟩⟩
      · intro e he; simp [setInto, he]
      · intro e he; simp [setInto, he]

/-- `w` is a parent of `x` whose edge is labelled compelled -/
def CpAt (G : MG) (lab : Edge → Label) (x w : Nat) : Prop := (w, x) ∈ G.dir ∧ lab (w, x) = .compelled

/-- exact effect of one iteration of the `while` loop of `label_edges` -/
theorem labelStep_full {G : MG} {ord : List Edge} {lab lab' : Edge → Label}
    (h : labelStep G ord lab = some lab') :
    ∃ x y, (ord.filter fun e => lab e == .unknown).getLast? = some (x, y) ∧
      (∀ e : Edge, e.2 ≠ y → lab' e = lab e) ∧
      (((∃ w, CpAt G lab x w ∧ (w, y) ∉ G.dir) ∧ ∀ e : Edge, e.2 = y → lab' e = .compelled) ∨
       ((∀ w, CpAt G lab x w → (w, y) ∈ G.dir) ∧ (∃ z, (z, y) ∈ G.dir ∧ z ≠ x ∧ (z, x) ∉ G.dir) ∧
          ∀ e : Edge, e.2 = y → lab e = .unknown → lab' e = .compelled) ∨
       ((∀ w, CpAt G lab x w → (w, y) ∈ G.dir) ∧ (∀ z, (z, y) ∈ G.dir → z = x ∨ (z, x) ∈ G.dir) ∧
          ∀ w, lab (w, y) = .unknown → (CpAt G lab x w → lab' (w, y) = .compelled) ∧
            (¬ CpAt G lab x w → lab' (w, y) = .reversible))) := by
  unfold labelStep at h
  split at h
  · cases h
  · rename_i x y hlast
    refine ⟨x, y, hlast, ?_⟩
    have hw := wLoop_full G.dir y ((G.parents x).filter fun w => lab (w, x) == .compelled) lab
    have hws : ∀ w, w ∈ (G.parents x).filter (fun w => lab (w, x) == .compelled) ↔ CpAt G lab x w := by
      intro w; simp only [List.mem_filter, MG.mem_parents, beq_iff_eq, CpAt]
    dsimp only at h
    split at h
    · rename_i lab1 heq
      cases h
      rw [heq] at hw
      dsimp only at hw
      obtain ⟨⟨w, hwm, hwn⟩, h2, h3⟩ := hw.2 rfl
      exact ⟨h3, Or.inl ⟨⟨w, (hws w).mp hwm, hwn⟩, h2⟩⟩
    · rename_i lab1 heq
      cases h
      rw [heq] at hw
      dsimp only at hw
      obtain ⟨h1, h2, h3⟩ := hw.1 rfl
      have hpar : ∀ w, CpAt G lab x w → (w, y) ∈ G.dir := fun w hc => h1 w ((hws w).mpr hc)
      refine ⟨?_, ?_⟩
      · intro e he
        simp only [he, false_and, if_false]
        exact h3 e (fun ⟨w, _, hw⟩ => he (by rw [hw]))
      · by_cases hz : ((G.parents y).any fun z => z != x && !G.dir.contains (z, x)) = true
        · refine Or.inr (Or.inl ⟨hpar, ?_, ?_⟩)
          · simp only [List.any_eq_true, MG.mem_parents, Bool.and_eq_true, bne_iff_ne,
              Bool.not_eq_true'] at hz
            obtain ⟨z, hzy, hzx, hc⟩ := hz
            exact ⟨z, hzy, hzx, fun hm => by rw [List.contains_iff_mem.mpr hm] at hc; cases hc⟩
          · intro e he hunk
            by_cases hin : ∃ w ∈ (G.parents x).filter (fun w => lab (w, x) == .compelled), e = (w, y)
            · have hl := h2 e hin
              have : lab1 e ≠ .unknown := by rw [hl]; intro h'; cases h'
              simp only [this, and_false, if_false]; exact hl
            · have hl : lab1 e = .unknown := by rw [h3 e hin, hunk]
              simp only [he, hl, and_self, if_true, hz]
        · refine Or.inr (Or.inr ⟨hpar, ?_, ?_⟩)
          · intro z hzy
            simp only [List.any_eq_true, MG.mem_parents, Bool.and_eq_true, bne_iff_ne, Bool.not_eq_true',
              not_exists, not_and] at hz
            by_cases hzx : z = x
            · exact Or.inl hzx
            · right
              have := hz z hzy hzx
              cases hc : G.dir.contains (z, x) with
              | true => exact List.contains_iff_mem.mp hc
              | false => exact absurd hc this
          · intro w hunk
            refine ⟨fun hc => ?_, fun hc => ?_⟩
            · have hl := h2 (w, y) ⟨w, (hws w).mpr hc, rfl⟩
              have : lab1 (w, y) ≠ .unknown := by rw [hl]; intro h'; cases h'
              simp only [this, and_false, if_false]; exact hl
            · have hin : ¬ ∃ w' ∈ (G.parents x).filter (fun w => lab (w, x) == .compelled),
                  (w, y) = (w', y) := by
                rintro ⟨w', hw', he⟩
                simp only [Prod.mk.injEq, and_true] at he
                subst he
                exact hc ((hws w).mp hw')
              have hl : lab1 (w, y) = .unknown := by rw [h3 _ hin, hunk]
              simp only [hl, and_self, if_true, hz]
              rfl

/-- the labels of the edges into `y` in terms of the labels of the edges into its last parent `x` -/
structure NodeChar (G : MG) (topo : List Nat) (lab : Edge → Label) (x y : Nat) : Prop where
  xy : (x, y) ∈ G.dir
  last : ∀ z, (z, y) ∈ G.dir → pos topo z ≤ pos topo x
  xknown : ∀ w, (w, x) ∈ G.dir → lab (w, x) ≠ .unknown
  cases :
    ((∃ w, CpAt G lab x w ∧ (w, y) ∉ G.dir) ∧ ∀ z, (z, y) ∈ G.dir → lab (z, y) = .compelled) ∨
    ((∀ w, CpAt G lab x w → (w, y) ∈ G.dir) ∧ (∃ z, (z, y) ∈ G.dir ∧ z ≠ x ∧ (z, x) ∉ G.dir) ∧
      ∀ z, (z, y) ∈ G.dir → lab (z, y) = .compelled) ∨
    ((∀ w, CpAt G lab x w → (w, y) ∈ G.dir) ∧ (∀ z, (z, y) ∈ G.dir → z = x ∨ (z, x) ∈ G.dir) ∧
      ∀ z, (z, y) ∈ G.dir → (CpAt G lab x z → lab (z, y) = .compelled) ∧
        (¬ CpAt G lab x z → lab (z, y) = .reversible))

theorem NodeChar.congr {G : MG} {topo : List Nat} {lab lab' : Edge → Label} {x y : Nat}
    (hx : ∀ w, (w, x) ∈ G.dir → lab' (w, x) = lab (w, x))
    (hy : ∀ z, (z, y) ∈ G.dir → lab' (z, y) = lab (z, y)) (h : NodeChar G topo lab x y) :
    NodeChar G topo lab' x y := by
  have hcp : ∀ w, CpAt G lab' x w ↔ CpAt G lab x w := by
    intro w
    constructor
    · rintro ⟨a, b⟩; exact ⟨a, (hx w a) ▸ b⟩
    · rintro ⟨a, b⟩; exact ⟨a, (hx w a).trans b⟩
  refine ⟨h.xy, h.last, fun w hw => by rw [hx w hw]; exact h.xknown w hw, ?_⟩
  rcases h.cases with ⟨⟨w, hw, hn⟩, hall⟩ | ⟨hp, hz, hall⟩ | ⟨hp, hz, hall⟩
  · exact Or.inl ⟨⟨w, (hcp w).mpr hw, hn⟩, fun z hz => (hy z hz).trans (hall z hz)⟩
  · exact Or.inr (Or.inl ⟨fun w hw => hp w ((hcp w).mp hw), hz,
      fun z hz => (hy z hz).trans (hall z hz)⟩)
  · refine Or.inr (Or.inr ⟨fun w hw => hp w ((hcp w).mp hw), hz, fun z hzy => ⟨?_, ?_⟩⟩)
    · intro hc; exact (hy z hzy).trans ((hall z hzy).1 ((hcp z).mp hc))
    · intro hc; exact (hy z hzy).trans ((hall z hzy).2 (fun c => hc ((hcp z).mpr c)))

/-- the loop invariant of `label_edges` -/
structure FInv (G : MG) (topo : List Nat) (lab : Edge → Label) : Prop where
  allOrNone : ∀ e ∈ G.dir, lab e = .unknown → ∀ e' ∈ G.dir, e'.2 = e.2 → lab e' = .unknown
  char : ∀ z y, (z, y) ∈ G.dir → lab (z, y) ≠ .unknown → ∃ x, NodeChar G topo lab x y

theorem finv_step {G : MG} {topo : List Nat} {ord : List Edge} (ht : IsTopo G topo)
    (hperm : ∀ e, e ∈ ord ↔ e ∈ G.dir) (hsorted : ord.Pairwise (Before topo))
    {lab lab' : Edge → Label} (hinv : FInv G topo lab) (h : labelStep G ord lab = some lab') :
    FInv G topo lab' := by
  obtain ⟨x, y, hlast, hS1, hcase⟩ := labelStep_full h
  have hsel := List.mem_of_getLast? hlast
  simp only [List.mem_filter, beq_iff_eq] at hsel
  obtain ⟨hxyo, hxyu⟩ := hsel
  have hxyE : (x, y) ∈ G.dir := (hperm _).mp hxyo
  have hpos : pos topo x < pos topo y := ht.forward x y hxyE
  have hxy : x ≠ y := fun e => by rw [e] at hpos; exact Nat.lt_irrefl _ hpos
  have hyall : ∀ e' ∈ G.dir, e'.2 = y → lab e' = .unknown := hinv.allOrNone (x, y) hxyE hxyu
  have hbefore : ∀ e ∈ G.dir, lab e = .unknown → e = (x, y) ∨ Before topo e (x, y) := by
    intro e he hunk
    have hmem : e ∈ ord.filter fun e => lab e == .unknown := by
      simp only [List.mem_filter, beq_iff_eq]; exact ⟨(hperm _).mpr he, hunk⟩
    exact pairwise_getLast _ _ (hsorted.filter _) hlast _ hmem
  have hxknown : ∀ w, (w, x) ∈ G.dir → lab (w, x) ≠ .unknown := by
    intro w hwx hunk
    rcases hbefore _ hwx hunk with heq | hb
    · simp only [Prod.mk.injEq] at heq
      exact hxy heq.2
    · have := hb.1
      simp only at this
      omega
  have hlastx : ∀ z, (z, y) ∈ G.dir → pos topo z ≤ pos topo x := by
    intro z hz
    rcases hbefore _ hz (hyall _ hz rfl) with heq | hb
    · simp only [Prod.mk.injEq] at heq
      rw [heq.1]; exact Nat.le_refl _
    · exact hb.2 rfl
  have hxsame : ∀ w, (w, x) ∈ G.dir → lab' (w, x) = lab (w, x) := fun w _ => hS1 (w, x) hxy
  have hnew : NodeChar G topo lab' x y := by
    have hcp : ∀ w, CpAt G lab' x w ↔ CpAt G lab x w := by
      intro w
      constructor
      · rintro ⟨a, b⟩; exact ⟨a, (hxsame w a) ▸ b⟩
      · rintro ⟨a, b⟩; exact ⟨a, (hxsame w a).trans b⟩
    refine ⟨hxyE, hlastx, fun w hw => by rw [hxsame w hw]; exact hxknown w hw, ?_⟩
    rcases hcase with ⟨⟨w, hw, hn⟩, hall⟩ | ⟨hp, hz, hall⟩ | ⟨hp, hz, hall⟩
    · exact Or.inl ⟨⟨w, (hcp w).mpr hw, hn⟩, fun z _ => hall (z, y) rfl⟩
    · exact Or.inr (Or.inl ⟨fun w hw => hp w ((hcp w).mp hw), hz,
        fun z hzy => hall (z, y) rfl (hyall _ hzy rfl)⟩)
    · refine Or.inr (Or.inr ⟨fun w hw => hp w ((hcp w).mp hw), hz, fun z hzy => ⟨?_, ?_⟩⟩)
      · intro hc; exact (hall z (hyall _ hzy rfl)).1 ((hcp z).mp hc)
      · intro hc; exact (hall z (hyall _ hzy rfl)).2 (fun c => hc ((hcp z).mpr c))
  have hyknown : ∀ z, (z, y) ∈ G.dir → lab' (z, y) ≠ .unknown := by
    intro z hzy
    rcases hnew.cases with ⟨_, hall⟩ | ⟨_, _, hall⟩ | ⟨_, _, hall⟩
    · rw [hall z hzy]; intro c; cases c
    · rw [hall z hzy]; intro c; cases c
    · by_cases hc : CpAt G lab' x z
      · rw [(hall z hzy).1 hc]; intro c; cases c
      · rw [(hall z hzy).2 hc]; intro c; cases c
  refine ⟨?_, ?_⟩
  · intro e he hunk e' he' heq
    have hne : e.2 ≠ y := fun hy => by
      obtain ⟨a, b⟩ := e
      simp only at hy
      subst hy
      exact hyknown a he hunk
    rw [hS1 e' (by rw [heq]; exact hne)]
    rw [hS1 e hne] at hunk
    exact hinv.allOrNone e he hunk e' he' heq
  · intro z y0 hz hk
    by_cases hy0 : y0 = y
    · subst hy0; exact ⟨x, hnew⟩
    · have hk' : lab (z, y0) ≠ .unknown := by rw [← hS1 (z, y0) hy0]; exact hk
      obtain ⟨x0, hc0⟩ := hinv.char z y0 hz hk'
      refine ⟨x0, hc0.congr ?_ (fun z' _ => hS1 (z', y0) hy0)⟩
      intro w hw
      apply hS1
      intro hx0
      simp only at hx0
      subst hx0
      exact hc0.xknown w hw (hyall _ hw rfl)

theorem finv_loop {G : MG} {topo : List Nat} {ord : List Edge} (ht : IsTopo G topo)
    (hperm : ∀ e, e ∈ ord ↔ e ∈ G.dir) (hsorted : ord.Pairwise (Before topo)) :
    ∀ (fuel : Nat) (lab : Edge → Label), FInv G topo lab → FInv G topo (labelLoop G ord fuel lab) := by
  intro fuel
  induction fuel with
  | zero => intro lab h; rw [labelLoop]; exact h
  | succ n ih =>
    intro lab h
    rw [labelLoop]
    cases hs : labelStep G ord lab with
    | none => exact h
    | some lab' => exact ih lab' (finv_step ht hperm hsorted h hs)

/-- **the result of `label_edges`, node by node** -/
theorem labels_char (G : MG) (topo : List Nat) (ht : IsTopo G topo) {z y : Nat} (hz : (z, y) ∈ G.dir) :
    ∃ x, NodeChar G topo (labels G topo) x y := by
  have hinv : FInv G topo (labels G topo) := by
    apply finv_loop ht (fun e => (orderEdges_perm topo G.dir).mem_iff) (orderEdges_sorted topo G.dir)
    exact ⟨fun _ _ _ _ _ _ => rfl, fun _ _ _ h => absurd rfl h⟩
  exact hinv.char z y hz (labels_known G topo _ hz)

end T3
