import Pw.C16.Possible

/-! # C16: non-vacuity examples (the hypotheses of the theorems are satisfiable by a non-trivial input) and
the witness of the repaired defect -/
namespace C16

/-- `0 o-> 1 <-> 2 -- 3`, `0 o-o 3`, `1 <- 3` -/
def exG : MG := { nodes := [0, 1, 2, 3], dir := [(0, 1), (3, 1)], bi := [(1, 2)], un := [(2, 3)],
                  circ := [(1, 0), (0, 3), (3, 0)] }

example : WF exG ∧ CircOK exG ∧ exG.nodes.Nodup ∧ 0 ∈ exG.nodes ∧ 0 ∉ [2, 3] := by decide

/-- the model on a concrete query: two semi-directed paths, one of them ends in the cutoff branch -/
example : allSemiDirectedPaths exG 0 [2, 3] none = some [[0, 3], [0, 3, 2]] := by decide
example : allSemiDirectedPaths exG 0 [2, 3] (some 1) = some [[0, 3]] := by decide

/-- `mem_allSemiDirectedPaths` applied: `[0,3,2]` is wanted, `[0,1,2]` is not (arrowhead at 1 on `1 <-> 2`) -/
example : Wanted exG 0 [2, 3] (effCutoff exG none) [0, 3, 2] :=
  (mem_allSemiDirectedPaths (G := exG) (l := [[0, 3], [0, 3, 2]]) (by decide) (by decide) (by decide) _).mp
    (by decide)
example : ¬ Wanted exG 0 [2, 3] (effCutoff exG none) [0, 1, 2] := by decide

example : isSemiDirectedPath exG [0, 3, 2] = true ∧ isSemiDirectedPath exG [0, 1, 2] = false ∧
    isSemiDirectedPath exG [0, 3, 0] = false := by decide

/-- `mem_possibleDescendants` / `mem_possibleAncestors` applied with their hypotheses discharged -/
example : 2 ∈ possibleDescendants exG 0 :=
  (mem_possibleDescendants (G := exG) (by decide) (by decide) 2).mpr (Or.inr ⟨[0, 3, 2], by decide, rfl, rfl⟩)
example : 0 ∈ possibleAncestors exG 2 :=
  (mem_possibleAncestors (G := exG) (by decide) (by decide) 0).mpr (Or.inr ⟨[0, 3, 2], by decide, rfl, rfl⟩)
example : 1 ∉ possibleAncestors exG 0 := by
  rw [mem_possibleAncestors (G := exG) (by decide) (by decide), ← mem_possAncDec (by decide)]
  decide

/-- witness of the repaired defect (`0 -> 2 <- 1`, source 0, target 1): the specification has no
    path, and neither has the model of the repaired code; the unrepaired code yielded `[0, 2, 1]` -/
def witG : MG := { nodes := [0, 1, 2], dir := [(0, 2), (1, 2)] }
example : allSemiDirectedPaths witG 0 [1] none = some [] := by decide
example : ¬ SemiDirected witG [0, 2, 1] := by decide

end C16
