import Pw.C08.Complete
import Pw.C05.Complete
open Closure

/-! # T3 (Meek's completeness theorem), part 1: structural lemmas about a closed PDAG

Fixed data (`Ctx G D`): a simple PDAG `G` closed under R1–R4 together with a consistent extension `D`. -/
namespace T3
open C08 MG

structure Ctx (G D : MG) : Prop where
  simple : Simple G
  ext : ConsistentExt G D
  closed : MeekClosed G

variable {G D : MG}

theorem Ctx.irrefl (h : Ctx G D) (a : Nat) : ¬ Skel G a a := irrefl_of_ext h.ext a

theorem Ctx.sub (h : Ctx G D) {a b : Nat} (e : (a, b) ∈ G.dir) : (a, b) ∈ D.dir := h.ext.dir _ e

theorem Ctx.asymD (h : Ctx G D) {a b : Nat} (e : (a, b) ∈ D.dir) : (b, a) ∉ D.dir :=
  fun e' => h.ext.acyclic a b e (Anc.step e' (Anc.refl _))

theorem Ctx.asym (h : Ctx G D) {a b : Nat} (e : (a, b) ∈ G.dir) : (b, a) ∉ G.dir :=
  fun e' => h.asymD (h.sub e) (h.sub e')

theorem Ctx.dir_not_un (h : Ctx G D) {a b : Nat} (e : (a, b) ∈ G.dir) : ¬ HasUn G a b := by
  rintro (u | u)
  · exact (h.simple a b e).1 u
  · exact (h.simple a b e).2 u

theorem Ctx.dir_not_un' (h : Ctx G D) {a b : Nat} (e : (a, b) ∈ G.dir) : ¬ HasUn G b a :=
  fun u => h.dir_not_un e u.symm

theorem skel_cases {a b : Nat} (h : Skel G a b) : (a, b) ∈ G.dir ∨ (b, a) ∈ G.dir ∨ HasUn G a b := by
  rcases h with h | h | h | h
  · exact Or.inl h
  · exact Or.inr (Or.inl h)
  · exact Or.inr (Or.inr (Or.inl h))
  · exact Or.inr (Or.inr (Or.inr h))

theorem skel_of_dir {a b : Nat} (h : (a, b) ∈ G.dir) : Skel G a b := Or.inl h
theorem skel_of_dir' {a b : Nat} (h : (a, b) ∈ G.dir) : Skel G b a := Or.inr (Or.inl h)

/-- R1 as a usable lemma: `k -> i - j` forces `k`, `j` adjacent -/
theorem Ctx.r1 (h : Ctx G D) {k i j : Nat} (hk : (k, i) ∈ G.dir) (hu : HasUn G i j) : Skel G k j :=
  Classical.byContradiction fun hn => (h.closed i j hu).1 ⟨k, hk, hn⟩

/-- R2: no undirected edge `i - j` next to `i -> k -> j` -/
theorem Ctx.r2 (h : Ctx G D) {i k j : Nat} (h1 : (i, k) ∈ G.dir) (h2 : (k, j) ∈ G.dir) : ¬ HasUn G i j :=
  fun hu => (h.closed i j hu).2.1 ⟨k, h1, h2⟩

theorem Ctx.r3 (h : Ctx G D) {i j k l : Nat} (hkl : k ≠ l) (h1 : HasUn G i k) (h2 : HasUn G i l)
    (h3 : (k, j) ∈ G.dir) (h4 : (l, j) ∈ G.dir) (hn : ¬ Skel G k l) : ¬ HasUn G i j :=
  fun hu => (h.closed i j hu).2.2.1 ⟨k, l, hkl, h1, h2, h3, h4, hn⟩

theorem Ctx.r4 (h : Ctx G D) {i j k l : Nat} (hkj : k ≠ j) (h1 : HasUn G i k)
    (h2 : (k, l) ∈ G.dir) (h3 : (l, j) ∈ G.dir) (hn : ¬ Skel G k j) : ¬ HasUn G i j :=
  fun hu => (h.closed i j hu).2.2.2 ⟨k, l, hkj, h1, h2, h3, hn⟩

/-! ## transitive closure, directed paths -/

inductive TC (R : Nat → Nat → Prop) : Nat → Nat → Prop
  | base {a b : Nat} : R a b → TC R a b
  | snoc {a b c : Nat} : TC R a b → R b c → TC R a c

theorem TC.trans {R : Nat → Nat → Prop} {a b c : Nat} (h1 : TC R a b) (h2 : TC R b c) : TC R a c := by
  induction h2 with
  | base e => exact TC.snoc h1 e
  | snoc _ e ih => exact TC.snoc ih e

theorem TC.cons {R : Nat → Nat → Prop} {a b c : Nat} (e : R a b) (h : TC R b c) : TC R a c :=
  (TC.base e).trans h

theorem TC.mono {R S : Nat → Nat → Prop} (hRS : ∀ a b, R a b → S a b) {a b : Nat} (h : TC R a b) :
    TC S a b := by
  induction h with
  | base e => exact TC.base (hRS _ _ e)
  | snoc _ e ih => exact TC.snoc ih (hRS _ _ e)

/-- first step of a path -/
theorem TC.head {R : Nat → Nat → Prop} {a c : Nat} (h : TC R a c) :
    R a c ∨ ∃ b, R a b ∧ TC R b c := by
  induction h with
  | base e => exact Or.inl e
  | snoc _ e ih =>
    rcases ih with ih | ⟨b, hb, hbc⟩
    · exact Or.inr ⟨_, ih, TC.base e⟩
    · exact Or.inr ⟨b, hb, TC.snoc hbc e⟩

/-- the directed-edge relation of a graph -/
def dr (G : MG) (a b : Nat) : Prop := (a, b) ∈ G.dir

theorem tc_anc {H : MG} {a b : Nat} (h : TC (dr H) a b) : Anc H a b := by
  induction h with
  | base e => exact Anc.step e (Anc.refl _)
  | snoc _ e ih => exact ih.tail e

theorem anc_tc {H : MG} {a b : Nat} (h : Anc H a b) : a = b ∨ TC (dr H) a b := by
  induction h with
  | refl => exact Or.inl rfl
  | step e _ ih =>
    rcases ih with rfl | ih
    · exact Or.inr (TC.base e)
    · exact Or.inr (TC.cons e ih)

theorem no_cycle_of_acyclic {H : MG} (hac : Acyclic H) (a : Nat) : ¬ TC (dr H) a a := by
  intro h
  rcases h.head with e | ⟨b, e, hb⟩
  · exact hac a a e (Anc.refl _)
  · exact hac a b e (tc_anc hb)

theorem Ctx.no_cycleD (h : Ctx G D) (a : Nat) : ¬ TC (dr D) a a := no_cycle_of_acyclic h.ext.acyclic a

theorem Ctx.no_cycle (h : Ctx G D) (a : Nat) : ¬ TC (dr G) a a :=
  fun hc => h.no_cycleD a (hc.mono fun _ _ e => h.sub e)

/-- **chain lemma**: the endpoints of an undirected edge are not joined by a directed path -/
theorem Ctx.chain (h : Ctx G D) {a x : Nat} (hp : TC (dr G) a x) : ¬ HasUn G a x := by
  induction hp with
  | base e => exact h.dir_not_un e
  | @snoc c x hac e ih =>
    intro hu
    rcases skel_cases (h.r1 e hu.symm) with hca | hac' | hu'
    · exact h.no_cycle a (TC.snoc hac hca)
    · exact h.r2 hac' e hu
    · exact ih hu'.symm

end T3
