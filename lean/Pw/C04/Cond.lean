import Pw.C04.Struct
import Pw.C05.Sound

/-! # C04: spec-level theory of the essential graph, and the conditional full theorem

Unconditional, about the *specification*: Markov equivalence is an equivalence relation, v-structure
edges are compelled, and two DAGs have the same essential graph iff they are Markov equivalent
(`sameGraph_iff_markovEquiv`) – the "Hence" sentence of the property follows from its first sentence.

Conditional on Chickering's theorem (hypothesis `T3`, DESIGN §5): `dagToCpdag` is the essential graph
(`C04_full_of_T3`) and equal CPDAGs ⇔ Markov equivalent (`C04_markov_of_T3`). -/
namespace C04
open C05 (Adj VStruct)

theorem MarkovEquiv.refl (D : MG) : MarkovEquiv D D := ⟨fun _ => Iff.rfl, fun _ _ => Iff.rfl, fun _ _ _ => Iff.rfl⟩

theorem MarkovEquiv.symm {D D' : MG} (h : MarkovEquiv D D') : MarkovEquiv D' D :=
  ⟨fun v => (h.nodes v).symm, fun a b => (h.skel a b).symm, fun a c b => (h.vstructs a c b).symm⟩

theorem MarkovEquiv.trans {D D' D'' : MG} (h : MarkovEquiv D D') (h' : MarkovEquiv D' D'') : MarkovEquiv D D'' :=
  ⟨fun v => (h'.nodes v).trans (h.nodes v), fun a b => (h'.skel a b).trans (h.skel a b),
   fun a c b => (h'.vstructs a c b).trans (h.vstructs a c b)⟩

theorem compelled_congr {D1 D2 : MG} (h : MarkovEquiv D1 D2) (a b : Nat) :
    Compelled D1 a b ↔ Compelled D2 a b :=
  ⟨fun hc D' hd hm => hc D' hd (h.trans hm), fun hc D' hd hm => hc D' hd (h.symm.trans hm)⟩

theorem compelled_mem {D : MG} (hd : IsDag D) {a b : Nat} (h : Compelled D a b) : (a, b) ∈ D.dir :=
  h D hd (MarkovEquiv.refl D)

/-- both edges of a v-structure are compelled -/
theorem vstruct_compelled {D : MG} {a c b : Nat} (h : VStruct D a c b) : Compelled D a c :=
  fun D' _ hm => ((hm.vstructs a c b).mpr h).1

theorem vstruct_symm {D : MG} {a c b : Nat} (h : VStruct D a c b) : VStruct D b c a :=
  ⟨h.2.1, h.1, Ne.symm h.2.2.1, fun hadj => h.2.2.2 (C05.Adj.symm hadj)⟩

theorem adj_of_sameGraph {C C' : MG} (h : SameGraph C C') (a b : Nat) : Adj C a b ↔ Adj C' a b := by
  obtain ⟨_, hd, hu⟩ := h
  unfold Adj
  constructor
  · rintro (h | h | h | h)
    · exact Or.inl ((hd _).mp h)
    · exact Or.inr (Or.inl ((hd _).mp h))
    · exact Or.inr (Or.inr ((hu a b).mp (Or.inl h)))
    · exact Or.inr (Or.inr ((hu a b).mp (Or.inr h)))
  · rintro (h | h | h | h)
    · exact Or.inl ((hd _).mpr h)
    · exact Or.inr (Or.inl ((hd _).mpr h))
    · exact Or.inr (Or.inr ((hu a b).mpr (Or.inl h)))
    · exact Or.inr (Or.inr ((hu a b).mpr (Or.inr h)))

/-- **"Hence two DAGs receive equal CPDAGs iff they are Markov equivalent"** – at the level of the
    specification (any graphs `C1`, `C2` that are the essential graphs of the DAGs `D1`, `D2`). -/
theorem sameGraph_iff_markovEquiv {D1 D2 C1 C2 : MG} (h1 : IsDag D1) (h2 : IsDag D2)
    (e1 : Essential D1 C1) (e2 : Essential D2 C2) : SameGraph C1 C2 ↔ MarkovEquiv D1 D2 := by
  constructor
  · intro hs
    have hskel : ∀ a b, Adj D2 a b ↔ Adj D1 a b := fun a b =>
      ((e2.skel a b).symm.trans (adj_of_sameGraph hs a b).symm).trans (e1.skel a b)
    have key : ∀ {Da Db Ca Cb : MG}, IsDag Db → Essential Da Ca → Essential Db Cb →
        (∀ e, e ∈ Ca.dir → e ∈ Cb.dir) → (∀ a b, Adj Db a b → Adj Da a b) →
        ∀ a c b, VStruct Da a c b → VStruct Db a c b := by
      intro Da Db Ca Cb hb ea eb hsub hadj a c b hv
      have hac : (a, c) ∈ Db.dir :=
        compelled_mem hb ((eb.directed a c).mp (hsub _ ((ea.directed a c).mpr (vstruct_compelled hv))))
      have hbc : (b, c) ∈ Db.dir :=
        compelled_mem hb ((eb.directed b c).mp (hsub _ ((ea.directed b c).mpr (vstruct_compelled (vstruct_symm hv)))))
      exact ⟨hac, hbc, hv.2.2.1, fun h => hv.2.2.2 (hadj a b h)⟩
    refine ⟨fun v => ((e2.nodes v).symm.trans (hs.1 v).symm).trans (e1.nodes v), hskel, ?_⟩
    intro a c b
    exact ⟨key h1 e2 e1 (fun e h => (hs.2.1 e).mpr h) (fun a b h => (hskel a b).mpr h) a c b,
           key h2 e1 e2 (fun e h => (hs.2.1 e).mp h) (fun a b h => (hskel a b).mp h) a c b⟩
  · intro hm
    refine ⟨fun v => ((e1.nodes v).trans (hm.nodes v).symm).trans (e2.nodes v).symm, ?_, ?_⟩
    · rintro ⟨a, b⟩
      exact ((e1.directed a b).trans (compelled_congr hm a b)).trans (e2.directed a b).symm
    · intro a b
      rw [e1.undirected a b, e2.undirected a b, compelled_congr hm a b, compelled_congr hm b a, hm.skel a b]

/-- the essential graph is unique (as a graph) -/
theorem essential_unique {D C C' : MG} (hd : IsDag D) (e : Essential D C) (e' : Essential D C') : SameGraph C C' :=
  (sameGraph_iff_markovEquiv hd hd e e').mpr (MarkovEquiv.refl D)

/-! ## the conditional full theorem -/

/-- `topo` is a topological order of G -/
structure IsTopo (G : MG) (topo : List Nat) : Prop where
  nodup : topo.Nodup
  nodes : ∀ v, v ∈ topo ↔ v ∈ G.nodes
  forward : ∀ a b, (a, b) ∈ G.dir → pos topo a < pos topo b

/-- **Hypothesis T3** (Chickering 2002, correctness of Order-Edges / Label-Edges; not proved here, never
    an axiom): on a DAG, with a topological order, an edge is labelled `compelled` exactly if it is
    compelled. -/
def T3 : Prop :=
  ∀ (G : MG) (topo : List Nat), IsDag G → G.WF → G.dir.Nodup → IsTopo G topo →
    ∀ a b, (a, b) ∈ G.dir → (labels G topo (a, b) = .compelled ↔ Compelled G a b)

/-- the full statement of the property's first sentence for the model -/
def C04_full : Prop :=
  ∀ (G : MG) (topo : List Nat), IsDag G → G.WF → G.dir.Nodup → IsTopo G topo →
    Essential G (dagToCpdag G topo)

/-- **C04 conditional on T3.** -/
theorem C04_full_of_T3 (h : T3) : C04_full := by
  intro G topo hd hwf hnd ht
  obtain ⟨hn, hbi, hci, hdsub, husub, hex, hskel⟩ := dagToCpdag_struct G topo hd.plain.1
  have hdmem : ∀ e, e ∈ (dagToCpdag G topo).dir ↔ e ∈ G.dir ∧ labels G topo e = .compelled := by
    intro e; simp [dagToCpdag]
  have humem : ∀ e, e ∈ (dagToCpdag G topo).un ↔ e ∈ G.dir ∧ labels G topo e = .reversible := by
    intro e; simp [dagToCpdag]
  have no2 : ∀ a b, (a, b) ∈ G.dir → (b, a) ∉ G.dir := fun a b hab hba =>
    hd.acyclic a b hab (MG.Anc.step hba (MG.Anc.refl a))
  have un_of : ∀ a b, (a, b) ∈ (dagToCpdag G topo).un → ¬ Compelled G a b ∧ ¬ Compelled G b a := by
    intro a b hab
    obtain ⟨hE, hl⟩ := (humem _).mp hab
    refine ⟨fun hc => ?_, fun hc => no2 a b hE (compelled_mem hd hc)⟩
    rw [(h G topo hd hwf hnd ht a b hE).mpr hc] at hl; cases hl
  have un_if : ∀ a b, (a, b) ∈ G.dir → ¬ Compelled G a b → (a, b) ∈ (dagToCpdag G topo).un := by
    intro a b hE hn
    rcases hex _ hE with h' | h'
    · exact absurd ((h G topo hd hwf hnd ht a b hE).mp ((hdmem _).mp h'.1).2) hn
    · exact h'.2
  refine ⟨fun v => by rw [hn], ⟨hbi, hci⟩, hskel, ?_, ?_⟩
  · intro a b
    rw [hdmem]
    constructor
    · rintro ⟨hE, hl⟩; exact (h G topo hd hwf hnd ht a b hE).mp hl
    · intro hc
      have hE := compelled_mem hd hc
      exact ⟨hE, (h G topo hd hwf hnd ht a b hE).mpr hc⟩
  · intro a b
    constructor
    · rintro (hab | hab)
      · exact ⟨(hskel a b).mp (Or.inr (Or.inr (Or.inl hab))), un_of a b hab⟩
      · exact ⟨(hskel a b).mp (Or.inr (Or.inr (Or.inr hab))), (un_of b a hab).2, (un_of b a hab).1⟩
    · rintro ⟨hadj, hn1, hn2⟩
      simp only [Adj, hd.plain.1, List.not_mem_nil, or_false] at hadj
      rcases hadj with hE | hE
      · exact Or.inl (un_if a b hE hn1)
      · exact Or.inr (un_if b a hE hn2)

/-- **C04, second sentence, conditional on T3**: two DAGs receive equal CPDAGs (whatever topological
    orders are used) iff they are Markov equivalent. -/
theorem C04_markov_of_T3 (h : T3) (G1 G2 : MG) (t1 t2 : List Nat)
    (hd1 : IsDag G1) (hw1 : G1.WF) (hn1 : G1.dir.Nodup) (ht1 : IsTopo G1 t1)
    (hd2 : IsDag G2) (hw2 : G2.WF) (hn2 : G2.dir.Nodup) (ht2 : IsTopo G2 t2) :
    SameGraph (dagToCpdag G1 t1) (dagToCpdag G2 t2) ↔ MarkovEquiv G1 G2 :=
  sameGraph_iff_markovEquiv hd1 hd2 (C04_full_of_T3 h G1 t1 hd1 hw1 hn1 ht1) (C04_full_of_T3 h G2 t2 hd2 hw2 hn2 ht2)

/-- conditional on T3 the result does not depend on the topological order -/
theorem C04_order_irrelevant_of_T3 (h : T3) (G : MG) (t1 t2 : List Nat)
    (hd : IsDag G) (hw : G.WF) (hn : G.dir.Nodup) (ht1 : IsTopo G t1) (ht2 : IsTopo G t2) :
    SameGraph (dagToCpdag G t1) (dagToCpdag G t2) :=
  (C04_markov_of_T3 h G G t1 t2 hd hw hn ht1 hd hw hn ht2).mpr (MarkovEquiv.refl G)

/-! ## non-vacuity and kernel-checked instances (tests, labelled as such) -/

/-- the suite's example `1->2->4->5, 1->3->4` -/
def ex1 : MG := { nodes := [1, 2, 3, 4, 5], dir := [(1, 2), (1, 3), (2, 4), (3, 4), (4, 5)] }

/-- test (one instance of T3's conclusion, kernel-checked): v-structure 2->4<-3 and 4->5 compelled,
    1-2, 1-3 reversible -/
example : dagToCpdag ex1 [1, 2, 3, 4, 5] =
    { nodes := [1, 2, 3, 4, 5], dir := [(2, 4), (3, 4), (4, 5)], un := [(1, 2), (1, 3)] } := by decide

/-- test: the other topological order gives the same graph -/
example : dagToCpdag ex1 [1, 3, 2, 4, 5] = dagToCpdag ex1 [1, 2, 3, 4, 5] := by decide

/-- test: isolated node kept, single edge reversible -/
example : dagToCpdag { nodes := [9, 1, 2], dir := [(1, 2)] } [9, 1, 2] =
    { nodes := [9, 1, 2], dir := [], un := [(1, 2)] } := by decide

theorem ex1_isDag : IsDag ex1 :=
  ⟨⟨rfl, rfl, rfl⟩, C05.acyclic_of_rank (fun v => 10 - v) (by
    intro a b h
    simp only [ex1, List.mem_cons, Prod.mk.injEq, List.not_mem_nil, or_false] at h
    rcases h with ⟨rfl, rfl⟩ | ⟨rfl, rfl⟩ | ⟨rfl, rfl⟩ | ⟨rfl, rfl⟩ | ⟨rfl, rfl⟩ <;> decide)⟩

theorem ex1_topo : IsTopo ex1 [1, 2, 3, 4, 5] := by
  refine ⟨by decide, fun v => Iff.rfl, ?_⟩
  intro a b h
  simp only [ex1, List.mem_cons, Prod.mk.injEq, List.not_mem_nil, or_false] at h
  rcases h with ⟨rfl, rfl⟩ | ⟨rfl, rfl⟩ | ⟨rfl, rfl⟩ | ⟨rfl, rfl⟩ | ⟨rfl, rfl⟩ <;> decide

/-- non-vacuity of the hypotheses of `C04_full_of_T3` / `C04_markov_of_T3` on a non-trivial DAG -/
example : IsDag ex1 ∧ ex1.WF ∧ ex1.dir.Nodup ∧ IsTopo ex1 [1, 2, 3, 4, 5] :=
  ⟨ex1_isDag, ⟨by decide, by decide, by decide⟩, by decide, ex1_topo⟩

/-- non-vacuity of `sameGraph_iff_markovEquiv`: 0->1 and 1->0 are Markov equivalent DAGs -/
example : MarkovEquiv { nodes := [0, 1], dir := [(0, 1)] } { nodes := [0, 1], dir := [(1, 0)] } := by
  refine ⟨fun _ => Iff.rfl, ?_, ?_⟩
  · intro a b; simp [Adj]; constructor <;> (intro h; rcases h with h | h <;> simp [h])
  · intro a c b
    simp only [VStruct, List.mem_singleton, Prod.mk.injEq]
    constructor
    · rintro ⟨⟨rfl, rfl⟩, ⟨rfl, _⟩, h, _⟩; exact absurd rfl h
    · rintro ⟨⟨rfl, rfl⟩, ⟨rfl, _⟩, h, _⟩; exact absurd rfl h

end C04
