/-! C03 — mark state of ONE node pair.

A PAG stores a pair {u,v} in four networkx layers: `directed` and `circle` are `DiGraph`s (so each
has a (u,v) and a (v,u) entry), `bidirected` and `undirected` are `Graph`s (one symmetric entry each):
6 bits, 64 states.  A CPDAG has `directed` (2 bits) and `undirected` (1 bit): 8 states.
The bits are always read *relative to an ordered pair (u,v)*; `swap` re-reads them relative to (v,u).

The accessor names `<layer>_uv`, `<layer>_vu`, `any_uv`, `any_vu` are what the guard translator
(`translate/guards.py`) emits for `graph.has_edge(u, v, graph.<layer>_edge_name)`,
`graph.has_edge(v, u, …)` and `graph.has_edge(u, v)`. -/
namespace C03

/-- edge-type argument of the public methods; `other` = any string that names no layer -/
inductive ET | all | directed | bidirected | circle | undirected | other
deriving DecidableEq, Repr

/-- PAG pair state relative to the ordered pair (u,v).
    `directed_uv`: u -> v stored (arrowhead at v); `circle_uv`: u *-o v stored (circle at v). -/
structure PBits where
  directed_uv : Bool
  directed_vu : Bool
  circle_uv : Bool
  circle_vu : Bool
  bi : Bool
  un : Bool
deriving DecidableEq, Repr

namespace PBits
def empty : PBits := ⟨false, false, false, false, false, false⟩
def swap (s : PBits) : PBits := ⟨s.directed_vu, s.directed_uv, s.circle_vu, s.circle_uv, s.bi, s.un⟩
@[inline] def bidirected_uv (s : PBits) : Bool := s.bi
@[inline] def bidirected_vu (s : PBits) : Bool := s.bi
@[inline] def undirected_uv (s : PBits) : Bool := s.un
@[inline] def undirected_vu (s : PBits) : Bool := s.un
/-- `has_edge(u, v)` with the default `edge_type="any"`: any layer reports the (u,v) entry -/
def any_uv (s : PBits) : Bool := s.directed_uv || s.bi || s.un || s.circle_uv
def any_vu (s : PBits) : Bool := s.directed_vu || s.bi || s.un || s.circle_vu
theorem swap_swap (s : PBits) : s.swap.swap = s := rfl
end PBits

/-- CPDAG pair state relative to the ordered pair (u,v) -/
structure CBits where
  directed_uv : Bool
  directed_vu : Bool
  un : Bool
deriving DecidableEq, Repr

namespace CBits
def empty : CBits := ⟨false, false, false⟩
def swap (s : CBits) : CBits := ⟨s.directed_vu, s.directed_uv, s.un⟩
@[inline] def undirected_uv (s : CBits) : Bool := s.un
@[inline] def undirected_vu (s : CBits) : Bool := s.un
def any_uv (s : CBits) : Bool := s.directed_uv || s.un
def any_vu (s : CBits) : Bool := s.directed_vu || s.un
theorem swap_swap (s : CBits) : s.swap.swap = s := rfl
end CBits

end C03
