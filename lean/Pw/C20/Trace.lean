import Pw.C20.Counter

/-!
C20 — capstone: for every history, every step of the model of the repaired code satisfies
`StepOK`, i.e. the very predicate the driver command `c20v` decides on traces observed on the
implementation.  So "implementation trace ⊨ StepOK" is compared with a specification the verified
model is proved to meet, clause by clause.
-/
namespace C20

/-- lengths: exactly one object more after a successful `new` / `copy` / add_all_snode_combinations,
the same number otherwise -/
theorem step_len_exact {s : State} (hs : HInv s) (op : Op) :
    (step Cfg.fixed s op).1.objs.length =
      match op with
      | .at _ _ => s.objs.length
      | _ => if (step Cfg.fixed s op).2 = .ok then s.objs.length + 1 else s.objs.length := by
  cases op with
  | new cls => rw [step_new, alloc_len]; simp
  | copy g =>
    show (stepCopy Cfg.fixed s g).1.objs.length = if (stepCopy Cfg.fixed s g).2 = .ok then _ else _
    cases h : s.objs[g]? with
    | none => rw [stepCopy_none h]; simp
    | some o => rw [stepCopy_some h, alloc_len]; simp
  | «at» g lop => exact stepAt_len _ _ _ _
  | allS g n =>
    cases h : s.objs[g]? with
    | none => rw [step_allS_none n h]; simp
    | some o =>
      rw [step_allS_some n h]
      have h1 := alloc_inv hs o (s.cell o) (hs.linv g o h)
      obtain ⟨_, len, _⟩ := allSLoop_spec s.objs.length (domPairs n) _ 0 h1
      rw [alloc_len] at len
      rcases hl : allSLoop Cfg.fixed (alloc s o (s.cell o)) s.objs.length (domPairs n) 0 with ⟨s2, st⟩
      rw [hl] at len
      dsimp only at len
      cases st with
      | ok => simp [len]
      | err => simp [List.length_take, len]

/-- the loop of add_all_snode_combinations never drops or changes an entry of the object it works on -/
theorem allSLoop_keeps (g : Nat) : ∀ (ds : List (Nat × Nat)) (s : State) (k : Nat), HInv s →
    ∀ b ∈ view Cfg.fixed s g, ∀ a ∈ view Cfg.fixed (allSLoop Cfg.fixed s g ds k).1 g,
      (∀ p ∈ b.fs, p ∈ a.fs) ∧ (∀ p ∈ b.ss, p ∈ a.ss) := by
  intro ds
  induction ds with
  | nil =>
    intro s k _ b hb a ha
    rw [Option.mem_def] at hb ha
    simp only [allSLoop] at ha
    rw [hb] at ha; cases ha
    exact ⟨fun _ h => h, fun _ h => h⟩
  | cons d rest ih =>
    intro s k hs b hb a ha
    cases ho : s.objs[g]? with
    | none => rw [view, ho] at hb; cases hb
    | some o =>
      have hself := stepAt_view_self hs (.rawS k d) ho
      have hkeep := stepLocal_keeps (hs.linv g o ho) (.rawS k d)
      have hinv := stepAt_inv hs g (.rawS k d)
      rw [view_at ho] at hb
      cases hb
      unfold allSLoop at ha
      rcases hst : stepAt Cfg.fixed s g (.rawS k d) with ⟨s', st⟩
      rw [hst] at ha hself hinv
      have step1 : ∀ m ∈ view Cfg.fixed s' g, (∀ p ∈ (lview (localOf s o)).fs, p ∈ m.fs) ∧
          (∀ p ∈ (lview (localOf s o)).ss, p ∈ m.ss) := by
        intro m hm
        rw [Option.mem_def, hself] at hm
        cases hm
        exact ⟨fun p hp => hkeep.1 p hp (by simp), fun p hp => hkeep.2 p hp (by simp)⟩
      cases st with
      | err => exact step1 a ha
      | ok =>
        cases hv : view Cfg.fixed s' g with
        | none => rw [hself] at hv; cases hv
        | some m =>
          obtain ⟨m1, m2⟩ := step1 m hv
          obtain ⟨a1, a2⟩ := ih s' (k + 1) hinv m hv a ha
          exact ⟨fun p hp => a1 p (m1 p hp), fun p hp => a2 p (m2 p hp)⟩

theorem sameContent_refl (v : View) : SameContent v v :=
  ⟨fun _ h => h, fun _ h => h, fun p hp => ⟨p, hp, rfl, sameEntry_refl _⟩, fun p hp => ⟨p, hp, rfl, sameEntry_refl _⟩,
    fun _ h => h, fun _ h => h⟩

/-- **The model meets the step specification** (all clauses of `StepOK`: Reg after the call, Frame,
object count, creation with fresh name and given targets, stability of everybody else's entries,
content of copies), from any state satisfying the heap invariant. -/
theorem model_stepOK {s : State} (hs : HInv s) (op : Op) :
    StepOK op (decide ((step Cfg.fixed s op).2 = .ok)) (view Cfg.fixed s) (view Cfg.fixed (step Cfg.fixed s op).1)
      s.objs.length (step Cfg.fixed s op).1.objs.length := by
  refine ⟨?_, frame_step hs op, ?_, ?_⟩
  · intro g _ v hv
    exact reg_of_inv (step_inv hs op) (Option.mem_def.1 hv)
  · have := step_len_exact hs op
    cases op <;> simpa using this
  · cases op with
    | new cls =>
      intro _ a ha
      rw [step_new, alloc_view_new, Option.mem_def] at ha
      cases ha
      exact ⟨rfl, rfl, rfl⟩
    | copy g =>
      intro _ b hb a ha
      rw [copy_same_view hs g b (Option.mem_def.1 hb), Option.mem_def] at ha
      cases ha
      exact sameContent_refl _
    | «at» g lop =>
      intro b hb a ha
      refine ⟨targets_stable_step hs g lop b hb a ha, ?_⟩
      cases lop with
      | addF ts u d => intro hok; exact addF_creates hs g ts u d (by simpa using hok) b hb a ha
      | addS d chg => intro hok; exact addS_creates hs g d chg (by simpa using hok) b hb a ha
      | addFs tss => intro hok; exact addFs_creates_heap hs g tss (by simpa using hok) b hb a ha
      | _ => trivial
    | allS g n =>
      intro hok b hb a ha
      cases h : s.objs[g]? with
      | none => rw [view, h] at hb; cases hb
      | some o =>
        rw [view_at h] at hb; cases hb
        rw [step_allS_some n h] at hok ha
        have h1 := alloc_inv hs o (s.cell o) (hs.linv g o h)
        have hk := allSLoop_keeps s.objs.length (domPairs n) _ 0 h1 _ (Option.mem_def.2 (alloc_view_new s o (s.cell o)))
        rcases hl : allSLoop Cfg.fixed (alloc s o (s.cell o)) s.objs.length (domPairs n) 0 with ⟨s2, st⟩
        rw [hl] at hok ha hk
        cases st with
        | err => simp at hok
        | ok =>
          obtain ⟨k1, k2⟩ := hk a ha
          exact ⟨fun p hp => ⟨p, k1 p hp, rfl, sameEntry_refl _⟩, fun p hp => k2 p hp⟩

/-- the specification along a whole history -/
def TraceOK (c : Cfg) : State → List Op → Prop
  | _, [] => True
  | s, op :: ops =>
    StepOK op (decide ((step c s op).2 = .ok)) (view c s) (view c (step c s op).1)
      s.objs.length (step c s op).1.objs.length ∧ TraceOK c (step c s op).1 ops

theorem traceOK_of_inv : ∀ (ops : List Op) {s : State}, HInv s → TraceOK Cfg.fixed s ops := by
  intro ops
  induction ops with
  | nil => intro _ _; trivial
  | cons op rest ih => intro s hs; exact ⟨model_stepOK hs op, ih (step_inv hs op)⟩

/-- **C20 for the model of the repaired code**: every history, from the empty process state,
satisfies the specification at every step. -/
theorem C20_model_meets_spec (ops : List Op) : TraceOK Cfg.fixed init ops := traceOK_of_inv ops init_inv

/-- non-vacuity / test: the unchanged code's model does not meet it (first witness) -/
example : ¬ TraceOK Cfg.orig init [.new .ag, .copy 0, .at 1 (.addF [] true none)] := by
  unfold TraceOK TraceOK TraceOK TraceOK
  decide

end C20
