import Pw.C19.Loop
open Closure MG

/-! # C19: the model of `acyclification` satisfies the edge characterisation, for every component order -/
namespace C19

theorem added_not_intra {G : MG} (hd : Dom G) {r r' : Nat} (hr : r ∈ G.nodes) (hr' : r' ∈ G.nodes)
    (e : Nat × Nat) : AddedD G (sc G r) e → ¬ IntraD G (sc G r') e := by
  rintro ⟨_, h2, h1⟩ ⟨_, hi⟩
  obtain ⟨hp, _⟩ := mem_scompParents.mp h1
  obtain ⟨i1, i2, _⟩ := mem_intra.mp hi
  apply hp
  rw [mem_sc hd.wf hr]
  have a := (mem_sc hd.wf hr).mp h2
  have b := (mem_sc hd.wf hr').mp i2
  have c := (mem_sc hd.wf hr').mp i1
  exact a.trans (b.symm.trans c)

/-- the component of the list that contains a given node -/
theorem comp_of {G : MG} (hd : Dom G) {order : List Nat} (ho : IsOrder G order) {v : Nat}
    (hv : v ∈ G.nodes) : ∃ r ∈ G.nodes, sc G r ∈ comps G order ∧ SC G r v := by
  obtain ⟨c, hc, hvc⟩ := comps_cover hd.wf ho v hv
  obtain ⟨r, hr, rfl⟩ := comps_spec ho c hc
  exact ⟨r, hr, hc, (mem_sc hd.wf hr).mp hvc⟩

theorem nontrivial_of_two {G : MG} (hd : Dom G) {r i j : Nat} (hr : r ∈ G.nodes) (hne : i ≠ j)
    (hi : SC G r i) (hj : SC G r j) : ¬ (sc G r).length ≤ 1 := by
  apply (sc_nontrivial_iff hd hr).mpr
  by_cases h : i = r
  · exact ⟨j, fun hjr => hne (h.trans hjr.symm), hj⟩
  · exact ⟨i, h, hi⟩

theorem eq_of_trivial {G : MG} (hd : Dom G) {r x : Nat} (hr : r ∈ G.nodes)
    (ht : (sc G r).length ≤ 1) (hx : SC G r x) : x = r := by
  apply Classical.byContradiction
  intro hne
  exact (sc_nontrivial_iff hd hr).mpr ⟨x, hne, hx⟩ ht

/-- **directed edges of the result.** `i -> j` iff `i` is outside `sc(j)` and has a directed edge
    into some member of `sc(j)`. -/
theorem acy_dir {G : MG} {order : List Nat} (hd : Dom G) (ho : IsOrder G order) (i j : Nat) :
    (i, j) ∈ (acy G order).dir ↔ DirSpec G i j := by
  have hyp : ∀ c ∈ comps G order, ∀ c' ∈ comps G order, ∀ e, AddedD G c e → ¬ IntraD G c' e := by
    intro c hc c' hc' e
    obtain ⟨r, hr, rfl⟩ := comps_spec ho c hc
    obtain ⟨r', hr', rfl⟩ := comps_spec ho c' hc'
    exact added_not_intra hd hr hr' e
  unfold acy
  rw [foldl_dir G (comps G order) G hyp (i, j)]
  constructor
  · rintro (⟨hij, hno⟩ | ⟨c, hc, hnt, hj, hp⟩)
    · have hj := (hd.wf.1 _ hij).2
      refine ⟨?_, j, SC.refl G j, hij⟩
      intro hsc
      obtain ⟨r, hr, hc, hrj⟩ := comp_of hd ho hj
      have hri : SC G r i := hrj.trans hsc.symm
      have hne : i ≠ j := by
        intro h; subst h; exact hd.noloopD i hij
      exact hno _ hc ⟨nontrivial_of_two hd hr hne hri hrj,
        mem_intra.mpr ⟨(mem_sc hd.wf hr).mpr hri, (mem_sc hd.wf hr).mpr hrj, hij⟩⟩
    · obtain ⟨r, hr, rfl⟩ := comps_spec ho c hc
      obtain ⟨hpn, k, hk, hik⟩ := mem_scompParents.mp hp
      have hrj := (mem_sc hd.wf hr).mp hj
      have hrk := (mem_sc hd.wf hr).mp hk
      refine ⟨?_, k, hrj.symm.trans hrk, hik⟩
      intro hsc
      exact hpn ((mem_sc hd.wf hr).mpr (hrj.trans hsc.symm))
  · rintro ⟨hnsc, k, hjk, hik⟩
    have hk := (hd.wf.1 _ hik).2
    have hj : j ∈ G.nodes := Anc.mem_nodes hd.wf hjk.2 hk
    obtain ⟨r, hr, hc, hrj⟩ := comp_of hd ho hj
    by_cases hnt : (sc G r).length ≤ 1
    · left
      have hkj : k = j := by
        rw [eq_of_trivial hd hr hnt hrj, eq_of_trivial hd hr hnt (hrj.trans hjk)]
      subst hkj
      refine ⟨hik, ?_⟩
      rintro c' hc' ⟨_, hin⟩
      obtain ⟨r', hr', rfl⟩ := comps_spec ho c' hc'
      obtain ⟨h1, h2, _⟩ := mem_intra.mp hin
      exact hnsc (((mem_sc hd.wf hr').mp h1).symm.trans ((mem_sc hd.wf hr').mp h2))
    · right
      refine ⟨_, hc, hnt, (mem_sc hd.wf hr).mpr hrj,
        mem_scompParents.mpr ⟨?_, k, (mem_sc hd.wf hr).mpr (hrj.trans hjk), hik⟩⟩
      intro hic
      exact hnsc (((mem_sc hd.wf hr).mp hic).symm.trans hrj)

theorem BiSpec.symm {G : MG} {i j : Nat} (h : BiSpec G i j) : BiSpec G j i := by
  obtain ⟨hne, h⟩ := h
  refine ⟨fun e => hne e.symm, ?_⟩
  rcases h with h | ⟨a, b, ha, hb, he⟩
  · exact Or.inl h.symm
  · exact Or.inr ⟨b, a, hb, ha, he.symm⟩

theorem mem_acy_bi (G : MG) (order : List Nat) (e : Nat × Nat) :
    e ∈ (acy G order).bi ↔ e ∈ G.bi ∨ ∃ c ∈ comps G order, AddedB G c e := by
  unfold acy; exact foldl_bi G _ G e

theorem acy_bi_sound {G : MG} {order : List Nat} (hd : Dom G) (ho : IsOrder G order) (i j : Nat)
    (h : (i, j) ∈ (acy G order).bi) : BiSpec G i j := by
  rcases (mem_acy_bi G order (i, j)).mp h with h | ⟨c, hc, _, h⟩
  · refine ⟨?_, Or.inr ⟨i, j, SC.refl G i, SC.refl G j, Or.inl h⟩⟩
    intro e; subst e; exact hd.noloopB i h
  · obtain ⟨r, hr, rfl⟩ := comps_spec ho c hc
    rcases h with h | ⟨hj, hi⟩
    · obtain ⟨h1, h2, hne⟩ := mem_complete.mp h
      exact ⟨fun e => hne e.symm,
        Or.inl (((mem_sc hd.wf hr).mp h1).symm.trans ((mem_sc hd.wf hr).mp h2))⟩
    · obtain ⟨s, hs, ⟨k, hk, hks⟩, his⟩ := mem_scompCC.mp hi
      have hsn : s ∈ G.nodes := by
        rcases hks with h | h
        · exact (hd.wf.2.1 _ h).2
        · exact (hd.wf.2.1 _ h).1
      have hrj := (mem_sc hd.wf hr).mp hj
      have hsi := (mem_sc hd.wf hsn).mp his
      refine ⟨?_, Or.inr ⟨s, k, hsi.symm, hrj.symm.trans ((mem_sc hd.wf hr).mp hk), hks.symm⟩⟩
      intro e; subst e
      exact hs ((mem_sc hd.wf hr).mpr (hrj.trans hsi.symm))

theorem Anc.eq_or_mem_nodes {G : MG} (hwf : G.WF) {a b : Nat} (h : Anc G a b) : a = b ∨ a ∈ G.nodes := by
  cases h with
  | refl => exact Or.inl rfl
  | step e _ => exact Or.inr (hwf.1 _ e).1

/-- one half of completeness: if the component of `j` is non-trivial the loop writes `(i, j)` -/
theorem acy_bi_half {G : MG} {order : List Nat} (hd : Dom G) {i j a b r : Nat}
    (hr : r ∈ G.nodes) (hc : sc G r ∈ comps G order) (hrj : SC G r j)
    (hnt : ¬ (sc G r).length ≤ 1) (hnsc : ¬ SC G i j) (hia : SC G i a) (hjb : SC G j b)
    (he : (a, b) ∈ G.bi ∨ (b, a) ∈ G.bi) : (i, j) ∈ (acy G order).bi := by
  have han : a ∈ G.nodes := by
    rcases he with h | h
    · exact (hd.wf.2.1 _ h).1
    · exact (hd.wf.2.1 _ h).2
  apply (mem_acy_bi G order (i, j)).mpr
  refine Or.inr ⟨_, hc, hnt, Or.inr ⟨(mem_sc hd.wf hr).mpr hrj, mem_scompCC.mpr ⟨a, ?_, ⟨b, ?_, he.symm⟩, ?_⟩⟩⟩
  · intro hac
    exact hnsc (hia.trans (((mem_sc hd.wf hr).mp hac).symm.trans hrj))
  · exact (mem_sc hd.wf hr).mpr (hrj.trans hjb)
  · exact (mem_sc hd.wf han).mpr hia.symm

/-- **bidirected edges of the result.** `i <-> j` iff `i ≠ j` and (`sc(i) = sc(j)` or some members
    of `sc(i)` and `sc(j)` are joined by a bidirected edge). -/
theorem acy_bi {G : MG} {order : List Nat} (hd : Dom G) (ho : IsOrder G order) (i j : Nat) :
    ((i, j) ∈ (acy G order).bi ∨ (j, i) ∈ (acy G order).bi) ↔ BiSpec G i j := by
  constructor
  · rintro (h | h)
    · exact acy_bi_sound hd ho i j h
    · exact (acy_bi_sound hd ho j i h).symm
  · rintro ⟨hne, h⟩
    by_cases hsc : SC G i j
    · have hj : j ∈ G.nodes := by
        rcases Anc.eq_or_mem_nodes hd.wf hsc.2 with h | h
        · exact absurd h.symm hne
        · exact h
      obtain ⟨r, hr, hc, hrj⟩ := comp_of hd ho hj
      have hri := hrj.trans hsc.symm
      left
      apply (mem_acy_bi G order (i, j)).mpr
      exact Or.inr ⟨_, hc, nontrivial_of_two hd hr hne hri hrj,
        Or.inl (mem_complete.mpr ⟨(mem_sc hd.wf hr).mpr hri, (mem_sc hd.wf hr).mpr hrj, fun e => hne e.symm⟩)⟩
    · rcases h with h | ⟨a, b, hia, hjb, he⟩
      · exact absurd h hsc
      · have han : a ∈ G.nodes ∧ b ∈ G.nodes := by
          rcases he with h | h
          · exact hd.wf.2.1 _ h
          · exact (hd.wf.2.1 _ h).symm
        have hi : i ∈ G.nodes := Anc.mem_nodes hd.wf hia.2 han.1
        have hj : j ∈ G.nodes := Anc.mem_nodes hd.wf hjb.2 han.2
        obtain ⟨rj, hrjn, hcj, hrj⟩ := comp_of hd ho hj
        obtain ⟨ri, hrin, hci, hri⟩ := comp_of hd ho hi
        by_cases hntj : (sc G rj).length ≤ 1
        · by_cases hnti : (sc G ri).length ≤ 1
          · have e1 : a = i := by
              rw [eq_of_trivial hd hrin hnti hri, eq_of_trivial hd hrin hnti (hri.trans hia)]
            have e2 : b = j := by
              rw [eq_of_trivial hd hrjn hntj hrj, eq_of_trivial hd hrjn hntj (hrj.trans hjb)]
            subst e1; subst e2
            rcases he with h | h
            · exact Or.inl ((mem_acy_bi G order _).mpr (Or.inl h))
            · exact Or.inr ((mem_acy_bi G order _).mpr (Or.inl h))
          · exact Or.inr (acy_bi_half hd hrin hci hri hnti (fun h => hsc h.symm) hjb hia he.symm)
        · exact Or.inl (acy_bi_half hd hrjn hcj hrj hntj hsc hia hjb he)

/-- every edge of a graph with the characterised directed layer follows a directed path of `G` -/
theorem anc_of_dirSpec {G A : MG} (h : ∀ i j, (i, j) ∈ A.dir ↔ DirSpec G i j) {a b : Nat}
    (hab : Anc A a b) : Anc G a b := by
  induction hab with
  | refl => exact Anc.refl _
  | step e _ ih =>
    obtain ⟨_, k, hjk, hik⟩ := (h _ _).mp e
    exact (Anc.step hik hjk.2).trans ih

/-- the characterisation of the directed layer alone forces acyclicity -/
theorem acyclic_of_dirSpec {G A : MG} (h : ∀ i j, (i, j) ∈ A.dir ↔ DirSpec G i j) : Acyclic A := by
  intro a b hab hba
  have h1 : Anc G a b := anc_of_dirSpec h (Anc.step hab (Anc.refl b))
  exact ((h a b).mp hab).1 ⟨h1, anc_of_dirSpec h hba⟩

/-- **nodes kept** -/
theorem acy_nodes (G : MG) (order : List Nat) : (acy G order).nodes = G.nodes := by
  unfold acy; exact foldl_nodes G _ G

theorem acy_un (G : MG) (order : List Nat) : (acy G order).un = G.un := by
  unfold acy; exact foldl_un G _ G

/-- **the directed layer of the result is acyclic** -/
theorem acy_acyclic {G : MG} {order : List Nat} (hd : Dom G) (ho : IsOrder G order) :
    Acyclic (acy G order) := acyclic_of_dirSpec (acy_dir hd ho)

/-- **C19, structural part.** For every input graph of the property's domain and every order in
    which the components are visited, the model of `acyclification` returns the acyclification. -/
theorem acy_isAcyclification {G : MG} {order : List Nat} (hd : Dom G) (ho : IsOrder G order) :
    IsAcyclification G (acy G order) :=
  ⟨acy_nodes G order, acy_dir hd ho, acy_bi hd ho, acy_un G order, acy_acyclic hd ho⟩

/-- **independence of the component order**: any two visiting orders give the same node list and the
    same edge sets. -/
theorem acy_order_indep {G : MG} {o1 o2 : List Nat} (hd : Dom G) (h1 : IsOrder G o1) (h2 : IsOrder G o2) :
    (acy G o1).nodes = (acy G o2).nodes ∧
    (∀ e, e ∈ (acy G o1).dir ↔ e ∈ (acy G o2).dir) ∧
    (∀ i j, ((i, j) ∈ (acy G o1).bi ∨ (j, i) ∈ (acy G o1).bi) ↔
            ((i, j) ∈ (acy G o2).bi ∨ (j, i) ∈ (acy G o2).bi)) := by
  refine ⟨by rw [acy_nodes, acy_nodes], ?_, ?_⟩
  · rintro ⟨i, j⟩; rw [acy_dir hd h1, acy_dir hd h2]
  · intro i j; rw [acy_bi hd h1, acy_bi hd h2]

/-- **`copy=True` leaves the caller's graph unchanged** (and `copy=False` hands back the written
    object) in the state model of the call -/
theorem acyclificationCall_copy_pure (G : MG) (order : List Nat) :
    (acyclificationCall true G order).1 = G ∧ (acyclificationCall true G order).2 = acy G order := by
  simp [acyclificationCall]

theorem acyclificationCall_inplace (G : MG) (order : List Nat) :
    (acyclificationCall false G order).1 = acy G order ∧
    (acyclificationCall false G order).2 = acy G order := by
  simp [acyclificationCall]

end C19
