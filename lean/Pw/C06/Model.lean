import Pw.Core.Graph
open Closure

/-! # C06 model: `inducing_path`, `_shortest_valid_path`, `_is_collider`, `dag_to_mag`
(pywhy_graphs/algorithms/generic.py), as on the tree after the `fix:` commits of branch f-a0607:

* `_shortest_valid_path` compares nodes with `==` and un-marks `cur_node` when the loop over its
  neighbours found nothing; so `visited` always is exactly the current path and the recursion is a
  depth-first enumeration of simple paths.  In the model `visited` is passed by value, which is the
  same thing.
* `dag_to_mag` uses `S.union({A})` and adds every node of `V \ (L ∪ S)` to the result.

Python sets have no order; the model iterates lists.  The returned path is a *witness* (validated,
never compared); existence does not depend on the order (theorem `C06.inducingPath_isSome_iff`). -/
namespace C06
open MG

/-- `MixedEdgeGraph.neighbors`: union of `nx.all_neighbors` over all layers -/
def nbrs (G : MG) (v : Nat) : List Nat := G.parents v ++ G.children v ++ G.spouses v ++ G.unbrs v

/-- `p ∈ _directed_sub_graph_parents(G,c) ∪ _bidirected_sub_graph_neighbors(G,c)` -/
def into (G : MG) (p c : Nat) : Bool := decide (p ∈ G.parents c) || decide (p ∈ G.spouses c)

/-- `_is_collider(G, prev, cur, next)`: decided from the node triple -/
def isCollider (G : MG) (prev cur next : Nat) : Bool := into G prev cur && into G next cur

/-- `nx.ancestors(G.sub_directed_graph(), v)`: strict ancestors -/
def ancStrict (G : MG) (v : Nat) : List Nat := closure G.nodes G.parents (G.parents v)

/-- `all_ancestors` of `inducing_path` -/
def allAnc (G : MG) (x y : Nat) (S : List Nat) : List Nat :=
  ancStrict G x ++ ancStrict G y ++ S.flatMap (ancStrict G)

/-- `_shortest_valid_path(G, x, y, L, S, visited, all_ancestors, cur, prev)`; `none` = `(False, [])`,
    `some p` = `(True, p)`.  `fuel` bounds the recursion depth (the number of nodes suffices). -/
def dfs (G : MG) (y : Nat) (L S A : List Nat) : Nat → List Nat → Nat → Nat → Option (List Nat)
  | 0, _, _, _ => none
  | fuel + 1, visited, cur, prev =>
    let visited := cur :: visited                      -- visited.add(cur_node)
    if cur = y then some [y] else                      -- if cur_node == node_y
    (nbrs G cur).findSome? fun elem =>                 -- for elem in neighbors
      if elem ∈ visited then none                      --   continue
      else if isCollider G prev cur elem && !decide (cur ∈ A) && !decide (cur ∈ S) then none
      else if !isCollider G prev cur elem && !decide (cur ∈ L) then none
      else (dfs G y L S A fuel visited elem cur).map (cur :: ·)

/-- the search started from `x` (loop over `x_neighbors`) -/
def search (G : MG) (x y : Nat) (L S : List Nat) : Option (List Nat) :=
  let A := allAnc G x y S
  (nbrs G x).findSome? fun elem =>
    if elem ∈ [x] then none
    else (dfs G y L S A G.nodes.length [x] elem x).map (x :: ·)

/-- `inducing_path(G, x, y, L, S)`; `error` = `ValueError` -/
def inducingPath (G : MG) (x y : Nat) (L S : List Nat) : Except String (Option (List Nat)) :=
  if x ∉ G.nodes ∨ y ∉ G.nodes then .error "value"
  else if x = y then .error "value"
  else if x ∈ L ∨ y ∈ L ∨ x ∈ S ∨ y ∈ S then .ok none
  else if G.un ≠ [] ∨ G.circ ≠ [] then .error "value"
  else .ok (search G x y L S)

/-- `inducing_path(...)[0] is True` -/
def hasInd (G : MG) (L S : List Nat) (a b : Nat) : Bool :=
  match inducingPath G a b L S with
  | .ok (some _) => true
  | _ => false

/-- ancestors of `S ∪ {A}` as computed in `dag_to_mag` (union of strict ancestor sets) -/
def ansOf (G : MG) (S : List Nat) (a : Nat) : List Nat := (S ++ [a]).flatMap (ancStrict G)

/-- keep the first of `(a,b)` / `(b,a)`:  `{source, dest} not in adj_nodes` -/
def dedupUnordered : List (Nat × Nat) → List (Nat × Nat) → List (Nat × Nat)
  | acc, [] => acc.reverse
  | acc, p :: rest =>
    if p ∈ acc ∨ (p.2, p.1) ∈ acc then dedupUnordered acc rest else dedupUnordered (p :: acc) rest

/-- the adjacent pairs collected by the first double loop of `dag_to_mag` -/
def adjPairs (G : MG) (L S : List Nat) : List (Nat × Nat) :=
  dedupUnordered [] (G.nodes.flatMap fun s =>
    ((G.nodes.filter (· ≠ s)).filter (fun d => hasInd G L S s d)).map (s, ·))

/-- `(A in ansB, B in ansA)` -/
def kindOf (G : MG) (S : List Nat) (p : Nat × Nat) : Bool × Bool :=
  (decide (p.1 ∈ ansOf G S p.2), decide (p.2 ∈ ansOf G S p.1))

/-- `dag_to_mag(G, L, S)` -/
def dagToMag (G : MG) (L S : List Nat) : Except String MG :=
  if G.un ≠ [] ∨ G.circ ≠ [] then .error "value" else
  let adj := adjPairs G L S
  .ok { nodes := G.nodes.filter (fun v => decide (v ∉ L) && decide (v ∉ S)),
        dir := adj.filterMap fun p =>
          match kindOf G S p with
          | (true, false) => some (p.1, p.2)      -- A -> B
          | (false, true) => some (p.2, p.1)      -- A <- B
          | _ => none,
        bi := (adj.filter fun p => kindOf G S p == (false, false)).map fun p => (p.2, p.1),
        un := (adj.filter fun p => kindOf G S p == (true, true)).map fun p => (p.2, p.1) }

end C06
