import Pw.C08.Sound
open Closure

/-! # C08 proofs, part 2: the fixpoint loop – invariants, termination, fixpoint, soundness -/
namespace C08
open MG

/-- `G` is reached from `P` by orienting, one at a time, undirected edges in a compelled direction -/
inductive Steps (P : MG) : MG → Prop
  | refl : Steps P P
  | step {G : MG} {i j : Nat} : Steps P G → HasUn G i j → Compelled G i j → Steps P (orient G i j)

theorem Steps.trans {P G H : MG} (h1 : Steps P G) (h2 : Steps G H) : Steps P H := by
  induction h2 with
  | refl => exact h1
  | step _ hu hc ih => exact Steps.step ih hu hc

theorem Steps.simple {P G : MG} (h : Steps P G) (hs : Simple P) : Simple G := by
  induction h with
  | refl => exact hs
  | step _ _ _ ih => exact simple_orient ih

theorem Steps.nodes {P G : MG} (h : Steps P G) : G.nodes = P.nodes := by
  induction h with
  | refl => rfl
  | step _ _ _ ih => exact ih

theorem Steps.skel {P G : MG} (h : Steps P G) (a b : Nat) : Skel G a b ↔ Skel P a b := by
  induction h with
  | refl => exact Iff.rfl
  | step _ hu _ ih => exact (skel_orient hu a b).trans ih

theorem Steps.dir_mono {P G : MG} (h : Steps P G) : ∀ e ∈ P.dir, e ∈ G.dir := by
  induction h with
  | refl => exact fun _ h => h
  | step _ _ _ ih => exact fun e he => mem_orient_dir.mpr (Or.inl (ih e he))

theorem Steps.un_anti {P G : MG} (h : Steps P G) : ∀ e ∈ G.un, e ∈ P.un := by
  induction h with
  | refl => exact fun _ h => h
  | step _ _ _ ih => exact fun e he => ih e (mem_orient_un.mp he).1

/-- every consistent extension of the input is a consistent extension of every intermediate graph -/
theorem Steps.ext {P G : MG} (h : Steps P G) {D : MG} (hD : ConsistentExt P D) : ConsistentExt G D := by
  induction h with
  | refl => exact hD
  | step _ hu hc ih => exact ext_orient ih hu (hc _ ih)

/-- every arrow of an intermediate graph is an input arrow or a compelled orientation of an
    undirected input edge -/
theorem Steps.dir_sound {P G : MG} (h : Steps P G) :
    ∀ e ∈ G.dir, e ∈ P.dir ∨ (HasUn P e.1 e.2 ∧ Compelled P e.1 e.2) := by
  induction h with
  | refl => exact fun e he => Or.inl he
  | @step G i j hs hu hc ih =>
    intro e he
    rcases mem_orient_dir.mp he with he | rfl
    · exact ih e he
    · refine Or.inr ⟨?_, fun D hD => hc D (hs.ext hD)⟩
      rcases hu with hu | hu
      · exact Or.inl (hs.un_anti _ hu)
      · exact Or.inr (hs.un_anti _ hu)

/-- an undirected input edge is, in every intermediate graph, still undirected or directed one way -/
theorem Steps.un_cases {P G : MG} (h : Steps P G) {a b : Nat} (hu : HasUn P a b) :
    HasUn G a b ∨ (a, b) ∈ G.dir ∨ (b, a) ∈ G.dir := by
  have := (h.skel a b).mpr hu.skel
  unfold Skel at this
  rcases this with h1 | h1 | h1 | h1
  · exact Or.inr (Or.inl h1)
  · exact Or.inr (Or.inr h1)
  · exact Or.inl (Or.inl h1)
  · exact Or.inl (Or.inr h1)

/-! ## one rule, one pair -/

def mu (G : MG) : Nat := G.un.length

theorem mu_orient_lt {G : MG} {i j : Nat} (h : HasUn G i j) : mu (orient G i j) < mu G := by
  unfold mu orient
  simp only
  have hle := List.length_filter_le (fun e => !(e == (i, j) || e == (j, i))) G.un
  rcases Nat.lt_or_ge ((G.un.filter fun e => !(e == (i, j) || e == (j, i))).length) G.un.length with hlt | hge
  · exact hlt
  · have heq : (G.un.filter fun e => !(e == (i, j) || e == (j, i))).length = G.un.length := by omega
    rw [List.length_filter_eq_length_iff] at heq
    rcases h with h | h
    · have := heq _ h; simp at this
    · have := heq _ h; simp at this

/-- what one rule call does: nothing (flag `false`), or a sound orientation (flag `true`) -/
structure Prog (G : MG) (r : MG × Bool) : Prop where
  steps : Steps G r.1
  same : r.2 = false → r.1 = G
  lt : r.2 = true → mu r.1 < mu G

theorem Prog.le {G : MG} {r : MG × Bool} (h : Prog G r) : mu r.1 ≤ mu G := by
  cases hr : r.2 with
  | false => rw [h.same hr]; exact Nat.le_refl _
  | true => exact Nat.le_of_lt (h.lt hr)

theorem Prog.refl (G : MG) : Prog G (G, false) := ⟨Steps.refl, fun _ => rfl, fun h => (by cases h)⟩

theorem Prog.trans {G : MG} {r : MG × Bool} (h1 : Prog G r) {r' : MG × Bool} (h2 : Prog r.1 r') :
    Prog G (r'.1, r.2 || r'.2) where
  steps := h1.steps.trans h2.steps
  same := by
    intro h
    simp only [Bool.or_eq_false_iff] at h
    rw [h2.same h.2, h1.same h.1]
  lt := by
    intro h
    simp only [Bool.or_eq_true] at h
    rcases h with h | h
    · exact Nat.lt_of_le_of_lt h2.le (h1.lt h)
    · exact Nat.lt_of_lt_of_le (h2.lt h) h1.le

theorem fire_prog {G : MG} {i j : Nat} {c : Bool}
    (hc : HasUn G i j → c = true → Compelled G i j) : Prog G (fire G i j c) := by
  unfold fire
  by_cases h : (hasUn G i j && c) = true
  · rw [if_pos h]
    simp only [Bool.and_eq_true] at h
    have hu := hasUn_iff.mp h.1
    exact ⟨Steps.step Steps.refl hu (hc hu h.2), fun h => (by cases h), fun _ => mu_orient_lt hu⟩
  · rw [if_neg h]; exact Prog.refl G

theorem applyPair_prog {G : MG} {inner : List Nat} (hs : Simple G) (hin : inner.Nodup) (i j : Nat) :
    Prog G (applyPair G inner i j) := by
  unfold applyPair
  by_cases hij : (i == j) = true
  · rw [if_pos hij]; exact Prog.refl G
  · rw [if_neg hij]
    have p1 : Prog G (rule1 G i j) := fire_prog fun hu hc => cond1_sound hs hu hc
    have s1 := p1.steps.simple hs
    have p2 : Prog (rule1 G i j).1 (rule2 (rule1 G i j).1 i j) := fire_prog fun hu hc => cond2_sound hu hc
    have s2 := p2.steps.simple s1
    have p3 : Prog (rule2 (rule1 G i j).1 i j).1 (rule3 (rule2 (rule1 G i j).1 i j).1 inner i j) :=
      fire_prog fun hu hc => cond3_sound s2 hin hu hc
    have s3 := p3.steps.simple s2
    have p4 : Prog (rule3 (rule2 (rule1 G i j).1 i j).1 inner i j).1
        (rule4 (rule3 (rule2 (rule1 G i j).1 i j).1 inner i j).1 inner i j) :=
      fire_prog fun hu hc => cond4_sound s3 hu hc
    have := ((p1.trans p2).trans p3).trans p4
    simpa [Bool.or_assoc] using this

/-! ## the loops -/

theorem innerLoop_prog {P : MG} {inner : List Nat} (hs : Simple P) (hin : inner.Nodup) (i : Nat) :
    ∀ (js : List Nat) (s : MG × Bool), Prog P s → Prog P (innerLoop inner i js s)
  | [], s, h => h
  | j :: js, (G, ch), h => by
    unfold innerLoop
    exact innerLoop_prog hs hin i js _ (h.trans (applyPair_prog (h.steps.simple hs) hin i j))

theorem outerLoop_prog {P : MG} {inner : List Nat} (hs : Simple P) (hin : inner.Nodup) :
    ∀ (is : List Nat) (s : MG × Bool), Prog P s → Prog P (outerLoop inner is s)
  | [], s, h => h
  | i :: is, (G, ch), h => by
    unfold outerLoop
    exact outerLoop_prog hs hin is _ (innerLoop_prog hs hin i _ _ h)

theorem pass_prog {G : MG} {inner : List Nat} (hs : Simple G) (hin : inner.Nodup) :
    Prog G (pass G inner) := outerLoop_prog hs hin _ _ (Prog.refl G)

theorem meekLoop_steps {inner : List Nat} (hin : inner.Nodup) :
    ∀ (f : Nat) (G : MG), Simple G → Steps G (meekLoop inner f G)
  | 0, G, _ => Steps.refl
  | f + 1, G, hs => by
    unfold meekLoop
    have p := pass_prog (inner := inner) hs hin
    simp only
    split
    · exact p.steps.trans (meekLoop_steps hin f _ (p.steps.simple hs))
    · exact p.steps

/-- **termination and fixpoint**: with fuel above the number of undirected edges the loop ends in a
    graph on which a whole sweep changes nothing and reports no change -/
theorem meekLoop_fixpoint {inner : List Nat} (hin : inner.Nodup) :
    ∀ (f : Nat) (G : MG), Simple G → mu G < f →
      pass (meekLoop inner f G) inner = (meekLoop inner f G, false)
  | 0, G, _, h => by cases h
  | f + 1, G, hs, h => by
    unfold meekLoop
    have p := pass_prog (inner := inner) hs hin
    simp only
    cases hr : (pass G inner).2 with
    | true =>
      simp only [if_true]
      have := p.lt hr
      exact meekLoop_fixpoint hin f _ (p.steps.simple hs) (by omega)
    | false =>
      simp only [Bool.false_eq_true, if_false]
      have h1 := p.same hr
      rw [h1]
      exact Prod.ext h1 hr

theorem meek_steps {G : MG} {inner : List Nat} (hs : Simple G) (hin : inner.Nodup) :
    Steps G (meek G inner) := meekLoop_steps hin _ G hs

theorem meek_fixpoint {G : MG} {inner : List Nat} (hs : Simple G) (hin : inner.Nodup) :
    pass (meek G inner) inner = (meek G inner, false) :=
  meekLoop_fixpoint hin _ G hs (Nat.lt_succ_self _)

/-! ## the soundness clauses of C08 -/

/-- **C08, second sentence** (any PDAG of the `CPDAG` class, any iteration orders): the closure keeps
    nodes and skeleton, keeps every arrow, turns undirected edges into arrows only, every new arrow
    holds in every consistent DAG extension of the input, every consistent extension of the input is
    one of the result, and the result is a fixpoint of the sweep. -/
theorem meek_sound (P : MG) (inner : List Nat) (hs : Simple P) (hin : inner.Nodup) :
    (meek P inner).nodes = P.nodes ∧
    (∀ a b, Skel (meek P inner) a b ↔ Skel P a b) ∧
    (∀ e ∈ P.dir, e ∈ (meek P inner).dir) ∧
    (∀ e ∈ (meek P inner).un, e ∈ P.un) ∧
    (∀ e ∈ (meek P inner).dir, e ∈ P.dir ∨ (HasUn P e.1 e.2 ∧ Compelled P e.1 e.2)) ∧
    (∀ D, ConsistentExt P D → ConsistentExt (meek P inner) D) ∧
    Simple (meek P inner) ∧
    pass (meek P inner) inner = (meek P inner, false) :=
  let h := meek_steps hs hin
  ⟨h.nodes, h.skel, h.dir_mono, h.un_anti, h.dir_sound, fun _ hD => h.ext hD, h.simple hs,
    meek_fixpoint hs hin⟩

end C08
