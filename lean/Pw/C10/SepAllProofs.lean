import Pw.C10.SepAll
import Pw.C01.Full
open Closure

/-! # C10: the bounded separation decider is complete -/
namespace C10
open MG

/-- an m-connecting walk only looks at *membership* in Z and in the ancestor list -/
theorem conn_congr {G : MG} {Z Z' anZ anZ' : List Nat} (hZ : ∀ a, a ∈ Z ↔ a ∈ Z')
    (hA : ∀ a, a ∈ anZ ↔ a ∈ anZ') {x v : Nat} {m : Mark} (h : Conn G Z anZ x v m) :
    Conn G Z' anZ' x v m := by
  induction h with
  | start => exact .start
  | @step v w m mv mw _ he hc ih =>
    refine .step ih he ?_
    by_cases hh : m = .head ∧ mv = .head
    · rw [if_pos hh] at hc ⊢; exact (hA _).mp hc
    · rw [if_neg hh] at hc ⊢; exact fun h => hc ((hZ _).mpr h)

theorem anc_congr (G : MG) {Z Z' : List Nat} (hZ : ∀ a, a ∈ Z ↔ a ∈ Z') (a : Nat) :
    a ∈ G.anc Z ↔ a ∈ G.anc Z' := by
  unfold MG.anc
  rw [mem_closure, mem_closure]
  constructor
  · rintro ⟨w, hw, h⟩; exact ⟨w, (hZ w).mp hw, h⟩
  · rintro ⟨w, hw, h⟩; exact ⟨w, (hZ w).mpr hw, h⟩

/-- the model's answer depends on X, Y, Z as sets only -/
theorem mSeparated_congr (G : MG) (hwf : G.WF) {X X' Y Y' Z Z' : List Nat}
    (hXn : ∀ x ∈ X, x ∈ G.nodes) (hX : ∀ a, a ∈ X ↔ a ∈ X') (hY : ∀ a, a ∈ Y ↔ a ∈ Y')
    (hZ : ∀ a, a ∈ Z ↔ a ∈ Z') : mSeparated G X Y Z = mSeparated G X' Y' Z' := by
  have hXn' : ∀ x ∈ X', x ∈ G.nodes := fun x hx => hXn x ((hX x).mpr hx)
  rw [Bool.eq_iff_iff, mSeparated_eq_noWalk G hwf X Y Z hXn, mSeparated_eq_noWalk G hwf X' Y' Z' hXn']
  apply not_congr
  constructor
  · rintro ⟨x, hx, y, hy, m, hc⟩
    exact ⟨x, (hX x).mp hx, y, (hY y).mp hy, m, conn_congr hZ (anc_congr G hZ) hc⟩
  · rintro ⟨x, hx, y, hy, m, hc⟩
    exact ⟨x, (hX x).mpr hx, y, (hY y).mpr hy, m,
      conn_congr (fun a => (hZ a).symm) (fun a => (anc_congr G hZ a).symm) hc⟩

theorem mSeparated_nil_left (G : MG) (Y Z : List Nat) : mSeparated G [] Y Z = true := by
  simp [mSeparated, closure, go]

theorem mSeparated_nil_right (G : MG) (X Z : List Nat) : mSeparated G X [] Z = true := by
  simp [mSeparated]

/-- the enumeration contains the trace of every disjoint triple on the node list -/
theorem mem_queries (X Y Z : List Nat) (hXY : ∀ a ∈ X, a ∉ Y) (hXZ : ∀ a ∈ X, a ∉ Z)
    (hYZ : ∀ a ∈ Y, a ∉ Z) : ∀ vs : List Nat,
    (vs.filter (· ∈ X), vs.filter (· ∈ Y), vs.filter (· ∈ Z)) ∈ queries vs
  | [] => by simp [queries]
  | v :: vs => by
    have ih := mem_queries X Y Z hXY hXZ hYZ vs
    simp only [queries, List.mem_flatMap]
    refine ⟨_, ih, ?_⟩
    by_cases hx : v ∈ X
    · have hy := hXY v hx
      have hz := hXZ v hx
      simp [hx, hy, hz]
    · by_cases hy : v ∈ Y
      · have hz := hYZ v hy
        simp [hx, hy, hz]
      · by_cases hz : v ∈ Z
        · simp [hx, hy, hz]
        · simp [hx, hy, hz]

/-- **the bounded decider is complete**: if `sepAllBad G R = none` the C01 model answers the same
    on R and on G for all pairwise disjoint X, Y, Z of nodes of G -/
theorem sepAllBad_none {G R : MG} (hG : G.WF) (hR : R.WF) (hsub : ∀ v ∈ G.nodes, v ∈ R.nodes)
    (h : sepAllBad G R = none) (X Y Z : List Nat) (hX : ∀ x ∈ X, x ∈ G.nodes)
    (hY : ∀ y ∈ Y, y ∈ G.nodes) (hZ : ∀ z ∈ Z, z ∈ G.nodes) (hXY : ∀ a ∈ X, a ∉ Y)
    (hXZ : ∀ a ∈ X, a ∉ Z) (hYZ : ∀ a ∈ Y, a ∉ Z) :
    mSeparated R X Y Z = mSeparated G X Y Z := by
  have mf : ∀ (S : List Nat), (∀ s ∈ S, s ∈ G.nodes) → ∀ a, a ∈ S ↔ a ∈ G.nodes.filter (· ∈ S) := by
    intro S hS a
    simp only [List.mem_filter, decide_eq_true_eq]
    exact ⟨fun ha => ⟨hS a ha, ha⟩, fun ha => ha.2⟩
  rw [mSeparated_congr G hG hX (mf X hX) (mf Y hY) (mf Z hZ),
    mSeparated_congr R hR (fun x hx => hsub x (hX x hx)) (mf X hX) (mf Y hY) (mf Z hZ)]
  generalize hX' : G.nodes.filter (· ∈ X) = X'
  generalize hY' : G.nodes.filter (· ∈ Y) = Y'
  generalize hZ' : G.nodes.filter (· ∈ Z) = Z'
  have hmem : (X', Y', Z') ∈ queries G.nodes := by
    rw [← hX', ← hY', ← hZ']; exact mem_queries X Y Z hXY hXZ hYZ G.nodes
  cases hxe : X' with
  | nil => rw [mSeparated_nil_left, mSeparated_nil_left]
  | cons x xs =>
    cases hye : Y' with
    | nil => rw [mSeparated_nil_right, mSeparated_nil_right]
    | cons y ys =>
      have hp : (X', Y', Z') ∈ properQueries G.nodes := by
        simp only [properQueries, List.mem_filter]
        exact ⟨hmem, by simp [hxe, hye]⟩
      have := List.find?_eq_none.mp h _ hp
      rw [hxe, hye] at this
      simp only [bne_iff_ne, ne_eq, Decidable.not_not] at this
      exact this.symm

end C10
