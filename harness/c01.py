"""C01: m_separated decides m-separation.  Implementation vs the Lean model `MG.mSeparatedE`
(proved equal to the path-level specification: theorem MG.mSeparatedE_spec)."""
import itertools

from . import common as C
from .shrink import shrink_case

PID = "C01"


def in_domain(g):
    """quantifier of C01: directed part acyclic; if undirected edges exist, no arrowhead at an
    endpoint of an undirected edge; no self loops"""
    heads = set(b for a, b in g["D"]) | set(x for e in g["B"] for x in e)
    if any(a in heads or b in heads for a, b in g["U"]):
        return False
    if any(a == b for k in "DBU" for a, b in g[k]):
        return False
    return True


def queries(n, singleton_only=False):
    nodes = list(range(n))
    for assign in itertools.product((0, 1, 2, 3), repeat=n):  # 0 none,1 X,2 Y,3 Z
        X = [v for v in nodes if assign[v] == 1]
        Y = [v for v in nodes if assign[v] == 2]
        Z = [v for v in nodes if assign[v] == 3]
        if not X or not Y:
            continue
        if singleton_only and (len(X) > 1 or len(Y) > 1):
            continue
        yield X, Y, Z


def line(case, X=None, Y=None, Z=None):
    return "msep %s X=%s Y=%s Z=%s" % (C.g_line(case["g"]), C.fmt_set(case["X"] if X is None else X),
                                       C.fmt_set(case["Y"] if Y is None else Y),
                                       C.fmt_set(case["Z"] if Z is None else Z))


def impl(case):
    """returns dict: ans, swapped, mutated"""
    import networkx as nx
    import pywhy_graphs.networkx as pywhy_nx
    g = case["g"]
    lab = C.Labels(case.get("fam", "int"))
    layers = case.get("layers", "DBU")
    try:
        if case.get("cls") == "ADMG":
            from pywhy_graphs import ADMG
            G = ADMG()
            for v in C.g_nodes(g):
                G.add_node(lab(v))
            for k, nm in (("D", "directed"), ("B", "bidirected"), ("U", "undirected")):
                for a, b in g[k]:
                    G.add_edge(lab(a), lab(b), edge_type=nm)
        else:
            G = C.build_mixed(g, lab, layers=tuple(layers), names=case.get("names"))
    except Exception as e:  # construction problems are not what C01 is about
        return {"ans": "err:build:" + type(e).__name__}
    X = {lab(v) for v in case["X"]}
    Y = {lab(v) for v in case["Y"]}
    Z = {lab(v) for v in case["Z"]}
    if C.warm_decide(case, 4):
        # query, edit the same object in place, query again (per-object memo tables / cached views go stale)
        _n = case.get("names") or {"D": "directed", "B": "bidirected", "U": "undirected"}
        _kw = ({"directed_edge_name": _n["D"], "bidirected_edge_name": _n["B"], "undirected_edge_name": _n["U"]}
               if case.get("names") else {})
        C.warmup(G, lambda: pywhy_nx.m_separated(G, set(X), set(Y), set(Z), **_kw), layers=(_n["D"], _n["B"], _n["U"]))
    before = C.snapshot(G)

    nm = case.get("names")
    kwn = ({"directed_edge_name": nm["D"], "bidirected_edge_name": nm["B"], "undirected_edge_name": nm["U"]}
           if nm else {})

    def call(a, b):
        try:
            # a set of nodes may be handed over as any set type; with labels that contain other labels a frozenset
            # of nodes can be EQUAL to a node label and still means its members
            wrap = frozenset if case.get("fam") == "nested" else set
            r = pywhy_nx.m_separated(G, wrap(a), wrap(b), wrap(Z), **kwn)
            return "T" if r is True else ("F" if r is False else "bad:" + repr(r))
        except nx.NetworkXError as e:
            return "err:cyclic" if "acyclic" in str(e) else "err:nx"
        except Exception as e:
            return "err:" + type(e).__name__
    ans = call(X, Y)
    sw = call(Y, X)
    after = C.snapshot(G)
    return {"ans": ans, "swapped": sw, "mutated": before != after}


def gen_cases(ctx):
    tier, rng = ctx["tier"], ctx["rng"]
    # (i) exhaustive small ADMGs (incl. cyclic ones for the guard) and ancestral graphs with undirected edges
    for n in (2, 3):
        for g in C.enum_graphs(n, C.ADMG_STATES + [("U",)]):
            if not in_domain(g):
                continue
            for X, Y, Z in queries(n):
                yield {"g": g, "X": X, "Y": Y, "Z": Z, "src": "exh%d" % n}
    if tier == "thorough":
        for g in C.enum_graphs(4, C.ADMG_STATES):
            for X, Y, Z in queries(4, singleton_only=True):
                yield {"g": g, "X": X, "Y": Y, "Z": Z, "src": "exh4"}
        for g in C.enum_graphs(4, [(), ("D>",), ("D<",), ("B",), ("U",)]):
            if g["U"] and in_domain(g):
                for X, Y, Z in queries(4, singleton_only=True):
                    yield {"g": g, "X": X, "Y": Y, "Z": Z, "src": "exh4u"}
    # (ii) structured random
    N = 20000 if tier == "quick" else 150000
    fams = C.Labels.FAMILIES
    for i in range(N):
        n = rng.choice((4, 5, 5, 6, 6, 7, 8))
        kind = rng.random()
        if kind < 0.45:
            g = C.rand_dag_order_graph(rng, n, C.ADMG_STATES[1:], density=rng.choice((0.3, 0.5, 0.7)))
        elif kind < 0.75:
            g = C.rand_dag_order_graph(rng, n, [("D>",), ("B",), ("U",), ("D>", "B")], density=0.5)
            # repair domain (b): drop undirected edges that touch an arrowhead
            heads = set(b for a, b in g["D"]) | set(x for e in g["B"] for x in e)
            g["U"] = [e for e in g["U"] if e[0] not in heads and e[1] not in heads]
        elif kind < 0.9:
            g = C.rand_dag_order_graph(rng, n, [("D>",), ("D>",), ("B",)], density=0.35)
        else:
            g = C.rand_graph(rng, n, C.ADMG_STATES_CYC, density=0.5)  # often cyclic: guard
        nodes = list(range(n))
        rng.shuffle(nodes)
        kx, ky = rng.choice((1, 1, 1, 2)), rng.choice((1, 1, 2))
        X, Y = nodes[:kx], nodes[kx:kx + ky]
        rest = nodes[kx + ky:]
        Z = [v for v in rest if rng.random() < rng.choice((0.15, 0.4))]
        case = {"g": C.shuffled_graph(rng, g) if i % 3 == 0 else g, "X": sorted(X), "Y": sorted(Y),
                "Z": sorted(Z), "src": "rnd", "fam": fams[i % len(fams)]}
        # graphs missing a layer: only when that layer is empty
        present = "".join(k for k in "DBU" if g[k] or rng.random() < 0.5)
        if i % 4 == 1 and present:
            case["layers"] = present
        if i % 7 == 2:
            case["cls"] = "ADMG"
        elif i % 7 == 4:
            # the edge-type names are parameters of m_separated: non-default names must behave the same
            case["names"] = {"D": "arrow", "B": "confounded", "U": "line", "C": "circle"}
        yield case
    # (iv) a few LARGE structured inputs (deep recursion, quadratic tables, fixed-width counters only show here);
    # the verified model is still the oracle (about 2 s for 600 nodes)
    N = 600
    chain = [(i, i + 1) for i in range(N - 1)]
    yield {"g": C.g_new(N, D=chain), "X": [0], "Y": [N - 1], "Z": [], "src": "big", "fam": "int"}
    yield {"g": C.g_new(N, D=chain), "X": [0], "Y": [N - 1], "Z": [N // 2], "src": "big", "fam": "str"}
    # x -> c <- y with the collider opened only by a descendant 500 steps below it
    deep = [(0, 2), (1, 2)] + [(i, i + 1) for i in range(2, 502)]
    yield {"g": C.g_new(503, D=deep), "X": [0], "Y": [1], "Z": [502], "src": "big", "fam": "int"}
    yield {"g": C.g_new(503, D=deep), "X": [1], "Y": [0], "Z": [], "src": "big", "fam": "tuple"}
    # 150 common parents of two nodes joined by a bidirected edge
    par = [(i, 150) for i in range(150)] + [(i, 151) for i in range(150)]
    yield {"g": C.g_new(152, D=par, B=[(150, 151)]), "X": [150], "Y": [151], "Z": list(range(150)), "src": "big", "fam": "int"}
    yield {"g": C.g_new(152, D=par), "X": [150], "Y": [151], "Z": list(range(149)), "src": "big", "fam": "bigint"}
    # (iii) long connecting paths by construction (several colliders opened by Z or by a descendant in Z,
    # undirected and bidirected stretches between them) and their one-node perturbations
    for i in range(4000 if tier == "quick" else 40000):
        g, x, y, Z, col, non = C.rand_path_template(rng)
        r = rng.random()
        if r < 0.25 and Z:
            Z = [z for z in Z if z != rng.choice(Z)]
        elif r < 0.4 and non:
            Z = sorted(set(Z) | {rng.choice(non)})
        elif r < 0.5:
            others = [v for v in C.g_nodes(g) if v not in (x, y) and v not in Z]
            if others:
                Z = sorted(set(Z) | {rng.choice(others)})
        case = {"g": g, "X": [x], "Y": [y], "Z": sorted(Z), "src": "path", "fam": fams[i % len(fams)]}
        if i % 5 == 0 and not g["U"]:
            case["cls"] = "ADMG"
        yield case


def judge(ctx, case, got, model, base):
    """classify one case; model/base are the Lean answers for (X,Y,Z) and (X,Y,{})"""
    out, ev = ctx["out"], ctx["ev"]
    ev.case(case, nontrivial=(case["Z"] and model != base and not model.startswith("err")), sample_every=5000)
    ev.count("src:" + case["src"])
    ev.count("ans:" + model)
    if got["ans"] != model:
        return "answer", "implementation=%s model/spec=%s" % (got["ans"], model)
    if got.get("swapped") != got["ans"]:
        return "symmetry", "m_separated(X,Y)=%s but m_separated(Y,X)=%s" % (got["ans"], got["swapped"])
    if got.get("mutated"):
        return "mutation", "the call changed the graph"
    return None


def fails(case, drv):
    got = impl(case)
    model = drv.ask(line(case))
    if got["ans"] != model:
        return True
    return got.get("swapped") != got["ans"] or bool(got.get("mutated"))


def run(ctx):
    ev, out = ctx["ev"], ctx["out"]
    ev.rule = ("exhaustive: every graph on 2-3 nodes (thorough: 4) over pair states {none,->,<-,<->,->+<->,<-+<->,--} "
               "inside the C01 domain (cyclic directed layers kept for the guard) x every disjoint (X,Y,Z); random: "
               "n in 4..8, DAG-ordered ADMGs, bows, ancestral graphs with undirected parts, cyclic graphs, shuffled "
               "insertion order, all label families, missing layers, ADMG class, non-default edge-type names; path templates: graphs grown around one long path (3-7 hops, colliders opened by Z or by a descendant in Z, undirected / bidirected stretches) with Z making it connecting, and one-node perturbations of that Z. non-trivial = Z non-empty and the "
               "verified model's answer differs from its answer for Z={} (conditioning matters)")
    ev.assumptions = ["node sets are subsets of V and pairwise disjoint (the property's quantifier)",
                      "label->index bijection and canonicalisation in harness/common.py"]
    cases = list(gen_cases(ctx))
    ev.exhaustive = False
    lines = [line(c) for c in cases] + [line(c, Z=[]) for c in cases]
    ans = C.lean_batch(lines)
    models, bases = ans[:len(cases)], ans[len(cases):]
    gots = C.pmap(impl, cases, chunksize=256)
    bad = []
    for case, got, m, b in zip(cases, gots, models, bases):
        r = judge(ctx, case, got, m, b)
        if r:
            bad.append((case, r))
    ev.extra["exhaustive_part"] = "graphs<=3 nodes (quick) / <=4 nodes singleton X,Y (thorough) enumerated completely"
    if bad:
        drv = C.Driver()
        try:
            bad.sort(key=lambda cd: cd[0]["g"]["n"] > 40)      # report a small case first if there is one
            case, (kind, detail) = bad[0]
            small = case if case["g"]["n"] > 40 else shrink_case(case, lambda c: fails(c, drv))
            got = impl(small)
            out.violation(small, {"kind": kind, "detail": detail, "impl": got, "model": drv.ask(line(small)),
                                  "lean_request": line(small), "original_case": case,
                                  "disagreements_total": len(bad)})
        finally:
            drv.close()


def replay(ctx, payload):
    case = payload["case"]
    drv = C.Driver()
    got = impl(case)
    model = drv.ask(line(case))
    drv.close()
    print("implementation:", got, " model/spec:", model)
    bad = got["ans"] != model or got.get("swapped") != got["ans"] or got.get("mutated")
    print("REPRODUCED" if bad else "NOT-REPRODUCED")
    return 1 if bad else 0


# ----------------------------------------------------------------------------- C15 adapter
def c15_cases(rng, k):
    out = []
    for i in range(k):
        n = rng.choice((3, 4, 5, 6))
        if i % 3 == 0:
            g = C.rand_dag_order_graph(rng, n, [("D>",), ("B",), ("U",), ("D>", "B")], density=0.5)
            heads = set(b for a, b in g["D"]) | set(x for e in g["B"] for x in e)
            g["U"] = [e for e in g["U"] if e[0] not in heads and e[1] not in heads]
        else:
            g = C.rand_dag_order_graph(rng, n, C.ADMG_STATES[1:], density=0.5)
        nodes = list(range(n))
        rng.shuffle(nodes)
        out.append({"g": g, "X": [nodes[0]], "Y": [nodes[1]],
                    "Z": sorted(v for v in nodes[2:] if rng.random() < 0.4)})
    return out


def c15_eval(case, fam, order_seed):
    import random
    c = dict(case)
    c["g"] = C.shuffled_graph(random.Random(order_seed), case["g"])
    c["fam"] = fam
    got = impl(c)
    if got.get("mutated"):
        return "MUTATED"
    if got.get("swapped") != got["ans"]:
        return "ASYM:%s/%s" % (got["ans"], got["swapped"])
    return got["ans"]


def c15_expected(cases):
    return C.lean_batch([line(c) for c in cases])
