import Pw.Core.Graph

/-! # Shared vocabulary of C16 / C17 (PAG path searches)

Adjacency in *any* layer (`MixedEdgeGraph.neighbors` = union over the layers of predecessors and
successors), arrowheads (`has_edge(u,v,directed) or has_edge(u,v,bidirected)`), chains of a binary
relation along a node list, and the brute-force enumeration of all simple paths from a node with its
membership lemma (`mem_simplePaths`) – the oracle both properties are compared against. -/
namespace C16

/-- `u` and `v` are joined by an edge of some layer (either orientation) -/
def Adj (G : MG) (u v : Nat) : Prop :=
  (u, v) ∈ G.dir ∨ (v, u) ∈ G.dir ∨ (u, v) ∈ G.bi ∨ (v, u) ∈ G.bi ∨
  (u, v) ∈ G.un ∨ (v, u) ∈ G.un ∨ (u, v) ∈ G.circ ∨ (v, u) ∈ G.circ

instance (G : MG) (u v : Nat) : Decidable (Adj G u v) := by unfold Adj; infer_instance

theorem Adj.symm {G : MG} {u v : Nat} (h : Adj G u v) : Adj G v u := by
  unfold Adj at *; rcases h with h | h | h | h | h | h | h | h <;> simp [h]

/-- arrowhead at `v` on the edge between `u` and `v`:
    `G.has_edge(u, v, "directed") or G.has_edge(u, v, "bidirected")` -/
def Arrow (G : MG) (u v : Nat) : Prop := (u, v) ∈ G.dir ∨ (u, v) ∈ G.bi ∨ (v, u) ∈ G.bi

instance (G : MG) (u v : Nat) : Decidable (Arrow G u v) := by unfold Arrow; infer_instance

/-- endpoints of the edges of all four layers are nodes -/
def WF (G : MG) : Prop :=
  (∀ e ∈ G.dir, e.1 ∈ G.nodes ∧ e.2 ∈ G.nodes) ∧ (∀ e ∈ G.bi, e.1 ∈ G.nodes ∧ e.2 ∈ G.nodes) ∧
  (∀ e ∈ G.un, e.1 ∈ G.nodes ∧ e.2 ∈ G.nodes) ∧ (∀ e ∈ G.circ, e.1 ∈ G.nodes ∧ e.2 ∈ G.nodes)

instance (G : MG) : Decidable (WF G) := by unfold WF; infer_instance

theorem Adj.mem_nodes {G : MG} (h : WF G) {u v : Nat} (ha : Adj G u v) : u ∈ G.nodes ∧ v ∈ G.nodes := by
  obtain ⟨hd, hb, hu, hc⟩ := h
  rcases ha with h | h | h | h | h | h | h | h
  · exact hd _ h
  · exact (hd _ h).symm
  · exact hb _ h
  · exact (hb _ h).symm
  · exact hu _ h
  · exact (hu _ h).symm
  · exact hc _ h
  · exact (hc _ h).symm

/-- `G.neighbors(v)`: a Python set, modelled as the duplicate-free sub-list of the node list -/
def nbrs (G : MG) (v : Nat) : List Nat := G.nodes.filter fun w => decide (Adj G v w)

theorem mem_nbrs {G : MG} {v w : Nat} : w ∈ nbrs G v ↔ w ∈ G.nodes ∧ Adj G v w := by
  simp [nbrs]

theorem mem_nbrs_wf {G : MG} (h : WF G) {v w : Nat} : w ∈ nbrs G v ↔ Adj G v w := by
  rw [mem_nbrs]; exact ⟨fun h => h.2, fun ha => ⟨(ha.mem_nodes h).2, ha⟩⟩

theorem nodup_nbrs {G : MG} (h : G.nodes.Nodup) (v : Nat) : (nbrs G v).Nodup :=
  List.Pairwise.filter _ h

/-! ## chains -/

/-- every two consecutive members of the list are related by `R` -/
def ChainP (R : Nat → Nat → Prop) : List Nat → Prop
  | a :: b :: l => R a b ∧ ChainP R (b :: l)
  | _ => True

@[simp] theorem chainP_nil {R} : ChainP R [] := trivial
@[simp] theorem chainP_single {R} {a : Nat} : ChainP R [a] := trivial
@[simp] theorem chainP_cons_cons {R} {a b : Nat} {l} : ChainP R (a :: b :: l) ↔ R a b ∧ ChainP R (b :: l) :=
  Iff.rfl

instance {R : Nat → Nat → Prop} [DecidableRel R] : ∀ l, Decidable (ChainP R l)
  | [] => isTrue trivial
  | [_] => isTrue trivial
  | a :: b :: l =>
    have := instDecidableChainPOfDecidableRelNat (R := R) (b :: l)
    by rw [chainP_cons_cons]; infer_instance

theorem ChainP.tail {R} {a : Nat} {l} (h : ChainP R (a :: l)) : ChainP R l := by
  cases l with
  | nil => trivial
  | cons b l => exact h.2

theorem chainP_append_singleton {R} {l : List Nat} {a b : Nat} :
    ChainP R (l ++ [a, b]) ↔ ChainP R (l ++ [a]) ∧ R a b := by
  induction l with
  | nil => simp
  | cons c l ih =>
    cases l with
    | nil => simp
    | cons d l => simp only [List.cons_append, chainP_cons_cons] at *; rw [ih]; simp [and_assoc]

theorem chainP_append {R} {l₁ : List Nat} {a : Nat} {l₂ : List Nat} :
    ChainP R (l₁ ++ a :: l₂) ↔ ChainP R (l₁ ++ [a]) ∧ ChainP R (a :: l₂) := by
  induction l₁ with
  | nil => simp
  | cons c l ih =>
    cases l with
    | nil => simp
    | cons d l => simp only [List.cons_append, chainP_cons_cons] at *; rw [ih]; simp [and_assoc]

theorem chainP_reverse {R} {l : List Nat} : ChainP R l.reverse ↔ ChainP (fun a b => R b a) l := by
  induction l with
  | nil => simp
  | cons a l ih =>
    cases l with
    | nil => simp
    | cons b l =>
      rw [List.reverse_cons, List.reverse_cons, List.append_assoc]
      simp only [List.cons_append, List.nil_append]
      rw [chainP_append_singleton, ← List.reverse_cons, ih]
      simp [and_comm]

theorem ChainP.imp {R S : Nat → Nat → Prop} (H : ∀ a b, R a b → S a b) {l} (h : ChainP R l) : ChainP S l := by
  induction l with
  | nil => trivial
  | cons a l ih =>
    cases l with
    | nil => trivial
    | cons b l => exact ⟨H _ _ h.1, ih h.2⟩

/-- last node of a non-empty walk written as head + tail -/
def lastOf (a : Nat) (l : List Nat) : Nat := (a :: l).getLast (by simp)

@[simp] theorem lastOf_nil {a : Nat} : lastOf a [] = a := rfl
@[simp] theorem lastOf_cons {a b : Nat} {l} : lastOf a (b :: l) = lastOf b l := by
  simp [lastOf, List.getLast_cons]

theorem lastOf_mem {a : Nat} {l} : lastOf a l ∈ a :: l := List.getLast_mem _

theorem lastOf_append {a b : Nat} {l₁ l₂} : lastOf a (l₁ ++ b :: l₂) = lastOf b l₂ := by
  induction l₁ generalizing a with
  | nil => simp
  | cons c l ih => simp [ih]

/-- **walk ⇒ path**: a chain from `a` to `v` contains a duplicate-free chain from `a` to `v`
    (the relation is between consecutive nodes only, so cutting loops is harmless) -/
theorem chain_to_path {R : Nat → Nat → Prop} (a : Nat) (l : List Nat) (h : ChainP R (a :: l)) :
    ∃ l', ChainP R (a :: l') ∧ (a :: l').Nodup ∧ lastOf a l' = lastOf a l ∧ l' ⊆ l := by
  induction l generalizing a with
  | nil => exact ⟨[], trivial, by simp, rfl, fun _ h => h⟩
  | cons b l ih =>
    obtain ⟨l', hc, hn, hl, hs⟩ := ih b h.2
    by_cases hab : a ∈ b :: l'
    · -- cut back to the occurrence of `a`
      obtain ⟨pre, post, hsplit⟩ := List.append_of_mem hab
      refine ⟨post, ?_, ?_, ?_, ?_⟩
      · rw [hsplit] at hc; exact (chainP_append.mp hc).2
      · rw [hsplit] at hn; exact (List.nodup_append.mp hn).2.1
      · rw [lastOf_cons, ← hl]
        have : lastOf b l' = lastOf a post := by
          cases pre with
          | nil =>
            simp only [List.nil_append, List.cons.injEq] at hsplit
            obtain ⟨rfl, rfl⟩ := hsplit; rfl
          | cons c pre =>
            simp only [List.cons_append, List.cons.injEq] at hsplit
            obtain ⟨rfl, rfl⟩ := hsplit
            exact lastOf_append
        exact this.symm
      · intro x hx
        have : x ∈ b :: l' := by rw [hsplit]; simp [hx]
        rcases List.mem_cons.mp this with rfl | h'
        · exact List.mem_cons_self
        · exact List.mem_cons_of_mem _ (hs h')
    · refine ⟨b :: l', ⟨h.1, hc⟩, List.nodup_cons.mpr ⟨hab, hn⟩, by simp [hl], ?_⟩
      intro x hx
      rcases List.mem_cons.mp hx with rfl | h'
      · exact List.mem_cons_self
      · exact List.mem_cons_of_mem _ (hs h')

/-! ## brute-force enumeration of simple paths (the oracle) -/

/-- all duplicate-free adjacency paths that extend the reversed path `cur :: before` by at most
    `fuel` further nodes, each written in forward order -/
def extend (G : MG) : Nat → Nat → List Nat → List (List Nat)
  | 0, cur, before => [(cur :: before).reverse]
  | fuel + 1, cur, before =>
    (cur :: before).reverse ::
      ((nbrs G cur).filter fun w => decide (w ∉ cur :: before)).flatMap fun w =>
        extend G fuel w (cur :: before)

/-- every simple path of the adjacency graph that starts at `s` (including the one-node path) -/
def simplePaths (G : MG) (s : Nat) : List (List Nat) := extend G G.nodes.length s []

/-- a duplicate-free list of nodes of `G` whose consecutive members are adjacent -/
def IsPath (G : MG) (p : List Nat) : Prop := (∀ v ∈ p, v ∈ G.nodes) ∧ p.Nodup ∧ ChainP (Adj G) p

instance (G : MG) (p : List Nat) : Decidable (IsPath G p) := by unfold IsPath; infer_instance

theorem mem_extend (G : MG) (fuel cur : Nat) (before p : List Nat) :
    p ∈ extend G fuel cur before ↔
      ∃ ext, p = (cur :: before).reverse ++ ext ∧ ext.length ≤ fuel ∧ (∀ v ∈ ext, v ∈ G.nodes) ∧
        ChainP (Adj G) (cur :: ext) ∧ ext.Nodup ∧ ∀ v ∈ ext, v ∉ cur :: before := by
  induction fuel generalizing cur before p with
  | zero =>
    simp only [extend, List.mem_singleton]
    constructor
    · rintro rfl; exact ⟨[], by simp⟩
    · rintro ⟨ext, rfl, hl, -⟩
      have : ext = [] := List.eq_nil_of_length_eq_zero (by omega)
      simp [this]
  | succ fuel ih =>
    rw [extend, List.mem_cons]
    simp only [List.mem_flatMap, List.mem_filter, decide_eq_true_eq, ih]
    constructor
    · rintro (rfl | ⟨w, ⟨hw, hwn⟩, ext, rfl, hl, hnodes, hch, hnd, hdis⟩)
      · exact ⟨[], by simp⟩
      · rw [mem_nbrs] at hw
        refine ⟨w :: ext, by simp, by simp; omega, ?_, ⟨hw.2, hch⟩, ?_, ?_⟩
        · intro v hv
          rcases List.mem_cons.mp hv with rfl | hv
          · exact hw.1
          · exact hnodes v hv
        · refine List.nodup_cons.mpr ⟨?_, hnd⟩
          intro hmem; exact hdis w hmem List.mem_cons_self
        · intro v hv
          rcases List.mem_cons.mp hv with rfl | hv
          · simpa using hwn
          · intro h'; exact hdis v hv (List.mem_cons_of_mem _ h')
    · rintro ⟨ext, rfl, hl, hnodes, hch, hnd, hdis⟩
      cases ext with
      | nil => left; simp
      | cons w ext =>
        right
        refine ⟨w, ⟨mem_nbrs.mpr ⟨hnodes w List.mem_cons_self, hch.1⟩, by
          simpa using hdis w List.mem_cons_self⟩, ext, by simp, by simp at hl; omega, ?_, hch.2, ?_, ?_⟩
        · intro v hv; exact hnodes v (List.mem_cons_of_mem _ hv)
        · exact (List.nodup_cons.mp hnd).2
        · intro v hv hmem
          rcases List.mem_cons.mp hmem with rfl | hmem
          · exact (List.nodup_cons.mp hnd).1 hv
          · exact hdis v (List.mem_cons_of_mem _ hv) hmem

/-- the oracle enumerates exactly the simple paths from `s` -/
theorem mem_simplePaths {G : MG} {s : Nat} {p : List Nat} (hs : s ∈ G.nodes) :
    p ∈ simplePaths G s ↔ IsPath G p ∧ p.head? = some s := by
  rw [simplePaths, mem_extend]
  constructor
  · rintro ⟨ext, rfl, -, hnodes, hch, hnd, hdis⟩
    refine ⟨⟨?_, ?_, by simpa using hch⟩, by simp⟩
    · intro v hv
      simp only [List.reverse_cons, List.reverse_nil, List.nil_append, List.cons_append,
        List.mem_cons] at hv
      rcases hv with rfl | hv
      · exact hs
      · exact hnodes v hv
    · simp only [List.reverse_cons, List.reverse_nil, List.nil_append, List.cons_append]
      refine List.nodup_cons.mpr ⟨fun h => ?_, hnd⟩
      exact hdis s h List.mem_cons_self
  · rintro ⟨⟨hnodes, hnd, hch⟩, hhead⟩
    cases p with
    | nil => simp at hhead
    | cons a ext =>
      simp only [List.head?_cons, Option.some.injEq] at hhead
      subst hhead
      have hnd' := List.nodup_cons.mp hnd
      refine ⟨ext, by simp, ?_, fun v hv => hnodes v (List.mem_cons_of_mem _ hv), hch, hnd'.2, ?_⟩
      · have := List.Nodup.length_le_of_subset hnd (fun v hv => hnodes v hv)
        simp at this; omega
      · intro v hv hmem
        simp only [List.mem_cons, List.not_mem_nil, or_false] at hmem
        subst hmem; exact hnd'.1 hv

/-- a simple path has at most `|V| - 1` edges -/
theorem IsPath.length_le {G : MG} {p : List Nat} (h : IsPath G p) : p.length ≤ G.nodes.length :=
  List.Nodup.length_le_of_subset h.2.1 (fun v hv => h.1 v hv)

end C16
