import Pw.C17.Findings
open Closure C16

/-! # C17: exact characterisation of the code as it is (literal model `pds`) -/
namespace C17

theorem mem_expand_false {G : MG} (hw : WF G) {x : Nat} {y : Option Nat} {p t : Nat} (ht : t ∈ G.nodes)
    (hty : YConn G t y) {st : St} :
    st ∈ expand false G x y (p, t) ↔
      st.1 = p ∧ Adj G t st.2 ∧ st.2 ≠ p ∧ st.2 ≠ x ∧ some st.2 ≠ y ∧ TripleOK G p t st.2 := by
  refine ⟨mem_expand_false_imp, ?_⟩
  rintro ⟨h0, ha, h1, h2, h3, h4⟩
  unfold expand
  have hr : reachesY G y t = true := (reachesY_iff hw ht).mpr hty
  simp only [hr, Bool.not_true, Bool.false_eq_true, if_false, List.mem_map, List.mem_filter, mem_nbrs,
    candidate, Bool.and_eq_true, Bool.not_eq_eq_eq_not, Bool.or_eq_false_iff, beq_eq_false_iff_ne, ne_eq,
    Bool.or_eq_true, decide_eq_true_eq]
  obtain ⟨a, n⟩ := st
  simp only at h0 ha h1 h2 h3 h4
  subst h0
  refine ⟨n, ⟨⟨(ha.mem_nodes hw).2, ha⟩, ⟨⟨h1, h2⟩, h3⟩, ?_⟩, rfl⟩
  rcases h4 with h4 | h4
  · exact Or.inl h4
  · exact Or.inr ⟨(h4.mem_nodes hw).2, h4⟩

/-- ★ **what `pds` computes on the current tree, exactly**: the neighbours of `x` (other than `y`) and
    the nodes `v ∉ {x, y}` behind a collider `x *-> u <-* v` at such a neighbour `u` – nothing further away,
    because the queued edge keeps `prev_node = x` (known finding `C17-pds-queues-prev-next`) -/
theorem mem_pds_iff {G : MG} (hw : WF G) {x : Nat} (hx : x ∈ G.nodes) {y : Option Nat} (v : Nat) :
    v ∈ pds G x y ↔ YConn G x y ∧ Near G x y v := by
  refine ⟨mem_pds_imp hw hx, ?_⟩
  rintro ⟨hyc, hvy, hnear⟩
  unfold pds pdsGen
  have hr : reachesY G y x = true := (reachesY_iff hw hx).mpr hyc
  simp only [hr, Bool.not_true, Bool.false_eq_true, if_false, List.mem_append, List.mem_map, List.mem_filter]
  rcases hnear with ha | ⟨hvx, u, hu, hxu, huy, huv, hcol⟩
  · exact Or.inl ⟨(x, v), (mem_initEdges hw hyc).mpr ⟨rfl, ha, hvy⟩, rfl⟩
  · right
    have hun : YConn G u y := fun y' e => (Conn.of_adj hxu).symm.trans (hyc y' e)
    have hvn : v ∈ G.nodes := (huv.mem_nodes hw).2
    refine ⟨(x, v), ⟨?_, ?_⟩, rfl⟩
    · rw [mem_closure]
      refine ⟨(x, u), (mem_initEdges hw hyc).mpr ⟨rfl, hxu, huy⟩, mem_states.mpr ⟨hx, hu⟩,
        Reach.tail (Reach.refl _) ⟨?_, mem_states.mpr ⟨hx, hvn⟩⟩⟩
      exact (mem_expand_false hw hu hun).mpr ⟨rfl, huv, hvx, hvx, hvy, Or.inl hcol⟩
    · rw [reachesY_iff hw hvn]
      intro y' e
      exact (Conn.of_adj huv).symm.trans (hun y' e)

end C17
