import Pw.C18.Decider

/-! # C18: completeness side of the shared BFS skeleton

While nothing has been found, the search maintains: every explored node is an initial one, queued, or
*done* (popped and its `for` loop ran to the end); for every done node `x` every candidate in its
iteration list is explored or is classified `skip` from `x`.  When the loop ends with an empty queue
this closedness is what the completeness proofs of the two searches use.  `loop_no_limit`: the
1000-pop limit cannot be hit on graphs with fewer than 1000 nodes. -/
namespace C18

section
variable (cls : Option Nat → Nat → Nat → Cls) (iter : Nat → List Nat) (init initQ : List Nat)

structure InvC (D : List Nat) (s : St) : Prop where
  prov : ∀ x ∈ s.explored, x ∈ init ∨ x ∈ s.queue ∨ x ∈ D
  closed : ∀ x ∈ D, ∀ next ∈ iter x, next ∈ s.explored ∨ cls (s.desc.lookup x) x next = .skip
  pushP : ∀ x, x ∈ s.queue ∨ x ∈ D →
    x ∈ initQ ∨ ∃ y ∈ s.explored, s.desc.lookup x = some y ∧ cls (s.desc.lookup y) y x = .push
  sub : ∀ x, x ∈ s.queue ∨ x ∈ D → x ∈ s.explored

/-- invariant while the `for` loop of `this` is running; `pre` = candidates already handled -/
structure InvCur (this : Nat) (pre : List Nat) (D : List Nat) (s : St) : Prop where
  prov : ∀ x ∈ s.explored, x ∈ init ∨ x ∈ s.queue ∨ x ∈ D ∨ x = this
  closed : ∀ x ∈ D, ∀ next ∈ iter x, next ∈ s.explored ∨ cls (s.desc.lookup x) x next = .skip
  pushP : ∀ x, x ∈ s.queue ∨ x ∈ D ∨ x = this →
    x ∈ initQ ∨ ∃ y ∈ s.explored, s.desc.lookup x = some y ∧ cls (s.desc.lookup y) y x = .push
  sub : ∀ x, x ∈ s.queue ∨ x ∈ D ∨ x = this → x ∈ s.explored
  cur : ∀ next ∈ pre, next ∈ s.explored ∨ cls (s.desc.lookup this) this next = .skip

variable {cls iter init initQ}

theorem lookup_cons_ne {desc : List (Nat × Nat)} {x k v : Nat} (h : x ≠ k) :
    List.lookup x ((k, v) :: desc) = List.lookup x desc := by
  have : (x == k) = false := by simp [h]
  simp [List.lookup_cons, this]

theorem inner_found_mono (this : Nat) (prev : Option Nat) : ∀ (l : List Nat) (s : St),
    s.found = true → (inner cls this prev l s).found = true := by
  intro l
  induction l with
  | nil => intro s h; simpa [inner] using h
  | cons next rest ih =>
    intro s h
    unfold inner
    split
    · exact ih s h
    · split
      · exact ih s h
      · rfl
      · exact ih _ h

theorem inner_limit (this : Nat) (prev : Option Nat) : ∀ (l : List Nat) (s : St),
    (inner cls this prev l s).limit = s.limit := by
  intro l
  induction l with
  | nil => intro s; simp [inner]
  | cons next rest ih =>
    intro s
    unfold inner
    split
    · exact ih s
    · split
      · exact ih s
      · rfl
      · rw [ih]

theorem inner_invC (this : Nat) : ∀ (rest pre : List Nat) (D : List Nat) (s : St),
    iter this = pre ++ rest → InvCur cls iter init initQ this pre D s →
      let s' := inner cls this (s.desc.lookup this) rest s
      s'.found = true ∨ InvC cls iter init initQ (this :: D) s' := by
  intro rest
  induction rest with
  | nil =>
    intro pre D s hit hi
    right
    simp only [inner]
    have hpre : iter this = pre := by simpa using hit
    refine ⟨?_, ?_, ?_, ?_⟩
    · intro x hx
      rcases hi.prov x hx with h | h | h | h
      · exact Or.inl h
      · exact Or.inr (Or.inl h)
      · exact Or.inr (Or.inr (List.mem_cons_of_mem _ h))
      · exact Or.inr (Or.inr (by simp [h]))
    · intro x hx next hn
      rcases List.mem_cons.mp hx with rfl | hx
      · exact hi.cur next (hpre ▸ hn)
      · exact hi.closed x hx next hn
    · intro x hx
      apply hi.pushP
      rcases hx with h | h
      · exact Or.inl h
      · rcases List.mem_cons.mp h with rfl | h
        · exact Or.inr (Or.inr rfl)
        · exact Or.inr (Or.inl h)
    · intro x hx
      apply hi.sub
      rcases hx with h | h
      · exact Or.inl h
      · rcases List.mem_cons.mp h with rfl | h
        · exact Or.inr (Or.inr rfl)
        · exact Or.inr (Or.inl h)
  | cons next rest ih =>
    intro pre D s hit hi
    have hit' : iter this = (pre ++ [next]) ++ rest := by simp [hit]
    simp only
    unfold inner
    by_cases hex : next ∈ s.explored
    · simp only [hex, if_true]
      refine ih (pre ++ [next]) D s hit' ⟨hi.prov, hi.closed, hi.pushP, hi.sub, ?_⟩
      intro n hn
      rcases List.mem_append.mp hn with hn | hn
      · exact hi.cur n hn
      · simp at hn; subst hn; exact Or.inl hex
    · simp only [hex, if_false]
      cases hc : cls (s.desc.lookup this) this next with
      | skip =>
        simp only
        refine ih (pre ++ [next]) D s hit' ⟨hi.prov, hi.closed, hi.pushP, hi.sub, ?_⟩
        intro n hn
        rcases List.mem_append.mp hn with hn | hn
        · exact hi.cur n hn
        · simp at hn; subst hn; exact Or.inr hc
      | fin => left; rfl
      | push =>
        simp only
        have hthis : this ∈ s.explored := hi.sub this (Or.inr (Or.inr rfl))
        have hne : this ≠ next := fun e => hex (e ▸ hthis)
        have hlk : ∀ x, x ∈ s.explored → List.lookup x ((next, this) :: s.desc) = s.desc.lookup x :=
          fun x hx => lookup_cons_ne (fun e => hex (e ▸ hx))
        let s' : St := { s with explored := next :: s.explored, desc := (next, this) :: s.desc,
                                queue := s.queue ++ [next] }
        have hi' : InvCur cls iter init initQ this (pre ++ [next]) D s' := by
          refine ⟨?_, ?_, ?_, ?_, ?_⟩
          · intro x hx
            rcases List.mem_cons.mp hx with rfl | hx
            · exact Or.inr (Or.inl (by simp [s']))
            · rcases hi.prov x hx with h | h | h | h
              · exact Or.inl h
              · exact Or.inr (Or.inl (by simp [s', h]))
              · exact Or.inr (Or.inr (Or.inl h))
              · exact Or.inr (Or.inr (Or.inr h))
          · intro x hx n hn
            have hxe : x ∈ s.explored := hi.sub x (Or.inr (Or.inl hx))
            rcases hi.closed x hx n hn with h | h
            · exact Or.inl (List.mem_cons_of_mem _ h)
            · right; show cls (List.lookup x ((next, this) :: s.desc)) x n = .skip
              rw [hlk x hxe]; exact h
          · intro x hx
            have old : ∀ x, (x ∈ s.queue ∨ x ∈ D ∨ x = this) →
                x ∈ initQ ∨ ∃ y ∈ s'.explored, s'.desc.lookup x = some y ∧ cls (s'.desc.lookup y) y x = .push := by
              intro x hx
              have hxe : x ∈ s.explored := hi.sub x hx
              rcases hi.pushP x hx with h | ⟨y, hy, hxy, hcy⟩
              · exact Or.inl h
              · refine Or.inr ⟨y, List.mem_cons_of_mem _ hy, ?_, ?_⟩
                · show List.lookup x ((next, this) :: s.desc) = some y
                  rw [hlk x hxe]; exact hxy
                · show cls (List.lookup y ((next, this) :: s.desc)) y x = .push
                  rw [hlk y hy]; exact hcy
            rcases hx with h | h | h
            · rcases List.mem_append.mp h with h | h
              · exact old x (Or.inl h)
              · simp at h; subst h
                refine Or.inr ⟨this, List.mem_cons_of_mem _ hthis, ?_, ?_⟩
                · show List.lookup x ((x, this) :: s.desc) = some this
                  simp [List.lookup_cons]
                · show cls (List.lookup this ((x, this) :: s.desc)) this x = .push
                  rw [hlk this hthis]; exact hc
            · exact old x (Or.inr (Or.inl h))
            · exact old x (Or.inr (Or.inr h))
          · intro x hx
            rcases hx with h | h | h
            · rcases List.mem_append.mp h with h | h
              · exact List.mem_cons_of_mem _ (hi.sub x (Or.inl h))
              · simp at h; subst h; simp [s']
            · exact List.mem_cons_of_mem _ (hi.sub x (Or.inr (Or.inl h)))
            · exact List.mem_cons_of_mem _ (hi.sub x (Or.inr (Or.inr h)))
          · intro n hn
            rcases List.mem_append.mp hn with hn | hn
            · rcases hi.cur n hn with h | h
              · exact Or.inl (List.mem_cons_of_mem _ h)
              · right; show cls (List.lookup this ((next, this) :: s.desc)) this n = .skip
                rw [hlk this hthis]; exact h
            · simp at hn; subst hn; left; simp [s']
        have hres := ih (pre ++ [next]) D s' hit' hi'
        simp only [s'] at hres
        rw [hlk this hthis] at hres
        exact hres

theorem loop_found_mono (cont : Bool) : ∀ (fuel : Nat) (s : St), s.found = true →
    (loop iter cls cont fuel s).found = true := by
  intro fuel
  induction fuel with
  | zero => intro s h; unfold loop; split <;> exact h
  | succ n ih =>
    intro s h
    unfold loop
    cases hq : s.queue with
    | nil => exact h
    | cons this q =>
      simp only
      have h1 := inner_found_mono (cls := cls) this (s.desc.lookup this) (iter this) { s with queue := q } h
      split
      · exact h1
      · exact ih _ h1

/-- **closedness**: the loop result has found something, or satisfies the closedness invariant -/
theorem loop_invC (cont : Bool) : ∀ (fuel : Nat) (s : St) (D : List Nat),
    InvC cls iter init initQ D s →
      (loop iter cls cont fuel s).found = true ∨ ∃ D', InvC cls iter init initQ D' (loop iter cls cont fuel s) := by
  intro fuel
  induction fuel with
  | zero =>
    intro s D hi
    right
    unfold loop
    split
    · exact ⟨D, hi⟩
    · exact ⟨D, ⟨hi.prov, hi.closed, hi.pushP, hi.sub⟩⟩
  | succ n ih =>
    intro s D hi
    unfold loop
    cases hq : s.queue with
    | nil => exact Or.inr ⟨D, by simpa using hi⟩
    | cons this q =>
      simp only
      have hcur : InvCur cls iter init initQ this [] D { s with queue := q } := by
        refine ⟨?_, hi.closed, ?_, ?_, by simp⟩
        · intro x hx
          rcases hi.prov x hx with h | h | h
          · exact Or.inl h
          · rw [hq] at h
            rcases List.mem_cons.mp h with rfl | h
            · exact Or.inr (Or.inr (Or.inr rfl))
            · exact Or.inr (Or.inl h)
          · exact Or.inr (Or.inr (Or.inl h))
        · intro x hx
          apply hi.pushP
          rcases hx with h | h | h
          · exact Or.inl (by rw [hq]; exact List.mem_cons_of_mem _ h)
          · exact Or.inr h
          · exact Or.inl (by rw [hq, h]; simp)
        · intro x hx
          apply hi.sub
          rcases hx with h | h | h
          · exact Or.inl (by rw [hq]; exact List.mem_cons_of_mem _ h)
          · exact Or.inr h
          · exact Or.inl (by rw [hq, h]; simp)
      have h1 := inner_invC this (iter this) [] D { s with queue := q } (by simp) hcur
      simp only at h1
      split
      · rename_i hstop
        left
        simp only [Bool.and_eq_true] at hstop
        exact hstop.1
      · rcases h1 with h1 | h1
        · exact Or.inl (loop_found_mono cont n _ h1)
        · exact ih _ _ h1

/-- how the loop can end -/
theorem loop_end (cont : Bool) : ∀ (fuel : Nat) (s : St),
    let s' := loop iter cls cont fuel s
    s'.limit = true ∨ s'.queue = [] ∨ (cont = false ∧ s'.found = true) := by
  intro fuel
  induction fuel with
  | zero =>
    intro s
    simp only
    unfold loop
    split
    · rename_i h; right; left; simpa using h
    · left; rfl
  | succ n ih =>
    intro s
    simp only
    unfold loop
    cases hq : s.queue with
    | nil => right; left; exact hq
    | cons this q =>
      simp only
      split
      · rename_i hstop
        simp only [Bool.and_eq_true, Bool.not_eq_true'] at hstop
        exact Or.inr (Or.inr ⟨hstop.2, hstop.1⟩)
      · exact ih _

end

/-! ## the pop limit -/

section
variable (cls : Option Nat → Nat → Nat → Cls) (iter : Nat → List Nat) (U : List Nat)

/-- number of universe nodes not yet explored, plus the queue length -/
def meas (s : St) : Nat := U.countP (fun x => decide (x ∉ s.explored)) + s.queue.length

variable {cls U}

theorem inner_meas (this : Nat) (prev : Option Nat) : ∀ (l : List Nat) (s : St), (∀ x ∈ l, x ∈ U) →
    meas U (inner cls this prev l s) ≤ meas U s := by
  intro l
  induction l with
  | nil => intro s _; simp [inner]
  | cons next rest ih =>
    intro s hU
    have hU' : ∀ x ∈ rest, x ∈ U := fun x hx => hU x (List.mem_cons_of_mem _ hx)
    unfold inner
    split
    · exact ih s hU'
    · rename_i hex
      have hlt : U.countP (fun x => decide (x ∉ next :: s.explored)) <
          U.countP (fun x => decide (x ∉ s.explored)) := by
        refine Closure.countP_lt' _ _ ?_ U next (hU next (by simp)) (by simpa using hex) (by simp)
        intro a; simp
      split
      · exact ih s hU'
      · simp only [meas]; omega
      · refine Nat.le_trans (ih _ hU') ?_
        simp only [meas, List.length_append, List.length_cons, List.length_nil]
        omega

theorem loop_no_limit_aux (cont : Bool) (hiter : ∀ x y, y ∈ iter x → y ∈ U) : ∀ (fuel : Nat) (s : St),
    s.limit = false → meas U s < fuel → (loop iter cls cont fuel s).limit = false := by
  intro fuel
  induction fuel with
  | zero => intro s _ h; omega
  | succ n ih =>
    intro s hl hm
    unfold loop
    cases hq : s.queue with
    | nil => exact hl
    | cons this q =>
      simp only
      have h0 : meas U { s with queue := q } + 1 = meas U s := by simp [meas, hq]; omega
      have h1 := inner_meas (cls := cls) (U := U) this (s.desc.lookup this) (iter this) { s with queue := q }
        (fun x hx => hiter this x hx)
      have hl1 : (inner cls this (s.desc.lookup this) (iter this) { s with queue := q }).limit = false := by
        rw [inner_limit]; exact hl
      split
      · exact hl1
      · exact ih _ hl1 (by omega)

end
end C18
