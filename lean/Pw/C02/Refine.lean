import Pw.C02.Inv

/-! # C02 refinement: the model is a refinement of the abstract specification

`MEG.abs` forgets list order, per-layer node lists and the stored orientation of undirected edges.
`abs (g.step op) = (abs g).step op` for every public mutation (given the invariant). -/
namespace C02

def attrOf (o : Option Attr) : AAttr := fun k => match o with | some a => a.get k | none => none

@[simp] theorem attrOf_none : attrOf none = AAttr.empty := rfl
theorem attrOf_upd (o : Option Attr) (b : Attr) : attrOf (some ((o.getD []).upd b)) = (attrOf o).upd b := by
  funext k
  cases o <;> simp [attrOf, AAttr.upd, Attr.upd, Attr.get, List.lookup_append]

def MEG.abs (g : MEG) : AG :=
  { admg := g.admg
    node := fun v => g.hasNode v
    kind := fun t => (g.layer? t).map (·.kind)
    edge := fun t u v => match g.layer? t with | some L => L.has u v | none => false
    nattr := fun v => attrOf (List.lookup v g.nodes)
    eattr := fun t u v => match g.layer? t with | some L => attrOf (L.find u v) | none => .empty
    gattr := attrOf (some g.gattr) }

theorem AG.ext' {a b : AG} (h0 : a.admg = b.admg) (h1 : ∀ v, a.node v = b.node v) (h2 : ∀ t, a.kind t = b.kind t)
    (h3 : ∀ t u v, a.edge t u v = b.edge t u v) (h4 : ∀ v, a.nattr v = b.nattr v)
    (h5 : ∀ t u v, a.eattr t u v = b.eattr t u v) (h6 : a.gattr = b.gattr) : a = b := by
  cases a; cases b
  simp only [AG.mk.injEq]
  exact ⟨h0, funext h1, funext h2, funext fun t => funext fun u => funext fun v => h3 t u v, funext h4,
    funext fun t => funext fun u => funext fun v => h5 t u v, h6⟩

namespace Layer
/-! ### stored attributes (`find`) under the layer operations -/
theorem find_isSome (L : Layer) (u v : Nat) : (L.find u v).isSome = L.has u v := by
  simp only [find, Option.isSome_map, has]
  rw [Bool.eq_iff_iff]; simp [List.find?_isSome]

@[simp] theorem find_addNode (L : Layer) (w u v : Nat) : (L.addNode w).find u v = L.find u v := by
  simp [find]

theorem find_addEdge (L : Layer) (u v x y : Nat) (a : Attr) :
    (L.addEdge u v a).find x y =
      if same L.kind (x, y) (u, v) then some (((L.find x y).getD []).upd a) else L.find x y := by
  unfold addEdge; simp only
  split
  · rename_i hh
    simp only [has_addNode] at hh
    simp only [find, kind_addNode, edges_addNode, List.find?_map]
    have hp : ((fun e : (Nat × Nat) × Attr => same L.kind e.1 (x, y)) ∘
        fun e => if same L.kind e.1 (u, v) = true then (e.1, e.2.upd a) else e) =
        fun e => same L.kind e.1 (x, y) := by
      funext e; simp only [Function.comp]; split <;> rfl
    rw [hp]
    cases hf : L.edges.find? (fun e => same L.kind e.1 (x, y)) with
    | none =>
      have hx : L.has x y = false := by
        rw [← find_isSome]; simp [find, hf]
      split
      · rename_i hs
        obtain ⟨e, he, hse⟩ := has_iff.1 hh
        have : L.has x y = true := has_iff.2 ⟨e, he, by rw [same_congr_right hs]; exact hse⟩
        simp_all
      · simp
    | some e =>
      have hse : same L.kind e.1 (x, y) = true := by simpa using List.find?_some hf
      simp only [Option.map_some, Option.getD_some]
      by_cases hs : same L.kind (x, y) (u, v) = true
      · have : same L.kind e.1 (u, v) = true := same_trans hse hs
        simp [hs, this]
      · have : same L.kind e.1 (u, v) = false := by
          cases h4 : same L.kind e.1 (u, v)
          · rfl
          · exact absurd (same_trans (by rw [same_symm]; exact hse) h4) hs
        simp [hs, this]
  · rename_i hh
    simp only [has_addNode, Bool.not_eq_true] at hh
    simp only [find, kind_addNode, edges_addNode, List.find?_append, List.find?_cons, List.find?_nil]
    cases hf : L.edges.find? (fun e => same L.kind e.1 (x, y)) with
    | none =>
      simp only [Option.none_or, Option.map_none, Option.getD_none]
      rw [same_symm L.kind (u, v)]
      cases hs : same L.kind (x, y) (u, v) <;> simp [Attr.upd]
    | some e =>
      have hse : same L.kind e.1 (x, y) = true := by simpa using List.find?_some hf
      have he : e ∈ L.edges := List.mem_of_find?_eq_some hf
      have : same L.kind (x, y) (u, v) = false := by
        cases h4 : same L.kind (x, y) (u, v)
        · rfl
        · have := has_iff.2 ⟨e, he, same_trans hse h4⟩; simp_all
      simp [this]

theorem find?_filter_of {α} (l : List α) (p q : α → Bool) (h : ∀ e ∈ l, p e = true → q e = true) :
    (l.filter q).find? p = l.find? p := by
  induction l with
  | nil => rfl
  | cons e l ih =>
    have ih' := ih fun e he => h e (List.mem_cons_of_mem _ he)
    simp only [List.filter_cons, List.find?_cons]
    cases hq : q e
    · cases hp : p e
      · simpa using ih'
      · have := h e (by simp) hp; simp_all
    · simp only [ite_true, List.find?_cons]; rw [ih']
theorem find?_filter_none {α} (l : List α) (p q : α → Bool) (h : ∀ e ∈ l, p e = true → q e = false) :
    (l.filter q).find? p = none := by
  simp only [List.find?_eq_none, List.mem_filter, Bool.not_eq_true, and_imp]
  intro e he hq
  cases hp : p e
  · rfl
  · have := h e he hp; simp_all

theorem find_dropEdge (L : Layer) (u v x y : Nat) :
    (L.dropEdge u v).find x y = if same L.kind (x, y) (u, v) then none else L.find x y := by
  simp only [find, dropEdge]
  split
  · rename_i hs
    rw [find?_filter_none]; · rfl
    intro e _ h4
    have := same_trans h4 hs; simp [this]
  · rename_i hs
    rw [find?_filter_of]
    intro e _ h4
    have : same L.kind e.1 (u, v) = false := by
      cases h5 : same L.kind e.1 (u, v)
      · rfl
      · exact absurd (same_trans (by rw [same_symm]; exact h4) h5) hs
    simp [this]

theorem find_dropNode (L : Layer) (w x y : Nat) :
    (L.dropNode w).find x y = if x == w || y == w then none else L.find x y := by
  simp only [find, dropNode]
  split
  · rename_i hs
    rw [find?_filter_none]; · rfl
    intro e _ h4
    have := same_ends h4; simp at hs ⊢; grind
  · rename_i hs
    rw [find?_filter_of]
    intro e _ h4
    have := same_ends h4; simp at hs ⊢; grind

@[simp] theorem find_clearEdges (L : Layer) (x y : Nat) : L.clearEdges.find x y = none := by simp [find, clearEdges]
end Layer

namespace MEG
theorem layer?_remap (g : MEG) (ns : List (Nat × Attr)) (f : Nat → Layer → Layer) (t : Nat) :
    (g.remap ns f).layer? t = (g.layer? t).map (f t) := lookup_map_snd t g.layers f
theorem layer?_applyAll (g : MEG) (f : Layer → Layer) (t : Nat) : (g.applyAll f).layer? t = (g.layer? t).map f :=
  lookup_map_snd t g.layers fun _ => f
theorem layer?_setLayer (g : MEG) (t t' : Nat) (L : Layer) :
    (g.setLayer t L).layer? t' = (g.layer? t').map fun L' => if t' == t then L else L' := by
  rw [setLayer_eq, layer?_remap]

theorem lookup_none_of_not_mem {α} {l : List (Nat × α)} {x : Nat} (h : x ∉ l.map (·.1)) : List.lookup x l = none := by
  have := lookup_isSome_iff x l
  cases hl : List.lookup x l
  · rfl
  · rw [hl] at this; simp at this; exact absurd this (by simpa using h)

theorem lookup_map_upd (l : List (Nat × Attr)) (v x : Nat) (a : Attr) :
    List.lookup x (l.map fun p => if p.1 == v then (p.1, p.2.upd a) else p) =
      if x == v then (List.lookup x l).map (·.upd a) else List.lookup x l := by
  induction l with
  | nil => simp
  | cons p l ih =>
    obtain ⟨k, b⟩ := p
    simp only [List.map_cons]
    by_cases hk : (k == v) = true
    · by_cases hx : (x == k) = true
      · have hxv : (x == v) = true := by simp at hk hx; simp [hx, hk]
        simp [hk, List.lookup_cons, hx, hxv]
      · have hx' : (x == k) = false := by simpa using hx
        simp only [hk, ite_true, List.lookup_cons, hx']; exact ih
    · have hk' : (k == v) = false := by simpa using hk
      by_cases hx : (x == k) = true
      · have hxv : (x == v) = false := by simp at hk hx; simp [hx, hk]
        simp [hk', List.lookup_cons, hx, hxv]
      · have hx' : (x == k) = false := by simpa using hx
        simp only [hk', Bool.false_eq_true, ite_false, List.lookup_cons, hx']; exact ih

theorem abs_addNode (g : MEG) (v : Nat) (a : Attr) : (g.addNode v a).abs = g.abs.addNodeS v a := by
  apply AG.ext'
  · rw [addNode_eq]; rfl
  · intro x
    simp only [abs, AG.addNodeS]
    rw [Bool.eq_iff_iff]; simp only [hasNode_iff, mem_nodeIds_addNode, Bool.or_eq_true, beq_iff_eq]
  · intro t
    rw [addNode_eq]; simp only [abs, AG.addNodeS, layer?_remap]
    cases g.layer? t <;> simp
  · intro t x y
    rw [addNode_eq]; simp only [abs, AG.addNodeS, layer?_remap]
    cases g.layer? t <;> simp
  · intro x
    simp only [abs, AG.addNodeS]
    unfold addNode; simp only
    split
    · rename_i hh
      simp only [applyAll, lookup_map_upd]
      split
      · rename_i hx
        cases hl : List.lookup x g.nodes with
        | none =>
          exfalso
          have := lookup_isSome_iff x g.nodes
          simp only [hl, Option.isSome_none] at this
          simp only [beq_iff_eq] at hx; subst hx
          have h3 := hasNode_iff.1 hh
          simp only [nodeIds] at h3
          simp_all
        | some b => simpa using attrOf_upd (some b) a
      · rfl
    · rename_i hh
      have hv : v ∉ g.nodes.map (·.1) := fun hc => hh (hasNode_iff.2 hc)
      simp only [applyAll, List.lookup_append]
      by_cases hx : x = v
      · subst hx
        rw [lookup_none_of_not_mem hv]
        simpa [Attr.upd] using attrOf_upd none a
      · have : (x == v) = false := by simpa using hx
        simp [List.lookup_cons, this]
  · intro t x y
    rw [addNode_eq]; simp only [abs, AG.addNodeS, layer?_remap]
    cases g.layer? t <;> simp
  · rw [addNode_eq]; rfl

theorem abs_ensureNode (g : MEG) (v : Nat) (a : Attr) : (g.ensureNode v a).abs = g.abs.ensureS v a := by
  unfold ensureNode AG.ensureS
  show _ = if g.hasNode v = true then _ else _
  split
  · rfl
  · exact abs_addNode g v a

/-! ### operations that transform the selected layers -/
/-- apply `f` to the layers selected by the edge-type argument -/
def selF (T : EType) (f : Layer → Layer) : Nat → Layer → Layer := fun t' L' => if AG.sel T t' then f L' else L'

theorem layer?_applyAll' (g : MEG) (f : Layer → Layer) (t' : Nat) :
    (g.applyAll f).layer? t' = (g.layer? t').map (selF .all f t') := by
  rw [layer?_applyAll]; rfl
theorem layer?_setLayer' {g : MEG} {t : Nat} {L : Layer} (hL : g.layer? t = some L) (f : Layer → Layer) (t' : Nat) :
    (g.setLayer t (f L)).layer? t' = (g.layer? t').map (selF (.one t) f t') := by
  rw [layer?_setLayer]
  by_cases h : t = t'
  · subst h; simp [selF, AG.sel, hL]
  · have h1 : (t' == t) = false := by simpa using fun hc : t' = t => h hc.symm
    have h2 : (t == t') = false := by simpa using h
    have : selF (.one t) f t' = id := by funext L'; simp [selF, AG.sel, h2]
    rw [this]; simp [h1]

/-- same master data, layers transformed by `F` -/
structure LayersBy (g g' : MEG) (F : Nat → Layer → Layer) : Prop where
  admg : g'.admg = g.admg
  nodes : g'.nodes = g.nodes
  gattr : g'.gattr = g.gattr
  layer : ∀ t, g'.layer? t = (g.layer? t).map (F t)

theorem LayersBy.applyAll (g : MEG) (f : Layer → Layer) : LayersBy g (g.applyAll f) (selF .all f) :=
  ⟨rfl, rfl, rfl, layer?_applyAll' g f⟩
theorem LayersBy.setLayer {g : MEG} {t : Nat} {L : Layer} (hL : g.layer? t = some L) (f : Layer → Layer) :
    LayersBy g (g.setLayer t (f L)) (selF (.one t) f) :=
  ⟨rfl, rfl, rfl, layer?_setLayer' hL f⟩

theorem LayersBy.abs_eq {g g' : MEG} {F : Nat → Layer → Layer} (h : LayersBy g g' F) {a : AG}
    (h0 : a.admg = g.abs.admg) (h1 : a.node = g.abs.node) (h4 : a.nattr = g.abs.nattr) (h6 : a.gattr = g.abs.gattr)
    (hk : ∀ t, a.kind t = (g.layer? t).map fun L => (F t L).kind)
    (he : ∀ t u v, a.edge t u v = match g.layer? t with | some L => (F t L).has u v | none => false)
    (ha : ∀ t u v, a.eattr t u v = match g.layer? t with | some L => attrOf ((F t L).find u v) | none => .empty) :
    g'.abs = a := by
  apply AG.ext'
  · rw [h0]; exact h.admg
  · intro v; rw [h1]; simp only [abs, hasNode, nodeIds, h.nodes]
  · intro t; rw [hk]; simp only [abs, h.layer]; cases g.layer? t <;> rfl
  · intro t u v; rw [he]; simp only [abs, h.layer]; cases g.layer? t <;> rfl
  · intro v; rw [h4]; simp only [abs, h.nodes]
  · intro t u v; rw [ha]; simp only [abs, h.layer]; cases g.layer? t <;> rfl
  · rw [h6]; simp only [abs, h.gattr]

theorem abs_putEdge {g g' : MEG} {T : EType} {u v : Nat} {a : Attr}
    (h : LayersBy g g' (selF T (·.addEdge u v a))) : g'.abs = g.abs.putEdge T u v a := by
  refine h.abs_eq (a := g.abs.putEdge T u v a) rfl rfl rfl rfl ?_ ?_ ?_
  · intro t; simp only [AG.putEdge, abs, selF]; cases g.layer? t <;> simp <;> split <;> simp
  · intro t x y; simp only [AG.putEdge, abs, selF]
    cases g.layer? t with
    | none => simp
    | some L => cases hs : AG.sel T t <;> simp [Layer.has_addEdge, same_eq_sameP]
  · intro t x y; simp only [AG.putEdge, abs, selF]
    rcases Option.eq_none_or_eq_some (g.layer? t) with hL | ⟨L, hL⟩ <;> simp only [hL]
    · simp
    · cases hs : AG.sel T t
      · simp
      · simp only [ite_true, Bool.true_and, Option.map_some, Layer.find_addEdge, same_eq_sameP]
        split
        · exact (attrOf_upd _ _).symm
        · rfl

theorem abs_dropEdge {g g' : MEG} {T : EType} {u v : Nat}
    (h : LayersBy g g' (selF T (·.dropEdge u v))) : g'.abs = g.abs.dropEdgeS T u v := by
  refine h.abs_eq (a := g.abs.dropEdgeS T u v) rfl rfl rfl rfl ?_ ?_ ?_
  · intro t; simp only [AG.dropEdgeS, abs, selF]; cases g.layer? t <;> simp <;> split <;> simp
  · intro t x y; simp only [AG.dropEdgeS, abs, selF]
    cases g.layer? t with
    | none => simp
    | some L => cases hs : AG.sel T t <;> simp [Layer.has_dropEdge, same_eq_sameP]
  · intro t x y; simp only [AG.dropEdgeS, abs, selF]
    rcases Option.eq_none_or_eq_some (g.layer? t) with hL | ⟨L, hL⟩ <;> simp only [hL]
    · simp
    · cases hs : AG.sel T t
      · simp
      · simp only [ite_true, Bool.true_and, Option.map_some, Layer.find_dropEdge, same_eq_sameP]
        split <;> simp

theorem abs_clearEdges {g g' : MEG} {T : EType} (h : LayersBy g g' (selF T (·.clearEdges))) :
    g'.abs = g.abs.clearS T := by
  refine h.abs_eq (a := g.abs.clearS T) rfl rfl rfl rfl ?_ ?_ ?_
  · intro t; simp only [AG.clearS, abs, selF]; cases g.layer? t <;> simp <;> split <;> simp
  · intro t x y; simp only [AG.clearS, abs, selF]
    rcases Option.eq_none_or_eq_some (g.layer? t) with hL | ⟨L, hL⟩ <;> simp only [hL]
    · simp
    · cases hs : AG.sel T t <;> simp
  · intro t x y; simp only [AG.clearS, abs, selF]
    rcases Option.eq_none_or_eq_some (g.layer? t) with hL | ⟨L, hL⟩ <;> simp only [hL]
    · simp
    · cases hs : AG.sel T t <;> simp

theorem LayersBy.trans_remap {g g' : MEG} {T : EType} (f1 f2 : Layer → Layer)
    (h : LayersBy g g' (selF T fun L => f2 (f1 L))) :
    LayersBy (g.remap g.nodes (selF T f1)) g' (selF T f2) := by
  refine ⟨h.admg, h.nodes, h.gattr, fun t => ?_⟩
  rw [h.layer, layer?_remap]
  cases g.layer? t <;> simp [selF] <;> split <;> rfl
theorem LayersBy.remap_self (g : MEG) (F : Nat → Layer → Layer) : LayersBy g (g.remap g.nodes F) F :=
  ⟨rfl, rfl, rfl, layer?_remap g g.nodes F⟩

theorem abs_addEdges {g g' : MEG} {T : EType} {es : List (Nat × Nat)} {a : Attr}
    (h : LayersBy g g' (selF T (·.addEdges es a))) :
    g'.abs = es.foldl (fun s e => s.putEdge T e.1 e.2 a) g.abs := by
  induction es generalizing g with
  | nil =>
    simp only [List.foldl_nil]
    refine h.abs_eq (a := g.abs) rfl rfl rfl rfl ?_ ?_ ?_ <;> intros <;>
      simp only [abs, selF, Layer.addEdges, List.foldl_nil] <;> cases g.layer? _ <;> simp
  | cons e es ih =>
    simp only [List.foldl_cons]
    have h1 : LayersBy g (g.remap g.nodes (selF T (·.addEdge e.1 e.2 a))) _ := LayersBy.remap_self g _
    rw [← abs_putEdge h1]
    apply ih
    exact LayersBy.trans_remap (·.addEdge e.1 e.2 a) (·.addEdges es a) h

theorem abs_removeEdges {g g' : MEG} {T : EType} {es : List (Nat × Nat)}
    (h : LayersBy g g' (selF T (·.removeEdges es))) :
    g'.abs = es.foldl (fun s e => s.dropEdgeS T e.1 e.2) g.abs := by
  induction es generalizing g with
  | nil =>
    simp only [List.foldl_nil]
    refine h.abs_eq (a := g.abs) rfl rfl rfl rfl ?_ ?_ ?_ <;> intros <;>
      simp only [abs, selF, Layer.removeEdges, List.foldl_nil] <;> cases g.layer? _ <;> simp
  | cons e es ih =>
    simp only [List.foldl_cons]
    have h1 : LayersBy g (g.remap g.nodes (selF T (·.dropEdge e.1 e.2))) _ := LayersBy.remap_self g _
    rw [← abs_dropEdge h1]
    apply ih
    exact LayersBy.trans_remap (·.dropEdge e.1 e.2) (·.removeEdges es) h

end MEG
end C02
