import Pw.C06.Spec
import Pw.C06.Model
import Pw.C01.Full
import Pw.C01.Guard
open Closure

/-! # C06: basic lemmas (ancestor sets of the model, neighbours, the per-triple collider test) -/
namespace C06
open MG

/-- last-step decomposition of `Anc` -/
theorem anc_last {G : MG} {a c : Nat} (h : Anc G a c) : a = c ∨ ∃ w, Anc G a w ∧ (w, c) ∈ G.dir := by
  induction h with
  | refl => exact Or.inl rfl
  | @step a b c e _ ih =>
    rcases ih with rfl | ⟨w, hw, hwc⟩
    · exact Or.inr ⟨a, Anc.refl a, e⟩
    · exact Or.inr ⟨w, Anc.step e hw, hwc⟩

/-- strict ancestor: first-step and last-step formulations agree -/
theorem sanc_first_iff_last {G : MG} {a t : Nat} :
    (∃ c, (a, c) ∈ G.dir ∧ Anc G c t) ↔ (∃ w, (w, t) ∈ G.dir ∧ Anc G a w) := by
  constructor
  · rintro ⟨c, hac, hct⟩
    rcases anc_last hct with rfl | ⟨w, hcw, hwt⟩
    · exact ⟨a, hac, Anc.refl a⟩
    · exact ⟨w, hwt, Anc.step hac hcw⟩
  · rintro ⟨w, hwt, haw⟩
    cases haw with
    | refl => exact ⟨t, hwt, Anc.refl t⟩
    | step e h => exact ⟨_, e, h.tail hwt⟩

/-- `nx.ancestors(directed layer, t)` is the set of strict ancestors of `t` -/
theorem mem_ancStrict {G : MG} (hwf : G.WF) {v t : Nat} :
    v ∈ ancStrict G t ↔ ∃ w, (w, t) ∈ G.dir ∧ Anc G v w := by
  unfold ancStrict
  rw [mem_closure]
  constructor
  · rintro ⟨w, hw, _, hr⟩
    exact ⟨w, mem_parents.mp hw, reach_parents_anc hr⟩
  · rintro ⟨w, hw, ha⟩
    exact ⟨w, mem_parents.mpr hw, (hwf.1 _ hw).1, anc_reach_parents hwf ha⟩

theorem mem_allAnc {G : MG} (hwf : G.WF) {x y : Nat} {S : List Nat} {v : Nat} :
    v ∈ allAnc G x y S ↔ ∃ t ∈ x :: y :: S, ∃ w, (w, t) ∈ G.dir ∧ Anc G v w := by
  simp only [allAnc, List.mem_append, List.mem_flatMap, mem_ancStrict hwf, List.mem_cons]
  constructor
  · rintro ((h | h) | ⟨s, hs, h⟩)
    · exact ⟨x, Or.inl rfl, h⟩
    · exact ⟨y, Or.inr (Or.inl rfl), h⟩
    · exact ⟨s, Or.inr (Or.inr hs), h⟩
  · rintro ⟨t, (rfl | rfl | ht), h⟩
    · exact Or.inl (Or.inl h)
    · exact Or.inl (Or.inr h)
    · exact Or.inr ⟨t, ht, h⟩

/-- the model's collider licence `cur ∈ all_ancestors ∨ cur ∈ S` implies the specification's -/
theorem ancOf_of_model {G : MG} (hwf : G.WF) {x y : Nat} {S : List Nat} {v : Nat}
    (h : v ∈ allAnc G x y S ∨ v ∈ S) : AncOf G x y S v := by
  rcases h with h | h
  · obtain ⟨t, ht, w, hwt, hvw⟩ := (mem_allAnc hwf).mp h
    exact ⟨t, ht, hvw.tail hwt⟩
  · exact ⟨v, by simp [h], Anc.refl v⟩

/-- … and conversely for inner nodes (different from x and y) -/
theorem model_of_ancOf {G : MG} (hwf : G.WF) {x y : Nat} {S : List Nat} {v : Nat}
    (h : AncOf G x y S v) (hx : v ≠ x) (hy : v ≠ y) : v ∈ allAnc G x y S ∨ v ∈ S := by
  obtain ⟨t, ht, ha⟩ := h
  rcases anc_last ha with rfl | ⟨w, hvw, hwt⟩
  · simp only [List.mem_cons] at ht
    rcases ht with rfl | rfl | ht
    · exact absurd rfl hx
    · exact absurd rfl hy
    · exact Or.inr ht
  · exact Or.inl ((mem_allAnc hwf).mpr ⟨t, ht, w, hwt, hvw⟩)

theorem ancOf_step {G : MG} {x y : Nat} {S : List Nat} {a b : Nat} (e : (a, b) ∈ G.dir)
    (h : AncOf G x y S b) : AncOf G x y S a := by
  obtain ⟨t, ht, hb⟩ := h
  exact ⟨t, ht, Anc.step e hb⟩

theorem ancOf_x {G : MG} {x y : Nat} {S : List Nat} : AncOf G x y S x := ⟨x, by simp, Anc.refl x⟩
theorem ancOf_y {G : MG} {x y : Nat} {S : List Nat} : AncOf G x y S y := ⟨y, by simp, Anc.refl y⟩

/-! ## neighbours and arrowheads -/

theorem into_iff {G : MG} {p c : Nat} :
    into G p c = true ↔ ((p, c) ∈ G.dir ∨ (p, c) ∈ G.bi ∨ (c, p) ∈ G.bi) := by
  simp only [into, Bool.or_eq_true, decide_eq_true_eq, mem_parents, spouses, mem_sym]
  constructor
  · rintro (h | h | h)
    · exact Or.inl h
    · exact Or.inr (Or.inr h)
    · exact Or.inr (Or.inl h)
  · rintro (h | h | h)
    · exact Or.inl h
    · exact Or.inr (Or.inr h)
    · exact Or.inr (Or.inl h)

/-- an edge with an arrowhead at `c` makes `p` a parent or spouse of `c` -/
theorem into_of_hasEdge_head {G : MG} {p c : Nat} {mp : Mark} (h : HasEdge G p c mp .head) :
    into G p c = true := by
  rw [into_iff]
  rcases h with ⟨_, _, h⟩ | ⟨_, h2, _⟩ | ⟨_, _, h⟩ | ⟨_, h2, _⟩
  · exact Or.inl h
  · cases h2
  · exact Or.inr h
  · cases h2

theorem mem_nbrs {G : MG} {a b : Nat} :
    b ∈ nbrs G a ↔ ((b, a) ∈ G.dir ∨ (a, b) ∈ G.dir ∨ ((a, b) ∈ G.bi ∨ (b, a) ∈ G.bi) ∨
      ((a, b) ∈ G.un ∨ (b, a) ∈ G.un)) := by
  simp only [nbrs, List.mem_append, mem_parents, mem_children, spouses, unbrs, mem_sym, or_assoc]

theorem mem_nbrs_of_hasEdge {G : MG} {a b : Nat} {ma mb : Mark} (h : HasEdge G a b ma mb) :
    b ∈ nbrs G a := by
  rw [mem_nbrs]
  rcases h with ⟨_, _, h⟩ | ⟨_, _, h⟩ | ⟨_, _, h⟩ | ⟨_, _, h⟩
  · exact Or.inr (Or.inl h)
  · exact Or.inl h
  · exact Or.inr (Or.inr (Or.inl h))
  · exact Or.inr (Or.inr (Or.inr h))

/-- without undirected edges a tail at `a` means the edge is `a -> b` -/
theorem dir_of_tail {G : MG} (hun : G.un = []) {a b : Nat} {mb : Mark} (h : HasEdge G a b .tail mb) :
    (a, b) ∈ G.dir ∧ mb = .head := by
  rcases h with ⟨_, h2, h3⟩ | ⟨h1, _, _⟩ | ⟨h1, _, _⟩ | ⟨_, _, h3⟩
  · exact ⟨h3, h2⟩
  · cases h1
  · cases h1
  · rw [hun] at h3; simp at h3

theorem dir_of_tail' {G : MG} (hun : G.un = []) {a b : Nat} {ma : Mark} (h : HasEdge G a b ma .tail) :
    (b, a) ∈ G.dir ∧ ma = .head := dir_of_tail hun h.symm

/-- the canonical choice of one edge on an adjacent pair: the bidirected edge if there is one, else
    the directed edge.  It puts an arrowhead wherever some edge of the pair has one. -/
def canon (G : MG) (a b : Nat) : Mark × Mark :=
  if (a, b) ∈ G.bi ∨ (b, a) ∈ G.bi then (.head, .head)
  else if (a, b) ∈ G.dir then (.tail, .head) else (.head, .tail)

theorem canon_hasEdge {G : MG} (hun : G.un = []) {a b : Nat} (h : b ∈ nbrs G a) :
    HasEdge G a b (canon G a b).1 (canon G a b).2 := by
  rw [mem_nbrs, hun] at h
  unfold canon
  by_cases hb : (a, b) ∈ G.bi ∨ (b, a) ∈ G.bi
  · simp only [hb, if_true]; exact Or.inr (Or.inr (Or.inl ⟨rfl, rfl, hb⟩))
  · simp only [hb, if_false]
    by_cases hd : (a, b) ∈ G.dir
    · simp only [hd, if_true]; exact Or.inl ⟨rfl, rfl, hd⟩
    · simp only [hd, if_false]
      rcases h with h | h | h | h
      · exact Or.inr (Or.inl ⟨rfl, rfl, h⟩)
      · exact absurd h hd
      · exact absurd h hb
      · simp at h

theorem canon_snd_head {G : MG} {a b : Nat} :
    (canon G a b).2 = .head ↔ into G a b = true := by
  rw [into_iff]; unfold canon
  by_cases hb : (a, b) ∈ G.bi ∨ (b, a) ∈ G.bi
  · simp [hb]
  · by_cases hd : (a, b) ∈ G.dir
    · simp [hb, hd]
    · simp [hb, hd]

theorem canon_fst_head {G : MG} (hun : G.un = []) (no2 : ∀ a b, (a, b) ∈ G.dir → (b, a) ∉ G.dir) {a b : Nat}
    (hadj : b ∈ nbrs G a) : (canon G a b).1 = .head ↔ into G b a = true := by
  rw [mem_nbrs, hun] at hadj
  rw [into_iff]; unfold canon
  by_cases hb : (a, b) ∈ G.bi ∨ (b, a) ∈ G.bi
  · simp only [hb, if_true, true_iff]; exact Or.inr hb.symm
  · by_cases hd : (a, b) ∈ G.dir
    · simp only [hb, hd, if_false, if_true]
      constructor
      · intro h; cases h
      · rintro (h | h)
        · exact absurd h (no2 _ _ hd)
        · exact absurd h.symm hb
    · simp only [hb, hd, if_false, true_iff]
      rcases hadj with h | h | h | h
      · exact Or.inl h
      · exact absurd h hd
      · exact absurd h hb
      · simp at h

end C06
