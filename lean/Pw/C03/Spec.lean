import Pw.C03.Bits
import Pw.C03.PairMap
/-! C03 — the property, stated without reference to the guards.

"a PAG never has, on one node pair, a bidirected edge together with a directed or circle mark,
 directed edges in both directions, or an arrowhead and a circle at the same endpoint, and a CPDAG
 never has a directed edge together with an undirected or an opposite directed edge" -/
namespace C03

namespace PBits
/-- endpoint marks claimed by the layers (pair read relative to (u,v)) -/
def arrowAtV (s : PBits) : Bool := s.directed_uv || s.bi
def arrowAtU (s : PBits) : Bool := s.directed_vu || s.bi
def circleAtV (s : PBits) : Bool := s.circle_uv
def circleAtU (s : PBits) : Bool := s.circle_vu
end PBits

/-- no contradictory marks on a PAG pair (the property's list, clause by clause) -/
def GoodP (s : PBits) : Bool :=
  !(s.bi && (s.directed_uv || s.directed_vu || s.circle_uv || s.circle_vu)) &&   -- <-> with -> / o
  !(s.directed_uv && s.directed_vu) &&                                             -- -> and <-
  !(s.arrowAtV && s.circleAtV) && !(s.arrowAtU && s.circleAtU)                     -- > and o at one end

/-- no contradictory marks on a CPDAG pair -/
def GoodC (s : CBits) : Bool :=
  !(s.directed_uv && s.un) && !(s.directed_vu && s.un) &&                          -- -> with --
  !(s.directed_uv && s.directed_vu)                                                -- -> with <-

instance : PairState PBits := ⟨PBits.swap, PBits.swap_swap, PBits.empty, rfl⟩
instance : PairState CBits := ⟨CBits.swap, CBits.swap_swap, CBits.empty, rfl⟩

/-- a graph (pair ↦ marks) without contradictory marks -/
def InvP (g : PairMap PBits) : Prop := PairMap.All (fun s => GoodP s = true) g
def InvC (g : PairMap CBits) : Prop := PairMap.All (fun s => GoodC s = true) g

/-- what `orient_uncertain_edge(u, v)` may change on a PAG pair: the circle at v becomes an
    arrowhead; the marks at u and the undirected layer stay as they are -/
def OrientOnlyP (s s' : PBits) : Prop :=
  s.circleAtV = true ∧ s.arrowAtV = false ∧ s'.circleAtV = false ∧ s'.arrowAtV = true ∧
  s'.arrowAtU = s.arrowAtU ∧ s'.circleAtU = s.circleAtU ∧ s'.un = s.un

/-- on a CPDAG pair: the undirected edge becomes u -> v, nothing else -/
def OrientOnlyC (s s' : CBits) : Prop :=
  s.un = true ∧ s'.un = false ∧ s'.directed_uv = true ∧ s'.directed_vu = s.directed_vu


/-! ### vocabulary of the public mutations -/

/-- `MixedEdgeGraph.add_edge(u, v, t)` once the guard has passed (`t` names a layer or is 'all') -/
def rawAddP (t : ET) (s : PBits) : PBits :=
  match t with
  | .directed => { s with directed_uv := true }
  | .circle => { s with circle_uv := true }
  | .bidirected => { s with bi := true }
  | .undirected => { s with un := true }
  | .all => { s with directed_uv := true, circle_uv := true, bi := true, un := true }
  | .other => s

def rawAddC (t : ET) (s : CBits) : CBits :=
  match t with
  | .directed => { s with directed_uv := true }
  | .undirected => { s with un := true }
  | .all => { s with directed_uv := true, un := true }
  | _ => s


inductive Op
  | add (t : ET) (u v : Nat)
  | addBulk (t : ET) (es : List (Nat × Nat))        -- add_edges_from
  | remove (t : ET) (u v : Nat)
  | removeBulk (t : ET) (es : List (Nat × Nat))     -- remove_edges_from
  | orient (u v : Nat)
deriving Repr

def Op.pairs : Op → List (Nat × Nat)
  | .add _ u v => [(u, v)]
  | .addBulk _ es => es
  | .remove _ u v => [(u, v)]
  | .removeBulk _ es => es
  | .orient u v => [(u, v)]

/-- the operation does not *add* with `edge_type='all'` (known finding; removal with 'all' is fine) -/
def Op.NoAll : Op → Prop
  | .add t _ _ => t ≠ .all
  | .addBulk t _ => t ≠ .all
  | _ => True

/-- every member names two different nodes -/
def Op.NoLoop (op : Op) : Prop := ∀ e ∈ op.pairs, e.1 ≠ e.2


/-! ### the property for one class

`step g op = (g', raised)` is the class's behaviour on a public mutation, `isValid` what
`is_valid_mec_graph` answers on one pair, `store t s` what a successful addition of a `t` edge on
(u,v) stores.  `edge_type='all'` additions are excluded (known finding: they are accepted and always
create contradictory marks). -/
structure Holds {σ : Type} [PairState σ] (Good : σ → Bool) (OrientOnly : σ → σ → Prop)
    (store : ET → σ → σ) (named : ET → Prop)
    (step : PairMap σ → Op → PairMap σ × Bool) (isValid : σ → Bool) : Prop where
  /-- "never has …": the invariant survives every mutation, successful or not — so, by induction,
      it holds after every history and in every reachable graph -/
  preserved : ∀ g op, PairMap.All (fun s => Good s = true) g → op.NoAll →
      PairMap.All (fun s => Good s = true) (step g op).1
  /-- "a mutation that would break this raises …" -/
  rejects : ∀ g t u v, PairMap.All (fun s => Good s = true) g → named t → u ≠ v →
      Good (store t (g.rd u v)) = false → (step g (.add t u v)).2 = true
  /-- "… and leaves the graph exactly as it was" (any raising mutation, also bulk and orient) -/
  atomic : ∀ g op, PairMap.All (fun s => Good s = true) g → op.NoLoop →
      (step g op).2 = true → (step g op).1 = g
  /-- "is_valid_mec_graph accepts every reachable graph" (and only graphs without contradictions) -/
  valid : ∀ s, isValid s = true ↔ Good s = true
  /-- "orient_uncertain_edge changes only the one circle/undirected mark it is asked to orient" -/
  orient_only : ∀ g u v, PairMap.All (fun s => Good s = true) g → u ≠ v →
      (step g (.orient u v)).2 = false →
      OrientOnly (g.rd u v) ((step g (.orient u v)).1.rd u v) ∧
      ∀ a b, (a, b) ≠ PairMap.key u v → (step g (.orient u v)).1 a b = g a b
  /-- an operation touches only the pairs it names -/
  frame : ∀ g op a b, (∀ e ∈ op.pairs, (a, b) ≠ PairMap.key e.1 e.2) → (step g op).1 a b = g a b

instance (s s' : PBits) : Decidable (OrientOnlyP s s') := by unfold OrientOnlyP; infer_instance
instance (s s' : CBits) : Decidable (OrientOnlyC s s') := by unfold OrientOnlyC; infer_instance

theorem GoodP_swap (s : PBits) : GoodP s.swap = GoodP s := by
  rcases s with ⟨a, b, c, d, e, f⟩
  revert a b c d e f; decide

theorem GoodC_swap (s : CBits) : GoodC s.swap = GoodC s := by
  rcases s with ⟨a, b, c⟩
  revert a b c; decide

end C03
