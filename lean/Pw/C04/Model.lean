import Pw.Core.Graph

/-! # C04 model: `order_edges`, `label_edges`, `dag_to_cpdag` (pywhy_graphs/algorithms/cpdag.py)

The DAG is an `MG` with only the `dir` layer.  `topo` is the list `list(nx.topological_sort(G))`
(an input, so that the model follows networkx's choice; the theorems quantify over every list).
The edge attribute `order` is the position in the list returned by `orderEdges`; the attribute `label`
is a function `Edge → Label`. -/
namespace C04

abbrev Edge := Nat × Nat

inductive Label | unknown | compelled | reversible
deriving DecidableEq, Repr

/-- `ordered_nodes.index(v)` -/
def pos (topo : List Nat) (v : Nat) : Nat := topo.idxOf v

/-- `sorted(l, key)[-1]`: an element with maximal key (the last one among ties – `sorted` is stable) -/
def argmax {α : Type} (key : α → Nat) : List α → Option α
  | [] => none
  | a :: l =>
    match argmax key l with
    | none => some a
    | some b => if key a ≤ key b then some b else some a

/-- `sorted(l, key)[0]`: an element with minimal key (the first one among ties) -/
def argmin {α : Type} (key : α → Nat) : List α → Option α
  | [] => none
  | a :: l =>
    match argmin key l with
    | none => some a
    | some b => if key b < key a then some b else some a

/-- one iteration of the `while` loop of `order_edges`: `y` = target with the highest topological
    index among the unordered edges, `x` = source with the lowest index among the unordered edges
    into `y` -/
def orderStep (topo : List Nat) (un : List Edge) : Option Edge :=
  match argmax (fun e => pos topo e.2) un with
  | none => none
  | some ey =>
    match argmin (pos topo) ((un.filter (·.2 == ey.2)).map (·.1)) with
    | none => none
    | some x => some (x, ey.2)

/-- the `while any(order is None)` loop; the result lists the edges by increasing `order` -/
def orderLoop (topo : List Nat) : Nat → List Edge → List Edge
  | 0, _ => []
  | fuel + 1, un =>
    match orderStep topo un with
    | none => []
    | some e => e :: orderLoop topo fuel (un.erase e)

def orderEdges (topo : List Nat) (E : List Edge) : List Edge := orderLoop topo E.length E

/-- `G[a][b]["label"] = l` -/
def setEdge (e : Edge) (l : Label) (lab : Edge → Label) : Edge → Label :=
  fun e' => if e' = e then l else lab e'

/-- `for src, target in G.in_edges(y): G[src][target]["label"] = l` -/
def setInto (y : Nat) (l : Label) (lab : Edge → Label) : Edge → Label :=
  fun e => if e.2 = y then l else lab e

/-- the `for node in w_nodes` loop with its `break`; the flag is `continue_while_loop` -/
def wLoop (E : List Edge) (y : Nat) : List Nat → (Edge → Label) → (Edge → Label) × Bool
  | [], lab => (lab, false)
  | w :: ws, lab =>
    if E.contains (w, y) then wLoop E y ws (setEdge (w, y) .compelled lab)
    else (setInto y .compelled lab, true)

/-- one iteration of the `while` loop of `label_edges`; `none` = no unknown edge left -/
def labelStep (G : MG) (ord : List Edge) (lab : Edge → Label) : Option (Edge → Label) :=
  match (ord.filter fun e => lab e == .unknown).getLast? with
  | none => none
  | some (x, y) =>
    let ws := (G.parents x).filter fun w => lab (w, x) == .compelled
    match wLoop G.dir y ws lab with
    | (lab1, true) => some lab1
    | (lab1, false) =>
      let zExists := (G.parents y).any fun z => z != x && !G.dir.contains (z, x)
      some fun e =>
        if e.2 = y ∧ lab1 e = .unknown then (if zExists then .compelled else .reversible) else lab1 e

def labelLoop (G : MG) (ord : List Edge) : Nat → (Edge → Label) → (Edge → Label)
  | 0, lab => lab
  | fuel + 1, lab =>
    match labelStep G ord lab with
    | none => lab
    | some lab' => labelLoop G ord fuel lab'

/-- `label_edges(order_edges(G))` as the final label function -/
def labels (G : MG) (topo : List Nat) : Edge → Label :=
  labelLoop G (orderEdges topo G.dir) G.dir.length (fun _ => .unknown)

/-- `dag_to_cpdag` (after the `fix:` commit that keeps all nodes) -/
def dagToCpdag (G : MG) (topo : List Nat) : MG :=
  let lab := labels G topo
  { nodes := G.nodes,
    dir := G.dir.filter fun e => lab e == .compelled,
    un := G.dir.filter fun e => lab e == .reversible }

end C04
