import Pw.C08.Dec
import Pw.C08.Complete
open Closure

/-! # C08: the brute-force decider is correct – `extsDec` enumerates the consistent extensions up to
the order/multiplicity of the edge list, `compelledDec` decides `Compelled`, `hasExtDec` decides
existence of a consistent extension. -/
namespace C08
open MG

theorem orientations_sound : ∀ {l o : List (Nat × Nat)}, o ∈ orientations l →
    (∀ x ∈ o, x ∈ l ∨ x.swap ∈ l) ∧ (∀ e ∈ l, e ∈ o ∨ e.swap ∈ o)
  | [], o, h => by
    simp only [orientations, List.mem_singleton] at h
    subst h
    exact ⟨fun _ hx => (by cases hx), fun _ he => (by cases he)⟩
  | (a, b) :: t, o, h => by
    simp only [orientations, List.mem_flatMap, List.mem_cons, List.not_mem_nil, or_false] at h
    obtain ⟨o', ho', rfl | rfl⟩ := h
    · obtain ⟨h1, h2⟩ := orientations_sound ho'
      refine ⟨?_, ?_⟩
      · intro x hx
        rcases List.mem_cons.mp hx with rfl | hx
        · exact Or.inl List.mem_cons_self
        · exact (h1 x hx).imp (List.mem_cons_of_mem _) (List.mem_cons_of_mem _)
      · intro e he
        rcases List.mem_cons.mp he with rfl | he
        · exact Or.inl List.mem_cons_self
        · exact (h2 e he).imp (List.mem_cons_of_mem _) (List.mem_cons_of_mem _)
    · obtain ⟨h1, h2⟩ := orientations_sound ho'
      refine ⟨?_, ?_⟩
      · intro x hx
        rcases List.mem_cons.mp hx with rfl | hx
        · exact Or.inr List.mem_cons_self
        · exact (h1 x hx).imp (List.mem_cons_of_mem _) (List.mem_cons_of_mem _)
      · intro e he
        rcases List.mem_cons.mp he with rfl | he
        · exact Or.inr List.mem_cons_self
        · exact (h2 e he).imp (List.mem_cons_of_mem _) (List.mem_cons_of_mem _)

theorem orientations_complete (f : Nat × Nat → Bool) : ∀ l : List (Nat × Nat),
    l.map (fun e => if f e then e else e.swap) ∈ orientations l
  | [] => by simp [orientations]
  | (a, b) :: t => by
    simp only [orientations, List.map_cons, List.mem_flatMap, List.mem_cons, List.not_mem_nil, or_false]
    refine ⟨_, orientations_complete f t, ?_⟩
    cases f (a, b) <;> simp

theorem vstructB_iff {G : MG} {a c b : Nat} : vstructB G a c b = true ↔ VStruct G a c b := by
  unfold vstructB VStruct skelB
  simp only [Bool.and_eq_true, hasDir_iff, bne_iff_ne, ne_eq, Bool.not_eq_true']
  constructor
  · rintro ⟨⟨⟨h1, h2⟩, h3⟩, h4⟩
    exact ⟨h1, h2, h3, fun h => by rw [adj_iff.mpr h] at h4; cases h4⟩
  · rintro ⟨h1, h2, h3, h4⟩
    refine ⟨⟨⟨h1, h2⟩, h3⟩, ?_⟩
    cases h : adj G a b with
    | false => rfl
    | true => exact absurd (adj_iff.mp h) h4

/-- two graphs with the same arrows (as sets), same nodes, no undirected edges -/
structure SameDir (D D' : MG) : Prop where
  nodes : D'.nodes = D.nodes
  noUn : D.un = []
  noUn' : D'.un = []
  dir : ∀ e, e ∈ D'.dir ↔ e ∈ D.dir

theorem SameDir.skel {D D' : MG} (h : SameDir D D') (a b : Nat) : Skel D' a b ↔ Skel D a b := by
  unfold Skel; rw [h.noUn, h.noUn', h.dir, h.dir]

theorem SameDir.vstruct {D D' : MG} (h : SameDir D D') (a c b : Nat) :
    VStruct D' a c b ↔ VStruct D a c b := by
  unfold VStruct; rw [h.dir, h.dir, h.skel]

theorem SameDir.acyclic {D D' : MG} (h : SameDir D D') (hac : Acyclic D) : Acyclic D' :=
  fun a b hab hba => hac a b ((h.dir _).mp hab) (anc_mono (fun e he => (h.dir e).mp he) hba)

theorem SameDir.ext {P D D' : MG} (h : SameDir D D') (hD : ConsistentExt P D) : ConsistentExt P D' where
  nodes := h.nodes.trans hD.nodes
  noUn := h.noUn'
  acyclic := h.acyclic hD.acyclic
  skel := fun a b => (h.skel a b).trans (hD.skel a b)
  dir := fun e he => (h.dir e).mpr (hD.dir e he)
  vstruct := fun a c b => (h.vstruct a c b).trans (hD.vstruct a c b)

theorem candidate_wf {P : MG} (hwf : P.WF) {o : List (Nat × Nat)} (ho : o ∈ orientations P.un) :
    (candidate P o).WF := by
  obtain ⟨h1, _⟩ := orientations_sound ho
  refine ⟨?_, by simp [candidate], by simp [candidate]⟩
  intro e he
  simp only [candidate, List.mem_append] at he ⊢
  rcases he with he | he
  · exact hwf.1 e he
  · rcases h1 e he with h | h
    · exact hwf.2.2 e h
    · exact (hwf.2.2 _ h).symm

/-- every member of `extsDec P` is a consistent extension -/
theorem extsDec_sound {P : MG} (hwf : P.WF) {D : MG} (h : D ∈ extsDec P) : ConsistentExt P D := by
  simp only [extsDec, List.mem_filter, List.mem_map, Bool.and_eq_true, Bool.not_eq_true'] at h
  obtain ⟨⟨o, ho, rfl⟩, hcyc, hv⟩ := h
  obtain ⟨o1, o2⟩ := orientations_sound ho
  have wfD := candidate_wf hwf ho
  have hsk : ∀ a b, Skel (candidate P o) a b ↔ Skel P a b := by
    intro a b
    unfold Skel
    simp only [candidate, List.mem_append, List.not_mem_nil, or_false]
    constructor
    · rintro ((h | h) | (h | h))
      · exact Or.inl h
      · rcases o1 _ h with h | h
        · exact Or.inr (Or.inr (Or.inl h))
        · exact Or.inr (Or.inr (Or.inr h))
      · exact Or.inr (Or.inl h)
      · rcases o1 _ h with h | h
        · exact Or.inr (Or.inr (Or.inr h))
        · exact Or.inr (Or.inr (Or.inl h))
    · rintro (h | h | h | h)
      · exact Or.inl (Or.inl h)
      · exact Or.inr (Or.inl h)
      · rcases o2 _ h with h | h
        · exact Or.inl (Or.inr h)
        · exact Or.inr (Or.inr h)
      · rcases o2 _ h with h | h
        · exact Or.inr (Or.inr h)
        · exact Or.inl (Or.inr h)
  refine ⟨rfl, rfl, (hasCycle_false_iff _ wfD).mp hcyc, hsk, ?_, ?_⟩
  · intro e he; simp only [candidate, List.mem_append]; exact Or.inl he
  · intro a c b
    by_cases hn : a ∈ P.nodes ∧ c ∈ P.nodes ∧ b ∈ P.nodes
    · simp only [sameV, List.all_eq_true, beq_iff_eq] at hv
      have := hv a hn.1 c hn.2.1 b hn.2.2
      rw [← vstructB_iff, ← vstructB_iff, this]
    · constructor
      · rintro ⟨h1, h2, _⟩
        exact absurd ⟨(wfD.1 _ h1).1, (wfD.1 _ h1).2, (wfD.1 _ h2).1⟩ hn
      · rintro ⟨h1, h2, _⟩
        exact absurd ⟨(hwf.1 _ h1).1, (hwf.1 _ h1).2, (hwf.1 _ h2).1⟩ hn

/-- every consistent extension has the same arrows as some member of `extsDec P` -/
theorem extsDec_complete {P : MG} (hwf : P.WF) {D : MG} (hD : ConsistentExt P D) :
    ∃ D' ∈ extsDec P, SameDir D D' := by
  let f : Nat × Nat → Bool := fun e => decide (e ∈ D.dir)
  let o := P.un.map (fun e => if f e then e else e.swap)
  have ho : o ∈ orientations P.un := orientations_complete f P.un
  have nodir : ∀ {a b}, (a, b) ∈ D.dir → (b, a) ∉ D.dir :=
    fun h h' => hD.acyclic _ _ h (Anc.step h' (Anc.refl _))
  have hsame : SameDir D (candidate P o) := by
    refine ⟨hD.nodes.symm, hD.noUn, rfl, ?_⟩
    rintro ⟨x, y⟩
    simp only [candidate, List.mem_append]
    constructor
    · rintro (h | h)
      · exact hD.dir _ h
      · simp only [o, List.mem_map] at h
        obtain ⟨e, he, heq⟩ := h
        by_cases hf : f e = true
        · simp only [hf, if_true] at heq; rw [← heq]; simpa [f] using hf
        · simp only [hf, Bool.false_eq_true, if_false] at heq
          have hne : e ∉ D.dir := by simpa [f] using hf
          have hs : Skel P e.1 e.2 := Or.inr (Or.inr (Or.inl he))
          rcases ext_dir_of_skel hD hs with h' | h'
          · exact absurd h' hne
          · rw [← heq]; exact h'
    · intro h
      have hs : Skel P x y := (hD.skel x y).mp (Or.inl h)
      rcases hs with h' | h' | h' | h'
      · exact Or.inl h'
      · exact absurd (hD.dir _ h') (nodir h)
      · right
        simp only [o, List.mem_map]
        exact ⟨(x, y), h', by simp [f, h]⟩
      · right
        simp only [o, List.mem_map]
        refine ⟨(y, x), h', ?_⟩
        have : f (y, x) = false := by simpa [f] using nodir h
        simp [this]
  refine ⟨candidate P o, ?_, hsame⟩
  simp only [extsDec, List.mem_filter, List.mem_map, Bool.and_eq_true, Bool.not_eq_true']
  refine ⟨⟨o, ho, rfl⟩, ?_, ?_⟩
  · exact (hasCycle_false_iff _ (candidate_wf hwf ho)).mpr (hsame.acyclic hD.acyclic)
  · simp only [sameV, List.all_eq_true, beq_iff_eq]
    intro a _ c _ b _
    have : VStruct (candidate P o) a c b ↔ VStruct P a c b :=
      (hsame.vstruct a c b).trans (hD.vstruct a c b)
    cases h1 : vstructB (candidate P o) a c b <;> cases h2 : vstructB P a c b <;> try rfl
    · exact absurd (this.mpr (vstructB_iff.mp h2)) (by rw [← vstructB_iff, h1]; simp)
    · exact absurd (this.mp (vstructB_iff.mp h1)) (by rw [← vstructB_iff, h2]; simp)

/-- **the oracle is the spec**: `compelledDec` decides `Compelled` -/
theorem compelledDec_iff {P : MG} (hwf : P.WF) (a b : Nat) :
    compelledDec P a b = true ↔ Compelled P a b := by
  simp only [compelledDec, List.all_eq_true, hasDir_iff]
  constructor
  · intro h D hD
    obtain ⟨D', hD', hs⟩ := extsDec_complete hwf hD
    exact (hs.dir _).mp (h D' hD')
  · intro h D hD
    exact h D (extsDec_sound hwf hD)

/-- `hasExtDec` decides the existence of a consistent extension (the quantifier of the soundness clause) -/
theorem hasExtDec_iff {P : MG} (hwf : P.WF) : hasExtDec P = true ↔ ∃ D, ConsistentExt P D := by
  simp only [hasExtDec, Bool.not_eq_true', List.isEmpty_eq_false_iff_exists_mem]
  constructor
  · rintro ⟨D, hD⟩; exact ⟨D, extsDec_sound hwf hD⟩
  · rintro ⟨D, hD⟩
    obtain ⟨D', hD', _⟩ := extsDec_complete hwf hD
    exact ⟨D', hD'⟩

/-- `compelledUn` lists exactly the compelled orientations of the undirected edges -/
theorem mem_compelledUn {P : MG} (hwf : P.WF) (a b : Nat) :
    (a, b) ∈ compelledUn P ↔ (HasUn P a b ∧ Compelled P a b) := by
  rw [← compelledDec_iff hwf]
  simp only [compelledUn, compelledDec, List.mem_filter, List.mem_flatMap, List.mem_cons,
    List.not_mem_nil, or_false, HasUn]
  constructor
  · rintro ⟨⟨⟨x, y⟩, hxy, h | h⟩, hall⟩
    · cases h; exact ⟨Or.inl hxy, hall⟩
    · cases h; exact ⟨Or.inr hxy, hall⟩
  · rintro ⟨h | h, hall⟩
    · exact ⟨⟨(a, b), h, Or.inl rfl⟩, hall⟩
    · exact ⟨⟨(b, a), h, Or.inr rfl⟩, hall⟩

end C08

namespace C08
open MG

theorem mem_patternOf_dir {D : MG} (hwf : D.WF) (a c : Nat) :
    (a, c) ∈ (patternOf D).dir ↔ ∃ b, VStruct D a c b := by
  simp only [patternOf, List.mem_filter, List.any_eq_true]
  constructor
  · rintro ⟨_, b, _, hb⟩; exact ⟨b, vstructB_iff.mp hb⟩
  · rintro ⟨b, hv⟩
    exact ⟨hv.1, b, (hwf.1 _ hv.2.1).1, vstructB_iff.mpr hv⟩

theorem mem_patternOf_un {D : MG} (hwf : D.WF) (a c : Nat) :
    (a, c) ∈ (patternOf D).un ↔ ((a, c) ∈ D.dir ∧ ¬ ∃ b, VStruct D a c b) := by
  simp only [patternOf, List.mem_filter, Bool.not_eq_true', List.any_eq_false]
  constructor
  · rintro ⟨h, hno⟩
    refine ⟨h, ?_⟩
    rintro ⟨b, hv⟩
    exact hno b (hwf.1 _ hv.2.1).1 (vstructB_iff.mpr hv)
  · rintro ⟨h, hno⟩
    exact ⟨h, fun b _ hb => hno ⟨b, vstructB_iff.mp hb⟩⟩

/-- `patternOf D` is the pattern of the DAG `D` -/
theorem patternOf_isPattern {D : MG} (hd : IsDAG D) (hwf : D.WF) : IsPattern D (patternOf D) := by
  have nodir : ∀ {a b}, (a, b) ∈ D.dir → (b, a) ∉ D.dir :=
    fun h h' => hd.acyclic _ _ h (Anc.step h' (Anc.refl _))
  have split : ∀ a c, (a, c) ∈ D.dir ↔ ((a, c) ∈ (patternOf D).dir ∨ (a, c) ∈ (patternOf D).un) := by
    intro a c
    rw [mem_patternOf_dir hwf, mem_patternOf_un hwf]
    constructor
    · intro h
      by_cases hv : ∃ b, VStruct D a c b
      · exact Or.inl hv
      · exact Or.inr ⟨h, hv⟩
    · rintro (⟨b, hv⟩ | ⟨h, _⟩)
      · exact hv.1
      · exact h
  refine ⟨rfl, ?_, mem_patternOf_dir hwf, ?_⟩
  · intro a b
    unfold Skel
    rw [hd.noUn, split a b, split b a]
    simp only [List.not_mem_nil, or_false]
    constructor
    · rintro (h | h | h | h)
      · exact Or.inl (Or.inl h)
      · exact Or.inr (Or.inl h)
      · exact Or.inl (Or.inr h)
      · exact Or.inr (Or.inr h)
    · rintro ((h | h) | (h | h))
      · exact Or.inl h
      · exact Or.inr (Or.inr (Or.inl h))
      · exact Or.inr (Or.inl h)
      · exact Or.inr (Or.inr (Or.inr h))
  · intro a b h
    rw [mem_patternOf_dir hwf] at h
    rw [mem_patternOf_un hwf, mem_patternOf_un hwf]
    obtain ⟨x, hv⟩ := h
    exact ⟨fun h' => h'.2 ⟨x, hv⟩, fun h' => nodir hv.1 h'.1⟩

theorem patternOf_wf {D : MG} (hwf : D.WF) : (patternOf D).WF := by
  refine ⟨?_, by simp [patternOf], ?_⟩
  · intro e he
    simp only [patternOf, List.mem_filter] at he
    exact hwf.1 e he.1
  · intro e he
    simp only [patternOf, List.mem_filter] at he
    exact hwf.1 e he.1

/-- **the run-time oracle for the pattern clause is the spec**: `essentialDec D` is the essential
    graph of the DAG `D` -/
theorem essentialDec_isEssential {D : MG} (hd : IsDAG D) (hwf : D.WF) :
    IsEssential D (patternOf D) (essentialDec D) := by
  have hp := patternOf_isPattern hd hwf
  have hwfP := patternOf_wf hwf
  have hext := ext_of_pattern hd hp
  have hc := mem_compelledUn hwfP
  have hEdir : ∀ a b, (a, b) ∈ (essentialDec D).dir ↔
      ((a, b) ∈ (patternOf D).dir ∨ (a, b) ∈ compelledUn (patternOf D)) := by
    intro a b; simp only [essentialDec, List.mem_append]
  have hEun : ∀ a b, (a, b) ∈ (essentialDec D).un ↔
      ((a, b) ∈ (patternOf D).un ∧ (a, b) ∉ compelledUn (patternOf D) ∧
        (b, a) ∉ compelledUn (patternOf D)) := by
    intro a b
    simp only [essentialDec, List.mem_filter, Bool.not_eq_true', Bool.or_eq_false_iff,
      decide_eq_false_iff_not]
  refine ⟨rfl, ?_, ?_, ?_⟩
  · intro a b
    rw [← hp.skel a b]
    unfold Skel
    rw [hEdir, hEdir, hEun, hEun]
    constructor
    · rintro ((h | h) | (h | h) | ⟨h, _⟩ | ⟨h, _⟩)
      · exact Or.inl h
      · rcases ((hc a b).mp h).1 with h | h
        · exact Or.inr (Or.inr (Or.inl h))
        · exact Or.inr (Or.inr (Or.inr h))
      · exact Or.inr (Or.inl h)
      · rcases ((hc b a).mp h).1 with h | h
        · exact Or.inr (Or.inr (Or.inr h))
        · exact Or.inr (Or.inr (Or.inl h))
      · exact Or.inr (Or.inr (Or.inl h))
      · exact Or.inr (Or.inr (Or.inr h))
    · rintro (h | h | h | h)
      · exact Or.inl (Or.inl h)
      · exact Or.inr (Or.inl (Or.inl h))
      · by_cases c1 : (a, b) ∈ compelledUn (patternOf D)
        · exact Or.inl (Or.inr c1)
        · by_cases c2 : (b, a) ∈ compelledUn (patternOf D)
          · exact Or.inr (Or.inl (Or.inr c2))
          · exact Or.inr (Or.inr (Or.inl ⟨h, c1, c2⟩))
      · by_cases c1 : (a, b) ∈ compelledUn (patternOf D)
        · exact Or.inl (Or.inr c1)
        · by_cases c2 : (b, a) ∈ compelledUn (patternOf D)
          · exact Or.inr (Or.inl (Or.inr c2))
          · exact Or.inr (Or.inr (Or.inr ⟨h, c2, c1⟩))
  · intro a b
    rw [hEdir, hc]
    constructor
    · rintro (h | ⟨hu, hcp⟩)
      · exact ⟨(hp.skel a b).mp (Or.inl h), fun D' hD' => hD'.dir _ h⟩
      · exact ⟨(hp.skel a b).mp hu.skel, hcp⟩
    · rintro ⟨hsk, hcp⟩
      rcases (hp.skel a b).mpr hsk with h | h | h | h
      · exact Or.inl h
      · exact absurd (Anc.step (hext.dir _ h) (Anc.refl _)) (hd.acyclic a b (hcp D hext))
      · exact Or.inr ⟨Or.inl h, hcp⟩
      · exact Or.inr ⟨Or.inr h, hcp⟩
  · intro a b h
    rw [hEun, hEun]
    rcases (hEdir a b).mp h with h | h
    · have := hp.simple a b h
      exact ⟨fun h' => this.1 h'.1, fun h' => this.2 h'.1⟩
    · exact ⟨fun h' => h'.2.1 h, fun h' => h'.2.2 h⟩

end C08
