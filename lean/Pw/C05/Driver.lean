import Pw.Core.Proto
import Pw.C05.Model
import Pw.C05.Spec
open Proto

namespace C05
/-- `c05model N=<node order> D= U=` → `ok D=<all edges of the DAG>` | `err:no-extension` -/
def hModel : Handler := fun a =>
  match pdagToDag a.graph with
  | .ok d => "ok D=" ++ fmtDirSet d.dir
  | .error e => "err:" ++ e

/-- the unchanged (clique) eligibility test -/
def hModelOld : Handler := fun a =>
  match pdagToDagOld a.graph with
  | .ok d => "ok D=" ++ fmtDirSet d.dir
  | .error e => "err:" ++ e

/-- `c05ext n= D= U=` → `T` iff some orientation of the undirected edges is a consistent extension -/
def hExt : Handler := fun a => fmtBool (extDec a.graph)

/-- `c05valid n= D= U= R=<edges of the returned DAG> RN=<nodes of the returned DAG>` -/
def hValid : Handler := fun a =>
  fmtBool (isConsistentExt a.graph { nodes := a.nats "RN", dir := a.pairs "R" })

/-- number of consistent extensions (evidence only) -/
def hCount : Handler := fun a => toString (allExts a.graph).length

def handlers : List (String × Handler) :=
  [("c05model", hModel), ("c05old", hModelOld), ("c05ext", hExt), ("c05valid", hValid), ("c05count", hCount)]
end C05
