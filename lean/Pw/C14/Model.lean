import Pw.Core.Graph

/-! # C14 — models of the exporters / importers (numpy, causal-learn, pcalg, Tetrad)

Everything is split in two levels.

* **pair level** (finite): what the code does for ONE pair of nodes `(u,v)`, as a function of the six
  layer bits of that pair (`PB`) resp. of the two matrix cells of that pair.  These functions mirror
  the `if/elif` case analyses of `graph_to_clearn`, `clearn_to_graph`, `graph_to_pcalg`,
  `pcalg_to_graph`, `numpy_to_graph`, `graph_to_tetrad`, `tetrad_to_graph` branch by branch (the
  translator `translate/codecs.py` regenerates them from the source and re-proves equality with
  these hand models on every run).
* **matrix level**: the loops of the code (`for u in nodes: for v in nodes`, `np.argwhere(arr != 0)`
  with the `seen`/`memo` dictionaries, in-place remapping) as folds over the row-major list of index
  pairs; matrices are functions `Nat → Nat → Int`, tabulated only for printing.

Nodes are the indices `0..n-1` of `arr_idx` (the harness owns the bijection to labels). -/

namespace C14

inductive Cls | admg | cpdag | pag deriving DecidableEq, Repr
inductive ET | directed | bidirected | undirected | circle deriving DecidableEq, Repr

/-- which `<t>_edge_name` attributes / layers a class has -/
def hasLayer : Cls → ET → Bool
  | .admg, .circle => false
  | .cpdag, .bidirected => false
  | .cpdag, .circle => false
  | _, _ => true

/-- layer bits of an ordered pair `(u,v)`: `duv` = directed edge u→v, `cuv` = circle-layer edge
    `(u,v)` (circle mark at v), `bi`/`un` = bidirected / undirected edge between u and v -/
structure PB where
  duv : Bool := false
  dvu : Bool := false
  bi : Bool := false
  un : Bool := false
  cuv : Bool := false
  cvu : Bool := false
deriving DecidableEq, Repr

namespace PB
def swap (p : PB) : PB := ⟨p.dvu, p.duv, p.bi, p.un, p.cvu, p.cuv⟩
def empty : PB := {}
/-- `G.has_edge(u, v)` with the default `edge_type="any"` -/
def anyUV (p : PB) : Bool := p.duv || p.bi || p.un || p.cuv
def anyVU (p : PB) : Bool := p.dvu || p.bi || p.un || p.cvu
/-- `v in G.neighbors(u)` (all_neighbors over every layer) -/
def adjacent (p : PB) : Bool := p.anyUV || p.anyVU
def hasD (p : PB) : Bool := p.duv || p.dvu
def hasC (p : PB) : Bool := p.cuv || p.cvu
/-- `len(edge_types(G, u, v))` -/
def nTypes (p : PB) : Nat :=
  (if p.hasD then 1 else 0) + (if p.bi then 1 else 0) + (if p.un then 1 else 0) + (if p.hasC then 1 else 0)
/-- set the bit of an edge `u→v` of type `t` -/
def set (p : PB) : ET → PB
  | .directed => { p with duv := true }
  | .bidirected => { p with bi := true }
  | .undirected => { p with un := true }
  | .circle => { p with cuv := true }
/-- only the layers the class has -/
def mask (c : Cls) (p : PB) : PB :=
  ⟨p.duv, p.dvu, p.bi && hasLayer c .bidirected, p.un, p.cuv && hasLayer c .circle, p.cvu && hasLayer c .circle⟩
end PB

/-! ## `add_edge` of the three classes at pair level (guards `_check_adding_pag_edge`,
`_check_adding_cpdag_edge`; ADMG has no guard).  `none` = the call raises. -/

def addEdge (c : Cls) (p : PB) (t : ET) : Option PB :=
  if !hasLayer c t then none else
  match c, t with
  | .pag, .circle => if p.duv || p.bi then none else some (p.set t)
  | .pag, .directed => if p.dvu then none else if p.cuv || p.bi then none else some (p.set t)
  | .pag, .bidirected => if p.duv || p.cuv || p.dvu || p.cvu then none else some (p.set t)
  | .cpdag, .directed => if p.dvu then none else if p.un then none else some (p.set t)
  | .cpdag, .undirected => if p.duv || p.dvu then none else some (p.set t)
  | _, _ => some (p.set t)

/-- one `graph.add_edge(..)` call of an importer: `rev = false` is `add_edge(u, v, t)`,
    `rev = true` is `add_edge(v, u, t)` -/
structure Op where
  rev : Bool
  t : ET
deriving DecidableEq, Repr

def applyOp (c : Cls) (p : PB) (o : Op) : Option PB :=
  if o.rev then (addEdge c p.swap o.t).map PB.swap else addEdge c p o.t

def applyOps (c : Cls) : PB → List Op → Option PB
  | p, [] => some p
  | p, o :: os => (applyOp c p o).bind fun q => applyOps c q os

/-! ## endpoint enums of `config.py` (re-checked against the source by the translator) -/
def npDirected : Int := 1
def npCircle : Int := 2
def npUndirected : Int := 10
def npBidirected : Int := 20

def clTAIL : Int := -1
def clNULL : Int := 0
def clARROW : Int := 1
def clCIRCLE : Int := 2
def clSTAR : Int := 3
def clTA : Int := 4   -- TAIL_AND_ARROW
def clAA : Int := 5   -- ARROW_AND_ARROW
def clTT : Int := 6   -- TAIL_AND_TAIL

def pgNULL : Int := 0
def pgCIRCLE : Int := 1
def pgARROW : Int := 2
def pgTAIL : Int := 3
def cpNULL : Int := 0
def cpARROW : Int := 1

/-! ## causal-learn -/

/-- `graph_to_clearn`, body of the double loop for an adjacent pair: `(endpoint_u, endpoint_v)`.
    `none`: more than two edge types (RuntimeError) or no branch assigns the endpoints. -/
def clEncPair (p : PB) : Option (Int × Int) :=
  if p.nTypes == 1 then
    if p.hasD then
      if p.duv then some (clTAIL, clARROW) else some (clARROW, clTAIL)
    else if p.bi then some (clARROW, clARROW)
    else if p.un then some (clTAIL, clTAIL)
    else
      if p.cuv && p.cvu then some (clCIRCLE, clCIRCLE)
      else if p.cuv && !p.anyVU then some (clTAIL, clCIRCLE)
      else if !p.anyUV && p.cvu then some (clCIRCLE, clTAIL)
      else none
  else if p.nTypes == 2 then
    if p.hasD && p.bi then
      if p.duv then some (clTA, clAA) else some (clAA, clTA)
    else if p.hasD && p.un then
      if p.duv then some (clTT, clTA) else some (clTA, clTT)
    else if p.bi && p.un then some (clTA, clTA)
    else if p.hasC then
      if p.cuv && p.dvu then some (clARROW, clCIRCLE)
      else if p.cvu && p.duv then some (clCIRCLE, clARROW)
      else none
    else none
  else none

/-- `clearn_to_graph`, body of the double loop: the `add_edge` calls for `(endpoint_u, endpoint_v)`.
    `none`: RuntimeError (circle endpoints for a class without circle edges). -/
def clDecPair (c : Cls) (eu ev : Int) : Option (List Op) :=
  if eu == clAA || eu == clTA || eu == clTT || ev == clAA || ev == clTA || ev == clTT then
    if ev == clAA && eu == clTA then some [⟨false, .directed⟩, ⟨false, .bidirected⟩]
    else if eu == clAA && ev == clTA then some [⟨true, .directed⟩, ⟨false, .bidirected⟩]
    else if eu == clTT && ev == clTA then some [⟨false, .directed⟩, ⟨false, .undirected⟩]
    else if ev == clTT && eu == clTA then some [⟨true, .directed⟩, ⟨false, .undirected⟩]
    else if ev == clTA && eu == clTA then some [⟨false, .bidirected⟩, ⟨false, .undirected⟩]
    else some []
  else if eu != clCIRCLE && ev != clCIRCLE then
    if ev == clARROW && eu == clARROW then some [⟨false, .bidirected⟩]
    else if ev == clARROW && eu == clTAIL then some [⟨false, .directed⟩]
    else if eu == clARROW && ev == clTAIL then some [⟨true, .directed⟩]
    else if ev == clTAIL && eu == clTAIL then some [⟨false, .undirected⟩]
    else some []
  else if !hasLayer c .circle then none
  else if eu == clCIRCLE && ev == clTAIL then some [⟨true, .circle⟩]
  else if eu == clTAIL && ev == clCIRCLE then some [⟨false, .circle⟩]
  else if eu == clARROW && ev == clCIRCLE then some [⟨true, .directed⟩, ⟨false, .circle⟩]
  else if eu == clCIRCLE && ev == clARROW then some [⟨false, .directed⟩, ⟨true, .circle⟩]
  else if eu == clCIRCLE && ev == clCIRCLE then some [⟨false, .circle⟩, ⟨true, .circle⟩]
  else some []

/-- `CLearnEndpoint(num)` does not raise -/
def clValid (x : Int) : Bool := decide (-1 ≤ x) && decide (x ≤ 6)

/-! ## pcalg -/

/-- `graph_to_pcalg`: in-place remap of the two cells of a pair of the transposed causal-learn
    array; `x = clearn_arr[idx, jdx]`, `y = clearn_arr[jdx, idx]`.  No matching branch: unchanged. -/
def pcRemap (c : Cls) (x y : Int) : Int × Int :=
  match c with
  | .cpdag =>
    if x == clTAIL && y == clTAIL then (cpARROW, cpARROW)
    else if x == clARROW && y == clTAIL then (cpNULL, cpARROW)
    else if x == clTAIL && y == clARROW then (cpARROW, cpNULL)
    else (x, y)
  | .pag =>
    if x == clARROW && y == clTAIL then (pgARROW, pgTAIL)
    else if x == clTAIL && y == clARROW then (pgTAIL, pgARROW)
    else if x == clARROW && y == clARROW then (pgARROW, pgARROW)
    else if x == clARROW && y == clCIRCLE then (pgARROW, pgCIRCLE)
    else if x == clCIRCLE && y == clARROW then (pgCIRCLE, pgARROW)
    else if x == clTAIL && y == clTAIL then (pgTAIL, pgTAIL)
    else if x == clCIRCLE && y == clCIRCLE then (pgCIRCLE, pgCIRCLE)
    else if x == clCIRCLE && y == clTAIL then (pgCIRCLE, pgTAIL)
    else if x == clTAIL && y == clCIRCLE then (pgTAIL, pgCIRCLE)
    else (x, y)
  | .admg => (x, y)

/-- `pcalg_to_graph`, loop body: `x = arr[idx, jdx]` (non-zero), `y = arr[jdx, idx]`, `u = idx`, `v = jdx` -/
def pcDecPair (c : Cls) (x y : Int) : List Op :=
  match c with
  | .pag =>
    if x == pgARROW then
      if y == pgARROW then [⟨false, .bidirected⟩]
      else if y == pgCIRCLE then [⟨false, .directed⟩, ⟨true, .circle⟩]
      else if y == pgTAIL then [⟨false, .directed⟩]
      else []
    else if x == pgTAIL then
      if y == pgTAIL then [⟨false, .undirected⟩]
      else if y == pgCIRCLE then [⟨true, .circle⟩]
      else if y == pgARROW then [⟨true, .directed⟩]
      else []
    else if x == pgCIRCLE then
      if y == pgTAIL then [⟨false, .circle⟩]
      else if y == pgCIRCLE then [⟨false, .circle⟩, ⟨true, .circle⟩]
      else if y == pgARROW then [⟨false, .circle⟩, ⟨true, .directed⟩]
      else []
    else []
  | .cpdag =>
    if x == cpARROW then
      if y == cpARROW then [⟨false, .undirected⟩] else [⟨true, .directed⟩]
    else if x == cpNULL then
      if y == cpARROW then [⟨false, .directed⟩] else []
    else []
  | .admg => []

/-! ## numpy enumeration -/

/-- `graph_to_numpy`: value of cell `[u, v]` = sum of the values of the layers that have `(u, v)` -/
def npEncCell (p : PB) : Int :=
  (if p.duv then npDirected else 0) + (if p.cuv then npCircle else 0) +
  (if p.bi then npBidirected else 0) + (if p.un then npUndirected else 0)

/-- `VALUE_TO_EDGE_MAPPING[val]` for the four edge types (`none` = KeyError; the key 0 maps to the
    edge type `None`, which no class accepts) -/
def npLookup (val : Int) : Option ET :=
  if val == npDirected then some .directed
  else if val == npCircle then some .circle
  else if val == npUndirected then some .undirected
  else if val == npBidirected then some .bidirected
  else none

/-- `numpy_to_graph`, loop body for a non-zero cell: edge types added as `add_edge(u, v, t)` -/
def npDecCell (val : Int) : Option (List ET) :=
  if val ≥ npBidirected then
    if val % npBidirected > 0 then (npLookup (val - npBidirected)).map fun t => [.bidirected, t]
    else some [.bidirected]
  else if val ≥ npUndirected then
    if val % npUndirected > 0 then (npLookup (val - npUndirected)).map fun t => [.undirected, t]
    else some [.undirected]
  else (npLookup val).map fun t => [t]

/-! ## Tetrad text format (token level) -/

inductive TM | tail | arrow | circle deriving DecidableEq, Repr

/-- `graph_to_tetrad`: the edges written for the pair `(u, v)` (u earlier in node order), each as
    (mark at u, mark at v); directed and circle layers jointly define one edge -/
def tetPairEdges (p : PB) : List (TM × TM) :=
  (if p.duv && p.dvu then [(TM.tail, TM.arrow), (TM.arrow, TM.tail)]
   else if p.duv || p.dvu || p.cuv || p.cvu then
     [(if p.dvu then TM.arrow else if p.cvu then TM.circle else TM.tail,
       if p.duv then TM.arrow else if p.cuv then TM.circle else TM.tail)]
   else []) ++
  (if p.bi then [(TM.arrow, TM.arrow)] else []) ++
  (if p.un then [(TM.tail, TM.tail)] else [])

def TM.left : TM → Char | .tail => '-' | .arrow => '<' | .circle => 'o'
def TM.right : TM → Char | .tail => '-' | .arrow => '>' | .circle => 'o'
def tetStr (e : TM × TM) : String := String.ofList [e.1.left, '-', e.2.right]

/-- `tetrad_to_graph`, edge line `k. node1 <s> node2`: `end1 = s[0]` (with `<` read as `>`),
    `end2 = s[-1]`; u = node1, v = node2 -/
def tetDecLine (end1 end2 : Char) : List Op :=
  let end1 := if end1 == '<' then '>' else end1
  if end1 == '>' then
    if end2 == '>' then [⟨false, .bidirected⟩]
    else if end2 == '-' then [⟨true, .directed⟩]
    else if end2 == 'o' then [⟨false, .circle⟩, ⟨true, .directed⟩]
    else []
  else if end1 == '-' then
    if end2 == '>' then [⟨false, .directed⟩]
    else if end2 == '-' then [⟨true, .undirected⟩]
    else if end2 == 'o' then [⟨false, .circle⟩]
    else []
  else if end1 == 'o' then
    if end2 == '>' then [⟨false, .directed⟩, ⟨true, .circle⟩]
    else if end2 == '-' then [⟨true, .circle⟩]
    else if end2 == 'o' then [⟨false, .circle⟩, ⟨true, .circle⟩]
    else []
  else []

/-! ## matrix level -/

abbrev Mat := Nat → Nat → Int
def Mat.zero : Mat := fun _ _ => 0
def Mat.set (m : Mat) (i j : Nat) (x : Int) : Mat := fun a b => if a = i ∧ b = j then x else m a b
def Mat.transpose (m : Mat) : Mat := fun a b => m b a
def Mat.toLists (n : Nat) (m : Mat) : List (List Int) :=
  (List.range n).map fun i => (List.range n).map fun j => m i j
def Mat.ofLists (l : List (List Int)) : Mat := fun i j => (l.getD i []).getD j 0

/-- row-major list of all index pairs: `for u in nodes: for v in nodes`, `np.argwhere` order -/
def allPairs (n : Nat) : List (Nat × Nat) :=
  (List.range n).flatMap fun i => (List.range n).map fun j => (i, j)

def bits (g : MG) (u v : Nat) : PB :=
  ⟨g.dir.contains (u, v), g.dir.contains (v, u),
   g.bi.contains (u, v) || g.bi.contains (v, u), g.un.contains (u, v) || g.un.contains (v, u),
   g.circ.contains (u, v), g.circ.contains (v, u)⟩

def insertEdge (g : MG) (u v : Nat) : ET → MG
  | .directed => { g with dir := g.dir ++ [(u, v)] }
  | .bidirected => { g with bi := g.bi ++ [(u, v)] }
  | .undirected => { g with un := g.un ++ [(u, v)] }
  | .circle => { g with circ := g.circ ++ [(u, v)] }

/-- `graph.add_edge(u, v, edge_type=t)` on the whole graph (guards look at the pair only) -/
def addEdgeG (c : Cls) (g : MG) (u v : Nat) (t : ET) : Option MG :=
  (addEdge c (bits g u v) t).map fun _ => insertEdge g u v t

def applyOpG (c : Cls) (u v : Nat) (g : MG) (o : Op) : Option MG :=
  if o.rev then addEdgeG c g v u o.t else addEdgeG c g u v o.t

def applyOpsG (c : Cls) (u v : Nat) : MG → List Op → Option MG
  | g, [] => some g
  | g, o :: os => (applyOpG c u v g o).bind fun h => applyOpsG c u v h os

def emptyG (n : Nat) : MG := { nodes := List.range n }

/-- bits of a pair as the class sees them -/
def bitsC (c : Cls) (g : MG) (u v : Nat) : PB := (bits g u v).mask c

/-- `graph_to_clearn` -/
def clEncStep (c : Cls) (g : MG) (m : Option Mat) (uv : Nat × Nat) : Option Mat :=
  m.bind fun m =>
    if uv.1 == uv.2 then some m
    else
      let p := bitsC c g uv.1 uv.2
      if !p.adjacent then some m
      else (clEncPair p).map fun e => (m.set uv.1 uv.2 e.1).set uv.2 uv.1 e.2

def clEnc (c : Cls) (g : MG) (n : Nat) : Option Mat :=
  (allPairs n).foldl (clEncStep c g) (some Mat.zero)

/-- `clearn_to_graph` -/
def clDecStep (c : Cls) (A : Mat) (g : Option MG) (uv : Nat × Nat) : Option MG :=
  g.bind fun g =>
    if uv.1 == uv.2 then some g
    else (clDecPair c (A uv.1 uv.2) (A uv.2 uv.1)).bind fun ops => applyOpsG c uv.1 uv.2 g ops

def clDec (c : Cls) (A : Mat) (n : Nat) : Option MG :=
  if !(allPairs n).all (fun ij => clValid (A ij.1 ij.2)) then none
  else (allPairs n).foldl (clDecStep c A) (some (emptyG n))

/-- `graph_to_pcalg`: remap loop over `np.argwhere(clearn_arr != 0)` (computed before the loop) with
    the `seen_idx` dictionary -/
def pcEncStep (c : Cls) (T0 : Mat) (st : Mat × List (Nat × Nat)) (ij : Nat × Nat) : Mat × List (Nat × Nat) :=
  if T0 ij.1 ij.2 == 0 then st
  else if st.2.contains (ij.1, ij.2) || st.2.contains (ij.2, ij.1) then st
  else
    let r := pcRemap c (st.1 ij.1 ij.2) (st.1 ij.2 ij.1)
    ((st.1.set ij.1 ij.2 r.1).set ij.2 ij.1 r.2, (ij.1, ij.2) :: st.2)

def pcEnc (c : Cls) (g : MG) (n : Nat) : Option Mat :=
  if c == .admg then none
  else (clEnc c g n).map fun A =>
    let T := A.transpose
    ((allPairs n).foldl (pcEncStep c T) (T, [])).1

/-- `pcalg_to_graph`: loop over `np.argwhere(arr != 0)` with `memo_map` -/
def pcDecStep (c : Cls) (A : Mat) (st : Option (MG × List (Nat × Nat))) (ij : Nat × Nat) :
    Option (MG × List (Nat × Nat)) :=
  st.bind fun st =>
    if A ij.1 ij.2 == 0 then some st
    else if st.2.contains (ij.1, ij.2) then some st
    else (applyOpsG c ij.1 ij.2 st.1 (pcDecPair c (A ij.1 ij.2) (A ij.2 ij.1))).map fun g =>
      (g, (ij.1, ij.2) :: (ij.2, ij.1) :: st.2)

def pcDec (c : Cls) (A : Mat) (n : Nat) : Option MG :=
  if c == .admg then none
  else ((allPairs n).foldl (pcDecStep c A) (some (emptyG n, []))).map (·.1)

/-- `graph_to_numpy` -/
def npEnc (c : Cls) (g : MG) (_n : Nat) : Mat := fun i j => npEncCell (bitsC c g i j)

/-- `numpy_to_graph` -/
def npDecStep (c : Cls) (A : Mat) (g : Option MG) (ij : Nat × Nat) : Option MG :=
  g.bind fun g =>
    if A ij.1 ij.2 == 0 then some g
    else (npDecCell (A ij.1 ij.2)).bind fun ts => applyOpsG c ij.1 ij.2 g (ts.map fun t => ⟨false, t⟩)

def npDec (c : Cls) (A : Mat) (n : Nat) : Option MG :=
  (allPairs n).foldl (npDecStep c A) (some (emptyG n))

/-- upper-triangle pairs in node order: `for i, u in enumerate(nodes): for v in nodes[i+1:]` -/
def upperPairs (n : Nat) : List (Nat × Nat) := (allPairs n).filter fun ij => ij.1 < ij.2

/-- `graph_to_tetrad`: the edge lines `(node1, (mark1, mark2), node2)` in file order -/
def tetEnc (c : Cls) (g : MG) (n : Nat) : List (Nat × (TM × TM) × Nat) :=
  (upperPairs n).flatMap fun ij => (tetPairEdges (bitsC c g ij.1 ij.2)).map fun e => (ij.1, e, ij.2)

/-- `tetrad_to_graph` on edge lines `(node1, end1, end2, node2)` -/
def tetDec (c : Cls) (n : Nat) (lines : List (Nat × Char × Char × Nat)) : Option MG :=
  lines.foldl (fun g l => g.bind fun g => applyOpsG c l.1 l.2.2.2 g (tetDecLine l.2.1 l.2.2.1))
    (some (emptyG n))

end C14
