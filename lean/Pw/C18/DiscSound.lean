import Pw.C18.UncovSound

/-! # C18: soundness of `discriminating_path` — whenever `found` is True the returned list
`(v, …, a, u, c)` satisfies `DiscPathWeak` (every clause of the property, with the parent test for
the node `a` weakened to "arrowhead at c": the known finding), hence `DiscPath` whenever the edge
between `a` and `c` carries no circle at `a`. -/
namespace C18

theorem headAt_eq (G : MG) (x y : Nat) : headAt G x y = (hD G x y || hB G x y) := by
  unfold headAt mark
  cases hD G x y <;> cases hB G x y <;> cases hC G x y <;> cases hD G y x <;> cases hU G x y <;>
    cases hC G y x <;> rfl

theorem parentOf_of_isParent {G : MG} {c w : Nat} (h : isParent G c w = true) : parentOf G w c = true := by
  unfold isParent possParent at h
  unfold parentOf mark
  rw [hB_comm G c w, hU_comm G c w]
  revert h
  cases hD G w c <;> cases hD G c w <;> cases hB G w c <;> cases hU G w c <;> cases hC G c w <;>
    cases hC G w c <;> decide

theorem isParent_adj {G : MG} {c w : Nat} (h : isParent G c w = true) : adj G w c = true := by
  unfold isParent at h
  unfold adj
  revert h
  cases hD G w c <;> simp

/-- the reversed BFS trace `[w_k, …, w_1, a, u, c]`: consecutive `w`s joined by bidirected edges, all
    parents of `c` -/
inductive DChain (G : MG) (u a c : Nat) : List Nat → Prop
  | base : DChain G u a c [a, u, c]
  | cons {x y : Nat} {t : List Nat} : DChain G u a c (y :: t) → hB G y x = true →
      isParent G c x = true → DChain G u a c (x :: y :: t)

theorem DChain.form {G : MG} {u a c : Nat} {r : List Nat} (h : DChain G u a c r) :
    ∃ ws, r = ws ++ [a, u, c] := by
  induction h with
  | base => exact ⟨[], rfl⟩
  | @cons x y t _ _ _ ih =>
    obtain ⟨ws, hws⟩ := ih
    exact ⟨x :: ws, by rw [hws]; rfl⟩

/-- the weakened parent test of the code -/
def parWeak (G : MG) (a c : Nat) (y : Nat) : Bool := parentOf G y c || (y == a && hD G y c)

theorem DChain.inner {G : MG} {u a c : Nat} (hua : headAt G u a = true) (hac : hD G a c = true)
    {r : List Nat} (h : DChain G u a c r) :
    ∀ x, (∀ y, r.head? = some y → headAt G x y = true) → innerColl G (parWeak G a c) (x :: r.dropLast) = true := by
  induction h with
  | base =>
    intro x hx
    have hxa := hx a rfl
    show innerColl G (parWeak G a c) [x, a, u] = true
    simp [innerColl, hxa, hua, parWeak, hac]
  | @cons x' y t hd hb hp ih =>
    intro x hx
    have hx' := hx x' rfl
    obtain ⟨ws, hws⟩ := hd.form
    have htne : t ≠ [] := by
      intro e; subst e
      have : ([y] : List Nat).length = (ws ++ [a, u, c]).length := by rw [hws]
      simp at this
    obtain ⟨z, t', rfl⟩ := List.exists_cons_of_ne_nil htne
    have e1 : (x' :: y :: z :: t').dropLast = x' :: y :: (z :: t').dropLast := by simp [List.dropLast]
    have e2 : (y :: z :: t').dropLast = y :: (z :: t').dropLast := by simp [List.dropLast]
    rw [e1, innerColl]
    have hyx : headAt G y x' = true := by rw [headAt_eq, hb]; simp
    have hxy : headAt G x' y = true := by rw [headAt_eq, hB_comm, hb]; simp
    have := ih x' (by intro y' hy'; simp at hy'; subst hy'; exact hxy)
    rw [e2] at this
    simp [hx', hyx, parWeak, parentOf_of_isParent hp, this]

theorem DChain.chain {G : MG} {u a c : Nat} (hau : adj G a u = true) (huc : adj G u c = true)
    {r : List Nat} (h : DChain G u a c r) :
    ∀ x, (∀ y, r.head? = some y → adj G x y = true) → chainB (adj G) (x :: r) = true := by
  induction h with
  | base =>
    intro x hx
    simp [chainB, hx a rfl, hau, huc]
  | @cons x' y t _ hb _ ih =>
    intro x hx
    have hadj : adj G x' y = true := by
      unfold adj; rw [hB_comm G x' y, hb]; simp
    have := ih x' (by intro y' hy'; simp at hy'; subst hy'; exact hadj)
    rw [chainB, hx x' rfl, this]; rfl

/-- valid partial traces `[c, u, a, w_1, …, w_k]` of the search -/
def DPre (G : MG) (u a c : Nat) (l : List Nat) : Prop := DChain G u a c l.reverse ∧ l.Nodup

/-- complete traces `[c, u, a, w_1, …, w_k, v]` -/
def DFin (G : MG) (u a c : Nat) (l : List Nat) : Prop :=
  ∃ v t, l.reverse = v :: t ∧ DChain G u a c t ∧ l.Nodup ∧ adj G v c = false ∧
    (∀ y, t.head? = some y → (hD G v y || hB G y v) = true)

theorem discCls_cases {G : MG} {c : Nat} {prev : Option Nat} {this next : Nat} {r : Cls}
    (h : discCls G c prev this next = r) (hr : r ≠ .skip) :
    (hD G next this || hB G this next) = true ∧
      (r = .fin → adj G next c = false ∧ next ≠ c) ∧
      (r = .push → isParent G c next = true ∧ hB G this next = true) := by
  unfold discCls at h
  by_cases c1 : (!(hD G next this || hB G this next)) = true
  · rw [if_pos c1] at h; exact absurd h.symm hr
  · rw [if_neg c1] at h
    refine ⟨by revert c1; cases hD G next this <;> cases hB G this next <;> simp, ?_, ?_⟩
    · by_cases c2 : (!adj G next c && next != c) = true
      · intro _; simpa using c2
      · rw [if_neg c2] at h
        intro e; subst e
        by_cases c3 : (isParent G c next && hB G this next) = true
        · rw [if_pos c3] at h; cases h
        · rw [if_neg c3] at h; cases h
    · by_cases c2 : (!adj G next c && next != c) = true
      · rw [if_pos c2] at h; intro e; subst e; cases h
      · rw [if_neg c2] at h
        by_cases c3 : (isParent G c next && hB G this next) = true
        · intro _; simpa using c3
        · rw [if_neg c3] at h; exact absurd h.symm hr

theorem disc_hpush (G : MG) (u a c : Nat) :
    ∀ l this next, DPre G u a c l → l.getLast? = some this → next ∉ l →
      discCls G c (penult l) this next = .push → DPre G u a c (l ++ [next]) := by
  intro l this next ⟨hd, hn⟩ hlast hnl hc
  obtain ⟨_, _, hp⟩ := discCls_cases hc (by simp)
  obtain ⟨hpar, hb⟩ := hp rfl
  have hrev : l.reverse.head? = some this := by rw [List.head?_reverse]; exact hlast
  refine ⟨?_, ?_⟩
  · rw [List.reverse_append]
    cases hr : l.reverse with
    | nil => rw [hr] at hrev; cases hrev
    | cons y t =>
      rw [hr] at hrev hd; simp at hrev; subst hrev
      exact DChain.cons hd hb hpar
  · rw [List.nodup_append]
    refine ⟨hn, by simp, ?_⟩
    intro x hx y hy; simp at hy; subst hy; intro e; exact hnl (e ▸ hx)

theorem disc_hfin (G : MG) (u a c : Nat) :
    ∀ l this next, DPre G u a c l → l.getLast? = some this → next ∉ l →
      discCls G c (penult l) this next = .fin → DFin G u a c (l ++ [next]) := by
  intro l this next ⟨hd, hn⟩ hlast hnl hc
  obtain ⟨hh, hf, _⟩ := discCls_cases hc (by simp)
  obtain ⟨hnadj, _⟩ := hf rfl
  have hrev : l.reverse.head? = some this := by rw [List.head?_reverse]; exact hlast
  refine ⟨next, l.reverse, by simp, hd, ?_, hnadj, ?_⟩
  · rw [List.nodup_append]
    refine ⟨hn, by simp, ?_⟩
    intro x hx y hy; simp at hy; subst hy; intro e; exact hnl (e ▸ hx)
  · intro y hy; rw [hrev] at hy; injection hy with hy; subst hy; exact hh

theorem innerColl_mono (G : MG) {p1 p2 : Nat → Bool} (h : ∀ y, p1 y = true → p2 y = true) :
    ∀ l, innerColl G p1 l = true → innerColl G p2 l = true
  | [] => fun _ => rfl
  | [_] => fun _ => rfl
  | [_, _] => fun _ => rfl
  | x :: y :: z :: t => by
    intro hl
    simp only [innerColl, Bool.and_eq_true] at hl ⊢
    exact ⟨⟨⟨hl.1.1.1, hl.1.1.2⟩, h y hl.1.2⟩, innerColl_mono G h (y :: z :: t) hl.2⟩

theorem glc (l : List Nat) (x : Nat) : (l ++ [x]).getLast? = some x := by simp

theorem nodup_reverse' (l : List Nat) (h : l.Nodup) : l.reverse.Nodup := by
  unfold List.Nodup at *
  rw [List.pairwise_reverse]
  exact h.imp (fun h => h.symm)

/-- a complete trace, reversed, is a discriminating path in the weak sense -/
theorem DFin.discPathWeak {G : MG} {u a c : Nat} (hS : Simple G) (he : discEntry G u a c = true)
    {l : List Nat} (h : DFin G u a c l) : DiscPathWeak G u a c l.reverse := by
  obtain ⟨v, t, hl, hd, hn, hvc, hhead⟩ := h
  simp only [discEntry, Bool.and_eq_true] at he
  obtain ⟨⟨huc, hac⟩, hau⟩ := he
  have hua : headAt G u a = true := by
    rw [headAt_eq, hB_comm G u a]; revert hau; cases hB G a u <;> cases hD G u a <;> simp
  have hadj_au : adj G a u = true := by
    unfold adj; revert hau; cases hB G a u <;> cases hD G u a <;> simp
  obtain ⟨ws, hws⟩ := hd.form
  have hvhead : ∀ y, t.head? = some y → headAt G v y = true := by
    intro y hy; rw [headAt_eq, hB_comm G v y]; exact hhead y hy
  have hvadj : ∀ y, t.head? = some y → adj G v y = true := by
    intro y hy
    have := hhead y hy
    unfold adj; rw [hB_comm G v y]; revert this
    cases hD G v y <;> cases hB G y v <;> simp
  have hinner := hd.inner hua hac v hvhead
  have hchain := hd.chain hadj_au huc v hvadj
  rw [hl]
  unfold DiscPathWeak DiscPathP
  have hnr : (v :: t).Nodup := by rw [← hl]; exact nodup_reverse' l hn
  subst hws
  have hform : v :: (ws ++ [a, u, c]) = (((v :: ws) ++ [a]) ++ [u]) ++ [c] := by simp
  have hdl : (v :: (ws ++ [a, u, c])).dropLast = v :: (ws ++ [a, u, c]).dropLast := by
    cases ws <;> simp [List.dropLast]
  refine ⟨by simp, hnr, ?_, ?_, ?_, hchain, ?_, ?_⟩
  · rw [hform]; exact glc _ _
  · rw [hform, List.dropLast_concat]; exact glc _ _
  · rw [hform, List.dropLast_concat, List.dropLast_concat]; exact glc _ _
  · rw [hdl]; exact hinner
  · intro v' hv'; simp at hv'; subst hv'; exact hvc

/-- the state before the loop satisfies the invariant -/
theorem discInit_inv {G : MG} (hS : Simple G) {u a c : Nat} (he : discEntry G u a c = true) :
    Inv c (DPre G u a c) (DFin G u a c) (discInit u a c) := by
  simp only [discEntry, Bool.and_eq_true] at he
  obtain ⟨⟨huc, hac⟩, hau⟩ := he
  have huc' : u ≠ c := by intro e; subst e; rw [(hS u u).2.2.2] at huc; cases huc
  have hac' : a ≠ c := by
    intro e; subst e
    have := (hS a a).2.2.2; unfold adj at this; rw [hac] at this; simp at this
  have hau' : a ≠ u := by
    intro e; subst e
    have := (hS a a).2.2.2; unfold adj at this
    revert hau this; cases hB G a a <;> cases hD G a a <;> simp
  unfold discInit
  refine ⟨?_, by simp, ?_, by simp⟩
  · intro x hx
    simp at hx; subst hx
    have hlu : List.lookup u [(x, u), (u, c)] = some c := by
      have : (u == x) = false := by simp; exact fun e => hau' e.symm
      simp [List.lookup_cons, this]
    have t1 : Tr [(x, u), (u, c)] c u ([c] ++ [u]) := Tr.step huc' hlu Tr.base
    have t2 : Tr [(x, u), (u, c)] c x (([c] ++ [u]) ++ [x]) :=
      Tr.step hac' (by simp [List.lookup_cons]) t1
    refine ⟨_, t2, ⟨?_, ?_⟩, by simp, by simp⟩
    · simpa using DChain.base
    · simp; exact ⟨⟨fun e => huc' e.symm, fun e => hac' e.symm⟩, fun e => hau' e.symm⟩
  · have h1 : (c == a) = false := by simp; exact fun e => hac' e.symm
    have h2 : (c == u) = false := by simp; exact fun e => huc' e.symm
    simp [List.lookup_cons, h1, h2]

/-- **Soundness of `discriminating_path`.**  On every graph with at most one edge kind per pair, for
    all iteration orders and all node triples: if the model returns `found = True` with a non-empty
    list, the list is a discriminating path `(v, …, a, u, c)` in the weak sense (`DiscPathWeak`: every
    clause of the specification, except that for the node `a` itself only the arrowhead at `c` is
    guaranteed). -/
theorem discPath_sound_weak (G : MG) (hS : Simple G) (nb bnb : Nat → List Nat) (u a c maxLen : Nat)
    (p ex : List Nat) (h : discPath G nb bnb u a c maxLen = .ok (true, p, ex)) (hp : p ≠ []) :
    DiscPathWeak G u a c p := by
  unfold discPath at h
  cases he : discEntry G u a c with
  | false => rw [he] at h; simp at h
  | true =>
    rw [he] at h
    simp only [Bool.not_true, Bool.false_eq_true, if_false] at h
    have hi := loop_inv (disc_hpush G u a c) (disc_hfin G u a c) (discIter G nb bnb) false maxLen _
      (discInit_inv hS he)
    generalize loop (discIter G nb bnb) (discCls G c) false maxLen (discInit u a c) = s at h hi
    unfold discFinish at h
    by_cases hl : s.limit = true
    · rw [if_pos hl] at h; injection h with h; injection h with _ h2; injection h2 with h2 _
      exact absurd h2.symm hp
    · rw [if_neg hl] at h
      by_cases hfound : s.found = true
      · rw [if_pos hfound] at h
        obtain ⟨e, hlast, l, htr, hQ, _, hlen⟩ := hi.fin hfound
        rw [hlast] at h
        simp only at h
        rw [recon_of_Tr htr _ [] (by omega)] at h
        simp at h
        rw [← h.1]
        exact hQ.discPathWeak hS he
      · rw [if_neg hfound] at h; injection h with h; injection h with h1 _; cases h1

theorem parentOf_a {G : MG} (hS : Simple G) {a c : Nat} (hac : hD G a c = true) (hcirc : hC G c a = false) :
    parentOf G a c = true := by
  obtain ⟨_, _, h3, _⟩ := hS a c
  obtain ⟨h1, _, _, _⟩ := hS c a
  have hdca : hD G c a = false := (h3 hac).1
  have hb : hB G c a = false := by
    cases hb : hB G c a with
    | false => rfl
    | true => have := (h1 hb).2.1; rw [hac] at this; cases this
  unfold parentOf mark
  rw [hB_comm G a c, hac, hdca, hb, hcirc]; simp

/-- **Soundness of `discriminating_path`, full specification.**  If moreover the edge between `a` and
    `c` has no circle mark at `a` (i.e. it is `a -> c`, not `a o-> c`), the returned list is a
    discriminating path in the sense of the property (`DiscPath`). -/
theorem discPath_sound (G : MG) (hS : Simple G) (nb bnb : Nat → List Nat) (u a c maxLen : Nat)
    (p ex : List Nat) (h : discPath G nb bnb u a c maxLen = .ok (true, p, ex)) (hp : p ≠ [])
    (hcirc : hC G c a = false) : DiscPath G u a c p := by
  have hw := discPath_sound_weak G hS nb bnb u a c maxLen p ex h hp
  have hac : hD G a c = true := by
    unfold discPath at h
    cases he : discEntry G u a c with
    | false => rw [he] at h; simp at h
    | true => simp only [discEntry, Bool.and_eq_true] at he; exact he.1.2
  obtain ⟨h1, h2, h3, h4, h5, h6, h7, h8⟩ := hw
  refine ⟨h1, h2, h3, h4, h5, h6, ?_, h8⟩
  refine innerColl_mono G ?_ _ h7
  intro y hy
  simp only [Bool.or_eq_true, Bool.and_eq_true, beq_iff_eq] at hy
  rcases hy with hy | ⟨hy, _⟩
  · exact hy
  · rw [hy]; exact parentOf_a hS hac hcirc

end C18
