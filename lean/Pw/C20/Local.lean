import Pw.C20.Basic

/-!
C20 — one method call on one object (repaired code, `Cfg.fixed`): the registry invariant `Reg` is
preserved, no call touches an entry that is not its own (`Keeps`), created names are fresh.
Everything here is about a `Local` = (object, the registry cell it points to); aliasing is dealt
with in `Pw/C20/Heap.lean`.
-/
namespace C20

/-- the observation of an object given the cell its registry reference points to (repaired code) -/
def lview (w : Local) : View :=
  { cls := w.o.cls, nodes := w.o.nodes, aedges := w.o.aedges, fs := w.r.fs, ss := w.r.ss, doms := w.o.doms }

/-- graph well-formedness kept by networkx: the source of every stored edge is a node -/
def WFL (w : Local) : Prop := ∀ e ∈ w.o.aedges, e.1 ∈ w.o.nodes

structure LInv (w : Local) : Prop where
  reg : Reg (lview w)
  wf : WFL w

/-- entries a call must not touch stay literally the same -/
def Keeps (op : LOp) (w w' : Local) : Prop :=
  (∀ p ∈ w.r.fs, op ≠ .rmF p.1 → p ∈ w'.r.fs) ∧ (∀ p ∈ w.r.ss, op ≠ .rmS p.1 → p ∈ w'.r.ss)

theorem Keeps.rfl' (op : LOp) (w : Local) : Keeps op w w := ⟨fun _ h _ => h, fun _ h _ => h⟩

/-! ### add_f_node -/

theorem addF_cases (c : Cfg) (w : Local) (ts : List Nat) (u : Bool) (d : Option (List Nat)) :
    addF c w ts u d = (w, .err) ∨
    (addF c w ts u d = (addFok c w ts d, .ok) ∧ ts.Nodup ∧ (∀ t ∈ ts, Node.ord t ∈ w.o.nodes) ∧
      (u = true → ∀ p ∈ w.r.fs, sameSet p.2.targets ts = false)) := by
  unfold addF
  by_cases h1 : ts.Nodup
  · rw [if_neg (not_not_intro h1)]
    by_cases h2 : (u && w.r.fs.any (fun p => sameSet p.2.targets ts)) = true
    · rw [if_pos h2]; exact Or.inl rfl
    · rw [if_neg h2]
      by_cases h3 : ts.any (fun t => decide (Node.ord t ∉ w.o.nodes)) = true
      · rw [if_pos h3]; exact Or.inl rfl
      · rw [if_neg h3]
        refine Or.inr ⟨rfl, h1, ?_, ?_⟩
        · intro t ht
          by_cases hm : Node.ord t ∈ w.o.nodes
          · exact hm
          · exact absurd (List.any_eq_true.2 ⟨t, ht, by simpa using hm⟩) h3
        · intro hu p hp
          subst hu
          simp only [Bool.true_and, List.any_eq_true, not_exists, not_and, Bool.not_eq_true] at h2
          exact h2 p hp
  · rw [if_pos h1]; exact Or.inl rfl

/-- freshness of the generated F-name (repaired code) -/
theorem nameF_fresh (w : Local) : Node.f (nameF Cfg.fixed w) ∉ w.o.nodes := by
  have := freshIdx_not_mem (fNames w.o.nodes) w.r.fs.length
  rw [mem_fNames] at this
  simpa [nameF, Cfg.fixed] using this

theorem nameS_fresh (w : Local) : Node.s (nameS Cfg.fixed w) ∉ w.o.nodes := by
  have := freshIdx_not_mem (sNames w.o.nodes) w.r.ss.length
  rw [mem_sNames] at this
  simpa [nameS, Cfg.fixed] using this

theorem nameF_not_key {w : Local} (h : LInv w) : nameF Cfg.fixed w ∉ dKeys w.r.fs :=
  fun hk => nameF_fresh w (h.reg.f_registered_present _ hk)

theorem nameS_not_key {w : Local} (h : LInv w) : nameS Cfg.fixed w ∉ dKeys w.r.ss :=
  fun hk => nameS_fresh w (h.reg.s_registered_present _ hk)

theorem addFok_inv {w : Local} (h : LInv w) (ts : List Nat) (d : Option (List Nat)) :
    LInv (addFok Cfg.fixed w ts d) := by
  have hfresh := nameF_fresh w
  have hkey := nameF_not_key h
  obtain ⟨⟨r1, r2, r3, r4, r5, r6⟩, wf⟩ := h
  simp only [lview, mem_fNames, mem_sNames, mem_children] at r1 r2 r3 r4 r5 r6
  refine ⟨⟨?_, ?_, ?_, ?_, ?_, ?_⟩, ?_⟩ <;>
    simp only [lview, addFok, mem_fNames, mem_sNames, mem_children, mem_dSet_new hkey, dKeys_dSet, mem_insertNew,
      List.mem_append, List.mem_map]
  · rintro k (hk | hk)
    · exact Or.inl (r1 k hk)
    · injection hk with hk; exact Or.inr hk
  · rintro k (hk | rfl)
    · exact Or.inl (r2 k hk)
    · exact Or.inr rfl
  · rintro k (hk | hk)
    · exact r3 k hk
    · cases hk
  · intro k hk; exact Or.inl (r4 k hk)
  · rintro p (hp | rfl) t (ht | ⟨t', ht', he⟩)
    · exact r5 p hp t ht
    · injection he with h1 h2; injection h1 with h1
      exact absurd (mem_dKeys_of_mem hp) (h1 ▸ hkey)
    · exact absurd (wf _ ht) hfresh
    · injection he with h1 h2; subst h2; exact ht'
  · rintro p (hp | rfl) t ht
    · exact Or.inl (r6 p hp t ht)
    · exact Or.inr ⟨t, ht, rfl⟩
  · intro e he
    simp only [addFok, List.mem_append, List.mem_map, mem_insertNew] at he ⊢
    rcases he with he | ⟨t, _, rfl⟩
    · exact Or.inl (wf e he)
    · exact Or.inr rfl

theorem addFok_keeps {w : Local} (h : LInv w) (op : LOp) (ts : List Nat) (d : Option (List Nat)) :
    Keeps op w (addFok Cfg.fixed w ts d) := by
  refine ⟨fun p hp _ => ?_, fun p hp _ => hp⟩
  simp only [addFok, dSet_new (nameF_not_key h), List.mem_append]
  exact Or.inl hp

theorem addF_inv {w : Local} (h : LInv w) (ts : List Nat) (u : Bool) (d : Option (List Nat)) :
    LInv (addF Cfg.fixed w ts u d).1 := by
  rcases addF_cases Cfg.fixed w ts u d with e | ⟨e, _⟩ <;> rw [e]
  · exact h
  · exact addFok_inv h ts d

theorem addF_keeps {w : Local} (h : LInv w) (op : LOp) (ts : List Nat) (u : Bool) (d : Option (List Nat)) :
    Keeps op w (addF Cfg.fixed w ts u d).1 := by
  rcases addF_cases Cfg.fixed w ts u d with e | ⟨e, _⟩ <;> rw [e]
  · exact Keeps.rfl' _ _
  · exact addFok_keeps h op ts d

theorem Keeps.trans' {op : LOp} {a b c : Local} (h1 : Keeps op a b) (h2 : Keeps op b c) : Keeps op a c :=
  ⟨fun p hp hne => h2.1 p (h1.1 p hp hne) hne, fun p hp hne => h2.2 p (h1.2 p hp hne) hne⟩

theorem addFs_inv_keeps (op : LOp) : ∀ (tss : List (List Nat)) {w : Local}, LInv w →
    LInv (addFs Cfg.fixed w tss).1 ∧ Keeps op w (addFs Cfg.fixed w tss).1 := by
  intro tss
  induction tss with
  | nil => intro w h; exact ⟨h, Keeps.rfl' _ _⟩
  | cons ts rest ih =>
    intro w h
    unfold addFs
    have hi := addF_inv h ts true none
    have hk := addF_keeps h op ts true none
    rcases hs : addF Cfg.fixed w ts true none with ⟨w', st⟩
    rw [hs] at hi hk
    cases st with
    | ok =>
      obtain ⟨i2, k2⟩ := ih hi
      exact ⟨i2, hk.trans' k2⟩
    | err => exact ⟨hi, hk⟩

theorem addF_nodes_mono (c : Cfg) (w : Local) (ts : List Nat) (u : Bool) (d : Option (List Nat)) :
    ∀ n ∈ w.o.nodes, n ∈ (addF c w ts u d).1.o.nodes := by
  intro n hn
  rcases addF_cases c w ts u d with e | ⟨e, _⟩ <;> rw [e]
  · exact hn
  · exact mem_insertNew.2 (Or.inl hn)

theorem addFs_nodes_mono (c : Cfg) : ∀ (tss : List (List Nat)) (w : Local),
    ∀ n ∈ w.o.nodes, n ∈ (addFs c w tss).1.o.nodes := by
  intro tss
  induction tss with
  | nil => intro w n hn; exact hn
  | cons ts rest ih =>
    intro w n hn
    unfold addFs
    have h1 := addF_nodes_mono c w ts true none n hn
    rcases hs : addF c w ts true none with ⟨w', st⟩
    rw [hs] at h1
    cases st with
    | ok => exact ih w' n h1
    | err => exact h1

/-- `add_f_nodes_from` that returns has created, for every given set, an F-node whose name was not
a node, registered with that set -/
theorem addFs_creates : ∀ (tss : List (List Nat)) {w : Local}, LInv w → (addFs Cfg.fixed w tss).2 = .ok →
    ∀ ts ∈ tss, ∃ k, Node.f k ∉ w.o.nodes ∧ Node.f k ∈ (addFs Cfg.fixed w tss).1.o.nodes ∧
      (k, (⟨ts, [1]⟩ : FEntry)) ∈ (addFs Cfg.fixed w tss).1.r.fs := by
  intro tss
  induction tss with
  | nil => intro w _ _ ts hts; cases hts
  | cons t0 rest ih =>
    intro w h hok ts hts
    unfold addFs at hok ⊢
    rcases addF_cases Cfg.fixed w t0 true none with e | ⟨e, _⟩
    · rw [e] at hok; cases hok
    · rw [e] at hok ⊢
      have h1 : LInv (addFok Cfg.fixed w t0 none) := addFok_inv h t0 none
      simp only at hok ⊢
      rcases List.mem_cons.1 hts with rfl | hin
      · refine ⟨nameF Cfg.fixed w, nameF_fresh w, ?_, ?_⟩
        · apply addFs_nodes_mono
          exact mem_insertNew.2 (Or.inr rfl)
        · have hk := (addFs_inv_keeps (.addFs rest) rest h1).2
          apply hk.1 _ _ (by simp)
          simp [addFok, mem_dSet_new (nameF_not_key h)]
      · obtain ⟨k, k1, k2, k3⟩ := ih h1 hok ts hin
        exact ⟨k, fun hm => k1 (mem_insertNew.2 (Or.inl hm)), k2, k3⟩

/-! ### add_s_node -/

theorem addSok_inv {w : Local} (h : LInv w) (d : Nat × Nat) (chg : List Nat) :
    LInv (addSok Cfg.fixed w d chg) := by
  have hfresh := nameS_fresh w
  have hkey := nameS_not_key h
  obtain ⟨⟨r1, r2, r3, r4, r5, r6⟩, wf⟩ := h
  simp only [lview, mem_fNames, mem_sNames, mem_children] at r1 r2 r3 r4 r5 r6
  have hn : nameS Cfg.fixed
      (if Cfg.fixed.classDoms = true then { w with cd := addAll w.cd [d.1, d.2] }
        else { w with o := { w.o with doms := addAll w.o.doms [d.1, d.2] } }) = nameS Cfg.fixed w := by
    simp [nameS, Cfg.fixed]
  refine ⟨⟨?_, ?_, ?_, ?_, ?_, ?_⟩, ?_⟩ <;>
    simp only [lview, addSok, Cfg.fixed, Bool.false_eq_true, if_false, mem_fNames, mem_sNames, mem_children,
      dKeys_dSet, mem_insertNew, mem_addAll, List.mem_append, List.mem_map] <;>
    simp only [Cfg.fixed, Bool.false_eq_true, if_false] at hkey hfresh
  · rintro k ((hk | hk) | ⟨t, _, hk⟩)
    · exact r1 k hk
    · cases hk
    · cases hk
  · intro k hk; exact Or.inl (Or.inl (r2 k hk))
  · rintro k ((hk | hk) | ⟨t, _, hk⟩)
    · exact Or.inl (r3 k hk)
    · injection hk with hk; exact Or.inr hk
    · cases hk
  · rintro k (hk | rfl)
    · exact Or.inl (Or.inl (r4 k hk))
    · exact Or.inl (Or.inr rfl)
  · rintro p hp t (ht | ⟨t', _, he⟩)
    · exact r5 p hp t ht
    · injection he with h1 h2; cases h1
  · intro p hp t ht; exact Or.inl (r6 p hp t ht)
  · intro e he
    simp only [addSok, Cfg.fixed, Bool.false_eq_true, if_false, List.mem_append, List.mem_map, mem_insertNew,
      mem_addAll] at he ⊢
    rcases he with he | ⟨t, _, rfl⟩
    · exact Or.inl (Or.inl (wf e he))
    · exact Or.inl (Or.inr rfl)

theorem addSok_keeps {w : Local} (h : LInv w) (op : LOp) (d : Nat × Nat) (chg : List Nat) :
    Keeps op w (addSok Cfg.fixed w d chg) := by
  have hkey := nameS_not_key h
  refine ⟨fun p hp _ => hp, fun p hp _ => ?_⟩
  simp only [nameS, Cfg.fixed, Bool.false_eq_true, if_false] at hkey
  simp only [addSok, nameS, Cfg.fixed, Bool.false_eq_true, if_false, dSet_new hkey, List.mem_append]
  exact Or.inl hp

theorem addS_cases (c : Cfg) (w : Local) (d : Nat × Nat) (chg : List Nat) :
    addS c w d chg = (w, .err) ∨ (addS c w d chg = (addSok c w d chg, .ok) ∧ chg.Nodup) := by
  unfold addS
  by_cases h : chg.Nodup
  · rw [if_neg (not_not_intro h)]; exact Or.inr ⟨rfl, h⟩
  · rw [if_pos h]; exact Or.inl rfl

/-! ### remove_node -/

theorem dropNode_inv {w : Local} {n : Node} (hn : ∀ i, n ≠ .ord i)
    (wf : WFL w)
    (h : n ∉ w.o.nodes → Reg (lview w))
    (h' : n ∈ w.o.nodes → Reg (lview (dropOk w n))) :
    LInv (dropNode w n).1 := by
  unfold dropNode
  by_cases hm : n ∈ w.o.nodes
  · rw [if_pos hm]
    refine ⟨h' hm, ?_⟩
    intro e he
    simp only [dropOk, List.mem_filter, decide_eq_true_eq] at he ⊢
    exact ⟨wf e he.1, he.2.1⟩
  · rw [if_neg hm]; exact ⟨h hm, wf⟩

theorem rmF_fs (w : Local) (k : Nat) (p : Nat × FEntry) :
    p ∈ (if k ∈ dKeys w.r.fs then { w.r with fs := dErase w.r.fs k } else w.r).fs ↔ p ∈ w.r.fs ∧ p.1 ≠ k := by
  by_cases hk : k ∈ dKeys w.r.fs
  · rw [if_pos hk]; exact mem_dErase
  · rw [if_neg hk]
    exact ⟨fun hp => ⟨hp, fun e => hk (e ▸ mem_dKeys_of_mem hp)⟩, fun hp => hp.1⟩

theorem rmF_ss (w : Local) (k : Nat) :
    (if k ∈ dKeys w.r.fs then { w.r with fs := dErase w.r.fs k } else w.r).ss = w.r.ss := by
  split <;> rfl

theorem rmF_keys (w : Local) (k k' : Nat) :
    k' ∈ dKeys (if k ∈ dKeys w.r.fs then { w.r with fs := dErase w.r.fs k } else w.r).fs ↔ k' ∈ dKeys w.r.fs ∧ k' ≠ k := by
  simp only [mem_dKeys, rmF_fs]
  constructor
  · rintro ⟨v, hv, hne⟩; exact ⟨⟨v, hv⟩, hne⟩
  · rintro ⟨⟨v, hv⟩, hne⟩; exact ⟨v, hv, hne⟩

theorem rmF_inv {w : Local} (h : LInv w) (k : Nat) : LInv (rmF w k).1 := by
  obtain ⟨⟨r1, r2, r3, r4, r5, r6⟩, wf⟩ := h
  simp only [lview, mem_fNames, mem_sNames, mem_children] at r1 r2 r3 r4 r5 r6
  show LInv (dropNode ⟨w.o, if k ∈ dKeys w.r.fs then { w.r with fs := dErase w.r.fs k } else w.r, w.cd⟩ (.f k)).1
  refine dropNode_inv (w := ⟨w.o, _, w.cd⟩) (fun i => by simp) wf ?_ ?_
  · intro hm
    refine ⟨?_, ?_, ?_, ?_, ?_, ?_⟩ <;>
      simp only [lview, mem_fNames, mem_sNames, mem_children, rmF_keys, rmF_fs, rmF_ss]
    · intro k' hk'; exact ⟨r1 k' hk', fun e => hm (e ▸ hk')⟩
    · intro k' hk'; exact r2 k' hk'.1
    · exact r3
    · exact r4
    · intro p hp t ht; exact r5 p hp.1 t ht
    · intro p hp t ht; exact r6 p hp.1 t ht
  · intro _
    refine ⟨?_, ?_, ?_, ?_, ?_, ?_⟩ <;>
      simp only [lview, dropOk, mem_fNames, mem_sNames, mem_children, rmF_keys, rmF_fs, rmF_ss, List.mem_filter,
        decide_eq_true_eq, ne_eq, Bool.decide_and, Bool.and_eq_true, decide_not, Bool.not_eq_true', decide_eq_false_iff_not]
    · intro k' hk'; exact ⟨r1 k' hk'.1, fun e => hk'.2 (e ▸ rfl)⟩
    · intro k' hk'; exact ⟨r2 k' hk'.1, fun e => hk'.2 (by injection e)⟩
    · intro k' hk'; exact r3 k' hk'.1
    · intro k' hk'; exact ⟨r4 k' hk', fun e => by cases e⟩
    · intro p hp t ht; exact r5 p hp.1 t ht.1
    · intro p hp t ht
      exact ⟨r6 p hp.1 t ht, fun e => hp.2 (by injection e), fun e => by cases e⟩

theorem rmS_r (w : Local) (k : Nat) :
    (if (Cfg.fixed.keepS && w.o.cls == Cls.ag) = true then w.r
      else if k ∈ dKeys w.r.ss then { w.r with ss := dErase w.r.ss k } else w.r) =
    (if k ∈ dKeys w.r.ss then { w.r with ss := dErase w.r.ss k } else w.r) := by
  simp [Cfg.fixed]

theorem rmS_ss (w : Local) (k : Nat) (p : Nat × (Nat × Nat)) :
    p ∈ (if k ∈ dKeys w.r.ss then { w.r with ss := dErase w.r.ss k } else w.r).ss ↔ p ∈ w.r.ss ∧ p.1 ≠ k := by
  by_cases hk : k ∈ dKeys w.r.ss
  · rw [if_pos hk]; exact mem_dErase
  · rw [if_neg hk]
    exact ⟨fun hp => ⟨hp, fun e => hk (e ▸ mem_dKeys_of_mem hp)⟩, fun hp => hp.1⟩

theorem rmS_fs (w : Local) (k : Nat) :
    (if k ∈ dKeys w.r.ss then { w.r with ss := dErase w.r.ss k } else w.r).fs = w.r.fs := by
  split <;> rfl

theorem rmS_keys (w : Local) (k k' : Nat) :
    k' ∈ dKeys (if k ∈ dKeys w.r.ss then { w.r with ss := dErase w.r.ss k } else w.r).ss ↔ k' ∈ dKeys w.r.ss ∧ k' ≠ k := by
  simp only [mem_dKeys, rmS_ss]
  constructor
  · rintro ⟨v, hv, hne⟩; exact ⟨⟨v, hv⟩, hne⟩
  · rintro ⟨⟨v, hv⟩, hne⟩; exact ⟨v, hv, hne⟩

theorem rmS_inv {w : Local} (h : LInv w) (k : Nat) : LInv (rmS Cfg.fixed w k).1 := by
  obtain ⟨⟨r1, r2, r3, r4, r5, r6⟩, wf⟩ := h
  simp only [lview, mem_fNames, mem_sNames, mem_children] at r1 r2 r3 r4 r5 r6
  have e : (rmS Cfg.fixed w k) =
      dropNode ⟨w.o, if k ∈ dKeys w.r.ss then { w.r with ss := dErase w.r.ss k } else w.r, w.cd⟩ (.s k) := by
    unfold rmS; simp only [rmS_r]
  rw [e]
  refine dropNode_inv (w := ⟨w.o, _, w.cd⟩) (fun i => by simp) wf ?_ ?_
  · intro hm
    refine ⟨?_, ?_, ?_, ?_, ?_, ?_⟩ <;>
      simp only [lview, mem_fNames, mem_sNames, mem_children, rmS_keys, rmS_ss, rmS_fs]
    · exact r1
    · exact r2
    · intro k' hk'; exact ⟨r3 k' hk', fun e => hm (e ▸ hk')⟩
    · intro k' hk'; exact r4 k' hk'.1
    · exact r5
    · exact r6
  · intro _
    refine ⟨?_, ?_, ?_, ?_, ?_, ?_⟩ <;>
      simp only [lview, dropOk, mem_fNames, mem_sNames, mem_children, rmS_keys, rmS_ss, rmS_fs, List.mem_filter,
        decide_eq_true_eq, ne_eq, Bool.decide_and, Bool.and_eq_true, decide_not, Bool.not_eq_true', decide_eq_false_iff_not]
    · intro k' hk'; exact r1 k' hk'.1
    · intro k' hk'; exact ⟨r2 k' hk', fun e => by cases e⟩
    · intro k' hk'; exact ⟨r3 k' hk'.1, fun e => hk'.2 (e ▸ rfl)⟩
    · intro k' hk'; exact ⟨r4 k' hk'.1, fun e => hk'.2 (by injection e)⟩
    · intro p hp t ht; exact r5 p hp t ht.1
    · intro p hp t ht
      exact ⟨r6 p hp t ht, (fun e => by cases e), (fun e => by cases e)⟩

/-! ### ordinary nodes, the loop body of add_all_snode_combinations -/

theorem ordNodes_inv {w : Local} (h : LInv w) (ns : List Node)
    (hsub : ∀ n, n ∈ ns ↔ n ∈ w.o.nodes ∨ ∃ i, n = .ord i ∧ n ∈ ns) :
    LInv { w with o := { w.o with nodes := ns } } := by
  obtain ⟨⟨r1, r2, r3, r4, r5, r6⟩, wf⟩ := h
  simp only [lview, mem_fNames, mem_sNames, mem_children] at r1 r2 r3 r4 r5 r6
  have up : ∀ n, n ∈ w.o.nodes → n ∈ ns := fun n hn => (hsub n).2 (Or.inl hn)
  have downF : ∀ k, Node.f k ∈ ns → Node.f k ∈ w.o.nodes := fun k hk => by
    rcases (hsub _).1 hk with h | ⟨i, e, _⟩
    · exact h
    · cases e
  have downS : ∀ k, Node.s k ∈ ns → Node.s k ∈ w.o.nodes := fun k hk => by
    rcases (hsub _).1 hk with h | ⟨i, e, _⟩
    · exact h
    · cases e
  refine ⟨⟨?_, ?_, ?_, ?_, ?_, ?_⟩, ?_⟩ <;> simp only [lview, mem_fNames, mem_sNames, mem_children]
  · intro k hk; exact r1 k (downF k hk)
  · intro k hk; exact up _ (r2 k hk)
  · intro k hk; exact r3 k (downS k hk)
  · intro k hk; exact up _ (r4 k hk)
  · exact r5
  · exact r6
  · intro e he; exact up _ (wf e he)

theorem node_inv {w : Local} (h : LInv w) (i : Nat) :
    LInv { w with o := { w.o with nodes := insertNew w.o.nodes (.ord i) } } := by
  apply ordNodes_inv h
  · intro n
    simp only [mem_insertNew]
    constructor
    · rintro (h | rfl)
      · exact Or.inl h
      · exact Or.inr ⟨i, rfl, Or.inr rfl⟩
    · rintro (h | ⟨_, _, h⟩)
      · exact Or.inl h
      · exact h

theorem edge_inv {w : Local} (h : LInv w) (u v : Nat) :
    LInv { w with o := { w.o with nodes := insertNew (insertNew w.o.nodes (.ord u)) (.ord v) } } := by
  apply ordNodes_inv h
  · intro n
    simp only [mem_insertNew]
    constructor
    · rintro ((h | rfl) | rfl)
      · exact Or.inl h
      · exact Or.inr ⟨u, rfl, Or.inl (Or.inr rfl)⟩
      · exact Or.inr ⟨v, rfl, Or.inr rfl⟩
    · rintro (h | ⟨_, _, h⟩)
      · exact Or.inl (Or.inl h)
      · exact h

theorem rawS_inv {w : Local} (h : LInv w) (k : Nat) (d : Nat × Nat) : LInv (rawS w k d).1 := by
  unfold rawS
  by_cases hk : k ∈ dKeys w.r.ss
  · rw [if_pos hk]; exact h
  · rw [if_neg hk]
    obtain ⟨⟨r1, r2, r3, r4, r5, r6⟩, wf⟩ := h
    simp only [lview, mem_fNames, mem_sNames, mem_children] at r1 r2 r3 r4 r5 r6
    refine ⟨⟨?_, ?_, ?_, ?_, ?_, ?_⟩, ?_⟩ <;>
      simp only [lview, mem_fNames, mem_sNames, mem_children, dKeys_dSet, mem_insertNew]
    · rintro k' (hk' | hk')
      · exact r1 k' hk'
      · cases hk'
    · intro k' hk'; exact Or.inl (r2 k' hk')
    · rintro k' (hk' | hk')
      · exact Or.inl (r3 k' hk')
      · injection hk' with hk'; exact Or.inr hk'
    · rintro k' (hk' | rfl)
      · exact Or.inl (r4 k' hk')
      · exact Or.inr rfl
    · exact r5
    · exact r6
    · intro e he; exact mem_insertNew.2 (Or.inl (wf e he))

theorem rawS_keeps (op : LOp) (w : Local) (k : Nat) (d : Nat × Nat) : Keeps op w (rawS w k d).1 := by
  unfold rawS
  by_cases hk : k ∈ dKeys w.r.ss
  · rw [if_pos hk]; exact Keeps.rfl' _ _
  · rw [if_neg hk]
    refine ⟨fun p hp _ => hp, fun p hp _ => ?_⟩
    simp only [dSet_new hk, List.mem_append]
    exact Or.inl hp

/-! ### every local operation -/

/-- **Reg is preserved by every method call** (repaired code), for one object and its own cell -/
theorem stepLocal_inv {w : Local} (h : LInv w) (op : LOp) : LInv (stepLocal Cfg.fixed w op).1 := by
  cases op with
  | addF ts u d => exact addF_inv h ts u d
  | addFs tss => exact (addFs_inv_keeps (.addFs tss) tss h).1
  | addS d chg =>
    rcases addS_cases Cfg.fixed w d chg with e | ⟨e, _⟩
    · simp only [stepLocal, e]; exact h
    · simp only [stepLocal, e]; exact addSok_inv h d chg
  | rmF k => exact rmF_inv h k
  | rmS k => exact rmS_inv h k
  | node i => exact node_inv h i
  | edge u v => exact edge_inv h u v
  | rawS k d => exact rawS_inv h k d

theorem dropNode_r (w : Local) (n : Node) : (dropNode w n).1.r = w.r := by
  unfold dropNode dropOk; split <;> rfl

/-- no method call changes a registry entry other than the one it is about -/
theorem stepLocal_keeps {w : Local} (h : LInv w) (op : LOp) : Keeps op w (stepLocal Cfg.fixed w op).1 := by
  cases op with
  | addF ts u d => exact addF_keeps h _ ts u d
  | addFs tss => exact (addFs_inv_keeps (.addFs tss) tss h).2
  | addS d chg =>
    rcases addS_cases Cfg.fixed w d chg with e | ⟨e, _⟩
    · simp only [stepLocal, e]; exact Keeps.rfl' _ _
    · simp only [stepLocal, e]; exact addSok_keeps h _ d chg
  | rmF k =>
    refine ⟨fun p hp hne => ?_, fun p hp _ => ?_⟩
    · simp only [stepLocal, rmF, dropNode_r]
      exact (rmF_fs w k p).2 ⟨hp, fun e => hne (by rw [e])⟩
    · simp only [stepLocal, rmF, dropNode_r, rmF_ss]; exact hp
  | rmS k =>
    refine ⟨fun p hp _ => ?_, fun p hp hne => ?_⟩
    · simp only [stepLocal, rmS, dropNode_r, rmS_r, rmS_fs]; exact hp
    · simp only [stepLocal, rmS, dropNode_r, rmS_r]
      exact (rmS_ss w k p).2 ⟨hp, fun e => hne (by rw [e])⟩
  | node i => exact Keeps.rfl' _ _
  | edge u v => exact Keeps.rfl' _ _
  | rawS k d => exact rawS_keeps _ w k d

/-- a method call never changes which registry cell the object points to, nor its class -/
theorem stepLocal_ref (c : Cfg) (w : Local) (op : LOp) :
    (stepLocal c w op).1.o.reg = w.o.reg ∧ (stepLocal c w op).1.o.cls = w.o.cls := by
  have hdrop : ∀ (w : Local) n, (dropNode w n).1.o.reg = w.o.reg ∧ (dropNode w n).1.o.cls = w.o.cls := by
    intro w n; unfold dropNode dropOk; split <;> exact ⟨rfl, rfl⟩
  have haddF : ∀ (w : Local) ts u d, (addF c w ts u d).1.o.reg = w.o.reg ∧ (addF c w ts u d).1.o.cls = w.o.cls := by
    intro w ts u d
    rcases addF_cases c w ts u d with e | ⟨e, _⟩ <;> rw [e] <;> exact ⟨rfl, rfl⟩
  cases op with
  | addF ts u d => exact haddF w ts u d
  | addFs tss =>
    simp only [stepLocal]
    induction tss generalizing w with
    | nil => exact ⟨rfl, rfl⟩
    | cons ts rest ih =>
      unfold addFs
      have h1 := haddF w ts true none
      rcases hs : addF c w ts true none with ⟨w', st⟩
      rw [hs] at h1
      cases st with
      | ok => have := ih w'; exact ⟨this.1.trans h1.1, this.2.trans h1.2⟩
      | err => exact h1
  | addS d chg =>
    rcases addS_cases c w d chg with e | ⟨e, _⟩
    · simp [stepLocal, e]
    · simp only [stepLocal, e, addSok]
      by_cases hc : c.classDoms = true <;> simp [hc]
  | rmF k => simp only [stepLocal, rmF]; exact hdrop _ _
  | rmS k => simp only [stepLocal, rmS]; exact hdrop _ _
  | node i => exact ⟨rfl, rfl⟩
  | edge u v => exact ⟨rfl, rfl⟩
  | rawS k d =>
    show (rawS w k d).1.o.reg = _ ∧ (rawS w k d).1.o.cls = _
    unfold rawS; split <;> exact ⟨rfl, rfl⟩

end C20
