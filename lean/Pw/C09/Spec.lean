import Pw.C01.Guard
import Pw.C09.Model
import Pw.C08.Spec
open Closure

/-! # C09 specification: what `pag_to_mag(P)` must return -/
namespace C09
open MG

inductive Mark3 | tail | head | circle deriving DecidableEq, Repr

/-- the mark at `b` of the edge between `a` and `b` (`none`: not adjacent); this is the layer
    combination table of the `PAG` class docstring -/
def markAt (G : MG) (a b : Nat) : Option Mark3 :=
  if (a, b) ∈ G.circ then some .circle
  else if (a, b) ∈ G.dir ∨ (a, b) ∈ G.bi ∨ (b, a) ∈ G.bi then some .head
  else if (b, a) ∈ G.dir ∨ (a, b) ∈ G.un ∨ (b, a) ∈ G.un ∨ (b, a) ∈ G.circ then some .tail
  else none

/-- well-formed PAG instance: at most one edge per pair, in one of the encodings of the class docstring -/
structure PagWF (P : MG) : Prop where
  dirCirc : ∀ a b, (a, b) ∈ P.dir → (a, b) ∉ P.circ
  dirDir : ∀ a b, (a, b) ∈ P.dir → (b, a) ∉ P.dir
  biNone : ∀ a b, ((a, b) ∈ P.bi ∨ (b, a) ∈ P.bi) → (a, b) ∉ P.dir ∧ (a, b) ∉ P.circ
  unNone : ∀ a b, ((a, b) ∈ P.un ∨ (b, a) ∈ P.un) →
    (a, b) ∉ P.dir ∧ (a, b) ∉ P.circ ∧ (a, b) ∉ P.bi ∧ (b, a) ∉ P.bi

/-- the structural clauses: same nodes, same adjacencies, every arrowhead and tail kept, every circle
    replaced by an arrowhead or a tail -/
structure Structural (P M : MG) : Prop where
  nodes : M.nodes = P.nodes
  adj : ∀ a b, (markAt M a b).isSome ↔ (markAt P a b).isSome
  keepHead : ∀ a b, markAt P a b = some .head → markAt M a b = some .head
  keepTail : ∀ a b, markAt P a b = some .tail → markAt M a b = some .tail
  noCircle : ∀ a b, markAt M a b ≠ some .circle

/-- unshielded collider `a *-> c <-* b` read off the marks -/
def UC (G : MG) (a c b : Nat) : Prop :=
  markAt G a c = some .head ∧ markAt G b c = some .head ∧ a ≠ b ∧ markAt G a b = none

/-- no directed cycle, no bidirected edge between a node and its ancestor -/
def Ancestral (M : MG) : Prop :=
  Acyclic M ∧ ∀ a b, ((a, b) ∈ M.bi ∨ (b, a) ∈ M.bi) → ¬ Anc M a b

/-- same independence model -/
def MarkovEquiv (M1 M2 : MG) : Prop :=
  ∀ x y Z, x ∈ M1.nodes → y ∈ M1.nodes → x ≠ y → (∀ z ∈ Z, z ∈ M1.nodes ∧ z ≠ x ∧ z ≠ y) →
    (MSep M1 [x] [y] Z ↔ MSep M2 [x] [y] Z)

/-- every non-adjacent pair is separated by some set -/
def Maximal (M : MG) : Prop :=
  ∀ x y, x ∈ M.nodes → y ∈ M.nodes → x ≠ y → markAt M x y = none →
    ∃ Z, (∀ z ∈ Z, z ∈ M.nodes ∧ z ≠ x ∧ z ≠ y) ∧ MSep M [x] [y] Z

/-- first sentence of C09 -/
structure FirstClause (P M : MG) : Prop where
  structural : Structural P M
  ancestral : Ancestral M
  noNewUC : ∀ a c b, UC M a c b → UC P a c b

/-- second sentence of C09 (`P` is the PAG of the MAG `M0`) -/
structure SecondClause (M0 M : MG) : Prop where
  ancestral : Ancestral M
  maximal : Maximal M
  equiv : MarkovEquiv M0 M

/-! ## The clauses decided at run time by the validator (`c09valid`) -/

/-- same node *set*.  The driver protocol transmits the node list of the implementation's result in
    canonical (sorted) order, so only the set of nodes is observable at run time. -/
def SameNodes (A B : List Nat) : Prop := ∀ v, v ∈ A ↔ v ∈ B

/-- `Structural` with "same nodes" read as equality of node *sets* (the other clauses do not mention
    the node list): this is what the run-time validator decides.  `Structural P M` implies it, and it
    is `Structural P M` as soon as the two node lists are equal (`structuralS_iff_of_nodes_eq`). -/
structure StructuralS (P M : MG) : Prop where
  nodes : SameNodes M.nodes P.nodes
  adj : ∀ a b, (markAt M a b).isSome ↔ (markAt P a b).isSome
  keepHead : ∀ a b, markAt P a b = some .head → markAt M a b = some .head
  keepTail : ∀ a b, markAt P a b = some .tail → markAt M a b = some .tail
  noCircle : ∀ a b, markAt M a b ≠ some .circle

theorem Structural.toS {P M : MG} (h : Structural P M) : StructuralS P M :=
  ⟨fun _ => by rw [h.nodes], h.adj, h.keepHead, h.keepTail, h.noCircle⟩

theorem structuralS_iff_of_nodes_eq {P M : MG} (hn : M.nodes = P.nodes) :
    StructuralS P M ↔ Structural P M :=
  ⟨fun h => ⟨hn, h.adj, h.keepHead, h.keepTail, h.noCircle⟩, Structural.toS⟩

/-- every unshielded collider of `M` is already marked in `P` -/
def NoNewUC (P M : MG) : Prop := ∀ a c b, UC M a c b → UC P a c b

/-- `M` is a MAG without undirected edges -/
structure IsMAG (M : MG) : Prop where
  noUn : M.un = []
  noCirc : M.circ = []
  ancestral : Ancestral M
  maximal : Maximal M

/-- **the class clauses of C09**, as one proposition: `P` the PAG handed to `pag_to_mag`, `M0` the MAG
    whose PAG `P` is, `M` the returned graph.  (`ancestral` contains "no directed cycle".) -/
structure ClassClauses (P M0 M : MG) : Prop where
  structural : StructuralS P M
  ancestral : Ancestral M
  noNewUC : NoNewUC P M
  noUn : M.un = []
  maximal : Maximal M
  nodes0 : SameNodes M0.nodes M.nodes
  equiv : MarkovEquiv M0 M

/-- the clauses checked when no source MAG is given (`c09valid` without `sN=`): first sentence of C09 -/
structure FirstClauses (P M : MG) : Prop where
  structural : StructuralS P M
  ancestral : Ancestral M
  noNewUC : NoNewUC P M

/-- the class clauses are the two sentences of the property (with the result a directed/bidirected
    graph on the nodes of the source MAG) -/
theorem classClauses_iff {P M0 M : MG} (hn : M.nodes = P.nodes) :
    ClassClauses P M0 M ↔
      (FirstClause P M ∧ SecondClause M0 M ∧ M.un = [] ∧ SameNodes M0.nodes M.nodes) := by
  constructor
  · intro h
    exact ⟨⟨(structuralS_iff_of_nodes_eq hn).mp h.structural, h.ancestral, h.noNewUC⟩,
      ⟨h.ancestral, h.maximal, h.equiv⟩, h.noUn, h.nodes0⟩
  · rintro ⟨h1, h2, h3, h4⟩
    exact ⟨h1.structural.toS, h1.ancestral, h1.noNewUC, h3, h2.maximal, h4, h2.equiv⟩

/-- the class enumerated by the PAG oracle (`equivClass M0`, up to the representation of the edge
    lists): the well-formed MAGs without undirected edges on the nodes of `M0` that are Markov
    equivalent to `M0` -/
structure Member (M0 M' : MG) : Prop where
  nodes : M'.nodes = M0.nodes
  wf : M'.WF
  mag : IsMAG M'
  equiv : MarkovEquiv M0 M'

/-- `P` is the PAG of the MAG `M0`, from the definition: same nodes and adjacencies, and an endpoint
    mark is an arrowhead (tail) iff every member of the Markov equivalence class of `M0` has an
    arrowhead (tail) there -/
structure IsPagOf (M0 P : MG) : Prop where
  nodes : P.nodes = M0.nodes
  adj : ∀ a b, (markAt P a b).isSome ↔ (markAt M0 a b).isSome
  head : ∀ a b, (markAt M0 a b).isSome →
    (markAt P a b = some .head ↔ ∀ M', Member M0 M' → markAt M' a b = some .head)
  tail : ∀ a b, (markAt M0 a b).isSome →
    (markAt P a b = some .tail ↔ ∀ M', Member M0 M' → markAt M' a b = some .tail)

/-! ## what the validator requires of its *inputs* (the PAG and the source MAG sent by the harness) -/

/-- every endpoint of an edge, in any of the four layers, is a node -/
def WF4 (G : MG) : Prop := ∀ e ∈ G.dir ++ G.bi ++ G.un ++ G.circ, e.1 ∈ G.nodes ∧ e.2 ∈ G.nodes

/-- the source graph is a graph with directed and bidirected edges between distinct nodes -/
structure SourceOK (M0 : MG) : Prop where
  wf : WF4 M0
  noUn : M0.un = []
  noCirc : M0.circ = []
  noLoop : ∀ e ∈ M0.dir ++ M0.bi, e.1 ≠ e.2

end C09
