import Pw.C06.Bridge
open Closure

/-! # C06: `inducing_path` model = specification (all inputs of the quantifier, no size bound) -/
namespace C06
open MG

variable {G : MG} {L S : List Nat} {x y : Nat}

theorem validW_nodes (hwf : G.WF) : ∀ (hs : List Hop) (a : Nat), ValidW G a hs →
    ∀ v ∈ hs.map (·.nx), v ∈ G.nodes
  | [], _, _, v, hv => by simp at hv
  | h :: t, a, hval, v, hv => by
    obtain ⟨he, hval'⟩ := hval
    simp only [List.map_cons, List.mem_cons] at hv
    rcases hv with rfl | hv
    · exact HasEdge.mem_nodes hwf he
    · exact validW_nodes hwf t h.nx hval' v hv

/-- **soundness of the search**: the returned node list is an inducing path (for the canonical choice
    of one edge per hop) -/
theorem search_sound_spec (dom : Dom G L S x y) {p : List Nat} (h : search G x y L S = some p) :
    NodePathInducing G L S x y p := by
  obtain ⟨v, rest, rfl, hadj, hok, hnd⟩ := search_sound h
  obtain ⟨hv, he, hi⟩ := spec_of_nodeOK dom.wf dom.un dom.no2 rest x v hadj hok
  refine ⟨⟨(canon G x v).1, (canon G x v).2, v⟩ :: canonHops G v rest, ⟨?_, ?_, ?_, ?_⟩, ?_⟩
  · exact ⟨canon_hasEdge dom.un hadj, hv⟩
  · simpa [endNode] using he
  · simpa [nodesOf, canonHops_nodes] using hnd
  · exact hi
  · simp [nodesOf, canonHops_nodes]

/-- **completeness of the search** (after the backtracking fix): if an inducing path exists, the
    search returns one -/
theorem search_complete_spec (dom : Dom G L S x y) (h : HasInducingPath G L S x y) :
    (search G x y L S).isSome = true := by
  obtain ⟨hs, hval, hend, hnd, hi⟩ := h
  cases hs with
  | nil => exact absurd hend dom.hxy
  | cons h t =>
    obtain ⟨he, hval'⟩ := hval
    have hnd' : x ∉ nodesOf h.nx t ∧ (nodesOf h.nx t).Nodup := by simpa [nodesOf] using hnd
    have hok := nodeOK_of_spec (x := x) dom.wf dom.un t h.mn x h.nx hval' hi
      (by simpa [endNode] using hend) hnd'.2 hnd'.1
      (fun hm => by rw [hm] at he; exact into_of_hasEdge_head he)
      (fun hm => by
        rw [hm] at he
        exact ancOf_step (dir_of_tail' dom.un he).1 ancOf_x)
    apply search_complete (mem_nbrs_of_hasEdge he) hok
    · simpa [nodesOf] using hnd
    · intro a ha
      simp only [List.mem_cons] at ha
      rcases ha with rfl | rfl | ha
      · exact dom.hx
      · exact HasEdge.mem_nodes dom.wf he
      · exact validW_nodes dom.wf t h.nx hval' a ha

/-- inside the quantifier the guards of `inducing_path` do not fire -/
theorem inducingPath_eq_search (dom : Dom G L S x y) :
    inducingPath G x y L S = .ok (search G x y L S) := by
  unfold inducingPath
  have h1 : ¬ (x ∉ G.nodes ∨ y ∉ G.nodes) := by
    rintro (h | h)
    · exact h dom.hx
    · exact h dom.hy
  have h3 : ¬ (x ∈ L ∨ y ∈ L ∨ x ∈ S ∨ y ∈ S) := by
    rintro (h | h | h | h)
    · exact dom.hxL h
    · exact dom.hyL h
    · exact dom.hxS h
    · exact dom.hyS h
  have h4 : ¬ (G.un ≠ [] ∨ G.circ ≠ []) := by
    rintro (h | h)
    · exact h dom.un
    · exact h dom.circ
  rw [if_neg h1, if_neg dom.hxy, if_neg h3, if_neg h4]

/-- **C06, inducing_path, clause "any path it returns is such a path".** -/
theorem inducingPath_sound (dom : Dom G L S x y) {p : List Nat}
    (h : inducingPath G x y L S = .ok (some p)) : NodePathInducing G L S x y p := by
  rw [inducingPath_eq_search dom] at h
  injection h with h
  exact search_sound_spec dom h

/-- **C06, inducing_path, clause "reports True iff a path exists …".** -/
theorem inducingPath_true_iff (dom : Dom G L S x y) :
    (∃ p, inducingPath G x y L S = .ok (some p)) ↔ HasInducingPath G L S x y := by
  rw [inducingPath_eq_search dom]
  constructor
  · rintro ⟨p, hp⟩
    injection hp with hp
    obtain ⟨hs, h, _⟩ := search_sound_spec dom hp
    exact ⟨hs, h⟩
  · intro h
    have := search_complete_spec dom h
    obtain ⟨p, hp⟩ := Option.isSome_iff_exists.mp this
    exact ⟨p, by rw [hp]⟩

theorem hasInd_iff (dom : Dom G L S x y) : hasInd G L S x y = true ↔ HasInducingPath G L S x y := by
  rw [← inducingPath_true_iff dom]
  unfold hasInd
  constructor
  · intro h
    split at h
    · rename_i p hp; exact ⟨p, hp⟩
    · cases h
  · rintro ⟨p, hp⟩
    rw [hp]

/-- the early exit: an endpoint in `L ∪ S` gives `(False, [])` (model fact; outside the quantifier) -/
theorem inducingPath_guard (hx : x ∈ G.nodes) (hy : y ∈ G.nodes) (hxy : x ≠ y)
    (h : x ∈ L ∨ y ∈ L ∨ x ∈ S ∨ y ∈ S) : inducingPath G x y L S = .ok none := by
  unfold inducingPath
  have h1 : ¬ (x ∉ G.nodes ∨ y ∉ G.nodes) := by
    rintro (h | h)
    · exact h hx
    · exact h hy
  rw [if_neg h1, if_neg hxy, if_pos h]

/-! ## non-vacuity: a concrete input inside the domain with a proper inducing path through a
latent non-collider and a collider that is an ancestor of S -/
def exG : MG := { nodes := [0, 1, 2, 3, 4], dir := [(1, 0), (1, 2), (3, 2), (2, 4)] }

theorem exG_dom : Dom exG [1] [4] 0 3 where
  wf := by
    refine ⟨?_, ?_, ?_⟩ <;> intro e he <;> simp [exG] at he ⊢
    rcases he with rfl | rfl | rfl | rfl <;> simp
  un := rfl
  circ := rfl
  no2 := by
    intro a b h; simp [exG] at h ⊢
    rcases h with ⟨rfl, rfl⟩ | ⟨rfl, rfl⟩ | ⟨rfl, rfl⟩ | ⟨rfl, rfl⟩ <;> simp
  hx := by simp [exG]
  hy := by simp [exG]
  hxy := by decide
  hxL := by decide
  hyL := by decide
  hxS := by decide
  hyS := by decide

/-- `0 <- 1 -> 2 <- 3`: 1 is a non-collider in L, 2 a collider with the descendant 4 ∈ S -/
theorem exG_path : InducingPath exG [1] [4] 0 3 [⟨.head, .tail, 1⟩, ⟨.tail, .head, 2⟩, ⟨.head, .tail, 3⟩] := by
  refine ⟨?_, rfl, by decide, ?_⟩
  · simp [ValidW, HasEdge, exG]
  · simp [InnerOK, condI, IsCollider]
    exact ⟨4, by simp, Anc.step (by simp [exG] : (2, 4) ∈ exG.dir) (Anc.refl 4)⟩

/-- non-vacuity of `inducingPath_true_iff` / `inducingPath_sound`: the model does return a path here -/
example : ∃ p, inducingPath exG 0 3 [1] [4] = .ok (some p) :=
  (inducingPath_true_iff exG_dom).mpr ⟨_, exG_path⟩

end C06
