import Pw.C12.Spec
open Closure MG

/-! # C12, part 1: what the model's edge list contains

`UAdj (moralEdges G) u v ↔ u ≠ v ∧ (Adj G u v ∨ ∃ r, u and v lie in the district of r or are parents of
it)` – pure list/closure reasoning about the model. -/
namespace C12

/-! ## reachability helpers -/

theorem reach_trans {α : Type} {U : List α} {step : α → List α} {a b c : α}
    (h1 : Reach U step a b) (h2 : Reach U step b c) : Reach U step a c := by
  induction h2 with
  | refl => exact h1
  | tail _ s ih => exact Reach.tail ih s

theorem reach_mem {α : Type} {U : List α} {step : α → List α} {a b : α}
    (ha : a ∈ U) (h : Reach U step a b) : b ∈ U := by
  cases h with
  | refl => exact ha
  | tail _ s => exact s.2

/-- bidirected adjacency -/
def Bi (G : MG) (a b : Nat) : Prop := (a, b) ∈ G.bi ∨ (b, a) ∈ G.bi

theorem Bi.symm {G : MG} {a b : Nat} (h : Bi G a b) : Bi G b a := Or.symm h

theorem mem_spouses {G : MG} {a b : Nat} : b ∈ G.spouses a ↔ Bi G a b := mem_sym

/-- reachability inside the bidirected layer -/
abbrev BReach (G : MG) : Nat → Nat → Prop := Reach G.nodes G.spouses

theorem breach_symm {G : MG} {a b : Nat} (ha : a ∈ G.nodes) (h : BReach G a b) : BReach G b a := by
  induction h with
  | refl => exact Reach.refl _
  | @tail b c hr s ih =>
    have hb : b ∈ G.nodes := reach_mem ha hr
    exact Reach.head ⟨mem_spouses.mpr (mem_spouses.mp s.1).symm, hb⟩ ih

theorem breach_step {G : MG} (hwf : G.WF) {a b : Nat} (h : Bi G a b) : BReach G a b := by
  refine Reach.tail (Reach.refl a) ⟨mem_spouses.mpr h, ?_⟩
  rcases h with h | h
  · exact (hwf.2.1 _ h).2
  · exact (hwf.2.1 _ h).1

/-- `u` lies in the district of `r` or is a parent of a node of that district -/
def InDP (G : MG) (r u : Nat) : Prop := BReach G r u ∨ ∃ c, BReach G r c ∧ (u, c) ∈ G.dir

theorem InDP.of_reach {G : MG} {r r' u : Nat} (h : BReach G r' r) (hu : InDP G r u) : InDP G r' u := by
  rcases hu with hu | ⟨c, hc, hd⟩
  · exact Or.inl (reach_trans h hu)
  · exact Or.inr ⟨c, reach_trans h hc, hd⟩

/-! ## membership lemmas for the model's lists -/

theorem mem_bicomp {G : MG} {r u : Nat} : u ∈ bicomp G r ↔ r ∈ G.nodes ∧ BReach G r u := by
  unfold bicomp
  rw [mem_closure]
  constructor
  · rintro ⟨w, hw, hU, hr⟩
    simp only [List.mem_singleton] at hw
    subst hw
    exact ⟨hU, hr⟩
  · rintro ⟨hU, hr⟩
    exact ⟨r, by simp, hU, hr⟩

theorem mem_allParents {G : MG} {c : List Nat} {p : Nat} :
    p ∈ allParents G c ↔ ∃ n ∈ c, (p, n) ∈ G.dir := by
  simp only [allParents, List.mem_flatMap, mem_parents]

theorem mem_pairsOf {S : List Nat} {u v : Nat} : (u, v) ∈ pairsOf S ↔ u ∈ S ∧ v ∈ S ∧ v ≠ u := by
  simp only [pairsOf, List.mem_flatMap, List.mem_map, List.mem_filter, decide_eq_true_eq, Prod.mk.injEq]
  constructor
  · rintro ⟨a, ha, b, ⟨hb, hne⟩, rfl, rfl⟩; exact ⟨ha, hb, hne⟩
  · rintro ⟨hu, hv, hne⟩; exact ⟨u, hu, v, ⟨hv, hne⟩, rfl, rfl⟩

theorem mem_nodeParent {c ps : List Nat} {u v : Nat} :
    (u, v) ∈ nodeParent c ps ↔ u ∈ c ∧ v ∈ ps ∧ v ≠ u := by
  simp only [nodeParent, List.mem_flatMap, List.mem_map, List.mem_filter, decide_eq_true_eq, Prod.mk.injEq]
  constructor
  · rintro ⟨a, ha, b, ⟨hb, hne⟩, rfl, rfl⟩; exact ⟨ha, hb, hne⟩
  · rintro ⟨hu, hv, hne⟩; exact ⟨u, hu, v, ⟨hv, hne⟩, rfl, rfl⟩

theorem mem_compEdges {G : MG} {c : List Nat} {u v : Nat} :
    (u, v) ∈ compEdges G c ↔
      v ≠ u ∧ ((u ∈ c ∧ v ∈ c) ∨ (u ∈ c ∧ v ∈ allParents G c) ∨
        (u ∈ allParents G c ∧ v ∈ allParents G c)) := by
  simp only [compEdges, List.mem_append, mem_pairsOf, mem_nodeParent]
  constructor
  · rintro ((⟨h1, h2, h3⟩ | ⟨h1, h2, h3⟩) | ⟨h1, h2, h3⟩)
    · exact ⟨h3, Or.inl ⟨h1, h2⟩⟩
    · exact ⟨h3, Or.inr (Or.inl ⟨h1, h2⟩)⟩
    · exact ⟨h3, Or.inr (Or.inr ⟨h1, h2⟩)⟩
  · rintro ⟨h3, ⟨h1, h2⟩ | ⟨h1, h2⟩ | ⟨h1, h2⟩⟩
    · exact Or.inl (Or.inl ⟨h1, h2, h3⟩)
    · exact Or.inl (Or.inr ⟨h1, h2, h3⟩)
    · exact Or.inr ⟨h1, h2, h3⟩

/-! ## `nx.connected_components` -/

theorem compsFrom_sub (G : MG) : ∀ (l seen : List Nat) (c : List Nat),
    c ∈ compsFrom G l seen → ∃ v ∈ l, c = bicomp G v
  | [], _, c, h => by simp [compsFrom] at h
  | v :: rest, seen, c, h => by
    unfold compsFrom at h
    split at h
    · obtain ⟨w, hw, hc⟩ := compsFrom_sub G rest seen c h
      exact ⟨w, List.mem_cons_of_mem _ hw, hc⟩
    · rcases List.mem_cons.mp h with rfl | h
      · exact ⟨v, List.mem_cons_self, rfl⟩
      · obtain ⟨w, hw, hc⟩ := compsFrom_sub G rest _ c h
        exact ⟨w, List.mem_cons_of_mem _ hw, hc⟩

theorem compsFrom_cover (G : MG) : ∀ (l seen : List Nat) (v : Nat), v ∈ l → v ∈ G.nodes →
    v ∈ seen ∨ ∃ c ∈ compsFrom G l seen, v ∈ c
  | [], _, v, h, _ => by cases h
  | w :: rest, seen, v, h, hv => by
    unfold compsFrom
    rcases List.mem_cons.mp h with rfl | h
    · split
      · rename_i hs; exact Or.inl hs
      · exact Or.inr ⟨bicomp G v, List.mem_cons_self, mem_bicomp.mpr ⟨hv, Reach.refl v⟩⟩
    · split
      · exact compsFrom_cover G rest seen v h hv
      · rcases compsFrom_cover G rest (bicomp G w ++ seen) v h hv with h1 | ⟨c, hc, hvc⟩
        · rcases List.mem_append.mp h1 with h1 | h1
          · exact Or.inr ⟨bicomp G w, List.mem_cons_self, h1⟩
          · exact Or.inl h1
        · exact Or.inr ⟨c, List.mem_cons_of_mem _ hc, hvc⟩

/-- every node lies in one of the listed components, and every listed component is the bidirected
    component of a node -/
theorem comps_spec (G : MG) :
    (∀ c ∈ comps G, ∃ r ∈ G.nodes, c = bicomp G r) ∧
    (∀ v ∈ G.nodes, ∃ c ∈ comps G, v ∈ c) := by
  refine ⟨fun c hc => compsFrom_sub G _ _ c hc, fun v hv => ?_⟩
  rcases compsFrom_cover G G.nodes [] v hv hv with h | h
  · cases h
  · exact h

/-! ## the edge list -/

theorem inDP_of_mem {G : MG} {r u : Nat} (hr : r ∈ G.nodes)
    (h : u ∈ bicomp G r ∨ u ∈ allParents G (bicomp G r)) : InDP G r u := by
  rcases h with h | h
  · exact Or.inl (mem_bicomp.mp h).2
  · obtain ⟨n, hn, hd⟩ := mem_allParents.mp h
    exact Or.inr ⟨n, (mem_bicomp.mp hn).2, hd⟩

theorem mem_of_inDP {G : MG} {r u : Nat} (hr : r ∈ G.nodes) (h : InDP G r u) :
    u ∈ bicomp G r ∨ u ∈ allParents G (bicomp G r) := by
  rcases h with h | ⟨c, hc, hd⟩
  · exact Or.inl (mem_bicomp.mpr ⟨hr, h⟩)
  · exact Or.inr (mem_allParents.mpr ⟨c, mem_bicomp.mpr ⟨hr, hc⟩, hd⟩)

/-- the edges added by the component loop -/
theorem compLoop_adj {G : MG} {u v : Nat} :
    UAdj ((comps G).flatMap (compEdges G)) u v ↔
      u ≠ v ∧ ∃ r ∈ G.nodes, InDP G r u ∧ InDP G r v := by
  obtain ⟨hsub, hcov⟩ := comps_spec G
  constructor
  · intro h
    have key : ∀ a b, (a, b) ∈ (comps G).flatMap (compEdges G) →
        b ≠ a ∧ ∃ r ∈ G.nodes, InDP G r a ∧ InDP G r b := by
      intro a b hab
      obtain ⟨c, hc, he⟩ := List.mem_flatMap.mp hab
      obtain ⟨r, hr, rfl⟩ := hsub c hc
      obtain ⟨hne, hcase⟩ := mem_compEdges.mp he
      refine ⟨hne, r, hr, ?_⟩
      rcases hcase with ⟨h1, h2⟩ | ⟨h1, h2⟩ | ⟨h1, h2⟩
      · exact ⟨inDP_of_mem hr (Or.inl h1), inDP_of_mem hr (Or.inl h2)⟩
      · exact ⟨inDP_of_mem hr (Or.inl h1), inDP_of_mem hr (Or.inr h2)⟩
      · exact ⟨inDP_of_mem hr (Or.inr h1), inDP_of_mem hr (Or.inr h2)⟩
    rcases h with h | h
    · obtain ⟨hne, r, hr, h1, h2⟩ := key u v h
      exact ⟨fun e => hne e.symm, r, hr, h1, h2⟩
    · obtain ⟨hne, r, hr, h1, h2⟩ := key v u h
      exact ⟨hne, r, hr, h2, h1⟩
  · rintro ⟨hne, r, hr, hu, hv⟩
    obtain ⟨c, hc, hrc⟩ := hcov r hr
    obtain ⟨r', hr', rfl⟩ := hsub c hc
    have hreach : BReach G r' r := (mem_bicomp.mp hrc).2
    have hu' := mem_of_inDP hr' (hu.of_reach hreach)
    have hv' := mem_of_inDP hr' (hv.of_reach hreach)
    have mk : ∀ a b, (a, b) ∈ compEdges G (bicomp G r') → (a, b) ∈ (comps G).flatMap (compEdges G) :=
      fun a b hab => List.mem_flatMap.mpr ⟨_, hc, hab⟩
    rcases hu' with hu' | hu' <;> rcases hv' with hv' | hv'
    · exact Or.inl (mk u v (mem_compEdges.mpr ⟨fun e => hne e.symm, Or.inl ⟨hu', hv'⟩⟩))
    · exact Or.inl (mk u v (mem_compEdges.mpr ⟨fun e => hne e.symm, Or.inr (Or.inl ⟨hu', hv'⟩)⟩))
    · exact Or.inr (mk v u (mem_compEdges.mpr ⟨hne, Or.inr (Or.inl ⟨hv', hu'⟩)⟩))
    · exact Or.inl (mk u v (mem_compEdges.mpr ⟨fun e => hne e.symm, Or.inr (Or.inr ⟨hu', hv'⟩)⟩))

theorem adj_iff_base {G : MG} {u v : Nat} : Adj G u v ↔ UAdj (baseEdges G) u v := by
  unfold Adj UAdj baseEdges HasEdge
  simp only [List.mem_append]
  constructor
  · rintro ⟨mu, mv, h⟩
    rcases h with ⟨_, _, h⟩ | ⟨_, _, h⟩ | ⟨_, _, h | h⟩ | ⟨_, _, h | h⟩
    · exact Or.inl (Or.inl (Or.inr h))
    · exact Or.inr (Or.inl (Or.inr h))
    · exact Or.inl (Or.inr h)
    · exact Or.inr (Or.inr h)
    · exact Or.inl (Or.inl (Or.inl h))
    · exact Or.inr (Or.inl (Or.inl h))
  · rintro (((h | h) | h) | ((h | h) | h))
    · exact ⟨.tail, .tail, Or.inr (Or.inr (Or.inr ⟨rfl, rfl, Or.inl h⟩))⟩
    · exact ⟨.tail, .head, Or.inl ⟨rfl, rfl, h⟩⟩
    · exact ⟨.head, .head, Or.inr (Or.inr (Or.inl ⟨rfl, rfl, Or.inl h⟩))⟩
    · exact ⟨.tail, .tail, Or.inr (Or.inr (Or.inr ⟨rfl, rfl, Or.inr h⟩))⟩
    · exact ⟨.head, .tail, Or.inr (Or.inl ⟨rfl, rfl, h⟩)⟩
    · exact ⟨.head, .head, Or.inr (Or.inr (Or.inl ⟨rfl, rfl, Or.inr h⟩))⟩

/-- **the model's edge list, characterised by districts** -/
theorem moral_adj_district {G : MG} {u v : Nat} :
    UAdj (moralEdges G) u v ↔
      (Adj G u v ∨ (u ≠ v ∧ ∃ r ∈ G.nodes, InDP G r u ∧ InDP G r v)) := by
  rw [adj_iff_base, ← compLoop_adj]
  unfold moralEdges UAdj
  simp only [List.mem_append]
  constructor
  · rintro ((h | h) | (h | h))
    · exact Or.inl (Or.inl h)
    · exact Or.inr (Or.inl h)
    · exact Or.inl (Or.inr h)
    · exact Or.inr (Or.inr h)
  · rintro ((h | h) | (h | h))
    · exact Or.inl (Or.inl h)
    · exact Or.inr (Or.inl h)
    · exact Or.inl (Or.inr h)
    · exact Or.inr (Or.inr h)

end C12
