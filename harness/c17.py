"""C17: pds / pds_path / pds_t / pds_t_path.

Deciding oracle: the Lean brute-force enumeration of simple paths (`C17.pdsDec`, proved to be the
property's PATH definition).  Two Lean models: `C17.pds` mirrors the code literally (it queues
`(prev_node, next_node)`: known finding KF_SMALL, result too small), `C17.pdsW` is the intended
edge-state search (proved = the WALK characterisation, proved to contain the path definition; known
finding KF_WALK: it can be a strict superset).  A disagreement implementation != oracle is a violation
unless it has exactly the signature of one of the two recorded findings."""
import copy

from . import common as C
from . import c16 as U

PID = "C17"
KF_SMALL = "C17-pds-queues-prev-next"
KF_WALK = "C17-walk-search-superset-of-path-definition"


def registered_findings():
    """ids of the `known` findings recorded for C17 (known_findings.d/C17.json and/or the merged
    known_findings.json); a signature that is not registered is treated as a violation"""
    import json
    import os
    ids = set()
    for p in (os.path.join(C.VERIF, "known_findings.d", PID + ".json"), os.path.join(C.VERIF, "known_findings.json")):
        if os.path.exists(p):
            ids |= set(f["id"] for f in json.load(open(p)).get("findings", [])
                       if f.get("property") == PID and f.get("status") == "known")
    return ids


# ----------------------------------------------------------------------------- implementation side
def build(g, lab, ts=None, max_lag=None):
    """PAG (ts None) or StationaryTimeSeriesPAG(stationary=False) with nodes (var, -lag)"""
    if ts is None:
        return U.build(g, "PAG", lab)
    from pywhy_graphs import StationaryTimeSeriesPAG
    G = StationaryTimeSeriesPAG(max_lag=max_lag, stationary=False)
    for v in C.g_nodes(g):
        G.add_node(lab(v))
    for k, nm in (("D", "directed"), ("B", "bidirected"), ("U", "undirected"), ("C", "circle")):
        for a, b in g.get(k, []):
            G.add_edge(lab(a), lab(b), edge_type=nm)
    return G


class TsLabels:
    """index <-> (variable, -lag) for time-series cases"""

    def __init__(self, ts):
        self.ts = [(str(v), int(l)) for v, l in ts]
        self._inv = {t: i for i, t in enumerate(self.ts)}

    def __call__(self, i):
        v, l = self.ts[i]
        return ("".join(list(v)), int(l))      # fresh equal object

    def inv(self, lab):
        return self._inv[(lab[0], int(lab[1]))]


def labels_of(case):
    if case.get("ts"):
        return TsLabels(case["ts"])
    return C.Labels(case.get("fam", "int"))


def _set(lab, s):
    return C.fmt_set(lab.inv(v) for v in s)


def impl_query(G, lab, q, ts):
    from pywhy_graphs.algorithms import pds, pds_path, pds_t, pds_t_path
    x, y = q
    try:
        if y is None:
            return _set(lab, pds(G, lab(x)))
        r = [_set(lab, pds(G, lab(x), lab(y))), _set(lab, pds_path(G, lab(x), lab(y)))]
        if ts:
            r += [_set(lab, pds_t(G, lab(x), lab(y))), _set(lab, pds_t_path(G, lab(x), lab(y)))]
        return "#".join(r)
    except Exception as e:
        return "err:" + type(e).__name__


def impl(case):
    lab = labels_of(case)
    try:
        G = build(case["g"], lab, case.get("ts"), case.get("max_lag"))
    except Exception as e:
        return {"build": "err:" + type(e).__name__ + ":" + str(e)[:80]}
    if C.warm_decide(case, 4) and not case.get("ts"):
        # query, edit the same object in place, query again (see common.warmup)
        C.warmup(G, lambda: [impl_query(G, lab, q, case.get("ts")) for q in case["Q"][:3]],
                 layers=("circle", "directed", "bidirected", "undirected"), marks=True)
    before = C.snapshot(G)
    out = {"ans": [impl_query(G, lab, q, case.get("ts")) for q in case["Q"]]}
    out["mutated"] = before != C.snapshot(G)
    return out


# ----------------------------------------------------------------------------- Lean side
def lean_line(case, mode):
    g = case["g"]
    L = " L=" + ",".join(str(abs(l)) for _, l in case["ts"]) if case.get("ts") else ""
    Q = ";".join("%d:%s" % (x, "n" if y is None else y) for x, y in case["Q"])
    return "pdsmulti %s%s mode=%s Q=%s" % (C.g_line(g), L, mode, Q)


def lean_eval(cases, mode):
    ans = C.lean_batch([lean_line(c, mode) for c in cases], jobs=min(16, max(1, len(cases) // 8)))
    res = []
    for c, a in zip(cases, ans):
        parts = a.split("/") if c["Q"] else []
        if not c.get("ts"):   # plain PAG: only pds and pds_path are compared
            parts = [p if "#" not in p else "#".join(p.split("#")[:2]) for p in parts]
        res.append(parts)
    return res


# ----------------------------------------------------------------------------- generators
def all_queries(n):
    return [[x, None] for x in range(n)] + [[x, y] for x in range(n) for y in range(n) if x != y]


def rand_pag(rng, n):
    dens = rng.choice((0.35, 0.5, 0.7, 0.9) if n <= 5 else (0.3, 0.45, 0.6))
    w = rng.choice(([1, 1, 1, 1, 1, 1, 1], [2, 2, 3, 0, 1, 2, 2], [1, 1, 3, 0, 0, 3, 3], [0, 0, 1, 0, 2, 1, 1]))
    return C.rand_graph(rng, n, C.PAG_STATES[1:], weights=w, density=dens)


def collider_chain(rng, n):
    """x *-> c1 <-> c2 <-> ... : long collider chains with side branches (the shape the suite lacks)"""
    perm = list(range(n))
    rng.shuffle(perm)
    g = C.g_new(n)
    k = rng.randint(3, n)
    chain = perm[:k]
    for i in range(k - 1):
        a, b = chain[i], chain[i + 1]
        left = rng.choice(("B", "D", "Do"))     # mark at b must be an arrowhead, mark at a head if inner
        if i == 0:
            kind = rng.choice(("D>", "Do>", "B"))
        elif i == k - 2:
            kind = rng.choice(("B", "D<", "D<o"))
        else:
            kind = "B"
        if kind == "D>":
            g["D"].append([a, b])
        elif kind == "Do>":
            g["D"].append([a, b]); g["C"].append([b, a])
        elif kind == "D<":
            g["D"].append([b, a])
        elif kind == "D<o":
            g["D"].append([b, a]); g["C"].append([a, b])
        else:
            g["B"].append([a, b])
    used = set((min(a, b), max(a, b)) for a, b in zip(chain, chain[1:]))
    for a, b in C.all_pairs(n):
        if (a, b) in used or rng.random() > 0.3:
            continue
        C.add_pair_state(g, a, b, rng.choice(C.PAG_STATES[1:]))
    return g


def ts_case(rng):
    """stationary time-series PAG: seed edges replicated over every shift that fits the window
    (built with stationary=False because the class cannot replicate backward circle edges itself)"""
    nv, max_lag = rng.choice(((2, 1), (2, 2), (3, 1), (3, 2), (2, 3))), None
    nv, max_lag = nv
    names = ["a", "b", "c"][:nv]
    ts = [(v, -l) for v in names for l in range(max_lag + 1)]
    idx = {t: i for i, t in enumerate(ts)}
    g = C.g_new(len(ts))
    pairs = set()
    seeds = []
    for _ in range(rng.randint(2, 5)):
        u, v = rng.choice(names), rng.choice(names)
        lu, lv = rng.randint(0, max_lag), rng.randint(0, max_lag)
        if (u, lu) == (v, lv):
            continue
        if lu < lv:          # keep u at the earlier time point (larger lag)
            u, v, lu, lv = v, u, lv, lu
        kind = rng.choice(("->", "o->", "<->", "o-o", "--") if lu > lv else ("->", "<-", "o->", "<-o", "<->", "o-o", "--"))
        seeds.append((u, lu, v, lv, kind))
    for u, lu, v, lv, kind in seeds:
        for sh in range(-max_lag, max_lag + 1):
            a, b = (u, -(lu + sh)), (v, -(lv + sh))
            if a not in idx or b not in idx:
                continue
            key = frozenset((a, b))
            if key in pairs:
                continue
            pairs.add(key)
            i, j = idx[a], idx[b]
            if kind == "->":
                g["D"].append([i, j])
            elif kind == "<-":
                g["D"].append([j, i])
            elif kind == "o->":
                g["D"].append([i, j]); g["C"].append([j, i])
            elif kind == "<-o":
                g["D"].append([j, i]); g["C"].append([i, j])
            elif kind == "<->":
                g["B"].append([i, j])
            elif kind == "o-o":
                g["C"].append([i, j]); g["C"].append([j, i])
            else:
                g["U"].append([i, j])
    return {"g": g, "ts": [list(t) for t in ts], "max_lag": max_lag, "src": "ts"}


def rand_stream(rng, plan, nts, fams, i0=0):
    i = i0
    for n, cnt, cnt_chain in plan:
        for j in range(cnt + cnt_chain):
            i += 1
            g = rand_pag(rng, n) if j < cnt else collider_chain(rng, n)
            if i % 3 == 0:
                g = C.shuffled_graph(rng, g)
            yield {"g": g, "Q": all_queries(n), "src": ("rnd%d" if j < cnt else "chain%d") % n,
                   "fam": fams[i % len(fams)]}
    for _ in range(nts):
        c = ts_case(rng)
        qs = all_queries(c["g"]["n"])
        rng.shuffle(qs)
        c["Q"] = sorted(qs[:40], key=lambda q: (q[0], -1 if q[1] is None else q[1]))
        yield c


def gen_cases(ctx):
    """exhaustive <=3 nodes, the quick-sized random stream, then (thorough) all 4-node PAGs and more random"""
    tier, rng = ctx["tier"], ctx["rng"]
    for n in (1, 2, 3):
        for g in C.enum_graphs(n, C.PAG_STATES):
            yield {"g": g, "Q": all_queries(n), "src": "exh%d" % n}
    fams = C.Labels.FAMILIES
    yield from rand_stream(rng, ((4, 1500, 0), (5, 1200, 800), (6, 150, 300)), 200, fams)
    if tier == "thorough":
        for g in C.enum_graphs(4, C.PAG_STATES):
            yield {"g": g, "Q": all_queries(4), "src": "exh4"}
        yield from rand_stream(rng, ((5, 4000, 3000), (6, 1000, 1500), (7, 100, 300)), 1500, fams, i0=11)


# ----------------------------------------------------------------------------- judging
def single(case, q):
    c = {k: copy.deepcopy(v) for k, v in case.items() if k in ("g", "ts", "max_lag", "fam")}
    c["Q"] = [q]
    return c


def as_sets(ans):
    return [set(p.split(",")) - {""} for p in ans.split("#")]


def classify(got, spec, model, walk, reg=None):
    """None (agree with the path definition) | KF_SMALL | KF_WALK | 'violation'"""
    reg = registered_findings() if reg is None else reg
    if got == spec:
        return None
    if got.startswith("err"):
        return "violation"
    gs, ss = as_sets(got), as_sets(spec)
    if len(gs) != len(ss):
        return "violation"
    if KF_SMALL in reg and got == model and all(g <= s for g, s in zip(gs, ss)):
        return KF_SMALL          # literal model of the defective queueing: subset of the definition
    if KF_WALK in reg and got == walk and all(s <= g for g, s in zip(gs, ss)):
        return KF_WALK           # intended walk search: superset of the definition
    return "violation"


def judge_case(case, got, spec, model, walk, reg=None):
    """returns (violations, known): lists of (single-query case, impl, spec, model, walk[, finding id])"""
    if "build" in got:
        return [(dict(case, Q=[]), got["build"], "", "", "")], []
    reg = registered_findings() if reg is None else reg
    vio, known = [], []
    for q, a, s, m, w in zip(case["Q"], got["ans"], spec, model, walk):
        r = classify(a, s, m, w, reg)
        if r == "violation":
            vio.append((single(case, q), a, s, m, w))
        elif r is not None:
            known.append((single(case, q), a, s, m, w, r))
    if got.get("mutated"):
        vio.append((dict(case), "mutated", "", "", ""))
    return vio, known


def evals(case):
    return (impl(case), lean_eval([case], "spec")[0], lean_eval([case], "model")[0], lean_eval([case], "walk")[0])


def fails(case):
    return bool(judge_case(case, *evals(case))[0])


def _used(case):
    if case.get("ts"):      # the ts class completes the lag grid itself: never drop nodes
        return set(range(case["g"]["n"]))
    return set(v for q in case["Q"] for v in q if v is not None)


def _rename(case, ren):
    case["Q"] = [[ren[x], None if y is None else ren[y]] for x, y in case["Q"]]
    if case.get("ts"):
        keep = sorted(ren, key=lambda u: ren[u])
        case["ts"] = [case["ts"][u] for u in keep]
    return case


def run(ctx):
    ev, out = ctx["ev"], ctx["out"]
    ev.rule = ("per graph: pds(G,x) for every x, and pds(G,x,y), pds_path(G,x,y) for every ordered pair (adjacent and "
               "non-adjacent, connected and unconnected); time-series stream: StationaryTimeSeriesPAG built from seed "
               "edges replicated over all shifts, all four functions. graphs: every PAG on <=3 nodes (thorough: 4) over "
               "{none,->,<-,<->,--,o-o,o->,<-o}, random 4-6 (thorough 7) nodes incl. a collider-chain generator "
               "(x *-> c1 <-> c2 <-> ... with side edges), shuffled insertion order, five label families. "
               "evaluations = single queries. non-trivial (counted per graph) = some query has a pds member at "
               "distance >= 3 from x along a qualifying path, i.e. the search had to carry (prev,this) along >= 2 "
               "consecutive inner triples")
    ev.assumptions = ["at most one edge kind per pair; no self loops; max_path_length=None",
                      "biconnected component modelled by its definition (Lean C17.bicomp), validated against networkx by the run",
                      "known findings " + KF_SMALL + " (implementation == literal model, strict subset of the path definition) and "
                      + KF_WALK + " (implementation == intended walk search, strict superset) are reported as KNOWN-FINDING; "
                      "every other disagreement with the path oracle is a violation"]
    reg = registered_findings()
    corpus = [dict(c, src="corpus") for c in C.load_corpus(PID)]
    allvio, nknown, first_known = [], {}, {}
    walk_super = small_sub = 0
    ngraphs = 0
    first_case = None
    import itertools
    for cases in U.chunks(itertools.chain(corpus, gen_cases(ctx)), 20000):
        ngraphs += len(cases)
        first_case = first_case or cases[0]
        specs = lean_eval(cases, "spec")
        models = lean_eval(cases, "model")
        walks = lean_eval(cases, "walk")
        gots = C.pmap(impl, cases, chunksize=64)
        for case, got, spec, model, walk in zip(cases, gots, specs, models, walks):
            ev.evaluations += len(case["Q"])
            ev.count("src:" + case["src"])
            ev.count("queries", len(case["Q"]))
            for s, m, w in zip(spec, model, walk):
                if s == m == w:
                    continue
                ss, ms, ws = as_sets(s), as_sets(m), as_sets(w)
                # theorems re-checked on every case: pathDef <= pdsW (C17.pdsDef_subset_pdsW), pds <= pathDef
                if not all(a <= b for a, b in zip(ss, ws)):
                    out.proof_breaks.append("intended search pdsW does not contain the path oracle on " + lean_line(case, "walk"))
                if not all(a <= b for a, b in zip(ms, ss)):
                    out.proof_breaks.append("literal model pds is not inside the path oracle on " + lean_line(case, "model"))
                walk_super += (w != s)
                small_sub += (m != s)
            deep = depth3(case, spec)
            ev.count("queries:pds-nonempty", sum(1 for s in spec if s.split("#")[0]))
            if deep:
                ev.nontrivial.add(C.hashlib.sha1(C.json.dumps([case["g"], case.get("ts")], sort_keys=True).encode()).hexdigest()[:16])
            if len(ev.samples) < 6 and case["src"][:3] in ("rnd", "cha", "ts"):
                ev.samples.append({"g": case["g"], "ts": case.get("ts"), "Q": case["Q"][:5], "src": case["src"]})
            vio, known = judge_case(case, got, spec, model, walk, reg)
            if len(allvio) < 200:
                allvio += vio
            for k in known:
                nknown[k[5]] = nknown.get(k[5], 0) + 1
                if k[5] not in first_known or (case["src"] == "corpus" and first_known[k[5]][1] != "corpus"):
                    first_known[k[5]] = (k, case["src"])
        if allvio:
            break
        if C.time.time() > ctx["deadline"]:
            ev.extra["truncated_by_deadline"] = True
            break
    cases = [first_case] if first_case else []
    if not ev.samples and cases:
        ev.samples.append({"g": cases[0]["g"], "Q": cases[0]["Q"][:5]})
    ev.extra["graphs"] = ngraphs
    ev.extra["known_finding_queries"] = nknown
    ev.extra["queries_where_intended_walk_search_exceeds_path_definition"] = walk_super
    ev.extra["queries_where_literal_model_is_below_path_definition"] = small_sub
    ev.extra["exhaustive_part"] = "every labelled PAG on <=3 nodes (quick) / <=4 nodes (thorough), all queries"
    what = {KF_SMALL: "pds queues (prev_node, next_node): result is a strict SUBSET of the path definition",
            KF_WALK: "pds (walk-based edge-state search) returns a strict SUPERSET of the path definition"}
    for fid, cnt in sorted(nknown.items()):
        (c, a, s, m, w, _), _src = first_known[fid]
        out.known(fid, "%s on %d of %d queries; e.g. %s impl=%s path-definition=%s" % (
            what[fid], cnt, ev.evaluations, lean_line(c, "spec"), a, s), c)
    if allvio:
        c0, a, s, m, w = allvio[0]
        small = U.shrink(c0, fails, _used, _rename)
        g2, s2, m2, w2 = evals(small)
        out.violation(small, {"impl": g2, "spec": s2, "model": m2, "walk_model": w2,
                              "first_seen": {"case": c0, "impl": a, "spec": s, "model": m, "walk_model": w},
                              "lean_request": lean_line(small, "spec"), "disagreeing_queries_at_least": len(allvio)})


def depth3(case, spec):
    """cheap measurable proxy for non-triviality: some query whose pds contains a node that is not within
    adjacency distance 2 of x"""
    g = case["g"]
    n = g["n"]
    adj = {v: set() for v in range(n)}
    for k in "DBUC":
        for a, b in g.get(k, []):
            adj[a].add(b)
            adj[b].add(a)
    for (x, y), s in zip(case["Q"], spec):
        mem = set(int(v) for v in s.split("#")[0].split(",") if v)
        near = set(adj[x])
        for v in list(near):
            near |= adj[v]
        if mem - near:
            return True
    return False


def replay(ctx, payload):
    case = payload["case"]
    got, spec, model, walk = evals(case)
    print("implementation:", got)
    print("path definition (Lean oracle):", spec)
    print("literal model of the code:", model)
    print("intended walk search:", walk)
    vio, known = judge_case(case, got, spec, model, walk)
    print("REPRODUCED" if vio else ("KNOWN-FINDING-ONLY" if known else "NOT-REPRODUCED"))
    return 1 if vio else 0


# ----------------------------------------------------------------------------- C15 adapter
def c15_cases(rng, k):
    cases = []
    for i in range(k):
        n = rng.choice((3, 4, 4, 5))
        g = rand_pag(rng, n) if i % 2 else collider_chain(rng, max(n, 3))
        qs = all_queries(g["n"])
        rng.shuffle(qs)
        cases.append({"g": g, "Q": sorted(qs[:8], key=lambda q: (q[0], -1 if q[1] is None else q[1]))})
    return cases


def c15_eval(case, fam, order_seed):
    import random
    c = dict(case, fam=fam, g=C.shuffled_graph(random.Random(order_seed), case["g"]))
    got = impl(c)
    if "build" in got:
        return got["build"]
    return "/".join(got["ans"])


def c15_expected(cases):
    # label independence is judged against the literal model of the code (known finding KF_SMALL makes
    # the code differ from the path definition in a label-independent way)
    return ["/".join(r) for r in lean_eval(cases, "model")]
