import Pw.C19.Full
open Closure MG

/-! # C19: one half of Forré–Mooij (T8a), proved

Every sigma-open path of `G` is simulated by an m-connecting walk of any acyclification `A` of `G`;
with C01's walk-to-path theorem: *m-separation in `A` implies sigma-separation in `G`*, i.e. every
`True` answer of `sigma_separated` is correct, unconditionally.

The simulation keeps, for the prefix of the path that ends at `v` (entered with mark `m`), either
* `Anch`: the walk of `A` stands at `v` itself, arrived through a tail (or `v` is the start), or
* `Float`: *every* member `w` of `sc(v)` is reached by some m-connecting walk of `A` (with a tail
  only if `w ∉ Z`), and, unless `m` is an arrowhead, some member can be left through an arrowhead. -/
namespace C19

variable {G A : MG} {Z : List Nat} {x : Nat}

/-- some member of `sc(v)` is reached in a state that may be left through an arrowhead -/
def UsableH (G A : MG) (Z : List Nat) (x v : Nat) : Prop :=
  ∃ w mw, SC G v w ∧ Conn A Z (A.anc Z) x w mw ∧ (if mw = .head then w ∈ A.anc Z else w ∉ Z)

/-- every member of `sc(v)` is reached; a tail state only outside Z -/
def AllSC (G A : MG) (Z : List Nat) (x v : Nat) : Prop :=
  ∀ w, SC G v w → ∃ mw, Conn A Z (A.anc Z) x w mw ∧ (mw = .tail → w ∉ Z)

def Float (G A : MG) (Z : List Nat) (x v : Nat) (m : Mark) : Prop :=
  AllSC G A Z x v ∧ (m = .head ∨ UsableH G A Z x v)

/-- invariant of the simulation; `e` = (previous node, mark at `v` of the entering edge) -/
def Inv (G A : MG) (Z : List Nat) (x : Nat) (e : Option (Nat × Mark)) (v : Nat) : Prop :=
  (Conn A Z (A.anc Z) x v .tail ∧ (e = none → v ∉ Z) ∧ ∀ p m, e = some (p, m) → m = .tail ∧ ¬ SC G v p) ∨
  (∃ p m, e = some (p, m) ∧ Float G A Z x v m)

theorem AllSC.congr (h : AllSC G A Z x v) (hs : SC G v v') : AllSC G A Z x v' :=
  fun w hw => h w (hs.trans hw)

theorem UsableH.congr (h : UsableH G A Z x v) (hs : SC G v v') : UsableH G A Z x v' := by
  obtain ⟨w, mw, h1, h2, h3⟩ := h
  exact ⟨w, mw, hs.symm.trans h1, h2, h3⟩

/-- L1: an ancestor (in G) of Z has a member of its component that is an ancestor of Z in `A` -/
theorem anc_lift (hA : IsAcyclification G A) {c z : Nat} (h : Anc G c z) :
    ∃ w, SC G c w ∧ Anc A w z := by
  induction h with
  | refl a => exact ⟨a, SC.refl G a, Anc.refl a⟩
  | @step a b z e _ ih =>
    obtain ⟨w, hw, haw⟩ := ih
    by_cases hsc : SC G a b
    · exact ⟨w, hsc.trans hw, haw⟩
    · refine ⟨a, SC.refl G a, Anc.step ((hA.dir a w).mpr ⟨?_, b, hw.symm, e⟩) haw⟩
      intro h; exact hsc (h.trans hw.symm)

theorem usable_of_collider (hA : IsAcyclification G A) (hwfA : A.WF) (hZA : ∀ z ∈ Z, z ∈ A.nodes)
    {v : Nat} (hall : AllSC G A Z x v) (hc : ColliderOpen G Z v) : UsableH G A Z x v := by
  obtain ⟨z, hz, hanc⟩ := hc
  obtain ⟨w, hw, haw⟩ := anc_lift hA hanc
  obtain ⟨mw, hconn, htail⟩ := hall w hw
  have hwa : w ∈ A.anc Z := (mem_anc hwfA hZA).mpr ⟨z, hz, haw⟩
  refine ⟨w, mw, hw, hconn, ?_⟩
  cases mw
  · simp; exact htail rfl
  · simp; exact hwa

/-- the hypotheses shared by the simulation lemmas -/
structure Ctx (G A : MG) (Z : List Nat) : Prop where
  hd : Dom G
  hu : G.un = []
  hA : IsAcyclification G A
  hwfA : A.WF
  hZA : ∀ z ∈ Z, z ∈ A.nodes

theorem hasEdge_dir {A : MG} {i j : Nat} (h : (i, j) ∈ A.dir) : HasEdge A i j .tail .head :=
  Or.inl ⟨rfl, rfl, h⟩
theorem hasEdge_rev {A : MG} {i j : Nat} (h : (i, j) ∈ A.dir) : HasEdge A j i .head .tail :=
  Or.inr (Or.inl ⟨rfl, rfl, h⟩)
theorem hasEdge_bi (hA : IsAcyclification G A) {i j : Nat} (h : BiSpec G i j) : HasEdge A i j .head .head :=
  Or.inr (Or.inr (Or.inl ⟨rfl, rfl, (hA.bi i j).mpr h⟩))

/-- leave the component of `a` through an arrowhead -/
theorem step_head (h : UsableH G A Z x a) {t : Nat} {mt : Mark}
    (hedge : ∀ w, SC G a w → HasEdge A w t .head mt) : Conn A Z (A.anc Z) x t mt := by
  obtain ⟨w, mw, hw, hconn, hc⟩ := h
  refine Conn.step hconn (hedge w hw) ?_
  cases mw <;> simpa using hc

/-- one hop of the sigma-open path is simulated -/
theorem sim_step (c : Ctx G A Z) {e : Option (Nat × Mark)} {a : Nat} {h : Hop}
    (hinv : Inv G A Z x e a) (hedge : HasEdge G a h.nx h.mp h.mn)
    (hcond : ∀ u m, e = some (u, m) → sigmaCond G Z u m a h.mp h.nx) :
    Inv G A Z x (some (a, h.mn)) h.nx := by
  obtain ⟨mp, mn, v⟩ := h
  simp only at hedge hcond ⊢
  have hA := c.hA
  have hne : a ≠ v := by
    intro e'; subst e'
    rcases hedge with ⟨_, _, h⟩ | ⟨_, _, h⟩ | ⟨_, _, h | h⟩ | ⟨_, _, h⟩
    · exact c.hd.noloopD _ h
    · exact c.hd.noloopD _ h
    · exact c.hd.noloopB _ h
    · exact c.hd.noloopB _ h
    · rw [c.hu] at h; rcases h with h | h <;> cases h
  -- the three kinds of edges
  have hkind : (mp = .tail ∧ mn = .head ∧ (a, v) ∈ G.dir) ∨ (mp = .head ∧ mn = .tail ∧ (v, a) ∈ G.dir) ∨
      (mp = .head ∧ mn = .head ∧ ((a, v) ∈ G.bi ∨ (v, a) ∈ G.bi)) := by
    rcases hedge with h | h | h | ⟨_, _, h⟩
    · exact Or.inl h
    · exact Or.inr (Or.inl h)
    · exact Or.inr (Or.inr h)
    · rw [c.hu] at h; rcases h with h | h <;> cases h
  -- facts available in the anchored mode
  have anch_notZ : (Conn A Z (A.anc Z) x a .tail ∧ (e = none → a ∉ Z) ∧
      ∀ p m, e = some (p, m) → m = .tail ∧ ¬ SC G a p) → a ∉ Z := by
    rintro ⟨_, h0, h1⟩
    cases e with
    | none => exact h0 rfl
    | some pm =>
      obtain ⟨p, m⟩ := pm
      obtain ⟨rfl, hnsc⟩ := h1 p m rfl
      have := hcond p _ rfl
      simp only [sigmaCond, reduceCtorEq, false_and, if_false, true_imp_iff] at this
      rcases this with h | ⟨_, h⟩
      · exact h
      · exact absurd h hnsc
  -- a state from which the component of `a` can be left through an arrowhead
  have usable : mp = .head → UsableH G A Z x a := by
    intro hmp
    rcases hinv with hanch | ⟨p, m, he, hall, hm | hus⟩
    · exact ⟨a, .tail, SC.refl G a, hanch.1, by simpa using anch_notZ hanch⟩
    · subst hm; subst hmp
      have := hcond p _ he
      simp only [sigmaCond, and_self, if_true] at this
      exact usable_of_collider hA c.hwfA c.hZA hall this
    · exact hus
  by_cases hsc : SC G a v
  · -- the hop stays inside the component: float
    right
    refine ⟨a, mn, rfl, ?_, ?_⟩
    · rcases hinv with hanch | ⟨p, m, _, hall, _⟩
      · intro w hw
        by_cases hwa : w = a
        · subst hwa; exact ⟨.tail, hanch.1, fun _ => anch_notZ hanch⟩
        · refine ⟨.head, Conn.step hanch.1 (hasEdge_bi hA ⟨fun e' => hwa e'.symm, Or.inl (hsc.trans hw)⟩) ?_,
            fun e' => by cases e'⟩
          simpa using anch_notZ hanch
      · exact hall.congr hsc
    · rcases hinv with hanch | ⟨p, m, he, hall, hm | hus⟩
      · exact Or.inr ⟨a, .tail, hsc.symm, hanch.1, by simpa using anch_notZ hanch⟩
      · cases hmn : mn with
        | head => exact Or.inl rfl
        | tail =>
          right
          have hmp : mp = .head := by
            rcases hkind with ⟨_, h, _⟩ | ⟨h, _, _⟩ | ⟨h, _, _⟩
            · rw [hmn] at h; cases h
            · exact h
            · exact h
          exact (usable hmp).congr hsc
      · exact Or.inr (hus.congr hsc)
  · -- the hop leaves the component
    rcases hkind with ⟨rfl, rfl, hav⟩ | ⟨rfl, rfl, hva⟩ | ⟨rfl, rfl, hbi⟩
    · -- a -> v
      have hstate : ∃ ma, Conn A Z (A.anc Z) x a ma ∧ a ∉ Z := by
        rcases hinv with hanch | ⟨p, m, he, hall, _⟩
        · exact ⟨.tail, hanch.1, anch_notZ hanch⟩
        · obtain ⟨ma, hconn, _⟩ := hall a (SC.refl G a)
          refine ⟨ma, hconn, ?_⟩
          have := hcond p m he
          simp only [sigmaCond, reduceCtorEq, and_false, if_false, true_imp_iff] at this
          rcases this with h | ⟨h, _⟩
          · exact h
          · exact absurd h hsc
      obtain ⟨ma, hconn, haZ⟩ := hstate
      right
      refine ⟨a, .head, rfl, ?_, Or.inl rfl⟩
      intro w hw
      have hd : (a, w) ∈ A.dir := (hA.dir a w).mpr ⟨fun h => hsc (h.trans hw.symm), v, hw.symm, hav⟩
      exact ⟨.head, Conn.step hconn (hasEdge_dir hd) (by simpa using haZ), fun e' => by cases e'⟩
    · -- a <- v
      left
      refine ⟨step_head (usable rfl) ?_, (fun e' => by cases e'), ?_⟩
      · intro w hw
        exact hasEdge_rev ((hA.dir v w).mpr ⟨fun h => hsc (hw.trans h.symm), a, hw.symm, hva⟩)
      · intro p m e'
        injection e' with e'; injection e' with e1 e2
        subst e1; subst e2
        exact ⟨rfl, fun h => hsc h.symm⟩
    · -- a <-> v
      right
      refine ⟨a, .head, rfl, ?_, Or.inl rfl⟩
      intro w' hw'
      refine ⟨.head, step_head (usable rfl) ?_, fun e' => by cases e'⟩
      intro w hw
      refine hasEdge_bi hA ⟨?_, Or.inr ⟨a, v, hw.symm, hw'.symm, hbi⟩⟩
      intro e'; subst e'
      exact hsc (hw.trans hw'.symm)

/-- the whole path is simulated: the walk of `A` reaches the end node -/
theorem sim (c : Ctx G A Z) : ∀ (hs : List Hop) (e : Option (Nat × Mark)) (a : Nat),
    Inv G A Z x e a → ValidW G a hs → OpenSig G Z e a hs →
    ∃ m, Conn A Z (A.anc Z) x (endNode a hs) m
  | [], e, a, hinv, _, _ => by
    rcases hinv with h | ⟨_, _, _, hall, _⟩
    · exact ⟨.tail, h.1⟩
    · obtain ⟨mw, h, _⟩ := hall a (SC.refl G a)
      exact ⟨mw, h⟩
  | h :: t, none, a, hinv, hv, ho => by
    have := sim_step c hinv hv.1 (by intro u m e'; cases e')
    exact sim c t _ _ this hv.2 ho
  | h :: t, some (u, m), a, hinv, hv, ho => by
    have := sim_step c hinv hv.1 (by
      intro u' m' e'
      injection e' with e'; injection e' with e1 e2
      subst e1; subst e2
      exact ho.1)
    exact sim c t _ _ this hv.2 ho.2

/-- **T8a.** A sigma-open path of `G` gives an m-connecting path of any acyclification `A` of `G`. -/
theorem mConnPath_of_sigmaConnPath (hd : Dom G) (hu : G.un = []) (hA : IsAcyclification G A)
    (hZ : ∀ z ∈ Z, z ∈ G.nodes) {x y : Nat} (hx : x ∉ Z) (h : SigmaConnPath G Z x y) :
    MConnPath A Z x y := by
  have hwfA := hA.wf hd.wf hu
  have hZA : ∀ z ∈ Z, z ∈ A.nodes := by intro z hz; rw [hA.nodes]; exact hZ z hz
  obtain ⟨hs, hv, hend, _, ho⟩ := h
  have c : Ctx G A Z := ⟨hd, hu, hA, hwfA, hZA⟩
  have hinv : Inv G A Z x none x :=
    Or.inl ⟨Conn.start, fun _ => hx, by intro p m e'; cases e'⟩
  obtain ⟨m, hconn⟩ := sim c hs none x hinv hv ho
  rw [hend] at hconn
  exact (walk_iff_path hwfA (noUndirAtHead_of_un_nil _ (by rw [hA.un, hu])) (hA.noSelfLoop hu) hZA hx).mp
    ⟨m, hconn⟩

/-- **T8a, set form**: m-separation in an acyclification implies sigma-separation in `G`. -/
theorem sigmaSep_of_mSep (hd : Dom G) (hu : G.un = []) (hA : IsAcyclification G A)
    {X Y : List Nat} (hZ : ∀ z ∈ Z, z ∈ G.nodes) (hXZ : ∀ x ∈ X, x ∉ Z) (h : MSep A X Y Z) :
    SigmaSep G X Y Z :=
  fun x hx y hy hp => h x hx y hy (mConnPath_of_sigmaConnPath hd hu hA hZ (hXZ x hx) hp)

/-- **every `True` answer of the model of `sigma_separated` is correct** (unconditional) -/
theorem sigmaSeparated_true_sound {order : List Nat} (hd : Dom G) (hu : G.un = [])
    (ho : IsOrder G order) (X Y : List Nat) (hX : ∀ x ∈ X, x ∈ G.nodes) (hZ : ∀ z ∈ Z, z ∈ G.nodes)
    (hXZ : ∀ x ∈ X, x ∉ Z) (h : sigmaSeparated G order X Y Z = true) : SigmaSep G X Y Z :=
  sigmaSep_of_mSep hd hu (acy_isAcyclification hd ho) hZ hXZ
    ((sigmaSeparated_iff_MSep_acy hd hu ho X Y Z hX hZ hXZ).mp h)

/-- the half of T8 that remains a hypothesis: sigma-separation in G implies m-separation in the
    acyclification -/
def ForreMooijConverse : Prop :=
  ∀ (G A : MG), Dom G → G.un = [] → IsAcyclification G A →
    ∀ X Y Z : List Nat, (∀ x ∈ X, x ∈ G.nodes) → (∀ y ∈ Y, y ∈ G.nodes) → (∀ z ∈ Z, z ∈ G.nodes) →
      (∀ x ∈ X, x ∉ Y ∧ x ∉ Z) → (∀ y ∈ Y, y ∉ Z) →
      (SigmaSep G X Y Z → MSep A X Y Z)

theorem forreMooij_of_converse (h : ForreMooijConverse) : ForreMooij := by
  intro G A hd hu hA X Y Z hX hY hZ hXYZ hYZ
  exact ⟨sigmaSep_of_mSep hd hu hA hZ (fun x hx => (hXYZ x hx).2), h G A hd hu hA X Y Z hX hY hZ hXYZ hYZ⟩

/-- **C19 sigma clause, conditional only on the converse half of T8** -/
theorem C19_sigma_full_of_T8_converse (h : ForreMooijConverse) : C19_sigma_full :=
  C19_sigma_full_of_T8 (forreMooij_of_converse h)

end C19
