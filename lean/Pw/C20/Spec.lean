import Pw.C20.Model

/-!
# C20 — specification

English statement (properties.jsonl): after any history "the registered F- and S-nodes are exactly
the augmented nodes present in the graph, each F-node is registered with exactly the targets it was
created with, which are exactly its children, and a newly created augmented node never reuses the
name of an existing node.  The registries of a copy and its original, and of two separately
constructed graphs, are independent: an edit to one is never visible in the other."

Everything is phrased over `View`s (what the public API shows of one object) and over pairs of
views before / after one operation, so the same predicates judge the model's run (theorems in
`Pw/C20/Proofs.lean`) and a trace observed on the implementation (driver command `c20v`).  All
quantifiers are bounded by lists, so every predicate is decidable *by its definition* (no separate
decider that could drift from the spec).
-/
namespace C20

/-- `Reg`: the registry of one object agrees with its graph. -/
structure Reg (v : View) : Prop where
  /-- every F-node present is registered -/
  f_present_registered : ∀ k ∈ fNames v.nodes, k ∈ dKeys v.fs
  /-- every registered F-node is present -/
  f_registered_present : ∀ k ∈ dKeys v.fs, Node.f k ∈ v.nodes
  s_present_registered : ∀ k ∈ sNames v.nodes, k ∈ dKeys v.ss
  s_registered_present : ∀ k ∈ dKeys v.ss, Node.s k ∈ v.nodes
  /-- registered targets = children -/
  children_targets : ∀ p ∈ v.fs, ∀ t ∈ v.children (.f p.1), t ∈ p.2.targets
  targets_children : ∀ p ∈ v.fs, ∀ t ∈ p.2.targets, t ∈ v.children (.f p.1)

instance (v : View) : Decidable (Reg v) :=
  if h1 : ∀ k ∈ fNames v.nodes, k ∈ dKeys v.fs then
    if h2 : ∀ k ∈ dKeys v.fs, Node.f k ∈ v.nodes then
      if h3 : ∀ k ∈ sNames v.nodes, k ∈ dKeys v.ss then
        if h4 : ∀ k ∈ dKeys v.ss, Node.s k ∈ v.nodes then
          if h5 : ∀ p ∈ v.fs, ∀ t ∈ v.children (.f p.1), t ∈ p.2.targets then
            if h6 : ∀ p ∈ v.fs, ∀ t ∈ p.2.targets, t ∈ v.children (.f p.1) then
              isTrue ⟨h1, h2, h3, h4, h5, h6⟩
            else isFalse fun h => h6 h.6
          else isFalse fun h => h5 h.5
        else isFalse fun h => h4 h.4
      else isFalse fun h => h3 h.3
    else isFalse fun h => h2 h.2
  else isFalse fun h => h1 h.1

/-- the object an operation is called on (`none`: the operation only creates a new object) -/
def Op.target : Op → Option Nat
  | .new _ => none
  | .copy _ => none
  | .at g _ => some g
  | .allS _ _ => none

/-- `Frame`: an operation leaves the observation of every object it is not called on unchanged
(for `copy` / `new` / `add_all_snode_combinations`: of every existing object, the source included). -/
def Frame (op : Op) (before after : Nat → Option View) (nObjs : Nat) : Prop :=
  ∀ g < nObjs, some g ≠ op.target → after g = before g

instance (op : Op) (b a : Nat → Option View) (n : Nat) : Decidable (Frame op b a n) :=
  inferInstanceAs (Decidable (∀ g < n, some g ≠ op.target → a g = b g))

/-- two F-entries say the same (targets and domain are Python sets) -/
def sameEntry (a b : FEntry) : Bool := sameSet a.targets b.targets && sameSet a.domain b.domain

/-- `Fresh`: the augmented nodes that exist after the operation and did not exist before were not
names of existing nodes, and a successful `add_f_node(ts, domain)` creates exactly such a node,
registered with `ts` and the domain (as sets). -/
def CreatedF (before after : View) (e : FEntry) : Prop :=
  ∃ k ∈ dKeys after.fs, Node.f k ∉ before.nodes ∧ Node.f k ∈ after.nodes ∧
    ∃ p ∈ after.fs, p.1 = k ∧ sameEntry p.2 e = true

instance (b a : View) (e : FEntry) : Decidable (CreatedF b a e) :=
  inferInstanceAs (Decidable (∃ k ∈ dKeys a.fs, Node.f k ∉ b.nodes ∧ Node.f k ∈ a.nodes ∧
    ∃ p ∈ a.fs, p.1 = k ∧ sameEntry p.2 e = true))

def CreatedS (before after : View) (d : Nat × Nat) : Prop :=
  ∃ k ∈ dKeys after.ss, Node.s k ∉ before.nodes ∧ Node.s k ∈ after.nodes ∧ (k, d) ∈ after.ss

instance (b a : View) (d : Nat × Nat) : Decidable (CreatedS b a d) :=
  inferInstanceAs (Decidable (∃ k ∈ dKeys a.ss, Node.s k ∉ b.nodes ∧ Node.s k ∈ a.nodes ∧ (k, d) ∈ a.ss))

/-- `Stable`: every F-node registered before and not removed by this very call is still registered
with the same targets and domain, every S-node likewise: no call re-targets somebody else's entry. -/
def Stable (op : LOp) (before after : View) : Prop :=
  (∀ p ∈ before.fs, op ≠ .rmF p.1 → ∃ q ∈ after.fs, q.1 = p.1 ∧ sameEntry q.2 p.2 = true) ∧
  (∀ p ∈ before.ss, op ≠ .rmS p.1 → p ∈ after.ss)

instance (op : LOp) (b a : View) : Decidable (Stable op b a) :=
  inferInstanceAs (Decidable ((∀ p ∈ b.fs, op ≠ .rmF p.1 → ∃ q ∈ a.fs, q.1 = p.1 ∧ sameEntry q.2 p.2 = true) ∧
    (∀ p ∈ b.ss, op ≠ .rmS p.1 → p ∈ a.ss)))

/-- the same content, as sets (a copy shows what its original shows) -/
def SameContent (a b : View) : Prop :=
  (∀ n ∈ a.nodes, n ∈ b.nodes) ∧ (∀ n ∈ b.nodes, n ∈ a.nodes) ∧
  (∀ p ∈ a.fs, ∃ q ∈ b.fs, q.1 = p.1 ∧ sameEntry q.2 p.2 = true) ∧
  (∀ p ∈ b.fs, ∃ q ∈ a.fs, q.1 = p.1 ∧ sameEntry q.2 p.2 = true) ∧
  (∀ p ∈ a.ss, p ∈ b.ss) ∧ (∀ p ∈ b.ss, p ∈ a.ss)

instance (a b : View) : Decidable (SameContent a b) := by unfold SameContent; exact inferInstance

/-- what one step of a history must satisfy, given the observations of all objects before and
after it and whether the call returned (`ok`) or raised.  `nb` = number of live objects before. -/
def StepOK (op : Op) (ok : Bool) (before after : Nat → Option View) (nb na : Nat) : Prop :=
  -- Reg for every live object after the call (also after a call that raised)
  (∀ g < na, ∀ v ∈ after g, Reg v) ∧
  -- Frame
  Frame op before after nb ∧
  -- no object disappears; only new / copy / add_all_snode_combinations create one, and only one
  (match op with
   | .at _ _ => na = nb
   | _ => na = if ok then nb + 1 else nb) ∧
  -- op-specific clauses
  (match op with
   | .at g lop =>
     ∀ b ∈ before g, ∀ a ∈ after g,
       Stable lop b a ∧
       (match lop with
        | .addF ts _ dom => ok = true → CreatedF b a ⟨ts, dom.getD [1]⟩
        | .addFs tss => ok = true → ∀ ts ∈ tss, CreatedF b a ⟨ts, [1]⟩
        | .addS d _ => ok = true → CreatedS b a d
        | _ => True)
   | .copy g => ok = true → ∀ b ∈ before g, ∀ a ∈ after nb, SameContent b a
   | .allS g _ => ok = true → ∀ b ∈ before g, ∀ a ∈ after nb,
       (∀ p ∈ b.fs, ∃ q ∈ a.fs, q.1 = p.1 ∧ sameEntry q.2 p.2 = true) ∧ (∀ p ∈ b.ss, p ∈ a.ss)
   | .new _ => ok = true → ∀ a ∈ after nb, a.nodes = [] ∧ a.fs = [] ∧ a.ss = [])

instance (op : Op) (ok : Bool) (b a : Nat → Option View) (nb na : Nat) : Decidable (StepOK op ok b a nb na) := by
  unfold StepOK
  cases op with
  | «at» g lop => cases lop <;> exact inferInstance
  | _ => exact inferInstance

end C20
