"""C20: F-/S-node registry of AugmentedGraph / AugmentedPAG after any history, with aliasing.

Implementation vs the Lean heap model `C20.run Cfg.fixed` (proved: Reg invariant, Frame, freshness,
stability of targets -- lean/Pw/C20/Proofs.lean) on the same operation history, compared after every
step on every live object; in addition the observed implementation trace is judged by the Lean
decision procedure of the specification itself (`C20.StepOK`, driver command `c20v`).

  model observation != implementation observation  and  StepOK fails on the implementation trace
      => VIOLATION (failing input = shrunk op list)
  model != implementation but the implementation trace satisfies StepOK => correspondence break

Observations are name free (augmented nodes are shown by content), removals are positional, so an
implementation that generates other fresh names is not reported."""
import itertools
import os

from . import common as C
from .shrink import shrink_ops

PID = "C20"
CFG = os.environ.get("C20_CFG", "0000")  # development: 1111 = model of the unchanged code
EDGE_TYPES = {"a": ("directed", "bidirected", "undirected"),
              "p": ("directed", "bidirected", "undirected", "circle")}
MAX_OBJS = 3


# ----------------------------------------------------------------------------- op encoding
def dot(xs):
    xs = list(xs)
    return ".".join(str(x) for x in xs) if xs else "e"


def op_token(op, concrete=None):
    """one op -> protocol token; `concrete` = resolved name index for positional removals"""
    k = op[0]
    if k == "new":
        return "new:%s" % op[1]
    if k == "copy":
        return "copy:%d" % op[1]
    if k == "alls":
        return "alls:%d:%d" % (op[1], op[2])
    if k == "addF":
        return "addF:%d:%s:%d:%s" % (op[1], dot(op[2]), 1 if op[3] else 0, "-" if op[4] is None else dot(op[4]))
    if k == "addFs":
        return "addFs:%d:%s" % (op[1], "+".join(dot(t) for t in op[2]) if op[2] else "-")
    if k == "addS":
        return "addS:%d:%s:%s" % (op[1], dot(op[2]), dot(op[3]))
    if k in ("rmF", "rmS"):
        return "%s:%d:%d" % (k, op[1], op[2] if concrete is None else concrete)
    if k == "node":
        return "node:%d:%d" % (op[1], op[2])
    if k == "edge":
        return "edge:%d:%d.%d" % (op[1], op[2], op[3])
    raise ValueError(op)


def model_line(ops, cfg=None):
    return "c20 cfg=%s ops=%s" % (cfg or CFG, ";".join(op_token(o) for o in ops))


# ----------------------------------------------------------------------------- implementation side
def _aug(n, tag):
    return isinstance(n, tuple) and len(n) == 2 and n[0] == tag and isinstance(n[1], int) and not isinstance(n[1], bool) and n[1] >= 0


class Obs:
    """observation of one implementation object: canonical name-free string + raw view"""

    def __init__(self, G, lab, cls):
        self.G, self.lab, self.cls = G, lab, cls
        inv = lab._inv
        self.weird = []
        nodes = list(G.nodes)
        freg = G.graph.get("F-nodes", {})
        sreg = G.graph.get("S-nodes", {})
        # ordinary nodes may be NAMED like augmented nodes (label family 'auglike'): a node counts as
        # augmented when it looks like one and is either registered or not one of the harness's labels
        try:
            regd = set(freg.keys()) | set(sreg.keys())
        except Exception:
            regd = set()

        def isaug(n, tag):
            return _aug(n, tag) and (n not in inv or n in regd)
        self.ordn = sorted(inv[n] for n in nodes if n in inv and not (isaug(n, "F") or isaug(n, "S")))
        self.fpres = sorted(n[1] for n in nodes if isaug(n, "F"))
        self.spres = sorted(n[1] for n in nodes if isaug(n, "S"))
        for n in nodes:
            if n not in inv and not _aug(n, "F") and not _aug(n, "S"):
                self.weird.append("node:%r" % (n,))
        self.fs = {}
        for key in list(freg.keys()):
            if not _aug(key, "F"):
                self.weird.append("fkey:%r" % (key,))
                continue
            e = freg[key]
            ts = e.get("targets") if hasattr(e, "get") else None
            dom = e.get("domain") if hasattr(e, "get") else None
            try:
                tsi = sorted(inv[t] for t in ts)
            except Exception:
                self.weird.append("targets:%r" % (ts,))
                tsi = []
            try:
                di = sorted(int(d) for d in dom)
            except Exception:
                self.weird.append("domain:%r" % (dom,))
                di = []
            self.fs[key[1]] = (tsi, di)
        self.ss = {}
        for key in list(sreg.keys()):
            if not _aug(key, "S"):
                self.weird.append("skey:%r" % (key,))
                continue
            try:
                a, b = sreg[key]
                self.ss[key[1]] = (int(a), int(b))
            except Exception:
                self.weird.append("sval:%r" % (sreg[key],))
        # the public properties must say what the registries say
        try:
            if sorted(map(repr, G.f_nodes)) != sorted(map(repr, freg.keys())):
                self.weird.append("f_nodes-property")
            if sorted(map(repr, G.s_nodes)) != sorted(map(repr, sreg.keys())):
                self.weird.append("s_nodes-property")
        except Exception as e:
            self.weird.append("nodes-property:" + type(e).__name__)
        self.ch = {}
        for tag, pres in (("F", self.fpres), ("S", self.spres)):
            for k in pres:
                try:
                    self.ch[(tag, k)] = sorted(inv[c] for c in G.children((tag, k)))
                except Exception as e:
                    self.weird.append("children(%s,%d):%s" % (tag, k, type(e).__name__))
                    self.ch[(tag, k)] = []
        try:
            isets = G.intervention_sets
            self.isets = sorted(set("{" + dot2(sorted(inv[t] for t in s)) + "}" for s in isets))
        except Exception as e:
            self.weird.append("intervention_sets:" + type(e).__name__)
            self.isets = []
        try:
            self.doms = sorted(int(d) for d in G.domains)
        except Exception as e:
            self.weird.append("domains:" + type(e).__name__)
            self.doms = []

    def f_entry(self, k):
        reg, pres = k in self.fs, k in self.fpres
        s = ("%s/%s" % (dot2(self.fs[k][0]), dot2(self.fs[k][1]))) if reg else "-/-"
        s += "/" + (dot2(self.ch[("F", k)]) if pres else "!") + "/" + ("R" if reg else "") + ("P" if pres else "")
        return s

    def s_entry(self, k):
        reg, pres = k in self.ss, k in self.spres
        s = ("%d.%d" % self.ss[k]) if reg else "-"
        s += "/" + (dot2(self.ch[("S", k)]) if pres else "!") + "/" + ("R" if reg else "") + ("P" if pres else "")
        return s

    def canon(self):
        fu = sorted(set(self.fs) | set(self.fpres))
        su = sorted(set(self.ss) | set(self.spres))
        s = "c=%s n=%s F=%s S=%s I=%s D=%s" % (
            self.cls, dot2(self.ordn), ",".join(sorted(self.f_entry(k) for k in fu)),
            ",".join(sorted(self.s_entry(k) for k in su)), "".join(self.isets), dot2(self.doms))
        if self.weird:
            s += " X=" + ";".join(sorted(self.weird)).replace("|", "/")
        return s

    def raw(self):
        nodes = [3 * i for i in self.ordn] + [3 * k + 1 for k in self.fpres] + [3 * k + 2 for k in self.spres]
        ae = []
        for (tag, k), cs in sorted(self.ch.items()):
            code = 3 * k + (1 if tag == "F" else 2)
            ae += ["%d>%d" % (code, c) for c in cs]
        fs = ["%d/%s/%s" % (k, dot2(v[0]), dot2(v[1])) for k, v in sorted(self.fs.items())]
        ss = ["%d/%d/%d" % (k, v[0], v[1]) for k, v in sorted(self.ss.items())]
        return "~".join([self.cls, dot2(nodes), ",".join(ae), ",".join(fs), ",".join(ss), dot2(self.doms)])

    def resolve(self, tag, j):
        """impl name index of the j-th registered node in canonical order (None: beyond the end)"""
        if tag == "F":
            ks = sorted((self.f_entry(k), k) for k in self.fs)
        else:
            ks = sorted((self.s_entry(k), k) for k in self.ss)
        return ks[j][1] if j < len(ks) else None


def dot2(xs):
    return ".".join(str(x) for x in xs)


def _reset_class_state():
    """every history starts in a fresh process as far as class-level state goes"""
    from pywhy_graphs.classes.augmented import AugmentedNodeMixin
    d = AugmentedNodeMixin.__dict__.get("domains")
    if isinstance(d, set):
        d.clear()


def impl_trace(case):
    """run the history on the real classes.  returns dict(status=[...], canon=[[...]], raw=[...],
    concrete=[tokens])  (raw has one more element: the empty start)"""
    from pywhy_graphs.classes import AugmentedGraph, AugmentedPAG
    _reset_class_state()
    lab = C.Labels(case.get("fam", "int"))
    for i in range(8):
        lab(i)
    objs, kinds = [], []
    status, canon, raw, conc = [], [], [""], []

    def observe():
        return [Obs(G, lab, k) for G, k in zip(objs, kinds)]
    cur = observe()
    for op in case["ops"]:
        k = op[0]
        ok = True
        tok = None
        skip = False
        try:
            if k == "new":
                objs.append(AugmentedGraph() if op[1] == "a" else AugmentedPAG())
                kinds.append(op[1])
            elif k in ("copy", "alls"):
                if op[1] >= len(objs):
                    ok = False
                elif k == "copy":
                    H = objs[op[1]].copy()
                    objs.append(H)
                    kinds.append(kinds[op[1]])
                elif cur[op[1]].ss and op[2] >= 2:
                    # fixed names ('S', i): the outcome depends on the unspecified names of the
                    # S-nodes already there -> not executed by either side
                    skip = True
                else:
                    from pywhy_graphs.algorithms.multidomain import add_all_snode_combinations
                    H, _ = add_all_snode_combinations(objs[op[1]], op[2])
                    objs.append(H)
                    kinds.append(kinds[op[1]])
            elif op[1] >= len(objs):
                ok = False
                if k in ("rmF", "rmS"):
                    tok = op_token(op, 10 ** 6 + op[2])
            else:
                G = objs[op[1]]
                if k == "addF":
                    ts = [lab(t) for t in op[2]]
                    kw = {} if op[4] is None else {"domain": set(op[4])}
                    G.add_f_node(ts if len(set(op[2])) != len(op[2]) else set(ts), require_unique=bool(op[3]), **kw)
                elif k == "addFs":
                    G.add_f_nodes_from([set(lab(t) for t in ts) for ts in op[2]])
                elif k == "addS":
                    chg = [lab(t) for t in op[3]]
                    G.add_s_node(tuple(op[2]), chg if len(set(op[3])) != len(op[3]) else set(chg))
                elif k in ("rmF", "rmS"):
                    idx = cur[op[1]].resolve(k[2], op[2])
                    if idx is None:
                        idx = 10 ** 6 + op[2]
                    tok = op_token(op, idx)
                    G.remove_node((k[2], idx))
                elif k == "node":
                    G.add_node(lab(op[2]))
                elif k == "edge":
                    et = op[4] if len(op) > 4 else "directed"
                    try:
                        G.add_edge(lab(op[2]), lab(op[3]), edge_type=et)
                    except Exception:
                        pass  # guards among ordinary nodes are not C20's business
                else:
                    raise ValueError("unknown op %r" % (op,))
        except (ValueError, AssertionError) as e:
            if "unknown op" in str(e):
                raise
            ok = False
        except Exception:
            ok = False
        cur = observe()
        status.append("skip" if skip else ("ok" if ok else "err"))
        canon.append([o.canon() for o in cur])
        if not skip:  # the spec decider sees the executed calls only
            raw.append("|".join(o.raw() for o in cur))
            conc.append(tok or op_token(op))
    return {"status": status, "canon": canon, "raw": raw, "concrete": conc}


def valid_line(tr):
    return "c20v ops=%s st=%s tr=%s" % (";".join(tr["concrete"]),
                                        "".join("1" if s == "ok" else "0" for s in tr["status"] if s != "skip"),
                                        ";".join(tr["raw"]))


def parse_model(ans):
    steps = []
    for s in ans.split(";"):
        parts = s.split("|")
        steps.append((parts[0], parts[1:]))
    return steps


def first_diff(case, tr, model):
    """None or (step, what)"""
    ops = case["ops"]
    if len(model) != len(ops):
        return (0, "model answered %d steps for %d ops: %r" % (len(model), len(ops), model[:1]))
    for i, op in enumerate(ops):
        mst, mobs = model[i]
        if op[0] != "edge" and mst != tr["status"][i]:
            return (i, "step %d %r: implementation %s, model %s" % (i, op, tr["status"][i], mst))
        if mobs != tr["canon"][i]:
            for g, (a, b) in enumerate(itertools.zip_longest(tr["canon"][i], mobs)):
                if a != b:
                    return (i, "step %d %r object %d: implementation [%s] model [%s]" % (i, op, g, a, b))
    return None


def evaluate(case, drv):
    """(diff, verdict) for one case through an interactive driver"""
    tr = impl_trace(case)
    model = parse_model(drv.ask(model_line(case["ops"])))
    return first_diff(case, tr, model), drv.ask(valid_line(tr)), tr


# ----------------------------------------------------------------------------- generators
def flags(ops):
    """shape flags of a history (for the evidence and the non-triviality rule)"""
    f = set()
    nF, nS, removedF, removedS, copied, src_of = {}, {}, set(), set(), set(), {}
    n = 0
    for op in ops:
        k = op[0]
        if k == "new":
            n += 1
        elif k in ("copy", "alls") and op[1] < n:
            copied.add(op[1])
            copied.add(n)
            nF[n], nS[n] = nF.get(op[1], 0), nS.get(op[1], 0)
            n += 1
        elif k in ("addF", "addFs", "addS") and op[1] < n:
            g = op[1]
            if k == "addS":
                if g in removedS:
                    f.add("removeS-then-addS")
                nS[g] = nS.get(g, 0) + 1
                if n >= 2:
                    f.add("addS-with-several-live-objects")
            else:
                if g in removedF:
                    f.add("remove-nonlast-F-then-add")
                nF[g] = nF.get(g, 0) + 1
            if g in copied:
                f.add("copy-then-add")
        elif k == "rmF" and op[1] < n:
            g = op[1]
            if nF.get(g, 0) >= 2 and op[2] < nF[g]:
                removedF.add(g)
            if op[2] < nF.get(g, 0):
                nF[g] -= 1
            if g in copied:
                f.add("copy-then-remove")
        elif k == "rmS" and op[1] < n:
            g = op[1]
            if op[2] < nS.get(g, 0):
                nS[g] -= 1
                removedS.add(g)
                f.add("remove-S")
            if g in copied:
                f.add("copy-then-remove")
    if n >= 2:
        f.add("objects>=2")
    return f


ALPHA = []
for _g in (0, 1):
    ALPHA += [["addF", _g, [0], 1, None], ["addF", _g, [1], 1, None], ["addF", _g, [0, 1], 1, None],
              ["rmF", _g, 0], ["rmF", _g, 1], ["addS", _g, [1, 2], [0]], ["rmS", _g, 0]]
ALPHA += [["copy", 0], ["new", "a"], ["alls", 0, 2]]
# deeper on one object with removals (name collisions need add, add, remove, add)
SMALL = [["addF", 0, [0], 0, None], ["addF", 0, [1], 1, None], ["rmF", 0, 0], ["rmF", 0, 1],
         ["addS", 0, [1, 2], []], ["rmS", 0, 0], ["rmS", 0, 1], ["copy", 0], ["addF", 1, [0, 1], 1, None]]


def exh_words(n):
    """every history  prelude ++ w,  w a word of length n over ALPHA, both classes"""
    for cls in ("a", "p"):
        pre = [["new", cls], ["node", 0, 0], ["node", 0, 1]]
        for w in itertools.product(ALPHA, repeat=n):
            yield {"ops": pre + [list(o) for o in w], "src": "exh%d" % n}


def exh_deep(n):
    for cls in ("a", "p"):
        pre = [["new", cls], ["edge", 0, 0, 1, "directed"]]
        for w in itertools.product(SMALL, repeat=n):
            yield {"ops": pre + [list(o) for o in w], "src": "exhdeep%d" % n}


def rand_history(rng, idx):
    """structured random history: <= 20 ops, 3 ordinary nodes, <= 3 live objects"""
    ops = []
    kinds = []
    mode = rng.choice(("mixed", "mixed", "remove-add", "copy", "two-objects", "snodes"))
    length = rng.randint(6, 20)

    def subset(p=0.5, allow_empty=True):
        s = [v for v in range(3) if rng.random() < p]
        if not s and not allow_empty:
            s = [rng.randrange(3)]
        return s
    # prelude: one or two objects, most ordinary nodes present
    kinds.append(rng.choice("ap"))
    ops.append(["new", kinds[0]])
    if mode == "two-objects" or rng.random() < 0.25:
        kinds.append(rng.choice("ap"))
        ops.append(["new", kinds[1]])
    for g in range(len(kinds)):
        for v in range(3):
            if rng.random() < 0.8:
                ops.append(["node", g, v])
    nF = [0] * MAX_OBJS
    nS = [0] * MAX_OBJS
    while len(ops) < length:
        g = rng.randrange(len(kinds))
        r = rng.random()
        w = {"mixed": (0.30, 0.08, 0.14, 0.16, 0.08, 0.08, 0.06, 0.10),
             "remove-add": (0.36, 0.06, 0.06, 0.34, 0.06, 0.04, 0.04, 0.04),
             "copy": (0.30, 0.06, 0.10, 0.14, 0.06, 0.04, 0.04, 0.26),
             "two-objects": (0.26, 0.06, 0.24, 0.12, 0.10, 0.06, 0.04, 0.12),
             "snodes": (0.12, 0.04, 0.36, 0.06, 0.24, 0.04, 0.04, 0.10)}[mode]
        acc, pick = 0.0, 0
        for i, x in enumerate(w):
            acc += x
            if r < acc:
                pick = i
                break
        else:
            pick = 0
        if pick == 0:
            ts = subset(rng.choice((0.3, 0.5, 0.7)))
            if rng.random() < 0.04 and ts:
                ts = ts + [ts[0]]  # duplicate member: must raise
            dom = None if rng.random() < 0.7 else sorted(set(rng.choice(((1,), (2,), (1, 2), (3,)))))
            ops.append(["addF", g, ts, 0 if rng.random() < 0.2 else 1, dom])
            nF[g] += 1
        elif pick == 1:
            ops.append(["addFs", g, [subset(0.5) for _ in range(rng.randint(0, 3))]])
            nF[g] += 1
        elif pick == 2:
            a = rng.randint(1, 3)
            b = rng.randint(1, 4)
            chg = subset(0.4)
            if rng.random() < 0.04 and chg:
                chg = chg + [chg[0]]
            ops.append(["addS", g, [a, b], chg])
            nS[g] += 1
        elif pick == 3:
            hi = max(1, nF[g])
            j = rng.randrange(hi) if rng.random() < 0.92 else hi + rng.randint(0, 2)
            ops.append(["rmF", g, j])
            if j < nF[g]:
                nF[g] -= 1
        elif pick == 4:
            hi = max(1, nS[g])
            j = rng.randrange(hi) if rng.random() < 0.92 else hi + rng.randint(0, 2)
            ops.append(["rmS", g, j])
            if j < nS[g]:
                nS[g] -= 1
        elif pick == 5:
            ops.append(["node", g, rng.randrange(3)])
        elif pick == 6:
            u, v = rng.sample(range(3), 2)
            ops.append(["edge", g, u, v, rng.choice(EDGE_TYPES[kinds[g]])])
        else:
            if len(kinds) >= MAX_OBJS:
                continue
            r2 = rng.random()
            if r2 < 0.62:
                ops.append(["copy", g])
                kinds.append(kinds[g])
                nF[len(kinds) - 1], nS[len(kinds) - 1] = nF[g], nS[g]
            elif r2 < 0.8:
                n = rng.choice((1, 2, 2, 3))
                ops.append(["alls", g, n])
                if nS[g] == 0 or n < 2:
                    kinds.append(kinds[g])
                    nF[len(kinds) - 1], nS[len(kinds) - 1] = nF[g], n * (n - 1) // 2
            else:
                c = rng.choice("ap")
                ops.append(["new", c])
                kinds.append(c)
    fam = (C.Labels.FAMILIES + ("auglike",))[idx % (len(C.Labels.FAMILIES) + 1)]
    ops = ops[:20]
    if fam == "auglike":
        # ordinary nodes NAMED ('F', 0), ('S', 0), ('F', 1): every object gets all three right after it is created
        # (copies inherit them; ordinary nodes are never removed), so on a correct library no generated name can
        # coincide with one of the harness's labels; the history stops before add_all_snode_combinations (fixed names)
        kept, nobj = [], 0
        for o in ops:
            if o[0] == "alls":
                break
            if o[0] == "node":
                continue
            kept.append(o)
            if o[0] == "new":
                kept += [["node", nobj, v] for v in range(3)]
            if o[0] in ("new", "copy"):
                nobj += 1
        ops = kept
    return {"ops": ops, "src": "rnd:" + mode, "fam": fam}


def gen_cases(ctx):
    """corpus, the exhaustive blocks (always completed) and the random stream; a fixed first share of
    the random stream comes before the largest exhaustive blocks, the rest after them (that rest is
    what the soft deadline may cut)"""
    tier, rng = ctx["tier"], ctx["rng"]
    for c in C.load_corpus(PID):
        d = dict(c)
        d["src"] = "corpus"
        yield d
    for n in (1, 2, 3):
        yield from exh_words(n)
    N = 12000 if tier == "quick" else 150000
    first = 4000 if tier == "quick" else 40000
    for i in range(first):
        yield rand_history(rng, i)
    yield from exh_deep(4)
    if tier == "thorough":
        yield from exh_words(4)
        yield from exh_deep(5)
    for i in range(first, N):
        yield rand_history(rng, i)


# ----------------------------------------------------------------------------- run / replay
def _impl_safe(case):
    try:
        return impl_trace(case)
    except Exception as e:  # harness problem, reported as such
        return {"crash": "%s: %s" % (type(e).__name__, e)}


def shrink(case, drv, want_spec_failure):
    """ddmin on the op list, then simplify arguments"""
    def fails(ops):
        c = dict(case, ops=ops)
        try:
            diff, verdict, _ = evaluate(c, drv)
        except Exception:
            return False
        if want_spec_failure:
            return verdict.startswith("bad:")
        return diff is not None
    ops = shrink_ops(case["ops"], fails)
    changed = True
    while changed:
        changed = False
        for i, op in enumerate(ops):
            cands = []
            if op[0] == "addF":
                cands += [op[:2] + [op[2][:j] + op[2][j + 1:]] + op[3:] for j in range(len(op[2]))]
                if op[4] is not None:
                    cands.append(op[:4] + [None])
                if not op[3]:
                    cands.append(op[:3] + [1] + op[4:])
            elif op[0] == "addS":
                cands += [op[:3] + [op[3][:j] + op[3][j + 1:]] for j in range(len(op[3]))]
            elif op[0] == "addFs":
                cands += [op[:2] + [op[2][:j] + op[2][j + 1:]] for j in range(len(op[2]))]
            elif op[0] == "edge":
                cands.append(["node", op[1], op[2]])
            for cnd in cands:
                new = ops[:i] + [cnd] + ops[i + 1:]
                if fails(new):
                    ops = new
                    changed = True
                    break
            if changed:
                break
    return dict(case, ops=ops)


def run(ctx):
    ev, out = ctx["ev"], ctx["out"]
    ev.rule = ("histories of op lists on up to 3 live objects of both classes over 3 ordinary nodes: corpus; exhaustive "
               "(prelude new+2 nodes, then every word of length <=3 (thorough 4) over 17 ops on objects 0/1 incl. copy, new, "
               "add_all_snode_combinations; every word of length 4 (thorough 5) over 9 ops aimed at remove-then-add); "
               "structured random of length <=20 in five modes (remove-add, copy, two-objects, snodes, mixed), 5 label "
               "families, duplicate members, absent targets, removals of absent nodes. After EVERY op EVERY live object is "
               "observed (f_nodes, s_nodes, intervention_sets, graph['F-nodes'], graph['S-nodes'], nodes, children of each "
               "augmented node, domains) and compared with the Lean model; the raw trace is judged by C20.StepOK. "
               "non-trivial = the history removes a non-last F-node (or an S-node) and later adds one to the same object, or "
               "edits an object that is a copy or has been copied, or adds an S-node while >= 2 objects are live")
    ev.assumptions = ["set_f_node and removal of ordinary (target) nodes are never generated (outside the claim)",
                      "edges among ordinary nodes are abstracted in the model; their accept/reject status is not compared",
                      "names of augmented nodes are not compared (validated as fresh via the model-free StepOK decider)",
                      "class-level state is reset at the start of every history (fresh process)",
                      "add_all_snode_combinations is executed only on graphs without S-nodes (or n < 2): it uses fixed names, "
                      "so its outcome otherwise depends on the unspecified names of the existing S-nodes"]
    import time
    bad_spec, bad_corr = [], []
    gen = gen_cases(ctx)
    BATCH = 12000 if ctx["tier"] == "quick" else 24000
    # leave time for shrinking / reporting; the exhaustive part is always completed
    soft_deadline = ctx["deadline"] - (110 if ctx["tier"] == "quick" else 1080)  # t0+40 s / t0+7 min
    truncated = 0
    while True:
        cases = list(itertools.islice(gen, BATCH))
        if not cases:
            break
        if time.time() > soft_deadline and ev.evaluations >= (20000 if ctx["tier"] == "quick" else 40000) and all(c["src"].startswith("rnd") for c in cases):
            truncated += len(cases) + sum(1 for _ in gen)
            break
        models = C.lean_batch([model_line(c["ops"]) for c in cases])
        trs = C.pmap(_impl_safe, cases, chunksize=128)
        crashed = [(c, t) for c, t in zip(cases, trs) if "crash" in t]
        if crashed:
            raise RuntimeError("harness crashed on %r: %s" % (crashed[0][0], crashed[0][1]["crash"]))
        verdicts = C.lean_batch([valid_line(t) for t in trs])
        for case, tr, m, v in zip(cases, trs, models, verdicts):
            fl = flags(case["ops"])
            nontriv = bool(fl & {"remove-nonlast-F-then-add", "removeS-then-addS", "copy-then-add", "copy-then-remove",
                                 "addS-with-several-live-objects"})
            ev.case(case, nontrivial=nontriv, sample_every=20000)
            ev.count("src:" + case["src"])
            for f in fl:
                ev.count("shape:" + f)
            for op in case["ops"]:
                ev.count("op:" + op[0])
            ev.count("steps", len(case["ops"]))
            for st in tr["status"]:
                ev.count("status:" + st)
            diff = first_diff(case, tr, parse_model(m))
            if v != "ok":
                bad_spec.append((case, diff, v))
            elif diff is not None:
                bad_corr.append((case, diff, v))
        del trs, models, verdicts
        if len(bad_spec) + len(bad_corr) > 2000:
            break
    ev.extra["random_histories_not_run_for_time"] = truncated
    ev.extra["exhaustive_part"] = "all words up to the stated length over the stated alphabets, both classes"
    ev.extra["spec_failures"] = len(bad_spec)
    ev.extra["model_disagreements"] = len(bad_corr)
    if not (bad_spec or bad_corr):
        return
    drv = C.Driver()
    try:
        if bad_spec:
            # report one violation per distinct failing clause, smallest first
            seen = set()
            for case, diff, v in sorted(bad_spec, key=lambda x: len(x[0]["ops"])):
                clause = v.split(":")[-1] if v.startswith("bad:") else v
                if clause in seen or len(seen) >= 4:
                    continue
                seen.add(clause)
                small = shrink(case, drv, want_spec_failure=v.startswith("bad:"))
                d2, v2, tr2 = evaluate(small, drv)
                out.violation(small, {"kind": "spec", "spec_verdict": v2, "model_diff": d2 and d2[1],
                                      "implementation_trace": tr2["canon"], "status": tr2["status"],
                                      "lean_model_request": model_line(small["ops"]),
                                      "lean_spec_request": valid_line(tr2), "original_case": case,
                                      "spec_failures_total": len(bad_spec)})
        else:
            case, diff, v = min(bad_corr, key=lambda x: len(x[0]["ops"]))
            small = shrink(case, drv, want_spec_failure=False)
            d2, v2, tr2 = evaluate(small, drv)
            out.corr(small, {"kind": "model-vs-implementation", "detail": d2 and d2[1], "spec_verdict": v2,
                             "implementation_trace": tr2["canon"], "lean_model_request": model_line(small["ops"]),
                             "original_case": case, "disagreements_total": len(bad_corr)})
    finally:
        drv.close()


def replay(ctx, payload):
    case = payload.get("case") or payload.get("correspondence", {}).get("case")
    drv = C.Driver()
    diff, verdict, tr = evaluate(case, drv)
    model = parse_model(drv.ask(model_line(case["ops"])))
    drv.close()
    for i, op in enumerate(case["ops"]):
        print("%2d %-40r impl %-3s %s" % (i, op, tr["status"][i], " | ".join(tr["canon"][i])))
        if i < len(model):
            print("   %-40s modl %-3s %s" % ("", model[i][0], " | ".join(model[i][1])))
    print("spec (C20.StepOK on the implementation trace):", verdict)
    print("model vs implementation:", diff[1] if diff else "equal")
    bad = verdict != "ok" or diff is not None
    print("REPRODUCED" if bad else "NOT-REPRODUCED")
    return 1 if bad else 0
