import Pw.Core.Proto
import Pw.C17.Model
import Pw.C17.Spec
open Proto

namespace C17

/-- `pdsmulti <graph> [L=lag0,lag1,…] mode=model|walk|spec Q=x:y;x:n;…` (`n` = no endpoint).
    Answer per query, joined by `/`: `pds` for `x:n`, else `pds#pds_path#pds_t#pds_t_path`.
    `mode=model`: the literal model of the code; `mode=walk`: the intended search `pdsW`;
    `mode=spec`: the simple-path oracle `pdsDec`. -/
def hMulti : Handler := fun a =>
  let G := a.graph
  let L := a.nats "L"
  let mode := a.get "mode"
  let f := fun x y => if mode == "spec" then pdsDec G x y else if mode == "walk" then pdsW G x y else pds G x y
  let qs := ((a.get "Q").splitOn ";").filter (· ≠ "")
  "/".intercalate <| qs.map fun q =>
    match q.splitOn ":" with
    | [x, y] =>
      let x := x.toNat?.getD 0
      match y.toNat? with
      | none => fmtSet (f x none)
      | some y =>
        let base := f x (some y)
        let inB := fun v => decide (v ∈ bicomp G x y)
        let lagok := fun v => decide (lagOf L v ≤ max (lagOf L x) (lagOf L y))
        fmtSet base ++ "#" ++ fmtSet (base.filter inB) ++ "#" ++ fmtSet (base.filter lagok) ++ "#" ++
          fmtSet ((base.filter inB).filter lagok)
    | _ => "bad-query"

/-- `pdswalk <graph> x= y=<k>|n P=…` → is the node list `x :: P` a walk of `PdsWalk` / a path of `GoodPath` -/
def hValid : Handler := fun a =>
  let G := a.graph
  let x := a.nat "x"
  let y := a.nat? "y"
  fmtBool (decide (GoodPath G x y (x :: a.nats "P")))

def handlers : List (String × Handler) := [("pdsmulti", hMulti), ("pdsgoodpath", hValid)]
end C17
