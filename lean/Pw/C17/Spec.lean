import Pw.C16.Base
import Pw.C17.Model
open C16

/-! # C17 specification

"pds(G, x) is exactly the set of nodes v other than x joined to x by a path on which every
consecutive triple (a, b, c) has b a collider or a, b, c pairwise adjacent; with an endpoint y it is
the same set computed over paths that avoid y, without y, and empty when y is not connected to x.
pds_path(G, x, y) is that set intersected with the biconnected component of the adjacency graph
containing the x-y edge, and pds_t / pds_t_path additionally keep only nodes whose absolute lag does
not exceed that of x and y; in particular the sets are never smaller than the definition." -/
namespace C17

/-- the condition on a consecutive triple `(a, b, c)` of a path: `b` a collider or `a, b, c` pairwise
    adjacent (`a–b` and `b–c` are adjacent because they are consecutive) -/
def TripleOK (G : MG) (a b c : Nat) : Prop := Collider G a b c ∨ Adj G a c

instance (G : MG) (a b c : Nat) : Decidable (TripleOK G a b c) := by unfold TripleOK; infer_instance

/-- every consecutive triple of the list satisfies `TripleOK` -/
def TriplesOK (G : MG) : List Nat → Prop
  | a :: b :: c :: l => TripleOK G a b c ∧ TriplesOK G (b :: c :: l)
  | _ => True

instance (G : MG) : ∀ l, Decidable (TriplesOK G l)
  | [] => isTrue trivial
  | [_] => isTrue trivial
  | [_, _] => isTrue trivial
  | a :: b :: c :: l =>
    have := instDecidableTriplesOK G (b :: c :: l)
    by unfold TriplesOK; infer_instance

/-- `a` and `b` are connected in the adjacency graph -/
def Conn (G : MG) (a b : Nat) : Prop := ∃ l, ChainP (Adj G) (a :: l) ∧ lastOf a l = b

/-- does the optional endpoint occur in the list -/
def Avoids (y : Option Nat) (p : List Nat) : Prop := ∀ y', y = some y' → y' ∉ p

instance (y : Option Nat) (p : List Nat) : Decidable (Avoids y p) := by
  unfold Avoids
  cases y with
  | none => exact isTrue (by intro _ h; cases h)
  | some y' =>
    exact if h : y' ∈ p then isFalse (fun H => H y' rfl h) else isTrue (by intro _ e; cases e; exact h)

/-- `p` is a path of the definition: simple, from `x`, at least one edge, avoiding `y`, all triples ok -/
def GoodPath (G : MG) (x : Nat) (y : Option Nat) (p : List Nat) : Prop :=
  IsPath G p ∧ p.head? = some x ∧ 2 ≤ p.length ∧ Avoids y p ∧ TriplesOK G p

instance (G : MG) (x : Nat) (y : Option Nat) (p : List Nat) : Decidable (GoodPath G x y p) := by
  unfold GoodPath; infer_instance

/-- **the property's PATH definition** of `pds(G, x, y)` -/
def PdsDef (G : MG) (x : Nat) (y : Option Nat) (v : Nat) : Prop :=
  (∀ y', y = some y' → Conn G x y') ∧ ∃ p, GoodPath G x y p ∧ p.getLast? = some v

/-- **oracle**: enumerate every simple path from `x` -/
def pdsDec (G : MG) (x : Nat) (y : Option Nat) : List Nat :=
  let ps := simplePaths G x
  if (match y with
      | none => true
      | some y' => ps.any fun p => decide (p.getLast? = some y')) then
    (ps.filter fun p => decide (GoodPath G x y p)).filterMap (·.getLast?)
  else []

/-- no immediate backtracking: `w_{i+2} ≠ w_i` -/
def NoBacktrack : List Nat → Prop
  | a :: b :: c :: l => c ≠ a ∧ NoBacktrack (b :: c :: l)
  | _ => True

instance : ∀ l, Decidable (NoBacktrack l)
  | [] => isTrue trivial
  | [_] => isTrue trivial
  | [_, _] => isTrue trivial
  | a :: b :: c :: l =>
    have := instDecidableNoBacktrack (b :: c :: l)
    by unfold NoBacktrack; infer_instance

/-- **what the edge-state BFS computes**: ends of *walks* from `x` that never return to `x`, never touch
    `y`, never step straight back, and whose consecutive triples are all ok -/
def PdsWalk (G : MG) (x : Nat) (y : Option Nat) (v : Nat) : Prop :=
  ∃ l, l ≠ [] ∧ ChainP (Adj G) (x :: l) ∧ lastOf x l = v ∧ x ∉ l ∧ Avoids y l ∧
    NoBacktrack (x :: l) ∧ TriplesOK G (x :: l)

/-- `w` lies in the biconnected component of the adjacency graph that contains the edge x–y: it is an
    endpoint, or it lies on a simple path from `x` to `y` with at least two edges (equivalently on a
    simple cycle through the edge) -/
def InBicomp (G : MG) (x y w : Nat) : Prop :=
  Adj G x y ∧ (w = x ∨ w = y ∨ ∃ p, IsPath G p ∧ p.head? = some x ∧ p.getLast? = some y ∧ 3 ≤ p.length ∧ w ∈ p)

/-- the lag filter of `pds_t` / `pds_t_path` -/
def LagOK (L : List Nat) (x y v : Nat) : Prop := lagOf L v ≤ max (lagOf L x) (lagOf L y)

end C17
