import Pw.C10.Bridge
open Closure

/-! # C10: the structure sentence implies the separation sentence

If a returned graph `R` passes the validator the harness runs on the implementation's output
(`Struct G R ∧ Exact G R`, i.e. answer `T` of `c10valid`), then separation is preserved for *all*
X, Y, Z of original nodes – for any `R`, not only for the model's output.  So on inputs where the
harness only samples separation queries, the second sentence already follows from the validated
first one. -/
namespace C10
variable {α : Type} [DecidableEq α]

theorem eq_of_mem_pairwise {β : Type} {S : β → β → Prop} (hsymm : ∀ a b, S a b → S b a) :
    ∀ {l : List β}, l.Pairwise (fun a b => ¬ S a b) → ∀ a ∈ l, ∀ b ∈ l, S a b → a = b
  | [], _, _, ha, _, _, _ => by cases ha
  | x :: l, hpw, a, ha, b, hb, hs => by
    simp only [List.pairwise_cons] at hpw
    rcases List.mem_cons.mp ha with rfl | ha' <;> rcases List.mem_cons.mp hb with rfl | hb'
    · rfl
    · exact absurd hs (hpw.1 _ hb')
    · exact absurd (hsymm _ _ hs) (hpw.1 _ ha')
    · exact eq_of_mem_pairwise hsymm hpw.2 a ha' b hb' hs

/-- a node that is the latent of two bidirected edges: the edges join the same pair -/
theorem same_pair_of_newNodeFor {G : LG α} {R : DG α} {u : α} {e e' : α × α}
    (h : NewNodeFor G R u e) (h' : NewNodeFor G R u e') :
    (e.1 = e'.1 ∧ e.2 = e'.2) ∨ (e.1 = e'.2 ∧ e.2 = e'.1) := by
  have c1 := h'.2.2.2.2.2 _ h.2.2.2.1 rfl
  have c2 := h'.2.2.2.2.2 _ h.2.2.2.2.1 rfl
  have d1 := h.2.2.2.2.2 _ h'.2.2.2.1 rfl
  have d2 := h.2.2.2.2.2 _ h'.2.2.2.2.1 rfl
  simp only at c1 c2 d1 d2
  grind

/-- the (latent, edge) pairs read off a validated result -/
def asgV (G : LG α) (R : DG α) : List (α × (α × α)) :=
  G.bi.flatMap fun e => (R.names.filter fun u => decide (NewNodeFor G R u e)).map fun u => (u, e)

theorem mem_asgV {G : LG α} {R : DG α} {p : α × (α × α)} :
    p ∈ asgV G R ↔ p.2 ∈ G.bi ∧ p.1 ∈ R.names ∧ NewNodeFor G R p.1 p.2 := by
  simp only [asgV, List.mem_flatMap, List.mem_map, List.mem_filter, decide_eq_true_eq]
  constructor
  · rintro ⟨e, he, u, ⟨hu, hn⟩, rfl⟩; exact ⟨he, hu, hn⟩
  · rintro ⟨he, hu, hn⟩; exact ⟨p.2, he, p.1, ⟨hu, hn⟩, rfl⟩

theorem isConv_of_valid {G : LG α} {R : DG α} (hwf : G.WF) (hbd : G.BiDistinct) (hcl : R.Closed)
    (hs : Struct G R) (hx : Exact G R) (enc : α → Nat)
    (henc : ∀ a ∈ R.names, ∀ b ∈ R.names, enc a = enc b → a = b) :
    IsConv (G.encode enc) (R.encode enc) (encAsg enc (asgV G R)) := by
  obtain ⟨_, hkept, hdir, hlat⟩ := hs
  obtain ⟨_, hnodes, hedges, _⟩ := hx
  have hVR : ∀ v ∈ G.names, v ∈ R.names := by
    intro v hv
    obtain ⟨p, hp, rfl⟩ := List.mem_map.mp hv
    exact List.mem_map.mpr ⟨p, hkept p hp, rfl⟩
  refine { wf := ?_, un := rfl, fn := ?_, fresh := ?_, bi_asg := ?_, asg_bi := ?_, nodes := ?_,
           dir := ?_, rbi := rfl, run := rfl }
  · refine ⟨?_, ?_, ?_⟩
    · intro e he
      obtain ⟨d, hd, rfl⟩ := List.mem_map.mp he
      exact ⟨List.mem_map.mpr ⟨d.1, (hwf.dir_mem d hd).1, rfl⟩,
        List.mem_map.mpr ⟨d.2, (hwf.dir_mem d hd).2, rfl⟩⟩
    · intro e he
      obtain ⟨d, hd, rfl⟩ := List.mem_map.mp he
      exact ⟨List.mem_map.mpr ⟨d.1, (hwf.bi_mem d hd).1, rfl⟩,
        List.mem_map.mpr ⟨d.2, (hwf.bi_mem d hd).2, rfl⟩⟩
    · intro e he; cases he
  · intro u e e' he he'
    obtain ⟨p, hp, hpe⟩ := List.mem_map.mp he
    obtain ⟨p', hp', hpe'⟩ := List.mem_map.mp he'
    obtain ⟨hb, hu, hn⟩ := mem_asgV.mp hp
    obtain ⟨hb', hu', hn'⟩ := mem_asgV.mp hp'
    have huu : p.1 = p'.1 := henc _ hu _ hu' (by rw [(Prod.mk.inj hpe).1, (Prod.mk.inj hpe').1])
    rw [← huu] at hn'
    have hee : p.2 = p'.2 := by
      have hsym : ∀ a b : α × α, ((a.1 = b.1 ∧ a.2 = b.2) ∨ (a.1 = b.2 ∧ a.2 = b.1)) →
          ((b.1 = a.1 ∧ b.2 = a.2) ∨ (b.1 = a.2 ∧ b.2 = a.1)) := by
        rintro a b (⟨x, y⟩ | ⟨x, y⟩)
        · exact Or.inl ⟨x.symm, y.symm⟩
        · exact Or.inr ⟨y.symm, x.symm⟩
      exact eq_of_mem_pairwise
        (S := fun e e' : α × α => (e.1 = e'.1 ∧ e.2 = e'.2) ∨ (e.1 = e'.2 ∧ e.2 = e'.1))
        hsym (l := G.bi) hbd p.2 hb p'.2 hb' (same_pair_of_newNodeFor hn hn')
    rw [← (Prod.mk.inj hpe).2, ← (Prod.mk.inj hpe').2, hee]
  · intro u e he hmem
    obtain ⟨p, hp, hpe⟩ := List.mem_map.mp he
    obtain ⟨_, hu, hn⟩ := mem_asgV.mp hp
    obtain ⟨v, hv, hvu⟩ := List.mem_map.mp hmem
    have : v = p.1 := henc _ (hVR v hv) _ hu (by rw [hvu, (Prod.mk.inj hpe).1])
    exact hn.2.1 (this ▸ hv)
  · intro e he
    obtain ⟨b, hb, rfl⟩ := List.mem_map.mp he
    obtain ⟨u, hu, hn⟩ := hlat b hb
    exact ⟨enc u, List.mem_map.mpr ⟨(u, b), mem_asgV.mpr ⟨hb, hu, hn⟩, rfl⟩⟩
  · intro u e he
    obtain ⟨p, hp, hpe⟩ := List.mem_map.mp he
    rw [← (Prod.mk.inj hpe).2]
    exact List.mem_map.mpr ⟨p.2, (mem_asgV.mp hp).1, rfl⟩
  · intro v
    show v ∈ R.names.map enc ↔ v ∈ G.names.map enc ∨ _
    constructor
    · intro h
      obtain ⟨w, hw, rfl⟩ := List.mem_map.mp h
      rcases hnodes w hw with hG | ⟨e, he, hn⟩
      · exact Or.inl (List.mem_map.mpr ⟨w, hG, rfl⟩)
      · exact Or.inr ⟨_, List.mem_map.mpr ⟨(w, e), mem_asgV.mpr ⟨he, hw, hn⟩, rfl⟩⟩
    · rintro (h | ⟨e, he⟩)
      · obtain ⟨w, hw, rfl⟩ := List.mem_map.mp h
        exact List.mem_map.mpr ⟨w, hVR w hw, rfl⟩
      · obtain ⟨p, hp, hpe⟩ := List.mem_map.mp he
        exact List.mem_map.mpr ⟨p.1, (mem_asgV.mp hp).2.1, (Prod.mk.inj hpe).1⟩
  · intro a c
    show (a, c) ∈ R.edges.map _ ↔ (a, c) ∈ G.dir.map _ ∨ _
    constructor
    · intro h
      obtain ⟨q, hq, hqe⟩ := List.mem_map.mp h
      obtain ⟨hqa, hqc⟩ := Prod.mk.inj hqe
      rcases hedges q hq with hd | hnot
      · exact Or.inl (List.mem_map.mpr ⟨q, hd, hqe⟩)
      · rcases hnodes q.1 (hcl q hq).1 with hG | ⟨e, he, hn⟩
        · exact absurd hG hnot
        · right
          refine ⟨(enc e.1, enc e.2), List.mem_map.mpr ⟨(q.1, e), mem_asgV.mpr ⟨he, (hcl q hq).1, hn⟩, ?_⟩, ?_⟩
          · rw [← hqa]
          · rcases hn.2.2.2.2.2 q hq rfl with h1 | h1
            · exact Or.inl (by rw [← hqc, h1])
            · exact Or.inr (by rw [← hqc, h1])
    · rintro (h | ⟨e, he, hc⟩)
      · obtain ⟨q, hq, hqe⟩ := List.mem_map.mp h
        exact List.mem_map.mpr ⟨q, hdir q hq, hqe⟩
      · obtain ⟨p, hp, hpe⟩ := List.mem_map.mp he
        obtain ⟨_, _, hn⟩ := mem_asgV.mp hp
        obtain ⟨hpa, hpe2⟩ := Prod.mk.inj hpe
        subst hpa; subst hpe2
        rcases hc with rfl | rfl
        · exact List.mem_map.mpr ⟨(p.1, p.2.1), hn.2.2.2.1, rfl⟩
        · exact List.mem_map.mpr ⟨(p.1, p.2.2), hn.2.2.2.2.1, rfl⟩

/-- **validated structure ⇒ separation, model level**: for every graph `R` accepted by the
    validator, the C01 model answers the same on `R` and on `G` -/
theorem mSeparated_of_valid {G : LG α} {R : DG α} (hwf : G.WF) (hbd : G.BiDistinct) (hcl : R.Closed)
    (hs : Struct G R) (hx : Exact G R) (enc : α → Nat)
    (henc : ∀ a ∈ R.names, ∀ b ∈ R.names, enc a = enc b → a = b)
    (X Y Z : List Nat) (hX : ∀ x ∈ X, x ∈ (G.encode enc).nodes) (hY : ∀ y ∈ Y, y ∈ (G.encode enc).nodes)
    (hZ : ∀ z ∈ Z, z ∈ (G.encode enc).nodes) :
    MG.mSeparated (R.encode enc) X Y Z = MG.mSeparated (G.encode enc) X Y Z :=
  mSeparated_of_isConv (isConv_of_valid hwf hbd hcl hs hx enc henc) X Y Z hX hY hZ

/-- **validated structure ⇒ separation, path level** -/
theorem sepPreserved_of_valid {G : LG α} {R : DG α} (hwf : G.WF) (hbd : G.BiDistinct)
    (hsl : G.NoSelfLoop) (hcl : R.Closed) (hs : Struct G R) (hx : Exact G R) (enc : α → Nat)
    (henc : ∀ a ∈ R.names, ∀ b ∈ R.names, enc a = enc b → a = b) :
    SepPreserved (G.encode enc) (R.encode enc) := by
  refine sepPreserved_of_isConv (isConv_of_valid hwf hbd hcl hs hx enc henc) ?_
  apply noSelfLoop_encode hwf hsl enc
  intro a ha b hb
  have hVR : ∀ v ∈ G.names, v ∈ R.names := by
    intro v hv
    obtain ⟨p, hp, rfl⟩ := List.mem_map.mp hv
    exact List.mem_map.mpr ⟨p, hs.2.1 p hp, rfl⟩
  exact henc a (hVR a ha) b (hVR b hb)

end C10
