import Pw.T3.Label
import Pw.T3.Chain
open Closure

/-! # The labelled graph of `label_edges` is closed under Meek's rules; reversible edges are reversible -/
namespace T3
open C04

/-- `k -> x` is an edge labelled compelled / reversible by `label_edges` -/
def Cp (G : MG) (topo : List Nat) (k x : Nat) : Prop := CpAt G (labels G topo) x k
def Rv (G : MG) (topo : List Nat) (k x : Nat) : Prop := (k, x) ∈ G.dir ∧ labels G topo (k, x) = .reversible

variable {G : MG} {topo : List Nat}

theorem cp_or_rv {a b : Nat} (h : (a, b) ∈ G.dir) : Cp G topo a b ∨ Rv G topo a b := by
  have := labels_known G topo _ h
  cases hl : labels G topo (a, b) with
  | unknown => exact absurd hl this
  | compelled => exact Or.inl ⟨h, hl⟩
  | reversible => exact Or.inr ⟨h, hl⟩

theorem not_cp_rv {a b : Nat} (h1 : Cp G topo a b) (h2 : Rv G topo a b) : False := by
  have := h1.2.symm.trans h2.2
  cases this

/-- **J**: the two ends of a reversible edge have the same compelled parents -/
theorem rv_same_cp (ht : IsTopo G topo) : ∀ (n : Nat) (u v : Nat), pos topo v < n → Rv G topo u v →
    ∀ k, Cp G topo k u ↔ Cp G topo k v := by
  intro n
  induction n with
  | zero => intro u v h; cases h
  | succ n ih =>
    intro u v hv hr k
    obtain ⟨x, hc⟩ := labels_char G topo ht hr.1
    have hpx : pos topo x < pos topo v := ht.forward x v hc.xy
    rcases hc.cases with ⟨_, hall⟩ | ⟨_, _, hall⟩ | ⟨hp, hz, hall⟩
    · exact (not_cp_rv ⟨hr.1, hall u hr.1⟩ hr).elim
    · exact (not_cp_rv ⟨hr.1, hall u hr.1⟩ hr).elim
    · have hvx : ∀ k, Cp G topo k v ↔ Cp G topo k x := by
        intro k
        constructor
        · intro hk
          apply Classical.byContradiction
          intro hn
          exact not_cp_rv hk ⟨hk.1, (hall k hk.1).2 hn⟩
        · intro hk
          exact ⟨hp k hk, (hall k (hp k hk)).1 hk⟩
      by_cases hux : u = x
      · rw [hux]; exact (hvx k).symm
      · have hux' : (u, x) ∈ G.dir := by
          rcases hz u hr.1 with e | e
          · exact absurd e hux
          · exact e
        have hru : Rv G topo u x := by
          rcases cp_or_rv (topo := topo) hux' with c | c
          · exact (not_cp_rv ⟨hr.1, (hall u hr.1).1 c⟩ hr).elim
          · exact c
        exact (ih u x (by omega) hru k).trans (hvx k).symm

theorem rv_cp (ht : IsTopo G topo) {u v : Nat} (hr : Rv G topo u v) (k : Nat) :
    Cp G topo k u ↔ Cp G topo k v :=
  rv_same_cp ht _ u v (Nat.lt_succ_self _) hr k

theorem mem_cpdag_dir {a b : Nat} : (a, b) ∈ (dagToCpdag G topo).dir ↔ Cp G topo a b := by
  simp [dagToCpdag, Cp, CpAt]

theorem mem_cpdag_un {a b : Nat} : (a, b) ∈ (dagToCpdag G topo).un ↔ Rv G topo a b := by
  simp [dagToCpdag, Rv]

theorem hasUn_cpdag {a b : Nat} :
    C08.HasUn (dagToCpdag G topo) a b ↔ Rv G topo a b ∨ Rv G topo b a := by
  simp only [C08.HasUn, mem_cpdag_un]

theorem hasUn_cp (ht : IsTopo G topo) {i j : Nat} (hu : C08.HasUn (dagToCpdag G topo) i j) (k : Nat) :
    Cp G topo k i ↔ Cp G topo k j := by
  rcases hasUn_cpdag.mp hu with h | h
  · exact rv_cp ht h k
  · exact (rv_cp ht h k).symm

theorem no2 (hd : IsDag G) {a b : Nat} (h1 : (a, b) ∈ G.dir) (h2 : (b, a) ∈ G.dir) : False :=
  hd.acyclic a b h1 (MG.Anc.step h2 (MG.Anc.refl a))

/-- the labelled graph is closed under R1–R4 -/
theorem cpdag_closed (ht : IsTopo G topo) (hd : IsDag G) : C08.MeekClosed (dagToCpdag G topo) := by
  intro i j hu
  refine ⟨?_, ?_, ?_, ?_⟩
  · rintro ⟨k, hk, hn⟩
    have := (hasUn_cp ht hu k).mp (mem_cpdag_dir.mp hk)
    exact hn (Or.inl (mem_cpdag_dir.mpr this))
  · rintro ⟨k, hik, hkj⟩
    have := (hasUn_cp ht hu k).mpr (mem_cpdag_dir.mp hkj)
    exact no2 hd this.1 (mem_cpdag_dir.mp hik).1
  · rintro ⟨k, l, _, hik, _, hkj, _, _⟩
    have hki : Cp G topo k i := (hasUn_cp ht hu k).mpr (mem_cpdag_dir.mp hkj)
    rcases hasUn_cpdag.mp hik with h | h
    · exact no2 hd h.1 hki.1
    · exact not_cp_rv hki h
  · rintro ⟨k, l, _, hik, hkl, hlj, _⟩
    have hli : Cp G topo l i := (hasUn_cp ht hu l).mpr (mem_cpdag_dir.mp hlj)
    have hlk : Cp G topo l k := (hasUn_cp ht hik l).mp hli
    exact no2 hd hlk.1 (mem_cpdag_dir.mp hkl).1

theorem cpdag_simple (hd : IsDag G) : C08.Simple (dagToCpdag G topo) := by
  intro a b h
  have h' := mem_cpdag_dir.mp h
  exact ⟨fun u => not_cp_rv h' (mem_cpdag_un.mp u), fun u => no2 hd h'.1 (mem_cpdag_un.mp u).1⟩

/-- the DAG is a consistent extension (in the sense of C08) of its labelled graph -/
theorem cpdag_ext (ht : IsTopo G topo) (hd : IsDag G) : C08.ConsistentExt (dagToCpdag G topo) G := by
  obtain ⟨_, _, _, _, _, _, hskel⟩ := dagToCpdag_struct G topo hd.plain.1
  refine ⟨rfl, hd.plain.1, hd.acyclic, fun a b => (hskel a b).symm, ?_, ?_⟩
  · rintro ⟨a, b⟩ he; exact (mem_cpdag_dir.mp he).1
  · intro a c b
    constructor
    · intro hv
      have hv' : C05.VStruct G a c b := hv
      exact ⟨mem_cpdag_dir.mpr ⟨hv.1, vstruct_labelled_compelled G topo ht hv'⟩,
        mem_cpdag_dir.mpr ⟨hv.2.1, vstruct_labelled_compelled G topo ht (vstruct_symm hv')⟩,
        hv.2.2.1, fun s => hv.2.2.2 ((hskel a b).mp s)⟩
    · rintro ⟨h1, h2, hab, hn⟩
      exact ⟨(mem_cpdag_dir.mp h1).1, (mem_cpdag_dir.mp h2).1, hab, fun s => hn ((hskel a b).mpr s)⟩

theorem cpdag_ctx (ht : IsTopo G topo) (hd : IsDag G) : Ctx (dagToCpdag G topo) G :=
  ⟨cpdag_simple hd, cpdag_ext ht hd, cpdag_closed ht hd⟩

/-- a consistent extension (C08) of the labelled graph is Markov equivalent to the DAG -/
theorem markov_of_ext (ht : IsTopo G topo) (hd : IsDag G) {D' : MG}
    (hD' : C08.ConsistentExt (dagToCpdag G topo) D') : MarkovEquiv G D' := by
  have hG := cpdag_ext ht hd
  refine ⟨fun v => by rw [hD'.nodes]; exact Iff.rfl, ?_, ?_⟩
  · intro a b; exact (hD'.skel a b).trans (hG.skel a b).symm
  · intro a c b; exact (hD'.vstruct a c b).trans (hG.vstruct a c b).symm

/-- **completeness of `label_edges`**: an edge labelled reversible is not compelled -/
theorem rv_not_compelled (ht : IsTopo G topo) (hd : IsDag G) {a b : Nat} (hr : Rv G topo a b) :
    ¬ Compelled G a b := by
  intro hc
  have hu : C08.HasUn (dagToCpdag G topo) a b := Or.inl (mem_cpdag_un.mpr hr)
  obtain ⟨D', hD', hba, hbi, hci⟩ := (cpdag_ctx ht hd).both_plain hu
  have hdag : IsDag D' := ⟨⟨hD'.noUn, hbi, hci⟩, hD'.acyclic⟩
  have hab := hc D' hdag (markov_of_ext ht hd hD')
  exact hD'.acyclic a b hab (MG.Anc.step hba (MG.Anc.refl _))

end T3
