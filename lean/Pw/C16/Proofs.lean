import Pw.C16.Model
import Pw.C16.Spec
open Closure

/-! # C16 theorems: model = specification, for every graph and every query -/
namespace C16

/-! ## `is_semi_directed_path` -/

theorem hasEdgeAny_iff_adj {G : MG} (hc : CircOK G) {u v : Nat} (hna : ¬ Arrow G v u) :
    HasEdgeAny G u v ↔ Adj G u v := by
  unfold HasEdgeAny Adj
  unfold Arrow at hna
  constructor
  · rintro (h | h | h | h | h | h) <;> simp [h]
  · rintro (h | h | h | h | h | h | h | h)
    · simp [h]
    · exact absurd (Or.inl h) hna
    · simp [h]
    · simp [h]
    · simp [h]
    · simp [h]
    · simp [h]
    · rcases hc _ h with h' | h'
      · exact Or.inr (Or.inl h')
      · exact Or.inl h'

theorem edgesOK_iff {G : MG} (hc : CircOK G) (p : List Nat) : edgesOK G p = true ↔ ChainP (Hop G) p := by
  induction p with
  | nil => simp [edgesOK]
  | cons u p ih =>
    cases p with
    | nil => simp [edgesOK]
    | cons v rest =>
      rw [edgesOK, chainP_cons_cons]
      by_cases ha : Arrow G v u
      · simp [ha, Hop]
      · simp only [ha, if_false]
        by_cases he : HasEdgeAny G u v
        · simp only [he, not_true_eq_false, if_false, ih, Hop, (hasEdgeAny_iff_adj hc ha).mp he, ha,
            not_false_eq_true, and_self, true_and]
        · have : ¬ Adj G u v := fun h => he ((hasEdgeAny_iff_adj hc ha).mpr h)
          simp [he, Hop, this]

/-- ★ `is_semi_directed_path(G, nodes)` is `True` exactly for the semi-directed paths of the
    specification (on graphs whose pairs carry one of the property's edge kinds) -/
theorem isSemiDirectedPath_iff {G : MG} (hc : CircOK G) (p : List Nat) :
    isSemiDirectedPath G p = true ↔ SemiDirected G p := by
  unfold isSemiDirectedPath SemiDirected
  match p with
  | [] => simp
  | [a] => simp
  | a :: b :: rest =>
    show (if ¬ (∀ n ∈ a :: b :: rest, n ∈ G.nodes) then false
          else if ¬ (a :: b :: rest).Nodup then false else edgesOK G (a :: b :: rest)) = true ↔ _
    by_cases h1 : ∀ n ∈ a :: b :: rest, n ∈ G.nodes
    · rw [if_neg (fun hn => hn h1)]
      by_cases h2 : (a :: b :: rest).Nodup
      · rw [if_neg (fun hn => hn h2), edgesOK_iff hc]
        exact ⟨fun h => ⟨by simp, h1, h2, h⟩, fun h => h.2.2.2⟩
      · rw [if_pos h2]
        exact ⟨fun h => Bool.noConfusion h, fun h => absurd h.2.2.1 h2⟩
    · rw [if_pos h1]
      exact ⟨fun h => Bool.noConfusion h, fun h => absurd h.2.1 h1⟩

/-! ## `all_semi_directed_paths` -/

/-- the paths the DFS still has to produce from the state `visited = (prev :: before).reverse` with
    `rem` edges left -/
def Ext (G : MG) (T : List Nat) (rem prev : Nat) (before p : List Nat) : Prop :=
  ∃ ext, p = (prev :: before).reverse ++ ext ∧ ext ≠ [] ∧ ext.length ≤ rem ∧ (∀ v ∈ ext, v ∈ G.nodes) ∧
    ChainP (Hop G) (prev :: ext) ∧ ext.Nodup ∧ (∀ v ∈ ext, v ∉ prev :: before) ∧ lastOf prev ext ∈ T

theorem filter_dropWhile {α} (sk f : α → Bool) (h : ∀ a, sk a = true → f a = false) (l : List α) :
    (l.dropWhile sk).filter f = l.filter f := by
  induction l with
  | nil => rfl
  | cons a l ih =>
    rw [List.dropWhile_cons]
    by_cases hs : sk a = true
    · simp [hs, ih, h a hs]
    · simp [hs]

/-- the `len(visited) == cutoff` branch yields exactly the admissible targets among *all* neighbours -/
theorem dfs_one (G : MG) (T : List Nat) (prev : Nat) (before : List Nat) :
    dfs G T 1 prev before =
      ((nbrs G prev).filter fun t =>
          decide (t ∈ T) && decide (t ∉ prev :: before) && !decide (Arrow G t prev)).map
        fun t => (t :: prev :: before).reverse := by
  rw [dfs]
  have key := filter_dropWhile (skip G (prev :: before) prev)
    (fun t => decide (t ∈ T) && decide (t ∉ prev :: before) && !decide (Arrow G t prev))
    (by intro a h; simp only [skip, Bool.and_eq_true, decide_eq_true_eq] at h; simp [h.1]) (nbrs G prev)
  rw [← key]
  cases List.dropWhile (skip G (prev :: before) prev) (nbrs G prev) <;> rfl

theorem lastOf_ne_of_nodup {a : Nat} {l : List Nat} (hl : l ≠ []) (hn : (a :: l).Nodup) : lastOf a l ≠ a := by
  cases l with
  | nil => exact absurd rfl hl
  | cons b l =>
    rw [lastOf_cons]
    intro h
    have : a ∈ b :: l := h ▸ lastOf_mem
    exact (List.nodup_cons.mp hn).1 this

theorem lastOf_mem_tail {a : Nat} {l : List Nat} (hl : l ≠ []) : lastOf a l ∈ l := by
  cases l with
  | nil => exact absurd rfl hl
  | cons b l => rw [lastOf_cons]; exact lastOf_mem

theorem mem_dfs (G : MG) (T : List Nat) : ∀ (rem prev : Nat) (before p : List Nat),
    p ∈ dfs G T rem prev before ↔ Ext G T rem prev before p
  | 0, prev, before, p => by
    simp only [dfs, List.not_mem_nil, false_iff]
    rintro ⟨ext, -, hne, hlen, -⟩
    exact hne (List.eq_nil_of_length_eq_zero (by omega))
  | 1, prev, before, p => by
    rw [dfs_one]
    simp only [List.mem_map, List.mem_filter, Bool.and_eq_true, decide_eq_true_eq, Bool.not_eq_eq_eq_not,
      Bool.not_true, decide_eq_false_iff_not, mem_nbrs]
    constructor
    · rintro ⟨t, ⟨⟨htn, hadj⟩, ⟨htT, htv⟩, hna⟩, rfl⟩
      refine ⟨[t], by simp, by simp, by simp, by simpa using htn, ⟨⟨hadj, hna⟩, trivial⟩, by simp, ?_, by simpa using htT⟩
      intro v hv; simp only [List.mem_singleton] at hv; subst hv; exact htv
    · rintro ⟨ext, rfl, hne, hlen, hnodes, hch, -, hdis, hlast⟩
      match ext, hne, hlen with
      | [t], _, _ =>
        refine ⟨t, ⟨⟨hnodes t (by simp), hch.1.1⟩, ⟨by simpa using hlast, hdis t (by simp)⟩, hch.1.2⟩, by simp⟩
      | _ :: _ :: _, _, hl => simp at hl
  | rem + 2, prev, before, p => by
    rw [dfs]
    simp only [List.mem_flatMap]
    constructor
    · rintro ⟨nbr, hnbr, hp⟩
      rw [mem_nbrs] at hnbr
      by_cases hsk : skip G (prev :: before) prev nbr = true
      · simp [hsk] at hp
      · simp only [hsk, Bool.false_eq_true, if_false] at hp
        by_cases hvis : nbr ∈ prev :: before
        · simp [hvis] at hp
        · simp only [hvis, if_false, List.mem_append] at hp
          have hna : ¬ Arrow G nbr prev := by
            intro ha; apply hsk; simp [skip, ha, hvis]
          rcases hp with hp | hp
          · by_cases hT : nbr ∈ T
            · simp only [hT, if_true, List.mem_singleton] at hp
              subst hp
              refine ⟨[nbr], by simp, by simp, by simp, by simpa using hnbr.1, ⟨⟨hnbr.2, hna⟩, trivial⟩,
                by simp, ?_, by simpa using hT⟩
              intro v hv; simp only [List.mem_singleton] at hv; subst hv; exact hvis
            · simp [hT] at hp
          · split at hp
            · obtain ⟨ext, rfl, hne, hlen, hnodes, hch, hnd, hdis, hlast⟩ :=
                (mem_dfs G T (rem + 1) nbr (prev :: before) p).mp hp
              refine ⟨nbr :: ext, by simp, by simp, by simp; omega, ?_, ⟨⟨hnbr.2, hna⟩, hch⟩, ?_, ?_, by simpa using hlast⟩
              · intro v hv
                rcases List.mem_cons.mp hv with rfl | hv
                · exact hnbr.1
                · exact hnodes v hv
              · exact List.nodup_cons.mpr ⟨fun h => hdis nbr h List.mem_cons_self, hnd⟩
              · intro v hv
                rcases List.mem_cons.mp hv with rfl | hv
                · exact hvis
                · intro h; exact hdis v hv (List.mem_cons_of_mem _ h)
            · simp at hp
    · rintro ⟨ext, rfl, hne, hlen, hnodes, hch, hnd, hdis, hlast⟩
      match ext, hne with
      | nbr :: ext', _ =>
        have hvis : nbr ∉ prev :: before := hdis nbr List.mem_cons_self
        have hna : ¬ Arrow G nbr prev := hch.1.2
        have hsk : skip G (prev :: before) prev nbr = false := by simp [skip, hna]
        refine ⟨nbr, mem_nbrs.mpr ⟨hnodes nbr List.mem_cons_self, hch.1.1⟩, ?_⟩
        simp only [hsk, Bool.false_eq_true, if_false, hvis, List.mem_append]
        cases hext : ext' with
        | nil =>
          subst hext
          left
          have : nbr ∈ T := by simpa using hlast
          simp [this]
        | cons c rest =>
          right
          have hne' : ext' ≠ [] := by simp [hext]
          have hnd' := List.nodup_cons.mp hnd
          have hlast' : lastOf nbr ext' ∈ T := by simpa using hlast
          have hany : (T.any fun t => decide (t ∉ nbr :: prev :: before)) = true := by
            simp only [List.any_eq_true, decide_eq_true_eq]
            refine ⟨lastOf nbr ext', hlast', ?_⟩
            intro hmem
            rcases List.mem_cons.mp hmem with h | h
            · exact lastOf_ne_of_nodup hne' hnd h
            · exact hdis _ (List.mem_cons_of_mem _ (lastOf_mem_tail hne')) h
          rw [← hext]
          simp only [hany, if_true]
          refine (mem_dfs G T (rem + 1) nbr (prev :: before) _).mpr
            ⟨ext', by simp, hne', by simp at hlen; omega, fun v hv => hnodes v (List.mem_cons_of_mem _ hv),
              hch.2, hnd'.2, ?_, hlast'⟩
          intro v hv hmem
          rcases List.mem_cons.mp hmem with rfl | hmem
          · exact hnd'.1 hv
          · exact hdis v (List.mem_cons_of_mem _ hv) hmem

theorem cutoffOf_eq (G : MG) (c : Option Nat) : cutoffOf G c = effCutoff G c := by cases c <;> rfl

theorem Hop.adj {G : MG} {u v : Nat} (h : Hop G u v) : Adj G u v := h.1

/-- ★ **main theorem**: the model of `all_semi_directed_paths(G, s, T, cutoff)` yields exactly the
    semi-directed simple paths from `s` to a member of `T` with 1 … cutoff edges -/
theorem mem_allSemiDirectedPaths {G : MG} {s : Nat} {T : List Nat} {cutoff : Option Nat} {l : List (List Nat)}
    (hs : s ∈ G.nodes) (hsT : s ∉ T) (h : allSemiDirectedPaths G s T cutoff = some l) (p : List Nat) :
    p ∈ l ↔ Wanted G s T (effCutoff G cutoff) p := by
  unfold allSemiDirectedPaths at h
  simp only [hs, not_true_eq_false, if_false, hsT] at h
  rw [cutoffOf_eq] at h
  by_cases hlt : effCutoff G cutoff < 1
  · simp only [hlt, if_true, Option.some.injEq] at h
    subst h
    simp only [List.not_mem_nil, false_iff]
    rintro ⟨-, -, -, h2, h3⟩
    omega
  · simp only [hlt, if_false, Option.some.injEq] at h
    subst h
    rw [mem_dfs]
    constructor
    · rintro ⟨ext, rfl, hne, hlen, hnodes, hch, hnd, hdis, hlast⟩
      have hsne : s ∉ ext := fun h => hdis s h List.mem_cons_self
      refine ⟨⟨by simp, ?_, ?_, by simpa using hch⟩, by simp, ⟨lastOf s ext, hlast, ?_⟩, ?_, ?_⟩
      · intro v hv
        simp only [List.reverse_cons, List.reverse_nil, List.nil_append, List.cons_append, List.mem_cons] at hv
        rcases hv with rfl | hv
        · exact hs
        · exact hnodes v hv
      · simpa using List.nodup_cons.mpr ⟨hsne, hnd⟩
      · simp [lastOf, List.getLast?_eq_some_getLast]
      · cases ext with
        | nil => exact absurd rfl hne
        | cons a t => simp
      · simp; omega
    · rintro ⟨⟨-, hnodes, hnd, hch⟩, hhead, ⟨t, htT, hlast⟩, h2, h3⟩
      cases p with
      | nil => simp at hhead
      | cons a ext =>
        simp only [List.head?_cons, Option.some.injEq] at hhead
        subst hhead
        have hnd' := List.nodup_cons.mp hnd
        refine ⟨ext, by simp, ?_, by simp at h3; omega, fun v hv => hnodes v (List.mem_cons_of_mem _ hv),
          hch, hnd'.2, ?_, ?_⟩
        · intro h; subst h; simp at h2
        · intro v hv hmem
          simp only [List.mem_cons, List.not_mem_nil, or_false] at hmem
          subst hmem; exact hnd'.1 hv
        · have : lastOf a ext = t := by
            have := List.getLast?_eq_some_getLast (l := a :: ext) (by simp)
            rw [this] at hlast
            exact Option.some.inj hlast
          rw [this]; exact htT

/-- ★ with `cutoff=None` the bound is no restriction: every simple path has at most `|V|-1` edges -/
theorem wanted_none_iff {G : MG} {s : Nat} {T : List Nat} (p : List Nat) :
    Wanted G s T (effCutoff G none) p ↔
      SemiDirected G p ∧ p.head? = some s ∧ (∃ t ∈ T, p.getLast? = some t) ∧ 2 ≤ p.length := by
  unfold Wanted
  show _ ∧ _ ∧ _ ∧ _ ∧ p.length ≤ (G.nodes.length - 1) + 1 ↔ _
  constructor
  · rintro ⟨h1, h2, h3, h4, -⟩; exact ⟨h1, h2, h3, h4⟩
  · rintro ⟨h1, h2, h3, h4⟩
    refine ⟨h1, h2, h3, h4, ?_⟩
    have := List.Nodup.length_le_of_subset h1.2.2.1 (fun v hv => h1.2.1 v hv)
    omega

/-- ★ "once each": the model never yields a path twice -/
theorem nodup_dfs (G : MG) (hn : G.nodes.Nodup) (T : List Nat) : ∀ (rem prev : Nat) (before : List Nat),
    (dfs G T rem prev before).Nodup
  | 0, _, _ => by simp [dfs]
  | 1, prev, before => by
    rw [dfs_one]
    refine List.Pairwise.map _ ?_ (List.Pairwise.filter _ (nodup_nbrs hn prev))
    intro a b hab h
    simp only [List.reverse_cons, List.append_assoc, List.cons_append, List.nil_append] at h
    have := List.append_cancel_left h
    simp at this
    exact hab this
  | rem + 2, prev, before => by
    rw [dfs]
    rw [List.Nodup, List.pairwise_flatMap]
    have hprefix : ∀ nbr x, x ∈ (if skip G (prev :: before) prev nbr = true then []
        else if nbr ∈ prev :: before then []
        else (if nbr ∈ T then [(nbr :: prev :: before).reverse] else []) ++
          if (T.any fun t => decide (t ∉ nbr :: prev :: before)) = true then dfs G T (rem + 1) nbr (prev :: before)
          else []) → ∃ ext, x = (prev :: before).reverse ++ nbr :: ext := by
      intro nbr x hx
      split at hx
      · simp at hx
      · split at hx
        · simp at hx
        · rcases List.mem_append.mp hx with hx | hx
          · split at hx
            · simp only [List.mem_singleton] at hx; exact ⟨[], by simp [hx]⟩
            · simp at hx
          · split at hx
            · obtain ⟨ext, rfl, -⟩ := (mem_dfs G T (rem + 1) nbr (prev :: before) x).mp hx
              exact ⟨ext, by simp⟩
            · simp at hx
    refine ⟨?_, ?_⟩
    · intro nbr _
      split
      · exact List.nodup_nil
      · split
        · exact List.nodup_nil
        · rw [← List.Nodup, List.nodup_append]
          refine ⟨by split <;> simp, by split; exact nodup_dfs G hn T (rem + 1) nbr (prev :: before); simp, ?_⟩
          intro a ha b hb
          split at ha
          · simp only [List.mem_singleton] at ha
            split at hb
            · obtain ⟨ext, rfl, hne, -⟩ := (mem_dfs G T (rem + 1) nbr (prev :: before) b).mp hb
              subst ha
              intro h
              have h' := congrArg List.length h
              cases ext with
              | nil => exact hne rfl
              | cons c e => simp at h'
            · simp at hb
          · simp at ha
    · refine List.Pairwise.imp ?_ (nodup_nbrs hn prev)
      intro a b hab x hx y hy hxy
      obtain ⟨e1, rfl⟩ := hprefix a x hx
      obtain ⟨e2, h2⟩ := hprefix b y hy
      rw [h2] at hxy
      have := List.append_cancel_left hxy
      simp only [List.cons.injEq] at this
      exact hab this.1

theorem nodup_allSemiDirectedPaths {G : MG} (hn : G.nodes.Nodup) {s : Nat} {T : List Nat}
    {cutoff : Option Nat} {l : List (List Nat)} (h : allSemiDirectedPaths G s T cutoff = some l) : l.Nodup := by
  unfold allSemiDirectedPaths at h
  split at h
  · cases h
  · split at h
    · cases h; simp
    · dsimp only at h
      split at h
      · cases h; simp
      · cases h; exact nodup_dfs G hn T _ _ _

/-- ★ the oracle used by the harness *is* the specification -/
theorem mem_wantedDec {G : MG} {s : Nat} {T : List Nat} {cutoff : Option Nat} (hs : s ∈ G.nodes) (p : List Nat) :
    p ∈ wantedDec G s T cutoff ↔ Wanted G s T (effCutoff G cutoff) p := by
  unfold wantedDec
  simp only [List.mem_filter, decide_eq_true_eq, mem_simplePaths hs]
  constructor
  · exact fun h => h.2
  · intro h
    exact ⟨⟨⟨h.1.2.1, h.1.2.2.1, h.1.2.2.2.imp fun _ _ => Hop.adj⟩, h.2.1⟩, h⟩

/-- ★ model = oracle, as sets of paths -/
theorem allSemiDirectedPaths_eq_wantedDec {G : MG} {s : Nat} {T : List Nat} {cutoff : Option Nat}
    {l : List (List Nat)} (hs : s ∈ G.nodes) (hsT : s ∉ T) (h : allSemiDirectedPaths G s T cutoff = some l)
    (p : List Nat) : p ∈ l ↔ p ∈ wantedDec G s T cutoff := by
  rw [mem_allSemiDirectedPaths hs hsT h, mem_wantedDec hs]

end C16
