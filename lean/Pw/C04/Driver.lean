import Pw.Core.Proto
import Pw.C04.Model
import Pw.C04.Spec
open Proto

namespace C04
/-- `c04model N=<topological order = all nodes> D=` → the CPDAG -/
def hModel : Handler := fun a => fmtGraph (dagToCpdag a.graph (a.graph.nodes))

/-- `c04ess n= D=` → essential graph by enumeration of the equivalence class -/
def hEss : Handler := fun a => fmtGraph (essentialDec a.graph)

/-- `c04meq n= D= R= RN=` → are the DAGs (nodes n/D, nodes RN/R) Markov equivalent -/
def hMeq : Handler := fun a => fmtBool (meqDec a.graph { nodes := a.nats "RN", dir := a.pairs "R" })

/-- size of the equivalence class (evidence) -/
def hClass : Handler := fun a => toString (classOf a.graph).length

/-- the edge order computed by the model of `order_edges` -/
def hOrder : Handler := fun a => fmtPairs (orderEdges a.graph.nodes a.graph.dir)

def handlers : List (String × Handler) :=
  [("c04model", hModel), ("c04ess", hEss), ("c04meq", hMeq), ("c04class", hClass), ("c04order", hOrder)]
end C04
