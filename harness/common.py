"""Shared harness code: Lean driver access, graph encodings, generators, evidence, violations.

Everything random derives from one random.Random(seed).  Cases are JSON-serialisable dicts so that a
replay file contains the literal input."""
import hashlib
import itertools
import json
import os
import random
import subprocess
import sys
import time

VERIF = os.path.dirname(os.path.dirname(os.path.abspath(__file__)))
REPO = os.environ.get("PW_REPO", "/repo")
if REPO not in sys.path:
    sys.path.insert(0, REPO)
os.environ.setdefault("PYWHY_GRAPHS_VERIF", "1")
DRIVER = os.path.join(VERIF, "lean", ".lake", "build", "bin", "driver")


# ----------------------------------------------------------------------------- Lean driver
class Driver:
    """Persistent driver process for interactive queries (shrinking, search)."""

    def __init__(self):
        self.p = subprocess.Popen([DRIVER], stdin=subprocess.PIPE, stdout=subprocess.PIPE,
                                  text=True, bufsize=1)

    def ask(self, line):
        self.p.stdin.write(line + "\n")
        self.p.stdin.flush()
        return self.p.stdout.readline().rstrip("\n")

    def close(self):
        try:
            self.p.stdin.close()
            self.p.wait(timeout=5)
        except Exception:
            self.p.kill()


def lean_batch(lines, jobs=None):
    """Run many request lines through the compiled model; returns the answer lines (same order)."""
    if not lines:
        return []
    jobs = jobs or min(16, max(1, len(lines) // 2000))
    chunks = [lines[i::jobs] for i in range(jobs)]
    procs = []
    for ch in chunks:
        p = subprocess.Popen([DRIVER], stdin=subprocess.PIPE, stdout=subprocess.PIPE, text=True)
        procs.append(p)
    import threading
    outs = [None] * jobs

    def feed(i):
        o, _ = procs[i].communicate("\n".join(chunks[i]) + "\n")
        outs[i] = o.split("\n")
        if outs[i] and outs[i][-1] == "":
            outs[i].pop()
    ths = [threading.Thread(target=feed, args=(i,)) for i in range(jobs)]
    for t in ths:
        t.start()
    for t in ths:
        t.join()
    res = [None] * len(lines)
    for i in range(jobs):
        if len(outs[i]) != len(chunks[i]):
            raise RuntimeError("driver returned %d lines for %d requests" % (len(outs[i]), len(chunks[i])))
        res[i::jobs] = outs[i]
    # sample for the interpreter cross-check of the thorough tier (see interp_crosscheck)
    if len(XCHK) < XCHK_MAX:
        step = max(1, len(lines) // 40)
        for k in range(0, len(lines), step):
            if len(XCHK) < XCHK_MAX and len(lines[k]) < 4000:
                XCHK.append((lines[k], res[k]))
    return res


XCHK = []
XCHK_MAX = 400


def interp_crosscheck(limit_s=600):
    """The theorems are about the Lean definitions, the correspondence runs the COMPILED driver.  Thorough tier: a
    sample of this run's request lines is evaluated again by the Lean interpreter (`lake env lean --run
    Main.lean`, no native code of ours) and must give the same answers.  -> dict for the evidence"""
    if not XCHK:
        return {"lines": 0, "mismatches": 0}
    p = subprocess.run(["lake", "env", "lean", "--run", "Main.lean"], cwd=os.path.join(VERIF, "lean"),
                       input="\n".join(l for l, _ in XCHK) + "\n", capture_output=True, text=True, timeout=limit_s)
    got = p.stdout.split("\n")
    if got and got[-1] == "":
        got.pop()
    bad = [(l, a, g) for (l, a), g in zip(XCHK, got) if a != g]
    return {"cmd": "cd lean && lake env lean --run Main.lean < sampled request lines", "lines": len(XCHK),
            "answers": len(got), "mismatches": len(bad) + abs(len(got) - len(XCHK)),
            "first_mismatch": (bad[0] if bad else None)}


# ----------------------------------------------------------------------------- graph encoding
LAYERS = ("D", "B", "U", "C")


def g_new(n, D=(), B=(), U=(), C=(), N=None):
    g = {"n": n, "D": [list(e) for e in D], "B": [list(e) for e in B], "U": [list(e) for e in U],
         "C": [list(e) for e in C]}
    if N is not None:
        g["N"] = list(N)
    return g


def rand_path_template(rng, kmin=3, kmax=7, kinds=("->", "<-", "<->", "--"), extra_nodes=2, noise=0.15):
    """A graph grown around one long path v0..vk whose hops have random marks (inside the domain of the
    separation properties: acyclic directed layer, no undirected edge at a node carrying an arrowhead), plus
    the conditioning set that makes exactly this path m-connecting: every collider (or, with probability 0.3,
    a fresh directed descendant of it) is in Z, no non-collider is.  Random graphs almost never contain
    long connecting paths through several colliders / undirected stretches; this generator contains nothing else.
    Returns (g, x, y, Z, colliders, noncolliders) with the nodes randomly numbered."""
    # marks at inner nodes: hop i joins v_i and v_{i+1}; mark of hop i at its right end / of hop i+1 at its left end
    def right(h):
        return "a" if h in ("->", "<->") else "t"

    def left(h):
        return "a" if h in ("<-", "<->") else "t"

    def grammar():
        # x  [end]  c1  [mid]  c2 ... [end]  y : every c_i a collider, everything inside a stretch a non-collider
        def mid():
            r = rng.random()
            if r < 0.15:
                return ["<->"]
            if r < 0.55:
                return ["<-"] + ["--"] * rng.choice((0, 1, 2, 2, 3)) + ["->"]
            if r < 0.75:
                return ["<-"] * rng.choice((1, 2)) + ["->"] * rng.choice((1, 2))
            if r < 0.9:
                return ["<->"] + ["->"] * rng.choice((1, 2))
            return ["<-"] * rng.choice((1, 2)) + ["<->"]

        def end_in():       # from an endpoint into a collider
            r = rng.random()
            if r < 0.4:
                return ["->"] * rng.choice((1, 1, 2))
            if r < 0.6:
                return ["--"] * rng.choice((1, 2)) + ["->"]
            if r < 0.8:
                return ["<->"]
            return ["<-"] + ["->"]

        def mirror(seg):
            return [{"->": "<-", "<-": "->"}.get(h, h) for h in reversed(seg)]
        ncol = rng.choice((1, 2, 2, 3))
        hs = end_in()
        for _j in range(ncol - 1):
            hs += mid()
        return hs + mirror(end_in())
    for _ in range(200):
        if "--" in kinds and "<->" in kinds and rng.random() < 0.5:
            hops = grammar()
            k = len(hops)
            break
        k = rng.randint(kmin, kmax)
        hops = []
        for _i in range(k):
            # stretches: the previous kind is repeated with probability 0.4 (long undirected / directed /
            # bidirected runs between colliders), otherwise a fresh kind
            if hops and rng.random() < 0.4 and hops[-1] in kinds:
                hops.append(hops[-1])
            else:
                hops.append(rng.choice(kinds))
        ok = True
        for i in range(k - 1):
            a, b = hops[i], hops[i + 1]
            if (a == "--" and left(b) == "a") or (b == "--" and right(a) == "a"):
                ok = False
        if ok:
            break
    else:
        hops = ["->", "<-", "->"]
        k = 3
    n_path = k + 1
    D, B, U = [], [], []
    for i, h in enumerate(hops):
        if h == "->":
            D.append((i, i + 1))
        elif h == "<-":
            D.append((i + 1, i))
        elif h == "<->":
            B.append((i, i + 1))
        else:
            U.append((i, i + 1))
    col = [i + 1 for i in range(k - 1) if right(hops[i]) == "a" and left(hops[i + 1]) == "a"]
    non = [i for i in range(1, k) if i not in col]
    n = n_path
    Z = []
    for c in col:
        if rng.random() < 0.3:
            d = n
            n += 1
            D.append((c, d))
            if rng.random() < 0.3:
                D.append((d, n))
                d = n
                n += 1
            Z.append(d)
        else:
            Z.append(c)
    # a little noise that keeps the domain: bidirected edges between nodes without undirected edges, and extra
    # directed edges from fresh parentless nodes into path nodes without undirected edges
    und = set(v for e in U for v in e)
    free = [v for v in range(n) if v not in und]
    for _ in range(extra_nodes):
        if free and rng.random() < 0.5:
            D.append((n, rng.choice(free)))
            n += 1
    have = set(frozenset(e) for e in D + B + U)
    for a in free:
        for b in free:
            if a < b and rng.random() < noise and frozenset((a, b)) not in have and abs(a - b) > 1:
                B.append((a, b))
    perm = list(range(n))
    rng.shuffle(perm)
    f = lambda e: (perm[e[0]], perm[e[1]])
    g = g_new(n, D=[f(e) for e in D], B=[f(e) for e in B], U=[f(e) for e in U])
    return g, perm[0], perm[k], sorted(perm[z] for z in Z), [perm[c] for c in col], [perm[v] for v in non]


def g_nodes(g):
    return g.get("N", list(range(g["n"])))


def fmt_pairs(ps):
    return ",".join("%d-%d" % (a, b) for a, b in ps)


def fmt_set(s):
    return ",".join(str(v) for v in sorted(set(s)))


def g_line(g):
    head = ("N=" + ",".join(map(str, g["N"]))) if "N" in g else ("n=%d" % g["n"])
    return "%s D=%s B=%s U=%s C=%s" % (head, fmt_pairs(g["D"]), fmt_pairs(g["B"]), fmt_pairs(g["U"]),
                                       fmt_pairs(g.get("C", [])))


def canon_dir(edges):
    return ",".join("%d-%d" % e for e in sorted(set((a, b) for a, b in edges)))


def canon_und(edges):
    return ",".join("%d-%d" % e for e in sorted(set((min(a, b), max(a, b)) for a, b in edges)))


def canon_graph(nodes, D=(), B=(), U=(), C=()):
    return "N=%s D=%s B=%s U=%s C=%s" % (fmt_set(nodes), canon_dir(D), canon_und(B), canon_und(U), canon_dir(C))


# ----------------------------------------------------------------------------- labels
class Labels:
    """bijection int index <-> python label for one label family"""
    FAMILIES = ("int", "bigint", "str", "tuple", "frozenset", "falsy", "nested", "lookalike", "npint")

    def __init__(self, family="int", salt=0):
        self.family = family
        self.salt = salt
        self._inv = {}

    def __call__(self, i):
        f = self.family
        if f == "int":
            lab = i
        elif f == "bigint":
            lab = int(str(1000 + self.salt * 7919 + i * 31))  # built at run time, not interned
        elif f == "str":
            lab = "".join(["X", str(i + 1)]) if i % 2 == 0 else "".join(["Yv", str(i)])
        elif f == "tuple":
            lab = ("n", i // 2, i % 2)
        elif f == "frozenset":
            lab = frozenset([i, -1 - i])
        elif f == "falsy":
            # labels whose truth value is False (0, (), "", frozenset()) next to multiples of 8 (which share
            # hash buckets in small sets): a node is a node whatever bool(label) says
            lab = {3: 0, 4: (), 5: "".join([]), 6: frozenset()}.get(i, 8 * (i + 1))
        elif f == "nested":
            # labels that CONTAIN other labels of the same graph (a tuple / frozenset of nodes is itself a node):
            # networkx treats a hashable container that is a node as that node, code that does set(x) / "for n in
            # x" on an argument does not
            p, q = "".join(["p", "0"]), "".join(["q", "1"])
            lab = {0: p, 1: q, 2: (p, q), 3: frozenset([p, q]), 4: (q, p), 5: frozenset([p]), 6: (p,), 7: (q,),
                   8: frozenset([q])}.get(i, (p, q, i))
        elif f == "lookalike":
            # different labels of different types that print alike (str / repr collide, == and hash do not):
            # keys built from str(label) or repr(label) confuse them, sorted() over them is not defined
            lab = {0: 1, 1: "".join(["1"]), 2: (0, 1), 3: "".join(["(0, ", "1)"]), 4: frozenset([1]),
                   5: "".join(["frozenset(", "{1})"]), 6: "".join([" "]), 7: -1, 8: "".join(["-", "1"])}.get(i, (i, str(i)))
        elif f == "npint":
            # numpy integer scalars (node labels read from an array): == between them yields numpy.bool_, not bool,
            # and they hash / compare equal to the plain int of the same value
            import numpy as _np
            lab = _np.int64(1000 + 17 * i)
        elif f == "auglike":
            # (not in FAMILIES: used by C20 only) ordinary nodes named like the library's generated
            # intervention / domain nodes ('F', k) / ('S', k)
            lab = (("F", "S")[i % 2], i // 2)
        else:
            raise ValueError(f)
        self._inv[lab] = i
        return lab

    def inv(self, lab):
        return self._inv[lab]

    def fresh(self, i):
        """an equal-but-not-identical copy of the label (defeats `is` comparisons)"""
        lab = self(i)
        if type(lab).__module__ == "numpy":
            return type(lab)(int(lab))
        if isinstance(lab, int):
            return int(str(lab))
        if isinstance(lab, str):
            return "".join(list(lab))
        if isinstance(lab, tuple):
            return tuple(list(lab))
        return frozenset(list(lab))  # (the empty tuple / empty frozenset are singletons in CPython)


# ----------------------------------------------------------------------------- generators
def all_pairs(n):
    return list(itertools.combinations(range(n), 2))


def enum_graphs(n, pair_states):
    """all graphs on n nodes where each unordered pair (a<b) independently takes one of
    pair_states; a pair state is a tuple of layer-edges like ('D','ab'), ('D','ba'), ('B',), ('U',),
    ('C','ab'), ('C','ba')."""
    prs = all_pairs(n)
    for combo in itertools.product(pair_states, repeat=len(prs)):
        g = g_new(n)
        for (a, b), st in zip(prs, combo):
            add_pair_state(g, a, b, st)
        yield g


def add_pair_state(g, a, b, st):
    for item in st:
        if item == "D>":
            g["D"].append([a, b])
        elif item == "D<":
            g["D"].append([b, a])
        elif item == "B":
            g["B"].append([a, b])
        elif item == "U":
            g["U"].append([a, b])
        elif item == "C>":
            g["C"].append([a, b])
        elif item == "C<":
            g["C"].append([b, a])
        else:
            raise ValueError(item)


ADMG_STATES = [(), ("D>",), ("D<",), ("B",), ("D>", "B"), ("D<", "B")]
ADMG_STATES_CYC = ADMG_STATES + [("D>", "D<"), ("D>", "D<", "B")]
# PAG pair kinds: none, ->, <-, <->, --, o-o, o->, <-o, -o, o-
PAG_STATES = [(), ("D>",), ("D<",), ("B",), ("U",), ("C>", "C<"), ("D>", "C<"), ("D<", "C>")]
PAG_STATES_FULL = PAG_STATES + [("C>",), ("C<",)]


def is_acyclic(n, D):
    adj = {i: [] for i in range(n)}
    for a, b in D:
        adj.setdefault(a, []).append(b)
        adj.setdefault(b, [])
    color = {}

    def dfs(u):
        color[u] = 1
        for v in adj[u]:
            c = color.get(v, 0)
            if c == 1 or (c == 0 and dfs(v)):
                return True
        color[u] = 2
        return False
    return not any(color.get(u, 0) == 0 and dfs(u) for u in list(adj))


def rand_graph(rng, n, states, weights=None, density=None):
    g = g_new(n)
    for a, b in all_pairs(n):
        if density is not None and rng.random() > density:
            continue
        st = rng.choices(states, weights=weights)[0] if weights else rng.choice(states)
        add_pair_state(g, a, b, st)
    return g


def rand_dag_order_graph(rng, n, states, density=0.5):
    """random graph whose directed edges follow a random topological order (hence acyclic)"""
    perm = list(range(n))
    rng.shuffle(perm)
    pos = {v: i for i, v in enumerate(perm)}
    g = g_new(n)
    for a, b in all_pairs(n):
        if rng.random() > density:
            continue
        st = rng.choice(states)
        for item in st:
            if item in ("D>", "D<"):
                u, v = (a, b) if pos[a] < pos[b] else (b, a)
                g["D"].append([u, v])
            else:
                add_pair_state(g, a, b, (item,))
    return g


def subsets(xs):
    xs = list(xs)
    for r in range(len(xs) + 1):
        for c in itertools.combinations(xs, r):
            yield list(c)


def shuffled_graph(rng, g):
    """same graph, different insertion order of nodes and edges (and random orientation of
    unordered pairs)"""
    h = {"n": g["n"]}
    N = list(g_nodes(g))
    rng.shuffle(N)
    h["N"] = N
    for k in LAYERS:
        es = [list(e) for e in g.get(k, [])]
        rng.shuffle(es)
        if k in ("B", "U"):
            es = [e if rng.random() < 0.5 else [e[1], e[0]] for e in es]
        h[k] = es
    return h


# ----------------------------------------------------------------------------- building impl graphs
def build_mixed(g, lab=None, cls=None, layers=("D", "B", "U"), names=None, order=None):
    """build a pywhy MixedEdgeGraph-like object from an encoded graph.  `layers` says which
    layers exist at all (a missing layer is not created even if empty)."""
    import networkx as nx
    import pywhy_graphs.networkx as pywhy_nx
    lab = lab or (lambda i: i)
    names = names or {"D": "directed", "B": "bidirected", "U": "undirected", "C": "circle"}
    kinds = {"D": nx.DiGraph, "B": nx.Graph, "U": nx.Graph, "C": nx.DiGraph}
    graphs, types = [], []
    for k in layers:
        gr = kinds[k]()
        graphs.append(gr)
        types.append(names[k])
    G = pywhy_nx.MixedEdgeGraph(graphs=graphs, edge_types=types)
    for v in g_nodes(g):
        G.add_node(lab(v))
    for k in layers:
        for a, b in g.get(k, []):
            G.add_edge(lab(a), lab(b), edge_type=names[k])
    return G


# ----------------------------------------------------------------------------- evidence / reporting
class Evidence:
    def __init__(self, pid, tier, seed):
        self.pid, self.tier, self.seed = pid, tier, seed
        self.t0 = time.time()
        self.evaluations = 0
        self.nontrivial = set()
        self.samples = []
        self.hist = {}
        self.extra = {}
        self.assumptions = []
        self.violations = 0
        self.rule = ""
        self.exhaustive = False
        self.traces = 0

    def count(self, key, k=1):
        self.hist[key] = self.hist.get(key, 0) + k

    def case(self, case, nontrivial=False, sample_every=0):
        self.evaluations += 1
        if nontrivial:
            self.nontrivial.add(hashlib.sha1(json.dumps(case, sort_keys=True, default=str).encode()).hexdigest()[:16])
        if len(self.samples) < 5 or (sample_every and self.evaluations % sample_every == 0 and len(self.samples) < 12):
            self.samples.append(case)

    def write(self, proof):
        cov = {
            "obligations": proof.get("obligations", 0),
            "discharged": proof.get("discharged", 0),
            "checker_cmd": proof.get("checker_cmd", ""),
            "trusted_base": proof.get("trusted_base", []),
            "theorems": proof.get("theorems", []),
            "axioms": proof.get("axioms", {}),
            "leanchecker": proof.get("leanchecker"),
            "interpreter_crosscheck": proof.get("interpreter_crosscheck"),
            "evaluations": self.evaluations,
            "distinct_nontrivial": len(self.nontrivial),
            "rule": self.rule,
            "samples": self.samples[:12],
            "traces_validated_against_impl": self.traces or self.evaluations,
            "exhaustive": self.exhaustive,
            "input_histogram": self.hist,
        }
        cov.update(self.extra)
        ev = {"property_id": self.pid, "tier": self.tier, "seed": self.seed, "level": "proof",
              "coverage": cov, "assumptions": self.assumptions,
              "wall_s": round(time.time() - self.t0, 2), "violations": self.violations}
        os.makedirs(os.path.join(VERIF, "evidence"), exist_ok=True)
        with open(os.path.join(VERIF, "evidence", self.pid + ".json"), "w") as f:
            json.dump(ev, f, indent=1, default=str)


def load_findings():
    p = os.path.join(VERIF, "known_findings.json")
    if not os.path.exists(p):
        return []
    return json.load(open(p))["findings"]


def merge_findings():
    """tools step (never at check time): known_findings.d/*.json -> known_findings.json"""
    d = os.path.join(VERIF, "known_findings.d")
    allf = []
    for f in sorted(os.listdir(d)):
        if f.endswith(".json"):
            allf += json.load(open(os.path.join(d, f)))["findings"]
    json.dump({"findings": allf}, open(os.path.join(VERIF, "known_findings.json"), "w"), indent=1)
    return allf


def write_replay(pid, payload):
    os.makedirs(os.path.join(VERIF, "replays"), exist_ok=True)
    blob = json.dumps(payload, sort_keys=True, default=str, indent=1)
    h = hashlib.sha1(blob.encode()).hexdigest()[:12]
    path = os.path.join("replays", "%s-%s.json" % (pid, h))
    with open(os.path.join(VERIF, path), "w") as f:
        f.write(blob)
    return path


class Outcome:
    """collects disagreements of one run and turns them into the exit protocol"""

    def __init__(self, pid):
        self.pid = pid
        self.violations = []       # (case, detail) implementation contradicts the property
        self.corr_breaks = []      # (case, detail) implementation differs from the model only
        self.known_hits = {}       # finding id -> example
        self.proof_breaks = []     # names of theorems that no longer check

    def violation(self, case, detail):
        self.violations.append((case, detail))

    def corr(self, case, detail):
        self.corr_breaks.append((case, detail))

    def known(self, fid, what, case=None):
        self.known_hits.setdefault(fid, (what, case))

    def finish(self, ev, proof):
        ev.violations = len(self.violations)
        ev.extra["known_findings_hit"] = sorted(self.known_hits)
        ev.extra["correspondence_breaks"] = len(self.corr_breaks)
        ev.write(proof)
        for fid, (what, _) in sorted(self.known_hits.items()):
            print("KNOWN-FINDING: property=%s %s [%s]" % (self.pid, what, fid))
        if self.violations:
            case, detail = self.violations[0]
            path = write_replay(self.pid, {"property": self.pid, "kind": "failing-input", "case": case,
                                           "detail": detail, "more": len(self.violations) - 1})
            print("VIOLATION property=%s replay=%s" % (self.pid, path))
            return 1
        broken = list(self.proof_breaks)
        if broken or self.corr_breaks:
            payload = {"property": self.pid, "kind": "no-failing-input-found",
                       "theorems_not_checking": broken}
            if self.corr_breaks:
                payload["correspondence"] = {"case": self.corr_breaks[0][0], "detail": self.corr_breaks[0][1],
                                             "count": len(self.corr_breaks)}
            path = write_replay(self.pid, payload)
            print("VIOLATION property=%s replay=%s no-failing-input-found" % (self.pid, path))
            return 1
        return 0


def snapshot(G):
    """nodes (with attrs), per-layer edges (with attrs), graph attrs – for non-mutation checks"""
    import copy as _c
    out = {"nodes": sorted(((repr(n), repr(sorted(d.items(), key=repr))) for n, d in G.nodes(data=True))),
           "graph": repr(sorted(((k, repr(v)) for k, v in G.graph.items())))}
    if hasattr(G, "get_graphs"):
        for et, gr in G.get_graphs().items():
            und = not gr.is_directed()
            es = []
            for u, v, d in gr.edges(data=True):
                key = tuple(sorted([repr(u), repr(v)])) if und else (repr(u), repr(v))
                es.append((key, repr(sorted(d.items(), key=repr))))
            out["E:" + et] = sorted(es)
            out["V:" + et] = sorted(repr(n) for n in gr.nodes)
    else:
        out["E"] = sorted((repr(u), repr(v), repr(sorted(d.items(), key=repr))) for u, v, d in G.edges(data=True))
    return out


class TimeoutResult(dict):
    """what pmap returns for an item on which the implementation did not come back: every lookup answers
    "err:does-not-terminate"; the item is also recorded (see timeouts()) and reported by ./check"""

    def __missing__(self, k):
        return "err:does-not-terminate"

    def get(self, k, d=None):
        return "err:does-not-terminate"

    def __contains__(self, k):
        return k in ("ans", "err")


ITEM_CPU_S = float(os.environ.get("VERIF_ITEM_CPU_S", "90"))
_TIMEOUT_LOG = os.path.join(VERIF, ".cache", "timeouts-%d.jsonl" % os.getpid())


class _Limited:
    """picklable wrapper: fn(item) under a CPU-time limit; a timeout is recorded with the item"""

    def __init__(self, fn, log):
        self.fn, self.log = fn, log

    def __call__(self, item):
        try:
            # once a few calls have failed to return the rest of the batch is not run: the run ends with that finding
            if os.path.exists(self.log) and os.path.getsize(self.log) > 0 and sum(1 for _ in open(self.log)) >= 3:
                return TimeoutResult()
        except OSError:
            pass
        try:
            with time_limit(ITEM_CPU_S):
                return self.fn(item)
        except CallTimeout:
            try:
                os.makedirs(os.path.dirname(self.log), exist_ok=True)
                with open(self.log, "a") as f:
                    f.write(json.dumps({"item": item, "cpu_s": ITEM_CPU_S}, default=str) + "\n")
            except Exception:
                pass
            return TimeoutResult()


def note_timeout(item, cpu_s=None, log=None):
    """record an implementation call that did not return (harnesses with their own time limit call this)"""
    log = log or _TIMEOUT_LOG
    try:
        os.makedirs(os.path.dirname(log), exist_ok=True)
        with open(log, "a") as f:
            f.write(json.dumps({"item": item, "cpu_s": cpu_s or ITEM_CPU_S}, default=str) + "\n")
    except Exception:
        pass


def too_many_timeouts(k=3, log=None):
    log = log or _TIMEOUT_LOG
    try:
        return os.path.exists(log) and os.path.getsize(log) > 0 and sum(1 for _ in open(log)) >= k
    except OSError:
        return False


def timeouts():
    """items on which an implementation call exceeded the CPU-time limit during this run"""
    if not os.path.exists(_TIMEOUT_LOG):
        return []
    out = []
    for l in open(_TIMEOUT_LOG):
        try:
            out.append(json.loads(l))
        except Exception:
            pass
    return out


def clear_timeouts():
    try:
        os.unlink(_TIMEOUT_LOG)
    except OSError:
        pass


def pmap(fn, items, jobs=None, chunksize=64):
    """parallel map preserving order (fork pool); every item runs under a CPU-time limit (ITEM_CPU_S): an
    implementation that does not return is recorded and reported, never waited for"""
    items = list(items)
    jobs = jobs or min(16, os.cpu_count() or 1)
    lim = _Limited(fn, _TIMEOUT_LOG)
    if jobs <= 1 or len(items) < 200:
        return [lim(x) for x in items]
    import multiprocessing as mp
    with mp.get_context("fork").Pool(jobs) as pool:
        return pool.map(lim, items, chunksize=chunksize)


def load_corpus(pid):
    """minimised past failures for a property: corpus/<pid>/*.json, each a case dict (run first)"""
    d = os.path.join(VERIF, "corpus", pid)
    if not os.path.isdir(d):
        return []
    return [json.load(open(os.path.join(d, f))) for f in sorted(os.listdir(d)) if f.endswith(".json")]


# ----------------------------------------------------------------------------- query - mutate - query on one object
def warm_decide(case, mod=3):
    """deterministic (replayable) choice of the cases that get a warm-up query"""
    import zlib
    return zlib.crc32(json.dumps(case, sort_keys=True, default=str).encode()) % mod == 0


def _warmup_raw(G, call, layers=("directed", "bidirected", "circle", "undirected"), salt=None):
    """Exercise 'query, edit the same object in place, query again': perturb G in place, run `call()` on the
    perturbed graph (result and exceptions ignored), then restore G in place.  The perturbation keeps the
    number of nodes and of edges per type (so count-validated memo tables stay "valid"): one edge (u,v) is
    RE-POINTED to (u,w) for a node w not adjacent to u in that layer (changes adjacency); if there is no such
    w it is reversed (directed layers) or just dropped.  Removal and re-insertion alternate between the
    single-edge and the bulk API (remove_edge / remove_edges_from, add_edge / add_edges_from), since caches
    are often cleared in only some of them.  Afterwards G has the same nodes and edges as before (edge
    insertion order may differ, which no property may depend on)."""
    mixed = hasattr(G, "get_graphs")
    if salt is not None and salt % 2 == 1:
        return detour(G, call, salt, layers)
    if salt is not None and len(layers) > 1:
        k0 = salt % len(layers)
        layers = tuple(layers[k0:]) + tuple(layers[:k0])
    for layer in layers:
        try:
            gr = G.get_graphs(layer) if mixed else G
        except Exception:
            continue
        es = list(gr.edges)
        mode = ((len(es) + len(gr)) if salt is None else (salt // 5)) % 3
        if not es and not (mode == 1 and salt is not None and len(gr) >= 2):
            if not mixed:
                return False
            continue
        u, v = es[len(es) // 2] if es else (None, None)
        if mode == 2 and not es:
            mode = 1
        if mode:
            # modes 1, 2: the graph temporarily HAS MORE than the case's graph; the surplus is taken away
            # again through a removal API that is easy to forget when invalidating per-object state
            # (mode 1: an extra edge removed with remove_edges_from; mode 2: an extra node with an edge,
            # removed with remove_node) and nothing is added afterwards
            try:
                if mode == 1:
                    cand = [(a, b) for a in list(gr.nodes) for b in list(gr.nodes) if a != b
                            and not gr.has_edge(a, b) and not gr.has_edge(b, a)]
                    if salt is not None and cand:
                        k1 = (salt // 15) % len(cand)
                        cand = cand[k1:] + cand[:k1]
                    for a, b in cand[:4]:
                        try:
                            G.add_edge(a, b, layer) if mixed else G.add_edge(a, b)
                        except Exception:
                            continue
                        try:
                            call()
                        except CallTimeout:
                            raise
                        except BaseException:
                            pass
                        finally:
                            G.remove_edges_from([(a, b)], layer) if mixed else G.remove_edges_from([(a, b)])
                        return True
                else:
                    extra = ("warm-up-node", len(es))
                    G.add_node(extra)
                    try:
                        try:
                            G.add_edge(u, extra, layer) if mixed else G.add_edge(u, extra)
                        except Exception:
                            pass
                        try:
                            call()
                        except CallTimeout:
                            raise
                        except BaseException:
                            pass
                    finally:
                        G.remove_node(extra)
                    return True
            except Exception:
                pass
        if not es:
            continue
        data = dict(gr.get_edge_data(u, v) or {})
        bulk = (len(es) % 2 == 1)

        def rm(a, b):
            if mixed:
                G.remove_edges_from([(a, b)], layer) if bulk else G.remove_edge(a, b, layer)
            else:
                G.remove_edges_from([(a, b)]) if bulk else G.remove_edge(a, b)

        def ad(a, b, **kw):
            if mixed:
                G.add_edges_from([(a, b)], layer, **kw) if bulk else G.add_edge(a, b, layer, **kw)
            else:
                G.add_edges_from([(a, b)], **kw) if bulk else G.add_edge(a, b, **kw)
        try:
            rm(u, v)
        except Exception:
            return False
        moved = None
        cands = [w for w in list(gr.nodes) if w != u and w != v and not gr.has_edge(u, w)
                 and not (gr.is_directed() and gr.has_edge(w, u))]
        trial = [(u, w) for w in cands[:3]]
        if gr.is_directed() and not gr.has_edge(v, u):
            trial.append((v, u))
        for a_, b_ in trial:
            try:
                ad(a_, b_)
                moved = (a_, b_)
                break
            except Exception:
                moved = None
        try:
            call()
        except CallTimeout:
            raise
        except BaseException:
            pass
        finally:
            if moved is not None:
                try:
                    rm(*moved)
                except Exception:
                    try:
                        gr.remove_edge(*moved)
                    except Exception:
                        pass
            try:
                ad(u, v, **data)
            except Exception:
                # restore through the layer itself if a class guard objects
                gr.add_edge(u, v, **data)
        return True
    return False


def detour(G, call, salt, layers=("directed", "bidirected", "circle", "undirected")):
    """A random in-place detour through other graphs and back: a few steps that add a surplus edge or take
    an existing edge away (single-edge or bulk API, chosen at random), with `call()` after every step
    (result and exceptions ignored), then everything is undone in a random order, again through randomly
    chosen single-edge / bulk APIs.  Afterwards G has the nodes and edges it started with.  Any state kept
    per object (memo tables, cached views, parent caches cleared in only some mutators) is exercised at
    intermediate graphs and must not influence the real query that follows.  Deterministic in `salt`."""
    import random as _r
    rng = _r.Random(salt)
    mixed = hasattr(G, "get_graphs")
    lays = []
    for L in layers:
        try:
            lays.append((L, G.get_graphs(L) if mixed else G))
        except Exception:
            pass
        if not mixed:
            break
    if not lays:
        return False
    nodes = list(G.nodes)
    if len(nodes) < 2:
        return False

    def adjacent_elsewhere(a, b, L):
        return any(M != L and (gr.has_edge(a, b) or gr.has_edge(b, a)) for M, gr in lays)

    def add(L, gr, a, b, data=None):
        kw = dict(data or {})
        if rng.random() < 0.5:
            G.add_edges_from([(a, b)], L, **kw) if mixed else G.add_edges_from([(a, b)], **kw)
        else:
            G.add_edge(a, b, L, **kw) if mixed else G.add_edge(a, b, **kw)

    def rem(L, gr, a, b):
        if rng.random() < 0.5:
            G.remove_edges_from([(a, b)], L) if mixed else G.remove_edges_from([(a, b)])
        else:
            G.remove_edge(a, b, L) if mixed else G.remove_edge(a, b)
    surplus, removed = [], []
    for _ in range(rng.choice((2, 3, 4))):
        L, gr = rng.choice(lays)
        r = rng.random()
        if r < 0.55:
            gone = [(x[2], x[3]) for x in removed if x[0] == L]
            pairs = [(a, b) for a in nodes for b in nodes if a != b and not gr.has_edge(a, b)
                     and not (not gr.is_directed() and gr.has_edge(b, a))
                     and (a, b) not in gone and (b, a) not in gone]
            pref = [p for p in pairs if adjacent_elsewhere(p[0], p[1], L)]
            pool = pref if (pref and rng.random() < 0.6) else pairs
            if pool:
                a, b = rng.choice(pool)
                try:
                    add(L, gr, a, b)
                    surplus.append((L, gr, a, b))
                except Exception:
                    pass
        elif r < 0.85:
            es = [(u, v) for u, v in gr.edges if not any(s[0] == L and {s[2], s[3]} == {u, v} for s in surplus)]
            if es:
                u, v = rng.choice(es)
                data = dict(gr.get_edge_data(u, v) or {})
                try:
                    rem(L, gr, u, v)
                    removed.append((L, gr, u, v, data))
                except Exception:
                    pass
        elif mixed and hasattr(G, "clear_edges"):
            # the whole layer is emptied with clear_edges(layer) - a mutator that is easy to forget when per-object
            # state is invalidated - and refilled at the end
            es = [(u, v, dict(d)) for u, v, d in gr.edges(data=True)]
            try:
                G.clear_edges(L)
                for u, v, d in es:
                    if not any(s[0] == L and {s[2], s[3]} == {u, v} for s in surplus):
                        removed.append((L, gr, u, v, d))
                surplus = [s for s in surplus if s[0] != L]
            except Exception:
                pass
        try:
            call()
        except CallTimeout:
            raise
        except BaseException:
            pass
    ops = [("rm", s) for s in surplus] + [("add", x) for x in removed]
    rng.shuffle(ops)
    pending = ops
    for attempt in range(3):
        nxt = []
        for kind, x in pending:
            try:
                if kind == "rm":
                    if x[1].has_edge(x[2], x[3]):
                        rem(x[0], x[1], x[2], x[3])
                else:
                    if not x[1].has_edge(x[2], x[3]):
                        add(x[0], x[1], x[2], x[3], x[4])
            except Exception:
                nxt.append((kind, x))
        pending = nxt
        if not pending:
            break
    for kind, x in pending:  # last resort: through the layer itself
        try:
            if kind == "rm":
                x[1].remove_edge(x[2], x[3])
            else:
                x[1].add_edge(x[2], x[3], **x[4])
        except Exception:
            pass
    return True


# ----------------------------------------------------------------------------- time limits for implementation calls
class CallTimeout(BaseException):
    """raised by time_limit; a BaseException so that `except Exception` in callers / callees cannot swallow it"""


class time_limit:
    """`with time_limit(20): f()` raises CallTimeout in the main thread of the process after 20 s of CPU time of
    this process (ITIMER_PROF: a loaded machine cannot trigger it).  A function under test that does not return is
    reported, never waited for.  Nests: an inner limit re-arms what was left of the outer one on exit."""

    def __init__(self, seconds):
        self.s = seconds

    def __enter__(self):
        import signal

        def _h(signum, frame):
            raise CallTimeout()
        self.left = signal.getitimer(signal.ITIMER_PROF)[0]
        self.t0 = time.process_time()
        self.old = signal.signal(signal.SIGPROF, _h)
        signal.setitimer(signal.ITIMER_PROF, min(self.s, self.left) if self.left > 0 else self.s)
        return self

    def __exit__(self, *a):
        import signal
        signal.setitimer(signal.ITIMER_PROF, 0)
        signal.signal(signal.SIGPROF, self.old)
        if self.left > 0:
            signal.setitimer(signal.ITIMER_PROF, max(0.05, self.left - (time.process_time() - self.t0)))
        return False


def _content(G):
    mixed = hasattr(G, "get_graphs")
    lay = {}
    if mixed:
        for L, gr in G.get_graphs().items():
            lay[L] = [(u, v, dict(d)) for u, v, d in gr.edges(data=True)]
    else:
        lay[None] = [(u, v, dict(d)) for u, v, d in G.edges(data=True)]
    return {"nodes": [(n, dict(d)) for n, d in G.nodes(data=True)], "layers": lay}


def _heal(G, content):
    """put the nodes and edges of `content` back into G in place (layer-level operations, no class guards)"""
    mixed = hasattr(G, "get_graphs")
    want = [n for n, _ in content["nodes"]]
    for n in list(G.nodes):
        if n not in want:
            G.remove_node(n)
    for n, d in content["nodes"]:
        if n not in G.nodes:
            G.add_node(n, **d)
    for L, es in content["layers"].items():
        gr = G.get_graphs(L) if mixed else G
        for u, v in list(gr.edges):
            gr.remove_edge(u, v)
        for u, v, d in es:
            gr.add_edge(u, v, **d)


def mark_unrelated_state(G, salt=0):
    """public bookkeeping that no path / separation query may depend on: on graph classes that have it, a triple
    of nodes is marked as unfaithful (ConservativeMixin.mark_unfaithful_triple); the mark stays."""
    try:
        ns = list(G.nodes)
        if hasattr(G, "mark_unfaithful_triple") and len(ns) >= 3:
            k = salt % len(ns)
            G.mark_unfaithful_triple(ns[k], ns[(k + 1) % len(ns)], ns[(k + 2) % len(ns)])
            G.mark_unfaithful_triple(ns[(k + 2) % len(ns)], ns[k], ns[(k + 1) % len(ns)])
    except Exception:
        pass


def warmup(G, call, layers=("directed", "bidirected", "circle", "undirected"), salt=None, marks=False):
    """query - edit the same object in place - query again.  Two phases, `call()` inside each (its result
    and exceptions are ignored): (1) a count-preserving re-pointing of one edge (see _warmup_raw mode 0:
    memo tables validated by node / edge counts stay 'valid' but are stale); (2) a random detour that adds
    and removes surplus edges through single-edge and bulk APIs (state cleared in only some mutators).
    After the excursions G is checked against its content before the warm-up and healed in place if anything
    differs, so that the judged call sees the case's graph - unless a plain call of the function under test
    alone changes the object: then the damage stays (see below)."""
    import zlib
    before = snapshot(G)
    content = _content(G)
    if salt is None:
        salt = zlib.crc32(repr(before).encode())
    if marks:
        mark_unrelated_state(G, salt)
    ok = True

    def phases():
        _warmup_raw(G, call, layers, salt=(salt // 2) * 30)      # even salt, mode 0: re-point
        detour(G, call, salt | 1, layers)
    try:
        phases()
    except CallTimeout:
        raise
    except BaseException:
        ok = False
    try:
        if not ok or snapshot(G) != before:
            _heal(G, content)
            ok = snapshot(G) == before
            if ok:
                # was it the function under test that edited the object it was given?  One plain call on the
                # healed graph: if that alone changes it, the excursions are repeated and nothing is healed -
                # the judged call then sees what a user who keeps working with the object sees
                try:
                    call()
                except CallTimeout:
                    raise
                except BaseException:
                    pass
                if snapshot(G) != before:
                    try:
                        phases()
                    except CallTimeout:
                        raise
                    except BaseException:
                        pass
                    return False
    except CallTimeout:
        raise
    except BaseException:
        ok = False
    return ok
