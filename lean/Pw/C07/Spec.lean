import Pw.C06.Spec
open Closure

/-! # C07 specification

"valid_mag returns True iff there is at most one edge per node pair, no directed cycle, no bidirected
edge between a node and one of its ancestors, and every non-adjacent pair of nodes is m-separated by
some set of other nodes; is_maximal returns True iff that last condition holds.  A graph containing an
undirected edge is never accepted by valid_mag." -/
namespace C07
open MG

def Dir (G : MG) (a b : Nat) : Prop := (a, b) ∈ G.dir
def Bi (G : MG) (a b : Nat) : Prop := (a, b) ∈ G.bi ∨ (b, a) ∈ G.bi
def Un (G : MG) (a b : Nat) : Prop := (a, b) ∈ G.un ∨ (b, a) ∈ G.un
def Adjacent (G : MG) (a b : Nat) : Prop := Dir G a b ∨ Dir G b a ∨ Bi G a b ∨ Un G a b

def NoUndirected (G : MG) : Prop := G.un = []

/-- at most one edge per node pair -/
def Simple (G : MG) : Prop :=
  ∀ a b, ¬ (Dir G a b ∧ Dir G b a) ∧ ¬ (Dir G a b ∧ Bi G a b) ∧ ¬ (Dir G a b ∧ Un G a b) ∧
    ¬ (Bi G a b ∧ Un G a b)

/-- `a` is a (strict) ancestor of `b` -/
def SAnc (G : MG) (a b : Nat) : Prop := ∃ c, (a, c) ∈ G.dir ∧ Anc G c b

/-- no bidirected edge between a node and one of its ancestors -/
def Ancestral (G : MG) : Prop := ∀ a b, Bi G a b → ¬ SAnc G a b

/-- every non-adjacent pair of nodes is m-separated by some set of other nodes -/
def Maximal (G : MG) : Prop :=
  ∀ a ∈ G.nodes, ∀ b ∈ G.nodes, a ≠ b → ¬ Adjacent G a b →
    ∃ Z : List Nat, (∀ z ∈ Z, z ∈ G.nodes ∧ z ≠ a ∧ z ≠ b) ∧ MSep G [a] [b] Z

/-- what the code tests instead (equivalent to `Maximal` by Richardson–Spirtes, hypothesis T5) -/
def NoInducingPathBetweenNonAdjacent (G : MG) : Prop :=
  ∀ a ∈ G.nodes, ∀ b ∈ G.nodes, a ≠ b → ¬ Adjacent G a b → ¬ C06.HasInducingPath G [] [] a b

/-- the property's right-hand side for `valid_mag` -/
def ValidMAG (G : MG) : Prop :=
  NoUndirected G ∧ Simple G ∧ Acyclic G ∧ Ancestral G ∧ Maximal G

/-- T5 (Richardson–Spirtes 2002, Thm 4.2 / Verma–Pearl): for an ADMG, a non-adjacent pair is
    m-separable iff there is no inducing path (L = S = ∅) between them.  Used as an explicit hypothesis. -/
def T5 (G : MG) : Prop := Maximal G ↔ NoInducingPathBetweenNonAdjacent G

end C07
