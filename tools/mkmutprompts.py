#!/venv/bin/python
"""Generate prompts for the independent 'seed a breaking change' sub-agents (they get ONLY the property
text and a scratch worktree, nothing from /verif).  usage: tools/mkmutprompts.py  -> /root/work/prompts/mut-CNN.txt"""
import json, os
T = '''You are testing how well a Python library's semantic properties can be broken by subtle code changes. Work ONLY in the git worktree /tmp/mut/@id@ (a scratch checkout of the library py-why/pywhy-graphs). Do not look at or touch /verif, /repo, or /root/work. The library is not installed: run Python as `cd /tmp/mut/@id@ && PYTHONPATH=/tmp/mut/@id@ /venv/bin/python ...` (the directory pywhy_graphs.egg-info in the worktree provides the package metadata; leave it alone). Its test suite: `cd /tmp/mut/@id@ && /venv/bin/python -m pytest -q -p no:cacheprovider --timeout=900 --continue-on-collection-errors pywhy_graphs` (on the unchanged tree: 405 passed, 18 failed, 1 collection error — the failures need network/absent packages and are expected).

The property (@ID@ — @title@):

"@statement@"

Quantified over: @quant@

Relevant source files: @files@

Task: produce THREE different, independent changes to the library source (each a separate patch against the unchanged tree) that each break this property while the code still imports and the existing test suite still gives exactly the same passes (405 passed, same failures). Each change should look like a plausible refactoring slip, optimisation or "simplification", and should need something specific to manifest — an unusual input shape, a particular multi-step sequence of operations, a particular order, two cooperating sites that each look fine alone — not something ordinary use would expose at once. Make the three changes differ in kind and in the clause of the property they break. First convince yourself (by experiment on the unchanged tree) that the property holds there for the inputs you use.

For each change i in 1..3 create the directory /tmp/mut/out/@id@_<i>/ containing:
  - patch.diff : output of `git diff` for that change alone against the unchanged tree (apply with `git apply`),
  - demo.py : a small self-contained program (run as `PYTHONPATH=<tree> /venv/bin/python demo.py`) that exits 0 on the unchanged tree and exits non-zero (assertion failure) with the change applied, demonstrating the property violation on a concrete input or operation sequence,
  - meta.json : {"property": "@ID@", "summary": "...what was changed...", "needs": "...what specific input/sequence/condition is needed to manifest...", "ran": ["commands you ran and their outcomes, including the pytest pass count with the change applied and demo exit codes with/without the change"]}.
Never use `git stash` (the stash is shared with other worktrees of the repository; save work with `git diff > file` instead). After producing each patch, reset the worktree (`git checkout -- .`) so the next one starts from the unchanged tree. Verify everything yourself: the test-suite pass count with each change applied (must still be 405 passed), and the demo behaviour with and without. Final message: a 10-line summary of the three changes.'''
os.makedirs("/root/work/prompts", exist_ok=True)
for l in open(os.path.join(os.path.dirname(os.path.dirname(os.path.abspath(__file__))), "properties.jsonl")):
    p = json.loads(l)
    s = (T.replace("@id@", p["id"].lower()).replace("@ID@", p["id"]).replace("@title@", p["title"])
          .replace("@statement@", p["statement"]).replace("@quant@", p["quantifier"]["text"])
          .replace("@files@", ", ".join(p["anchors"]["files"])))
    open("/root/work/prompts/mut-%s.txt" % p["id"], "w").write(s)
print("ok")
