import Pw.Core.Graph

/-! # C05 model: `pdag_to_dag` (pywhy_graphs/algorithms/cpdag.py), Dor–Tarsi sink elimination

A PDAG is an `MG` using the layers `dir` (directed) and `un` (undirected).  `G.nodes` is the order in
which `nodes_memo` lists the nodes (`G.nodes` of the Python graph); the result of the code does depend
on it (a different consistent extension), the theorems hold for every order.

The three working copies `dir_G`, `undir_G`, `full_undir_G` always have the same node removed, so the
state of the loop is one shrinking `MG`; `full_undir_G.has_edge(a,b)` is `adjB`. -/
namespace C05

/-- `full_undir_G.has_edge(a, b)`: adjacency in any layer, either orientation -/
def adjB (G : MG) (a b : Nat) : Bool :=
  G.dir.contains (a, b) || G.dir.contains (b, a) || G.un.contains (a, b) || G.un.contains (b, a)

/-- `dir_G.remove_node(x); undir_G.remove_node(x); full_undir_G.remove_node(x); del nodes_memo[x]` -/
def removeNode (G : MG) (x : Nat) : MG :=
  { nodes := G.nodes.filter (· != x),
    dir := G.dir.filter (fun e => e.1 != x && e.2 != x),
    un := G.un.filter (fun e => e.1 != x && e.2 != x),
    bi := G.bi, circ := G.circ }

/-- the test of the inner `while` for one candidate node: no outgoing directed edge, and every
    undirected neighbour is adjacent to every other node adjacent to `x` (parents and undirected
    neighbours; a sink has no children).  This is the code after the `fix:` commit. -/
def eligible (G : MG) (x : Nat) : Bool :=
  (G.children x).isEmpty &&
  (G.unbrs x).all fun y => (G.unbrs x ++ G.parents x).all fun z => z == y || adjB G y z

/-- the eligibility test of the unchanged code: undirected neighbours ∪ parents form a clique
    (kept for the counterexample theorem) -/
def eligibleOld (G : MG) (x : Nat) : Bool :=
  (G.children x).isEmpty &&
  ((G.unbrs x).isEmpty ||
   (G.unbrs x ++ G.parents x).all fun y => (G.unbrs x ++ G.parents x).all fun z => z == y || adjB G y z)

theorem length_removeNode_lt {G : MG} {x : Nat} (h : x ∈ G.nodes) :
    (removeNode G x).nodes.length < G.nodes.length := by
  simp only [removeNode]
  have h1 := List.countP_eq_length_filter (p := (· != x)) (l := G.nodes)
  have h2 : G.nodes.countP (· != x) < G.nodes.countP (fun _ => true) :=
    Closure.countP_lt' _ _ (by intros; rfl) G.nodes x h rfl (by simp)
  simp only [List.countP_true] at h2
  omega

/-- the outer `while len(nodes_memo) > 0` loop.  Returns the edges *added* to `dag`
    (`dag` starts as a copy of the directed layer) or the `ValueError`. -/
def elimWith (el : MG → Nat → Bool) (G : MG) : Except String (List (Nat × Nat)) :=
  if G.nodes.isEmpty then .ok []
  else
    match h : G.nodes.find? (el G) with
    | none => .error "no-extension"
    | some x =>
      match elimWith el (removeNode G x) with
      | .error e => .error e
      | .ok r => .ok ((G.unbrs x).map (·, x) ++ r)
termination_by G.nodes.length
decreasing_by exact length_removeNode_lt (List.mem_of_find?_eq_some h)

def elim (G : MG) : Except String (List (Nat × Nat)) := elimWith eligible G

/-- `pdag_to_dag`: the returned `nx.DiGraph` = P's nodes, P's directed edges plus the oriented ones -/
def pdagToDag (P : MG) : Except String MG :=
  match elim P with
  | .error e => .error e
  | .ok r => .ok { nodes := P.nodes, dir := P.dir ++ r }

/-- the unchanged code (clique test), for the counterexample -/
def pdagToDagOld (P : MG) : Except String MG :=
  match elimWith eligibleOld P with
  | .error e => .error e
  | .ok r => .ok { nodes := P.nodes, dir := P.dir ++ r }

end C05
