import Pw.T3.Main
open Closure

/-! # T3, part 6: the essential graph of a pattern is a chain graph

If all directed edges of the closed graph `G` are compelled in a *pattern* `P` (every directed edge of
`P` lies in a v-structure), then no directed edge of `G` joins two nodes of one bucket; hence
`w -> x - y` implies `w -> y` (Meek's Lemma 1), obtained here semantically from `Ctx.both`. -/
namespace T3
open C08 MG

variable {G D : MG}

open Classical in
/-- the edges of `D` inside the bucket of `a0`, as a DAG -/
noncomputable def bucketDag (G D : MG) (a0 : Nat) : MG :=
  { nodes := G.nodes, dir := D.dir.filter fun e => decide (Bk G a0 e.1 ∧ Bk G a0 e.2) }

open Classical in
/-- the same edges, undirected -/
noncomputable def bucketUn (G D : MG) (a0 : Nat) : MG :=
  { nodes := G.nodes, un := D.dir.filter fun e => decide (Bk G a0 e.1 ∧ Bk G a0 e.2) }

theorem mem_bucketDag {a0 x y : Nat} :
    (x, y) ∈ (bucketDag G D a0).dir ↔ (x, y) ∈ D.dir ∧ Bk G a0 x ∧ Bk G a0 y := by
  simp [bucketDag]

theorem mem_bucketUn {a0 x y : Nat} :
    (x, y) ∈ (bucketUn G D a0).un ↔ (x, y) ∈ D.dir ∧ Bk G a0 x ∧ Bk G a0 y := by
  simp [bucketUn]

theorem skel_bucketDag (h : Ctx G D) {a0 x y : Nat} :
    Skel (bucketDag G D a0) x y ↔ Skel G x y ∧ Bk G a0 x ∧ Bk G a0 y := by
  have hun : (bucketDag G D a0).un = [] := rfl
  simp only [Skel, hun, List.not_mem_nil, or_false, mem_bucketDag]
  constructor
  · rintro (⟨e, hx, hy⟩ | ⟨e, hy, hx⟩)
    · exact ⟨(h.ext.skel x y).mp (Or.inl e), hx, hy⟩
    · exact ⟨(h.ext.skel x y).mp (Or.inr (Or.inl e)), hx, hy⟩
  · rintro ⟨hs, hx, hy⟩
    rcases ext_dir_of_skel h.ext hs with e | e
    · exact Or.inl ⟨e, hx, hy⟩
    · exact Or.inr ⟨e, hy, hx⟩

theorem skel_bucketUn {a0 x y : Nat} :
    Skel (bucketUn G D a0) x y ↔ Skel (bucketDag G D a0) x y := by
  have h1 : (bucketDag G D a0).un = [] := rfl
  have h2 : (bucketUn G D a0).dir = [] := rfl
  simp only [Skel, h1, h2, List.not_mem_nil, or_false, false_or, mem_bucketDag, mem_bucketUn]

/-- the undirected bucket with the restriction of `D` is again a closed PDAG with an extension -/
theorem Ctx.bucket_ctx (h : Ctx G D) (a0 : Nat) : Ctx (bucketUn G D a0) (bucketDag G D a0) := by
  have hd : (bucketUn G D a0).dir = [] := rfl
  refine ⟨?_, ⟨rfl, rfl, ?_, fun a b => skel_bucketUn.symm, ?_, ?_⟩, ?_⟩
  · intro a b e; rw [hd] at e; cases e
  · intro a b e hba
    exact h.ext.acyclic a b (mem_bucketDag.mp e).1
      (anc_mono (fun e he => (List.mem_filter.mp he).1) hba)
  · intro e he; rw [hd] at he; cases he
  · intro a c b
    constructor
    · rintro ⟨h1, h2, hab, hn⟩
      obtain ⟨e1, ha, hc⟩ := mem_bucketDag.mp h1
      obtain ⟨e2, hb, _⟩ := mem_bucketDag.mp h2
      have hn' : ¬ Skel D a b := fun s =>
        hn ((skel_bucketDag h).mpr ⟨(h.ext.skel a b).mp s, ha, hb⟩)
      exact (h.no_vstruct_bucket ((h.ext.vstruct a c b).mp ⟨e1, e2, hab, hn'⟩)
        ((UnConn.symm hc).trans ha)).elim
    · rintro ⟨h1, _⟩; rw [hd] at h1; cases h1
  · intro i j _
    refine ⟨?_, ?_, ?_, ?_⟩
    · rintro ⟨k, e, _⟩; rw [hd] at e; cases e
    · rintro ⟨k, e, _⟩; rw [hd] at e; cases e
    · rintro ⟨k, l, _, _, _, e, _⟩; rw [hd] at e; cases e
    · rintro ⟨k, l, _, _, e, _⟩; rw [hd] at e; cases e

/-- a consistent extension of the undirected bucket is a `BOr` -/
theorem Ctx.bor_of_bucket_ext (h : Ctx G D) {a0 : Nat} {D' : MG}
    (hD' : ConsistentExt (bucketUn G D a0) D') : BOr G a0 (dr D') := by
  have hd : (bucketUn G D a0).dir = [] := rfl
  have sk : ∀ x y, Skel D' x y → Skel G x y := fun x y s =>
    ((skel_bucketDag h).mp (skel_bucketUn.mp ((hD'.skel x y).mp s))).1
  refine ⟨fun x y e => sk x y (Or.inl e), ?_, no_cycle_of_acyclic hD'.acyclic, ?_⟩
  · intro x y hx hy hs
    exact ext_dir_of_skel hD' (skel_bucketUn.mpr ((skel_bucketDag h).mpr ⟨hs, hx, hy⟩))
  · intro x y z e1 e2 hxy
    apply Classical.byContradiction
    intro hn
    have := ((hD'.vstruct x z y).mp ⟨e1, e2, hxy, fun s => hn (sk x y s)⟩).1
    rw [hd] at this; cases this

/-- **no directed edge inside a bucket** of the essential graph of a pattern -/
theorem Ctx.no_dir_in_bucket (h : Ctx G D) {P : MG} (hP : ConsistentExt P D)
    (hnodes : P.nodes = G.nodes) (hskel : ∀ a b, Skel P a b ↔ Skel G a b)
    (hpat : ∀ a c, (a, c) ∈ P.dir → ∃ b, C08.VStruct P a c b)
    (hcomp : ∀ a b, (a, b) ∈ G.dir → Compelled P a b) {w x : Nat} (e : (w, x) ∈ G.dir) :
    ¬ UnConn G w x := by
  intro hc
  have hvs : ∀ a c b, C08.VStruct P a c b ↔ C08.VStruct G a c b := fun a c b =>
    (hP.vstruct a c b).symm.trans (h.ext.vstruct a c b)
  have hw : Bk G w w := UnConn.refl w
  have hu : HasUn (bucketUn G D w) w x := Or.inl (mem_bucketUn.mpr ⟨h.sub e, hw, hc⟩)
  obtain ⟨D', hD', hxw⟩ := (h.bucket_ctx w).both hu
  have hB := h.bor_of_bucket_ext hD'
  have hext : ConsistentExt P (liftDag G D w (dr D')) := by
    refine h.lift_ext_gen hB P hnodes hskel hvs ?_
    intro a c hac
    obtain ⟨b, hv⟩ := hpat a c hac
    refine Or.inr ⟨fun hb => ?_, hP.dir _ hac⟩
    exact h.no_vstruct_bucket ((hvs a c b).mp hv) ((UnConn.symm hb.2).trans hb.1)
  have h1 : (w, x) ∈ (liftDag G D w (dr D')).dir := hcomp w x e _ hext
  have h2 : (x, w) ∈ (liftDag G D w (dr D')).dir := (h.mem_lift hB).mpr (Or.inl ⟨hc, hw, hxw⟩)
  exact hext.acyclic w x h1 (Anc.step h2 (Anc.refl _))

/-- **Meek's Lemma 1** for the essential graph of a pattern: `w -> x - y` implies `w -> y` -/
theorem Ctx.chain_graph (h : Ctx G D) {P : MG} (hP : ConsistentExt P D)
    (hnodes : P.nodes = G.nodes) (hskel : ∀ a b, Skel P a b ↔ Skel G a b)
    (hpat : ∀ a c, (a, c) ∈ P.dir → ∃ b, C08.VStruct P a c b)
    (hcomp : ∀ a b, (a, b) ∈ G.dir → Compelled P a b) {w x y : Nat} (e : (w, x) ∈ G.dir)
    (hu : HasUn G x y) : (w, y) ∈ G.dir := by
  rcases skel_cases (h.r1 e hu) with a | a | a
  · exact a
  · exact absurd hu.symm (h.r2 a e)
  · exact absurd ((UnConn.single a).snoc hu.symm) (h.no_dir_in_bucket hP hnodes hskel hpat hcomp e)

end T3
