import Pw.C11.Spec
import Pw.C12.Cut
open Closure MG C12

/-! # C11: closure characterisation of `_bfs_with_marks`, soundness of both functions

* `mem_bfsWithMarks` – the marked set is exactly the set of nodes of `check_set` (other than the start
  node) adjacent to a node that is reachable from the start node through nodes outside `check_set`;
* `minimalMSep_sound` – a returned set `Z` satisfies `I ⊆ Z ⊆ R` and m-separates x and y
  (`Sep`, path-level `MSep` of C01);
* `isMinimalMSep_sound` – `True` is only answered for separators with `I ⊆ Z ⊆ R`.
(`_anterior` is characterised by `C12.mem_anterior`.) -/
namespace C11

/-! ## `_bfs_with_marks` -/

/-- nodes reachable from the start node `s`: every node after `s` is a node of `H` outside `K` -/
inductive BFree (H : UG) (K : List Nat) (s : Nat) : Nat → Prop
  | refl : BFree H K s s
  | step {v w : Nat} : BFree H K s v → UAdj H.edges v w → w ∈ H.nodes → w ∉ K → BFree H K s w

theorem mem_bfsStates {H : UG} {v : Nat} {b : Bool} : (v, b) ∈ bfsStates H ↔ v ∈ H.nodes := by
  cases b <;> simp [bfsStates]

theorem mem_bfsExpand {H : UG} {K : List Nat} {v w : Nat} {a b : Bool} :
    (w, b) ∈ bfsExpand H K (v, a) ↔ (a = false ∧ UAdj H.edges v w ∧ b = decide (w ∈ K)) := by
  cases a
  · simp only [bfsExpand, List.mem_map, Prod.mk.injEq, true_and]
    constructor
    · rintro ⟨u, hu, rfl, rfl⟩; exact ⟨mem_ugNbrs.mp hu, rfl⟩
    · rintro ⟨hu, rfl⟩; exact ⟨w, mem_ugNbrs.mpr hu, rfl, rfl⟩
  · simp [bfsExpand]

theorem reach_of_bfree {H : UG} {K : List Nat} {s u : Nat} (h : BFree H K s u) :
    Reach (bfsStates H) (bfsExpand H K) (s, false) (u, false) := by
  induction h with
  | refl => exact Reach.refl _
  | @step u w _ hadj hwn hwk ih =>
    exact Reach.tail ih ⟨mem_bfsExpand.mpr ⟨rfl, hadj, by simp [hwk]⟩, mem_bfsStates.mpr hwn⟩

theorem of_not_not {b : Bool} (h : ¬ (!b) = true) : b = true := by cases b <;> simp_all

/-- what the state closure reaches -/
theorem bfs_reach_iff {H : UG} {K : List Nat} {s v : Nat} {b : Bool} :
    Reach (bfsStates H) (bfsExpand H K) (s, false) (v, b) ↔
      ((b = false ∧ BFree H K s v) ∨
       (b = true ∧ v ∈ K ∧ v ∈ H.nodes ∧ ∃ u, BFree H K s u ∧ UAdj H.edges u v)) := by
  constructor
  · intro h
    generalize hs : (s, false) = st at h
    generalize ht : (v, b) = t at h
    induction h generalizing v b with
    | refl => cases hs; cases ht; exact Or.inl ⟨rfl, BFree.refl⟩
    | @tail mid t' hr hstep ih =>
      obtain ⟨u, a⟩ := mid
      cases ht
      obtain ⟨hmem, hU⟩ := hstep
      obtain ⟨rfl, hadj, hb⟩ := mem_bfsExpand.mp hmem
      have hvn : v ∈ H.nodes := mem_bfsStates.mp hU
      rcases ih (v := u) (b := false) rfl with ⟨_, hfree⟩ | ⟨h1, _⟩
      · by_cases hk : v ∈ K
        · right; exact ⟨by simp [hb, hk], hk, hvn, u, hfree, hadj⟩
        · left; exact ⟨by simp [hb, hk], BFree.step hfree hadj hvn hk⟩
      · cases h1
  · rintro (⟨rfl, h⟩ | ⟨rfl, hk, hvn, u, hu, hadj⟩)
    · exact reach_of_bfree h
    · have hr := reach_of_bfree hu
      exact Reach.tail hr ⟨mem_bfsExpand.mpr ⟨rfl, hadj, by simp [hk]⟩, mem_bfsStates.mpr hvn⟩

/-- **`_bfs_with_marks` characterised** (all inputs with the start node in the graph) -/
theorem mem_bfsWithMarks {H : UG} {K : List Nat} {s w : Nat} (hs : s ∈ H.nodes) :
    w ∈ bfsWithMarks H s K ↔
      (w ∈ K ∧ w ≠ s ∧ w ∈ H.nodes ∧ ∃ u, BFree H K s u ∧ UAdj H.edges u w) := by
  unfold bfsWithMarks
  simp only [List.mem_map, List.mem_filter, Bool.and_eq_true, bne_iff_ne, ne_eq]
  constructor
  · rintro ⟨⟨v, b⟩, ⟨hmem, hb, hne⟩, rfl⟩
    simp only at hb hne
    subst hb
    obtain ⟨st, hst, _, hr⟩ := (mem_closure _ _ _ _).mp hmem
    simp only [List.mem_singleton] at hst
    subst hst
    rcases bfs_reach_iff.mp hr with ⟨h, _⟩ | ⟨_, hk, hvn, u, hu, hadj⟩
    · cases h
    · exact ⟨hk, hne, hvn, u, hu, hadj⟩
  · rintro ⟨hk, hne, hwn, u, hu, hadj⟩
    refine ⟨(w, true), ⟨?_, rfl, hne⟩, rfl⟩
    exact (mem_closure _ _ _ _).mpr ⟨(s, false), by simp, mem_bfsStates.mpr hs,
      bfs_reach_iff.mpr (Or.inr ⟨rfl, hk, hwn, u, hu, hadj⟩)⟩

theorem bfsWithMarks_sub {H : UG} {K : List Nat} {s w : Nat} (h : w ∈ bfsWithMarks H s K) :
    w ∈ K ∧ w ≠ s ∧ w ∈ H.nodes := by
  unfold bfsWithMarks at h
  simp only [List.mem_map, List.mem_filter, Bool.and_eq_true, bne_iff_ne, ne_eq] at h
  obtain ⟨⟨v, b⟩, ⟨hmem, hb, hne⟩, rfl⟩ := h
  simp only at hb hne
  subst hb
  obtain ⟨st, hst, _, hr⟩ := (mem_closure _ _ _ _).mp hmem
  simp only [List.mem_singleton] at hst
  subst hst
  rcases bfs_reach_iff.mp hr with ⟨h, _⟩ | ⟨_, hk, hvn, _⟩
  · cases h
  · exact ⟨hk, hne, hvn⟩

/-! ## soundness -/

theorem subset_iff {A B : List Nat} : subset A B = true ↔ ∀ a ∈ A, a ∈ B := by
  simp [subset, List.all_eq_true]

theorem mem_delete_nodes {H : UG} {I : List Nat} {v : Nat} :
    v ∈ (delete H I).nodes ↔ (v ∈ H.nodes ∧ v ∉ I) := by
  simp [delete, List.mem_filter]

theorem mem_restrict_nodes {G : MG} {A : List Nat} {v : Nat} :
    v ∈ (restrict G A).nodes ↔ (v ∈ G.nodes ∧ v ∈ A) := by
  simp [restrict, List.mem_filter]

/-- the candidates `z` of the model lie in `R`, in `V`, and differ from `x` -/
theorem candidates_sub {G : MG} {x y : Nat} {I R : List Nat} {w : Nat}
    (h : w ∈ bfsWithMarks (delete (moral (restrict G (anterior G (x :: y :: I)))) I) y
          (bfsWithMarks (delete (moral (restrict G (anterior G (x :: y :: I)))) I) x
            ((R.filter (· ∈ anterior (restrict G (anterior G (x :: y :: I))) (x :: y :: I))).filter
              (fun v => v ≠ x ∧ v ≠ y)))) :
    w ∈ R ∧ w ∈ G.nodes ∧ w ≠ x ∧ w ≠ y := by
  obtain ⟨h1, hy, hn⟩ := bfsWithMarks_sub h
  obtain ⟨h2, _, _⟩ := bfsWithMarks_sub h1
  simp only [List.mem_filter, decide_eq_true_eq] at h2
  have hn' := (mem_delete_nodes.mp hn).1
  exact ⟨h2.1.1, (mem_restrict_nodes.mp hn').1, h2.2.1, hy⟩

/-- **C11 soundness of `minimal_m_separator`.** On the domain of C01, with x ∈ V, I ⊆ V, x ∉ I: a
    returned `Z` satisfies `I ⊆ Z ⊆ R` and x, y are m-separated given `Z` (path-level definition). -/
theorem minimalMSep_sound (G : MG) (hwf : G.WF) (hb : NoUndirAtHead G) (hsl : NoSelfLoop G)
    (x y : Nat) (I R : List Nat) (hx : x ∈ G.nodes) (hI : ∀ i ∈ I, i ∈ G.nodes) (hxI : x ∉ I)
    (Z : List Nat) (h : minimalMSep G x y I R = .ok (some Z)) : Sep G x y I R Z := by
  unfold minimalMSep at h
  split at h
  · cases h
  · rename_i hIR
    have hIR' := subset_iff.mp (of_not_not hIR)
    simp only at h
    unfold finish at h
    split at h
    · cases h
    · cases h
    · rename_i hsep
      simp only [Except.ok.injEq, Option.some.injEq] at h
      subst h
      have hz := fun w hw => candidates_sub (G := G) (x := x) (y := y) (I := I) (R := R) (w := w) hw
      refine ⟨fun i hi => List.mem_append_right _ hi, ?_, ?_⟩
      · intro w hw
        rcases List.mem_append.mp hw with hw | hw
        · exact (hz w hw).1
        · exact hIR' w hw
      · have := (mSeparatedE_spec G hwf hb hsl [x] [y] _ (by simpa using hx) ?_ ?_ true).mp hsep
        · exact this.2.mp rfl
        · intro w hw
          rcases List.mem_append.mp hw with hw | hw
          · exact (hz w hw).2.1
          · exact hI w hw
        · intro x' hx' hmem
          simp only [List.mem_singleton] at hx'
          subst hx'
          rcases List.mem_append.mp hmem with hw | hw
          · exact (hz _ hw).2.2.1 rfl
          · exact hxI hw

/-- **C11 soundness of `is_minimal_m_separator`.** `True` is answered only for sets with
    `I ⊆ Z ⊆ R` that m-separate x and y (x ∈ V, x ∉ R). -/
theorem isMinimalMSep_sound (G : MG) (hwf : G.WF) (hb : NoUndirAtHead G) (hsl : NoSelfLoop G)
    (x y : Nat) (Z I R : List Nat) (hx : x ∈ G.nodes) (hxR : x ∉ R)
    (h : isMinimalMSep G x y Z I R = .ok true) : Sep G x y I R Z := by
  unfold isMinimalMSep at h
  split at h
  · cases h
  · rename_i hIZ
    split at h
    · cases h
    · rename_i hZR
      have hIZ := of_not_not hIZ
      have hZR := of_not_not hZR
      simp only at h
      split at h
      · cases h
      · rename_i hZA
        have hZA := of_not_not hZA
        split at h
        · cases h
        · cases h
        · rename_i hsep
          refine ⟨subset_iff.mp hIZ, subset_iff.mp hZR, ?_⟩
          have := (mSeparatedE_spec G hwf hb hsl [x] [y] Z (by simpa using hx) ?_ ?_ true).mp hsep
          · exact this.2.mp rfl
          · intro w hw; exact anterior_sub_nodes (subset_iff.mp hZA w hw)
          · intro x' hx' hmem
            simp only [List.mem_singleton] at hx'
            subst hx'
            exact hxR (subset_iff.mp hZR _ hmem)

end C11
