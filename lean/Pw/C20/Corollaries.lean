import Pw.C20.Trace

/-!
C20 — the sentences of the English property as single theorems over histories (corollaries of
`Proofs.lean` / `Counter.lean`).
-/
namespace C20

/-- **"each F-node is registered with exactly the targets it was created with, which are exactly
its children"**, as one statement over histories: run any history `pre`; call `add_f_node(ts)` on
object `g` and let it return; then there is a name `k` that was not a node of `g`, such that after
ANY further history `post` that does not remove `('F', k)` from `g` itself (it may remove other
nodes, copy `g`, edit the copies, edit other graphs, add more F-nodes to `g`, …) object `g` has
`('F', k)` registered with exactly `ts` (and the given domain) and the children of `('F', k)` in
`g` are exactly `ts`. -/
theorem created_targets_forever (pre post : List Op) (g : Nat) (ts : List Nat) (u : Bool) (d : Option (List Nat))
    (hok : (step Cfg.fixed (run Cfg.fixed init pre) (.at g (.addF ts u d))).2 = .ok) :
    ∃ k, (∀ b ∈ view Cfg.fixed (run Cfg.fixed init pre) g, Node.f k ∉ b.nodes) ∧
      ((∀ op ∈ post, op ≠ .at g (.rmF k)) →
        ∀ a ∈ view Cfg.fixed (run Cfg.fixed (step Cfg.fixed (run Cfg.fixed init pre) (.at g (.addF ts u d))).1 post) g,
          (k, ⟨ts, d.getD [1]⟩) ∈ a.fs ∧ ∀ t, t ∈ a.children (.f k) ↔ t ∈ ts) := by
  have hs := run_inv pre init_inv
  generalize run Cfg.fixed init pre = s at hs hok ⊢
  cases ho : s.objs[g]? with
  | none =>
    have : (stepAt Cfg.fixed s g (.addF ts u d)).2 = .ok := hok
    rw [stepAt_none _ ho] at this; cases this
  | some o =>
    have hl := hs.linv g o ho
    have hst : (stepLocal Cfg.fixed (localOf s o) (.addF ts u d)).2 = .ok := by
      have : (stepAt Cfg.fixed s g (.addF ts u d)).2 = .ok := hok
      rw [stepAt_some _ ho] at this; exact this
    have hself := stepAt_view_self hs (.addF ts u d) ho
    simp only [stepLocal] at hst hself
    rcases addF_cases Cfg.fixed (localOf s o) ts u d with e | ⟨e, _⟩
    · rw [e] at hst; cases hst
    · rw [e] at hself
      refine ⟨nameF Cfg.fixed (localOf s o), ?_, ?_⟩
      · intro b hb
        rw [view_at ho] at hb; cases hb
        exact nameF_fresh _
      · intro hne a ha
        have hs1 : HInv (step Cfg.fixed s (.at g (.addF ts u d))).1 := step_inv hs _
        have hg : g < (step Cfg.fixed s (.at g (.addF ts u d))).1.objs.length := by
          have := (List.getElem?_eq_some_iff.1 ho).1
          have h2 := step_len s hs (.at g (.addF ts u d))
          omega
        have hin : (nameF Cfg.fixed (localOf s o), (⟨ts, d.getD [1]⟩ : FEntry)) ∈
            (lview (addFok Cfg.fixed (localOf s o) ts d)).fs := by
          simp [lview, addFok, mem_dSet_new (nameF_not_key hl)]
        have hkeep := targets_stable_run post hs1 g _ _ hg hne _ (Option.mem_def.2 hself) hin a ha
        have hreg := reg_of_inv (run_inv post hs1) (Option.mem_def.1 ha)
        exact ⟨hkeep, fun t => ⟨hreg.children_targets _ hkeep t, hreg.targets_children _ hkeep t⟩⟩

/-- **"The registries of a copy and its original are independent"**, direction original: whatever
is done afterwards to the copy (object number `s.objs.length`) or to any object other than `g`,
`g` shows what it showed before it was copied. -/
theorem copy_leaves_original {s : State} (hs : HInv s) (g : Nat) (hg : g < s.objs.length) (ops : List Op)
    (hops : ∀ op ∈ ops, some g ≠ op.target) :
    view Cfg.fixed (run Cfg.fixed (step Cfg.fixed s (.copy g)).1 ops) g = view Cfg.fixed s g := by
  have h1 := frame_step hs (.copy g) g hg (by simp [Op.target])
  have h2 := frame_run ops (step_inv hs (.copy g)) g (Nat.lt_of_lt_of_le hg (step_len s hs _)) hops
  exact h2.trans h1

/-- direction copy: whatever is done afterwards to the original or to any object other than the
copy, the copy keeps showing what the original showed at the moment of the copy. -/
theorem original_leaves_copy {s : State} (hs : HInv s) (g : Nat) (b : View) (hb : view Cfg.fixed s g = some b)
    (ops : List Op) (hops : ∀ op ∈ ops, some s.objs.length ≠ op.target) :
    view Cfg.fixed (run Cfg.fixed (step Cfg.fixed s (.copy g)).1 ops) s.objs.length = some b := by
  have h1 := copy_same_view hs g b hb
  have hlen : s.objs.length < (step Cfg.fixed s (.copy g)).1.objs.length := by
    unfold view at h1
    cases h : (step Cfg.fixed s (.copy g)).1.objs[s.objs.length]? with
    | none => rw [h] at h1; cases h1
    | some o => exact (List.getElem?_eq_some_iff.1 h).1
  exact (frame_run ops (step_inv hs (.copy g)) _ hlen hops).trans h1

/-- **"… and of two separately constructed graphs"**: a newly constructed graph shows nothing, and
keeps showing nothing whatever is done to the graphs that existed before (and vice versa by
`frame_run`). -/
theorem new_graph_independent {s : State} (hs : HInv s) (cls : Cls) (ops : List Op)
    (hops : ∀ op ∈ ops, some s.objs.length ≠ op.target) :
    ∀ a ∈ view Cfg.fixed (run Cfg.fixed (step Cfg.fixed s (.new cls)).1 ops) s.objs.length,
      a.nodes = [] ∧ a.fs = [] ∧ a.ss = [] ∧ a.doms = [] := by
  intro a ha
  have h1 : view Cfg.fixed (step Cfg.fixed s (.new cls)).1 s.objs.length =
      some (lview ⟨{ cls := cls, reg := 0 }, {}, s.classDoms⟩) := by
    rw [step_new]; exact alloc_view_new _ _ _
  have hlen : s.objs.length < (step Cfg.fixed s (.new cls)).1.objs.length := by
    rw [step_new, alloc_len]; omega
  rw [frame_run ops (step_inv hs (.new cls)) _ hlen hops, h1, Option.mem_def] at ha
  cases ha
  exact ⟨rfl, rfl, rfl, rfl⟩

/-- non-vacuity of `created_targets_forever`: `demo` = `preLen ++ add_f_node({0,1}) :: post` where
the call returns and `post` (copy, edits of the copy and of a third graph, removal of F1 from the
copy) never removes F2 from object 0 -/
example : (step Cfg.fixed (run Cfg.fixed init preLen) (.at 0 (.addF [0, 1] true (some [2])))).2 = .ok ∧
    (∀ op ∈ demo.drop 7, op ≠ .at 0 (.rmF 2)) ∧ demo.drop 7 ≠ [] := by decide

end C20
