"""C14 translator: Python AST -> Lean for the propositional part of the exporters / importers.

Parses the CURRENT `pywhy_graphs/config.py` (EDGE_TO_VALUE_MAPPING, endpoint enums) and the per-pair
endpoint case analyses of `graph_to_clearn`, `clearn_to_graph`, `pcalg_to_graph`, `graph_to_pcalg`
and of `tetrad_to_graph`
(fragment: if/elif/else, and/or/not, ==, !=, `in`, has_edge(u,v[,layer]), enum constants, assignment of
enum constants to the endpoint variables / matrix cells, add_edge calls, raise, print) and emits
`.cache/gen/C14Gen.lean`: the generated definitions (namespace C14Gen) followed by theorems, closed by
`decide`, that (1) the generated functions coincide with the committed hand models of
`lean/Pw/C14/Model.lean` on the complete finite input table and (2) the round-trip / code-point
tables hold for the generated definitions themselves.  Anything outside the fragment raises
`Untranslatable`; the check then relies on the hand model + correspondence."""
import ast
import os


class Untranslatable(Exception):
    pass


def _src(repo, rel):
    return open(os.path.join(repo, rel)).read()


# ----------------------------------------------------------------------------- config.py
def parse_config(repo):
    mod = ast.parse(_src(repo, "pywhy_graphs/config.py"))
    out = {"enums": {}}
    for node in mod.body:
        if isinstance(node, ast.Assign) and len(node.targets) == 1 and isinstance(node.targets[0], ast.Name) \
                and node.targets[0].id == "EDGE_TO_VALUE_MAPPING":
            if not isinstance(node.value, ast.Dict):
                raise Untranslatable("EDGE_TO_VALUE_MAPPING is not a dict literal")
            d = {}
            for k, v in zip(node.value.keys, node.value.values):
                if not (isinstance(k, ast.Constant) and isinstance(v, ast.Constant) and isinstance(v.value, int)):
                    raise Untranslatable("EDGE_TO_VALUE_MAPPING entry")
                d[k.value] = v.value
            out["edge_to_value"] = d
        if isinstance(node, ast.ClassDef) and node.name in ("EdgeType", "TetradEndpoint", "PCAlgPAGEndpoint",
                                                              "PCAlgCPDAGEndpoint", "CLearnEndpoint"):
            members = {}
            for st in node.body:
                if isinstance(st, ast.Assign) and len(st.targets) == 1 and isinstance(st.targets[0], ast.Name):
                    v = st.value
                    if isinstance(v, ast.UnaryOp) and isinstance(v.op, ast.USub) and isinstance(v.operand, ast.Constant):
                        members[st.targets[0].id] = -v.operand.value
                    elif isinstance(v, ast.Constant):
                        members[st.targets[0].id] = v.value
                    else:
                        raise Untranslatable("enum member " + node.name)
            out["enums"][node.name] = members
    if "edge_to_value" not in out or len(out["enums"]) != 5:
        raise Untranslatable("config tables not found")
    return out


# ----------------------------------------------------------------------------- expression helpers
LAYER = {"DIRECTED": "directed", "BIDIRECTED": "bidirected", "UNDIRECTED": "undirected", "CIRCLE": "circle"}


def enum_ref(e):
    """Enum.MEMBER or Enum.MEMBER.value -> (enum, member)"""
    if isinstance(e, ast.Attribute) and e.attr == "value":
        e = e.value
    if isinstance(e, ast.Attribute) and isinstance(e.value, ast.Name):
        return e.value.id, e.attr
    raise Untranslatable("enum reference " + ast.dump(e))


def lean_int(v):
    return "(%d : Int)" % v


class Ctx:
    def __init__(self, cfg):
        self.cfg = cfg

    def enum_val(self, e):
        en, mem = enum_ref(e)
        try:
            return self.cfg["enums"][en][mem]
        except KeyError:
            raise Untranslatable("unknown enum member %s.%s" % (en, mem))

    def layer(self, e):
        """EdgeType.X.value | graph.x_edge_name | G.x_edge_name -> layer name"""
        if isinstance(e, ast.Attribute) and e.attr.endswith("_edge_name"):
            return e.attr[:-len("_edge_name")]
        en, mem = enum_ref(e)
        if en != "EdgeType" or mem not in LAYER:
            raise Untranslatable("layer " + ast.dump(e))
        if self.cfg["enums"]["EdgeType"][mem] != LAYER[mem]:
            raise Untranslatable("EdgeType value changed")
        return LAYER[mem]


def boolop(e, rec):
    if isinstance(e, ast.BoolOp):
        op = " || " if isinstance(e.op, ast.Or) else " && "
        return "(" + op.join(rec(v) for v in e.values) + ")"
    if isinstance(e, ast.UnaryOp) and isinstance(e.op, ast.Not):
        return "(!" + rec(e.operand) + ")"
    return None


def if_chain(st):
    """If node -> [(test, body)], else-body"""
    cases = []
    while True:
        cases.append((st.test, st.body))
        if len(st.orelse) == 1 and isinstance(st.orelse[0], ast.If):
            st = st.orelse[0]
        else:
            return cases, st.orelse


def is_print(st):
    return isinstance(st, ast.Expr) and isinstance(st.value, ast.Call) and isinstance(st.value.func, ast.Name) \
        and st.value.func.id == "print"


def is_doc(st):
    return isinstance(st, ast.Expr) and isinstance(st.value, ast.Constant)


# ----------------------------------------------------------------------------- generic block translator
def block(stmts, k, test, assign, call=None):
    """continuation-passing translation of a statement list into a Lean expression.
    test(expr)->Lean Bool; assign(stmt)->'let …;' prefix or None; call(stmt)->'let …;' prefix or None;
    k = Lean expression evaluated after the block."""
    out = k
    for st in reversed(stmts):
        if is_print(st) or is_doc(st) or isinstance(st, ast.Pass):
            continue
        if isinstance(st, ast.Raise):
            out = "none"
            continue
        if isinstance(st, ast.If):
            cases, orelse = if_chain(st)
            cur = block(orelse, out, test, assign, call)
            for t, body in reversed(cases):
                cur = "(if %s then %s else %s)" % (test(t), block(body, out, test, assign, call), cur)
            out = cur
            continue
        pre = assign(st) if isinstance(st, (ast.Assign, ast.AugAssign)) else (call(st) if call and isinstance(st, ast.Expr) else None)
        if pre is None:
            raise Untranslatable("statement " + ast.dump(st)[:120])
        out = "(%s %s)" % (pre, out)
    return out


def find_fn(mod, name):
    for n in mod.body:
        if isinstance(n, ast.FunctionDef) and n.name == name:
            return n
    raise Untranslatable("function %s not found" % name)


def inner_loop_body(fn, depth):
    """body of the (depth)-fold nested for loop of a function"""
    body = fn.body
    for _ in range(depth):
        loops = [s for s in body if isinstance(s, ast.For)]
        if len(loops) != 1:
            raise Untranslatable("loop structure of " + fn.name)
        body = loops[0].body
    return body


# ----------------------------------------------------------------------------- graph_to_clearn
def tr_graph_to_clearn(ctx, mod):
    fn = find_fn(mod, "graph_to_clearn")
    body = inner_loop_body(fn, 2)
    idx = [i for i, s in enumerate(body) if isinstance(s, ast.If) and "uv_edge_types" in ast.dump(s.test)]
    if len(idx) != 1:
        raise Untranslatable("graph_to_clearn: case analysis not found")
    main = body[idx[0]]
    tail = body[idx[0] + 1:]
    want = ["arr[udx, vdx] = endpoint_u.value", "arr[vdx, udx] = endpoint_v.value"]
    if [ast.unparse(s) for s in tail] != want:
        raise Untranslatable("graph_to_clearn: cell assignment changed")
    head = [ast.unparse(s) for s in body[:idx[0]]]
    for h in head:
        ok = (h.startswith("if u == v") or h.startswith("if v not in G.neighbors(u)") or h in (
            "udx = arr_idx.index(u)", "vdx = arr_idx.index(v)", "uv_edge_types = edge_types(G, u, v)"))
        if not ok:
            raise Untranslatable("graph_to_clearn: unexpected statement " + h)

    def has_edge(e):
        if not (isinstance(e, ast.Call) and isinstance(e.func, ast.Attribute) and e.func.attr == "has_edge"
                and isinstance(e.func.value, ast.Name) and e.func.value.id == "G"):
            return None
        a = tuple(x.id if isinstance(x, ast.Name) else None for x in e.args[:2])
        if a not in (("u", "v"), ("v", "u")):
            raise Untranslatable("has_edge arguments")
        d = "uv" if a == ("u", "v") else "vu"
        if len(e.args) == 2 and not e.keywords:
            return "p.any" + d.upper()
        if len(e.args) == 3:
            lay = ctx.layer(e.args[2])
            return {"directed": "p.d" + d, "circle": "p.c" + d, "bidirected": "p.bi", "undirected": "p.un"}[lay]
        raise Untranslatable("has_edge call")

    HAS = {"directed": "p.hasD", "bidirected": "p.bi", "undirected": "p.un", "circle": "p.hasC"}

    def test(e):
        b = boolop(e, test)
        if b:
            return b
        h = has_edge(e)
        if h:
            return h
        if isinstance(e, ast.Compare) and len(e.ops) == 1:
            l, op, r = e.left, e.ops[0], e.comparators[0]
            if ast.unparse(l) == "len(uv_edge_types)" and isinstance(op, ast.Eq) and isinstance(r, ast.Constant):
                return "(p.nTypes == %d)" % r.value
            if isinstance(l, ast.Name) and l.id == "edge_type" and isinstance(op, ast.Eq):
                return HAS[ctx.layer(r)]
            if isinstance(op, ast.In) and ast.unparse(r) == "uv_edge_types":
                return HAS[ctx.layer(l)]
        raise Untranslatable("graph_to_clearn test " + ast.unparse(e))

    def assign(st):
        if isinstance(st, ast.Assign) and len(st.targets) == 1 and isinstance(st.targets[0], ast.Name):
            t = st.targets[0].id
            if t == "edge_type" and ast.unparse(st.value) == "uv_edge_types[0]":
                return ""
            if t in ("endpoint_u", "endpoint_v"):
                en, _ = enum_ref(st.value)
                if en != "CLearnEndpoint":
                    raise Untranslatable("endpoint enum")
                return "let %s : Option Int := some %s;" % ("eu" if t == "endpoint_u" else "ev", lean_int(ctx.enum_val(st.value)))
        return None
    k = "(match eu, ev with | some a, some b => some (a, b) | _, _ => none)"
    expr = block([main], k, test, assign)
    return ("def clEncPair (p : C14.PB) : Option (Int × Int) :=\n  let eu : Option Int := none\n"
            "  let ev : Option Int := none\n  %s\n" % expr)


# ----------------------------------------------------------------------------- clearn_to_graph
def add_edge_op(ctx, st, uname, vname, gname):
    """graph.add_edge(u, v, edge_type=graph.x_edge_name) / G.add_edge(a, b, G.x_edge_name) -> Lean Op"""
    if not (isinstance(st, ast.Expr) and isinstance(st.value, ast.Call)):
        return None
    c = st.value
    if not (isinstance(c.func, ast.Attribute) and c.func.attr == "add_edge" and isinstance(c.func.value, ast.Name)
            and c.func.value.id == gname):
        return None
    a = tuple(x.id if isinstance(x, ast.Name) else None for x in c.args[:2])
    if a == (uname, vname):
        rev = "false"
    elif a == (vname, uname):
        rev = "true"
    else:
        raise Untranslatable("add_edge arguments")
    if len(c.args) == 3:
        lay = ctx.layer(c.args[2])
    elif len(c.keywords) == 1 and c.keywords[0].arg == "edge_type":
        lay = ctx.layer(c.keywords[0].value)
    else:
        raise Untranslatable("add_edge edge type")
    return "let ops := ops ++ [C14.Op.mk %s C14.ET.%s];" % (rev, lay)


def tr_clearn_to_graph(ctx, mod):
    fn = find_fn(mod, "clearn_to_graph")
    body = inner_loop_body(fn, 2)
    head = [ast.unparse(s) for s in body[:-1]]
    want = ["if udx == vdx:\n    continue", "endpoint_v = CLearnEndpoint(arr[vdx, udx])",
            "endpoint_u = CLearnEndpoint(arr[udx, vdx])", "u = arr_idx[udx]", "v = arr_idx[vdx]"]
    if head != want or not isinstance(body[-1], ast.If):
        raise Untranslatable("clearn_to_graph: loop body changed")

    def ep(e):
        if isinstance(e, ast.Name) and e.id in ("endpoint_u", "endpoint_v"):
            return "eu" if e.id == "endpoint_u" else "ev"
        return None

    def gen_over_endpoints(call, inner):
        """any/all(<cond on `endpoint`> for endpoint in (endpoint_u, endpoint_v))"""
        g = call.args[0]
        if not (isinstance(g, ast.GeneratorExp) and len(g.generators) == 1 and not g.generators[0].ifs
                and ast.unparse(g.generators[0].iter) == "(endpoint_u, endpoint_v)"
                and isinstance(g.generators[0].target, ast.Name)):
            raise Untranslatable("generator")
        var = g.generators[0].target.id
        return [inner(g.elt, var, x) for x in ("eu", "ev")]

    def elt(e, var, sub):
        if isinstance(e, ast.Compare) and len(e.ops) == 1 and isinstance(e.left, ast.Name) and e.left.id == var:
            op, r = e.ops[0], e.comparators[0]
            if isinstance(op, ast.In) and isinstance(r, ast.List):
                return "(" + " || ".join("%s == %s" % (sub, lean_int(ctx.enum_val(x))) for x in r.elts) + ")"
            if isinstance(op, ast.NotEq):
                return "(%s != %s)" % (sub, lean_int(ctx.enum_val(r)))
            if isinstance(op, ast.Eq):
                return "(%s == %s)" % (sub, lean_int(ctx.enum_val(r)))
        raise Untranslatable("generator element " + ast.unparse(e))

    def test(e):
        b = boolop(e, test)
        if b:
            return b
        if isinstance(e, ast.Call) and isinstance(e.func, ast.Name) and e.func.id in ("any", "all"):
            parts = gen_over_endpoints(e, elt)
            return "(" + (" || " if e.func.id == "any" else " && ").join(parts) + ")"
        if isinstance(e, ast.Call) and isinstance(e.func, ast.Name) and e.func.id == "hasattr" \
                and ast.unparse(e.args[0]) == "graph" and isinstance(e.args[1], ast.Constant) \
                and e.args[1].value.endswith("_edge_name"):
            return "(C14.hasLayer c C14.ET.%s)" % e.args[1].value[:-len("_edge_name")]
        if isinstance(e, ast.Compare) and len(e.ops) == 1 and ep(e.left):
            op, r = e.ops[0], e.comparators[0]
            if isinstance(op, (ast.Eq, ast.NotEq)):
                return "(%s %s %s)" % (ep(e.left), "==" if isinstance(op, ast.Eq) else "!=", lean_int(ctx.enum_val(r)))
        raise Untranslatable("clearn_to_graph test " + ast.unparse(e))

    expr = block([body[-1]], "some ops", test, lambda st: None, lambda st: add_edge_op(ctx, st, "u", "v", "graph"))
    return ("def clDecPair (c : C14.Cls) (eu ev : Int) : Option (List C14.Op) :=\n"
            "  let ops : List C14.Op := []\n  %s\n" % expr)


# ----------------------------------------------------------------------------- pcalg_to_graph
def tr_pcalg_to_graph(ctx, mod):
    fn = find_fn(mod, "pcalg_to_graph")
    body = inner_loop_body(fn, 1)
    head = [ast.unparse(s) for s in body[:-1]]
    want = ["arr_val = arr[idx, jdx]", "u, v = (arr_idx[idx], arr_idx[jdx])", "if (idx, jdx) in memo_map:\n    continue",
            "memo_map[idx, jdx] = None", "memo_map[jdx, idx] = None"]
    if head != want or not isinstance(body[-1], ast.If):
        raise Untranslatable("pcalg_to_graph: loop body changed: %r" % (head,))

    def test(e):
        b = boolop(e, test)
        if b:
            return b
        if isinstance(e, ast.Compare) and len(e.ops) == 1 and isinstance(e.ops[0], ast.Eq):
            l, r = ast.unparse(e.left), e.comparators[0]
            if l == "amat_type" and isinstance(r, ast.Constant) and r.value in ("pag", "cpdag"):
                return "(c == C14.Cls.%s)" % r.value
            if l == "arr_val":
                return "(x == %s)" % lean_int(ctx.enum_val(r))
            if l == "arr[jdx, idx]":
                return "(y == %s)" % lean_int(ctx.enum_val(r))
        raise Untranslatable("pcalg_to_graph test " + ast.unparse(e))
    expr = block([body[-1]], "some ops", test, lambda st: None, lambda st: add_edge_op(ctx, st, "u", "v", "graph"))
    return ("def pcDecPair (c : C14.Cls) (x y : Int) : List C14.Op :=\n  let ops : List C14.Op := []\n"
            "  (%s : Option (List C14.Op)).getD []\n" % expr)


# ----------------------------------------------------------------------------- graph_to_pcalg
def tr_graph_to_pcalg(ctx, mod):
    fn = find_fn(mod, "graph_to_pcalg")
    src = [ast.unparse(s) for s in fn.body if not is_doc(s)]
    if "clearn_arr = clearn_arr.T" not in src or "clearn_arr, _ = graph_to_clearn(causal_graph)" not in src:
        raise Untranslatable("graph_to_pcalg: transposition changed")
    body = inner_loop_body(fn, 1)
    head = [ast.unparse(s) for s in body[:2]]
    want = ["if (idx, jdx) in seen_idx or (jdx, idx) in seen_idx:\n    continue", "seen_idx[idx, jdx] = None"]
    if head != want or not all(isinstance(s, ast.If) for s in body[2:]):
        raise Untranslatable("graph_to_pcalg: loop body changed")
    CELL = {"clearn_arr[idx, jdx]": "x", "clearn_arr[jdx, idx]": "y"}

    def test(e):
        b = boolop(e, test)
        if b:
            return b
        if isinstance(e, ast.Compare) and len(e.ops) == 1 and isinstance(e.ops[0], ast.Eq):
            l, r = ast.unparse(e.left), e.comparators[0]
            if l == "amat_type" and isinstance(r, ast.Constant) and r.value in ("pag", "cpdag"):
                return "(c == C14.Cls.%s)" % r.value
            if l in CELL:
                return "(%s == %s)" % (CELL[l], lean_int(ctx.enum_val(r)))
        raise Untranslatable("graph_to_pcalg test " + ast.unparse(e))

    def assign(st):
        if isinstance(st, ast.Assign) and len(st.targets) == 1 and ast.unparse(st.targets[0]) in CELL:
            return "let %s : Int := %s;" % (CELL[ast.unparse(st.targets[0])], lean_int(ctx.enum_val(st.value)))
        return None
    expr = block(body[2:], "some (x, y)", test, assign)
    return ("def pcRemap (c : C14.Cls) (x y : Int) : Int × Int :=\n  (%s : Option (Int × Int)).getD (x, y)\n" % expr)


# ----------------------------------------------------------------------------- tetrad_to_graph
def tr_tetrad_to_graph(ctx, mod):
    fn = find_fn(mod, "tetrad_to_graph")
    target = None
    for node in ast.walk(fn):
        if isinstance(node, ast.If) and ast.unparse(node.test) == "len(words) > 0 and words[0][-1] == '.'":
            target = node
    if target is None:
        raise Untranslatable("tetrad_to_graph: edge-line branch not found")
    body = target.body
    head = [ast.unparse(s) for s in body[:5]]
    want = ["next_nodes_line = False", "node1 = words[1]", "node2 = words[3]", "end1 = words[2][0]", "end2 = words[2][-1]"]
    if head != want:
        raise Untranslatable("tetrad_to_graph: token extraction changed")
    tet = ctx.cfg["enums"]["TetradEndpoint"]

    def ch(v):
        if not (isinstance(v, str) and len(v) == 1 and v not in "'\\"):
            raise Untranslatable("tetrad endpoint character")
        return "'%s'" % v

    def val(e):
        if isinstance(e, ast.Constant):
            return ch(e.value)
        en, mem = enum_ref(e)
        if en != "TetradEndpoint":
            raise Untranslatable("tetrad enum")
        return ch(tet[mem])

    def test(e):
        b = boolop(e, test)
        if b:
            return b
        if isinstance(e, ast.Compare) and len(e.ops) == 1 and isinstance(e.ops[0], ast.Eq) \
                and isinstance(e.left, ast.Name) and e.left.id in ("end1", "end2"):
            return "(%s == %s)" % ("e1" if e.left.id == "end1" else "e2", val(e.comparators[0]))
        raise Untranslatable("tetrad_to_graph test " + ast.unparse(e))

    def assign(st):
        if isinstance(st, ast.Assign) and len(st.targets) == 1 and isinstance(st.targets[0], ast.Name) \
                and st.targets[0].id in ("end1", "end2"):
            return "let %s : Char := %s;" % ("e1" if st.targets[0].id == "end1" else "e2", val(st.value))
        return None
    expr = block(body[5:], "some ops", test, assign, lambda st: add_edge_op(ctx, st, "node1", "node2", "G"))
    return ("def tetDecLine (e1 e2 : Char) : List C14.Op :=\n  let ops : List C14.Op := []\n"
            "  (%s : Option (List C14.Op)).getD []\n" % expr)


# ----------------------------------------------------------------------------- output
THEOREMS = r'''
/-! generated definitions = committed hand models, on the complete finite input tables -/
def codes : List Int := [-3, -2, -1, 0, 1, 2, 3, 4, 5, 6, 7, 8]

theorem gen_clEncPair_eq : ∀ a b c d e f : Bool, clEncPair ⟨a, b, c, d, e, f⟩ = C14.clEncPair ⟨a, b, c, d, e, f⟩ := by decide
theorem gen_clDecPair_eq : ∀ c ∈ C14.allCls, ∀ x ∈ codes, ∀ y ∈ codes, clDecPair c x y = C14.clDecPair c x y := by decide
theorem gen_pcDecPair_eq : ∀ c ∈ C14.allCls, ∀ x ∈ codes, ∀ y ∈ codes, pcDecPair c x y = C14.pcDecPair c x y := by decide
theorem gen_tetDecLine_eq : ∀ e1 ∈ ['-', '>', '<', 'o', 'x'], ∀ e2 ∈ ['-', '>', '<', 'o', 'x'],
    tetDecLine e1 e2 = C14.tetDecLine e1 e2 := by decide
theorem gen_pcRemap_eq : ∀ c ∈ C14.allCls, ∀ x ∈ codes, ∀ y ∈ codes, pcRemap c x y = C14.pcRemap c x y := by decide

/-! the round-trip tables, re-proved for the generated definitions themselves -/
theorem gen_clearn_export : ∀ c ∈ C14.allCls, ∀ e ∈ C14.table c .clearn, clEncPair (e.1.mask c) = some (e.2.1, e.2.2) := by decide
theorem gen_clearn_import : ∀ c ∈ C14.allCls, ∀ e ∈ C14.tableZ c .clearn, ∀ s ∈ C14.allBools, ∀ t ∈ C14.allBools,
    ∃ ops, clDecPair c e.2.1 e.2.2 = some ops ∧ C14.applyOps c (C14.fAny e.1 s t) ops = some (C14.fAny e.1 true t) := by decide
theorem gen_pcalg_export : ∀ c ∈ [C14.Cls.cpdag, .pag], ∀ e ∈ C14.table c .pcalg,
    (clEncPair (e.1.mask c)).map (fun q => pcRemap c q.2 q.1) = some (e.2.1, e.2.2) := by decide
theorem gen_pcalg_import : ∀ c ∈ [C14.Cls.cpdag, .pag], ∀ e ∈ C14.tableZ c .pcalg,
    e.2.1 ≠ 0 → C14.applyOps c C14.PB.empty (pcDecPair c e.2.1 e.2.2) = some e.1 := by decide
/-- documented code point: pcalg PAG amat[a,b]=2, amat[b,a]=3  <->  a --> b -/
theorem gen_pcalg_pag_codepoint : (clEncPair C14.cRight).map (fun q => pcRemap .pag q.2 q.1) = some (2, 3) ∧
    C14.applyOps .pag C14.PB.empty (pcDecPair .pag 2 3) = some C14.cRight := by decide
'''


def generate(repo):
    """returns the text of C14Gen.lean; raises Untranslatable"""
    cfg = parse_config(repo)
    ctx = Ctx(cfg)
    e2v, en = cfg["edge_to_value"], cfg["enums"]
    out = ["import Pw.C14.Pair", "", "/-! GENERATED by translate/codecs.py from the current source - do not edit -/",
           "namespace C14Gen", ""]
    consts = [("npDirected", e2v["directed"]), ("npCircle", e2v["circle"]), ("npUndirected", e2v["undirected"]),
              ("npBidirected", e2v["bidirected"]), ("npNone", e2v[None])]
    CL = {"clTAIL": "TAIL", "clNULL": "NULL", "clARROW": "ARROW", "clCIRCLE": "CIRCLE", "clSTAR": "STAR",
          "clTA": "TAIL_AND_ARROW", "clAA": "ARROW_AND_ARROW", "clTT": "TAIL_AND_TAIL"}
    consts += [(k, en["CLearnEndpoint"][v]) for k, v in CL.items()]
    consts += [("pg" + k, en["PCAlgPAGEndpoint"][k]) for k in ("NULL", "CIRCLE", "ARROW", "TAIL")]
    consts += [("cp" + k, en["PCAlgCPDAGEndpoint"][k]) for k in ("NULL", "ARROW")]
    for k, v in consts:
        out.append("def %s : Int := %d" % (k, v))
    hand = [k for k, _ in consts if k != "npNone"]
    out.append("theorem gen_config_eq : " + " ∧ ".join("%s = C14.%s" % (k, k) for k in hand) + " ∧ npNone = 0 := by decide")
    tet = en["TetradEndpoint"]
    out.append("theorem gen_tetrad_marks : (%r, %r, %r) = ('-', '>', 'o') := by decide"
               % (tet["TAIL"], tet["ARROW"], tet["CIRCLE"]))
    out[-1] = out[-1].replace('"', "'")
    if sorted(en["PCAlgPAGEndpoint"]) != ["ARROW", "CIRCLE", "NULL", "TAIL"] or len(en["CLearnEndpoint"]) != 8:
        raise Untranslatable("enum members changed")
    out.append("")
    cl = ast.parse(_src(repo, "pywhy_graphs/export/causallearn.py"))
    pc = ast.parse(_src(repo, "pywhy_graphs/export/pcalg.py"))
    out.append(tr_graph_to_clearn(ctx, cl))
    out.append(tr_clearn_to_graph(ctx, cl))
    out.append(tr_pcalg_to_graph(ctx, pc))
    out.append(tr_graph_to_pcalg(ctx, pc))
    out.append(tr_tetrad_to_graph(ctx, ast.parse(_src(repo, "pywhy_graphs/export/tetrad.py"))))
    out.append(THEOREMS)
    out.append("end C14Gen")
    return "\n".join(out) + "\n"


if __name__ == "__main__":
    import sys
    print(generate(sys.argv[1] if len(sys.argv) > 1 else os.environ.get("PW_REPO", "/repo")))
