import Pw.C09.PagOracle
import Pw.C09.Driver
open Closure Proto

/-! # C09: the verdict of the run-time validator is the declarative statement

`c09valid_ok_iff`: the driver command `c09valid` answers `ok` **iff** the request is well-formed
(`WF4` PAG, `SourceOK` source graph) and the class clauses `ClassClauses P M0 M` of the property hold
for the graph `M` returned by the implementation – no hypothesis on `M` at all.
`c09struct_ok_iff`, `c09valid_first_ok_iff`: the same for the structural command and for `c09valid`
without a source MAG.  `c09pag_spec`: what the PAG oracle command answers. -/
namespace C09
open MG

/-! ## the answer string -/

theorem length_fail : ("fail:" : String).length = 5 := by decide
theorem length_ok : ("ok" : String).length = 2 := by decide

theorem fmtFails_ok_iff (l : List String) : fmtFails l = "ok" ↔ l = [] := by
  unfold fmtFails
  cases l with
  | nil => simp
  | cons x t =>
    simp only [List.isEmpty_cons, Bool.false_eq_true, if_false, reduceCtorEq, iff_false]
    intro h
    have := congrArg String.length h
    rw [String.length_append, length_fail, length_ok] at this
    omega

/-! ## the input checks -/

theorem wf4B_iff {G : MG} : wf4B G = true ↔ WF4 G := by
  unfold wf4B WF4
  simp only [List.all_eq_true, Bool.and_eq_true, decide_eq_true_eq]

theorem srcOkB_iff {M0 : MG} : srcOkB M0 = true ↔ SourceOK M0 := by
  unfold srcOkB
  simp only [Bool.and_eq_true, wf4B_iff, List.isEmpty_iff, List.all_eq_true, bne_iff_ne]
  constructor
  · rintro ⟨⟨⟨h1, h2⟩, h3⟩, h4⟩; exact ⟨h1, h2, h3, h4⟩
  · intro h; exact ⟨⟨⟨h.wf, h.noUn⟩, h.noCirc⟩, h.noLoop⟩

theorem inputFails_nil_iff {P : MG} {S : Option MG} :
    inputFails P S = [] ↔ WF4 P ∧ (∀ M0, S = some M0 → SourceOK M0) := by
  unfold inputFails
  rw [ite_nil_iff, Bool.and_eq_true, wf4B_iff]
  cases S with
  | none => simp
  | some M0 => simp [srcOkB_iff]

theorem WF4.wf {G : MG} (h : WF4 G) : G.WF := by
  refine ⟨fun e he => h e ?_, fun e he => h e ?_, fun e he => h e ?_⟩ <;>
    simp only [List.mem_append] <;> simp [he]

theorem SourceOK.noSelfLoop {M0 : MG} (h : SourceOK M0) : NoSelfLoop M0 := by
  intro a ma mb he
  have hl := h.noLoop
  simp only [List.mem_append] at hl
  rcases he with ⟨_, _, he⟩ | ⟨_, _, he⟩ | ⟨_, _, he | he⟩ | ⟨_, _, he⟩
  · exact hl _ (Or.inl he) rfl
  · exact hl _ (Or.inl he) rfl
  · exact hl _ (Or.inr he) rfl
  · exact hl _ (Or.inr he) rfl
  · rw [h.noUn] at he; simp at he

/-- adjacent nodes of a `WF4` graph are nodes -/
theorem WF4.mem_nodes {G : MG} (h : WF4 G) {a b : Nat} (hab : markAt G a b ≠ none) :
    a ∈ G.nodes ∧ b ∈ G.nodes := by
  have h' : ∀ x y, ((x, y) ∈ G.dir ∨ (x, y) ∈ G.bi ∨ (x, y) ∈ G.un ∨ (x, y) ∈ G.circ) →
      x ∈ G.nodes ∧ y ∈ G.nodes := by
    intro x y hm
    apply h (x, y)
    simp only [List.mem_append]
    rcases hm with hm | hm | hm | hm
    · exact Or.inl (Or.inl (Or.inl hm))
    · exact Or.inl (Or.inl (Or.inr hm))
    · exact Or.inl (Or.inr hm)
    · exact Or.inr hm
  rw [Ne, markAt_none_iff] at hab
  apply Classical.byContradiction
  intro hn
  apply hab
  refine ⟨fun x => hn (h' _ _ (Or.inr (Or.inr (Or.inr x)))),
    fun x => hn (h' _ _ (Or.inl x)), fun x => hn (h' _ _ (Or.inr (Or.inl x))),
    fun x => hn (h' _ _ (Or.inr (Or.inl x))).symm, fun x => hn (h' _ _ (Or.inl x)).symm,
    fun x => hn (h' _ _ (Or.inr (Or.inr (Or.inl x)))),
    fun x => hn (h' _ _ (Or.inr (Or.inr (Or.inl x)))).symm,
    fun x => hn (h' _ _ (Or.inr (Or.inr (Or.inr x)))).symm⟩

/-- a graph with the nodes and adjacencies of a `WF4` graph is well-formed: the validator needs no
    assumption on the implementation's output -/
theorem StructuralS.wf {P M : MG} (hP : WF4 P) (h : StructuralS P M) : M.WF := by
  have key : ∀ a b, markAt M a b ≠ none → a ∈ M.nodes ∧ b ∈ M.nodes := by
    intro a b hab
    have : markAt P a b ≠ none :=
      Option.isSome_iff_ne_none.mp ((h.adj a b).mp (Option.isSome_iff_ne_none.mpr hab))
    obtain ⟨ha, hb⟩ := hP.mem_nodes this
    exact ⟨(h.nodes a).mpr ha, (h.nodes b).mpr hb⟩
  refine ⟨?_, ?_, ?_⟩
  · rintro ⟨a, b⟩ he
    exact key a b (fun hn => (markAt_none_iff.mp hn).2.1 he)
  · rintro ⟨a, b⟩ he
    exact key a b (fun hn => (markAt_none_iff.mp hn).2.2.1 he)
  · rintro ⟨a, b⟩ he
    exact key a b (fun hn => (markAt_none_iff.mp hn).2.2.2.2.2.1 he)

/-! ## the two groups of clauses -/

theorem firstFails_nil_iff {P M : MG} (hP : WF4 P) : firstFails P M = [] ↔ FirstClauses P M := by
  unfold firstFails
  simp only [List.append_eq_nil_iff, ite_nil_iff, structuralFails_nil_iff]
  constructor
  · rintro ⟨⟨⟨hs, _⟩, ha⟩, hu⟩
    have hwf := hs.wf hP
    exact ⟨hs, (ancestralB_iff hwf).mp ha, (noNewUCB_iff hwf).mp hu⟩
  · intro h
    have hwf := h.structural.wf hP
    exact ⟨⟨⟨h.structural, (acyclicB_iff hwf).mpr h.ancestral.1⟩,
      (ancestralB_iff hwf).mpr h.ancestral⟩, (noNewUCB_iff hwf).mpr h.noNewUC⟩

theorem secondFails_nil_iff {M0 M : MG} (h0 : SourceOK M0) (hwf : M.WF) :
    secondFails M0 M = [] ↔
      (Ancestral M ∧ M.un = [] ∧ Maximal M ∧ SameNodes M0.nodes M.nodes ∧ MarkovEquiv M0 M) := by
  unfold secondFails
  simp only [List.append_eq_nil_iff, ite_nil_iff, Bool.and_eq_true, List.isEmpty_iff,
    ancestralB_iff hwf]
  constructor
  · rintro ⟨⟨⟨ha, hu⟩, hm⟩, hn, hq⟩
    have hsl := noSelfLoop_of_ancestral ha hu
    have hn' : SameNodes M0.nodes M.nodes := fun v => ((sameNodes_iff.mp hn) v).symm
    exact ⟨ha, hu, (maximalB_iff hwf hu hsl).mp hm, hn',
      (sameSepB_iff h0.wf.wf h0.noUn h0.noSelfLoop hwf hu hsl hn').mp hq⟩
  · rintro ⟨ha, hu, hm, hn, he⟩
    have hsl := noSelfLoop_of_ancestral ha hu
    exact ⟨⟨⟨ha, hu⟩, (maximalB_iff hwf hu hsl).mpr hm⟩,
      sameNodes_iff.mpr (fun v => (hn v).symm),
      (sameSepB_iff h0.wf.wf h0.noUn h0.noSelfLoop hwf hu hsl hn).mpr he⟩

/-- the verdict as a function of the three graphs -/
theorem validFails_nil_iff (P M0 M : MG) :
    validFails P M (some M0) = [] ↔ (WF4 P ∧ SourceOK M0) ∧ ClassClauses P M0 M := by
  unfold validFails
  simp only [List.append_eq_nil_iff, inputFails_nil_iff, Option.some.injEq, forall_eq']
  constructor
  · rintro ⟨⟨⟨hP, h0⟩, h1⟩, h2⟩
    have f := (firstFails_nil_iff hP).mp h1
    obtain ⟨_, hu, hm, hn, he⟩ := (secondFails_nil_iff h0 (f.structural.wf hP)).mp h2
    exact ⟨⟨hP, h0⟩, f.structural, f.ancestral, f.noNewUC, hu, hm, hn, he⟩
  · rintro ⟨⟨hP, h0⟩, h⟩
    exact ⟨⟨⟨hP, h0⟩, (firstFails_nil_iff hP).mpr ⟨h.structural, h.ancestral, h.noNewUC⟩⟩,
      (secondFails_nil_iff h0 (h.structural.wf hP)).mpr
        ⟨h.ancestral, h.noUn, h.maximal, h.nodes0, h.equiv⟩⟩

theorem validFails_none_nil_iff (P M : MG) :
    validFails P M none = [] ↔ WF4 P ∧ FirstClauses P M := by
  unfold validFails
  simp only [List.append_eq_nil_iff, inputFails_nil_iff, reduceCtorEq, false_implies,
    implies_true, and_true]
  constructor
  · rintro ⟨hP, h1⟩; exact ⟨hP, (firstFails_nil_iff hP).mp h1⟩
  · rintro ⟨hP, h⟩; exact ⟨hP, (firstFails_nil_iff hP).mpr h⟩

/-! ## the driver commands -/

/-- **C09, run-time validator.** `c09valid … sN=…` answers `ok` iff the request is well-formed and every
    class clause of the property holds for the returned graph. -/
theorem c09valid_ok_iff (a : Args) (hs : a.has "sN" = true) :
    hValid a = "ok" ↔
      (WF4 a.graph ∧ SourceOK (graphP a "s")) ∧ ClassClauses a.graph (graphP a "s") (graphP a "m") := by
  unfold hValid
  rw [fmtFails_ok_iff, hs, if_pos rfl, validFails_nil_iff]

/-- `c09valid` without a source MAG: the first sentence of the property -/
theorem c09valid_first_ok_iff (a : Args) (hs : a.has "sN" = false) :
    hValid a = "ok" ↔ WF4 a.graph ∧ FirstClauses a.graph (graphP a "m") := by
  unfold hValid
  rw [fmtFails_ok_iff, hs, if_neg (by simp), validFails_none_nil_iff]

/-- `c09struct` answers `ok` iff the structural clauses hold – for every request -/
theorem c09struct_ok_iff (a : Args) : hStruct a = "ok" ↔ StructuralS a.graph (graphP a "m") := by
  unfold hStruct
  rw [fmtFails_ok_iff, structuralFails_nil_iff]

/-- `c09pag` answers `notmag` exactly on the graphs that are not MAGs, and otherwise prints (after the
    size of the class) the graph `pagOf M`, which is the PAG of `M` from the definition -/
theorem c09pag_spec (a : Args) (hwf : a.graph.WF) :
    (hPag a = "notmag" ↔ ¬ IsMAG a.graph) ∧
    (IsMAG a.graph →
      hPag a = "cls=" ++ toString (equivClass a.graph).length ++ " " ++ fmtGraph (pagOf a.graph) ∧
      IsPagOf a.graph (pagOf a.graph)) := by
  unfold hPag
  constructor
  · by_cases hm : isMagB a.graph = true
    · simp only [hm, Bool.not_true, Bool.false_eq_true, if_false]
      constructor
      · intro h
        have := congrArg String.toList h
        rw [String.append_assoc, String.append_assoc, String.toList_append] at this
        simp at this
      · intro h; exact absurd ((isMagB_iff hwf).mp hm) h
    · rw [Bool.not_eq_true] at hm
      simp only [hm, Bool.not_false, if_true, true_iff]
      intro h
      rw [← isMagB_iff hwf, hm] at h; cases h
  · intro h
    have hm := (isMagB_iff hwf).mpr h
    simp only [hm, Bool.not_true, Bool.false_eq_true, if_false, true_and]
    exact pagOf_isPagOf hwf h

end C09
