#!/bin/bash
# usage: tools/mkmut.sh c03   -> scratch worktree /tmp/mut/c03 of /repo HEAD (detached) with egg-info
id=$1
mkdir -p /tmp/mut /tmp/mut/out
git -C /repo worktree add -q --detach /tmp/mut/$id HEAD && cp -r /repo/pywhy_graphs.egg-info /tmp/mut/$id/ && echo "ready /tmp/mut/$id at $(git -C /repo rev-parse --short HEAD)"
