import Pw.T3.C04
import Pw.C05.RoundTrip
import Pw.C09.Cond
import Pw.C08.Full
import Pw.C04.Decider

/-! # T3 discharged: the formerly conditional theorems of C04, C05, C08, C09, now unconditional -/
namespace T3

/-- C05: `pdag_to_dag (dag_to_cpdag D)` is a DAG Markov equivalent to D (was conditional on Chickering). -/
theorem c05_roundtrip : type_of% (@C05.roundtrip_of_T3 T3.c04_T3) := @C05.roundtrip_of_T3 T3.c04_T3

/-- C05: `pdag_to_cpdag` maps the CPDAG of a DAG to itself. -/
theorem c05_pdagToCpdag_fixpoint : type_of% (@C05.pdagToCpdag_fixpoint_of_T3 T3.c04_T3) := @C05.pdagToCpdag_fixpoint_of_T3 T3.c04_T3

/-- C04: equal CPDAGs iff Markov equivalent. -/
theorem c04_markov' : type_of% (@C04.C04_markov_of_T3 T3.c04_T3) := @C04.C04_markov_of_T3 T3.c04_T3

/-- C04: the model equals the brute-force essential-graph decider. -/
theorem c04_model_eq_essentialDec : type_of% (@C04.model_eq_essentialDec_of_T3 T3.c04_T3) := @C04.model_eq_essentialDec_of_T3 T3.c04_T3

/-- C08: the full statement (soundness + completeness on patterns + termination). -/
theorem c08_full : C08.C08_full := C08.C08_full_of_T3 T3.meekT3

/-- C09: the orient-one-edge / Meek-closure loop returns an acyclic orientation without unshielded
    colliders whenever the circle component admits one. -/
theorem c09_orientLoop_dag : type_of% (@C09.orientLoop_dag_of_T3 T3.meekT3) := @C09.orientLoop_dag_of_T3 T3.meekT3

theorem c09_circle_component : type_of% (@C09.pagToMag_circle_component_of_T3 T3.meekT3) := @C09.pagToMag_circle_component_of_T3 T3.meekT3

end T3
