import Pw.C04.Order
import Pw.C04.Cond

/-! # C04, a proved part of Chickering's theorem: v-structure edges are labelled `compelled`

For a DAG with a topological order, `label_edges` labels both edges of every v-structure
`a -> y <- b` (a, b non-adjacent) as compelled (`vstruct_labelled_compelled`).  Consequences that need
no hypothesis: the CPDAG returned by the model contains every v-structure of D as directed edges
(`dagToCpdag_keeps_vstructs`), and **equal CPDAGs imply Markov equivalence**
(`sameCpdag_imp_markovEquiv_partial`, one direction of the property's last sentence; the converse is
conditional on T3).

Proof: an invariant of the `while` loop – (I1) the edges into one target are either all unknown or
all labelled (an iteration only touches the edges into its target `y` and leaves none of them
unknown); (I2) labelled v-structure edges are compelled.  When `(x, y)` is selected, either all edges
into `y` become compelled, or every parent of `y` is `x` or a parent of `x`; then `a -> x <- b` is a
v-structure at the earlier node `x`, already labelled (sortedness of the edge order) hence compelled
(I2), and the `w`-loop labels `a -> y`, `b -> y` compelled. -/
namespace C04
open C05 (Adj VStruct)

theorem pairwise_getLast {α : Type} {R : α → α → Prop} : ∀ (l : List α) (z : α), l.Pairwise R →
    l.getLast? = some z → ∀ e ∈ l, e = z ∨ R e z := by
  intro l
  induction l with
  | nil => intro z _ h; cases h
  | cons a l ih =>
    intro z hp hl e he
    cases l with
    | nil =>
      simp only [List.getLast?_singleton, Option.some.injEq] at hl
      rcases List.mem_cons.mp he with rfl | he
      · exact Or.inl hl
      · cases he
    | cons b l =>
      rw [List.getLast?_cons_cons] at hl
      obtain ⟨h1, h2⟩ := List.pairwise_cons.mp hp
      rcases List.mem_cons.mp he with rfl | he
      · exact Or.inr (h1 z (List.mem_of_getLast? hl))
      · exact ih z h2 hl e he

/-- what the `for node in w_nodes` loop does -/
theorem wLoop_char (E : List Edge) (y : Nat) : ∀ (ws : List Nat) (lab : Edge → Label),
    (∀ e : Edge, e.2 ≠ y → (wLoop E y ws lab).1 e = lab e) ∧
    (∀ e, lab e = .compelled → (wLoop E y ws lab).1 e = .compelled) ∧
    (∀ e, (wLoop E y ws lab).1 e = lab e ∨ (wLoop E y ws lab).1 e = .compelled) ∧
    ((wLoop E y ws lab).2 = true → ∀ e : Edge, e.2 = y → (wLoop E y ws lab).1 e = .compelled) ∧
    ((wLoop E y ws lab).2 = false → ∀ w ∈ ws, (wLoop E y ws lab).1 (w, y) = .compelled) := by
  intro ws
  induction ws with
  | nil =>
    intro lab
    exact ⟨fun _ _ => rfl, fun _ h => h, fun _ => Or.inl rfl, fun h => (by cases h), fun _ w hw => (by cases hw)⟩
  | cons w ws ih =>
    intro lab
    rw [wLoop]
    split
    · obtain ⟨h1, h2, h3, h4, h5⟩ := ih (setEdge (w, y) .compelled lab)
      refine ⟨?_, ?_, ?_, h4, ?_⟩
      · intro e he
        rw [h1 e he]
        unfold setEdge
        split
        · rename_i heq; rw [heq] at he; exact absurd rfl he
        · rfl
      · intro e he
        apply h2
        unfold setEdge; split
        · rfl
        · exact he
      · intro e
        rcases h3 e with h | h
        · rw [h]; unfold setEdge; split
          · exact Or.inr rfl
          · exact Or.inl rfl
        · exact Or.inr h
      · intro hf w' hw'
        rcases List.mem_cons.mp hw' with rfl | hw'
        · apply h2; simp [setEdge]
        · exact h5 hf w' hw'
    · refine ⟨?_, ?_, ?_, ?_, ?_⟩
      · intro e he; simp [setInto, he]
      · intro e he; dsimp only [setInto]; split
        · rfl
        · exact he
      · intro e; dsimp only [setInto]; split
        · exact Or.inr rfl
        · exact Or.inl rfl
      · intro _ e he; simp [setInto, he]
      · intro hf; cases hf

/-- one iteration of `label_edges`, as far as the v-structure argument needs it -/
theorem labelStep_char {G : MG} {ord : List Edge} {lab lab' : Edge → Label}
    (h : labelStep G ord lab = some lab') :
    ∃ x y, (ord.filter fun e => lab e == .unknown).getLast? = some (x, y) ∧
      (∀ e : Edge, e.2 ≠ y → lab' e = lab e) ∧
      (∀ e : Edge, e.2 = y → lab' e ≠ .unknown) ∧
      ((∀ e : Edge, e.2 = y → lab e = .unknown → lab' e = .compelled) ∨
       ((∀ w, (w, x) ∈ G.dir → lab (w, x) = .compelled → lab' (w, y) = .compelled) ∧
        (∀ z, (z, y) ∈ G.dir → z = x ∨ (z, x) ∈ G.dir))) := by
  unfold labelStep at h
  split at h
  · cases h
  · rename_i x y hlast
    refine ⟨x, y, hlast, ?_⟩
    have hw := wLoop_char G.dir y ((G.parents x).filter fun w => lab (w, x) == .compelled) lab
    dsimp only at h
    split at h
    · rename_i lab1 heq
      cases h
      rw [heq] at hw
      dsimp only at hw
      obtain ⟨h1, _, _, h4, _⟩ := hw
      refine ⟨h1, ?_, Or.inl fun e he _ => h4 rfl e he⟩
      intro e he; rw [h4 rfl e he]; intro h'; cases h'
    · rename_i lab1 heq
      cases h
      rw [heq] at hw
      dsimp only at hw
      obtain ⟨h1, h2, h3, _, h5⟩ := hw
      refine ⟨?_, ?_, ?_⟩
      · intro e he
        simp only [he, false_and, if_false]
        exact h1 e he
      · intro e he
        by_cases hu : lab1 e = .unknown
        · simp only [he, hu, and_self, if_true]
          split <;> (intro h'; cases h')
        · simp only [hu, and_false, if_false]; exact hu
      · by_cases hz : ((G.parents y).any fun z => z != x && !G.dir.contains (z, x)) = true
        · left
          intro e he hunk
          rcases h3 e with h | h
          · have hl : lab1 e = .unknown := by rw [h, hunk]
            simp only [he, hl, and_self, if_true, hz]
          · have : lab1 e ≠ .unknown := by rw [h]; intro h'; cases h'
            simp only [this, and_false, if_false]; exact h
        · right
          refine ⟨?_, ?_⟩
          · intro w hwx hc
            have hmem : w ∈ (G.parents x).filter fun w => lab (w, x) == .compelled := by
              simp only [List.mem_filter, MG.mem_parents, beq_iff_eq]; exact ⟨hwx, hc⟩
            have := h5 rfl w hmem
            have hne : lab1 (w, y) ≠ .unknown := by rw [this]; intro h'; cases h'
            simp only [hne, and_false, if_false]; exact this
          · intro z hzy
            simp only [List.any_eq_true, MG.mem_parents, Bool.and_eq_true, bne_iff_ne, Bool.not_eq_true',
              not_exists, not_and] at hz
            by_cases hzx : z = x
            · exact Or.inl hzx
            · right
              have := hz z hzy hzx
              cases hc : G.dir.contains (z, x) with
              | true => exact List.contains_iff_mem.mp hc
              | false => exact absurd hc this

/-- the loop invariant -/
structure LInv (G : MG) (lab : Edge → Label) : Prop where
  allOrNone : ∀ e ∈ G.dir, lab e = .unknown → ∀ e' ∈ G.dir, e'.2 = e.2 → lab e' = .unknown
  vs : ∀ a y b, VStruct G a y b → lab (a, y) ≠ .unknown → lab (a, y) = .compelled

theorem linv_step {G : MG} {topo : List Nat} {ord : List Edge} (ht : IsTopo G topo)
    (hperm : ∀ e, e ∈ ord ↔ e ∈ G.dir) (hsorted : ord.Pairwise (Before topo))
    {lab lab' : Edge → Label} (hinv : LInv G lab) (h : labelStep G ord lab = some lab') : LInv G lab' := by
  obtain ⟨x, y, hlast, hS1, hS2, hout⟩ := labelStep_char h
  have hsel := List.mem_of_getLast? hlast
  simp only [List.mem_filter, beq_iff_eq] at hsel
  obtain ⟨hxyo, hxyu⟩ := hsel
  have hxyE : (x, y) ∈ G.dir := (hperm _).mp hxyo
  have hpos : pos topo x < pos topo y := ht.forward x y hxyE
  -- all edges into y are unknown before the step
  have hyall : ∀ e' ∈ G.dir, e'.2 = y → lab e' = .unknown := hinv.allOrNone (x, y) hxyE hxyu
  -- all edges into x are labelled before the step (sortedness)
  have hxknown : ∀ w, (w, x) ∈ G.dir → lab (w, x) ≠ .unknown := by
    intro w hwx hunk
    have hmem : (w, x) ∈ ord.filter fun e => lab e == .unknown := by
      simp only [List.mem_filter, beq_iff_eq]; exact ⟨(hperm _).mpr hwx, hunk⟩
    rcases pairwise_getLast _ _ (hsorted.filter _) hlast _ hmem with heq | hb
    · simp only [Prod.mk.injEq] at heq
      obtain ⟨_, rfl⟩ := heq
      omega
    · have := hb.1
      simp only at this
      omega
  refine ⟨?_, ?_⟩
  · intro e he hunk e' he' heq
    have hne : e.2 ≠ y := fun hy => hS2 e hy hunk
    rw [hS1 e' (by rw [heq]; exact hne)]
    rw [hS1 e hne] at hunk
    exact hinv.allOrNone e he hunk e' he' heq
  · intro a t b hv hk
    by_cases hty : t = y
    · subst hty
      have haE := hv.1
      have hbE := hv.2.1
      rcases hout with hall | ⟨hw, hz⟩
      · exact hall (a, t) rfl (hyall _ haE rfl)
      · have hax : (a, x) ∈ G.dir := by
          rcases hz a haE with rfl | h'
          · rcases hz b hbE with rfl | h''
            · exact absurd rfl hv.2.2.1
            · exact absurd (Or.inr (Or.inl h'')) hv.2.2.2
          · exact h'
        have hbx : (b, x) ∈ G.dir := by
          rcases hz b hbE with rfl | h'
          · exact absurd (Or.inl hax) hv.2.2.2
          · exact h'
        have hvx : VStruct G a x b := ⟨hax, hbx, hv.2.2.1, hv.2.2.2⟩
        exact hw a hax (hinv.vs a x b hvx (hxknown a hax))
    · have hne : (a, t).2 ≠ y := hty
      rw [hS1 (a, t) hne] at hk ⊢
      exact hinv.vs a t b hv hk

theorem linv_loop {G : MG} {topo : List Nat} {ord : List Edge} (ht : IsTopo G topo)
    (hperm : ∀ e, e ∈ ord ↔ e ∈ G.dir) (hsorted : ord.Pairwise (Before topo)) :
    ∀ (fuel : Nat) (lab : Edge → Label), LInv G lab → LInv G (labelLoop G ord fuel lab) := by
  intro fuel
  induction fuel with
  | zero => intro lab h; rw [labelLoop]; exact h
  | succ n ih =>
    intro lab h
    rw [labelLoop]
    cases hs : labelStep G ord lab with
    | none => exact h
    | some lab' => exact ih lab' (linv_step ht hperm hsorted h hs)

/-- **a proved part of T3**: with a topological order, both edges of every v-structure of the DAG are
    labelled compelled -/
theorem vstruct_labelled_compelled (G : MG) (topo : List Nat) (ht : IsTopo G topo) {a y b : Nat}
    (hv : VStruct G a y b) : labels G topo (a, y) = .compelled := by
  have hinv : LInv G (labels G topo) := by
    apply linv_loop ht (fun e => (orderEdges_perm topo G.dir).mem_iff) (orderEdges_sorted topo G.dir)
    exact ⟨fun _ _ _ _ _ _ => rfl, fun _ _ _ _ h => absurd rfl h⟩
  exact hinv.vs a y b hv (labels_known G topo _ hv.1)

/-- the CPDAG of the model keeps every v-structure of D as a pair of directed edges -/
theorem dagToCpdag_keeps_vstructs (G : MG) (topo : List Nat) (ht : IsTopo G topo) {a y b : Nat}
    (hv : VStruct G a y b) : (a, y) ∈ (dagToCpdag G topo).dir ∧ (b, y) ∈ (dagToCpdag G topo).dir := by
  have h1 := vstruct_labelled_compelled G topo ht hv
  have h2 := vstruct_labelled_compelled G topo ht (vstruct_symm hv)
  simp only [dagToCpdag, List.mem_filter, beq_iff_eq]
  exact ⟨⟨hv.1, h1⟩, ⟨hv.2.1, h2⟩⟩

/-- **one direction of the property's last sentence, unconditional** (the converse needs T3):
    DAGs whose CPDAGs (computed by the model, any topological orders) are equal are Markov equivalent -/
theorem sameCpdag_imp_markovEquiv_partial (G1 G2 : MG) (t1 t2 : List Nat)
    (hu1 : G1.un = []) (hu2 : G2.un = []) (ht1 : IsTopo G1 t1) (ht2 : IsTopo G2 t2)
    (hs : SameGraph (dagToCpdag G1 t1) (dagToCpdag G2 t2)) : MarkovEquiv G1 G2 := by
  obtain ⟨hn1, _, _, hd1, _, _, hsk1⟩ := dagToCpdag_struct G1 t1 hu1
  obtain ⟨hn2, _, _, hd2, _, _, hsk2⟩ := dagToCpdag_struct G2 t2 hu2
  have hskel : ∀ a b, Adj G2 a b ↔ Adj G1 a b := fun a b =>
    ((hsk2 a b).symm.trans (adj_of_sameGraph hs a b).symm).trans (hsk1 a b)
  refine ⟨?_, hskel, ?_⟩
  · intro v
    have := hs.1 v
    rw [hn1, hn2] at this
    exact this.symm
  · intro a c b
    constructor
    · intro hv
      obtain ⟨h1, h2⟩ := dagToCpdag_keeps_vstructs G2 t2 ht2 hv
      exact ⟨hd1 _ ((hs.2.1 _).mpr h1), hd1 _ ((hs.2.1 _).mpr h2), hv.2.2.1,
        fun h => hv.2.2.2 ((hskel a b).mpr h)⟩
    · intro hv
      obtain ⟨h1, h2⟩ := dagToCpdag_keeps_vstructs G1 t1 ht1 hv
      exact ⟨hd2 _ ((hs.2.1 _).mp h1), hd2 _ ((hs.2.1 _).mp h2), hv.2.2.1,
        fun h => hv.2.2.2 ((hskel a b).mp h)⟩

end C04

namespace C04
/-- non-vacuity: the suite's example has the v-structure 2 -> 4 <- 3, so its edges are labelled compelled
    by the theorem (not by evaluation) -/
example : labels ex1 [1, 2, 3, 4, 5] (2, 4) = .compelled ∧ labels ex1 [1, 2, 3, 4, 5] (3, 4) = .compelled :=
  have hv : C05.VStruct ex1 2 4 3 := ⟨by decide, by decide, by decide, by unfold C05.Adj; decide⟩
  ⟨vstruct_labelled_compelled ex1 _ ex1_topo hv, vstruct_labelled_compelled ex1 _ ex1_topo (vstruct_symm hv)⟩
end C04
