/-!
# C20 — model of the F- and S-node registry of `AugmentedGraph` / `AugmentedPAG`

Anchors: `pywhy_graphs/classes/augmented.py` (`AugmentedNodeMixin`, the two classes, their `copy` and
`remove_node`), `pywhy_graphs/networkx/classes/mixededge.py` (`add_node`, `add_edge`, `remove_node`,
`copy`), `pywhy_graphs/algorithms/multidomain.py` (`add_all_snode_combinations`).

The model is a *heap*: a store of registry cells (`graph['F-nodes']`, `graph['S-nodes']` – Python
dicts, i.e. mutable objects held by reference) and a list of live graph objects, each holding a
*reference* into that store.  Aliasing is therefore expressible, because aliasing is what the
property is about.  `Cfg` selects, defect by defect, between the behaviour of the repaired code
(all flags `false` = `Cfg.fixed`, the code on the verified tree) and the behaviour of the unchanged
code (`Cfg.orig`), so that the counterexample theorems talk about a literal model of each defect.

What is abstracted: edges among ordinary nodes are not stored.  They never touch an augmented node,
so none of the observations of the property (`nodes`, registries, children of F-nodes) depends on
them; the only effect of `add_edge(u, v)` that is visible to the property is that `u` and `v` become
nodes (a guard of `PAG.add_edge` can only reject when an edge between `u` and `v` already exists, in
which case both already are nodes).  Edges from augmented nodes to their targets (`aedges`, always
in the directed layer) are stored.
-/
namespace C20

/-- node labels: ordinary nodes, `('F', k)`, `('S', k)` -/
inductive Node where
  | ord (i : Nat)
  | f (k : Nat)
  | s (k : Nat)
  deriving DecidableEq, Repr, Inhabited

inductive Cls where
  | ag   -- AugmentedGraph
  | pag  -- AugmentedPAG
  deriving DecidableEq, Repr, Inhabited

/-- `graph['F-nodes'][f] = {'targets': frozenset, 'domain': set}` -/
structure FEntry where
  targets : List Nat
  domain : List Nat
  deriving DecidableEq, Repr, Inhabited

/-- one registry cell of the heap: the two dicts (insertion ordered, as in Python) -/
structure Registry where
  fs : List (Nat × FEntry) := []
  ss : List (Nat × (Nat × Nat)) := []
  deriving DecidableEq, Repr, Inhabited

/-- one live graph object.  `reg` is a *reference* (index into `State.regs`). -/
structure Obj where
  cls : Cls
  nodes : List Node := []
  aedges : List (Node × Nat) := []   -- directed edges augmented node → ordinary node
  reg : Nat
  doms : List Nat := []              -- instance attribute `domains` (repaired code)
  deriving DecidableEq, Repr, Inhabited

structure State where
  regs : List Registry := []
  objs : List Obj := []
  classDoms : List Nat := []         -- the class attribute `AugmentedNodeMixin.domains` (unchanged code)
  deriving DecidableEq, Repr, Inhabited

/-- which of the four defects of the unchanged tree are present -/
structure Cfg where
  lenNaming : Bool   -- name = ('F', len(f_nodes)) without looking at the nodes
  sharedCopy : Bool  -- copy() shares the registry dicts with the original
  keepS : Bool       -- AugmentedGraph.remove_node leaves S-nodes registered
  classDoms : Bool   -- `domains` is one set shared by every instance
  deriving DecidableEq, Repr

def Cfg.fixed : Cfg := ⟨false, false, false, false⟩
def Cfg.orig : Cfg := ⟨true, true, true, true⟩

inductive Status where
  | ok
  | err
  deriving DecidableEq, Repr, Inhabited

/-! ## Python dict / set primitives -/

def dKeys (d : List (Nat × α)) : List Nat := d.map (·.1)

/-- `d[k] = v` : overwrite in place or append -/
def dSet (d : List (Nat × α)) (k : Nat) (v : α) : List (Nat × α) :=
  if k ∈ dKeys d then d.map (fun p => if p.1 = k then (k, v) else p) else d ++ [(k, v)]

/-- `del d[k]` -/
def dErase (d : List (Nat × α)) (k : Nat) : List (Nat × α) := d.filter (fun p => p.1 ≠ k)

/-- `set.add` / `add_node` on an insertion-ordered collection -/
def insertNew [DecidableEq α] (l : List α) (a : α) : List α := if a ∈ l then l else l ++ [a]

def addAll [DecidableEq α] (l : List α) (as : List α) : List α := as.foldl insertNew l

/-- frozenset equality -/
def sameSet (a b : List Nat) : Bool := a.all (· ∈ b) && b.all (· ∈ a)

def fNames (ns : List Node) : List Nat := ns.filterMap fun | .f k => some k | _ => none
def sNames (ns : List Node) : List Nat := ns.filterMap fun | .s k => some k | _ => none

theorem filter_le_lt (used : List Nat) (i : Nat) (h : i ∈ used) :
    (used.filter (fun x => decide (i + 1 ≤ x))).length < (used.filter (fun x => decide (i ≤ x))).length := by
  induction used with
  | nil => simp at h
  | cons a t ih =>
    have mono : (t.filter (fun x => decide (i + 1 ≤ x))).length ≤ (t.filter (fun x => decide (i ≤ x))).length := by
      clear ih h
      induction t with
      | nil => simp
      | cons b t ih =>
        simp only [List.filter_cons]
        by_cases h1 : i + 1 ≤ b
        · have h2 : i ≤ b := by omega
          simp [h1, h2]; exact ih
        · by_cases h2 : i ≤ b
          · simp [h1, h2]; omega
          · simp [h1, h2]; exact ih
    simp only [List.filter_cons]
    by_cases ha : a = i
    · subst ha
      have h1 : ¬ (a + 1 ≤ a) := by omega
      simp [h1]; omega
    · have ht : i ∈ t := by
        cases h with
        | head => exact absurd rfl ha
        | tail _ h => exact h
      have := ih ht
      by_cases h1 : i + 1 ≤ a
      · have h2 : i ≤ a := by omega
        simp [h1, h2]; exact this
      · by_cases h2 : i ≤ a
        · simp [h1, h2]; omega
        · simp [h1, h2]; exact this

/-- the loop `while (tag, idx) in self.nodes: idx += 1` with an explicit bound on the iterations -/
def freshAux (used : List Nat) : Nat → Nat → Nat
  | 0, i => i
  | fuel + 1, i => if i ∈ used then freshAux used fuel (i + 1) else i

/-- `idx = start; while (tag, idx) in self.nodes: idx += 1` – the repaired name generation.
`used.length + 1` iterations always suffice (`freshIdx_not_mem`), so the bound is never what stops
the loop. -/
def freshIdx (used : List Nat) (i : Nat) : Nat := freshAux used (used.length + 1) i

/-! ## one method call on one object

`Local` is everything a method of one object can reach: the object's own fields, the registry cell
its `graph` dict points to, and the class attribute. -/

structure Local where
  o : Obj
  r : Registry
  cd : List Nat
  deriving DecidableEq, Repr, Inhabited

/-- local operations (methods called on one existing object) -/
inductive LOp where
  | addF (ts : List Nat) (uniq : Bool) (dom : Option (List Nat))  -- add_f_node(ts, require_unique, domain)
  | addFs (tss : List (List Nat))                                 -- add_f_nodes_from
  | addS (d : Nat × Nat) (chg : List Nat)                         -- add_s_node(domain_ids, node_changes)
  | rmF (k : Nat)                                                 -- remove_node(('F', k))
  | rmS (k : Nat)                                                 -- remove_node(('S', k))
  | node (i : Nat)                                                -- add_node(ordinary)
  | edge (u v : Nat)                                              -- add_edge(u, v, <type>) among ordinary nodes
  | rawS (k : Nat) (d : Nat × Nat)                                -- loop body of add_all_snode_combinations
  deriving DecidableEq, Repr, Inhabited

def nameF (c : Cfg) (w : Local) : Nat :=
  if c.lenNaming then w.r.fs.length else freshIdx (fNames w.o.nodes) w.r.fs.length

def nameS (c : Cfg) (w : Local) : Nat :=
  if c.lenNaming then w.r.ss.length else freshIdx (sNames w.o.nodes) w.r.ss.length

/-- the part of `add_f_node` after the checks: new node, edges to the targets, registry entry -/
def addFok (c : Cfg) (w : Local) (ts : List Nat) (dom : Option (List Nat)) : Local :=
  let k := nameF c w
  { w with
      o := { w.o with nodes := insertNew w.o.nodes (.f k),
                      aedges := w.o.aedges ++ ts.map (fun t => (Node.f k, t)) },
      r := { w.r with fs := dSet w.r.fs k ⟨ts, dom.getD [1]⟩ } }

/-- `add_f_node` (augmented.py) -/
def addF (c : Cfg) (w : Local) (ts : List Nat) (uniq : Bool) (dom : Option (List Nat)) : Local × Status :=
  -- len(frozenset(intervention_set)) != len(intervention_set)
  if ¬ ts.Nodup then (w, .err)
  -- require_unique and intervention_set in self.intervention_sets
  else if uniq && w.r.fs.any (fun p => sameSet p.2.targets ts) then (w, .err)
  -- every target must be a node
  else if ts.any (fun t => decide (Node.ord t ∉ w.o.nodes)) then (w, .err)
  else (addFok c w ts dom, .ok)

/-- `add_f_nodes_from`: `add_f_node` one after the other, the first exception aborts -/
def addFs (c : Cfg) (w : Local) : List (List Nat) → Local × Status
  | [] => (w, .ok)
  | ts :: rest =>
    match addF c w ts true none with
    | (w', .ok) => addFs c w' rest
    | (w', .err) => (w', .err)

/-- the part of `add_s_node` after the checks -/
def addSok (c : Cfg) (w : Local) (d : Nat × Nat) (chg : List Nat) : Local :=
  let k := nameS c w
  let w1 : Local := if c.classDoms then { w with cd := addAll w.cd [d.1, d.2] }
                    else { w with o := { w.o with doms := addAll w.o.doms [d.1, d.2] } }
  { w1 with
      o := { w1.o with nodes := addAll (insertNew w1.o.nodes (.s k)) (chg.map Node.ord),
                       aedges := w1.o.aedges ++ chg.map (fun t => (Node.s k, t)) },
      r := { w1.r with ss := dSet w1.r.ss k d } }

/-- `add_s_node` (augmented.py).  The test `domain_ids in self.domain_ids` compares a tuple
with a list of ints and never fires; `node_changes` need not be nodes (add_edge creates them). -/
def addS (c : Cfg) (w : Local) (d : Nat × Nat) (chg : List Nat) : Local × Status :=
  if ¬ chg.Nodup then (w, .err) else (addSok c w d chg, .ok)

/-- the node and its incident edges are gone -/
def dropOk (w : Local) (n : Node) : Local :=
  { w with o := { w.o with nodes := w.o.nodes.filter (fun m => m ≠ n),
                            aedges := w.o.aedges.filter (fun e => e.1 ≠ n ∧ Node.ord e.2 ≠ n) } }

/-- `MixedEdgeGraph.remove_node`: error when absent, else drop the node and its incident edges -/
def dropNode (w : Local) (n : Node) : Local × Status :=
  if n ∈ w.o.nodes then (dropOk w n, .ok) else (w, .err)

/-- `remove_node(('F', k))` of both classes -/
def rmF (w : Local) (k : Nat) : Local × Status :=
  let r1 := if k ∈ dKeys w.r.fs then { w.r with fs := dErase w.r.fs k } else w.r
  dropNode { w with r := r1 } (.f k)

/-- `remove_node(('S', k))`; the unchanged `AugmentedGraph.remove_node` has no S branch -/
def rmS (c : Cfg) (w : Local) (k : Nat) : Local × Status :=
  let r1 := if c.keepS && w.o.cls == .ag then w.r
            else if k ∈ dKeys w.r.ss then { w.r with ss := dErase w.r.ss k } else w.r
  dropNode { w with r := r1 } (.s k)

/-- loop body of `add_all_snode_combinations(..., on_error='raise')` -/
def rawS (w : Local) (k : Nat) (d : Nat × Nat) : Local × Status :=
  if k ∈ dKeys w.r.ss then (w, .err)
  else ({ w with o := { w.o with nodes := insertNew w.o.nodes (.s k) },
                 r := { w.r with ss := dSet w.r.ss k d } }, .ok)

def stepLocal (c : Cfg) (w : Local) : LOp → Local × Status
  | .addF ts u d => addF c w ts u d
  | .addFs tss => addFs c w tss
  | .addS d chg => addS c w d chg
  | .rmF k => rmF w k
  | .rmS k => rmS c w k
  | .node i => ({ w with o := { w.o with nodes := insertNew w.o.nodes (.ord i) } }, .ok)
  | .edge u v => ({ w with o := { w.o with nodes := insertNew (insertNew w.o.nodes (.ord u)) (.ord v) } }, .ok)
  | .rawS k d => rawS w k d

/-! ## the heap level -/

inductive Op where
  | new (cls : Cls)            -- AugmentedGraph() / AugmentedPAG()
  | copy (g : Nat)             -- G.copy()
  | at (g : Nat) (op : LOp)    -- a method call on object g
  | allS (g : Nat) (n : Nat)   -- add_all_snode_combinations(G, n)  (returns a new graph)
  deriving DecidableEq, Repr, Inhabited

def State.cell (s : State) (o : Obj) : Registry := s.regs.getD o.reg {}

/-- run a local operation on object `g` and write the three reachable places back -/
def stepAt (c : Cfg) (s : State) (g : Nat) (op : LOp) : State × Status :=
  match s.objs[g]? with
  | none => (s, .err)
  | some o =>
    let res := stepLocal c ⟨o, s.cell o, s.classDoms⟩ op
    ({ regs := s.regs.set o.reg res.1.r, objs := s.objs.set g res.1.o, classDoms := res.1.cd }, res.2)

/-- `copy()`.  Repaired code: the copy gets registry dicts of its own (a new heap cell with the same
contents) and its own `domains`.  Unchanged code: `G.graph.update(self.graph)` stores the *same*
dict objects in the copy. -/
def stepCopy (c : Cfg) (s : State) (g : Nat) : State × Status :=
  match s.objs[g]? with
  | none => (s, .err)
  | some o =>
    if c.sharedCopy then ({ s with objs := s.objs ++ [o] }, .ok)
    else ({ s with regs := s.regs ++ [s.cell o], objs := s.objs ++ [{ o with reg := s.regs.length }] }, .ok)

/-- all pairs `(i, j)`, `1 ≤ i < j ≤ n`, in the order of `itertools.combinations(range(1, n+1), 2)` -/
def domPairs (n : Nat) : List (Nat × Nat) :=
  (List.range n).flatMap fun i => ((List.range n).filter (fun j => i < j)).map fun j => (i + 1, j + 1)

/-- the loop of `add_all_snode_combinations` on the (new) object `g` -/
def allSLoop (c : Cfg) (s : State) (g : Nat) : List (Nat × Nat) → Nat → State × Status
  | [], _ => (s, .ok)
  | d :: rest, k =>
    match stepAt c s g (.rawS k d) with
    | (s', .ok) => allSLoop c s' g rest (k + 1)
    | (s', .err) => (s', .err)

def step (c : Cfg) (s : State) : Op → State × Status
  | .new cls => ({ s with regs := s.regs ++ [{}], objs := s.objs ++ [{ cls := cls, reg := s.regs.length }] }, .ok)
  | .copy g => stepCopy c s g
  | .at g op => stepAt c s g op
  | .allS g n =>
    match stepCopy c s g with
    | (s1, .err) => (s1, .err)
    | (s1, .ok) =>
      match allSLoop c s1 s.objs.length (domPairs n) 0 with
      | (s2, .ok) => (s2, .ok)
      -- the exception propagates: the half-built copy is garbage, but whatever it wrote through
      -- shared references stays written
      | (s2, .err) => ({ s2 with objs := s2.objs.take s.objs.length }, .err)

def run (c : Cfg) (s : State) : List Op → State
  | [] => s
  | op :: ops => run c (step c s op).1 ops

def init : State := {}

/-! ## observation -/

/-- what the public API shows of one object (names included; the harness compares it name-free) -/
structure View where
  cls : Cls
  nodes : List Node
  aedges : List (Node × Nat)
  fs : List (Nat × FEntry)
  ss : List (Nat × (Nat × Nat))
  doms : List Nat
  deriving DecidableEq, Repr, Inhabited

def viewOf (c : Cfg) (s : State) (o : Obj) : View :=
  { cls := o.cls, nodes := o.nodes, aedges := o.aedges, fs := (s.cell o).fs, ss := (s.cell o).ss,
    doms := if c.classDoms then s.classDoms else o.doms }

def view (c : Cfg) (s : State) (g : Nat) : Option View := (s.objs[g]?).map (viewOf c s)

/-- `G.children(n)` for an augmented node `n` (both classes: the only edges at `n` are `n → t`) -/
def View.children (v : View) (n : Node) : List Nat := v.aedges.filterMap fun e => if e.1 = n then some e.2 else none

end C20
