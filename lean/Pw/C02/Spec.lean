import Pw.C02.Model

/-! # C02 specification

Abstract state of one mixed-edge graph: a node *set*, the kind of every existing edge type and, per
edge type, an edge *set* (characteristic functions; an undirected layer's set is symmetric), plus
attribute maps.  `AG.step` says what every public mutation does to these sets ("an edge is in a layer
iff it was added there and not since removed – directly, with an endpoint, or by clearing"), the
queries `AG.*` say what every read query answers "according to that edge set".  Counting queries
enumerate a finite universe `0..n-1` that contains the graph's nodes. -/
namespace C02

/-- abstract attribute dict -/
abbrev AAttr := Nat → Option Nat
def AAttr.empty : AAttr := fun _ => none
def AAttr.upd (a : AAttr) (b : Attr) : AAttr := fun k => (Attr.get b k).or (a k)

/-- do the pairs denote the same edge in a layer of kind `k` -/
def sameP (k : Kind) (x y u v : Nat) : Bool := (x == u && y == v) || (k == .und && x == v && y == u)

structure AG where
  admg : Bool
  node : Nat → Bool
  kind : Nat → Option Kind
  edge : Nat → Nat → Nat → Bool
  nattr : Nat → AAttr
  eattr : Nat → Nat → Nat → AAttr
  gattr : AAttr

namespace AG
def empty (admg : Bool) : AG :=
  { admg, node := fun _ => false,
    kind := fun t => if admg then (if t = 0 then some .dir else if t = 1 ∨ t = 2 then some .und else none) else none,
    edge := fun _ _ _ => false, nattr := fun _ => .empty, eattr := fun _ _ _ => .empty, gattr := .empty }

/-- does the edge-type argument `t` select layer `t'` -/
def sel (t : EType) (t' : Nat) : Bool := match t with | .all => true | .one t => t == t'
/-- is the edge-type argument accepted: `'all'`, or the name of an existing layer -/
def known (a : AG) : EType → Bool | .all => true | .one t => (a.kind t).isSome

def addNodeS (a : AG) (v : Nat) (at' : Attr) : AG :=
  { a with node := fun x => a.node x || x == v,
           nattr := fun x => if x == v then (a.nattr x).upd at' else a.nattr x }
/-- add `v` (with attributes `at'`) only if it is not a node yet -/
def ensureS (a : AG) (v : Nat) (at' : Attr) : AG := if a.node v then a else a.addNodeS v at'
/-- put the edge `u,v` with attributes into every selected existing layer -/
def putEdge (a : AG) (t : EType) (u v : Nat) (at' : Attr) : AG :=
  { a with
    edge := fun t' x y => a.edge t' x y ||
      (sel t t' && match a.kind t' with | some k => sameP k x y u v | none => false),
    eattr := fun t' x y =>
      if sel t t' && (match a.kind t' with | some k => sameP k x y u v | none => false)
      then (a.eattr t' x y).upd at' else a.eattr t' x y }
/-- take the edge `u,v` out of every selected existing layer -/
def dropEdgeS (a : AG) (t : EType) (u v : Nat) : AG :=
  let hit := fun t' x y => sel t t' && (match a.kind t' with | some k => sameP k x y u v | none => false)
  { a with edge := fun t' x y => a.edge t' x y && !hit t' x y,
           eattr := fun t' x y => if hit t' x y then .empty else a.eattr t' x y }
def dropNodeS (a : AG) (v : Nat) : AG :=
  { a with node := fun x => a.node x && x != v,
           nattr := fun x => if x == v then .empty else a.nattr x,
           edge := fun t x y => a.edge t x y && x != v && y != v,
           eattr := fun t x y => if x == v || y == v then .empty else a.eattr t x y }

/-- empty every selected layer -/
def clearS (a : AG) (t : EType) : AG :=
  { a with edge := fun t' x y => a.edge t' x y && !sel t t',
           eattr := fun t' x y => if sel t t' then .empty else a.eattr t' x y }

/-- what a public mutation does to the abstract state; the flag says whether the call returns -/
def step (a : AG) : GOp → AG × Bool
  | .addNode v at' => (a.addNodeS v at', true)
  | .addNodes vs at' => (vs.foldl (fun a v => a.addNodeS v at') a, true)
  | .removeNode v => if a.node v then (a.dropNodeS v, true) else (a, false)
  | .removeNodes vs => (vs.foldl dropNodeS a, true)
  | .addEdge u v t at' =>
    let a := (a.ensureS u []).ensureS v []
    if a.known t then (a.putEdge t u v at', true) else (a, false)
  | .addEdges es t at' =>
    let a := es.foldl (fun a e => (a.ensureS e.1 at').ensureS e.2 at') a
    if a.known t then (es.foldl (fun a e => a.putEdge t e.1 e.2 at') a, true) else (a, false)
  | .removeEdge u v t =>
    match t with
    | .all => (a.dropEdgeS .all u v, true)
    | .one t' => if (a.kind t').isSome && a.edge t' u v then (a.dropEdgeS t u v, true) else (a, false)
  | .removeEdges es t =>
    if a.known t then (es.foldl (fun a e => a.dropEdgeS t e.1 e.2) a, true) else (a, false)
  | .clearEdges t =>
    if a.known t then (a.clearS t, true) else (a, false)
  | .addEdgeType t k ns es =>
    -- the new layer holds exactly the edges of the given graph; the given graph's nodes join the node set
    if (a.kind t).isSome then (a, false) else
      ({ a with kind := fun t' => if t' == t then some k else a.kind t',
                node := fun x => a.node x || ns.contains x || es.any fun e => x == e.1 || x == e.2,
                edge := fun t' x y => if t' == t then es.any fun e => sameP k x y e.1 e.2 else a.edge t' x y }, true)
  | .removeEdgeType t =>
    if (a.kind t).isSome then
      ({ a with kind := fun t' => if t' == t then none else a.kind t',
                edge := fun t' x y => a.edge t' x y && t' != t,
                eattr := fun t' x y => if t' == t then .empty else a.eattr t' x y }, true)
    else (a, false)
  | .setGAttr at' => ({ a with gattr := a.gattr.upd at' }, true)

/-- `copy()` returns an equal graph -/
def copyS (a : AG) : AG := a
/-- `subgraph(ns)`: exactly the given nodes and the edges of every type between them (attributes of
    nodes and edges are not carried over; graph attributes are) -/
def subgraphS (a : AG) (ns : List Nat) : AG :=
  { a with node := fun x => ns.contains x, nattr := fun _ => .empty,
           edge := fun t x y => a.edge t x y && ns.contains x && ns.contains y,
           eattr := fun _ _ _ => .empty }

/-! ### read queries, over the node universe `0..n-1` and the edge-type universe `0..m-1` -/
def hasEdgeAny (a : AG) (m : Nat) (u v : Nat) : Bool := (List.range m).any fun t => a.edge t u v
def hasEdgeT (a : AG) (u v t : Nat) : Option Bool := (a.kind t).map fun _ => a.edge t u v
/-- number of edges of layer `t`: ordered pairs for a directed layer, unordered pairs otherwise -/
def numEdgesT (a : AG) (n t : Nat) : Nat :=
  match a.kind t with
  | none => 0
  | some .dir => ((List.range n).map fun u => (List.range n).countP fun v => a.edge t u v).sum
  | some .und => ((List.range n).map fun u => (List.range n).countP fun v => u ≤ v && a.edge t u v).sum
def numEdgesAll (a : AG) (n m : Nat) : Nat := ((List.range m).map (a.numEdgesT n)).sum
def numEdgesUV (a : AG) (m u v : Nat) : Nat := (List.range m).countP fun t => a.edge t u v
/-- `size = Σ layers |E|` -/
def sizeAll (a : AG) (n m : Nat) : Nat := a.numEdgesAll n m
def neighbor (a : AG) (m v w : Nat) : Bool := (List.range m).any fun t => a.edge t v w || a.edge t w v
/-- degree in layer `t`: directed = out + in; undirected = incident edges, a self loop twice -/
def degreeT (a : AG) (n t v : Nat) : Nat :=
  match a.kind t with
  | some .dir => (List.range n).countP (fun w => a.edge t v w) + (List.range n).countP (fun w => a.edge t w v)
  | _ => (List.range n).countP (fun w => a.edge t v w) + (if a.edge t v v then 1 else 0)
/-- `to_directed()`: (u,v) iff some layer's edge set has (u,v) (undirected sets are symmetric) -/
def toDirected (a : AG) (m u v : Nat) : Bool := a.hasEdgeAny m u v
/-- `to_undirected()`: {u,v} iff some layer has (u,v) or (v,u) -/
def toUndirected (a : AG) (m u v : Nat) : Bool := a.hasEdgeAny m u v || a.hasEdgeAny m v u
end AG

/-! ### abstract store -/
abbrev AStore := List AG

def AStore.step (s : AStore) : Op → AStore × Bool
  | .new a => (s ++ [AG.empty a], true)
  | .on h op => match s[h]? with
    | none => (s, false)
    | some g => let r := g.step op; (s.set h r.1, r.2)
  | .copy h => match s[h]? with
    | none => (s, false)
    | some g => (s ++ [g.copyS], true)
  | .subgraph h ns => match s[h]? with
    | none => (s, false)
    | some g => (s ++ [g.subgraphS ns], true)

def AStore.run (s : AStore) : List Op → List (AStore × Bool)
  | [] => []
  | op :: ops => let r := s.step op; r :: AStore.run r.1 ops

end C02
