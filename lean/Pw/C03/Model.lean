import Pw.C03.Guards
import Pw.C03.PairMap
import Pw.C03.Spec
/-! C03 — executable model of the public mutations of PAG / CPDAG (and AugmentedPAG, which inherits
PAG's methods unchanged), branch by branch.

Pair level: every operation is a function `state ↦ (state left behind, raised?)`.  The state that is
left behind is returned also when the call raises, so a call that raises half-way is visible in the
model (and the theorem "a rejected call leaves the pair unchanged" is a statement about the model,
not a definition).  The guards `checkPag` / `checkCpdag` are the translator's output
(`Pw/C03/Guards.lean` is the committed snapshot; every run re-generates them from the source and
re-checks `Table.lean` / `Full.lean` against the regenerated text).

Graph level: `PairMap`; an operation reads the pair it names relative to (u,v), applies the pair
level function and writes the result back. -/
namespace C03

/-! ### PAG pair -/

/-- `PAG.add_edge(u, v, t)`: guard, then `MixedEdgeGraph.add_edge` (an unknown layer name passes the
    guard's elif chain and makes `_get_internal_graph` raise `ValueError` before anything is stored) -/
def addP (t : ET) (s : PBits) : PBits × Bool :=
  if checkPag t s then (s, true)
  else if t = .other then (s, true)
  else (rawAddP t s, false)

/-- `MixedEdgeGraph.remove_edge(u, v, t)`: a named layer raises `NetworkXError` when the entry is
    absent; 'all' removes the (u,v) entry of every layer and swallows "not present" -/
def removeP (t : ET) (s : PBits) : PBits × Bool :=
  match t with
  | .directed => if s.directed_uv then ({ s with directed_uv := false }, false) else (s, true)
  | .circle => if s.circle_uv then ({ s with circle_uv := false }, false) else (s, true)
  | .bidirected => if s.bi then ({ s with bi := false }, false) else (s, true)
  | .undirected => if s.un then ({ s with un := false }, false) else (s, true)
  | .all => ({ s with directed_uv := false, circle_uv := false, bi := false, un := false }, false)
  | .other => (s, true)

/-- one member of `remove_edges_from(ebunch, t)`: silent when absent -/
def removeSilentP (t : ET) (s : PBits) : PBits × Bool :=
  match t with
  | .directed => ({ s with directed_uv := false }, false)
  | .circle => ({ s with circle_uv := false }, false)
  | .bidirected => ({ s with bi := false }, false)
  | .undirected => ({ s with un := false }, false)
  | .all => ({ s with directed_uv := false, circle_uv := false, bi := false, un := false }, false)
  | .other => (s, true)

/-- `PAG.orient_uncertain_edge(u, v)`, the four branches of the code in order; the removals inside a
    branch cannot fail (their entry was just tested), the final `add_edge` goes through the guard -/
def orientP (s : PBits) : PBits × Bool :=
  if !s.circle_uv then (s, true)                       -- "There is no uncertain circular edge"
  else if s.directed_vu then                           -- u <-o v  =>  u <-> v
    addP .bidirected { s with directed_vu := false, circle_uv := false }
  else if s.circle_vu then                             -- u o-o v  =>  u o-> v
    addP .directed { s with circle_uv := false }
  else if s.circle_uv then                             -- u -o v   =>  u -> v
    addP .directed { s with circle_uv := false }
  else (s, true)                                       -- "The current PAG is invalid."

/-- `is_valid_mec_graph` restricted to one pair, the pair being read relative to (lo, hi) —
    networkx reports an undirected-kind entry once, as (lo, hi), when nodes were inserted in
    increasing order; every stored entry is passed to the guard with its own orientation -/
def isValidP (s : PBits) : Bool :=
  !(s.directed_uv && checkPag .directed s) && !(s.directed_vu && checkPag .directed s.swap) &&
  !(s.bi && checkPag .bidirected s) && !(s.un && checkPag .undirected s) &&
  !(s.circle_uv && checkPag .circle s) && !(s.circle_vu && checkPag .circle s.swap)

/-! ### CPDAG pair (layers: directed, undirected) -/

/-- `CPDAG.add_edge`: 'bidirected' / 'circle' name no layer of a CPDAG -/
def addC (t : ET) (s : CBits) : CBits × Bool :=
  if checkCpdag t s then (s, true)
  else if t = .other ∨ t = .bidirected ∨ t = .circle then (s, true)
  else (rawAddC t s, false)

def removeC (t : ET) (s : CBits) : CBits × Bool :=
  match t with
  | .directed => if s.directed_uv then ({ s with directed_uv := false }, false) else (s, true)
  | .undirected => if s.un then ({ s with un := false }, false) else (s, true)
  | .all => ({ s with directed_uv := false, un := false }, false)
  | _ => (s, true)

def removeSilentC (t : ET) (s : CBits) : CBits × Bool :=
  match t with
  | .directed => ({ s with directed_uv := false }, false)
  | .undirected => ({ s with un := false }, false)
  | .all => ({ s with directed_uv := false, un := false }, false)
  | _ => (s, true)

/-- `CPDAG.orient_uncertain_edge(u, v)`: test, remove the undirected entry, guarded add of u -> v -/
def orientC (s : CBits) : CBits × Bool :=
  if !s.un then (s, true)
  else addC .directed { s with un := false }

def isValidC (s : CBits) : Bool :=
  !(s.directed_uv && checkCpdag .directed s) && !(s.directed_vu && checkCpdag .directed s.swap) &&
  !(s.un && checkCpdag .undirected s)

/-! ### graph level -/

/-- the per-pair semantics of one class -/
structure Sem (σ : Type) where
  add : ET → σ → σ × Bool
  remove : ET → σ → σ × Bool
  removeSilent : ET → σ → σ × Bool
  orient : σ → σ × Bool
  isValid : σ → Bool
  /-- does the string name a layer of the class (or 'all')? -/
  known : ET → Bool

def semP : Sem PBits := ⟨addP, removeP, removeSilentP, orientP, isValidP, fun t => t ≠ .other⟩
def semC : Sem CBits :=
  ⟨addC, removeC, removeSilentC, orientC, isValidC, fun t => t ≠ .other ∧ t ≠ .bidirected ∧ t ≠ .circle⟩

variable {σ : Type} [PairState σ]

/-- apply a pair-level function to the pair named (u,v) -/
def applyAt (f : σ → σ × Bool) (g : PairMap σ) (u v : Nat) : PairMap σ × Bool :=
  let r := f (g.rd u v)
  (g.wr u v r.1, r.2)

/-- a bulk call = fold of the single call over the members, all-or-nothing: every member is
    validated against the graph *and the members before it*; if one is rejected the call raises and
    the original graph `g0` is kept -/
def bulk (f : σ → σ × Bool) (g0 : PairMap σ) : PairMap σ → List (Nat × Nat) → PairMap σ × Bool
  | g, [] => (g, false)
  | g, (u, v) :: es =>
    let r := applyAt f g u v
    if r.2 then (g0, true) else bulk f g0 r.1 es

def step (M : Sem σ) (g : PairMap σ) : Op → PairMap σ × Bool
  | .add t u v => applyAt (M.add t) g u v
  | .addBulk t es => if M.known t then bulk (M.add t) g g es else (g, true)
  | .remove t u v => applyAt (M.remove t) g u v
  | .removeBulk t es => if M.known t then bulk (M.removeSilent t) g g es else (g, true)
  | .orient u v => applyAt M.orient g u v

/-- a history; returns the final graph -/
def run (M : Sem σ) (g : PairMap σ) : List Op → PairMap σ
  | [] => g
  | op :: ops => run M (step M g op).1 ops

/-- the constructor: the incoming edge lists are stored unchecked, then `is_valid_mec_graph` walks
    over the stored entries; `keys` = the pairs named by some list -/
def storeAll (raw : σ → σ) (g : PairMap σ) : List (Nat × Nat) → PairMap σ
  | [] => g
  | (u, v) :: es => storeAll raw (g.wr u v (raw (g.rd u v))) es

def ctorOk (M : Sem σ) (g : PairMap σ) (keys : List (Nat × Nat)) : Bool :=
  keys.all fun e => M.isValid (g.rd (PairMap.key e.1 e.2).1 (PairMap.key e.1 e.2).2)

def ofListsP (D B U C : List (Nat × Nat)) : PairMap PBits :=
  storeAll (rawAddP .circle) (storeAll (rawAddP .undirected) (storeAll (rawAddP .bidirected)
    (storeAll (rawAddP .directed) PairMap.emp D) B) U) C

def ofListsC (D U : List (Nat × Nat)) : PairMap CBits :=
  storeAll (rawAddC .undirected) (storeAll (rawAddC .directed) PairMap.emp D) U

end C03
