import Pw.C01.Spec
open Closure

/-! # C06 specification

"inducing_path(G, x, y, L, S) reports True iff a path exists on which every inner node is in L or a
collider and every collider is an ancestor of x, y or S, and any path it returns is such a path."

A path is a start node plus a list of hops (`MG.Hop`, shared with C01); every hop names the edge it
uses by its two marks, so on a pair that carries two edges (`a -> b` and `a <-> b`) a path picks one
edge per hop.  "Ancestor of x, y or S" is reflexive on S (DESIGN §6, choice 2). -/
namespace C06
open MG

/-- `v` is an ancestor of `x`, of `y`, or a member / an ancestor of a member of `S` -/
def AncOf (G : MG) (x y : Nat) (S : List Nat) (v : Nat) : Prop := ∃ t ∈ x :: y :: S, Anc G v t

/-- both marks at the node are arrowheads -/
def IsCollider (min mout : Mark) : Prop := min = .head ∧ mout = .head

/-- the condition at an inner node `v`, entered with mark `min` and left with mark `mout` (both at v):
    "in L or a collider", and "every collider is an ancestor of x, y or S" -/
def condI (G : MG) (L S : List Nat) (x y : Nat) (min mout : Mark) (v : Nat) : Prop :=
  (v ∈ L ∨ IsCollider min mout) ∧ (IsCollider min mout → AncOf G x y S v)

/-- every inner node of the path `a, hs` satisfies `condI`; the entry mark `none` says that `a` is the
    first node of the path (an endpoint: no condition) -/
def InnerOK (G : MG) (L S : List Nat) (x y : Nat) : Option Mark → Nat → List Hop → Prop
  | _, _, [] => True
  | none, _, h :: t => InnerOK G L S x y (some h.mn) h.nx t
  | some m, a, h :: t => condI G L S x y m h.mp a ∧ InnerOK G L S x y (some h.mn) h.nx t

/-- `hs` is an inducing path from `x` to `y` relative to `L`, `S` -/
def InducingPath (G : MG) (L S : List Nat) (x y : Nat) (hs : List Hop) : Prop :=
  ValidW G x hs ∧ endNode x hs = y ∧ (nodesOf x hs).Nodup ∧ InnerOK G L S x y none x hs

def HasInducingPath (G : MG) (L S : List Nat) (x y : Nat) : Prop := ∃ hs, InducingPath G L S x y hs

/-- a node list (as returned by the implementation) is an inducing path for some choice of one edge
    per hop -/
def NodePathInducing (G : MG) (L S : List Nat) (x y : Nat) (p : List Nat) : Prop :=
  ∃ hs, InducingPath G L S x y hs ∧ nodesOf x hs = p

/-- the input domain of the `inducing_path` clause: an ADMG (directed + bidirected edges only, no
    directed cycle is needed for the theorems – only that no pair carries `a -> b` and `b -> a`),
    endpoints are distinct nodes outside `L ∪ S` -/
structure Dom (G : MG) (L S : List Nat) (x y : Nat) : Prop where
  wf : G.WF
  un : G.un = []
  circ : G.circ = []
  no2 : ∀ a b, (a, b) ∈ G.dir → (b, a) ∉ G.dir
  hx : x ∈ G.nodes
  hy : y ∈ G.nodes
  hxy : x ≠ y
  hxL : x ∉ L
  hyL : y ∉ L
  hxS : x ∉ S
  hyS : y ∉ S

/-! ## `dag_to_mag`: structural specification (the part that does not need Richardson–Spirtes) -/

/-- `a` is a strict ancestor of a member of `T` -/
def SAncOfSet (G : MG) (T : List Nat) (a : Nat) : Prop := ∃ t ∈ T, ∃ c, (a, c) ∈ G.dir ∧ Anc G c t

/-- mark at `b` on the MAG edge between `a` and `b`: tail iff `b ∈ An({a} ∪ S)` -/
def TailAt (G : MG) (S : List Nat) (a b : Nat) : Prop := SAncOfSet G (S ++ [a]) b

/-- structural specification of the result `M` of `dag_to_mag(G, L, S)` -/
structure MagStructure (G : MG) (L S : List Nat) (M : MG) : Prop where
  nodes : ∀ v, v ∈ M.nodes ↔ (v ∈ G.nodes ∧ v ∉ L ∧ v ∉ S)
  dir : ∀ a b, (a, b) ∈ M.dir ↔
    (a ∈ G.nodes ∧ b ∈ G.nodes ∧ a ≠ b ∧ (HasInducingPath G L S a b ∨ HasInducingPath G L S b a) ∧
      a ∉ L ∧ a ∉ S ∧ b ∉ L ∧ b ∉ S ∧ TailAt G S b a ∧ ¬ TailAt G S a b)
  bi : ∀ a b, ((a, b) ∈ M.bi ∨ (b, a) ∈ M.bi) ↔
    (a ∈ G.nodes ∧ b ∈ G.nodes ∧ a ≠ b ∧ (HasInducingPath G L S a b ∨ HasInducingPath G L S b a) ∧
      a ∉ L ∧ a ∉ S ∧ b ∉ L ∧ b ∉ S ∧ ¬ TailAt G S b a ∧ ¬ TailAt G S a b)
  un : ∀ a b, ((a, b) ∈ M.un ∨ (b, a) ∈ M.un) ↔
    (a ∈ G.nodes ∧ b ∈ G.nodes ∧ a ≠ b ∧ (HasInducingPath G L S a b ∨ HasInducingPath G L S b a) ∧
      a ∉ L ∧ a ∉ S ∧ b ∉ L ∧ b ∉ S ∧ TailAt G S b a ∧ TailAt G S a b)
  circ : M.circ = []

end C06
