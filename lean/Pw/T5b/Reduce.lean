import Pw.T5b.Chain
open Closure MG

/-! # T5b, part 3d: reducing a chain and reading it as a semi-open M-walk

A collider-type anchor that is a D-ancestor of one of its two neighbours is removed (its two links merge:
the anchor becomes a legitimate collider of the longer inducing walk).  In an irreducible chain every
collider-type anchor is a collider of `M`, every other inner anchor is outside Z. -/
namespace T5b
open C06

variable {D M : MG} {L S : List Nat}

def Irred (D : MG) : Nat → Bool → List (Nat × Bool) → Prop
  | _, _, [] => True
  | q, cq, [(v, cv)] => (cq = false → cv = false → q ≠ v)
  | q, cq, (v, cv) :: (w, cw) :: rest =>
      (cq = false → cv = false → q ≠ v) ∧ (cv = true → ¬ Anc D v q ∧ ¬ Anc D v w) ∧
        Irred D v cv ((w, cw) :: rest)

theorem irred_tail {q : Nat} {cq : Bool} {v : Nat} {cv : Bool} {rest : List (Nat × Bool)}
    (h : Irred D q cq ((v, cv) :: rest)) : Irred D v cv rest := by
  cases rest with
  | nil => trivial
  | cons a b => obtain ⟨w, cw⟩ := a; exact h.2.2

theorem irred_ne {q : Nat} {cq : Bool} {v : Nat} {cv : Bool} {rest : List (Nat × Bool)}
    (h : Irred D q cq ((v, cv) :: rest)) : cq = false → cv = false → q ≠ v := by
  cases rest with
  | nil => exact h
  | cons a b => obtain ⟨w, cw⟩ := a; exact h.1

/-- either the chain is irreducible or there is a shorter chain with the same ends -/
theorem dich {Z T : List Nat} : ∀ (l : List (Nat × Bool)) (q : Nat) (cq : Bool),
    ChainOK D L S Z T q cq l →
    Irred D q cq l ∨ ∃ l', l'.length < l.length ∧ ChainOK D L S Z T q cq l' ∧
      endOf q l' = endOf q l ∧ lastFlag cq l' = lastFlag cq l
  | [], _, _, _ => Or.inl trivial
  | [(v, cv)], q, cq, hc => by
    by_cases hq : cq = false ∧ cv = false ∧ q = v
    · obtain ⟨h1, h2, rfl⟩ := hq
      exact Or.inr ⟨[], by simp, trivial, rfl, by simp [lastFlag, h1, h2]⟩
    · left
      intro h1 h2 h3
      exact hq ⟨h1, h2, h3⟩
  | (v, cv) :: (w, cw) :: rest, q, cq, hc => by
    obtain ⟨lk1, gv, lk2, gw, hrest⟩ := hc
    by_cases hq : cq = false ∧ cv = false ∧ q = v
    · obtain ⟨h1, h2, rfl⟩ := hq
      subst h1; subst h2
      exact Or.inr ⟨(w, cw) :: rest, by simp, ⟨lk2, gw, hrest⟩, rfl, rfl⟩
    · by_cases hr : cv = true ∧ (Anc D v q ∨ Anc D v w)
      · obtain ⟨h1, h2⟩ := hr
        subst h1
        have hanc : Anc D v q ∨ Anc D v w ∨ AnS D S v := by
          rcases h2 with h | h
          · exact Or.inl h
          · exact Or.inr (Or.inl h)
        exact Or.inr ⟨(w, cw) :: rest, by simp, ⟨lk_merge lk1 lk2 hanc, gw, hrest⟩, rfl, rfl⟩
      · rcases dich ((w, cw) :: rest) v cv ⟨lk2, gw, hrest⟩ with hi | ⟨l', hlen, hc', he', hf'⟩
        · left
          refine ⟨fun h1 h2 h3 => hq ⟨h1, h2, h3⟩, ?_, hi⟩
          intro hcv
          exact ⟨fun h => hr ⟨hcv, Or.inl h⟩, fun h => hr ⟨hcv, Or.inr h⟩⟩
        · right
          refine ⟨(v, cv) :: l', by simpa using hlen, ⟨lk1, gv, hc'⟩, ?_, ?_⟩
          · simpa [endOf] using he'
          · simpa [lastFlag] using hf'

theorem reduce_all {Z T : List Nat} {x : Nat} : ∀ (n : Nat) (l : List (Nat × Bool)), l.length ≤ n →
    ChainOK D L S Z T x false l →
    ∃ l', ChainOK D L S Z T x false l' ∧ Irred D x false l' ∧ endOf x l' = endOf x l ∧
      lastFlag false l' = lastFlag false l
  | 0, l, hn, hc => by
    have : l = [] := List.eq_nil_of_length_eq_zero (Nat.le_zero.mp hn)
    subst this
    exact ⟨[], trivial, trivial, rfl, rfl⟩
  | n + 1, l, hn, hc => by
    rcases dich l x false hc with hi | ⟨l', hlen, hc', he', hf'⟩
    · exact ⟨l, hc, hi, rfl, rfl⟩
    · obtain ⟨l'', h1, h2, h3, h4⟩ := reduce_all n l' (by omega) hc'
      exact ⟨l'', h1, h2, by rw [h3, he'], by rw [h4, hf']⟩

/-- the M-walk through the anchors of a chain; marks are read off ancestry in `D` -/
noncomputable def mkW (D : MG) (S : List Nat) : Nat → List (Nat × Bool) → List Hop
  | _, [] => []
  | q, (v, _) :: rest => ⟨mkAt D S v q, mkAt D S q v, v⟩ :: mkW D S v rest

theorem conv (su : Setup D L S M) {Z T : List Nat} : ∀ (l : List (Nat × Bool)) (q : Nat) (cq : Bool)
    (e : Option Mark), Obs D L S q → ChainOK D L S Z T q cq l → Irred D q cq l →
    lastFlag cq l = false →
    (cq = true → ¬ AnS D S q ∧ e = some .head ∧ ∀ v cv rest, l = (v, cv) :: rest → ¬ Anc D q v) →
    (cq = false → q ∉ Z ∨ e = none) →
    ValidW M q (mkW D S q l) ∧ OpenP Tr Z e q (mkW D S q l) ∧ endNode q (mkW D S q l) = endOf q l
  | [], q, cq, e, _, _, _, _, _, _ => ⟨trivial, trivial, rfl⟩
  | (v, cv) :: rest, q, cq, e, hq, hc, hi, hl, hq1, hq0 => by
    obtain ⟨lk, gv, hrest⟩ := hc
    have hlf : lastFlag cv rest = false := hl
    -- a collider-type `v` is an inner anchor
    have hvinner : cv = true → ∃ w cw rest', rest = (w, cw) :: rest' := by
      intro hcv
      cases rest with
      | nil => simp only [lastFlag] at hlf; rw [hcv] at hlf; cases hlf
      | cons a b => exact ⟨a.1, a.2, b, rfl⟩
    have hvq : cv = true → ¬ Anc D v q := by
      intro hcv
      obtain ⟨w, cw, rest', rfl⟩ := hvinner hcv
      exact (hi.2.1 hcv).1
    have hvw : cv = true → ∀ w cw rest', rest = (w, cw) :: rest' → ¬ Anc D v w := by
      intro hcv w cw rest' hr
      subst hr
      exact (hi.2.1 hcv).2
    have hne : q ≠ v := by
      cases hcq : cq with
      | true =>
        intro heq
        exact (hq1 hcq).2.2 v cv rest rfl (heq ▸ Anc.refl q)
      | false =>
        cases hcv : cv with
        | true =>
          intro heq
          exact hvq hcv (heq ▸ Anc.refl q)
        | false => exact irred_ne hi hcq hcv
    have hedge := edge_of_lk su hq gv.obs hne lk
    obtain ⟨rv, ro, re⟩ := conv su rest v cv (some (mkAt D S q v)) gv.obs hrest (irred_tail hi) hlf
      (fun hcv => ⟨gv.col hcv, by rw [mkAt_head (gv.col hcv) (hvq hcv)], hvw hcv⟩)
      (fun hcv => Or.inl (gv.free hcv))
    refine ⟨⟨hedge, rv⟩, ⟨?_, ro⟩, by simpa [mkW, endNode, endOf] using re⟩
    cases e with
    | none => trivial
    | some m =>
      simp only [condPO, condP]
      cases hcq : cq with
      | true =>
        obtain ⟨h1, h2, h3⟩ := hq1 hcq
        simp only [Option.some.injEq] at h2
        rw [h2, mkAt_head h1 (h3 v cv rest rfl)]
        simp [Tr]
      | false =>
        rcases hq0 hcq with h | h
        · split
          · trivial
          · exact h
        · cases h

/-- every node of the M-walk of a chain is M-anterior to a target -/
theorem mkW_inAnt (su : Setup D L S M) {Z T T' : List Nat} (hT : ∀ t ∈ T, Obs D L S t ∧ t ∈ T') :
    ∀ (l : List (Nat × Bool)) (q : Nat) (cq : Bool), InAnt M T' q → ChainOK D L S Z T q cq l →
      ValidW M q (mkW D S q l) → ∀ w ∈ nodesOf q (mkW D S q l), InAnt M T' w
  | [], q, _, hq, _, _, w, hw => by
    simp [nodesOf, mkW] at hw; rw [hw]; exact hq
  | (v, cv) :: rest, q, cq, hq, hc, hv, w, hw => by
    obtain ⟨_, gv, hrest⟩ := hc
    obtain ⟨hv1, hv2⟩ := hv
    have hvA : InAnt M T' v := by
      by_cases hS : AnS D S v
      · obtain ⟨s, hs, ha⟩ := hS
        cases ha with
        | refl => exact absurd hs gv.obs.2.2
        | @step _ c _ e hcs =>
          have ht : mkAt D S q v = .tail := mkAt_tail.mpr ⟨s, List.mem_append_left _ hs, c, e, hcs⟩
          have hedge : HasEdge M v q .tail (mkAt D S v q) := by
            have := hv1.symm
            simp only at this
            rwa [ht] at this
          obtain ⟨t, ht', hqt⟩ := hq
          exact ⟨t, ht', Ant.step hedge hqt⟩
      · rcases gv.tgt with h | ⟨t, ht, ha⟩
        · exact absurd h hS
        · exact ⟨t, (hT t ht).2, antM_of_anc su gv.obs (hT t ht).1 hS ha⟩
    simp only [nodesOf, mkW, List.map_cons, List.mem_cons] at hw
    rcases hw with rfl | hw
    · exact hq
    · exact mkW_inAnt su hT rest v cv hvA hrest hv2 w (by
        simp only [nodesOf, List.mem_cons]; exact hw)

end T5b
