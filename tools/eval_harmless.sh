#!/bin/bash
# usage: tools/eval_harmless.sh <id> "C01 C10 ..."   — a behaviour-preserving refactoring must leave every check green
id=$1; checks=$2; wt=/tmp/eh-$id
cd /verif
git -C /repo worktree add -q --detach $wt HEAD 2>/dev/null || { echo "$id: worktree failed"; exit; }
cp -r /repo/pywhy_graphs.egg-info $wt/
if ! git -C $wt apply /verif/harmless/$id/patch.diff 2>/dev/null; then echo "$id PATCH-DOES-NOT-APPLY" | tee harmless/$id/result.txt; git -C /repo worktree remove --force $wt; exit; fi
out=""
for p in $checks; do
  PW_REPO=$wt ./check $p --tier quick > /tmp/eh-$id-$p.log 2>&1; rc=$?
  v=$(grep -h '^VIOLATION' /tmp/eh-$id-$p.log | head -1 | sed 's/replay=[^ ]*//')
  out="$out $p:rc=$rc${v:+[$v]}"
done
echo "$id$out" | tee harmless/$id/result.txt
git -C /repo worktree remove --force $wt
