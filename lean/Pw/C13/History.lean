import Pw.C13.Copy
import Pw.C13.Rejected

/-! # C13 — the three clauses along every history -/
namespace C13

/-! ## the number of edge types never changes -/

theorem addEdgeBase_length (s : St) (u v : TNode) :
    (addEdgeBase s u v).1.layers.length = s.layers.length := by
  unfold addEdgeBase
  split
  · rfl
  · simp [St.addVar]

theorem addEdgeMixed_length (cfg : Cfg) (s : St) (sel : Sel) (u v : TNode) :
    (addEdgeMixed cfg s sel u v).1.layers.length = s.layers.length := by
  unfold addEdgeMixed
  split
  · rfl
  · split
    · rfl
    · rename_i s1 h1
      obtain ⟨_, b1⟩ := ensureNode_frame h1
      split
      · rw [b1]
      · rename_i s2 h2
        obtain ⟨_, b2⟩ := ensureNode_frame h2
        split
        · rw [b2, b1]
        · split
          · rw [b2, b1]
          · rw [← b1, ← b2]; exact mapSel_length _ _ _ _

theorem addEdge_length (cfg : Cfg) (s : St) (sel : Sel) (u v : TNode) :
    (addEdge cfg s sel u v).1.layers.length = s.layers.length := by
  unfold addEdge
  split
  · exact addEdgeMixed_length cfg s sel u v
  · exact addEdgeBase_length s u v

theorem foldl_length {α : Type} {f : St → α → St}
    (hf : ∀ s a, (f s a).layers.length = s.layers.length) :
    ∀ (l : List α) (s : St), (l.foldl f s).layers.length = s.layers.length
  | [], _ => rfl
  | a :: l, s => by rw [List.foldl_cons, foldl_length hf l, hf]

theorem addEdges_length (cfg : Cfg) (s : St) (sel : Sel) (es : List (TNode × TNode)) :
    (addEdges cfg s sel es).1.layers.length = s.layers.length := by
  unfold addEdges
  split
  · unfold addEdgesMixed
    obtain ⟨_, b⟩ := ensureAll_frame es s
    split
    · rfl
    · simp only []
      split
      · rw [b]
      · split
        · rw [b]
        · split
          · rw [b]
          · rw [← b]; exact mapSel_length _ _ _ _
  · unfold addEdgesBase
    split
    · rfl
    · exact foldl_length (f := fun s (e : TNode × TNode) => (addEdgeBase s e.1 e.2).1)
        (fun s e => addEdgeBase_length s e.1 e.2) es s

theorem removeEdge_length (cfg : Cfg) (s : St) (sel : Sel) (u v : TNode) :
    (removeEdge cfg s sel u v).1.layers.length = s.layers.length := by
  unfold removeEdge
  simp only []
  generalize (if cfg.mixed = true then sel else Sel.all) = sel'
  split
  · rfl
  · split
    · rfl
    · exact mapSel_length _ _ _ _

theorem removeEdges_length (cfg : Cfg) (s : St) (sel : Sel) (es : List (TNode × TNode)) :
    (removeEdges cfg s sel es).1.layers.length = s.layers.length := by
  unfold removeEdges
  split
  · rfl
  · simp only []
    generalize (if cfg.mixed = true then sel else Sel.all) = sel'
    split
    · rfl
    · exact foldl_length (f := fun s (e : TNode × TNode) => (removeEdge cfg s sel' e.1 e.2).1)
        (fun s e => removeEdge_length cfg s sel' e.1 e.2) es s

theorem setMaxLag_length (s : St) (k : Int) : (setMaxLag s k).1.layers.length = s.layers.length := by
  unfold setMaxLag
  split
  · rfl
  · simp only []
    split
    · simp [grow]
    · split
      · simp [shrink]
      · rfl

theorem foldAdd_length (cfg : Cfg) (i : Nat) : ∀ (es : List Edge) (r : St × Bool),
    (foldAdd cfg i r es).1.layers.length = r.1.layers.length
  | [], r => by cases r; simp [foldAdd]
  | _ :: _, (s, true) => by simp [foldAdd]
  | e :: es, (s, false) => by
    simp only [foldAdd]
    rw [foldAdd_length cfg i es, addEdge_length]

theorem copyLayers_length (cfg : Cfg) : ∀ (Ls : List Layer) (i : Nat) (r : St × Bool),
    (copyLayers cfg i r Ls).1.layers.length = r.1.layers.length
  | [], _, _ => by simp [copyLayers]
  | L :: Ls, i, r => by
    simp only [copyLayers]
    rw [copyLayers_length cfg Ls, foldAdd_length]

theorem copy_length (cfg : Cfg) (s : St) : (copy cfg s).1.layers.length = s.layers.length := by
  unfold copy
  simp only []
  split
  · simp
  · rw [copyLayers_length]
    simp only
    rw [(foldl_addVar_frame s.nodes _).2]
    simp

theorem step_length (cfg : Cfg) (s : St) (op : Op) :
    (step cfg s op).1.layers.length = s.layers.length := by
  cases op with
  | addEdge l u v => exact addEdge_length cfg s l u v
  | addEdges l es => exact addEdges_length cfg s l es
  | removeEdge l u v => exact removeEdge_length cfg s l u v
  | removeEdges l es => exact removeEdges_length cfg s l es
  | addVar x => rfl
  | removeVar x => simp [step, St.removeVar]
  | setMaxLag k => exact setMaxLag_length s k
  | copy =>
    simp only [step]
    split
    · rfl
    · exact copy_length cfg s

theorem run_length (cfg : Cfg) : ∀ (ops : List Op) (s : St), ∀ r ∈ run cfg s ops,
    r.1.layers.length = s.layers.length
  | [], _, r, hr => by simp [run] at hr
  | op :: ops, s, r, hr => by
    simp only [run, List.mem_cons] at hr
    rcases hr with rfl | hr
    · exact step_length cfg s op
    · rw [run_length cfg ops _ r hr, step_length]

/-- **C13, copy clause along histories**: on a class without mark guards, after any history `copy()`
does not raise and returns an equal graph (same nodes, max_lag, edges of every edge type). -/
theorem C13_copy (cfg : Cfg) (hg : cfg.guard = .none) (hb : cfg.mixed = false → cfg.kinds.length ≤ 1)
    (m : Nat) (ops : List Op) :
    ∀ r ∈ run cfg (init cfg m) ops, (copy cfg r.1).2 = false ∧ Same (copy cfg r.1).1 r.1 := by
  intro r hr
  refine copy_same cfg hg r.1 (run_inv cfg ops _ (init_inv cfg m) r hr) (fun hm => ?_)
  rw [run_length cfg ops _ r hr]
  simpa [init] using hb hm

/-- … in particular for the four unguarded classes of the library -/
theorem C13_copy_classes (cfg : Cfg) (hc : cfg = cfgGraph ∨ cfg = cfgDigraph ∨ cfg = cfgMixed ∨ cfg = cfgPag)
    (m : Nat) (ops : List Op) :
    ∀ r ∈ run cfg (init cfg m) ops, (copy cfg r.1).2 = false ∧ Same (copy cfg r.1).1 r.1 := by
  rcases hc with rfl | rfl | rfl | rfl
  · exact C13_copy _ rfl (fun _ => by simp [cfgGraph]) m ops
  · exact C13_copy _ rfl (fun _ => by simp [cfgDigraph]) m ops
  · exact C13_copy _ rfl (fun h => by simp [cfgMixed] at h) m ops
  · exact C13_copy _ rfl (fun h => by simp [cfgPag] at h) m ops

/-- **C13, all clauses for one step of any history** (any class): the state before and after is
stationary, and if the operation raised, no edge list and not max_lag changed. -/
theorem C13_step (cfg : Cfg) (m : Nat) (ops : List Op) (op : Op) :
    let s := ((run cfg (init cfg m) ops).getLast?.map (·.1)).getD (init cfg m)
    Stationary s ∧ Stationary (step cfg s op).1 ∧
      ((step cfg s op).2 = true →
        (step cfg s op).1.layers = s.layers ∧ (step cfg s op).1.maxLag = s.maxLag) := by
  intro s
  have hs : Inv s := by
    show Inv (((run cfg (init cfg m) ops).getLast?.map (·.1)).getD (init cfg m))
    cases h : (run cfg (init cfg m) ops).getLast? with
    | none => simpa using init_inv cfg m
    | some r =>
      simp only [Option.map_some, Option.getD_some]
      exact run_inv cfg ops _ (init_inv cfg m) r (List.mem_of_getLast? h)
  exact ⟨hs.stationary, (step_inv cfg hs op).stationary, step_rejected cfg s op⟩

end C13
