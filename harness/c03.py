"""C03: PAG and CPDAG never hold contradictory marks between two nodes.

Three ties between the theorems (lean/Pw/C03/*.lean) and the code under test:

 1. translator  – `_check_adding_pag_edge` / `_check_adding_cpdag_edge` are re-translated from the
    CURRENT source on every run (translate/guards.py) and the table + lifting + property theorems
    (Model/Table/Lift/Full/Find.lean) are re-elaborated by `lake env lean` against the regenerated
    guard text.  A failure => the failing (state, op) entries are read off by evaluating the tables
    (Find.lean, against the regenerated guards) and replayed on the real class.
 2. correspondence – histories on the real classes vs the compiled Lean model (`c03run`, `c03ctor`),
    compared after every call: raised?, per-layer edges, is_valid_mec_graph.
 3. spec – every implementation trace is judged directly against the Lean-defined spec predicates
    (`GoodP`/`GoodC`, `OrientOnlyP`/`OrientOnlyC`, tabulated through the driver at start-up), also
    for the time-series classes.  StationaryTimeSeriesCPDAG traces are additionally compared call by call with
    the node-level C13 model (`c13crun`; theorems C03.C03_tscpdag, lean/Pw/C03/TimeSeries.lean, re-elaborated
    in tie 1 because guardBad_eq_addC ties the model's guard to the translated guard); the unguarded
    StationaryTimeSeriesPAG (known finding) has no theorem to be tied to."""
import copy
import itertools
import json
import os
import subprocess
import time

from . import common as C
from .shrink import shrink_ops

PID = "C03"
VERIF = C.VERIF
LEAN = os.path.join(VERIF, "lean")
NAMED = ("directed", "bidirected", "circle", "undirected")
TYPES = NAMED + ("all", "foo")
LAYER = {"D": "directed", "B": "bidirected", "U": "undirected", "C": "circle"}
KEYS = ("D", "B", "U", "C")
FAMILY = {"PAG": "P", "AugmentedPAG": "P", "CPDAG": "C", "TSPAG": "P", "TSCPDAG": "C"}
HAS = {"P": ("D", "B", "U", "C"), "C": ("D", "U")}
TS_NODES = [("x", -1), ("x", 0), ("y", -1), ("y", 0)]
KF_ALL = "C03-all-bypasses-guards"
KF_TSPAG = "C03-tspag-unguarded"
KF_TSATOMIC = "C03-ts-bulk-not-atomic"
KF_TSBULK = "C03-tscpdag-bulk-self-conflict"
KF_TEXT = {
    KF_ALL: "add_edge/add_edges_from with edge_type='all' is accepted and stores contradictory marks",
    KF_TSPAG: "StationaryTimeSeriesPAG add_edge/add_edges_from/orient_uncertain_edge are unguarded and store contradictory marks",
    KF_TSATOMIC: "time-series add_edges_from raises half-way and keeps the members inserted so far",
    KF_TSBULK: "StationaryTimeSeriesCPDAG.add_edges_from accepts members that contradict one another",
}


def registered_known(ctx):
    """ids of the registered known findings (merged file and this property's own registration file)"""
    ids = {f["id"] for f in ctx.get("findings", []) if f.get("status") == "known"}
    p = os.path.join(VERIF, "known_findings.d", PID + ".json")
    if os.path.exists(p):
        ids |= {f["id"] for f in json.load(open(p))["findings"] if f.get("status") == "known"}
    return ids


# ----------------------------------------------------------------------------- implementation side
def _cls(name):
    import pywhy_graphs as pg
    if name == "TSPAG":
        from pywhy_graphs.classes.timeseries import StationaryTimeSeriesPAG
        return StationaryTimeSeriesPAG
    if name == "TSCPDAG":
        from pywhy_graphs.classes.timeseries import StationaryTimeSeriesCPDAG
        return StationaryTimeSeriesCPDAG
    return getattr(pg, name)


def _labels(case):
    if case["cls"].startswith("TS"):
        return list(TS_NODES)
    fam = case.get("fam", "int")
    lab = C.Labels(fam)
    return [lab(i) for i in range(case["n"])]


def build(case):
    """the graph in the case's initial state; layer entries are written straight into the internal
    networkx graphs (no guard), which is how non-reachable start states are produced"""
    cls = _cls(case["cls"])
    labs = _labels(case)
    if case["cls"].startswith("TS"):
        G = cls(max_lag=1)
        G.add_nodes_from([("x", 0), ("y", 0)])
    else:
        G = cls()
        if case.get("lazy"):
            # only the endpoints of the initial entries exist; other nodes are created by the operations
            used = sorted({x for k in KEYS for e in case.get("init", {}).get(k, []) for x in e})
            G.add_nodes_from([labs[i] for i in used])
        else:
            G.add_nodes_from(labs)
    for k in KEYS:
        for a, b in case.get("init", {}).get(k, []):
            G.get_graphs(LAYER[k]).add_edge(labs[a], labs[b])
    return G, labs


def observe(G, labs, raised, exc=None):
    inv = {l: i for i, l in enumerate(labs)}
    from pywhy_graphs import is_valid_mec_graph
    o = {"raised": raised}
    ed = G.edges()
    for k in KEYS:
        es = ed.get(LAYER[k], [])
        prs = [(inv.get(u, 99), inv.get(v, 99)) for u, v in es]
        o[k] = C.canon_dir(prs) if k in ("D", "C") else C.canon_und(prs)
    try:
        o["valid"] = 1 if is_valid_mec_graph(G) is True else 0
    except Exception:
        o["valid"] = 0
    o["nodes"] = len(G.nodes)
    if exc:
        o["exc"] = exc
    return o


def members(es, labs, form):
    out = []
    for i, (u, v) in enumerate(es):
        if form == "tup3" and i % 2 == 0:
            out.append((labs[u], labs[v], {}))
        else:
            out.append((labs[u], labs[v]))
    if form == "gen":
        return (m for m in out)
    return out


def do_op(G, labs, op, form):
    k = op[0]
    if k == "a":
        t, (u, v) = op[1], op[2]
        if t == "all" and (u + v) % 2 == 1:
            G.add_edge(labs[u], labs[v])           # edge_type defaults to 'all'
        else:
            G.add_edge(labs[u], labs[v], t)
    elif k == "A":
        G.add_edges_from(members(op[2], labs, form), op[1])
    elif k == "r":
        t, (u, v) = op[1], op[2]
        if t == "all" and (u + v) % 2 == 1:
            G.remove_edge(labs[u], labs[v])
        else:
            G.remove_edge(labs[u], labs[v], t)
    elif k == "R":
        G.remove_edges_from(members(op[2], labs, "list"), op[1])
    elif k == "o":
        u, v = op[1]
        G.orient_uncertain_edge(labs[u], labs[v])
    else:
        raise ValueError(op)


def impl_trace(case):
    import contextlib
    import io
    try:
        G, labs = build(case)
    except Exception as e:
        return [{"raised": "build:" + type(e).__name__}]
    tr = [observe(G, labs, "-")]
    for op in case["ops"]:
        exc = None
        try:
            with contextlib.redirect_stdout(io.StringIO()):
                do_op(G, labs, op, case.get("form", "list"))
            raised = 0
        except Exception as e:
            raised, exc = 1, type(e).__name__
        tr.append(observe(G, labs, raised, exc))
    return tr


def _work(item):
    return impl_ctor(item) if "lists" in item else impl_trace(item)


def impl_ctor(case):
    """constructor from edge lists; returns (raised, observation or None)"""
    cls = _cls(case["cls"])
    labs = _labels(case)
    L = {k: [(labs[a], labs[b]) for a, b in case["lists"].get(k, [])] for k in KEYS}
    form = sum(len(v) for v in L.values()) % 3
    if form:
        # the constructors accept whatever networkx accepts: the same edges as graph objects - for the symmetric
        # layers also as a DiGraph that lists every pair once (form 2)
        import networkx as nx
        L = {"D": nx.DiGraph(L["D"]), "C": nx.DiGraph(L["C"]),
             "U": (nx.Graph if form == 1 else nx.DiGraph)(L["U"]), "B": (nx.Graph if form == 1 else nx.DiGraph)(L["B"])}
    if sum(len(case["lists"].get(k, [])) for k in KEYS) % 4 == 3:
        # a user subclass of the graph class is guarded like the class itself
        cls = type("Study" + cls.__name__, (cls,), {})
    try:
        if FAMILY[case["cls"]] == "C":
            G = cls(incoming_directed_edges=L["D"], incoming_undirected_edges=L["U"])
        else:
            G = cls(incoming_directed_edges=L["D"], incoming_bidirected_edges=L["B"],
                    incoming_undirected_edges=L["U"], incoming_circle_edges=L["C"])
    except Exception as e:
        return 1, {"exc": type(e).__name__}
    for l in labs:
        if l not in G.nodes:
            G.add_node(l)
    obs = observe(G, labs, 0)
    # an undirected / bidirected edge is one edge whichever way it is asked for (the guards rely on it)
    for k, nm in (("U", "undirected"), ("B", "bidirected")):
        for a, b in case["lists"].get(k, []):
            try:
                if nm in G.edge_types and not (G.has_edge(labs[a], labs[b], nm) and G.has_edge(labs[b], labs[a], nm)):
                    obs["asym"] = "%s edge %d-%d is visible in one orientation only" % (nm, a, b)
            except Exception:
                pass
    return 0, obs


# ----------------------------------------------------------------------------- model side
def fmt_op(op):
    k = op[0]
    if k in ("a", "r"):
        return "%s:%s:%d-%d" % (k, op[1], op[2][0], op[2][1])
    if k in ("A", "R"):
        return "%s:%s:%s" % (k, op[1], C.fmt_pairs(op[2]))
    return "o:%d-%d" % (op[1][0], op[1][1])


def run_line(case):
    ini = case.get("init", {})
    return "c03run cls=%s n=%d D=%s B=%s U=%s C=%s ops=%s" % (
        FAMILY[case["cls"]], case["n"], C.fmt_pairs(ini.get("D", [])), C.fmt_pairs(ini.get("B", [])),
        C.fmt_pairs(ini.get("U", [])), C.fmt_pairs(ini.get("C", [])), "|".join(fmt_op(o) for o in case["ops"]))


def ctor_line(case):
    L = case["lists"]
    return "c03ctor cls=%s D=%s B=%s U=%s C=%s" % (FAMILY[case["cls"]], C.fmt_pairs(L.get("D", [])),
                                                  C.fmt_pairs(L.get("B", [])), C.fmt_pairs(L.get("U", [])),
                                                  C.fmt_pairs(L.get("C", [])))


def parse_model(ans):
    tr = []
    for part in ans.split(";"):
        f = part.split("~")
        if len(f) != 7:
            return None
        o = {"raised": f[0] if f[0] == "-" else int(f[0])}
        for k, x in zip(KEYS, f[1:5]):
            o[k] = x.split("=", 1)[1]
        o["valid"], o["good"] = int(f[5]), int(f[6])
        tr.append(o)
    return tr


# ----------------------------------------------------------------------------- time-series CPDAG: the C13 model
# StationaryTimeSeriesCPDAG histories are compared with the node-level model of C13 (C13.crun: guard on the named
# pair, store / removal on every homologous copy, orient_uncertain_edge), about which lean/Pw/C03/TimeSeries.lean
# proves the property (C03.C03_tscpdag).  Node index i of a case <-> TS_NODES[i]; variables x=0, y=1; max_lag 1.
TS_SEL = {"directed": "0", "undirected": "1", "all": "*"}


def ts_node(i):
    var, t = TS_NODES[i]
    return "%d.%d" % (0 if var == "x" else 1, t)


def ts_fmt_op(op, form="list"):
    k = op[0]
    if k == "A" and form == "tup3" and op[2]:
        # (u, v, attr) members: the guard loop of StationaryTimeSeriesCPDAG.add_edges_from unpacks 2-tuples only and
        # raises ValueError at the first member (always a 3-tuple in this form) before anything changes; attributes
        # are outside the C13 model, the call is replaced by one the model rejects without a change
        return "ml:0"
    if k == "o":
        return "ou:%s:%s" % (ts_node(op[1][0]), ts_node(op[1][1]))
    sel = TS_SEL.get(op[1], "7")              # a name that is no layer of the class: an index out of range
    if k in ("a", "r"):
        return "%s:%s:%s:%s" % ("ae" if k == "a" else "re", sel, ts_node(op[2][0]), ts_node(op[2][1]))
    return "%s:%s:%s" % ("ab" if k == "A" else "rb", sel, "+".join("%s>%s" % (ts_node(u), ts_node(v)) for u, v in op[2]))


def ts_run_line(case):
    return "c13crun m=1 pre=av:0;av:1 ops=%s" % ";".join(ts_fmt_op(o, case.get("form", "list")) for o in case["ops"])


def ts_parse_model(ans, case, spec):
    """C13 state strings -> observations in this module's vocabulary (4 nodes, layers D and U)"""
    if not case["ops"]:
        parts = []
    else:
        parts = ans.split(";")
        if len(parts) != len(case["ops"]) or any("|" not in p_ for p_ in parts):
            return None
    good = spec.good["C"]

    def idx(nd):
        var, lag = nd.split(".")
        if int(var) > 1 or int(lag) > 1:
            return 99
        return int(var) * 2 + (1 - int(lag))

    def obs(raised, lay):
        D, U = [[tuple(idx(n) for n in e.split(">")) for e in l.split(",") if e] for l in lay.split("|")]
        o = {"raised": raised, "D": C.canon_dir(D), "B": "", "U": C.canon_und(U), "C": ""}
        g = all(good[b] for b in pair_states(o, 4, "C").values())
        o["valid"], o["good"] = int(g), int(g)     # is_valid_mec_graph accepts iff Good (theorem isValidC_eq_good)
        return o
    tr = [obs("-", "|")]
    for p_ in parts:
        r, st = p_.split("|", 1)
        tr.append(obs(1 if r == "err" else 0, st.split("/L=")[1]))
    return tr


# ----------------------------------------------------------------------------- spec side (Lean predicates)
class SpecTables:
    """GoodP / GoodC over all 64 / 8 pair states and OrientOnly over all pairs of states, as
    computed by the Lean driver (the definitions in Spec.lean) once per run"""

    def __init__(self):
        sp = ["".join(b) for b in itertools.product("01", repeat=6)]
        sc = ["".join(b) for b in itertools.product("01", repeat=3)]
        lines = ["c03good cls=P s=" + s for s in sp] + ["c03good cls=C s=" + s for s in sc]
        lines += ["c03orient cls=P s=%s s2=%s" % (a, b) for a in sp for b in sp]
        lines += ["c03orient cls=C s=%s s2=%s" % (a, b) for a in sc for b in sc]
        ans = C.lean_batch(lines, jobs=1)
        if any(a not in ("T", "F") for a in ans):
            raise RuntimeError("driver does not answer c03good/c03orient")
        it = iter(ans)
        self.good = {"P": {s: next(it) == "T" for s in sp}, "C": {s: next(it) == "T" for s in sc}}
        self.orient = {"P": {(a, b): next(it) == "T" for a in sp for b in sp},
                       "C": {(a, b): next(it) == "T" for a in sc for b in sc}}


def parse_edges(s):
    return set(tuple(int(x) for x in p.split("-")) for p in s.split(",") if p)


def pair_states(o, n, fam):
    """{(a,b): bits} for a<b, bits relative to (a,b)"""
    D, B, U, Cc = (parse_edges(o[k]) for k in KEYS)
    out = {}
    for a in range(n):
        for b in range(a + 1, n):
            if fam == "P":
                bits = [(a, b) in D, (b, a) in D, (a, b) in Cc, (b, a) in Cc, (a, b) in B, (a, b) in U]
            else:
                bits = [(a, b) in D, (b, a) in D, (a, b) in U]
            out[(a, b)] = "".join("1" if x else "0" for x in bits)
    return out


def swap_bits(s):
    return s[1] + s[0] + s[3] + s[2] + s[4:] if len(s) == 6 else s[1] + s[0] + s[2]


def op_pairs(op):
    if op[0] in ("a", "r"):
        return [tuple(op[2])]
    if op[0] in ("A", "R"):
        return [tuple(e) for e in op[2]]
    return [tuple(op[1])]


def is_all_add(op):
    return op[0] in ("a", "A") and op[1] == "all"


def judge_trace(case, tr, spec):
    """spec verdict on an implementation trace.  returns (violations, known, nontrivial) where a
    violation is (step, kind, detail) and known a list of (finding id, step)."""
    fam, n = FAMILY[case["cls"]], case["n"]
    ts = case["cls"].startswith("TS")
    good = spec.good[fam]
    vio, known, nontrivial = [], [], False
    if not tr or tr[0]["raised"] != "-":
        return [(0, "build", "the start state could not be built: %r" % (tr[:1],))], [], False
    prev = pair_states(tr[0], n, fam)
    for i, op in enumerate(case["ops"], start=1):
        o = tr[i]
        cur = pair_states(o, n, fam)
        start_good = all(good[s] for s in prev.values())
        named = [(min(u, v), max(u, v)) for u, v in op_pairs(op) if u != v]
        if any(prev[p].strip("0") for p in named if p in prev):
            nontrivial = True
        # nodes: with lazily created nodes a successful add may create its endpoints; a call that raises must
        # leave the node set as it was, and no call may lose a node
        # (only the guard's RuntimeError is "a mutation that would break this"; an unsupported edge type is
        # rejected by the container with ValueError after it created the endpoints - not C03's subject)
        if (o["nodes"] != tr[i - 1]["nodes"] and o["raised"] == 1 and o.get("exc") == "RuntimeError") or \
                o["nodes"] < tr[i - 1]["nodes"] or \
                (not case.get("lazy") and o["nodes"] != tr[0]["nodes"]):
            vio.append((i, "nodes", "the node set changed"))
        if o["raised"] == 1 and (cur != prev) and start_good:
            if ts and op[0] == "A":
                known.append((KF_TSATOMIC, i))
            else:
                vio.append((i, "rejected-call-changed-graph",
                            "%s raised %s but the graph changed" % (fmt_op(op), o.get("exc"))))
        if start_good:
            bad = sorted(p for p, s in cur.items() if not good[s])
            if bad:
                if is_all_add(op) and o["raised"] == 0:
                    known.append((KF_ALL, i))
                elif case["cls"] == "TSPAG" and op[0] in ("a", "A", "o") and o["raised"] == 0:
                    known.append((KF_TSPAG, i))
                elif case["cls"] == "TSCPDAG" and op[0] == "A" and o["raised"] == 0:
                    known.append((KF_TSBULK, i))
                elif ts and op[0] == "A" and o["raised"] == 1:
                    pass                                      # already recorded as KF_TSATOMIC above
                else:
                    vio.append((i, "contradictory-marks",
                                "after %s the pair(s) %s carry contradictory marks: %s" % (
                                    fmt_op(op), bad, {str(p): cur[p] for p in bad})))
            elif o["valid"] != 1:
                vio.append((i, "is_valid-rejects-reachable-graph", "after %s" % fmt_op(op)))
            if op[0] == "o" and o["raised"] == 0 and not bad and not ts:
                u, v = op[1]
                p = (min(u, v), max(u, v))
                sb, sa = prev[p], cur[p]
                if u > v:
                    sb, sa = swap_bits(sb), swap_bits(sa)
                if not spec.orient[fam][(sb, sa)]:
                    vio.append((i, "orient-changed-more-than-one-mark", "%s -> %s on (%d,%d)" % (sb, sa, u, v)))
                if any(cur[q] != prev[q] for q in cur if q != p):
                    vio.append((i, "orient-touched-another-pair", fmt_op(op)))
        prev = cur
    return vio, known, nontrivial


def same_obs(a, b):
    return a["raised"] == b["raised"] and all(a[k] == b[k] for k in KEYS) and a["valid"] == b["valid"]


def first_diff(tr, mtr):
    if mtr is None or len(tr) != len(mtr):
        return 0
    for i, (a, b) in enumerate(zip(tr, mtr)):
        if not same_obs(a, b):
            return i
    return None


# ----------------------------------------------------------------------------- generators
def state_init(bits, fam, a=0, b=1):
    ini = {k: [] for k in KEYS}
    if fam == "P":
        names = [("D", a, b), ("D", b, a), ("C", a, b), ("C", b, a), ("B", a, b), ("U", a, b)]
    else:
        names = [("D", a, b), ("D", b, a), ("U", a, b)]
    for ch, (k, x, y) in zip(bits, names):
        if ch == "1":
            ini[k].append([x, y])
    return ini


def single_ops():
    ops = []
    for u, v in ((0, 1), (1, 0)):
        for t in TYPES:
            ops.append(["a", t, [u, v]])
            ops.append(["r", t, [u, v]])
        ops.append(["o", [u, v]])
    for t in TYPES:
        for es in ([], [[0, 1]], [[1, 0]], [[0, 1], [1, 0]], [[1, 0], [0, 1]], [[0, 1], [0, 1]],
                   [[0, 2], [0, 1], [1, 0]], [[0, 1], [2, 1], [1, 0], [1, 2]]):
            ops.append(["A", t, es])
        for es in ([[0, 1]], [[0, 1], [1, 0]]):
            ops.append(["R", t, es])
    return ops


def gen_exhaustive(tier):
    """every pair state x every single op (the pair (0,1) of a 3-node graph; the bystander pair
    (1,2) carries a fixed mark so that frame violations are visible)"""
    for cls in ("PAG", "AugmentedPAG", "CPDAG"):
        fam = FAMILY[cls]
        nb = 6 if fam == "P" else 3
        for bits in itertools.product("01", repeat=nb):
            ini = state_init("".join(bits), fam)
            ini["U" if fam == "P" else "D"].append([1, 2])
            for j, op in enumerate(single_ops()):
                forms = ("list", "tup3", "gen") if op[0] == "A" and tier == "thorough" else \
                    (("list", "tup3", "gen")[j % 3],) if op[0] == "A" else ("list",)
                for form in forms:
                    yield {"cls": cls, "n": 3, "init": ini, "ops": [op], "form": form, "src": "exh1"}


def gen_exhaustive2(tier):
    """every Good start state x every ordered pair of single additions/orientations (length-2 histories)"""
    small = [["a", t, [u, v]] for t in NAMED + ("all",) for u, v in ((0, 1), (1, 0))] + [["o", [0, 1]], ["o", [1, 0]],
                                                                                      ["r", "all", [0, 1]]]
    for cls in ("PAG", "CPDAG"):
        fam = FAMILY[cls]
        nb = 6 if fam == "P" else 3
        for bits in itertools.product("01", repeat=nb):
            ini = state_init("".join(bits), fam)
            for o1 in small:
                for o2 in small:
                    yield {"cls": cls, "n": 3, "init": ini, "ops": [o1, o2], "src": "exh2"}


def rand_type(rng, fam):
    r = rng.random()
    if r < 0.05:
        return "all"
    if r < 0.08:
        return "foo"
    if fam == "C":
        return rng.choice(("directed", "undirected", "directed", "undirected", "bidirected")) if r < 0.15 else \
            rng.choice(("directed", "undirected"))
    return rng.choice(NAMED)


def rand_pair(rng, n):
    u, v = rng.sample(range(n), 2)
    return [u, v]


def rand_bulk(rng, n):
    k = rng.choice((0, 1, 2, 2, 3, 3, 4, 5))
    es = []
    for _ in range(k):
        r = rng.random()
        if es and r < 0.25:
            es.append(list(rng.choice(es)))                  # duplicate
        elif es and r < 0.55:
            e = rng.choice(es)
            es.append([e[1], e[0]])                          # reversed member
        else:
            es.append(rand_pair(rng, n))
    return es


def rand_op(rng, n, fam):
    r = rng.random()
    if r < 0.38:
        return ["a", rand_type(rng, fam), rand_pair(rng, n)]
    if r < 0.58:
        return ["A", rand_type(rng, fam), rand_bulk(rng, n)]
    if r < 0.72:
        return ["r", rng.choice(TYPES if rng.random() < 0.3 else NAMED + ("all",)), rand_pair(rng, n)]
    if r < 0.78:
        return ["R", rng.choice(NAMED + ("all",)), rand_bulk(rng, n)]
    return ["o", rand_pair(rng, n)]


def rand_good_init(rng, n, fam, spec):
    goods = [s for s, g in spec.good[fam].items() if g]
    ini = {k: [] for k in KEYS}
    for a in range(n):
        for b in range(a + 1, n):
            if rng.random() < 0.6:
                part = state_init(rng.choice(goods), fam, a, b)
                for k in KEYS:
                    ini[k] += part[k]
    return ini


def gen_random(ctx, spec, count):
    rng = ctx["rng"]
    classes = ("PAG", "CPDAG", "AugmentedPAG", "PAG", "CPDAG")
    fams = C.Labels.FAMILIES
    for i in range(count):
        cls = classes[i % len(classes)]
        fam = FAMILY[cls]
        n = 3
        r = rng.random()
        if r < 0.35:
            ini = {k: [] for k in KEYS}
        elif r < 0.9:
            ini = rand_good_init(rng, n, fam, spec)
        else:
            ini = state_init("".join(rng.choice("01") for _ in range(6 if fam == "P" else 3)), fam)
        ln = rng.choice((2, 4, 8, 12, 20, 30))
        yield {"cls": cls, "n": n, "init": ini, "ops": [rand_op(rng, n, fam) for _ in range(ln)],
               "form": rng.choice(("list", "list", "tup3", "gen")), "fam": fams[i % len(fams)], "src": "rnd",
               "lazy": rng.random() < 0.4}


def gen_ts(ctx, count):
    """time-series classes (TSCPDAG: compared with the C13 model and judged against the spec predicates; TSPAG:
    spec predicates only).  4 nodes = 2 variables x lags {0,-1}; lag-respecting and lag-violating pairs are both
    generated"""
    rng = ctx["rng"]
    for i in range(count):
        cls = ("TSCPDAG", "TSPAG")[i % 2]
        fam = FAMILY[cls]
        ln = rng.choice((2, 4, 8, 14))
        yield {"cls": cls, "n": 4, "init": {k: [] for k in KEYS},
               "ops": [rand_op(rng, 4, fam) for _ in range(ln)], "form": rng.choice(("list", "tup3")), "src": "ts"}


def gen_ctor(ctx, spec, count):
    rng = ctx["rng"]
    # exhaustive on one pair: every subset of the 6 (3) entries, each possibly given twice / reversed
    for cls in ("PAG", "AugmentedPAG", "CPDAG"):
        fam = FAMILY[cls]
        for bits in itertools.product("01", repeat=6 if fam == "P" else 3):
            L = state_init("".join(bits), fam)
            yield {"cls": cls, "n": 3, "lists": L, "src": "ctor-exh"}
            L2 = copy.deepcopy(L)
            for k in ("B", "U"):
                L2[k] = L2[k] + [[b, a] for a, b in L2[k]]
            L2["D"] = L2["D"] + L2["D"]
            L2["U" if fam == "P" else "D"].append([1, 2])
            yield {"cls": cls, "n": 3, "lists": L2, "src": "ctor-exh"}
    for i in range(count):
        cls = ("PAG", "CPDAG", "AugmentedPAG")[i % 3]
        fam = FAMILY[cls]
        L = {k: [] for k in KEYS}
        for k in HAS[fam]:
            for _ in range(rng.choice((0, 1, 1, 2, 3))):
                L[k].append(rand_pair(rng, 3))
        yield {"cls": cls, "n": 3, "lists": L, "src": "ctor-rnd", "fam": C.Labels.FAMILIES[i % 5]}


# ----------------------------------------------------------------------------- translator tie
BODY_FILES = ("Model.lean", "Table.lean", "Lift.lean", "Full.lean", "Find.lean", "Reach.lean", "Stationary.lean",
              "TimeSeries.lean")
# TimeSeries.lean ties the hand-written guard of the C13 model to the translated guard (guardBad_eq_addC); the C13
# modules it builds on do not depend on the guard text and are imported as they are
C13_IMPORTS = ("Pw.C13.Orient",)


def body_of(path):
    """the text of a committed Lean file without its import lines"""
    return "".join(l for l in open(path).read().splitlines(True) if not l.startswith("import "))


def assemble(defs, with_eval=False, files=BODY_FILES):
    from translate import guards
    out = guards.module_text(defs, imports=("Pw.C03.Bits", "Pw.C03.PairMap", "Pw.C03.Spec") +
                             (C13_IMPORTS if "TimeSeries.lean" in files else ()))
    for f in files:
        out += "\n-- ===== included: lean/Pw/C03/%s =====\n" % f + body_of(os.path.join(LEAN, "Pw", "C03", f))
    if with_eval:
        out += "\n#eval C03.failuresP ++ C03.failuresC\n"
    return out


def lean_check(text, name):
    d = os.path.join(VERIF, ".cache", "gen")
    os.makedirs(d, exist_ok=True)
    path = os.path.join(d, "%s_%d.lean" % (name, os.getpid()))
    with open(path, "w") as f:
        f.write(text)
    with open(os.path.join(d, name + ".lean"), "w") as f:      # last generated text, for inspection
        f.write(text)
    r = subprocess.run(["lake", "env", "lean", path], cwd=LEAN, capture_output=True, text=True)
    os.unlink(path)
    return r.returncode, (r.stdout + r.stderr)


def entry_case(entry):
    """`P|010010|a:directed|why` -> a single-op case on the pair (0,1)"""
    fam, bits, op, why = entry.split("|")
    if op == "o":
        o = ["o", [0, 1]]
    elif op == "v":
        o = None
    else:
        o = [op[0], op.split(":")[1], [0, 1]]
    return {"cls": "PAG" if fam == "P" else "CPDAG", "n": 3, "init": state_init(bits, fam), "ops": [o] if o else [],
            "src": "table:" + why}


def translator_tie(ctx, spec):
    """returns True when the theorems re-check against the guards as they are in the source now"""
    from translate import guards
    ev, out = ctx["ev"], ctx["out"]
    info = {"source": guards.source_path(C.REPO)}
    ev.extra["translator"] = info
    try:
        defs, fps = guards.translate_repo(C.REPO)
    except guards.Untranslatable as e:
        # The theorems about the committed model still check; what cannot be established is the translator
        # tie.  The second tie of the design applies: the correspondence run, which for the guards is
        # EXHAUSTIVE (every one of the 64 / 8 pair states x every single operation is executed on the real
        # classes and compared with the committed model on every run).  A disagreement there is reported
        # with its failing input as usual; agreement on the complete table ties the code to the proved model.
        info["status"] = "untranslatable: %s" % e
        info["tie"] = ("correspondence only: guard source outside the translatable fragment; implementation compared "
                       "with the committed, proved model lean/Pw/C03/Guards.lean on the complete pair-state x operation "
                       "table and on random histories")
        return False
    info["fingerprints"] = fps
    committed = body_of(os.path.join(LEAN, "Pw", "C03", "Guards.lean"))
    info["same_as_committed_snapshot"] = defs.strip() in committed
    t0 = time.time()
    rc, log = lean_check(assemble(defs), "C03Gen")
    info["recheck_s"] = round(time.time() - t0, 2)
    bad = rc != 0 or "error" in log or "sorry" in log
    info["status"] = "rechecked" if not bad else "recheck-failed"
    if not bad:
        return True
    info["recheck_log"] = log[-1500:]
    # which table entries fail with the regenerated guards?
    rc2, log2 = lean_check(assemble(defs, with_eval=True, files=("Model.lean", "Find.lean")).replace(
        "theorem failures_nil", "-- theorem failures_nil").replace("failuresP = [] ∧ failuresC = [] := by decide", ""),
        "C03Find")
    entries = []
    for tok in log2.replace("\n", " ").split('"'):
        if tok.count("|") == 3 and tok[:2] in ("P|", "C|"):
            entries.append(tok)
    info["failing_table_entries"] = entries[:50]
    found = False
    for e in entries:
        case = entry_case(e)
        vio, known, _ = judge_trace(case, impl_trace(case), spec)
        if vio:
            out.violation(case, {"kind": "table-entry:" + e.split("|")[3], "entry": e,
                                 "detail": vio[0][2], "impl": impl_trace(case), "lean_request": run_line(case)})
            found = True
            break
    if not found:
        out.proof_breaks.append("C03 tables/lifting do not re-check against the guards translated from the current "
                                "source (%d failing table entries: %s)" % (len(entries), entries[:5]))
    return False


# ----------------------------------------------------------------------------- run
def classify(ctx, spec, case, tr, mtr):
    """returns ('violation'|'corr'|None, detail)"""
    ev, out = ctx["ev"], ctx["out"]
    vio, known, nontrivial = judge_trace(case, tr, spec)
    ev.case(case, nontrivial=nontrivial, sample_every=4000)
    ev.count("cls:" + case["cls"])
    ev.count("src:" + case["src"])
    for i, op in enumerate(case["ops"], start=1):
        if i < len(tr):
            ev.count("op:%s:%s" % (op[0], "raised" if tr[i]["raised"] == 1 else "ok"))
            if op[0] == "A":
                es = [tuple(e) for e in op[2]]
                if len(set(es)) < len(es):
                    ev.count("bulk:duplicate-members")
                if any((b, a) in es for a, b in es):
                    ev.count("bulk:reversed-members")
    d = None if mtr is False else first_diff(tr, mtr)
    reg = ctx.setdefault("_known_ids", registered_known(ctx))
    for fid, i in known:
        if fid not in reg:
            vio.append((i, "unregistered-finding", "%s (%s) at %s" % (fid, KF_TEXT[fid], fmt_op(case["ops"][i - 1]))))
        elif mtr is False or d is None or d > i:
            ts = case["cls"].startswith("TS")   # (report lines of the time-series findings are kept as they were)
            out.known(fid, KF_TEXT[fid] + (" (the Lean model reproduces the state)" if mtr is not False and not ts else ""),
                      {"case": case, "step": i})
            if ts and mtr is not False:
                ev.count("ts-known-finding-reproduced-by-C13-model:" + fid)
        else:
            vio.append((i, "contradictory-marks", "edge_type='all' step on which implementation and model differ"))
    if vio:
        return "violation", vio
    if d is not None:
        return "corr", {"step": d, "impl": tr[d] if d < len(tr) else None,
                        "model": (mtr[d] if mtr and d < len(mtr) else mtr)}
    return None, None


def shrink_history(case, fails):
    cur = copy.deepcopy(case)
    if len(cur["ops"]) > 1:
        def f_ops(ops):
            c = copy.deepcopy(cur)
            c["ops"] = ops
            return fails(c)
        cur["ops"] = shrink_ops(cur["ops"], f_ops)
    changed = True
    while changed:
        changed = False
        for k in KEYS:                                       # drop initial entries
            for i in range(len(cur.get("init", {}).get(k, []))):
                c = copy.deepcopy(cur)
                del c["init"][k][i]
                if fails(c):
                    cur, changed = c, True
                    break
        for j, op in enumerate(cur["ops"]):                  # drop bulk members
            if op[0] in ("A", "R"):
                for i in range(len(op[2])):
                    c = copy.deepcopy(cur)
                    del c["ops"][j][2][i]
                    if fails(c):
                        cur, changed = c, True
                        break
        for k in ("fam", "form"):
            if k in cur and cur[k] not in ("int", "list"):
                c = copy.deepcopy(cur)
                del c[k]
                if fails(c):
                    cur, changed = c, True
    return cur


def model_trace(case, drv=None, spec=None):
    if case["cls"] == "TSCPDAG":
        ans = drv.ask(ts_run_line(case)) if drv else C.lean_batch([ts_run_line(case)])[0]
        return ts_parse_model(ans, case, spec or SpecTables())
    if case["cls"].startswith("TS"):
        return False
    ans = drv.ask(run_line(case)) if drv else C.lean_batch([run_line(case)])[0]
    return parse_model(ans)


def stress_bulk():
    """a rejected bulk addition of MANY members (1560 / 780, the conflicting one last) must raise and leave the
    graph exactly as it was, like a rejected bulk of three members does (labelled TEST; histories on three nodes
    cannot produce a bulk this long: block-wise validation only shows here)"""
    from pywhy_graphs import CPDAG, PAG, AugmentedPAG
    n = 40
    for name, cls, et in (("PAG", PAG, "circle"), ("AugmentedPAG", AugmentedPAG, "circle"), ("CPDAG", CPDAG, "undirected")):
        try:
            G = cls()
            G.add_edge(0, 1, "directed")
            if et == "circle":
                bulk = [(i, j) for i in range(n) for j in range(n) if i != j and (i, j) != (0, 1)] + [(0, 1)]
            else:
                bulk = [(i, j) for i in range(n) for j in range(i + 1, n) if (i, j) != (0, 1)] + [(0, 1)]
            before = C.snapshot(G)
            try:
                with C.time_limit(120):
                    G.add_edges_from(bulk, et)
                why = "a bulk addition whose last member puts a %s mark on the arrowhead of 0 -> 1 was accepted" % et
            except C.CallTimeout:
                why = None
            except Exception:
                after = C.snapshot(G)
                changed = [k for k in after if k.startswith("E:") and after[k] != before.get(k)]
                why = ("the rejected bulk addition left edges behind in %s (%d edges)" % (changed, sum(len(after[k]) for k in changed))
                       if changed else None)
        except Exception as e:      # construction problems are not what this test is about
            why = None
        yield "bulk-%s-%d-members" % (name, len(bulk)), why


def run(ctx):
    ev, out, tier = ctx["ev"], ctx["out"], ctx["tier"]
    for _name, _why in stress_bulk():
        ev.count("stress:" + _name + (":ok" if _why is None else ":BAD"))
        if _why is not None:
            out.violation({"kind": "stress", "name": _name}, {"kind": "rejected-call-leaves-graph-unchanged", "detail": _why,
                                                              "input": "see harness/c03.py stress_bulk()"})
    ev.rule = ("histories on PAG, AugmentedPAG, CPDAG over 3 nodes (start state written straight into the layers, so "
               "all 64/8 pair states occur): exhaustive = every pair state x every single call (add/remove of every "
               "edge type incl. 'all' and an unknown name, both orientations, orient, bulk add/remove lists with "
               "duplicated, reversed and mutually conflicting members, as 2-tuples / 3-tuples / a generator) and every "
               "pair state x every ordered pair of single calls; random = histories of length 2..30 from empty, random "
               "Good, or arbitrary start states, five label families; constructors = every subset of entries on one "
               "pair (also duplicated/reversed) + random lists; time-series classes = random histories over 2 variables "
               "x 2 lags: StationaryTimeSeriesCPDAG compared call by call with the node-level C13 model (C13.crun, incl. "
               "orient_uncertain_edge, 'all', unknown edge types, bulk lists) and judged against the spec predicates, "
               "StationaryTimeSeriesPAG (unguarded, known finding) judged against the spec predicates only. After every "
               "call: raised?, per-layer edges, "
               "is_valid_mec_graph, node count. non-trivial = some call names a pair that already carries a mark")
    ev.assumptions = ["calls name two different nodes that are already in the graph (self loops are outside the "
                      "property's 'node pair' quantifier)",
                      "networkx reports an undirected-kind entry as (lo, hi) when nodes were inserted in increasing order",
                      "additions with edge_type='all' are a recorded known finding; after one the graph is no longer "
                      "Good and only the correspondence (not the invariant) is compared until it is Good again"]
    phase = ev.extra.setdefault("phase_s", {})
    t0 = time.time()
    spec = SpecTables()
    phase["spec_tables"] = round(time.time() - t0, 2)
    t0 = time.time()
    tie = translator_tie(ctx, spec)
    phase["translator_tie"] = round(time.time() - t0, 2)
    ev.extra["theorems_rechecked_against_current_source"] = tie
    t0 = time.time()

    # ---- corpus first
    cases = [c for c in C.load_corpus(PID) if "ops" in c]
    ctor_cases = [c for c in C.load_corpus(PID) if "lists" in c]
    for c in cases + ctor_cases:
        c.setdefault("src", "corpus")
    cases += list(gen_exhaustive(tier))
    cases += list(gen_exhaustive2(tier))
    cases += list(gen_random(ctx, spec, 3000 if tier == "quick" else 60000))
    ts_cases = list(gen_ts(ctx, 1200 if tier == "quick" else 20000))
    ctor_cases += list(gen_ctor(ctx, spec, 600 if tier == "quick" else 8000))

    # ---- one parallel pass over everything that runs the implementation, one batch for the model
    results = C.pmap(_work, cases + ts_cases + ctor_cases, chunksize=256)
    answers = C.lean_batch([run_line(c) for c in cases] + [ctor_line(c) for c in ctor_cases])
    traces, ts_traces, cres = (results[:len(cases)], results[len(cases):len(cases) + len(ts_cases)],
                               results[len(cases) + len(ts_cases):])
    cans = answers[len(cases):]
    phase["run_impl_and_model"] = round(time.time() - t0, 2)
    t0 = time.time()
    bad_v, bad_c = [], []
    for case, tr, ans in zip(cases, traces, answers):
        kind, detail = classify(ctx, spec, case, tr, parse_model(ans))
        if kind == "violation":
            bad_v.append((case, detail))
        elif kind == "corr":
            bad_c.append((case, detail))
    # ---- time-series classes: the CPDAG against the C13 model (C13.crun) and the spec, the unguarded PAG against
    # the spec only
    ts_cp = [c for c in ts_cases if c["cls"] == "TSCPDAG"]
    ts_ans = dict(zip((id(c) for c in ts_cp), C.lean_batch([ts_run_line(c) for c in ts_cp])))
    for case, tr in zip(ts_cases, ts_traces):
        mtr = ts_parse_model(ts_ans[id(case)], case, spec) if case["cls"] == "TSCPDAG" else False
        kind, detail = classify(ctx, spec, case, tr, mtr)
        if kind == "violation":
            bad_v.append((case, detail))
        elif kind == "corr":
            bad_c.append((case, detail))
    ev.extra["ts_cpdag_histories_compared_with_C13_model"] = len(ts_cp)
    # ---- constructors
    for case, (raised, obs), m in zip(ctor_cases, cres, cans):
        r = judge_ctor(ctx, spec, case, raised, obs, m)
        if r:
            (bad_v if r[0] == "violation" else bad_c).append((case, r[1]))
    phase["judge"] = round(time.time() - t0, 2)
    ev.extra["exhaustive_part"] = ("all 64 (PAG, AugmentedPAG) / 8 (CPDAG) pair states x every single call and x every "
                                   "ordered pair of single calls; every one-pair constructor argument")
    ev.extra["disagreements"] = {"violations": len(bad_v), "correspondence_only": len(bad_c)}

    if bad_v:
        case, detail = min(bad_v, key=lambda cd: len(cd[0].get("ops", [])))
        if "ops" in case:
            drv = C.Driver()
            try:
                def fails(c):
                    v, kn, _ = judge_trace(c, impl_trace(c), spec)
                    return bool(v)
                small = shrink_history(case, fails) if fails(case) else case
                tr = impl_trace(small)
                v, _, _ = judge_trace(small, tr, spec)
                if not v:      # a known-finding step on which implementation and model differ (judged in classify)
                    v = detail
                mtr = (drv.ask(ts_run_line(small)) if small["cls"] == "TSCPDAG" else
                       None if small["cls"].startswith("TS") else drv.ask(run_line(small)))
            finally:
                drv.close()
            out.violation(small, {"kind": v[0][1], "detail": v[0][2], "step": v[0][0], "impl_trace": tr,
                                  "model_answer": mtr,
                                  "lean_request": ts_run_line(small) if small["cls"] == "TSCPDAG" else run_line(small),
                                  "original_case": case,
                                  "violating_cases_total": len(bad_v),
                                  "kinds": sorted(set(d[0][1] for _, d in bad_v if isinstance(d, list)))})
        else:
            out.violation(case, {"kind": "constructor", "detail": detail, "violating_cases_total": len(bad_v)})
    elif bad_c:
        case, detail = min(bad_c, key=lambda cd: len(cd[0].get("ops", [])))
        if "ops" in case:
            drv = C.Driver()
            try:
                def fails(c):
                    return first_diff(impl_trace(c), model_trace(c, drv, spec)) is not None
                small = shrink_history(case, fails)
                tr = impl_trace(small)
                mtr = model_trace(small, drv, spec)
            finally:
                drv.close()
            out.corr(small, {"what": "implementation differs from the Lean model, no spec violation found",
                             "impl_trace": tr, "model_trace": mtr,
                             "lean_request": ts_run_line(small) if small["cls"] == "TSCPDAG" else run_line(small),
                             "cases_total": len(bad_c)})
        else:
            out.corr(case, detail)


def judge_ctor(ctx, spec, case, raised, obs, model):
    ev = ctx["ev"]
    fam, n = FAMILY[case["cls"]], case["n"]
    good = spec.good[fam]
    # the state the lists describe
    o = {k: (C.canon_dir(case["lists"].get(k, [])) if k in ("D", "C") else C.canon_und(case["lists"].get(k, [])))
         for k in KEYS}
    want = pair_states(o, n, fam)
    lists_good = all(good[s] for s in want.values())
    ev.case(case, nontrivial=any(s.count("1") > 1 for s in want.values()))
    ev.count("cls:" + case["cls"])
    ev.count("src:" + case["src"])
    ev.count("ctor:" + ("raised" if raised else "ok"))
    if not lists_good and not raised:
        return "violation", {"kind": "constructor-accepts-contradictory-lists", "lists": case["lists"]}
    if not raised and obs.get("asym"):
        return "violation", {"kind": "constructor-stores-a-symmetric-layer-one-way", "detail": obs["asym"], "lists": case["lists"]}
    if not raised:
        got = pair_states(obs, n, fam)
        if got != want:
            return "corr", {"what": "constructed graph differs from the edge lists", "got": got, "want": want}
        if obs["valid"] != 1:
            return "violation", {"kind": "is_valid-rejects-constructed-graph", "lists": case["lists"]}
    if (model == "err") != bool(raised):
        return "corr", {"what": "constructor raised=%s but model says %s" % (raised, model), "lists": case["lists"],
                        "exc": (obs or {}).get("exc")}
    return None


def replay(ctx, payload):
    spec = SpecTables()
    case = payload.get("case") or (payload.get("correspondence") or {}).get("case")
    if case is None and ("ops" in payload or "lists" in payload):
        case = payload                                       # a bare case, e.g. a corpus file
    if case is None:
        # a `no-failing-input-found` report about the theorems / the translator: re-establish it
        print("theorems reported as not checking:", payload.get("theorems_not_checking"))
        ok = translator_tie(ctx, spec)
        print("translator status now:", ctx["ev"].extra.get("translator", {}).get("status"))
        bad = (not ok) or bool(ctx["out"].violations)
        print("REPRODUCED" if bad else "NOT-REPRODUCED")
        return 1 if bad else 0
    if "lists" in case:
        raised, obs = impl_ctor(case)
        m = C.lean_batch([ctor_line(case)])[0]
        r = judge_ctor(ctx, spec, case, raised, obs, m)
        print("implementation: raised=%s %s  model: %s" % (raised, obs, m))
        print("REPRODUCED" if r else "NOT-REPRODUCED")
        return 1 if r else 0
    tr = impl_trace(case)
    mtr = model_trace(case, spec=spec)
    vio, known, _ = judge_trace(case, tr, spec)
    print("request:", ts_run_line(case) if case["cls"] == "TSCPDAG" else run_line(case))
    for i, o in enumerate(tr):
        print(" impl  step %d: %s" % (i, o))
        if mtr:
            print(" model step %d: %s" % (i, mtr[i] if i < len(mtr) else None))
    for v in vio:
        print("spec violation at step %d: %s: %s" % v)
    for k in known:
        print("known finding %s at step %d" % k)
    d = None if mtr is False else first_diff(tr, mtr)
    bad = bool(vio) or d is not None
    print("REPRODUCED" if bad else "NOT-REPRODUCED")
    return 1 if bad else 0
