import Pw.C11.Complete
open Closure MG C12
set_option linter.unusedSectionVars false

/-! # C11, second sentence: `is_minimal_m_separator` answers `True` exactly for the I-minimal separators
(unconditional, for the model; same fixed-graph argument as in Complete.lean) -/
namespace C11

theorem setEq_iff {A B : List Nat} : setEq A B = true ↔ ∀ v, v ∈ A ↔ v ∈ B := by
  unfold setEq
  rw [Bool.and_eq_true, subset_iff, subset_iff]
  exact ⟨fun h v => ⟨h.1 v, h.2 v⟩, fun h => ⟨fun v => (h v).mp, fun v => (h v).mpr⟩⟩

/-- a walk avoiding `Z` (which contains `I`) is a search of `_bfs_with_marks` in `H - I` -/
theorem bfree_of_pa' {H : UG} {I Z : List Nat} {s b : Nat} (hIZ : ∀ i ∈ I, i ∈ Z)
    (h : PA H Z s b) : BFree (delete H I) Z s b := by
  induction h with
  | refl => exact BFree.refl
  | @tail b c hab e hc hcZ ih =>
    have hb := hab.right_mem
    exact BFree.step ih (uadj_delete.mpr ⟨e, fun hi => hb.2 (hIZ b hi), fun hi => hcZ (hIZ c hi)⟩)
      (mem_delete_nodes.mpr ⟨hc, fun hi => hcZ (hIZ c hi)⟩) hcZ

/-- follow a walk that avoids `Z ∖ {v}` until it first meets `v` -/
theorem first_hit {H : UG} {Z Z1 : List Nat} {s t v : Nat} (hZ1 : ∀ a ∈ Z, a ∈ Z1 ∨ a = v)
    (hsZ : s ∉ Z) (h : PA H Z1 s t) :
    PA H Z s t ∨ ∃ u, PA H Z s u ∧ UAdj H.edges u v ∧ v ∈ H.nodes := by
  induction h with
  | refl ha _ => exact Or.inl (PathAvoid.refl _ ha hsZ)
  | @tail b c _ e hc hcZ1 ih =>
    rcases ih with ih | ih
    · by_cases hcZ : c ∈ Z
      · rcases hZ1 c hcZ with h | h
        · exact absurd h hcZ1
        · subst h; exact Or.inr ⟨b, ih, e, hc⟩
      · exact Or.inl (PathAvoid.tail ih e hc hcZ)
    · exact Or.inr ih

/-- if `Z` cuts s from t but `Z ∖ {v}` does not, then `v` is marked by the search from s -/
theorem mark_of_hit {H : UG} {I Z : List Nat} {s t v : Nat} (hIZ : ∀ i ∈ I, i ∈ Z) (hsZ : s ∉ Z)
    (hvZ : v ∈ Z) (hvI : v ∉ I) (hcut : ¬ PA H Z s t) (hp : PA H (Z.filter (· ≠ v)) s t) :
    v ∈ bfsWithMarks (delete H I) s Z := by
  have hs := hp.left_mem
  have hsI : s ∉ I := fun hi => hsZ (hIZ s hi)
  have hsM : s ∈ (delete H I).nodes := mem_delete_nodes.mpr ⟨hs.1, hsI⟩
  have hZ1 : ∀ a ∈ Z, a ∈ Z.filter (· ≠ v) ∨ a = v := by
    intro a ha
    by_cases hav : a = v
    · exact Or.inr hav
    · exact Or.inl (List.mem_filter.mpr ⟨ha, by simpa using hav⟩)
  rcases first_hit hZ1 hsZ hp with h | ⟨u, hu, hadj, hvH⟩
  · exact absurd h hcut
  · have huZ := hu.right_mem.2
    refine (mem_bfsWithMarks hsM).mpr ⟨hvZ, fun e => hsZ (e ▸ hvZ), mem_delete_nodes.mpr ⟨hvH, hvI⟩, u,
      bfree_of_pa' hIZ hu, uadj_delete.mpr ⟨hadj, fun hi => huZ (hIZ u hi), hvI⟩⟩

section
variable (G : MG) (hwf : G.WF) (hb : NoUndirAtHead G) (hsl : NoSelfLoop G) (hac : Acyclic G)
  (x y : Nat) (I R : List Nat)
  (hx : x ∈ G.nodes) (hy : y ∈ G.nodes) (hR : ∀ r ∈ R, r ∈ G.nodes) (hxR : x ∉ R) (hyR : y ∉ R)
  (hIR : ∀ i ∈ I, i ∈ R)
include hwf hb hsl hac hx hy hR hxR hyR hIR

/-- the model's answer `True`, branch by branch -/
theorem isMinimalMSep_true_iff (Z : List Nat) :
    isMinimalMSep G x y Z I R = .ok true ↔
      (subset I Z = true ∧ subset Z R = true ∧ subset Z (antA G x y I) = true ∧
       mSeparated G [x] [y] Z = true ∧
       setEq (Z.filter (· ∉ I)) (bfsWithMarks (augH G x y I) x Z) = true ∧
       setEq (Z.filter (· ∉ I)) (bfsWithMarks (augH G x y I) y Z) = true) := by
  unfold isMinimalMSep
  simp only [mSeparatedE_ok hwf hac]
  generalize subset I Z = b1
  generalize subset Z R = b2
  generalize subset Z (antA G x y I) = b3
  generalize mSeparated G [x] [y] Z = b4
  generalize setEq (Z.filter (· ∉ I)) (bfsWithMarks (augH G x y I) x Z) = b5
  generalize setEq (Z.filter (· ∉ I)) (bfsWithMarks (augH G x y I) y Z) = b6
  cases b1 <;> cases b2 <;> cases b3 <;> cases b4 <;> cases b5 <;> cases b6 <;> simp

/-- **C11, second sentence, for the model (unconditional).** -/
theorem isMinimalMSep_iff (Z : List Nat) :
    isMinimalMSep G x y Z I R = .ok true ↔ MinSep G x y I R Z := by
  have hIn := hI_nodes G hwf hb hsl x y I R hx hy hR hxR hyR hIR
  have hxI' := hxI G hwf hb hsl x y I R hx hy hR hxR hyR hIR
  have hyI' := hyI G hwf hb hsl x y I R hx hy hR hxR hyR hIR
  have hxA' := xA G hwf hb hsl x y I R hx hy hR hxR hyR hIR
  have hyA' := yA G hwf hb hsl x y I R hx hy hR hxR hyR hIR
  have hIA := IA G hwf hb hsl x y I R hx hy hR hxR hyR hIR
  have hxH : x ∈ (morH G x y I).nodes := (mem_morH_nodes G hwf x y I hx hy hIn).mpr hxA'
  have hyH : y ∈ (morH G x y I).nodes := (mem_morH_nodes G hwf x y I hx hy hIn).mpr hyA'
  have hxM : x ∈ (augH G x y I).nodes := mem_delete_nodes.mpr ⟨hxH, hxI'⟩
  have hyM : y ∈ (augH G x y I).nodes := mem_delete_nodes.mpr ⟨hyH, hyI'⟩
  rw [isMinimalMSep_true_iff G hwf hb hsl hac x y I R hx hy hR hxR hyR hIR]
  simp only [subset_iff, setEq_iff]
  constructor
  · rintro ⟨hIZ, hZR, hZA, hsep, hrx, hry⟩
    have hxZ : x ∉ Z := fun h => hxR (hZR x h)
    have hyZ : y ∉ Z := fun h => hyR (hZR y h)
    have hmsep : MSep G [x] [y] Z :=
      (mSeparated_iff_MSep G hwf hb hsl [x] [y] Z (by simpa using hx) (fun z hz => hR z (hZR z hz))
        (by simpa using hxZ)).mp hsep
    refine ⟨⟨hIZ, hZR, hmsep⟩, ?_⟩
    rintro Z' hsub ⟨w, hw, hwn⟩ ⟨hIZ', _, hsep'⟩
    have hwI : w ∉ I := fun hi => hwn (hIZ' w hi)
    have hwmi : w ∈ Z.filter (· ∉ I) := List.mem_filter.mpr ⟨hw, by simpa using hwI⟩
    obtain ⟨_, _, hwM, ux, hux, hadjx⟩ := (mem_bfsWithMarks hxM).mp ((hrx w).mp hwmi)
    obtain ⟨_, _, _, uy, huy, hadjy⟩ := (mem_bfsWithMarks hyM).mp ((hry w).mp hwmi)
    have hxZ' : x ∉ Z' := fun h => hxZ (hsub x h)
    have hyZ' : y ∉ Z' := fun h => hyZ (hsub y h)
    have px : PA (morH G x y I) Z' x ux := pa_of_bfree hxH hxZ' (fun a ha => Or.inl (hsub a ha)) hux
    have py : PA (morH G x y I) Z' y uy := pa_of_bfree hyH hyZ' (fun a ha => Or.inl (hsub a ha)) huy
    have hwH : w ∈ (morH G x y I).nodes := (mem_delete_nodes.mp hwM).1
    have p1 : PA (morH G x y I) Z' x w := PathAvoid.tail px (uadj_delete.mp hadjx).1 hwH hwn
    have p2 : PA (morH G x y I) Z' w y :=
      (PathAvoid.tail py (uadj_delete.mp hadjy).1 hwH hwn).symm (fun _ _ => uadj_symm)
    exact (msep_iff_cut G hwf hb hsl x y I hx hy hIn Z' hIZ' (fun z hz => hZA z (hsub z hz))
      hxZ' hyZ').mp hsep' (p1.trans p2)
  · rintro ⟨⟨hIZ, hZR, hmsep⟩, hmin⟩
    have hxZ : x ∉ Z := fun h => hxR (hZR x h)
    have hyZ : y ∉ Z := fun h => hyR (hZR y h)
    have hZn : ∀ z ∈ Z, z ∈ G.nodes := fun z hz => hR z (hZR z hz)
    have hcutZ := cut_of_sep G hwf hb hsl x y I hx hy hIn Z hIZ hZn hxZ hyZ hmsep
    -- a filtered copy of Z that is still a separator contradicts minimality
    have hfil : ∀ p : Nat → Bool, (∀ i ∈ I, p i = true) → (∀ z ∈ Z, p z = true → z ∈ antA G x y I) →
        (∃ z ∈ Z, p z = false) → PA (morH G x y I) (Z.filter p) x y := by
      intro p hpI hpA hex
      apply Classical.byContradiction
      intro hnp
      have hsubZ : ∀ z ∈ Z.filter p, z ∈ Z := fun z hz => (List.mem_filter.mp hz).1
      have hI1 : ∀ i ∈ I, i ∈ Z.filter p := fun i hi => List.mem_filter.mpr ⟨hIZ i hi, hpI i hi⟩
      have hsep1 : MSep G [x] [y] (Z.filter p) :=
        (msep_iff_cut G hwf hb hsl x y I hx hy hIn _ hI1
          (fun z hz => hpA z (hsubZ z hz) (List.mem_filter.mp hz).2)
          (fun h => hxZ (hsubZ x h)) (fun h => hyZ (hsubZ y h))).mpr hnp
      obtain ⟨z, hz, hpz⟩ := hex
      exact hmin (Z.filter p) hsubZ ⟨z, hz, fun h => by
        have := (List.mem_filter.mp h).2; rw [hpz] at this; cases this⟩
        ⟨hI1, fun z hz => hZR z (hsubZ z hz), hsep1⟩
    -- Z lies inside the anterior set
    have hZA : ∀ z ∈ Z, z ∈ antA G x y I := by
      intro z0 hz0
      apply Classical.byContradiction
      intro hnA
      have hp := hfil (fun v => decide (v ∈ antA G x y I)) (fun i hi => by simpa using hIA i hi)
        (fun z _ hz => by simpa using hz) ⟨z0, hz0, by simpa using hnA⟩
      apply hcutZ
      refine hp.mono_Z ?_
      intro v hv hvZ
      exact List.mem_filter.mpr ⟨hvZ, by simpa using (mem_morH_nodes G hwf x y I hx hy hIn).mp hv⟩
    have hsepb : mSeparated G [x] [y] Z = true :=
      (mSeparated_iff_MSep G hwf hb hsl [x] [y] Z (by simpa using hx) hZn (by simpa using hxZ)).mpr hmsep
    -- every node of Z ∖ I is needed: Z ∖ {v} is not a cut
    have hneed : ∀ v ∈ Z, v ∉ I → PA (morH G x y I) (Z.filter (· ≠ v)) x y := by
      intro v hv hvI
      have := hfil (fun a => decide (a ≠ v))
        (fun i hi => by simp only [decide_eq_true_eq]; rintro rfl; exact hvI hi)
        (fun z hz _ => hZA z hz) ⟨v, hv, by simp⟩
      exact this
    have hcutZ' : ¬ PA (morH G x y I) Z y x := fun p => hcutZ (p.symm (fun _ _ => uadj_symm))
    refine ⟨hIZ, hZR, hZA, hsepb, ?_, ?_⟩
    · intro v
      constructor
      · intro hv
        obtain ⟨hvZ, hvI⟩ := List.mem_filter.mp hv
        exact mark_of_hit hIZ hxZ hvZ (by simpa using hvI) hcutZ (hneed v hvZ (by simpa using hvI))
      · intro hv
        obtain ⟨hvZ, _, hvM⟩ := bfsWithMarks_sub hv
        exact List.mem_filter.mpr ⟨hvZ, by simpa using (mem_delete_nodes.mp hvM).2⟩
    · intro v
      constructor
      · intro hv
        obtain ⟨hvZ, hvI⟩ := List.mem_filter.mp hv
        exact mark_of_hit hIZ hyZ hvZ (by simpa using hvI) hcutZ'
          ((hneed v hvZ (by simpa using hvI)).symm (fun _ _ => uadj_symm))
      · intro hv
        obtain ⟨hvZ, _, hvM⟩ := bfsWithMarks_sub hv
        exact List.mem_filter.mpr ⟨hvZ, by simpa using (mem_delete_nodes.mp hvM).2⟩

end

/-! ## non-vacuity: the hypotheses of `minimalMSep_spec` / `isMinimalMSep_iff` are satisfiable -/

/-- `0 -> 2 -> 4 <- 3 <- 1`, x = 0, y = 1, I = {4}, R = {2,3,4}: a collider with two non-adjacent
    parents that is forced into the separator, so one of its parents is needed as well -/
def G2 : MG := { nodes := [0, 1, 2, 3, 4], dir := [(0, 2), (2, 4), (1, 3), (3, 4)] }

theorem G2_wf : G2.WF := by
  refine ⟨?_, ?_, ?_⟩ <;> intro e he <;> simp [G2] at he ⊢
  rcases he with rfl | rfl | rfl | rfl <;> simp

theorem G2_nsl : NoSelfLoop G2 := by
  intro a ma mb h
  simp [HasEdge, G2] at h
  omega

theorem G2_acyclic : Acyclic G2 := by
  -- rank function: every edge increases it
  let rk : Nat → Nat := fun v => if v = 4 then 2 else if v = 2 ∨ v = 3 then 1 else 0
  have hmono : ∀ a b, Anc G2 a b → rk a ≤ rk b := by
    intro a b h
    induction h with
    | refl => exact Nat.le_refl _
    | step e _ ih =>
      have : ∀ p q, (p, q) ∈ G2.dir → rk p < rk q := by
        intro p q hpq
        simp [G2] at hpq
        rcases hpq with ⟨rfl, rfl⟩ | ⟨rfl, rfl⟩ | ⟨rfl, rfl⟩ | ⟨rfl, rfl⟩ <;> simp [rk]
      exact Nat.le_trans (Nat.le_of_lt (this _ _ e)) ih
  intro a b hab hba
  have h1 : rk a < rk b := by
    simp [G2] at hab
    rcases hab with ⟨rfl, rfl⟩ | ⟨rfl, rfl⟩ | ⟨rfl, rfl⟩ | ⟨rfl, rfl⟩ <;> simp [rk]
  have h2 := hmono b a hba
  omega

example : G2.WF ∧ NoUndirAtHead G2 ∧ NoSelfLoop G2 ∧ Acyclic G2 ∧ (0 ∈ G2.nodes) ∧ (1 ∈ G2.nodes) ∧
    (∀ r ∈ [2, 3, 4], r ∈ G2.nodes) ∧ (0 ∉ [2, 3, 4]) ∧ (1 ∉ [2, 3, 4]) ∧ (∀ i ∈ [4], i ∈ [2, 3, 4]) :=
  ⟨G2_wf, noUndirAtHead_of_un_nil G2 rfl, G2_nsl, G2_acyclic, by simp [G2], by simp [G2], by simp [G2],
    by simp, by simp, by simp⟩

end C11
