import Pw.C03.Model
/-! C03 — evaluating the tables: the list of (state, op) entries on which a table statement of
`Table.lean` fails.  Empty for the committed guards (`failures_nil`); when the re-check against
freshly translated guards fails, the harness evaluates these lists against the *regenerated*
definitions to read off the failing entries and replays them on the real classes. -/
namespace C03

def bools : List Bool := [false, true]
def allP : List PBits :=
  bools.flatMap fun a => bools.flatMap fun b => bools.flatMap fun c => bools.flatMap fun d =>
  bools.flatMap fun e => bools.map fun f => ⟨a, b, c, d, e, f⟩
def allC : List CBits :=
  bools.flatMap fun a => bools.flatMap fun b => bools.map fun c => ⟨a, b, c⟩
def allET : List ET := [.all, .directed, .bidirected, .circle, .undirected, .other]

def ET.name : ET → String
  | .all => "all" | .directed => "directed" | .bidirected => "bidirected" | .circle => "circle"
  | .undirected => "undirected" | .other => "foo"

def b01' (b : Bool) : String := if b then "1" else "0"
def PBits.str (s : PBits) : String :=
  b01' s.directed_uv ++ b01' s.directed_vu ++ b01' s.circle_uv ++ b01' s.circle_vu ++ b01' s.bi ++ b01' s.un
def CBits.str (s : CBits) : String := b01' s.directed_uv ++ b01' s.directed_vu ++ b01' s.un


/-- entries `cls|state|op|why` -/
def failuresP : List String :=
  allP.flatMap fun s =>
    (allET.flatMap fun t =>
      let r := addP t s
      let q := removeP t s
      (if t ≠ .all ∧ GoodP s ∧ !r.2 ∧ !GoodP r.1 then ["P|" ++ s.str ++ "|a:" ++ t.name ++ "|accepted-add-breaks-marks"] else []) ++
      (if r.2 ∧ r.1 ≠ s then ["P|" ++ s.str ++ "|a:" ++ t.name ++ "|rejected-add-changes-state"] else []) ++
      (if t ≠ .all ∧ t ≠ .other ∧ GoodP s ∧ (!r.2) ≠ GoodP (rawAddP t s) then ["P|" ++ s.str ++ "|a:" ++ t.name ++ "|guard-not-exact"] else []) ++
      (if GoodP s ∧ !GoodP q.1 then ["P|" ++ s.str ++ "|r:" ++ t.name ++ "|remove-breaks-marks"] else []) ++
      (if q.2 ∧ q.1 ≠ s then ["P|" ++ s.str ++ "|r:" ++ t.name ++ "|rejected-remove-changes-state"] else [])) ++
    (let o := orientP s
     (if GoodP s ∧ !GoodP o.1 then ["P|" ++ s.str ++ "|o|orient-breaks-marks"] else []) ++
     (if GoodP s ∧ o.2 ∧ o.1 ≠ s then ["P|" ++ s.str ++ "|o|rejected-orient-changes-state"] else []) ++
     (if GoodP s ∧ !o.2 ∧ ¬ OrientOnlyP s o.1 then ["P|" ++ s.str ++ "|o|orient-changes-more-than-one-mark"] else [])) ++
    (if isValidP s ≠ GoodP s then ["P|" ++ s.str ++ "|v|is_valid-differs-from-good"] else [])

def failuresC : List String :=
  allC.flatMap fun s =>
    (allET.flatMap fun t =>
      let r := addC t s
      let q := removeC t s
      (if t ≠ .all ∧ GoodC s ∧ !r.2 ∧ !GoodC r.1 then ["C|" ++ s.str ++ "|a:" ++ t.name ++ "|accepted-add-breaks-marks"] else []) ++
      (if r.2 ∧ r.1 ≠ s then ["C|" ++ s.str ++ "|a:" ++ t.name ++ "|rejected-add-changes-state"] else []) ++
      (if (t = .directed ∨ t = .undirected) ∧ GoodC s ∧ (!r.2) ≠ GoodC (rawAddC t s) then ["C|" ++ s.str ++ "|a:" ++ t.name ++ "|guard-not-exact"] else []) ++
      (if GoodC s ∧ !GoodC q.1 then ["C|" ++ s.str ++ "|r:" ++ t.name ++ "|remove-breaks-marks"] else []) ++
      (if q.2 ∧ q.1 ≠ s then ["C|" ++ s.str ++ "|r:" ++ t.name ++ "|rejected-remove-changes-state"] else [])) ++
    (let o := orientC s
     (if GoodC s ∧ !GoodC o.1 then ["C|" ++ s.str ++ "|o|orient-breaks-marks"] else []) ++
     (if GoodC s ∧ o.2 ∧ o.1 ≠ s then ["C|" ++ s.str ++ "|o|rejected-orient-changes-state"] else []) ++
     (if GoodC s ∧ !o.2 ∧ ¬ OrientOnlyC s o.1 then ["C|" ++ s.str ++ "|o|orient-changes-more-than-one-mark"] else [])) ++
    (if isValidC s ≠ GoodC s then ["C|" ++ s.str ++ "|v|is_valid-differs-from-good"] else [])

/-- with the committed guards the tables have no failing entry (kernel-evaluated) -/
theorem failures_nil : failuresP = [] ∧ failuresC = [] := by decide

end C03
