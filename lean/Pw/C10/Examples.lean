import Pw.C10.Valid

/-! # C10: non-vacuity examples, kernel-checked instances (tests), the defect of the unchanged code

`decide`/`decide +kernel` over one concrete input is a *test*; it is labelled so here. -/
namespace C10

/-- user nodes `U0` and `U2` collide with generated names; `U0` is a child of `a` and an endpoint of a
    bidirected edge -/
def exG : LG String :=
  { nodes := [("U0", 2), ("a", 1), ("b", 3), ("U2", 0)], dir := [("a", "U0")],
    bi := [("a", "b"), ("U0", "b"), ("U2", "a")] }

theorem exG_wf : exG.WF := ⟨by decide, by decide, by decide⟩
theorem exG_noSelfLoop : exG.NoSelfLoop := ⟨by decide, by decide⟩
theorem exG_biDistinct : exG.BiDistinct := by unfold LG.BiDistinct; decide
theorem exG_acyclic : exG.dirDG.IsDAG := by
  intro a b hab hba
  have : (a, b) = ("a", "U0") := by simpa [LG.dirDG, exG] using hab
  obtain ⟨rfl, rfl⟩ := Prod.mk.inj this
  generalize hs : "U0" = s at hba
  cases hba with
  | refl => exact absurd hs (by decide)
  | @step _ c _ e _ =>
    have : (s, c) = ("a", "U0") := by simpa [LG.dirDG, exG] using e
    exact absurd (hs.trans (Prod.mk.inj this).1) (by decide)

/-- a numbering of the seven nodes of the result -/
def exEnc (s : String) : Nat := (convS exG).names.idxOf s

theorem exEnc_inj : ∀ a ∈ (convS exG).names, ∀ b ∈ (convS exG).names, exEnc a = exEnc b → a = b := by
  decide +kernel

/-- non-vacuity of `C10_full`, `C10_struct`, `C10_sep`: the hypotheses hold for a graph whose labels
    collide with generated names -/
example : Struct exG (convS exG) ∧ SepPreserved (exG.encode exEnc) ((convS exG).encode exEnc) :=
  C10_full exG_wf exG_acyclic exG_noSelfLoop exEnc exEnc_inj

/-- non-vacuity of `sepPreserved_of_valid` / `mSeparated_of_valid` (hypotheses: a graph accepted by
    the validator) -/
example : SepPreserved (exG.encode exEnc) ((convS exG).encode exEnc) :=
  sepPreserved_of_valid exG_wf exG_biDistinct exG_noSelfLoop (conv_closed uname uname_inj exG_wf)
    (C10_struct exG_wf exG_acyclic) (C10_exact exG_wf exG_biDistinct) exEnc exEnc_inj

/-- non-vacuity of `C10_exact` -/
example : Exact exG (convS exG) := C10_exact exG_wf exG_biDistinct

/-- test (kernel evaluation of the model): the generated names skip `U0` and `U2` -/
theorem exG_names_test : (convS exG).names = ["U0", "a", "b", "U2", "U1", "U3", "U4"] := by
  decide +kernel

/-- test: the new node of `U0 <-> b` is `U3` with children `U0`, `b` -/
theorem exG_edges_test : ∀ c, ("U3", c) ∈ (convS exG).edges ↔ (c = "U0" ∨ c = "b") := by
  have h := (C10_new_nodes exG_wf).2.2 ("U3", ("U0", "b")) (by decide +kernel)
  exact h.2.2.2

/-- `Nat`-labelled instance: nodes 0,1,2 collide with the generated names 0,1,2 -/
def exM : MG := { nodes := [0, 1, 2], dir := [(1, 0)], bi := [(1, 2), (0, 2)] }

/-- non-vacuity of `mSeparated_convMG` / `sepPreserved_convMG` -/
example : MG.mSeparated (convMG exM) [1] [2] [0] = MG.mSeparated exM [1] [2] [0] :=
  mSeparated_convMG exM ⟨by decide, by decide, by decide⟩ (by decide) rfl [1] [2] [0]
    (by decide) (by decide) (by decide)

theorem exM_conv_test : (convMG exM).nodes = [0, 1, 2, 3, 4] ∧
    (convMG exM).dir = [(1, 0), (3, 1), (3, 2), (4, 0), (4, 2)] := by decide

/-! ## the unchanged code (`for idx, latent_edge in enumerate(...)`: name `U{idx}` without looking at
the existing nodes) violates the structure sentence -/

def loopOld {α : Type} [DecidableEq α] (fresh : Nat → α) : List (α × α) → Nat → DG α → DG α
  | [], _, R => R
  | e :: es, idx, R =>
    loopOld fresh es (idx + 1) (((R.addNode (fresh idx) ucAttr).addEdge (fresh idx) e.1).addEdge (fresh idx) e.2)

/-- model of `bidirected_to_unobserved_confounder` before the fix -/
def convOld {α : Type} [DecidableEq α] (fresh : Nat → α) (G : LG α) : DG α := loopOld fresh G.bi 0 (base G)

/-- witness of the finding C10-generated-name-collides-with-user-label (corpus/C10) -/
def witness : LG String := { nodes := [("U0", 1), ("v1", 1)], dir := [], bi := [("U0", "v1")] }

theorem witness_wf : witness.WF := ⟨by decide, by decide, by decide⟩

/-- on the witness the unchanged code creates no new node at all: `U0` loses its attributes, becomes
    its own parent and the parent of `v1` -/
theorem convOld_witness_test :
    (convOld uname witness).nodes = [("U0", ucAttr), ("v1", 1)] ∧
    (convOld uname witness).edges = [("U0", "U0"), ("U0", "v1")] := by decide +kernel

theorem C10_counterexample_unfixed : ¬ Struct witness (convOld uname witness) := by
  intro h
  have : ¬ NodesKept witness (convOld uname witness) := by decide +kernel
  exact this h.2.1

/-- while the model of the fixed code satisfies it (instance of `C10_struct`) -/
example : Struct witness (convS witness) :=
  C10_struct witness_wf (by intro a b hab; simp [LG.dirDG, witness] at hab)

/-- non-vacuity of `mSeparated_of_isConv` / `sepPreserved_of_isConv` / `IsConv.conn_iff`: the relation
    `IsConv` is inhabited by a graph with two bidirected edges whose labels collide with the names -/
example : ∃ asg, IsConv exM (convMG exM) asg :=
  ⟨_, isConv_convMG ⟨by decide, by decide, by decide⟩ (by decide) rfl⟩

/-- non-vacuity of the generic `struct_conv` / `exact_conv` / `conv_spec` at `α = Nat`, `fresh = id` -/
example : Struct (LG.ofMG exM) (conv id (LG.ofMG exM)) ∧ Exact (LG.ofMG exM) (conv id (LG.ofMG exM)) :=
  ⟨struct_conv id (fun _ _ h => h) (ofMG_wf ⟨by decide, by decide, by decide⟩ (by decide))
      (by
        intro a b hab hba
        have : (a, b) = (1, 0) := by simpa [LG.dirDG, LG.ofMG, exM] using hab
        obtain ⟨rfl, rfl⟩ := Prod.mk.inj this
        generalize hs : (0 : Nat) = s at hba
        cases hba with
        | refl => exact absurd hs (by decide)
        | @step _ c _ e _ =>
          have : (s, c) = (1, 0) := by simpa [LG.dirDG, LG.ofMG, exM] using e
          exact absurd (hs.trans (Prod.mk.inj this).1) (by decide)),
   exact_conv id (fun _ _ h => h) (ofMG_wf ⟨by decide, by decide, by decide⟩ (by decide))
      (by unfold LG.BiDistinct; decide)⟩

/-- non-vacuity of `C10_full_idx` -/
example : Struct exG (convS exG) ∧
    SepPreserved (exG.encode (idxEnc (convS exG))) ((convS exG).encode (idxEnc (convS exG))) :=
  C10_full_idx exG_wf exG_acyclic exG_noSelfLoop

end C10
