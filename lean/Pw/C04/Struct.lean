import Pw.C04.Model
import Pw.C04.Spec

/-! # C04 structural theorems (unconditional, every topological order / every list `topo`)

* `orderEdges` assigns every edge exactly one position (`orderEdges_perm`);
* `label_edges` terminates with fuel = number of edges and leaves no edge `unknown` (`labels_known`);
* the result has D's nodes and skeleton, every edge of D appears exactly once – directed in D's
  orientation or undirected (`dagToCpdag_struct`). -/
namespace C04
open C05 (Adj VStruct)

/-! ## order_edges -/

theorem argmax_mem {α : Type} (key : α → Nat) : ∀ (l : List α) (a : α), argmax key l = some a → a ∈ l := by
  intro l
  induction l with
  | nil => intro a h; cases h
  | cons b l ih =>
    intro a h
    rw [argmax] at h
    cases hm : argmax key l with
    | none => rw [hm] at h; cases h; exact List.mem_cons_self
    | some c =>
      rw [hm] at h
      dsimp only at h
      split at h
      · cases h; exact List.mem_cons_of_mem _ (ih _ hm)
      · cases h; exact List.mem_cons_self

theorem argmax_none {α : Type} (key : α → Nat) : ∀ (l : List α), argmax key l = none → l = [] := by
  intro l
  cases l with
  | nil => intro _; rfl
  | cons b l =>
    intro h
    rw [argmax] at h
    cases hm : argmax key l with
    | none => rw [hm] at h; cases h
    | some c => rw [hm] at h; dsimp only at h; split at h <;> cases h

theorem argmin_mem {α : Type} (key : α → Nat) : ∀ (l : List α) (a : α), argmin key l = some a → a ∈ l := by
  intro l
  induction l with
  | nil => intro a h; cases h
  | cons b l ih =>
    intro a h
    rw [argmin] at h
    cases hm : argmin key l with
    | none => rw [hm] at h; cases h; exact List.mem_cons_self
    | some c =>
      rw [hm] at h
      dsimp only at h
      split at h
      · cases h; exact List.mem_cons_of_mem _ (ih _ hm)
      · cases h; exact List.mem_cons_self

theorem argmin_none {α : Type} (key : α → Nat) : ∀ (l : List α), argmin key l = none → l = [] := by
  intro l
  cases l with
  | nil => intro _; rfl
  | cons b l =>
    intro h
    rw [argmin] at h
    cases hm : argmin key l with
    | none => rw [hm] at h; cases h
    | some c => rw [hm] at h; dsimp only at h; split at h <;> cases h

theorem orderStep_mem {topo : List Nat} {un : List Edge} {e : Edge} (h : orderStep topo un = some e) :
    e ∈ un := by
  unfold orderStep at h
  split at h
  · cases h
  · rename_i ey hey
    split at h
    · cases h
    · rename_i x hx
      cases h
      have := argmin_mem _ _ _ hx
      simp only [List.mem_map, List.mem_filter, beq_iff_eq] at this
      obtain ⟨⟨a, b⟩, ⟨hab, hb⟩, rfl⟩ := this
      simp only at hb
      rw [← hb]; exact hab

theorem orderStep_none {topo : List Nat} {un : List Edge} (h : orderStep topo un = none) : un = [] := by
  unfold orderStep at h
  split at h
  · rename_i hm; exact argmax_none _ _ hm
  · rename_i ey hey
    split at h
    · rename_i hx
      have hmem := argmax_mem _ _ _ hey
      have := argmin_none _ _ hx
      simp only [List.map_eq_nil_iff, List.filter_eq_nil_iff, beq_iff_eq] at this
      exact absurd rfl (this ey hmem)
    · cases h

theorem orderLoop_perm (topo : List Nat) : ∀ (fuel : Nat) (un : List Edge), un.length ≤ fuel →
    (orderLoop topo fuel un).Perm un := by
  intro fuel
  induction fuel with
  | zero =>
    intro un h
    have : un = [] := List.length_eq_zero_iff.mp (Nat.le_zero.mp h)
    subst this; exact List.Perm.refl _
  | succ n ih =>
    intro un h
    rw [orderLoop]
    cases hs : orderStep topo un with
    | none => rw [orderStep_none hs]
    | some e =>
      have hmem := orderStep_mem hs
      have hlen := List.length_erase_of_mem hmem
      have := ih (un.erase e) (by omega)
      exact (List.Perm.cons e this).trans (List.perm_cons_erase hmem).symm

/-- every edge receives exactly one `order` value: the ordered list is a permutation of the edges -/
theorem orderEdges_perm (topo : List Nat) (E : List Edge) : (orderEdges topo E).Perm E :=
  orderLoop_perm topo E.length E (Nat.le_refl _)

/-! ## label_edges -/

theorem setEdge_known {e0 : Edge} {lab : Edge → Label} {e : Edge} (h : lab e ≠ .unknown) :
    setEdge e0 .compelled lab e ≠ .unknown := by
  unfold setEdge; split
  · intro h'; cases h'
  · exact h

theorem setInto_known {y : Nat} {lab : Edge → Label} {e : Edge} (h : lab e ≠ .unknown) :
    setInto y .compelled lab e ≠ .unknown := by
  unfold setInto; split
  · intro h'; cases h'
  · exact h

theorem wLoop_spec (E : List Edge) (y : Nat) : ∀ (ws : List Nat) (lab : Edge → Label),
    (∀ e, lab e ≠ .unknown → (wLoop E y ws lab).1 e ≠ .unknown) ∧
    ((wLoop E y ws lab).2 = true → ∀ e : Edge, e.2 = y → (wLoop E y ws lab).1 e ≠ .unknown) := by
  intro ws
  induction ws with
  | nil => intro lab; exact ⟨fun e h => h, fun h => by cases h⟩
  | cons w ws ih =>
    intro lab
    rw [wLoop]
    split
    · obtain ⟨h1, h2⟩ := ih (setEdge (w, y) .compelled lab)
      exact ⟨fun e h => h1 e (setEdge_known h), h2⟩
    · refine ⟨fun e h => setInto_known h, ?_⟩
      intro _ e he
      simp [setInto, he]

/-- one iteration labels the selected unknown edge and never un-labels anything -/
theorem labelStep_some {G : MG} {ord : List Edge} {lab lab' : Edge → Label}
    (h : labelStep G ord lab = some lab') :
    ∃ e, e ∈ ord ∧ lab e = .unknown ∧ lab' e ≠ .unknown ∧ ∀ e', lab e' ≠ .unknown → lab' e' ≠ .unknown := by
  unfold labelStep at h
  split at h
  · cases h
  · rename_i x y hlast
    have hmem := List.mem_of_getLast? hlast
    simp only [List.mem_filter, beq_iff_eq] at hmem
    obtain ⟨hord, hunk⟩ := hmem
    refine ⟨(x, y), hord, hunk, ?_⟩
    have hw := wLoop_spec G.dir y ((G.parents x).filter fun w => lab (w, x) == .compelled) lab
    dsimp only at h
    split at h
    · rename_i lab1 heq
      cases h
      rw [heq] at hw
      exact ⟨hw.2 rfl (x, y) rfl, hw.1⟩
    · rename_i lab1 heq
      cases h
      rw [heq] at hw
      refine ⟨?_, ?_⟩
      · by_cases h1 : lab1 (x, y) = .unknown
        · simp only [h1, and_self, if_true]
          split <;> (intro h'; cases h')
        · simp only [h1, and_false, if_false]; exact h1
      · intro e' he'
        have := hw.1 e' he'
        simp only [this, and_false, if_false]
        exact this

theorem labelStep_none {G : MG} {ord : List Edge} {lab : Edge → Label}
    (h : labelStep G ord lab = none) : ∀ e ∈ ord, lab e ≠ .unknown := by
  unfold labelStep at h
  split at h
  · rename_i hlast
    have := List.getLast?_eq_none_iff.mp hlast
    intro e he hunk
    have := List.filter_eq_nil_iff.mp this e he
    simp [hunk] at this
  · dsimp only at h
    split at h <;> cases h

def unknownCount (E : List Edge) (lab : Edge → Label) : Nat := E.countP fun e => lab e == .unknown

theorem labelLoop_known (G : MG) (ord : List Edge) (hord : ∀ e, e ∈ ord ↔ e ∈ G.dir) :
    ∀ (fuel : Nat) (lab : Edge → Label), unknownCount G.dir lab ≤ fuel →
      ∀ e ∈ G.dir, labelLoop G ord fuel lab e ≠ .unknown := by
  intro fuel
  induction fuel with
  | zero =>
    intro lab h e he
    rw [labelLoop]
    have := List.countP_eq_zero.mp (Nat.le_zero.mp h) e he
    simpa using this
  | succ n ih =>
    intro lab h e he
    rw [labelLoop]
    cases hs : labelStep G ord lab with
    | none => exact labelStep_none hs e ((hord e).mpr he)
    | some lab' =>
      obtain ⟨e0, he0, hunk, hk, hpres⟩ := labelStep_some hs
      apply ih lab' ?_ e he
      have : unknownCount G.dir lab' < unknownCount G.dir lab := by
        apply Closure.countP_lt' _ _ ?_ G.dir e0 ((hord e0).mp he0)
        · simp [hunk]
        · simpa using hk
        · intro a ha
          simp only [beq_iff_eq] at ha ⊢
          apply Classical.byContradiction
          intro hn
          exact hpres a hn ha
      omega

/-- `label_edges` terminates within `|E|` iterations and leaves no edge `unknown` -/
theorem labels_known (G : MG) (topo : List Nat) : ∀ e ∈ G.dir, labels G topo e ≠ .unknown := by
  apply labelLoop_known G _ (fun e => (orderEdges_perm topo G.dir).mem_iff)
  unfold unknownCount
  exact List.countP_le_length

/-- the number of iterations of the `while` loop is at most the number of edges: after `|E|` rounds a
    further round finds no unknown edge -/
theorem labelStep_after_loop (G : MG) (topo : List Nat) :
    labelStep G (orderEdges topo G.dir) (labels G topo) = none := by
  cases h : labelStep G (orderEdges topo G.dir) (labels G topo) with
  | none => rfl
  | some lab' =>
    obtain ⟨e, he, hunk, _⟩ := labelStep_some h
    exact absurd hunk (labels_known G topo e ((orderEdges_perm topo G.dir).mem_iff.mp he))

/-! ## dag_to_cpdag: structure of the result -/

/-- **C04, structural part** (unconditional; `topo` arbitrary): the result has D's nodes; its directed
    and undirected edges are edges of D; every edge of D occurs exactly once, either directed (in D's
    orientation) or undirected; hence the skeleton is D's. -/
theorem dagToCpdag_struct (G : MG) (topo : List Nat) (hplain : G.un = []) :
    (dagToCpdag G topo).nodes = G.nodes ∧
    (dagToCpdag G topo).bi = [] ∧ (dagToCpdag G topo).circ = [] ∧
    (∀ e, e ∈ (dagToCpdag G topo).dir → e ∈ G.dir) ∧
    (∀ e, e ∈ (dagToCpdag G topo).un → e ∈ G.dir) ∧
    (∀ e ∈ G.dir, (e ∈ (dagToCpdag G topo).dir ∧ e ∉ (dagToCpdag G topo).un) ∨
                  (e ∉ (dagToCpdag G topo).dir ∧ e ∈ (dagToCpdag G topo).un)) ∧
    (∀ a b, Adj (dagToCpdag G topo) a b ↔ Adj G a b) := by
  have hd : ∀ e, e ∈ (dagToCpdag G topo).dir ↔ e ∈ G.dir ∧ labels G topo e = .compelled := by
    intro e; simp [dagToCpdag]
  have hu : ∀ e, e ∈ (dagToCpdag G topo).un ↔ e ∈ G.dir ∧ labels G topo e = .reversible := by
    intro e; simp [dagToCpdag]
  have hcase : ∀ e ∈ G.dir, labels G topo e = .compelled ∨ labels G topo e = .reversible := by
    intro e he
    have := labels_known G topo e he
    cases h : labels G topo e with
    | unknown => exact absurd h this
    | compelled => exact Or.inl rfl
    | reversible => exact Or.inr rfl
  have hex : ∀ e ∈ G.dir, (e ∈ (dagToCpdag G topo).dir ∧ e ∉ (dagToCpdag G topo).un) ∨
                  (e ∉ (dagToCpdag G topo).dir ∧ e ∈ (dagToCpdag G topo).un) := by
    intro e he
    rcases hcase e he with h | h
    · left; exact ⟨(hd e).mpr ⟨he, h⟩, fun h' => (by rw [((hu e).mp h').2] at h; cases h)⟩
    · right; exact ⟨fun h' => (by rw [((hd e).mp h').2] at h; cases h), (hu e).mpr ⟨he, h⟩⟩
  refine ⟨rfl, rfl, rfl, fun e h => ((hd e).mp h).1, fun e h => ((hu e).mp h).1, hex, ?_⟩
  intro a b
  simp only [Adj, hplain, List.not_mem_nil, or_false]
  constructor
  · rintro (h | h | h | h)
    · exact Or.inl ((hd _).mp h).1
    · exact Or.inr ((hd _).mp h).1
    · exact Or.inl ((hu _).mp h).1
    · exact Or.inr ((hu _).mp h).1
  · rintro (h | h)
    · rcases hex _ h with h' | h'
      · exact Or.inl h'.1
      · exact Or.inr (Or.inr (Or.inl h'.2))
    · rcases hex _ h with h' | h'
      · exact Or.inr (Or.inl h'.1)
      · exact Or.inr (Or.inr (Or.inr h'.2))

end C04
