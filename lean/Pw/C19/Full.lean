import Pw.C19.Acy
import Pw.C19.Dec
open Closure MG

/-! # C19: `sigma_separated` -/
namespace C19

theorem DirSpec.mem_nodes {G : MG} (hwf : G.WF) {i j : Nat} (h : DirSpec G i j) :
    i ∈ G.nodes ∧ j ∈ G.nodes := by
  obtain ⟨_, k, hjk, hik⟩ := h
  exact ⟨(hwf.1 _ hik).1, Anc.mem_nodes hwf hjk.2 (hwf.1 _ hik).2⟩

theorem BiSpec.mem_nodes {G : MG} (hwf : G.WF) {i j : Nat} (h : BiSpec G i j) :
    i ∈ G.nodes ∧ j ∈ G.nodes := by
  obtain ⟨hne, h | ⟨a, b, hia, hjb, he⟩⟩ := h
  · constructor
    · rcases Anc.eq_or_mem_nodes hwf h.1 with e | e
      · exact absurd e hne
      · exact e
    · rcases Anc.eq_or_mem_nodes hwf h.2 with e | e
      · exact absurd e.symm hne
      · exact e
  · have han : a ∈ G.nodes ∧ b ∈ G.nodes := by
      rcases he with h | h
      · exact hwf.2.1 _ h
      · exact (hwf.2.1 _ h).symm
    exact ⟨Anc.mem_nodes hwf hia.2 han.1, Anc.mem_nodes hwf hjb.2 han.2⟩

/-- an acyclification of a well-formed graph without undirected edges is a well-formed ADMG -/
theorem IsAcyclification.wf {G A : MG} (hwf : G.WF) (hu : G.un = []) (h : IsAcyclification G A) : A.WF := by
  refine ⟨?_, ?_, ?_⟩
  · rintro ⟨i, j⟩ he
    have := DirSpec.mem_nodes hwf ((h.dir i j).mp he)
    rw [h.nodes]; exact this
  · rintro ⟨i, j⟩ he
    have := BiSpec.mem_nodes hwf ((h.bi i j).mp (Or.inl he))
    rw [h.nodes]; exact this
  · intro e he
    rw [h.un, hu] at he; cases he

theorem IsAcyclification.noSelfLoop {G A : MG} (hu : G.un = []) (h : IsAcyclification G A) :
    NoSelfLoop A := by
  intro a ma mb he
  rcases he with ⟨_, _, h1⟩ | ⟨_, _, h1⟩ | ⟨_, _, h1⟩ | ⟨_, _, h1⟩
  · exact ((h.dir a a).mp h1).1 (SC.refl G a)
  · exact ((h.dir a a).mp h1).1 (SC.refl G a)
  · exact ((h.bi a a).mp (by rcases h1 with h | h <;> exact Or.inl h)).1 rfl
  · rw [h.un, hu] at h1; rcases h1 with h | h <;> cases h

/-- `m_separated`'s acyclicity guard never fires on the acyclification -/
theorem sigmaSeparatedE_eq {G : MG} {order : List Nat} (hd : Dom G) (hu : G.un = [])
    (ho : IsOrder G order) (X Y Z : List Nat) :
    sigmaSeparatedE G order X Y Z = .ok (sigmaSeparated G order X Y Z) := by
  have hA := acy_isAcyclification hd ho
  unfold sigmaSeparatedE sigmaSeparated mSeparatedE
  rw [(hasCycle_false_iff _ (hA.wf hd.wf hu)).mpr hA.acyclic]
  rfl

/-- **unconditional part of the sigma clause**: the model of `sigma_separated` decides path-level
    m-separation in the acyclification (by C01's theorem) -/
theorem sigmaSeparated_iff_MSep_acy {G : MG} {order : List Nat} (hd : Dom G) (hu : G.un = [])
    (ho : IsOrder G order) (X Y Z : List Nat) (hX : ∀ x ∈ X, x ∈ G.nodes) (hZ : ∀ z ∈ Z, z ∈ G.nodes)
    (hXZ : ∀ x ∈ X, x ∉ Z) :
    sigmaSeparated G order X Y Z = true ↔ MSep (acy G order) X Y Z := by
  have hA := acy_isAcyclification hd ho
  unfold sigmaSeparated
  apply mSeparated_iff_MSep _ (hA.wf hd.wf hu)
    (noUndirAtHead_of_un_nil _ (by rw [acy_un, hu])) (hA.noSelfLoop hu) X Y Z
  · intro x hx; rw [acy_nodes]; exact hX x hx
  · intro z hz; rw [acy_nodes]; exact hZ z hz
  · exact hXZ

/-- **T8 (Forré–Mooij)** as a statement: sigma-separation in G = m-separation in any acyclification
    of G, for the inputs of the property.  The theorems of this file take it as an explicit
    hypothesis; it is PROVED in `Pw/T8` and discharged in `Pw/C19/Sigma.lean` (`C19.forreMooij`). -/
def ForreMooij : Prop :=
  ∀ (G A : MG), Dom G → G.un = [] → IsAcyclification G A →
    ∀ X Y Z : List Nat, (∀ x ∈ X, x ∈ G.nodes) → (∀ y ∈ Y, y ∈ G.nodes) → (∀ z ∈ Z, z ∈ G.nodes) →
      (∀ x ∈ X, x ∉ Y ∧ x ∉ Z) → (∀ y ∈ Y, y ∉ Z) →
      (MSep A X Y Z ↔ SigmaSep G X Y Z)

/-- the full sigma clause of C19 for the model -/
def C19_sigma_full : Prop :=
  ∀ (G : MG) (order : List Nat), Dom G → G.un = [] → IsOrder G order →
    ∀ X Y Z : List Nat, (∀ x ∈ X, x ∈ G.nodes) → (∀ y ∈ Y, y ∈ G.nodes) → (∀ z ∈ Z, z ∈ G.nodes) →
      (∀ x ∈ X, x ∉ Y ∧ x ∉ Z) → (∀ y ∈ Y, y ∉ Z) →
      (sigmaSeparatedE G order X Y Z = .ok true ↔ SigmaSep G X Y Z) ∧
      (sigmaSeparatedE G order X Y Z = .ok false ↔ ¬ SigmaSep G X Y Z)

/-- **C19 sigma clause, conditional on T8** -/
theorem C19_sigma_full_of_T8 (T8 : ForreMooij) : C19_sigma_full := by
  intro G order hd hu ho X Y Z hX hY hZ hXYZ hYZ
  have key := sigmaSeparated_iff_MSep_acy hd hu ho X Y Z hX hZ (fun x hx => (hXYZ x hx).2)
  have t8 := T8 G (acy G order) hd hu (acy_isAcyclification hd ho) X Y Z hX hY hZ hXYZ hYZ
  rw [sigmaSeparatedE_eq hd hu ho]
  constructor
  · rw [← t8, ← key]; simp
  · rw [← t8, ← key]; simp

/-- conditional on T8 the model agrees with the verified brute-force decider used as run-time oracle -/
theorem sigmaSeparated_eq_dec_of_T8 (T8 : ForreMooij) {G : MG} {order : List Nat} (hd : Dom G)
    (hu : G.un = []) (ho : IsOrder G order) (X Y Z : List Nat) (hX : ∀ x ∈ X, x ∈ G.nodes)
    (hY : ∀ y ∈ Y, y ∈ G.nodes) (hZ : ∀ z ∈ Z, z ∈ G.nodes) (hXYZ : ∀ x ∈ X, x ∉ Y ∧ x ∉ Z)
    (hYZ : ∀ y ∈ Y, y ∉ Z) :
    sigmaSeparated G order X Y Z = sigmaSepDec G X Y Z := by
  have key := sigmaSeparated_iff_MSep_acy hd hu ho X Y Z hX hZ (fun x hx => (hXYZ x hx).2)
  have t8 := T8 G (acy G order) hd hu (acy_isAcyclification hd ho) X Y Z hX hY hZ hXYZ hYZ
  have dec := sigmaSepDec_iff hd.wf hX hZ (Y := Y)
  cases h1 : sigmaSeparated G order X Y Z <;> cases h2 : sigmaSepDec G X Y Z <;> simp_all

end C19
