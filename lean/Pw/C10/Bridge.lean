import Pw.C10.Full
import Std.Data.String.ToNat
open Closure

/-! # C10: the property theorems

The generic results of `Struct.lean` / `Full.lean` / `Sep.lean` are put together and instantiated:
`convS` (labels are strings, names `"U" ++ toString k` – the code) and `convMG` (labels are numbers,
names `0,1,2,…` – what the driver evaluates for separation queries). -/
namespace C10
variable {α : Type} [DecidableEq α]

def encAsg (enc : α → Nat) (asg : List (α × (α × α))) : List (Nat × (Nat × Nat)) :=
  asg.map fun p => (enc p.1, (enc p.2.1, enc p.2.2))

/-- under an encoding of labels by numbers that is injective on the nodes of the result, the
    model's input and output are related by `IsConv` -/
theorem isConv_encode (fresh : Nat → α) (hinj : ∀ i j, fresh i = fresh j → i = j) {G : LG α}
    (hwf : G.WF) (enc : α → Nat)
    (henc : ∀ a ∈ (conv fresh G).names, ∀ b ∈ (conv fresh G).names, enc a = enc b → a = b) :
    IsConv (G.encode enc) ((conv fresh G).encode enc) (encAsg enc (convAsg fresh G)) := by
  obtain ⟨h1, h2, h3, h4, h5⟩ := conv_spec fresh hinj hwf
  have hnames := conv_names fresh hinj hwf
  have hVR : ∀ v ∈ G.names, v ∈ (conv fresh G).names := fun v hv => by
    rw [hnames]; exact List.mem_append_left _ hv
  have hUR : ∀ p ∈ convAsg fresh G, p.1 ∈ (conv fresh G).names := fun p hp => by
    rw [hnames]; exact List.mem_append_right _ (List.mem_map.mpr ⟨p, hp, rfl⟩)
  refine { wf := ?_, un := rfl, fn := ?_, fresh := ?_, bi_asg := ?_, asg_bi := ?_, nodes := ?_,
           dir := ?_, rbi := rfl, run := rfl }
  · refine ⟨?_, ?_, ?_⟩
    · intro e he
      obtain ⟨d, hd, rfl⟩ := List.mem_map.mp he
      exact ⟨List.mem_map.mpr ⟨d.1, (hwf.dir_mem d hd).1, rfl⟩,
        List.mem_map.mpr ⟨d.2, (hwf.dir_mem d hd).2, rfl⟩⟩
    · intro e he
      obtain ⟨d, hd, rfl⟩ := List.mem_map.mp he
      exact ⟨List.mem_map.mpr ⟨d.1, (hwf.bi_mem d hd).1, rfl⟩,
        List.mem_map.mpr ⟨d.2, (hwf.bi_mem d hd).2, rfl⟩⟩
    · intro e he; cases he
  · intro u e e' he he'
    obtain ⟨p, hp, hpe⟩ := List.mem_map.mp he
    obtain ⟨p', hp', hpe'⟩ := List.mem_map.mp he'
    have hu : enc p.1 = enc p'.1 := by rw [(Prod.mk.inj hpe).1, (Prod.mk.inj hpe').1]
    have hpp := fst_inj_of_nodup h3 p hp p' hp' (henc _ (hUR p hp) _ (hUR p' hp') hu)
    subst hpp
    rw [← (Prod.mk.inj hpe).2, ← (Prod.mk.inj hpe').2]
  · intro u e he hmem
    obtain ⟨p, hp, hpe⟩ := List.mem_map.mp he
    obtain ⟨v, hv, hvu⟩ := List.mem_map.mp hmem
    have : v = p.1 := henc _ (hVR v hv) _ (hUR p hp) (by rw [hvu, (Prod.mk.inj hpe).1])
    exact h2 p hp (this ▸ hv)
  · intro e he
    obtain ⟨b, hb, rfl⟩ := List.mem_map.mp he
    rw [← h1] at hb
    obtain ⟨p, hp, rfl⟩ := List.mem_map.mp hb
    exact ⟨enc p.1, List.mem_map.mpr ⟨p, hp, rfl⟩⟩
  · intro u e he
    obtain ⟨p, hp, hpe⟩ := List.mem_map.mp he
    rw [← (Prod.mk.inj hpe).2]
    exact List.mem_map.mpr ⟨p.2, asg_bi_mem fresh hinj hwf hp, rfl⟩
  · intro v
    show v ∈ (conv fresh G).names.map enc ↔ v ∈ G.names.map enc ∨ _
    rw [hnames, List.map_append, List.mem_append]
    constructor
    · rintro (h | h)
      · exact Or.inl h
      · obtain ⟨w, hw, rfl⟩ := List.mem_map.mp h
        obtain ⟨p, hp, rfl⟩ := List.mem_map.mp hw
        exact Or.inr ⟨_, List.mem_map.mpr ⟨p, hp, rfl⟩⟩
    · rintro (h | ⟨e, he⟩)
      · exact Or.inl h
      · obtain ⟨p, hp, hpe⟩ := List.mem_map.mp he
        exact Or.inr (List.mem_map.mpr ⟨p.1, List.mem_map.mpr ⟨p, hp, rfl⟩, (Prod.mk.inj hpe).1⟩)
  · intro a c
    show (a, c) ∈ (conv fresh G).edges.map _ ↔ (a, c) ∈ G.dir.map _ ∨ _
    constructor
    · intro h
      obtain ⟨q, hq, hqe⟩ := List.mem_map.mp h
      obtain ⟨hqa, hqc⟩ := Prod.mk.inj hqe
      rcases (h5 q).mp hq with hd | ⟨p, hp, hq'⟩
      · exact Or.inl (List.mem_map.mpr ⟨q, hd, hqe⟩)
      · right
        refine ⟨(enc p.2.1, enc p.2.2), List.mem_map.mpr ⟨p, hp, ?_⟩, ?_⟩
        · have : q.1 = p.1 := by rcases hq' with rfl | rfl <;> rfl
          rw [← hqa, this]
        · rcases hq' with rfl | rfl
          · exact Or.inl hqc.symm
          · exact Or.inr hqc.symm
    · rintro (h | ⟨e, he, hc⟩)
      · obtain ⟨q, hq, hqe⟩ := List.mem_map.mp h
        exact List.mem_map.mpr ⟨q, (h5 q).mpr (Or.inl hq), hqe⟩
      · obtain ⟨p, hp, hpe⟩ := List.mem_map.mp he
        obtain ⟨hpa, hpe2⟩ := Prod.mk.inj hpe
        subst hpa; subst hpe2
        rcases hc with rfl | rfl
        · exact List.mem_map.mpr ⟨(p.1, p.2.1), (h5 _).mpr (Or.inr ⟨p, hp, Or.inl rfl⟩), rfl⟩
        · exact List.mem_map.mpr ⟨(p.1, p.2.2), (h5 _).mpr (Or.inr ⟨p, hp, Or.inr rfl⟩), rfl⟩

/-- no edge of G joins a node with itself -/
def LG.NoSelfLoop (G : LG α) : Prop := (∀ e ∈ G.dir, e.1 ≠ e.2) ∧ (∀ e ∈ G.bi, e.1 ≠ e.2)

theorem noSelfLoop_encode {G : LG α} (hwf : G.WF) (hsl : G.NoSelfLoop) (enc : α → Nat)
    (henc : ∀ a ∈ G.names, ∀ b ∈ G.names, enc a = enc b → a = b) : MG.NoSelfLoop (G.encode enc) := by
  intro a ma mb he
  have hd : ∀ e ∈ G.dir, ¬ (enc e.1 = a ∧ enc e.2 = a) := by
    rintro e he ⟨h1, h2⟩
    exact hsl.1 e he (henc _ (hwf.dir_mem e he).1 _ (hwf.dir_mem e he).2 (h1.trans h2.symm))
  have hb : ∀ e ∈ G.bi, ¬ (enc e.1 = a ∧ enc e.2 = a) := by
    rintro e he ⟨h1, h2⟩
    exact hsl.2 e he (henc _ (hwf.bi_mem e he).1 _ (hwf.bi_mem e he).2 (h1.trans h2.symm))
  rcases he with ⟨_, _, h3⟩ | ⟨_, _, h3⟩ | ⟨_, _, h3 | h3⟩ | ⟨_, _, h3 | h3⟩
  · obtain ⟨e, he, hee⟩ := List.mem_map.mp h3
    exact hd e he ⟨(Prod.mk.inj hee).1, (Prod.mk.inj hee).2⟩
  · obtain ⟨e, he, hee⟩ := List.mem_map.mp h3
    exact hd e he ⟨(Prod.mk.inj hee).1, (Prod.mk.inj hee).2⟩
  · obtain ⟨e, he, hee⟩ := List.mem_map.mp h3
    exact hb e he ⟨(Prod.mk.inj hee).1, (Prod.mk.inj hee).2⟩
  · obtain ⟨e, he, hee⟩ := List.mem_map.mp h3
    exact hb e he ⟨(Prod.mk.inj hee).1, (Prod.mk.inj hee).2⟩
  · cases h3
  · cases h3

/-- **second sentence for the generic model, model level**: the C01 model gives the same answer on
    the (encoded) result and on the (encoded) input for all X, Y, Z of original nodes -/
theorem mSeparated_conv_encode (fresh : Nat → α) (hinj : ∀ i j, fresh i = fresh j → i = j) {G : LG α}
    (hwf : G.WF) (enc : α → Nat)
    (henc : ∀ a ∈ (conv fresh G).names, ∀ b ∈ (conv fresh G).names, enc a = enc b → a = b)
    (X Y Z : List Nat) (hX : ∀ x ∈ X, x ∈ (G.encode enc).nodes) (hY : ∀ y ∈ Y, y ∈ (G.encode enc).nodes)
    (hZ : ∀ z ∈ Z, z ∈ (G.encode enc).nodes) :
    MG.mSeparated ((conv fresh G).encode enc) X Y Z = MG.mSeparated (G.encode enc) X Y Z :=
  mSeparated_of_isConv (isConv_encode fresh hinj hwf enc henc) X Y Z hX hY hZ

/-- **second sentence for the generic model, path level** -/
theorem sepPreserved_conv_encode (fresh : Nat → α) (hinj : ∀ i j, fresh i = fresh j → i = j) {G : LG α}
    (hwf : G.WF) (hsl : G.NoSelfLoop) (enc : α → Nat)
    (henc : ∀ a ∈ (conv fresh G).names, ∀ b ∈ (conv fresh G).names, enc a = enc b → a = b) :
    SepPreserved (G.encode enc) ((conv fresh G).encode enc) := by
  refine sepPreserved_of_isConv (isConv_encode fresh hinj hwf enc henc) ?_
  apply noSelfLoop_encode hwf hsl enc
  intro a ha b hb
  have hnames := conv_names fresh hinj hwf
  exact henc a (by rw [hnames]; exact List.mem_append_left _ ha) b
    (by rw [hnames]; exact List.mem_append_left _ hb)

/-! ## the code: string labels, names `U<k>` -/

/-- `f"U{i}" == f"U{j}"` only for `i == j` -/
theorem uname_inj : ∀ i j, uname i = uname j → i = j := by
  intro i j h
  have h' : "U" ++ Nat.repr i = "U" ++ Nat.repr j := h
  exact Nat.repr_inj.mp ((String.append_right_inj _).mp h')

/-- **C10, structure sentence, for the model of the code.** Any label set, including labels of the
    form `U<k>`. -/
theorem C10_struct {G : LG String} (hwf : G.WF) (hacy : G.dirDG.IsDAG) : Struct G (convS G) :=
  struct_conv uname uname_inj hwf hacy

theorem C10_exact {G : LG String} (hwf : G.WF) (hbd : G.BiDistinct) : Exact G (convS G) :=
  exact_conv uname uname_inj hwf hbd

/-- the new nodes of the model of the code, in English: for the `i`-th bidirected edge the node
    `u` is not a node of G, differs from the new node of every other edge, has no parent, and its
    children are exactly the two endpoints -/
theorem C10_new_nodes {G : LG String} (hwf : G.WF) :
    (convAsg uname G).map (·.2) = G.bi ∧
    ((convAsg uname G).map (·.1)).Nodup ∧
    ∀ p ∈ convAsg uname G, p.1 ∉ G.names ∧ p.1 ∈ (convS G).names ∧
      (∀ q ∈ (convS G).edges, q.2 ≠ p.1) ∧
      (∀ c, (p.1, c) ∈ (convS G).edges ↔ c = p.2.1 ∨ c = p.2.2) := by
  obtain ⟨h1, _, h3, _, _⟩ := conv_spec uname uname_inj hwf
  refine ⟨h1, h3, ?_⟩
  intro p hp
  obtain ⟨n1, n2, n3, n4, n5, n6⟩ := newNodeFor_of_mem_asg uname uname_inj hwf hp
  refine ⟨n2, n1, n3, ?_⟩
  intro c
  constructor
  · intro h; exact n6 _ h rfl
  · rintro (rfl | rfl)
    · exact n4
    · exact n5

/-- the original part is kept literally: the node dict of the result starts with G's node dict
    (labels and attributes, in order), and the edges between/out of original nodes are G's directed
    edges -/
theorem C10_original_kept {G : LG String} (hwf : G.WF) :
    (convS G).nodes = G.nodes ++ (convAsg uname G).map (fun p => (p.1, ucAttr)) ∧
    ∀ q, q.1 ∈ G.names → (q ∈ (convS G).edges ↔ q ∈ G.dir) := by
  obtain ⟨_, h2, _, h4, h5⟩ := conv_spec uname uname_inj hwf
  refine ⟨h4, ?_⟩
  intro q hq
  constructor
  · intro h
    rcases (h5 q).mp h with hd | ⟨p, hp, rfl | rfl⟩
    · exact hd
    · exact absurd hq (h2 p hp)
    · exact absurd hq (h2 p hp)
  · intro h; exact (h5 q).mpr (Or.inl h)

/-- **C10, separation sentence, for the model of the code** (path level: d-separation by simple
    paths in the result = m-separation by simple paths in G) under any numbering of the labels that is
    injective on the result's nodes. -/
theorem C10_sep {G : LG String} (hwf : G.WF) (hsl : G.NoSelfLoop) (enc : String → Nat)
    (henc : ∀ a ∈ (convS G).names, ∀ b ∈ (convS G).names, enc a = enc b → a = b) :
    SepPreserved (G.encode enc) ((convS G).encode enc) :=
  sepPreserved_conv_encode uname uname_inj hwf hsl enc henc

/-- **C10**: model = specification (both sentences) -/
theorem C10_full {G : LG String} (hwf : G.WF) (hacy : G.dirDG.IsDAG) (hsl : G.NoSelfLoop)
    (enc : String → Nat)
    (henc : ∀ a ∈ (convS G).names, ∀ b ∈ (convS G).names, enc a = enc b → a = b) :
    Struct G (convS G) ∧ SepPreserved (G.encode enc) ((convS G).encode enc) :=
  ⟨C10_struct hwf hacy, C10_sep hwf hsl enc henc⟩

/-! ## the `Nat` instance used by the driver -/

theorem IsConv.of_eq {G G' R : MG} {asg : List (Nat × (Nat × Nat))} (h : IsConv G' R asg)
    (hn : G.nodes = G'.nodes) (hd : G.dir = G'.dir) (hb : G.bi = G'.bi) (hu : G.un = []) :
    IsConv G R asg := by
  have hwf : G.WF := by
    have := h.wf
    unfold MG.WF at this ⊢
    rw [hn, hd, hb, hu]
    exact ⟨this.1, this.2.1, by intro e he; cases he⟩
  exact { wf := hwf, un := hu, fn := h.fn, fresh := by rw [hn]; exact h.fresh,
          bi_asg := by rw [hb]; exact h.bi_asg, asg_bi := by rw [hb]; exact h.asg_bi,
          nodes := by rw [hn]; exact h.nodes, dir := by rw [hd]; exact h.dir,
          rbi := h.rbi, run := h.run }

theorem ofMG_names (G : MG) : (LG.ofMG G).names = G.nodes := by
  simp [LG.names, LG.ofMG, List.map_map, Function.comp_def]

theorem ofMG_wf {G : MG} (hwf : G.WF) (hnd : G.nodes.Nodup) : (LG.ofMG G).WF :=
  { nodup := by rw [ofMG_names]; exact hnd
    dir_mem := by intro e he; rw [ofMG_names]; exact hwf.1 e he
    bi_mem := by intro e he; rw [ofMG_names]; exact hwf.2.1 e he }

theorem isConv_convMG {G : MG} (hwf : G.WF) (hnd : G.nodes.Nodup) (hun : G.un = []) :
    IsConv G (convMG G) (encAsg id (convAsg id (LG.ofMG G))) := by
  have h := isConv_encode id (fun _ _ h => h) (ofMG_wf hwf hnd) id (fun _ _ _ _ h => h)
  refine h.of_eq ?_ ?_ ?_ hun
  · simp [LG.encode, ofMG_names]
  · simp [LG.encode, LG.ofMG]
  · simp [LG.encode, LG.ofMG]

/-- **C10, separation sentence, models on `Nat`-labelled graphs**: `mSeparated (conv G) = mSeparated G`
    for X, Y, Z subsets of the original nodes.  Here the user labels `0..n-1` collide with the
    generated names `0, 1, …`. -/
theorem mSeparated_convMG (G : MG) (hwf : G.WF) (hnd : G.nodes.Nodup) (hun : G.un = [])
    (X Y Z : List Nat) (hX : ∀ x ∈ X, x ∈ G.nodes) (hY : ∀ y ∈ Y, y ∈ G.nodes)
    (hZ : ∀ z ∈ Z, z ∈ G.nodes) :
    MG.mSeparated (convMG G) X Y Z = MG.mSeparated G X Y Z :=
  mSeparated_of_isConv (isConv_convMG hwf hnd hun) X Y Z hX hY hZ

theorem sepPreserved_convMG (G : MG) (hwf : G.WF) (hnd : G.nodes.Nodup) (hun : G.un = [])
    (hsl : MG.NoSelfLoop G) : SepPreserved G (convMG G) :=
  sepPreserved_of_isConv (isConv_convMG hwf hnd hun) hsl

/-- the clause of the structure sentence about one new node, with unbounded quantifiers (as in the
    English statement): `u` is a node of the result, distinct from all nodes of G, nothing points to
    it, and its children are exactly the two endpoints -/
theorem newNodeFor_iff (G : LG α) (R : DG α) (u : α) (e : α × α) :
    NewNodeFor G R u e ↔
      (u ∈ R.names ∧ (∀ v ∈ G.names, u ≠ v) ∧ (∀ p, (p, u) ∉ R.edges) ∧
       ∀ c, (u, c) ∈ R.edges ↔ (c = e.1 ∨ c = e.2)) := by
  constructor
  · rintro ⟨h1, h2, h3, h4, h5, h6⟩
    refine ⟨h1, fun v hv huv => h2 (huv ▸ hv), fun p hp => h3 _ hp rfl, ?_⟩
    intro c
    constructor
    · intro h; exact h6 _ h rfl
    · rintro (rfl | rfl)
      · exact h4
      · exact h5
  · rintro ⟨h1, h2, h3, h4⟩
    refine ⟨h1, fun hu => h2 u hu rfl, ?_, (h4 _).mpr (Or.inl rfl), (h4 _).mpr (Or.inr rfl), ?_⟩
    · rintro ⟨p, c⟩ hq rfl; exact h3 p hq
    · rintro ⟨p, c⟩ hq rfl; exact (h4 c).mp hq

theorem idxOf_inj_on {l : List α} : ∀ a ∈ l, ∀ b ∈ l, l.idxOf a = l.idxOf b → a = b := by
  intro a ha b hb h
  have h1 := List.getElem_idxOf (List.idxOf_lt_length_iff.mpr ha)
  have h2 := List.getElem_idxOf (List.idxOf_lt_length_iff.mpr hb)
  rw [← h1, ← h2]
  simp only [h]

/-- the numbering the harness uses: position in the result's node dict (original nodes first) -/
def idxEnc (R : DG α) (a : α) : Nat := R.names.idxOf a

/-- **C10 for the model of the code, no side hypothesis on the numbering** -/
theorem C10_full_idx {G : LG String} (hwf : G.WF) (hacy : G.dirDG.IsDAG) (hsl : G.NoSelfLoop) :
    Struct G (convS G) ∧
    SepPreserved (G.encode (idxEnc (convS G))) ((convS G).encode (idxEnc (convS G))) :=
  C10_full hwf hacy hsl _ (fun a ha b hb h => idxOf_inj_on a ha b hb h)

end C10
