import Pw.C07.Spec
import Pw.T2.Main
open Closure MG

/-! # T5a (Verma–Pearl / Richardson–Spirtes Thm 4.2), derived from T2

In an ADMG, relative to latent `L` and selection `S`: there is an inducing path between x and y iff
no set Z of other observed nodes m-separates x and y given Z ∪ S. -/
namespace T5
open C06

variable {G : MG}

/-- without undirected edges the anterior relation is the ancestor relation -/
theorem anc_of_ant (hun : G.un = []) {a c : Nat} (h : Ant G a c) : Anc G a c := by
  induction h with
  | refl => exact Anc.refl _
  | @step a b c mb he _ ih =>
    cases mb with
    | head => exact Anc.step he.dir_of_tail_head ih
    | tail =>
      rcases he with ⟨_, h2, _⟩ | ⟨h1, _, _⟩ | ⟨h1, _, _⟩ | ⟨_, _, h3⟩
      · cases h2
      · cases h1
      · cases h1
      · rw [hun] at h3; rcases h3 with h | h <;> cases h

/-- generic loop cutting: if every node of the walk satisfies the collider predicate, an open walk
    shortens to an open path -/
theorem openP_walk_to_path {C : Nat → Prop} {Z : List Nat} (hsl : NoSelfLoop G) :
    ∀ (hs : List Hop) (e : Option Mark) (a : Nat), ValidW G a hs → OpenP C Z e a hs →
      (∀ v ∈ nodesOf a hs, C v) →
      ∃ ps, ValidW G a ps ∧ OpenP C Z e a ps ∧ endNode a ps = endNode a hs ∧ (nodesOf a ps).Nodup ∧
        (∀ v ∈ nodesOf a ps, C v)
  | [], e, a, _, _, hC => ⟨[], trivial, trivial, rfl, by simp [nodesOf], hC⟩
  | h :: t, e, a, hv, ho, hC => by
    obtain ⟨hv1, hv2⟩ := hv
    obtain ⟨ho1, ho2⟩ := ho
    have hCt : ∀ v ∈ nodesOf h.nx t, C v := by
      intro v hv
      apply hC v
      simp only [nodesOf, List.map_cons, List.mem_cons] at hv ⊢
      exact Or.inr hv
    have hCa : C a := hC a (by simp [nodesOf])
    obtain ⟨ps, pv, po, pe, pn, pC⟩ := openP_walk_to_path hsl t (some h.mn) h.nx hv2 ho2 hCt
    have hne : a ≠ h.nx := by
      intro heq
      apply hsl a h.mp h.mn
      have := hv1
      rwa [← heq] at this
    by_cases hmem : a ∈ ps.map (·.nx)
    · obtain ⟨hop, hhop, hnx⟩ := List.mem_map.mp hmem
      obtain ⟨s, t2, rfl⟩ := List.append_of_mem hhop
      have hsplit : s ++ hop :: t2 = (s ++ [hop]) ++ t2 := by simp
      rw [hsplit] at pv po pe pn pC
      rw [validW_append] at pv
      rw [openP_append] at po
      rw [endNode_append] at pe
      rw [endNode_snoc, hnx] at pv po pe
      rw [exitMark_snoc] at po
      obtain ⟨pv1, pv2⟩ := pv
      obtain ⟨po1, po2⟩ := po
      have hnod : (nodesOf a t2).Nodup := by
        simp only [nodesOf, List.map_append, List.map_cons, List.map_nil, List.nodup_cons,
          List.nodup_append, List.mem_append, List.mem_cons, List.mem_map] at pn ⊢
        obtain ⟨_, ⟨_, hn2, hdisj⟩⟩ := pn
        refine ⟨?_, hn2⟩
        rintro ⟨x, hx, hxa⟩
        exact hdisj a (Or.inr (Or.inl hnx.symm)) x.nx (⟨x, hx, rfl⟩) hxa.symm
      have hC2 : ∀ v ∈ nodesOf a t2, C v := by
        intro v hv
        simp only [nodesOf, List.mem_cons] at hv
        rcases hv with rfl | hv
        · exact hCa
        · apply pC v
          rw [nodesOf_append]
          exact List.mem_append_right _ hv
      refine ⟨t2, pv2, ?_, by rw [pe]; simp [endNode], hnod, hC2⟩
      cases t2 with
      | nil => trivial
      | cons h2 t3 =>
        obtain ⟨c2, po3⟩ := po2
        refine ⟨?_, po3⟩
        cases e with
        | none => trivial
        | some m0 =>
          simp only [condPO, condP] at ho1 c2 ⊢
          by_cases hcol : m0 = .head ∧ h2.mp = .head
          · simp only [hcol, and_self, if_true]; exact hCa
          · simp only [hcol, if_false]
            cases m0 with
            | tail =>
              have : ¬ (Mark.tail = .head ∧ h.mp = .head) := by rintro ⟨hx, _⟩; cases hx
              simp only [this, if_false] at ho1
              exact ho1
            | head =>
              have hm2 : h2.mp = .tail := by
                cases hq : h2.mp with
                | tail => rfl
                | head => exact absurd ⟨rfl, hq⟩ hcol
              have : ¬ (hop.mn = .head ∧ h2.mp = .head) := by
                rintro ⟨_, hx⟩; rw [hm2] at hx; cases hx
              simp only [this, if_false] at c2
              exact c2
    · refine ⟨h :: ps, ⟨hv1, pv⟩, ⟨ho1, po⟩, by simp [endNode, pe], ?_, ?_⟩
      · simp only [nodesOf, List.map_cons, List.nodup_cons, List.mem_cons, not_or] at pn ⊢
        exact ⟨⟨hne, hmem⟩, pn⟩
      · intro v hv
        simp only [nodesOf, List.map_cons, List.mem_cons] at hv
        rcases hv with rfl | hv
        · exact hCa
        · exact pC v (by simp only [nodesOf, List.mem_cons]; exact hv)

/-! ## inducing path ⇒ never separated -/

theorem innerOK_openP {L S Zs : List Nat} {x y : Nat} (hL : ∀ v, v ∈ L → v ∉ Zs) :
    ∀ (hs : List Hop) (e : Option Mark) (a : Nat), InnerOK G L S x y e a hs →
      OpenP (AncOf G x y S) Zs e a hs
  | [], _, _, _ => trivial
  | h :: t, none, a, hi => ⟨trivial, innerOK_openP hL t _ _ hi⟩
  | h :: t, some m, a, hi => by
    obtain ⟨⟨h1, h2⟩, hi2⟩ := hi
    refine ⟨?_, innerOK_openP hL t _ _ hi2⟩
    simp only [condPO, condP]
    by_cases hcol : m = .head ∧ h.mp = .head
    · simp only [hcol, and_self, if_true]; exact h2 hcol
    · simp only [hcol, if_false]
      rcases h1 with h1 | h1
      · exact hL a h1
      · exact absurd h1 hcol

theorem ancOf_inAnt {S Z : List Nat} {x y v : Nat} (h : AncOf G x y S v) :
    InAnt G ([x] ++ [y] ++ (Z ++ S)) v := by
  obtain ⟨t, ht, ha⟩ := h
  refine ⟨t, ?_, Ant.of_anc ha⟩
  simp only [List.mem_cons] at ht
  simp only [List.mem_append, List.mem_cons, List.mem_nil_iff, or_false]
  rcases ht with rfl | rfl | ht
  · exact Or.inl (Or.inl rfl)
  · exact Or.inl (Or.inr rfl)
  · exact Or.inr (Or.inr ht)

theorem not_sep_of_inducing (hwf : G.WF) (hun : G.un = []) (hsl : NoSelfLoop G)
    {L S : List Nat} {x y : Nat} (hyS : y ∉ S) (hxS : x ∉ S) (hSn : ∀ s ∈ S, s ∈ G.nodes)
    (hLS : ∀ v, v ∈ L → v ∉ S) (hp : HasInducingPath G L S x y) (Z : List Nat)
    (hZ : ∀ z ∈ Z, z ∈ G.nodes ∧ z ∉ L ∧ z ≠ x ∧ z ≠ y) :
    ¬ MSep G [x] [y] (Z ++ S) := by
  obtain ⟨hs, hv, hend, _, hin⟩ := hp
  have hb : NoUndirAtHead G := noUndirAtHead_of_un_nil G hun
  have hZs : ∀ z ∈ Z ++ S, z ∈ G.nodes := by
    intro z hz
    rcases List.mem_append.mp hz with hz | hz
    · exact (hZ z hz).1
    · exact hSn z hz
  have hxZ : ∀ a ∈ [x], a ∉ Z ++ S := by
    intro a ha; simp at ha; subst ha
    intro hz
    rcases List.mem_append.mp hz with hz | hz
    · exact (hZ a hz).2.2.1 rfl
    · exact hxS hz
  have hyZ : ∀ a ∈ [y], a ∉ Z ++ S := by
    intro a ha; simp at ha; subst ha
    intro hz
    rcases List.mem_append.mp hz with hz | hz
    · exact (hZ a hz).2.2.2 rfl
    · exact hyS hz
  rw [mSep_iff_moral_cut G hwf hb hsl [x] [y] (Z ++ S) hZs hxZ hyZ]
  intro hno
  apply hno
  have hLZ : ∀ v, v ∈ L → v ∉ Z ++ S := by
    intro v hvL hz
    rcases List.mem_append.mp hz with hz | hz
    · exact (hZ v hz).2.1 hvL
    · exact hLS v hvL hz
  have hoP := innerOK_openP hLZ hs none x hin
  have hxA : AntSet G [x] [y] (Z ++ S) x := ⟨x, by simp, Ant.refl x⟩
  have hyA : AntSet G [x] [y] (Z ++ S) y := ⟨y, by simp, Ant.refl y⟩
  have hall := all_inAnt hb (fun v hv => ancOf_inAnt (Z := Z) hv) hs x hv hoP hxA (by rw [hend]; exact hyA)
  have hsemi : OpenP Tr (Z ++ S) none x hs := OpenP.mono (fun _ _ => trivial) hs none x hoP
  have := hconn_of_semiOpen (A := AntSet G [x] [y] (Z ++ S)) hs x x [] trivial rfl trivial
    (by intro w hw; simp [nodesOf] at hw; rw [hw]; exact hxA) hv hsemi hall
    (by rw [hend]; exact hyZ y (by simp))
  rw [hend] at this
  exact ⟨x, by simp, y, by simp, this⟩

/-! ## no inducing path ⇒ the canonical set separates -/

/-- the canonical separator: observed ancestors of x, y, S other than x and y -/
def canonZ (G : MG) (L S : List Nat) (x y : Nat) : List Nat :=
  (G.anc (x :: y :: S)).filter fun v => decide (v ∉ L ∧ v ∉ S ∧ v ≠ x ∧ v ≠ y)

/-- nodes that may NOT be inner non-colliders of an inducing walk -/
def forbid (G : MG) (L S : List Nat) (x y : Nat) : List Nat :=
  (G.anc (x :: y :: S)).filter fun v => decide (v ∉ L ∧ v ≠ x ∧ v ≠ y)

theorem openP_innerOK {L S : List Nat} {x y : Nat} (hwf : G.WF)
    (hT : ∀ t ∈ x :: y :: S, t ∈ G.nodes) :
    ∀ (hs : List Hop) (m : Mark) (a : Nat), OpenP (AncOf G x y S) (forbid G L S x y) (some m) a hs →
      (nodesOf a hs).Nodup → x ∉ nodesOf a hs → endNode a hs = y →
      (∀ v ∈ nodesOf a hs, AncOf G x y S v) → InnerOK G L S x y (some m) a hs
  | [], _, _, _, _, _, _, _ => trivial
  | h :: t, m, a, ho, hn, hx, hend, hC => by
    obtain ⟨ho1, ho2⟩ := ho
    have hax : a ≠ x := by
      intro h; apply hx; rw [h]; simp [nodesOf]
    have hay : a ≠ y := by
      intro h'
      simp only [endNode] at hend
      have hmem := endNode_mem_nodesOf t h.nx
      rw [hend] at hmem
      simp only [nodesOf, List.map_cons, List.nodup_cons] at hn
      apply hn.1
      rw [h']
      simpa [nodesOf] using hmem
    have hCa : AncOf G x y S a := hC a (by simp [nodesOf])
    refine ⟨⟨?_, fun _ => hCa⟩, ?_⟩
    · by_cases hcol : m = .head ∧ h.mp = .head
      · exact Or.inr hcol
      · left
        simp only [condPO, condP, hcol, if_false] at ho1
        have haan : a ∈ G.anc (x :: y :: S) := (mem_anc hwf hT).mpr hCa
        simp only [forbid, List.mem_filter, decide_eq_true_eq, not_and] at ho1
        have := ho1 haan
        by_cases haL : a ∈ L
        · exact haL
        · exact absurd (this haL hax) (by simpa using hay)
    · apply openP_innerOK hwf hT t h.mn h.nx ho2
      · simp only [nodesOf, List.map_cons, List.nodup_cons] at hn ⊢; exact hn.2
      · intro hm; apply hx
        simp only [nodesOf, List.map_cons, List.mem_cons] at hm ⊢
        exact Or.inr hm
      · simpa [endNode] using hend
      · intro v hv; apply hC v
        simp only [nodesOf, List.map_cons, List.mem_cons] at hv ⊢
        exact Or.inr hv

theorem sep_of_no_inducing (hwf : G.WF) (hun : G.un = []) (hsl : NoSelfLoop G)
    {L S : List Nat} {x y : Nat} (hxy : x ≠ y) (hx : x ∈ G.nodes) (hy : y ∈ G.nodes)
    (hxS : x ∉ S) (hyS : y ∉ S) (hSn : ∀ s ∈ S, s ∈ G.nodes)
    (hno : ¬ HasInducingPath G L S x y) :
    MSep G [x] [y] (canonZ G L S x y ++ S) := by
  have hb : NoUndirAtHead G := noUndirAtHead_of_un_nil G hun
  have hT : ∀ t ∈ x :: y :: S, t ∈ G.nodes := by
    intro t ht; simp only [List.mem_cons] at ht
    rcases ht with rfl | rfl | ht
    · exact hx
    · exact hy
    · exact hSn t ht
  have hanN : ∀ v ∈ G.anc (x :: y :: S), v ∈ G.nodes := by
    intro v hv
    unfold anc at hv
    rw [mem_closure] at hv
    obtain ⟨w, _, hwU, hr⟩ := hv
    cases hr with
    | refl => exact hwU
    | tail _ s => exact s.2
  have hZs : ∀ z ∈ canonZ G L S x y ++ S, z ∈ G.nodes := by
    intro z hz
    rcases List.mem_append.mp hz with hz | hz
    · exact hanN z (List.mem_filter.mp hz).1
    · exact hSn z hz
  have hxZ : ∀ a ∈ [x], a ∉ canonZ G L S x y ++ S := by
    intro a ha; simp at ha; subst ha
    intro hz
    rcases List.mem_append.mp hz with hz | hz
    · have := (List.mem_filter.mp hz).2; simp at this
    · exact hxS hz
  have hyZ : ∀ a ∈ [y], a ∉ canonZ G L S x y ++ S := by
    intro a ha; simp at ha; subst ha
    intro hz
    rcases List.mem_append.mp hz with hz | hz
    · have := (List.mem_filter.mp hz).2; simp at this
    · exact hyS hz
  rw [mSep_iff_moral_cut G hwf hb hsl [x] [y] _ hZs hxZ hyZ]
  rintro ⟨x', hx', y', hy', hh⟩
  simp at hx' hy'; subst hx'; subst hy'
  apply hno
  -- every anterior node is an ancestor of x, y or S
  have hA : ∀ v, AntSet G [x'] [y'] (canonZ G L S x' y' ++ S) v → AncOf G x' y' S v := by
    rintro v ⟨t, ht, ha⟩
    have hav := anc_of_ant hun ha
    simp only [List.mem_append, List.mem_cons, List.mem_nil_iff, or_false] at ht
    rcases ht with (rfl | rfl) | ht | ht
    · exact ⟨t, by simp, hav⟩
    · exact ⟨t, by simp, hav⟩
    · obtain ⟨t', ht', hat'⟩ := (mem_anc hwf hT).mp (List.mem_filter.mp ht).1
      exact ⟨t', ht', hav.trans hat'⟩
    · exact ⟨t, by simp [ht], hav⟩
  obtain ⟨hs, hv, hend, ho, hall⟩ := semiOpen_of_hconn hh ⟨x', by simp, Ant.refl x'⟩
  have hallC : ∀ v ∈ nodesOf x' hs, AncOf G x' y' S v := fun v hv => hA v (hall v hv)
  -- the semi-open walk is open for (AncOf, forbid)
  have hoF : ∀ (hs : List Hop) (e : Option Mark) (a : Nat),
      OpenP Tr (canonZ G L S x' y' ++ S) e a hs → (∀ v ∈ nodesOf a hs, AncOf G x' y' S v) →
      OpenP (AncOf G x' y' S) (forbid G L S x' y') e a hs := by
    intro hs
    induction hs with
    | nil => intro _ _ _ _; trivial
    | cons h t ih =>
      intro e a ho hC
      refine ⟨?_, ih _ _ ho.2 (by
        intro v hv; apply hC v
        simp only [nodesOf, List.map_cons, List.mem_cons] at hv ⊢
        exact Or.inr hv)⟩
      have h1 := ho.1
      cases e with
      | none => trivial
      | some m =>
        simp only [condPO, condP] at h1 ⊢
        by_cases hcol : m = .head ∧ h.mp = .head
        · simp only [hcol, and_self, if_true]; exact hC a (by simp [nodesOf])
        · simp only [hcol, if_false] at h1 ⊢
          intro hf
          apply h1
          simp only [forbid, List.mem_filter, decide_eq_true_eq] at hf
          by_cases haS : a ∈ S
          · exact List.mem_append_right _ haS
          · apply List.mem_append_left
            simp only [canonZ, List.mem_filter, decide_eq_true_eq]
            exact ⟨hf.1, hf.2.1, haS, hf.2.2⟩
  obtain ⟨ps, pv, po, pe, pn, pC⟩ := openP_walk_to_path hsl hs none x' hv (hoF hs none x' ho hallC) hallC
  rw [hend] at pe
  refine ⟨ps, pv, pe, pn, ?_⟩
  cases ps with
  | nil => exact absurd pe hxy
  | cons h t =>
    show InnerOK G L S x' y' (some h.mn) h.nx t
    apply openP_innerOK hwf hT t h.mn h.nx po.2
    · simp only [nodesOf, List.map_cons, List.nodup_cons] at pn ⊢; exact pn.2
    · simp only [nodesOf, List.map_cons, List.nodup_cons, List.mem_cons, not_or] at pn ⊢
      exact pn.1
    · simpa [endNode] using pe
    · intro v hv; apply pC v
      simp only [nodesOf, List.map_cons, List.mem_cons] at hv ⊢
      exact Or.inr hv

end T5
