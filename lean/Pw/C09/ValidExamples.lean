import Pw.C09.ValidOk
import Pw.C08.Examples
open Closure

/-! # C09 validator: non-vacuity examples (the collider `0 -> 2 <- 1` and its PAG `0 o-> 2 <-o 1`) -/
namespace C09
open MG

def exM : MG := { nodes := [0, 1, 2], dir := [(0, 2), (1, 2)] }
def exP : MG := { nodes := [0, 1, 2], dir := [(0, 2), (1, 2)], circ := [(2, 0), (2, 1)] }

theorem exM_sep : MSep exM [0] [1] [] := by
  intro x hx y hy ⟨hs, hv, hend, _, ho⟩
  rw [List.mem_singleton] at hx hy
  subst hx; subst hy
  match hs, hv, hend, ho with
  | [], _, hend, _ => simp [endNode] at hend
  | [h1], hv, hend, _ =>
    obtain ⟨mp, mn, nx⟩ := h1
    simp [ValidW, HasEdge, exM] at hv
    simp [endNode] at hend
    omega
  | h1 :: h2 :: t, hv, _, ho =>
    obtain ⟨mp1, mn1, nx1⟩ := h1
    obtain ⟨mp2, mn2, nx2⟩ := h2
    simp only [ValidW, HasEdge, exM, List.mem_cons, Prod.mk.injEq, List.not_mem_nil, or_false] at hv
    simp only [OpenS, condS, ColliderOpen, List.not_mem_nil, false_and, exists_false] at ho
    obtain ⟨e1, e2, _⟩ := hv
    rcases e1 with ⟨rfl, rfl, e1⟩ | ⟨rfl, rfl, e1⟩ | ⟨_, _, e1⟩ | ⟨_, _, e1⟩
    · have : nx1 = 2 := by omega
      subst this
      rcases e2 with ⟨_, _, e2⟩ | ⟨rfl, rfl, _⟩ | ⟨_, _, e2⟩ | ⟨_, _, e2⟩
      · omega
      · simp at ho
      · exact e2.elim
      · exact e2.elim
    · omega
    · exact e1.elim
    · exact e1.elim

/-- the hypotheses of `pagOf_isPagOf` / `c09pag_spec` are satisfiable: the collider is a well-formed MAG -/
theorem exM_isMAG : exM.WF ∧ IsMAG exM := by
  refine ⟨⟨by simp [exM], by simp [exM], by simp [exM]⟩, rfl, rfl,
    ⟨C08.acyclic_of_rank id (by simp [exM]), by simp [exM]⟩, ?_⟩
  intro x y hx hy hxy hn
  have hx' : x = 0 ∨ x = 1 ∨ x = 2 := by simpa [exM] using hx
  have hy' : y = 0 ∨ y = 1 ∨ y = 2 := by simpa [exM] using hy
  have h01 : (x = 0 ∧ y = 1) ∨ (x = 1 ∧ y = 0) := by
    rcases hx' with rfl | rfl | rfl <;> rcases hy' with rfl | rfl | rfl <;>
      first | exact absurd rfl hxy | exact Or.inl ⟨rfl, rfl⟩ | exact Or.inr ⟨rfl, rfl⟩ |
        (exfalso; revert hn; decide)
  rcases h01 with ⟨rfl, rfl⟩ | ⟨rfl, rfl⟩
  · exact ⟨[], by simp, exM_sep⟩
  · exact ⟨[], by simp, exM_sep.symm⟩

example : IsPagOf exM (pagOf exM) := pagOf_isPagOf exM_isMAG.1 exM_isMAG.2

/-- the right-hand side of `c09valid_ok_iff` is satisfiable by a non-trivial request: the PAG
    `0 o-> 2 <-o 1` (two circles), source MAG and returned graph the collider -/
example : (WF4 exP ∧ SourceOK exM) ∧ ClassClauses exP exM exM := by
  refine ⟨⟨by simp [WF4, exP], ⟨by simp [WF4, exM], rfl, rfl, by simp [exM]⟩⟩, ?_⟩
  have hmarks : ∀ a b, markAt exM a b = none ∨ (markAt exM a b = markAt exP a b) ∨
      (markAt exM a b = some .tail ∧ markAt exP a b = some .circle) := by
    intro a b
    by_cases h1 : (a, b) = (0, 2) ∨ (a, b) = (1, 2) ∨ (a, b) = (2, 0) ∨ (a, b) = (2, 1)
    · rcases h1 with h | h | h | h <;> (cases h; decide)
    · left
      rw [markAt_none_iff]
      simp only [Prod.mk.injEq, not_or, not_and] at h1
      simp [exM]; omega
  have hP : ∀ a b, markAt exP a b = none ↔ markAt exM a b = none := by
    intro a b
    rw [markAt_none_iff, markAt_none_iff]
    simp [exM, exP]; omega
  refine ⟨⟨fun _ => Iff.rfl, ?_, ?_, ?_, ?_⟩, exM_isMAG.2.ancestral, ?_, rfl, exM_isMAG.2.maximal,
    fun _ => Iff.rfl, MarkovEquiv.refl _⟩
  · intro a b
    rw [Option.isSome_iff_ne_none, Option.isSome_iff_ne_none, Ne, Ne, hP]
  · intro a b h
    rcases hmarks a b with hm | hm | ⟨_, hm⟩
    · rw [(hP a b).mpr hm] at h; cases h
    · rw [hm]; exact h
    · rw [hm] at h; cases h
  · intro a b h
    rcases hmarks a b with hm | hm | ⟨_, hm⟩
    · rw [(hP a b).mpr hm] at h; cases h
    · rw [hm]; exact h
    · rw [hm] at h; cases h
  · intro a b
    rw [Ne, markAt_circle_iff]; simp [exM]
  · intro a c b ⟨h1, h2, h3, h4⟩
    have e1 : markAt exP a c = some .head := by
      rcases hmarks a c with hm | hm | ⟨hm, _⟩
      · rw [hm] at h1; cases h1
      · rw [← hm]; exact h1
      · rw [hm] at h1; cases h1
    have e2 : markAt exP b c = some .head := by
      rcases hmarks b c with hm | hm | ⟨hm, _⟩
      · rw [hm] at h2; cases h2
      · rw [← hm]; exact h2
      · rw [hm] at h2; cases h2
    exact ⟨e1, e2, h3, (hP a b).mpr h4⟩

end C09
