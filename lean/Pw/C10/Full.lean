import Pw.C10.Struct
import Pw.C10.Sep
open Closure

/-! # C10: model = specification

* `struct_conv`, `exact_conv`: the model's output satisfies the structure sentence (and contains
  nothing else), for every label type / injective name supply / well-formed acyclic input;
* `isConv_encode`: under any encoding of labels by numbers that is injective on the result's
  nodes, (G, conv G) is an instance of the relation `IsConv` of `Sep.lean`;
* hence `sepPreserved_conv_encode`: separation is preserved (second sentence);
* `C10.hasCycle_false_iff`: the executable DAG test of the validator is acyclicity. -/
namespace C10
variable {α : Type} [DecidableEq α]

/-! ## acyclicity -/

theorem DG.mem_children {R : DG α} {v c : α} : c ∈ R.children v ↔ (v, c) ∈ R.edges := by
  simp only [DG.children, List.mem_map, List.mem_filter, beq_iff_eq]
  constructor
  · rintro ⟨⟨a, b⟩, ⟨h, rfl⟩, rfl⟩; exact h
  · intro h; exact ⟨(v, c), ⟨h, rfl⟩, rfl⟩

/-- edge endpoints are nodes (true of every networkx graph) -/
def DG.Closed (R : DG α) : Prop := ∀ e ∈ R.edges, e.1 ∈ R.names ∧ e.2 ∈ R.names

theorem DG.Reaches.trans {R : DG α} {a b c : α} (h1 : R.Reaches a b) (h2 : R.Reaches b c) :
    R.Reaches a c := by
  induction h1 with
  | refl => exact h2
  | step e _ ih => exact .step e (ih h2)

theorem reach_children_reaches {R : DG α} {a b : α} (h : Reach R.names R.children a b) :
    R.Reaches a b := by
  induction h with
  | refl => exact .refl _
  | tail _ s ih => exact ih.trans (.step (DG.mem_children.mp s.1) (.refl _))

theorem reaches_reach_children {R : DG α} (hcl : R.Closed) {a b : α} (h : R.Reaches a b) :
    Reach R.names R.children a b := by
  induction h with
  | refl => exact Reach.refl _
  | step e _ ih => exact Reach.head ⟨DG.mem_children.mpr e, (hcl _ e).2⟩ ih

/-- the validator's cycle test decides "is a DAG" -/
theorem hasCycle_false_iff (R : DG α) (hcl : R.Closed) : R.hasCycle = false ↔ R.IsDAG := by
  unfold DG.hasCycle DG.IsDAG
  rw [List.any_eq_false]
  constructor
  · intro h a b hab hba
    apply h a (hcl _ hab).1
    simp only [decide_eq_true_eq]
    rw [mem_closure]
    exact ⟨b, DG.mem_children.mpr hab, (hcl _ hab).2, reaches_reach_children hcl hba⟩
  · intro h v _ hv
    simp only [decide_eq_true_eq] at hv
    rw [mem_closure] at hv
    obtain ⟨c, hc, _, hr⟩ := hv
    exact h v c (DG.mem_children.mp hc) (reach_children_reaches hr)

/-- the directed layer of the input as a DiGraph -/
def LG.dirDG (G : LG α) : DG α := { nodes := G.nodes, edges := G.dir }

/-! ## consequences of the closed form -/

theorem fst_inj_of_nodup : ∀ {l : List (α × (α × α))}, (l.map (·.1)).Nodup →
    ∀ p ∈ l, ∀ p' ∈ l, p.1 = p'.1 → p = p'
  | [], _, _, hp, _, _, _ => by cases hp
  | x :: l, hnd, p, hp, p', hp', heq => by
    simp only [List.map_cons, List.nodup_cons] at hnd
    rcases List.mem_cons.mp hp with rfl | hq <;> rcases List.mem_cons.mp hp' with rfl | hq'
    · rfl
    · exact absurd (heq ▸ List.mem_map.mpr ⟨p', hq', rfl⟩) hnd.1
    · exact absurd (heq ▸ List.mem_map.mpr ⟨p, hq, rfl⟩) hnd.1
    · exact fst_inj_of_nodup hnd.2 p hq p' hq' heq

section conv
variable (fresh : Nat → α) (hinj : ∀ i j, fresh i = fresh j → i = j) {G : LG α} (hwf : G.WF)
include hinj hwf

theorem conv_names : (conv fresh G).names = G.names ++ (convAsg fresh G).map (·.1) := by
  obtain ⟨_, _, _, h4, _⟩ := conv_spec fresh hinj hwf
  simp [DG.names, LG.names, h4, List.map_append, List.map_map, Function.comp_def]

theorem asg_bi_mem {p : α × (α × α)} (hp : p ∈ convAsg fresh G) : p.2 ∈ G.bi := by
  obtain ⟨h1, _⟩ := conv_spec fresh hinj hwf
  rw [← h1]; exact List.mem_map.mpr ⟨p, hp, rfl⟩

/-- **the new nodes**: every pair (u, e) produced by the loop makes `u` a new parentless node whose
    only children are the endpoints of `e` -/
theorem newNodeFor_of_mem_asg {p : α × (α × α)} (hp : p ∈ convAsg fresh G) :
    NewNodeFor G (conv fresh G) p.1 p.2 := by
  obtain ⟨h1, h2, h3, h4, h5⟩ := conv_spec fresh hinj hwf
  have hb := hwf.bi_mem _ (asg_bi_mem fresh hinj hwf hp)
  refine ⟨?_, h2 p hp, ?_, ?_, ?_, ?_⟩
  · rw [conv_names fresh hinj hwf]
    exact List.mem_append_right _ (List.mem_map.mpr ⟨p, hp, rfl⟩)
  · intro q hq heq
    rcases (h5 q).mp hq with hd | ⟨p', hp', rfl | rfl⟩
    · exact h2 p hp (heq ▸ (hwf.dir_mem q hd).2)
    · exact h2 p hp (heq ▸ (hwf.bi_mem _ (asg_bi_mem fresh hinj hwf hp')).1)
    · exact h2 p hp (heq ▸ (hwf.bi_mem _ (asg_bi_mem fresh hinj hwf hp')).2)
  · exact (h5 _).mpr (Or.inr ⟨p, hp, Or.inl rfl⟩)
  · exact (h5 _).mpr (Or.inr ⟨p, hp, Or.inr rfl⟩)
  · intro q hq heq
    rcases (h5 q).mp hq with hd | ⟨p', hp', hq'⟩
    · exact absurd (heq ▸ (hwf.dir_mem q hd).1) (h2 p hp)
    · have hpp : p' = p := by
        apply fst_inj_of_nodup h3 p' hp' p hp
        rcases hq' with rfl | rfl <;> exact heq
      subst hpp
      rcases hq' with rfl | rfl
      · exact Or.inl rfl
      · exact Or.inr rfl

theorem conv_closed : (conv fresh G).Closed := by
  obtain ⟨_, _, _, _, h5⟩ := conv_spec fresh hinj hwf
  intro q hq
  rw [conv_names fresh hinj hwf]
  rcases (h5 q).mp hq with hd | ⟨p, hp, rfl | rfl⟩
  · exact ⟨List.mem_append_left _ (hwf.dir_mem q hd).1, List.mem_append_left _ (hwf.dir_mem q hd).2⟩
  · exact ⟨List.mem_append_right _ (List.mem_map.mpr ⟨p, hp, rfl⟩),
      List.mem_append_left _ (hwf.bi_mem _ (asg_bi_mem fresh hinj hwf hp)).1⟩
  · exact ⟨List.mem_append_right _ (List.mem_map.mpr ⟨p, hp, rfl⟩),
      List.mem_append_left _ (hwf.bi_mem _ (asg_bi_mem fresh hinj hwf hp)).2⟩

/-- from an original node only original nodes are reachable, along directed edges of G -/
theorem reaches_orig {b c : α} (h : (conv fresh G).Reaches b c) (hb : b ∈ G.names) :
    c ∈ G.names ∧ G.dirDG.Reaches b c := by
  obtain ⟨_, h2, _, _, h5⟩ := conv_spec fresh hinj hwf
  induction h with
  | refl => exact ⟨hb, .refl _⟩
  | step e _ ih =>
    rcases (h5 _).mp e with hd | ⟨p, hp, hq⟩
    · obtain ⟨hc, hr⟩ := ih (hwf.dir_mem _ hd).2
      exact ⟨hc, .step hd hr⟩
    · have : p.1 ∈ G.names := by
        rcases hq with hq | hq
        · rw [← (Prod.mk.inj hq).1]; exact hb
        · rw [← (Prod.mk.inj hq).1]; exact hb
      exact absurd this (h2 p hp)

/-- "returns a DAG" -/
theorem conv_isDAG (hacy : G.dirDG.IsDAG) : (conv fresh G).IsDAG := by
  obtain ⟨_, h2, _, _, h5⟩ := conv_spec fresh hinj hwf
  intro a b hab hba
  rcases (h5 _).mp hab with hd | ⟨p, hp, hq⟩
  · exact hacy a b hd (reaches_orig fresh hinj hwf hba (hwf.dir_mem _ hd).2).2
  · have hbV : b ∈ G.names := by
      have hbi := hwf.bi_mem _ (asg_bi_mem fresh hinj hwf hp)
      rcases hq with hq | hq
      · rw [(Prod.mk.inj hq).2]; exact hbi.1
      · rw [(Prod.mk.inj hq).2]; exact hbi.2
    have haV := (reaches_orig fresh hinj hwf hba hbV).1
    have : a = p.1 := by rcases hq with hq | hq <;> exact (Prod.mk.inj hq).1
    exact h2 p hp (this ▸ haV)

/-- **C10, first sentence.** For every label set (also one that contains generated names) the
    model's output satisfies the structure sentence. -/
theorem struct_conv (hacy : G.dirDG.IsDAG) : Struct G (conv fresh G) := by
  obtain ⟨h1, h2, h3, h4, h5⟩ := conv_spec fresh hinj hwf
  refine ⟨?_, ?_, ?_, ?_⟩
  · exact (hasCycle_false_iff _ (conv_closed fresh hinj hwf)).mpr (conv_isDAG fresh hinj hwf hacy)
  · intro p hp; rw [h4]; exact List.mem_append_left _ hp
  · intro e he; exact (h5 e).mpr (Or.inl he)
  · intro e he
    rw [← h1] at he
    obtain ⟨p, hp, rfl⟩ := List.mem_map.mp he
    exact ⟨p.1, (newNodeFor_of_mem_asg fresh hinj hwf hp).1, newNodeFor_of_mem_asg fresh hinj hwf hp⟩

/-- the new nodes are pairwise distinct and distinct from every node of G -/
theorem conv_names_nodup : (conv fresh G).names.Nodup := by
  obtain ⟨_, h2, h3, _, _⟩ := conv_spec fresh hinj hwf
  rw [conv_names fresh hinj hwf, List.nodup_append]
  refine ⟨hwf.nodup, h3, ?_⟩
  intro a ha b hb hab
  obtain ⟨p, hp, rfl⟩ := List.mem_map.mp hb
  exact h2 p hp (hab ▸ ha)

end conv

/-- no two bidirected edges join the same pair (the bidirected layer is an `nx.Graph`) -/
def LG.BiDistinct (G : LG α) : Prop :=
  G.bi.Pairwise fun e e' => ¬ ((e.1 = e'.1 ∧ e.2 = e'.2) ∨ (e.1 = e'.2 ∧ e.2 = e'.1))

theorem snd_inj_of_pairwise {S : (α × α) → (α × α) → Prop} (hsymm : ∀ a b, S a b → S b a) :
    ∀ {l : List (α × (α × α))}, (l.map (·.2)).Pairwise (fun e e' => ¬ S e e') →
    ∀ p ∈ l, ∀ p' ∈ l, S p.2 p'.2 → p = p'
  | [], _, _, hp, _, _, _ => by cases hp
  | x :: l, hpw, p, hp, p', hp', hs => by
    simp only [List.map_cons, List.pairwise_cons] at hpw
    rcases List.mem_cons.mp hp with rfl | hq <;> rcases List.mem_cons.mp hp' with rfl | hq'
    · rfl
    · exact absurd hs (hpw.1 _ (List.mem_map.mpr ⟨p', hq', rfl⟩))
    · exact absurd (hsymm _ _ hs) (hpw.1 _ (List.mem_map.mpr ⟨p, hq, rfl⟩))
    · exact snd_inj_of_pairwise hsymm hpw.2 p hq p' hq' hs

/-- the model's output contains nothing beyond what the structure sentence lists -/
theorem exact_conv (fresh : Nat → α) (hinj : ∀ i j, fresh i = fresh j → i = j) {G : LG α}
    (hwf : G.WF) (hbd : G.BiDistinct) : Exact G (conv fresh G) := by
  obtain ⟨h1, h2, h3, h4, h5⟩ := conv_spec fresh hinj hwf
  refine ⟨conv_names_nodup fresh hinj hwf, ?_, ?_, ?_⟩
  · intro u hu
    rw [conv_names fresh hinj hwf] at hu
    rcases List.mem_append.mp hu with hu | hu
    · exact Or.inl hu
    · obtain ⟨p, hp, rfl⟩ := List.mem_map.mp hu
      exact Or.inr ⟨p.2, asg_bi_mem fresh hinj hwf hp, newNodeFor_of_mem_asg fresh hinj hwf hp⟩
  · intro q hq
    rcases (h5 q).mp hq with hd | ⟨p, hp, rfl | rfl⟩
    · exact Or.inl hd
    · exact Or.inr (h2 p hp)
    · exact Or.inr (h2 p hp)
  · intro e _ u hu u' hu' hn hn'
    -- both are new nodes of the loop
    have key : ∀ w, w ∈ (conv fresh G).names → NewNodeFor G (conv fresh G) w e →
        ∃ p ∈ convAsg fresh G, p.1 = w ∧
          ((p.2.1 = e.1 ∧ p.2.2 = e.2) ∨ (p.2.1 = e.2 ∧ p.2.2 = e.1)) := by
      intro w hw hnw
      rw [conv_names fresh hinj hwf] at hw
      rcases List.mem_append.mp hw with hw | hw
      · exact absurd hw hnw.2.1
      · obtain ⟨p, hp, rfl⟩ := List.mem_map.mp hw
        refine ⟨p, hp, rfl, ?_⟩
        have hc := hnw.2.2.2.2.2
        have hp' := newNodeFor_of_mem_asg fresh hinj hwf hp
        have c1 := hc _ hp'.2.2.2.1 rfl
        have c2 := hc _ hp'.2.2.2.2.1 rfl
        have d1 := hp'.2.2.2.2.2 _ hnw.2.2.2.1 rfl
        have d2 := hp'.2.2.2.2.2 _ hnw.2.2.2.2.1 rfl
        simp only at c1 c2 d1 d2
        grind
    obtain ⟨p, hp, rfl, hpe⟩ := key u hu hn
    obtain ⟨p', hp', rfl, hpe'⟩ := key u' hu' hn'
    have : p = p' := by
      refine snd_inj_of_pairwise (S := fun e e' => (e.1 = e'.1 ∧ e.2 = e'.2) ∨ (e.1 = e'.2 ∧ e.2 = e'.1))
        ?_ (by rw [h1]; exact hbd) p hp p' hp' ?_
      · rintro a b (⟨x, y⟩ | ⟨x, y⟩)
        · exact Or.inl ⟨x.symm, y.symm⟩
        · exact Or.inr ⟨y.symm, x.symm⟩
      · grind
    rw [this]

end C10
