import Pw.Core.Graph

/-! # C18 specification: uncovered potentially-directed paths and discriminating paths in a PAG

The graph is an `MG` (`dir`: `(a,b)` = arrowhead at b coming from a; `circ`: `(a,b)` = circle mark at
b; `bi`, `un` unordered).  The PAG docstring table (classes/pag.py):

  a -> b : dir (a,b)              a <-> b : bi {a,b}          a -- b : un {a,b}
  a o-o b : circ (a,b),(b,a)      a o-> b : dir (a,b) + circ (b,a)
  (a -o b : circ (a,b) only — tail at a; outside the property's quantifier but given a meaning)

Everything here is `Bool`-valued and structurally recursive so that the specification is its own
decision procedure (`decide (UncovPd G q p)`), which the driver uses to validate the paths returned
by the implementation. -/
namespace C18

def hD (G : MG) (a b : Nat) : Bool := decide ((a, b) ∈ G.dir)
def hC (G : MG) (a b : Nat) : Bool := decide ((a, b) ∈ G.circ)
def hB (G : MG) (a b : Nat) : Bool := decide ((a, b) ∈ G.bi) || decide ((b, a) ∈ G.bi)
def hU (G : MG) (a b : Nat) : Bool := decide ((a, b) ∈ G.un) || decide ((b, a) ∈ G.un)

/-- a and b are adjacent (some edge of some kind joins them) -/
def adj (G : MG) (a b : Nat) : Bool :=
  hD G a b || hD G b a || hB G a b || hU G a b || hC G a b || hC G b a

inductive Mk | tail | head | circle
deriving DecidableEq, Repr

/-- the mark at `b` of the edge between `a` and `b` (`none`: not adjacent) -/
def mark (G : MG) (a b : Nat) : Option Mk :=
  if hD G a b || hB G a b then some .head
  else if hC G a b then some .circle
  else if hD G b a || hU G a b || hC G b a then some .tail
  else none

/-- the property's domain: at most one edge kind per pair (the kinds of the table above) and no
    self loops -/
def Simple (G : MG) : Prop := ∀ a b : Nat,
  (hB G a b = true → hD G a b = false ∧ hD G b a = false ∧ hU G a b = false ∧ hC G a b = false ∧ hC G b a = false) ∧
  (hU G a b = true → hD G a b = false ∧ hD G b a = false ∧ hC G a b = false ∧ hC G b a = false) ∧
  (hD G a b = true → hD G b a = false ∧ hC G a b = false) ∧
  adj G a a = false

/-- consecutive elements are related by `r` -/
def chainB (r : Nat → Nat → Bool) : List Nat → Bool
  | a :: b :: t => r a b && chainB r (b :: t)
  | _ => true

/-- every consecutive triple `x, y, z` of the list is unshielded: x and z are not adjacent -/
def unsh (G : MG) : List Nat → Bool
  | x :: y :: z :: t => !adj G x z && unsh G (y :: z :: t)
  | _ => true

/-! ## uncovered potentially directed path -/

/-- query of `uncovered_pd_path(graph, u, c, None, first_node, second_node, force_circle, forbid_node)` -/
structure Query where
  u : Nat
  c : Nat
  first : Option Nat := none
  second : Option Nat := none
  forbid : Option Nat := none
  fc : Bool := false
deriving Repr, DecidableEq

/-- the edge between the earlier node `x` and the later node `y` of a pd path: adjacent, not into
    `x` (no arrowhead at x), not out of `y` (no tail at y); with `force_circle`: circle marks only -/
def pdEdge (G : MG) (fc : Bool) (x y : Nat) : Bool :=
  if fc then mark G y x == some .circle && mark G x y == some .circle
  else adj G x y && mark G y x != some .head && mark G x y != some .tail

/-- `p` is an admissible return value of a successful `uncovered_pd_path` call:
    `p = [first_node] ++ core` (just `core` without `first_node`) where `core` is a path from u to c
    with at least one edge, every edge potentially directed (circle-only under `force_circle`),
    no repeated node in `p`, every consecutive triple of `p` unshielded (this includes the triple
    `first_node, u, core[1]`), `core[1] = second_node` if given, `core[1] ≠ forbid_node` if given. -/
def UncovPd (G : MG) (q : Query) (p : List Nat) : Prop :=
  let k := q.first.toList.length
  let core := p.drop k
  p.take k = q.first.toList ∧
  core.head? = some q.u ∧ core.getLast? = some q.c ∧ 2 ≤ core.length ∧
  p.Nodup ∧
  chainB (pdEdge G q.fc) core = true ∧
  unsh G p = true ∧
  (∀ s, q.second = some s → core[1]? = some s) ∧
  (∀ f, q.forbid = some f → core[1]? ≠ some f)

/-- the specification as a `Bool` function (its own decision procedure) -/
def uncovPdB (G : MG) (q : Query) (p : List Nat) : Bool :=
  let k := q.first.toList.length
  let core := p.drop k
  (p.take k == q.first.toList) && (core.head? == some q.u) && (core.getLast? == some q.c) &&
  decide (2 ≤ core.length) && decide p.Nodup && chainB (pdEdge G q.fc) core && unsh G p &&
  (match q.second with | some s => core[1]? == some s | none => true) &&
  (match q.forbid with | some f => core[1]? != some f | none => true)

theorem uncovPdB_iff (G : MG) (q : Query) (p : List Nat) : uncovPdB G q p = true ↔ UncovPd G q p := by
  unfold uncovPdB UncovPd
  cases q.second <;> cases q.forbid <;> simp [and_assoc]

instance (G : MG) (q : Query) (p : List Nat) : Decidable (UncovPd G q p) :=
  decidable_of_iff _ (uncovPdB_iff G q p)

/-! ## discriminating path -/

/-- arrowhead at `y` on the edge between `x` and `y` -/
def headAt (G : MG) (x y : Nat) : Bool := mark G x y == some .head
/-- `y` is a (definite) parent of `c`: `y -> c` -/
def parentOf (G : MG) (y c : Nat) : Bool := mark G y c == some .head && mark G c y == some .tail

/-- every inner node of the list is a collider on it and satisfies the parent test `par` -/
def innerColl (G : MG) (par : Nat → Bool) : List Nat → Bool
  | x :: y :: z :: t => headAt G x y && headAt G z y && par y && innerColl G par (y :: z :: t)
  | _ => true

/-- `p = (v, …, a, u, c)`: at least three edges, no repeated node, consecutive nodes adjacent, every
    node strictly between `v` and `u` is a collider on the path and passes `par`, and `v` is not
    adjacent to `c`.  (The inner nodes of `p.dropLast = (v,…,a,u)` are exactly the nodes between v
    and u.) -/
def DiscPathP (G : MG) (par : Nat → Bool) (u a c : Nat) (p : List Nat) : Prop :=
  4 ≤ p.length ∧ p.Nodup ∧
  p.getLast? = some c ∧ p.dropLast.getLast? = some u ∧ p.dropLast.dropLast.getLast? = some a ∧
  chainB (adj G) p = true ∧
  innerColl G par p.dropLast = true ∧
  (∀ v, p.head? = some v → adj G v c = false)

def discPathPB (G : MG) (par : Nat → Bool) (u a c : Nat) (p : List Nat) : Bool :=
  decide (4 ≤ p.length) && decide p.Nodup && (p.getLast? == some c) && (p.dropLast.getLast? == some u) &&
  (p.dropLast.dropLast.getLast? == some a) && chainB (adj G) p && innerColl G par p.dropLast &&
  (match p.head? with | some v => !adj G v c | none => true)

theorem discPathPB_iff (G : MG) (par : Nat → Bool) (u a c : Nat) (p : List Nat) :
    discPathPB G par u a c p = true ↔ DiscPathP G par u a c p := by
  unfold discPathPB DiscPathP
  cases p.head? <;> simp [and_assoc]

instance (G : MG) (par : Nat → Bool) (u a c : Nat) (p : List Nat) : Decidable (DiscPathP G par u a c p) :=
  decidable_of_iff _ (discPathPB_iff G par u a c p)

/-- **discriminating path for `u`**: every node between `v` and `u` is a collider on the path and a
    parent of `c` -/
def DiscPath (G : MG) (u a c : Nat) (p : List Nat) : Prop :=
  DiscPathP G (fun y => parentOf G y c) u a c p

instance (G : MG) (u a c : Nat) (p : List Nat) : Decidable (DiscPath G u a c p) := by
  unfold DiscPath; infer_instance

/-- what the code guarantees (known finding `C18-disc-a-possible-parent`): for the node `a` itself only
    an arrowhead at `c` is tested, so `a o-> c` passes -/
def DiscPathWeak (G : MG) (u a c : Nat) (p : List Nat) : Prop :=
  DiscPathP G (fun y => parentOf G y c || (y == a && hD G y c)) u a c p

instance (G : MG) (u a c : Nat) (p : List Nat) : Decidable (DiscPathWeak G u a c p) := by
  unfold DiscPathWeak; infer_instance

/-! ## brute-force deciders (oracles): enumerate the simple paths of the skeleton -/

/-- all lists `x :: …` with consecutive nodes adjacent, no repeated node, avoiding `avoid`, with at
    most `fuel` edges -/
def pathsFrom (G : MG) : Nat → List Nat → Nat → List (List Nat)
  | 0, _, x => [[x]]
  | fuel + 1, avoid, x =>
    [x] :: ((G.nodes.filter fun y => adj G x y && !decide (y ∈ x :: avoid)).flatMap fun y =>
      (pathsFrom G fuel (x :: avoid) y).map (x :: ·))

/-- does an uncovered pd path for the query exist? -/
def uncovExists (G : MG) (q : Query) : Bool :=
  (pathsFrom G G.nodes.length [] q.u).any fun core => decide (UncovPd G q (q.first.toList ++ core))

/-- does a discriminating path `(v,…,a,u,c)` exist?  (enumerated backwards from c) -/
def discExists (G : MG) (u a c : Nat) : Bool :=
  (pathsFrom G G.nodes.length [] c).any fun l => decide (DiscPath G u a c l.reverse)

end C18
