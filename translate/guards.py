"""C03 translator: the CURRENT source of `_check_adding_pag_edge` / `_check_adding_cpdag_edge`
(pywhy_graphs/algorithms/generic.py in PW_REPO) -> Lean definitions

    def C03.checkPag   (t : ET) (s : PBits) : Bool      -- true  <=>  the guard raises
    def C03.checkCpdag (t : ET) (s : CBits) : Bool

over the 6-bit (PAG) / 3-bit (CPDAG) state of the node pair named in the call, relative to the
ordered pair (u_of_edge, v_of_edge).

Translatable fragment (anything else => `Untranslatable`):
  statements : `raise_error = <bool expr>`, `if/elif/else`, `raise ...`, `return`, `pass`, docstrings
  conditions : and / or / not, True / False, `raise_error`,
               `graph.has_edge(a, b[, layer])` with a, b in {u_of_edge, v_of_edge}, a != b and
                  layer = `graph.<name>_edge_name` | "<name>" | "any" (or omitted = any layer),
               `edge_type ==|!= EdgeType.X.value | "<name>" | graph.<name>_edge_name`,
               `edge_type in|not in (<those>, ...)`

The translation is a plain continuation-passing fold over the statement list, so Python's
sequential semantics (a later `raise` is only reached when no earlier one fired; `raise_error` holds
the last assigned value) is kept literally.  Nothing is simplified."""
import ast
import hashlib
import os
import sys

FUNCS = {"_check_adding_pag_edge": ("checkPag", "PBits", ("directed", "circle", "bidirected", "undirected")),
         "_check_adding_cpdag_edge": ("checkCpdag", "CBits", ("directed", "undirected"))}
ENUM = {"ALL": "all", "CIRCLE": "circle", "DIRECTED": "directed", "BIDIRECTED": "bidirected",
        "UNDIRECTED": "undirected"}
ETYPES = ("all", "directed", "bidirected", "circle", "undirected")
GRAPH, U, V, ET, FLAG = "graph", "u_of_edge", "v_of_edge", "edge_type", "raise_error"


class Untranslatable(Exception):
    pass


def _bad(node, why):
    raise Untranslatable("%s at line %s: %s" % (why, getattr(node, "lineno", "?"),
                                                 ast.dump(node)[:160]))


class _Fn:
    def __init__(self, fn, layers):
        self.fn, self.layers = fn, layers

    # ---- expressions
    def etype_const(self, e):
        """EdgeType.X.value | "name" | graph.<name>_edge_name  ->  Lean ET constructor"""
        if isinstance(e, ast.Attribute) and e.attr == "value" and isinstance(e.value, ast.Attribute) \
                and isinstance(e.value.value, ast.Name) and e.value.value.id == "EdgeType" \
                and e.value.attr in ENUM:
            return "ET." + ENUM[e.value.attr]
        if isinstance(e, ast.Constant) and isinstance(e.value, str):
            return "ET." + e.value if e.value in ETYPES else "ET.other"
        if isinstance(e, ast.Attribute) and isinstance(e.value, ast.Name) and e.value.id == GRAPH \
                and e.attr.endswith("_edge_name") and e.attr[:-len("_edge_name")] in self.layers:
            return "ET." + e.attr[:-len("_edge_name")]
        _bad(e, "edge-type constant outside the fragment")

    def layer(self, e):
        if isinstance(e, ast.Attribute) and isinstance(e.value, ast.Name) and e.value.id == GRAPH \
                and e.attr.endswith("_edge_name"):
            name = e.attr[:-len("_edge_name")]
        elif isinstance(e, ast.Constant) and isinstance(e.value, str):
            name = e.value
        else:
            _bad(e, "layer argument outside the fragment")
        if name == "any":
            return "any"
        if name not in self.layers:
            _bad(e, "layer %r does not exist in this class" % name)
        return name

    def expr(self, e):
        if isinstance(e, ast.BoolOp):
            op = " || " if isinstance(e.op, ast.Or) else " && "
            return "(" + op.join(self.expr(v) for v in e.values) + ")"
        if isinstance(e, ast.UnaryOp) and isinstance(e.op, ast.Not):
            return "(!" + self.expr(e.operand) + ")"
        if isinstance(e, ast.Constant) and isinstance(e.value, bool):
            return "true" if e.value else "false"
        if isinstance(e, ast.Name) and e.id == FLAG:
            return "r"
        if isinstance(e, ast.Call) and isinstance(e.func, ast.Attribute) and e.func.attr == "has_edge" \
                and isinstance(e.func.value, ast.Name) and e.func.value.id == GRAPH:
            args = list(e.args)
            kw = {k.arg: k.value for k in e.keywords}
            if set(kw) - {"edge_type"} or len(args) not in (2, 3) or (len(args) == 3 and kw):
                _bad(e, "has_edge call shape outside the fragment")
            if not all(isinstance(a, ast.Name) for a in args[:2]):
                _bad(e, "has_edge node argument outside the fragment")
            ab = (args[0].id, args[1].id)
            if ab == (U, V):
                d = "uv"
            elif ab == (V, U):
                d = "vu"
            else:
                _bad(e, "has_edge must be called on (u_of_edge, v_of_edge) in either order")
            lay = args[2] if len(args) == 3 else kw.get("edge_type")
            name = "any" if lay is None else self.layer(lay)
            return "s.%s_%s" % (name, d)
        if isinstance(e, ast.Compare) and len(e.ops) == 1 and isinstance(e.left, ast.Name) and e.left.id == ET:
            op, c = e.ops[0], e.comparators[0]
            if isinstance(op, (ast.Eq, ast.NotEq)):
                t = "(t == %s)" % self.etype_const(c)
                return t if isinstance(op, ast.Eq) else "(!%s)" % t
            if isinstance(op, (ast.In, ast.NotIn)) and isinstance(c, (ast.Tuple, ast.List, ast.Set)) and c.elts:
                t = "(" + " || ".join("(t == %s)" % self.etype_const(x) for x in c.elts) + ")"
                return t if isinstance(op, ast.In) else "(!%s)" % t
        _bad(e, "expression outside the fragment")

    # ---- statements: `k` is the Lean Bool expression for "what happens after this block"
    def block(self, stmts, k):
        out = k
        for st in reversed(stmts):
            out = self.stmt(st, out)
        return out

    def stmt(self, st, k):
        if isinstance(st, ast.Expr) and isinstance(st.value, ast.Constant):
            return k                                    # docstring / bare constant
        if isinstance(st, ast.Pass):
            return k
        if isinstance(st, ast.Raise):
            return "true"
        if isinstance(st, ast.Return) and (st.value is None or
                                           (isinstance(st.value, ast.Constant) and st.value.value is None)):
            return "false"
        if isinstance(st, ast.Assign) and len(st.targets) == 1 and isinstance(st.targets[0], ast.Name) \
                and st.targets[0].id == FLAG:
            return "(let r := %s; %s)" % (self.expr(st.value), k)
        if isinstance(st, ast.If):
            return "(if %s then %s else %s)" % (self.expr(st.test), self.block(st.body, k),
                                                self.block(st.orelse, k))
        _bad(st, "statement outside the fragment")

    def translate(self, lean_name, bits):
        fn = self.fn
        a = fn.args
        names = [x.arg for x in a.posonlyargs + a.args]
        if names != [GRAPH, U, V, ET] or a.vararg or a.kwarg or a.kwonlyargs:
            _bad(fn, "unexpected signature %r" % names)
        body = [s for s in fn.body if not (isinstance(s, ast.Expr) and isinstance(s.value, ast.Constant))]
        reads = any(isinstance(n, ast.Name) and n.id == FLAG and isinstance(n.ctx, ast.Load) for n in ast.walk(fn))
        first_assign = (body and isinstance(body[0], ast.Assign) and isinstance(body[0].targets[0], ast.Name)
                        and body[0].targets[0].id == FLAG and isinstance(body[0].value, ast.Constant))
        if reads and not first_assign:
            _bad(fn, "`raise_error` is read but not initialised by the first statement")
        return "def %s (t : ET) (s : %s) : Bool :=\n  %s" % (lean_name, bits, self.block(body, "false"))


def fingerprint(fn):
    """normalised-AST hash (docstrings and positions dropped)"""
    fn = ast.parse(ast.unparse(fn)).body[0]
    if fn.body and isinstance(fn.body[0], ast.Expr) and isinstance(fn.body[0].value, ast.Constant):
        fn.body = fn.body[1:] or [ast.Pass()]
    return hashlib.sha1(ast.dump(fn).encode()).hexdigest()[:16]


def source_path(repo):
    return os.path.join(repo, "pywhy_graphs", "algorithms", "generic.py")


def translate_repo(repo):
    """returns (lean definitions text, {python name: fingerprint})"""
    src = open(source_path(repo)).read()
    fns = {n.name: n for n in ast.parse(src).body if isinstance(n, ast.FunctionDef)}
    defs, fps = [], {}
    for py, (lean, bits, layers) in FUNCS.items():
        if py not in fns:
            raise Untranslatable("function %s not found in %s" % (py, source_path(repo)))
        defs.append(_Fn(fns[py], layers).translate(lean, bits))
        fps[py] = fingerprint(fns[py])
    return "\n\n".join(defs) + "\n", fps


HEADER = ("/-! GENERATED by translate/guards.py from pywhy_graphs/algorithms/generic.py -- do not edit.\n"
          "    `checkPag t s` / `checkCpdag t s` = the guard raises when asked to add an edge of type `t`\n"
          "    on the ordered pair (u,v) whose current marks are `s`. -/\n")


def module_text(defs, imports=("Pw.C03.Bits",)):
    return ("".join("import %s\n" % m for m in imports) + HEADER + "namespace C03\n\n" + defs + "\nend C03\n")


if __name__ == "__main__":
    repo = os.environ.get("PW_REPO", "/repo")
    try:
        d, fp = translate_repo(repo)
    except Untranslatable as e:
        print("untranslatable: %s" % e)
        sys.exit(3)
    sys.stdout.write(module_text(d))
