import Pw.Core.Graph
open Closure

/-! # C08 model: the Meek-rule closure `_apply_meek_rules` and `_meek_rule1 … _meek_rule4`
(pywhy_graphs/algorithms/pag.py), as on the tree after the two `fix:` commits
(rule 1 iterates the *parents* of `i`; rule 4 is the textbook rule `i - k -> l -> j`, `k`,`j` non-adjacent).

A CPDAG object is an `MG` with the `dir` and `un` layers (`bi`, `circ` unused).  Iteration orders are
inputs: `G.nodes` is the insertion order of `graph.nodes`; `inner` is the order in which a Python
`set` of nodes is iterated (`graph.neighbors(i)` builds a set).  The theorems hold for every order.
`excluded_triples` is empty (the property does not speak about conservative triples). -/
namespace C08

/-- `graph.has_edge(a, b, 'directed')` -/
def hasDir (G : MG) (a b : Nat) : Bool := decide ((a, b) ∈ G.dir)
/-- `graph.has_edge(a, b, 'undirected')` (a `networkx.Graph`: symmetric lookup) -/
def hasUn (G : MG) (a b : Nat) : Bool := decide ((a, b) ∈ G.un) || decide ((b, a) ∈ G.un)
/-- `b in graph.neighbors(a)`: `nx.all_neighbors` over both layers -/
def adj (G : MG) (a b : Nat) : Bool := hasDir G a b || hasDir G b a || hasUn G a b
/-- `graph.neighbors(i)`, iterated in the set order `inner` -/
def nbrs (G : MG) (inner : List Nat) (i : Nat) : List Nat := inner.filter (adj G i)

/-- `nx.ancestors(directed, v)`: nodes with a directed path to `v`, `v` itself removed -/
def ancS (G : MG) (v : Nat) : List Nat :=
  (closure G.nodes G.parents (G.parents v)).filter (· != v)
/-- `nx.descendants(directed, v)` -/
def descS (G : MG) (v : Nat) : List Nat :=
  (closure G.nodes G.children (G.children v)).filter (· != v)

/-- `CPDAG.orient_uncertain_edge(i, j)`: remove the undirected edge, add `i -> j` -/
def orient (G : MG) (i j : Nat) : MG :=
  { G with un := G.un.filter (fun e => !(e == (i, j) || e == (j, i))), dir := G.dir ++ [(i, j)] }

/-- common shape of the four rules: `if graph.has_edge(i, j, undirected): … if <condition>:
    graph.orient_uncertain_edge(i, j); added_arrows = True`; returns the graph and `added_arrows` -/
def fire (G : MG) (i j : Nat) (c : Bool) : MG × Bool :=
  if hasUn G i j && c then (orient G i j, true) else (G, false)

/-- condition of `_meek_rule1`: some parent `k` of `i` is not adjacent to `j` -/
def cond1 (G : MG) (i j : Nat) : Bool := (G.parents i).any fun k => !adj G k j
def rule1 (G : MG) (i j : Nat) : MG × Bool := fire G i j (cond1 G i j)

/-- condition of `_meek_rule2`: `descendants(i) ∩ ancestors(j)` is non-empty
    (the code filters both sets by "no directed edge back", mirrored literally) -/
def cond2 (G : MG) (i j : Nat) : Bool :=
  let childI := (descS G i).filter (fun k => !hasDir G k i)
  let parentJ := (ancS G j).filter (fun k => !hasDir G j k)
  childI.any (fun k => decide (k ∈ parentJ))
def rule2 (G : MG) (i j : Nat) : MG × Bool := fire G i j (cond2 G i j)

/-- `itertools.combinations(l, 2)` -/
def combos : List Nat → List (Nat × Nat)
  | [] => []
  | a :: t => t.map (a, ·) ++ combos t

/-- condition of `_meek_rule3`: two non-adjacent neighbours `k`, `l` of `i` with `k -> j <- l`,
    `i - k`, `i - l` -/
def cond3 (G : MG) (inner : List Nat) (i j : Nat) : Bool :=
  (combos (nbrs G inner i)).any fun (k, l) =>
    !adj G k l && !(hasDir G j k || !hasDir G k j) && !(hasDir G j l || !hasDir G l j) &&
    (hasUn G k i && hasUn G l i)
def rule3 (G : MG) (inner : List Nat) (i j : Nat) : MG × Bool := fire G i j (cond3 G inner i j)

/-- condition of `_meek_rule4` (after the fix): a neighbour `k ≠ j` with `i - k`, `k` not adjacent
    to `j`, and a child `l` of `k` with `l -> j` -/
def cond4 (G : MG) (inner : List Nat) (i j : Nat) : Bool :=
  (nbrs G inner i).any fun k =>
    !(k == j || !hasUn G i k) && !adj G k j && (G.children k).any (fun l => hasDir G l j)
def rule4 (G : MG) (inner : List Nat) (i j : Nat) : MG × Bool := fire G i j (cond4 G inner i j)

/-- loop body for one ordered pair `(i, j)`: the four rules one after the other on the mutated graph -/
def applyPair (G : MG) (inner : List Nat) (i j : Nat) : MG × Bool :=
  if i == j then (G, false) else
    let r1 := rule1 G i j
    let r2 := rule2 r1.1 i j
    let r3 := rule3 r2.1 inner i j
    let r4 := rule4 r3.1 inner i j
    (r4.1, r1.2 || r2.2 || r3.2 || r4.2)

/-- `for j in graph.neighbors(i)` (the neighbour set is built once, before the loop over `j`) -/
def innerLoop (inner : List Nat) (i : Nat) : List Nat → MG × Bool → MG × Bool
  | [], s => s
  | j :: js, (G, ch) =>
    let r := applyPair G inner i j
    innerLoop inner i js (r.1, ch || r.2)

/-- `for i in graph.nodes` -/
def outerLoop (inner : List Nat) : List Nat → MG × Bool → MG × Bool
  | [], s => s
  | i :: is, (G, ch) => outerLoop inner is (innerLoop inner i (nbrs G inner i) (G, ch))

/-- one sweep of the `while` body: returns the graph and `change_flag` -/
def pass (G : MG) (inner : List Nat) : MG × Bool := outerLoop inner G.nodes (G, false)

/-- `while not completed` with fuel -/
def meekLoop (inner : List Nat) : Nat → MG → MG
  | 0, G => G
  | f + 1, G =>
    let r := pass G inner
    if r.2 then meekLoop inner f r.1 else r.1

/-- `_apply_meek_rules(graph)`: every sweep that reports a change removes an undirected edge, so
    `un.length + 1` sweeps suffice (theorem `C08.meek_fixpoint`). -/
def meek (G : MG) (inner : List Nat) : MG := meekLoop inner (G.un.length + 1) G

end C08
